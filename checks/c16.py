"""C16 - flag and register accessors touch exactly the named bits.
proof: Props/C16.v about the GENERATED GPR_GetFlag/SetFlag/ResetFlag, Register_SetU16/U16, const_Flag*;
correspondence: the same functions, extracted, against the real methods (exhaustive in the thorough tier)."""
import time
from lib import common, pipeline

PROP = "C16"


def cases(tier, rng):
    lines = []
    n = 0
    if tier == "thorough":
        pairs = [(f, m) for f in range(256) for m in range(256)]
        words = range(65536)
    else:
        pairs = [(f, m) for f in (0, 1, 0x55, 0xAA, 0x80, 0xFF, 0x28, 0xD7) for m in range(256)]
        pairs += [(rng.below(256), rng.below(256)) for _ in range(2000)]
        words = list(range(0, 65536, 257)) + [0, 1, 255, 256, 0x7FFF, 0x8000, 0xFFFE, 0xFFFF] + [rng.below(65536) for _ in range(1500)]
    for f, m in pairs:
        a = (f * 7 + m * 13 + 5) & 0xFF
        for kind in ("getflag", "setflag", "resetflag"):
            lines.append("%s %s%d %d %d %d" % (kind, kind[0], n, a, f, m))
            n += 1
    lines.append("consts k0")
    for v in words:
        lines.append("setu16 u%d %d %d %d" % (n, (v * 3) & 0xFF, (v * 5 + 1) & 0xFF, v))
        n += 1
    return lines


def oracle(line):
    """the property text itself, computed directly (used by the search)."""
    t = line.split()
    kind, i = t[0], t[1]
    x = [int(v) for v in t[2:]]
    if kind == "getflag":
        return [str(int((x[1] & x[2]) != 0))]
    if kind == "setflag":
        return [str(v) for v in (x[0], x[1] | x[2], 1, 2, 3, 4, 5, 6)]
    if kind == "resetflag":
        return [str(v) for v in (x[0], x[1] & ~x[2] & 0xFF, 1, 2, 3, 4, 5, 6)]
    if kind == "consts":
        return ["1", "2", "4", "8", "16", "32", "64", "128"]
    if kind == "setu16":
        return [str(v) for v in (x[2] >> 8, x[2] & 0xFF, x[2])]


def search(lines, go_bin):
    go = pipeline.run_lines(go_bin, lines)
    for l in lines:
        i = l.split()[1]
        if go.get(i) != oracle(l):
            return {"case": l, "expected": oracle(l), "observed": go.get(i)}
    return None


def run(tier, seed):
    t0 = time.time()
    rng = common.Rng(seed)
    pr = pipeline.proof_stage(PROP)
    lines = cases(tier, rng)
    broken = pr["broken"]
    detail = pr["detail"]
    mism = []
    try:
        go_bin = pipeline.build_stepper()
    except common.GoBuildError as e:
        common.violation(PROP, {"broken": "the Go harness no longer builds against the repository", "detail": str(e)[-1500:], "input": None}, found_input=False)
        return 1
    if not broken:
        drv = pipeline.build_driver()
        mism, _ = pipeline.compare([l for l in lines if not l.startswith("consts")], go_bin, drv, model=0)
        if mism:
            broken = "correspondence Gen-vs-Go on %d of %d cases" % (len(mism), len(lines))
            detail = str(mism[0])
    if broken:
        w = search(lines, go_bin)
        rep = {"property": PROP, "broken": broken, "detail": detail, "tier": tier, "seed": seed, "repo": common.repo_describe()}
        if w:
            rep["input"] = w
            common.violation(PROP, rep)
        else:
            rep["input"] = None
            rep["searched"] = {"cases": len(lines), "oracle": "property text computed directly"}
            common.violation(PROP, rep, found_input=False)
        return 1
    kinds = {}
    for l in lines:
        kinds[l.split()[0]] = kinds.get(l.split()[0], 0) + 1
    cov = {
        "obligations": pr["obligations"], "discharged": pr["obligations"],
        "checker_cmd": "make theories/Props/C16.vo (coqc, full .vo) + coqc theories/Props/C16.v for Print Assumptions",
        "trusted_base": pipeline.TRUSTED_BASE,
        "theorems_closed_under_global_context": pr["closed"], "axioms": pr["axioms"],
        "evaluations": len(lines), "distinct_nontrivial": len(set(" ".join(l.split()[:1] + l.split()[2:]) for l in lines)),
        "rule": "accessor calls on (A,F,mask) triples and SetU16/U16 on words, run on the real methods and on the extracted generated model; "
                "distinct = distinct (operation, operands); all are non-trivial (each exercises the operation)",
        "distribution": kinds, "exhaustive": tier == "thorough",
        "samples": lines[:3] + lines[-2:],
        "proof_files": pr["files"],
    }
    common.write_evidence(PROP, tier, seed, "proof", cov,
                          ["F and mask are bytes, register values are words (the Go types guarantee it)"], time.time() - t0)
    return 0


def replay(path):
    import json
    rep = json.load(open(path))
    if not rep.get("input"):
        print("no concrete input stored; broken:", rep.get("broken"))
        return 1
    go_bin = pipeline.build_stepper()
    l = rep["input"]["case"]
    go = pipeline.run_lines(go_bin, [l])
    obs = go.get(l.split()[1])
    print("case:", l, "\nexpected:", oracle(l), "\nobserved:", obs)
    return 1 if obs != oracle(l) else 0
