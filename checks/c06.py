"""C06 - interrupt requests are accepted, refused, dispatched and retired per Z80 rules."""
from lib import cpucheck, cases
PROP = "C06"
KEEP = None

def irq_cases(rng, tier, n_each):
    lines, meta, k = [], {}, 0
    encs = cases.encodings()
    ctl = [e for e in encs if (e[0] == "main" and e[1] in (0xF3, 0xFB, 0x76, 0x00)) or (e[0] == "ed" and e[1] in (0x45, 0x4D, 0x46, 0x56, 0x5E))]
    for kind in (0, 1):
        for im in (0, 1, 2, 3, -1):
            for iff1 in (0, 1):
                for iff2 in (0, 1):
                    for halt in (0, 1):
                        for j in range(n_each):
                            e = rng.choice(ctl) if rng.chance(1, 2) else rng.choice(encs)
                            cid = "i%d" % k; k += 1
                            l = cases.make_case(rng, cid, e)
                            data = []
                            if kind == 1 and im == 0:
                                data = rng.choice([[0xC7], [0xFF], [0xCD, 0x34, 0x12], [0x00], [0x3C], [0xD7], [0xC3, 0x00, 0x80]])
                            elif kind == 1 and im == 2:
                                data = [rng.below(128) * 2]
                            elif kind == 1 and rng.chance(1, 3):
                                data = [rng.below(256)]
                            l = cases.patch_state(l, IFF1=iff1, IFF2=iff2, IM=im, HALT=halt)
                            if rng.chance(1, 4):
                                l = cases.patch_state(l, SP=rng.choice([0, 1, 2, 0xFFFF]))
                            elif rng.chance(1, 3):
                                # the pushed return address lands on the vector table entry, on the handler or on the program
                                # itself: which is read / written first
                                t = l.split()
                                i_reg, pc = int(t[5 + 16]), int(t[5 + 21])
                                tgt = {(1, 2): ((i_reg << 8) | ((data[0] if data else 0) & 0xFE)), (1, 1): 0x38, (1, 0): pc}.get((kind, im), 0x66 if kind == 0 else pc)
                                l = cases.patch_state(l, SP=(tgt + rng.below(5)) & 0xFFFF)
                            nst = rng.choice([1, 1, 2, 3])
                            l = cases.set_steps(cases.with_irq(l, kind, data, at=rng.below(nst)), nst)
                            lines.append(l); meta[cid] = ("irq", "kind%d im%d iff1=%d iff2=%d halt=%d data=%s" % (kind, im, iff1, iff2, halt, data))
    return lines, meta

def histories(rng, tier, n):
    """programs mixing EI, DI, RETN, RETI, HALT, NOP with NMI / maskable requests at random boundaries (nesting to depth 3)."""
    lines, meta = [], {}
    for k in range(n):
        st = cases.rand_state(rng)
        st.update(PC=0x100, SP=0x9000, IM=rng.choice([1, 2, 1]), HALT=0, I=0x40)
        prog = []
        for _ in range(24):
            prog += rng.choice([[0xFB], [0xF3], [0x00], [0x3C], [0xED, 0x45], [0xED, 0x4D], [0x76], [0xFB, 0xED, 0x4D], [0xC9], [0xED, 0x57]])
        mem = {0x100 + i: b for i, b in enumerate(prog)}
        for base in (0x38, 0x66, 0x2000):
            h = rng.choice([[0xFB, 0xED, 0x4D], [0xED, 0x45], [0x00, 0xFB, 0xC9], [0xED, 0x4D], [0x3C, 0xED, 0x45]])
            for i, b in enumerate(h):
                mem[base + i] = b
        mem[0x4000 + 0x10] = 0x00; mem[0x4000 + 0x11] = 0x20  # IM2 vector table entry -> 0x2000
        nst = 30
        sched = []
        for _ in range(rng.below(5) + 1):
            kind = rng.below(2)
            sched.append((rng.below(nst), kind, [] if kind == 0 else [0x10]))
        cid = "h%d" % k
        lines.append(cases.step_line(cid, st, mem=sorted(mem.items()), nsteps=nst, sched=sched, inputs=[1, 2, 3]))
        meta[cid] = ("history", "%d requests" % len(sched))
    return lines, meta

def gen(rng, tier):
    l1, m1 = irq_cases(rng, tier, 2 if tier == "quick" else 200)
    l2, m2 = histories(rng, tier, 150 if tier == "quick" else 30000)
    m1.update(m2)
    return l1 + l2, m1

def search(rng, tier):
    l1, m1 = irq_cases(rng, tier, 12)
    l2, m2 = histories(rng, tier, 600)
    m1.update(m2)
    return l1 + l2, m1

def run(tier, seed):
    return cpucheck.run(PROP, tier, seed, gen, keep=KEEP, search_lines=search,
                        rule="request type {NMI, maskable} x IM {0,1,2,3,-1} x IFF1 x IFF2 x halted/running (exhaustive) x sampled data/vector/state, 1-3 Steps; "
                             "plus 30-Step histories mixing EI/DI/RETN/RETI/HALT with requests at random boundaries; real code vs extracted generated model")
def replay(path):
    return cpucheck.replay(PROP, path, keep=KEEP)
