"""C05 - each Step makes exactly the instruction's memory and port accesses, nothing else."""
from lib import cpucheck
from lib import cases
PROP = "C05"

def edge_search(rng, tier):
    """every dispatch case x the flag / counter values on which taken-or-not decisions depend"""
    lines, meta, k = [], {}, 0
    for e in cases.encodings():
        for f, b in ((0x00, 1), (0xFF, 1), (0x40, 0), (0x01, 2), (0x04, 1), (0x80, 0), (0x45, 255), (0xBA, 1)):
            cid = "e%d" % k; k += 1
            l = cases.patch_state(cases.make_case(rng, cid, e), F=f, B=b, C=rng.choice([0, 1, 2]))
            lines.append(l); meta[cid] = (e[0], "%02X" % e[1])
    l2, m2 = cpucheck.std_gen(None, per_quick=20, per_thorough=60)(rng, tier)
    for l in l2:
        t = l.split(" ", 2)
        lines.append(t[0] + " R" + t[1] + " " + t[2])
    meta.update({"R" + k_: v for k_, v in m2.items()})
    return lines, meta
KEEP = cpucheck.fields("accesses", "NTRACE", "event")
def run(tier, seed):
    return cpucheck.run(PROP, tier, seed, cpucheck.std_gen(None, per_quick=3, per_thorough=500), keep=KEEP,
                        search_lines=cpucheck.join_gens(edge_search, cpucheck.sweep_gen()),
                        rule="all dispatch cases x structured random states; the complete ordered access log (reads, writes, port in/out with "
                             "addresses and values) of the real code vs the extracted generated model")
def replay(path):
    return cpucheck.replay(PROP, path, keep=KEEP)
