"""C05 - each Step makes exactly the instruction's memory and port accesses, nothing else."""
from lib import cpucheck
PROP = "C05"
KEEP = cpucheck.fields("accesses", "NTRACE", "event")
def run(tier, seed):
    return cpucheck.run(PROP, tier, seed, cpucheck.std_gen(None, per_quick=3, per_thorough=60), keep=KEEP,
                        search_lines=cpucheck.std_gen(None, per_quick=10, per_thorough=30),
                        rule="all dispatch cases x structured random states; the complete ordered access log (reads, writes, port in/out with "
                             "addresses and values) of the real code vs the extracted generated model")
def replay(path):
    return cpucheck.replay(PROP, path, keep=KEEP)
