"""C11 - FD-prefixed instructions do to IY exactly what DD-prefixed ones do to IX."""
import json, time
from lib import common, pipeline, cases, cpucheck
PROP = "C11"
F = pipeline.FIELDS

def pair(rng, cid, c, cb=None, variant=None):
    """DD form from s, FD form from swap(s); third line: DD form from s with another IY (must be ignored)."""
    enc = ("dd", c, [0xDD, c]) if cb is None else ("ddcb", cb, [0xDD, 0xCB, None, cb])
    la = cases.make_case(rng, cid + "a", enc)
    t = la.split()
    if variant in ("lowFF", "low00", "hiFF", "hi00"):
        # deterministic: the carry / borrow between the halves of the index registers
        lo = {"lowFF": 0xFF, "low00": 0x00}.get(variant)
        hi = {"hiFF": 0xFF, "hi00": 0x00}.get(variant)
        for q in (18, 19):
            v = int(t[5 + q])
            if lo is not None:
                v = (v & 0xFF00) | lo
            if hi is not None:
                v = (v & 0x00FF) | (hi << 8)
            t[5 + q] = str(v)
        la = " ".join(t)
    elif variant in ("dneg", "dpos") and cb is not None:
        # the displacement byte (third byte of DD CB d xx): both signs, deterministically
        pc0 = int(t[5 + 21])
        q = 5 + 26 + 7
        ns = int(t[q]); q += 1
        for _ in range(ns):
            q += 3 + int(t[q + 2])
        q += 1
        nm0 = int(t[q]); q += 1
        for j in range(nm0):
            if int(t[q + 2 * j]) == ((pc0 + 2) & 0xFFFF):
                t[q + 2 * j + 1] = str((0x80 | rng.below(128)) if variant == "dneg" else rng.below(128))
        la = " ".join(t)
    elif variant == "stack":
        t = with_ix_from_stack(t)
        la = " ".join(t)
    elif rng.chance(1, 2):
        # index registers with edge bytes (carries between the halves: INC IXL at xxFFh, DEC IXH at 00xxh, wrap of IX+d)
        eb = lambda: rng.choice([0x00, 0x01, 0x7F, 0x80, 0xFE, 0xFF, rng.below(256)])
        t[5 + 18] = str((eb() << 8) | eb())
        t[5 + 19] = str((eb() << 8) | eb())
        la = " ".join(t)
    if variant is None and (rng.chance(1, 6) or (cb is None and c == 0xE3 and rng.chance(1, 2))):
        # the index register equal to the word on the stack (EX (SP),IX with nothing to exchange, PUSH/POP coincidences)
        t = with_ix_from_stack(t)
        la = " ".join(t)
    ix, iy = t[5 + 18], t[5 + 19]
    tb = list(t)
    tb[1] = cid + "b"
    tb[5 + 18], tb[5 + 19] = iy, ix
    # replace the DD prefix byte in the memory list by FD
    pc = int(t[5 + 21])
    p = 5 + 26 + 7
    n = int(tb[p]); p += 1
    for _ in range(n):
        p += 3 + int(tb[p + 2])
    p += 1
    nm = int(tb[p]); p += 1
    for j in range(nm):
        if int(tb[p + 2 * j]) == pc:
            tb[p + 2 * j + 1] = "253"
    tc = list(t)
    tc[1] = cid + "c"
    tc[5 + 19] = str((int(iy) + 0x1234) & 0xFFFF)
    return la, " ".join(tb), " ".join(tc)

def with_ix_from_stack(t):
    sp = int(t[5 + 20])
    p = 5 + 26 + 7
    n = int(t[p]); p += 1
    for _ in range(n):
        p += 3 + int(t[p + 2])
    fill = int(t[p]); p += 1
    nm = int(t[p]); p += 1
    mem = {int(t[p + 2 * j]): int(t[p + 2 * j + 1]) for j in range(nm)}
    lo, hi = mem.get(sp, fill), mem.get((sp + 1) & 0xFFFF, fill)
    t = list(t)
    t[5 + 18] = str(lo | (hi << 8))
    return t

def gen(rng, tier):
    lines, meta = [], {}
    n = 4 if tier == "quick" else 400
    k = 0
    for c in range(256):
        for v in [None] * n + ["lowFF", "low00", "hiFF", "hi00", "stack"]:
            if c == 0xCB:
                continue
            a, b, cc = pair(rng, "p%d" % k, c, variant=v); k += 1
            lines += [a, b, cc]; meta[a.split()[1][:-1]] = ("dd/fd", "%02X" % c)
        for v in [None] * max(1, n // 2) + ["dneg", "dpos", "lowFF", "hi00"]:
            a, b, cc = pair(rng, "p%d" % k, 0xCB, cb=c, variant=v); k += 1
            lines += [a, b, cc]; meta[a.split()[1][:-1]] = ("ddcb/fdcb", "%02X" % c)
    return lines, meta

def mirror_problems(go, base):
    a, b, c = go.get(base + "a"), go.get(base + "b"), go.get(base + "c")
    if not a or not b or not c:
        return [("missing output", "", "")]
    # the two forms differ in the prefix byte itself: a case whose data accesses touch that byte is outside the claim
    ea0, eb0 = a[29:], b[29:]
    if len(ea0) >= 3:
        pfx = ea0[1]
        if any(ea0[j + 1] == pfx for j in range(3, len(ea0) - 2, 3)) or any(eb0[j + 1] == pfx for j in range(3, len(eb0) - 2, 3)):
            return None
    probs = []
    sw = list(b)
    sw[F.index("IX")], sw[F.index("IY")] = b[F.index("IY")], b[F.index("IX")]
    for j in range(27):
        if a[j] != sw[j]:
            probs.append(("FD form from swapped state, %s (after swapping back)" % F[j], sw[j], a[j]))
    ea, eb = a[29:], b[29:]
    if len(ea) != len(eb):
        probs.append(("number of accesses", str(len(eb) // 3), str(len(ea) // 3)))
    else:
        for j in range(0, len(ea), 3):
            if ea[j:j + 3] != eb[j:j + 3] and not (j == 0 and ea[j:j + 2] == eb[j:j + 2]):
                probs.append(("access %d of the FD form" % (j // 3), " ".join(eb[j:j + 3]), " ".join(ea[j:j + 3])))
                break
    for j in range(27):
        if F[j] != "IY" and a[j] != c[j]:
            probs.append(("DD form with a different IY: %s changed" % F[j], c[j], a[j]))
    if c[F.index("IY")] == a[F.index("IY")]:
        pass
    if a[29:] != c[29:]:
        probs.append(("DD form with a different IY: accesses changed", "", ""))
    return probs

def run(tier, seed):
    t0 = time.time()
    rng = common.Rng(seed)
    pr = pipeline.proof_stage(PROP)
    go_bin = pipeline.build_stepper()
    lines, meta = gen(rng, tier)
    go = pipeline.run_lines(go_bin, lines)
    bad = []
    excluded = 0
    for base in meta:
        pb = mirror_problems(go, base)
        if pb is None:
            excluded += 1
            continue
        if pb:
            la = [l for l in lines if l.split()[1] in (base + "a", base + "b", base + "c")]
            bad.append((base, la, pb))
            if len(bad) > 5:
                break
    broken, detail = pr["broken"], pr["detail"]
    if bad and not broken:
        broken, detail = "mirror experiment on the real code fails", str(bad[0][2][:3])
    if not broken:
        corr, _ = pipeline.compare(lines[::3], go_bin, pipeline.build_driver(), model=0)
        if corr:
            broken, detail = "correspondence: %d of %d differ" % (len(corr), len(lines) // 3), str(corr[0][2][:3])
    if broken:
        rep = {"property": PROP, "broken": broken, "detail": detail, "tier": tier, "seed": seed, "repo": common.repo_describe()}
        if bad:
            base, la, pb = bad[0]
            rep["input"] = {"cases": la, "about": str(meta.get(base)), "differs": [{"what": a, "observed": b, "required": c} for a, b, c in pb[:4]]}
            common.violation(PROP, rep)
        else:
            rep["input"] = None
            rep["searched"] = {"triples": len(meta)}
            common.violation(PROP, rep, found_input=False)
        return 1
    dist = {}
    for m in meta.values():
        dist[m[0]] = dist.get(m[0], 0) + 1
    cov = {"obligations": pr["obligations"], "discharged": pr["obligations"],
           "checker_cmd": "go2coq ; make theories/Props/C11.vo ; coqc theories/Props/C11.v",
           "trusted_base": pipeline.TRUSTED_BASE, "theorems_closed_under_global_context": pr["closed"], "axioms": pr["axioms"],
           "evaluations": len(lines), "distinct_nontrivial": len(meta),
           "rule": "all 255 second bytes after DD/FD and all 256 fourth bytes after DDCB/FDCB x structured random states with independent IX, IY, displacement: "
                   "(1) FD form from the IX/IY-swapped state must equal the DD form after swapping back, with the same access log apart from the prefix byte; "
                   "(2) the DD form must ignore IY; real code only (metamorphic), plus real code vs extracted generated model",
           "distribution": dist, "samples": lines[:3], "excluded_operand_on_prefix_byte": excluded}
    common.write_evidence(PROP, tier, seed, "proof", cov, ["states well formed"], time.time() - t0)
    return 0

def replay(path):
    rep = json.load(open(path))
    if not rep.get("input"):
        print("no concrete input stored; broken:", rep.get("broken")); return 1
    la = rep["input"]["cases"]
    go = pipeline.run_lines(pipeline.build_stepper(), la)
    pb = mirror_problems(go, la[0].split()[1][:-1])
    print(pb[:4] if pb else "passes now")
    return 1 if pb else 0
