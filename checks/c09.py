"""C09 - block instructions transfer, search and count exactly as a whole operation."""
from lib import cpucheck, cases, pipeline
PROP = "C09"
OPS = {0xB0: ("ldir", 1), 0xB8: ("lddr", -1), 0xB1: ("cpir", 1), 0xB9: ("cpdr", -1),
       0xB2: ("inir", 1), 0xBA: ("indr", -1), 0xB3: ("otir", 1), 0xBB: ("otdr", -1),
       0xA0: ("ldi", 1), 0xA8: ("ldd", -1), 0xA1: ("cpi", 1), 0xA9: ("cpd", -1),
       0xA2: ("ini", 1), 0xAA: ("ind", -1), 0xA3: ("outi", 1), 0xAB: ("outd", -1)}

def whole_op_cases(rng, tier, big):
    lines, meta, k = [], {}, 0
    counts = [0, 1, 2, 3, 255, 256, 257, 65535] if big else [1, 2, 3, 5, 17]
    for op, (name, d) in OPS.items():
        rep = op >= 0xB0
        extra = (3 if big else 6) * (1 if tier == "quick" else 12)
        for cnt in counts + [rng.below(400) + 1 for _ in range(extra)] + ([rng.below(65536) for _ in range(4)] if (big and tier != "quick") else []):
            if big and cnt in (0, 65535) and not rng.chance(1, 3 if tier == "quick" else 1):
                continue
            st = cases.rand_state(rng)
            st["HALT"] = 0
            pc = rng.choice([0x0100, 0x8000, 0xFFFE, 0xFFFF, rng.below(65536)])
            st["PC"] = pc
            hl = rng.choice([0x4000, 0xFFF0, 0x0003, pc, (pc - 2) & 0xFFFF, rng.below(65536)])
            de = (hl + rng.choice([-3, -2, -1, 0, 1, 2, 3])) & 0xFFFF if rng.chance(1, 2) else rng.choice([0x5000, pc, (pc + 1) & 0xFFFF, 0xFFFE, rng.below(65536)])
            st["H"], st["L"], st["D"], st["E"] = hl >> 8, hl & 255, de >> 8, de & 255
            if name[:2] in ("in", "ot", "ou"):
                st["B"], st["C"] = cnt & 255, rng.below(256)
                n_el = (cnt & 255) or 256
            else:
                st["B"], st["C"] = (cnt >> 8) & 255, cnt & 255
                n_el = (cnt & 0xFFFF) or 65536
            mem = {pc: 0xED, (pc + 1) & 0xFFFF: op, (pc + 2) & 0xFFFF: 0x76}
            for j in range(-4, 12):
                mem.setdefault((hl + j) & 0xFFFF, rng.below(256))
            if name.startswith("cp") and rng.chance(1, 2):
                # plant a match somewhere
                off = rng.below(min(n_el, 300)) * d
                st["A"] = rng.below(256)
                mem[(hl + off) & 0xFFFF] = st["A"]
            nsteps = (n_el if rep else 1) + 1
            cid = "%s%d" % ("g" if big else "s", k); k += 1
            lines.append(pipeline.step_line(cid, st, mem=sorted(mem.items()), fill=rng.choice([0, 0x55, 0x76]), nsteps=nsteps,
                                            inputs=[rng.below(256) for _ in range(min(n_el, 300))], tracemode=1 if nsteps > 40 else 0))
            meta[cid] = (name, "count=%d" % cnt)
    return lines, meta

def gen(rng, tier):
    l1, m1 = whole_op_cases(rng, tier, big=False)
    l2, m2 = whole_op_cases(rng, tier, big=True)
    if tier == "quick":
        keep = [l for l in l2 if int(l.split()[3]) <= 70000][:60]
        l2 = keep
    m1.update(m2)
    return l1 + l2, m1

def run(tier, seed):
    return cpucheck.run(PROP, tier, seed, gen, keep=None,
                        search_lines=lambda rng, tier: whole_op_cases(rng, tier, big=False),
                        rule="all 16 block opcodes x counters {0,1,2,3,255,256,257,65535,random} x HL/DE anywhere (overlap distances -3..+3, covering the instruction, wrap at 0xFFFF) "
                             "x random memory / port data, run to completion (up to 65,537 Steps); real code vs extracted generated model (state + hash of the complete access log)")
def replay(path):
    return cpucheck.replay(PROP, path)
