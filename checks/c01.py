"""C01 - every implemented instruction has exactly its Z80-defined effect in every state."""
from lib import cpucheck
PROP = "C01"
def run(tier, seed):
    return cpucheck.run(PROP, tier, seed, cpucheck.std_gen(None, per_quick=3, per_thorough=1000),
                        search_lines=cpucheck.join_gens(cpucheck.std_gen(None, per_quick=12, per_thorough=40), cpucheck.sweep_gen()),
                        rule="all 1,784 dispatch cases of the seven decode tables x structured random pre-states (registers, flags, "
                             "pointers at/around 0x0000/0xFFFF, displacements, memory, port input); real code vs extracted generated model, all observables")
def replay(path):
    return cpucheck.replay(PROP, path)
