"""C10 (partial) - execution is deterministic, captured by States+memory, isolated per CPU."""
import time
from lib import common, pipeline, programs, cases
PROP = "C10"

def gen(rng, tier):
    lines, meta = [], {}
    n = 40 if tier == "quick" else 800
    for k in range(n):
        mem, halt, multi = programs.gen_program(rng, n=22)
        programs.handlers(mem, rng)
        st = programs.start_state(rng, iff=rng.below(2), im=rng.choice([0, 1, 2]))
        nst = 120
        sched = []
        for _ in range(rng.below(4)):
            kind = rng.below(2)
            sched.append((rng.below(nst), kind, [] if kind == 0 else rng.choice([[0x10], [0xFF], [0xCD, 0x38, 0x00], [0x00], [0x3E, 0x55]])))
        cid = "t%d" % k
        io = 0 if rng.chance(1, 4) else 1
        lines.append(pipeline.step_line(cid, st, mem=sorted(mem.items()), fill=0x76, nsteps=nst, sched=sched, inputs=[rng.below(256) for _ in range(6)], io=io))
        meta[cid] = ("program", "io=%d irqs=%d" % (io, len(sched)))
    # block instructions that overwrite themselves, EI followed by a pending request, OUT then IN with no device attached
    special = [
        ({0x100: 0x21, 0x101: 0x00, 0x102: 0x40, 0x103: 0x11, 0x104: 0x06, 0x105: 0x01, 0x106: 0x01, 0x107: 0x08, 0x108: 0x00, 0x109: 0xED, 0x10A: 0xB0, 0x10B: 0x3C, 0x10C: 0x76}, [], 1),
        ({0x100: 0x21, 0x101: 0x20, 0x102: 0x01, 0x103: 0x11, 0x104: 0x0A, 0x105: 0x01, 0x106: 0x01, 0x107: 0x06, 0x108: 0x00, 0x109: 0xED, 0x10A: 0xB8, 0x10B: 0x76}, [], 1),
        ({0x100: 0xF3, 0x101: 0x00, 0x102: 0xFB, 0x103: 0x3C, 0x104: 0x3C, 0x105: 0x76, 0x38: 0xFB, 0x39: 0xED, 0x3A: 0x4D}, [(1, 1, []), (3, 1, [])], 1),
        ({0x100: 0x3E, 0x101: 0x5A, 0x102: 0xD3, 0x103: 0x10, 0x104: 0xAF, 0x105: 0xDB, 0x106: 0x10, 0x107: 0x32, 0x108: 0x00, 0x109: 0x50, 0x10A: 0x0E, 0x10B: 0x10, 0x10C: 0xED, 0x10D: 0x40, 0x10E: 0x76}, [], 0),
    ]
    for j, (mem, sched, io) in enumerate(special):
        for r in range(3):
            st = programs.start_state(rng, iff=1, im=1)
            cid = "s%d_%d" % (j, r)
            m = dict(mem)
            for a in range(0x4000, 0x4010):
                m[a] = rng.below(256)
            lines.append(pipeline.step_line(cid, st, mem=sorted(m.items()), fill=0x00, nsteps=40, sched=sched, inputs=[7, 8], io=io))
            meta[cid] = ("special", str(j))
    # mode 0 with the stack on top of the interrupted address: the pushed bytes fall into the window the supplied bytes occupy
    for j in range(8):
        st = programs.start_state(rng, iff=1, im=0)
        st["PC"] = rng.choice([0x8000, 0x0100, 0xFFFE])
        st["SP"] = (st["PC"] + rng.choice([1, 2, 3, 4])) & 0xFFFF
        data = rng.choice([[0xFF], [0xCD, 0x38, 0x00], [0xC5], [0xE5, 0x00]])
        m = {(st["PC"] + i) & 0xFFFF: 0x3C for i in range(6)}
        m.update({0x38: 0xFB, 0x39: 0xED, 0x3A: 0x4D})
        cid = "o%d" % j
        lines.append(pipeline.step_line(cid, st, mem=sorted(m.items()), fill=0x00, nsteps=6, sched=[(0, 1, data), (3, 1, data)], inputs=[1], io=1))
        meta[cid] = ("mode0-stack-on-pc", str(data))
    return lines, meta

def twin_lines(lines):
    return ["twin " + l.split(" ", 1)[1] for l in lines]

def run(tier, seed):
    t0 = time.time()
    rng = common.Rng(seed)
    pr = pipeline.proof_stage(PROP)
    go_bin = pipeline.build_stepper()
    lines, meta = gen(rng, tier)
    broken, detail = pr["broken"], pr["detail"]
    witness = None
    tw = pipeline.run_lines(go_bin, twin_lines(lines))
    for l in lines:
        i = l.split()[1]
        if tw.get(i, ["?"])[0] != "same":
            witness = (i, l, [("a CPU rebuilt from States + memory + pending request", tw.get(i, ["?"])[0], "continues identically")])
            broken = broken or "twin-CPU harness: a rebuilt CPU diverges from the original"
            break
    if not broken:
        corr, _ = pipeline.compare(lines, go_bin, pipeline.build_driver(), model=0)
        if corr:
            broken = "correspondence: the real code departs from the pure generated model on %d of %d multi-Step histories (hidden state?)" % (len(corr), len(lines))
            detail = str(corr[0][2][:3])
            witness = corr[0]
    par = None
    if tier == "thorough" and not broken:
        rb = pipeline.build_stepper(race=True)
        pl = ["par " + l.split(" ", 1)[1] + " %d" % rng.choice([2, 4, 8, 16]) for l in lines[::5]]
        try:
            res = pipeline.run_lines(rb, pl, timeout=3000)
            bad = [i for i, v in res.items() if v[0] != "same"]
            par = {"parallel_runs_under_race_detector": len(pl), "differing": len(bad)}
            if bad:
                broken = "CPUs stepped on separate goroutines differ from the sequential run"
        except RuntimeError as e:
            broken, detail = "race detector / parallel run failed", str(e)[-1500:]
            par = {"error": detail[-300:]}
    if broken:
        rep = {"property": PROP, "broken": broken, "detail": detail, "tier": tier, "seed": seed, "repo": common.repo_describe()}
        if not witness:
            sdrv = pipeline.build_spec_driver()
            mism, _ = pipeline.compare(lines, go_bin, sdrv, spec_masks=True)
            if mism:
                witness = mism[0]
        if witness:
            i, l, d = witness
            rep["input"] = {"case": l, "about": str(meta.get(i)), "differs": [{"what": a, "real_code": b, "required": c} for a, b, c in d[:5]]}
            # isolation failures depend on what OTHER CPUs did earlier in the same process: when the case alone does not
            # reproduce, keep the shortest run of preceding cases that does (the replay then runs them all, in order)
            if not fails_alone([l], go_bin):
                idx = [x.split()[1] for x in lines].index(l.split()[1]) if l.split()[1] in [x.split()[1] for x in lines] else -1
                if idx >= 0:
                    for m in (1, 2, 4, 8, 16, 32, len(lines)):
                        hist = lines[max(0, idx - m):idx + 1]
                        if fails_alone(hist, go_bin):
                            rep["input"]["history"] = hist
                            rep["input"]["about"] += " (fails only after the %d preceding cases ran in the same process)" % (len(hist) - 1)
                            break
            common.violation(PROP, rep)
        else:
            rep["input"] = None
            rep["searched"] = {"cases": len(lines)}
            common.violation(PROP, rep, found_input=False)
        return 1
    dist = {}
    for m in meta.values():
        dist[m[0]] = dist.get(m[0], 0) + 1
    cov = {"obligations": pr["obligations"], "discharged": pr["obligations"],
           "checker_cmd": "go2coq (refuses package-level state) ; make theories/Props/C10.vo ; coqc theories/Props/C10.v",
           "trusted_base": pipeline.TRUSTED_BASE, "theorems_closed_under_global_context": pr["closed"], "axioms": pr["axioms"],
           "evaluations": len(lines) * 2, "distinct_nontrivial": len(set(" ".join(l.split()[2:]) for l in lines)),
           "rule": "generated programs (all instruction classes, block repeats incl. self-overwriting copies, interrupts, no-device I/O), 40-120 Steps each: "
                   "(1) twin CPU rebuilt from States+memory+pending request at EVERY boundary must take the same next Step; (2) real code vs the pure generated model over the whole history",
           "distribution": dist, "samples": lines[:1], "parallel": par,
           "partial": "goroutine interleavings / data races are runtime behaviour: -race harness in the thorough tier, supporting evidence only"}
    common.write_evidence(PROP, tier, seed, "proof", cov, ["PARTIAL claim: see Props/C10.v header"], time.time() - t0)
    return 0

def fails_alone(hist, go_bin):
    """does the LAST case of hist fail (twin or specification) when hist is run, in order, in one process?"""
    l = hist[-1]
    tw = pipeline.run_lines(go_bin, twin_lines(hist))
    if tw.get(l.split()[1], ["?"])[0] != "same":
        return True
    mism, _ = pipeline.compare(hist, go_bin, pipeline.build_spec_driver(), spec_masks=True)
    return any(i == l.split()[1] for (i, _, _) in mism)

def replay(path):
    import json
    rep = json.load(open(path))
    if not rep.get("input"):
        print("no concrete input stored; broken:", rep.get("broken")); return 1
    l = rep["input"]["case"]
    go_bin = pipeline.build_stepper()
    hist = rep["input"].get("history") or [l]
    bad = fails_alone(hist, go_bin)
    print("history of %d case(s): the last one %s" % (len(hist), "still fails" if bad else "passes now"))
    return 1 if bad else 0
