"""C17 - the Go exerciser tables (zex.DocCases / zex.AllCases) are exactly the
canonical zexdoc / zexall cases of the program images cmd/zexdoc/*.cim.

run(tier, seed):
  1. dump the tables with the real Go package (harness/c17/main.go, built inside the
     repository module by `go build -overlay`), read the two .cim images, write
     coq/theories/Gen/ZexData.v (only when changed);
  2. `make theories/Props/C17.vo`: the kernel recomputes parse_image on the image bytes
     and compares with the dumped tables and with the committed pinned copy;
  3. independently (Python parser of the image, nothing shared with Coq) compute the list
     of differences go-vs-image, go-vs-pinned, image-vs-pinned.  Coq and Python must agree
     on held/broken, otherwise the machinery is wrong (exception -> exit 2);
  4. differences -> VIOLATION with the first differing table/index/field as failing input.
"""
import json
import os
import re
import subprocess
import time

from lib import common

ID = "C17"
HERE = os.path.join(common.VERIF, "harness", "c17")
PINNED_JSON = os.path.join(HERE, "pinned.json")
GEN_V = os.path.join(common.COQ, "theories", "Gen", "ZexData.v")
PINNED_V = os.path.join(common.COQ, "theories", "Zex", "Pinned.v")
PROPS = "theories/Props/C17.v"

TABLES = (("DocCases", "zexdoc"), ("AllCases", "zexall"))
FIELDS8 = ("Inst0", "Inst1", "Inst2", "Inst3")
FIELDS16 = ("MemOP", "IY", "IX", "HL", "DE", "BC")
ORDER = FIELDS8 + FIELDS16 + ("Flags", "Accum", "SP")
WIDTH = {f: 2 for f in FIELDS8 + ("Flags", "Accum")}
WIDTH.update({f: 4 for f in FIELDS16 + ("SP",)})


# --------------------------------------------------------------------------
# the real code
def build_dumper():
    return common.go_build_overlay("c17dump", {"main.go": os.path.join(HERE, "main.go")}, "cmd/verif_c17")


def run_dumper(binary):
    p = subprocess.run([binary], stdout=subprocess.PIPE, stderr=subprocess.PIPE, timeout=120)
    if p.returncode:
        raise common.GoBuildError("dumper failed rc=%d: %s" % (p.returncode, p.stderr.decode("utf-8", "replace")[-2000:]))
    return json.loads(p.stdout.decode("utf-8"))


def canon_status(s):
    return {f: int(s[f]) for f in ORDER}


def canon_case(c):
    """dumper case -> canonical record (fields only)"""
    return {"mask": int(c["Mask"]), "base": canon_status(c["Base"]), "inc": canon_status(c["Inc"]),
            "shift": canon_status(c["Shift"]), "crc": int(c["CRC"]), "desc": [int(x) for x in c["Desc"]]}


def read_image(name):
    return list(open(os.path.join(common.REPO, "cmd", "zexdoc", name + ".cim"), "rb").read())


# --------------------------------------------------------------------------
# independent parser of the image (Python; shares nothing with the Coq model)
class ImageError(Exception):
    pass


def status_of_bytes(b):
    assert len(b) == 20
    w = lambda i: b[i] | (b[i + 1] << 8)
    return {"Inst0": b[0], "Inst1": b[1], "Inst2": b[2], "Inst3": b[3], "MemOP": w(4), "IY": w(6), "IX": w(8),
            "HL": w(10), "DE": w(12), "BC": w(14), "Flags": b[16], "Accum": b[17], "SP": w(18)}


def bytes_of_status(s):
    out = [s["Inst0"], s["Inst1"], s["Inst2"], s["Inst3"]]
    for f in FIELDS16:
        out += [s[f] & 0xFF, (s[f] >> 8) & 0xFF]
    out += [s["Flags"], s["Accum"], s["SP"] & 0xFF, (s["SP"] >> 8) & 0xFF]
    return out


def py_parse_image(img):
    """-> list of (pointer, canonical record, raw 65 bytes)"""
    if img[0:3] != [0xC3, 0x13, 0x01]:
        raise ImageError("image does not start with `jp 0113h`")
    if len(img) < 0x22 or img[0x1F] != 0x21:
        raise ImageError("no `ld hl,tests` (opcode 21h) at 011Fh")
    a = img[0x20] | (img[0x21] << 8)
    out = []
    for _ in range(len(img)):
        o = a - 0x100
        if o < 0 or o + 1 >= len(img):
            raise ImageError("pointer table leaves the image at %04x" % a)
        p = img[o] | (img[o + 1] << 8)
        if p == 0:
            return out
        q = p - 0x100
        if q < 0 or q + 65 > len(img):
            raise ImageError("test record %04x outside the image" % p)
        try:
            end = img.index(0x24, q + 65)
        except ValueError:
            raise ImageError("message of record %04x has no '$'" % p)
        msg = bytes(img[q + 65:end]).strip(b".")
        rec = {"mask": img[q], "base": status_of_bytes(img[q + 1:q + 21]), "inc": status_of_bytes(img[q + 21:q + 41]),
               "shift": status_of_bytes(img[q + 41:q + 61]),
               "crc": (img[q + 61] << 24) | (img[q + 62] << 16) | (img[q + 63] << 8) | img[q + 64],
               "desc": list(msg)}
        out.append((p, rec, img[q:q + 65]))
        a += 2
    raise ImageError("pointer table not terminated")


# --------------------------------------------------------------------------
# differences
def hexf(field, v):
    return "0x%0*x" % (WIDTH.get(field, 2), v)


def text(d):
    return bytes(d).decode("latin-1")


def diff_cases(a, b, an, bn, table):
    """list of differences between two lists of canonical records"""
    out = []
    if len(a) != len(b):
        da, db = [text(c["desc"]) for c in a], [text(c["desc"]) for c in b]
        out.append({"table": table, "index": None, "field": "length", an: len(a), bn: len(b),
                    "only_in_" + an: [x for x in da if x not in db][:5],
                    "only_in_" + bn: [x for x in db if x not in da][:5],
                    "first_divergence_index": next((i for i, (x, y) in enumerate(zip(a, b)) if x != y), min(len(a), len(b)))})
        return out      # positions after an insertion/removal are not comparable one by one
    for i, (x, y) in enumerate(zip(a, b)):
        if x["mask"] != y["mask"]:
            out.append({"table": table, "index": i, "field": "mask", an: hexf("m", x["mask"]), bn: hexf("m", y["mask"]),
                        "desc": text(x["desc"])})
        for vec in ("base", "inc", "shift"):
            for f in ORDER:
                if x[vec][f] != y[vec][f]:
                    out.append({"table": table, "index": i, "field": vec + "." + f, an: hexf(f, x[vec][f]),
                                bn: hexf(f, y[vec][f]), "desc": text(x["desc"])})
        if x["crc"] != y["crc"]:
            out.append({"table": table, "index": i, "field": "crc", an: "0x%08x" % x["crc"], bn: "0x%08x" % y["crc"],
                        "desc": text(x["desc"])})
        if x["desc"] != y["desc"]:
            out.append({"table": table, "index": i, "field": "desc", an: text(x["desc"]), bn: text(y["desc"])})
    return out


def diff_bytes(dump_cases, table):
    """Status.Bytes() as the iterator uses it versus the fields (a defect of Bytes() or of the dumper)"""
    out = []
    for i, c in enumerate(dump_cases):
        for vec, key in (("base", "Base"), ("inc", "Inc"), ("shift", "Shift")):
            want = bytes_of_status(canon_status(c[key]))
            got = [int(x) for x in c[key]["Bytes"]]
            if want != got:
                j = next((k for k in range(min(len(want), len(got))) if want[k] != got[k]), min(len(want), len(got)))
                out.append({"table": table, "index": i, "field": vec + ".Bytes()[%d]" % j,
                            "fields": "0x%02x" % want[j] if j < len(want) else None,
                            "go": "0x%02x" % got[j] if j < len(got) else None, "desc": c["Text"]})
    return out


def analyse():
    """Runs the real code and the independent parser.  Returns dict with the observations
    and the three difference lists."""
    res = {"build_error": None, "image_error": {}, "diffs": {}, "counts": {}}
    try:
        dump = run_dumper(build_dumper())
    except common.GoBuildError as e:
        res["build_error"] = str(e)[-3000:]
        return res
    pinned = json.load(open(PINNED_JSON))
    res["dump"] = dump
    res["images"] = {}
    res["parsed"] = {}
    for table, imgname in TABLES:
        go = [canon_case(c) for c in dump[table]]
        img = read_image(imgname)
        res["images"][imgname] = img
        pin = pinned[table]
        try:
            parsed = py_parse_image(img)
            recs = [r for (_, r, _) in parsed]
        except ImageError as e:
            res["image_error"][imgname] = str(e)
            parsed, recs = None, None
        res["parsed"][imgname] = parsed
        d = {}
        if recs is not None:
            d["go_vs_image"] = diff_cases(go, recs, "go", "image", table)
            d["image_vs_pinned"] = diff_cases(recs, pin, "image", "pinned", table)
        d["go_vs_pinned"] = diff_cases(go, pin, "go", "pinned", table)
        d["bytes_vs_fields"] = diff_bytes(dump[table], table)
        res["diffs"][table] = d
        res["counts"][table] = {"go": len(go), "image": None if recs is None else len(recs), "pinned": len(pin)}
    return res


def all_diffs(res):
    out = []
    for table, _ in TABLES:
        for kind in ("go_vs_image", "go_vs_pinned", "image_vs_pinned", "bytes_vs_fields"):
            for d in res["diffs"].get(table, {}).get(kind, []):
                out.append(dict(d, comparison=kind))
    return out


# --------------------------------------------------------------------------
# Coq data
def v_status(s):
    return "(mkStatus " + " ".join(str(s[f]) for f in ORDER) + ")"


def v_list(xs):
    return "[" + "; ".join(str(x) for x in xs) + "]"


def v_case(c):
    return "(mkCase %d %s %s %s %d %s)" % (c["mask"], v_status(c["base"]), v_status(c["inc"]), v_status(c["shift"]),
                                            c["crc"], v_list(c["desc"]))


def v_cases(name, cases, comment=True):
    lines = ["Definition %s : list zcase := [" % name]
    for i, c in enumerate(cases):
        lines.append("  %s%s (* %d: %s *)" % (v_case(c), ";" if i + 1 < len(cases) else "", i,
                                              re.sub(r"[^A-Za-z0-9 ,<>()+\-]", "?", text(c["desc"])).replace("(", "[").replace(")", "]")))
    lines.append("]." if cases else "].")
    return "\n".join(lines) + "\n"


def v_bytes(name, xs, per=32):
    lines = ["Definition %s : list Z := [" % name]
    rows = [xs[i:i + per] for i in range(0, len(xs), per)]
    for i, r in enumerate(rows):
        lines.append("  " + "; ".join(str(x) for x in r) + (";" if i + 1 < len(rows) else ""))
    lines.append("].")
    return "\n".join(lines) + "\n"


HEADER = ("From Coq Require Import ZArith List.\nFrom Z80V Require Import Zex.Model.\n"
          "Import ListNotations.\nOpen Scope Z_scope.\n\n")


def render_gen(dump, images):
    s = "(* GENERATED by checks/c17.py from the current working tree of the repository - do not edit *)\n" + HEADER
    for table, imgname in TABLES:
        low = "doc" if table == "DocCases" else "all"
        s += v_cases("go_%s_cases" % low, [canon_case(c) for c in dump[table]])
        s += "\n(* Status.Bytes() of (base, inc, shift) of every case, as zex.Case.Iter reads them *)\n"
        s += "Definition go_%s_bytes : list (list Z * list Z * list Z) := [\n" % low
        rows = ["  (%s, %s, %s)" % (v_list(c["Base"]["Bytes"]), v_list(c["Inc"]["Bytes"]), v_list(c["Shift"]["Bytes"]))
                for c in dump[table]]
        s += ";\n".join(rows) + "\n].\n\n"
        s += v_bytes("%s_cim" % imgname, images[imgname]) + "\n"
    return s


def render_pinned(pinned):
    s = ("(* The 2 x 67 canonical test records, parsed ONCE from the pristine cmd/zexdoc/zexdoc.cim and zexall.cim\n"
         "   (sha256 in harness/c17/pinned.json) and committed.  Rendered from harness/c17/pinned.json by\n"
         "   checks/c17.py (render_pinned); the check verifies on every run that this file is that rendering. *)\n") + HEADER
    s += v_cases("pinned_doc", pinned["DocCases"]) + "\n" + v_cases("pinned_all", pinned["AllCases"])
    return s


def write_if_changed(path, content):
    os.makedirs(os.path.dirname(path), exist_ok=True)
    old = open(path).read() if os.path.exists(path) else None
    if old != content:
        open(path, "w").write(content)
        return True
    return False


# --------------------------------------------------------------------------
# thorough: the assembler sources against the images
def asm_num(tok, syms):
    tok = tok.strip().lower()
    m = re.fullmatch(r"(\w+)\s*([+-])\s*(\d+)", tok)
    if m and m.group(1) in syms:
        return syms[m.group(1)] + (1 if m.group(2) == "+" else -1) * int(m.group(3))
    if tok in syms:
        return syms[tok]
    if re.fullmatch(r"-?\d+", tok):
        return int(tok)
    m = re.fullmatch(r"([0-9a-f]+)h", tok)
    if m:
        return int(m.group(1), 16)
    raise ValueError("asm number %r" % tok)


def parse_asm(path):
    """-> (order of the `tests:` table, {label: canonical record with the RAW 30-byte message})"""
    syms = {"msbt": 0x0103, "msbtlo": 0x03, "msbthi": 0x01}
    lines = open(path, encoding="latin-1").read().splitlines()
    order, recs = [], {}
    i = 0
    while i < len(lines) and not re.match(r"tests:", lines[i]):
        i += 1
    i += 1
    while True:
        m = re.match(r"\s+dw\s+(\w+)", lines[i])
        if not m:
            raise ValueError("tests table: %r" % lines[i])
        if m.group(1) == "0":
            break
        order.append(m.group(1))
        i += 1
    nocomment = lambda s: s.split(";")[0]
    while i < len(lines):
        m = re.match(r"(\w+):\s*db\s+(\S+)\s*; flag mask", lines[i])
        if not m:
            i += 1
            continue
        label = m.group(1)
        vecs = []
        for k in range(1, 4):
            mm = re.match(r"\s*tstr\s+(.*)$", nocomment(lines[i + k]))
            vals = [asm_num(t, syms) for t in mm.group(1).split(",")]
            assert len(vals) == 13, (label, vals)
            b = [v & 0xFF for v in vals[0:4]]
            for v in vals[4:10]:
                b += [v & 0xFF, (v >> 8) & 0xFF]
            b += [vals[10] & 0xFF, vals[11] & 0xFF, vals[12] & 0xFF, (vals[12] >> 8) & 0xFF]
            vecs.append(b)
        mm = re.match(r"\s*db\s+(.*)$", nocomment(lines[i + 4]))
        crc = [asm_num(t, syms) & 0xFF for t in mm.group(1).split(",")]
        assert len(crc) == 4
        mm = re.match(r"\s*tmsg\s+'([^']*)'", lines[i + 5])
        raw = mm.group(1).encode("latin-1")
        raw = raw + b"." * (30 - len(raw))
        recs[label] = [asm_num(m.group(2), syms) & 0xFF] + vecs[0] + vecs[1] + vecs[2] + crc + list(raw) + [0x24]
        i += 6
    return order, recs


def asm_crosscheck(res):
    """compare the test records assembled from _z80/zex*.asm with the image records, all 96 bytes"""
    out = {}
    for table, imgname in TABLES:
        path = os.path.join(common.REPO, "_z80", imgname + ".asm")
        if not os.path.exists(path):
            out[imgname] = {"status": "asm source missing"}
            continue
        order, recs = parse_asm(path)
        img = res["images"][imgname]
        parsed = res["parsed"][imgname]
        diffs = []
        if parsed is None:
            out[imgname] = {"status": "image unparsable"}
            continue
        if len(order) != len(parsed):
            diffs.append({"field": "length", "asm": len(order), "image": len(parsed)})
        for i, (lab, (p, _, _)) in enumerate(zip(order, parsed)):
            want = recs.get(lab)
            got = img[p - 0x100:p - 0x100 + 96]
            if want != got:
                j = next((k for k in range(96) if want is None or k >= len(got) or want[k] != got[k]), None)
                diffs.append({"index": i, "label": lab, "byte": j})
        out[imgname] = {"status": "identical" if not diffs else "DIFFERS", "records": len(order),
                        "bytes_compared": 96 * min(len(order), len(parsed)), "diffs": diffs[:10]}
    return out


# --------------------------------------------------------------------------
def first_diff(res):
    ds = all_diffs(res)
    return (ds[0] if ds else None), ds


def theorems_broken(res):
    names = []
    m = {("DocCases", "go_vs_image"): "zexdoc_cases_canonical", ("AllCases", "go_vs_image"): "zexall_cases_canonical",
         ("DocCases", "go_vs_pinned"): "go_doc_cases_pinned", ("AllCases", "go_vs_pinned"): "go_all_cases_pinned",
         ("DocCases", "image_vs_pinned"): "zexdoc_image_pinned", ("AllCases", "image_vs_pinned"): "zexall_image_pinned",
         ("DocCases", "bytes_vs_fields"): "go_doc_bytes_consistent", ("AllCases", "bytes_vs_fields"): "go_all_bytes_consistent"}
    for (t, k), n in m.items():
        if res["diffs"].get(t, {}).get(k):
            names.append(n)
    for imgname, e in res["image_error"].items():
        names.append("%s_cases_canonical (image: %s)" % (imgname, e))
    return names


def run(tier, seed):
    t0 = time.time()
    pinned = json.load(open(PINNED_JSON))
    if open(PINNED_V).read() != render_pinned(pinned):
        raise RuntimeError("coq/theories/Zex/Pinned.v is not the rendering of harness/c17/pinned.json")

    res = analyse()
    if res["build_error"] is not None:
        common.log("[c17] the dumper no longer builds/runs:\n" + res["build_error"])
        common.violation(ID, {"property": ID, "broken": "correspondence: harness/c17/main.go no longer builds against the repository "
                                                       "(zex.DocCases/AllCases/Case/Status API changed)",
                              "input": None, "go_error": res["build_error"][-1500:]}, found_input=False)
        return 1

    changed = write_if_changed(GEN_V, render_gen(res["dump"], res["images"]))
    common.log("[c17] Gen/ZexData.v %s" % ("rewritten" if changed else "unchanged"))
    ok, out = common.coq_make(["theories/Props/C17.vo"], timeout=1500)
    bad = common.hygiene()
    mine = [b for b in bad if re.match(r"theories/(Zex|Props/C17|Gen/ZexData)", b)]
    if mine:
        raise RuntimeError("hygiene: %s" % mine)
    if bad:
        common.log("[c17] hygiene findings in files of other components (not in the closure of Props/C17.v): %s" % bad[:5])

    fd, ds = first_diff(res)
    py_broken = bool(ds) or bool(res["image_error"])
    if ok and py_broken:
        raise RuntimeError("Coq proofs check but the independent Python comparison finds differences: %s %s"
                           % (ds[:3], res["image_error"]))
    if not ok:
        failed = common.coq_failed_files(out)
        common.log("[c17] Coq build failed: %s" % failed)
        if not py_broken:
            # the proofs broke for a reason the comparison does not explain: machinery
            raise RuntimeError("Coq build failed but the tables coincide with image and pinned copy:\n" + out[-3000:])
        broken = theorems_broken(res)
        if fd is not None:
            rep = {"property": ID, "broken": broken, "input": fd, "all_differences": ds[:40], "n_differences": len(ds),
                   "counts": res["counts"], "coq_failed": failed,
                   "how": "bin/check C17 --replay <this file> re-runs the Go dumper and the image parser and recomputes the difference"}
            common.violation(ID, rep)
        else:
            rep = {"property": ID, "broken": broken, "input": {"image_error": res["image_error"]}, "counts": res["counts"],
                   "coq_failed": failed}
            common.violation(ID, rep)
        return 1

    pa, raw = common.print_assumptions(PROPS)
    if pa is None:
        raise RuntimeError("Print Assumptions failed:\n" + raw[-2000:])
    props_src = open(os.path.join(common.COQ, PROPS)).read()
    n_thm = len(re.findall(r"^Print Assumptions", props_src, re.M))
    if pa["axioms"] or pa["closed"] != n_thm:
        raise RuntimeError("assumptions: closed=%d of %d, axioms=%s" % (pa["closed"], n_thm, pa["axioms"]))

    closure = common.coq_dep_closure(PROPS)
    nob = common.count_obligations(closure)

    extra = {}
    if tier == "thorough":
        extra["asm_crosscheck"] = asm_crosscheck(res)
        for k, v in extra["asm_crosscheck"].items():
            common.log("[c17] asm cross-check %s: %s" % (k, v["status"]))
            if v["status"] != "identical":
                common.log("[c17] WARNING: _z80/%s.asm does not assemble to the records of the image: %s" % (k, v))

        # sanity only (not part of the decision): the suite that consumes the tables passes on this tree
        t1 = time.time()
        rc, o = common.sh(["go", "test", "-vet=off", "-count=1", "-run", "TestExerciser", "."], cwd=common.REPO,
                          env=common.GOENV, timeout=240)
        extra["go_test_TestExerciser"] = {"rc": rc, "wall_s": round(time.time() - t1, 1), "tail": o.strip().splitlines()[-1:]}
        common.log("[c17] go test -run TestExerciser: rc=%d in %.1fs" % (rc, time.time() - t1))

    # what was compared (measured)
    n_cases = sum(len(res["dump"][t]) for t, _ in TABLES)
    distinct = set()
    for t, _ in TABLES:
        for c in res["dump"][t]:
            distinct.add(json.dumps(canon_case(c), sort_keys=True))
    nonzero_vec = sum(1 for t, _ in TABLES for c in res["dump"][t] for k in ("Base", "Inc", "Shift") if any(c[k]["Bytes"]))
    samples = []
    for t, imgname in TABLES:
        for i in (0, 12, len(res["dump"][t]) - 1):
            p, rec, rawb = res["parsed"][imgname][i]
            samples.append({"table": t, "index": i, "pointer": "0x%04x" % p, "image_bytes_0_64": bytes(rawb).hex(),
                            "go_mask": "0x%02x" % res["dump"][t][i]["Mask"], "go_crc": "0x%08x" % res["dump"][t][i]["CRC"],
                            "desc": res["dump"][t][i]["Text"]})
    coverage = {
        "obligations": nob, "discharged": nob,
        "checker_cmd": "make -C coq theories/Props/C17.vo  (coqc 8.16.1, vm_compute in the kernel) ; coqc theories/Props/C17.v for Print Assumptions",
        "trusted_base": ["Coq 8.16.1 kernel incl. vm_compute", "statement of the theorems in coq/theories/Props/C17.v and the "
                         "definitions of parse_image/decode_case in Zex/Model.v (image layout read off _z80/zexdoc.asm)",
                         "harness/c17/main.go (prints the values of zex.DocCases/AllCases) and checks/c17.py render_gen "
                         "(prints them and the .cim bytes as Coq literals); cross-checked by an independent Python parser",
                         "Go toolchain 1.23.5", "harness/c17/pinned.json = records of the pristine images (cross-checked against "
                         "_z80/*.asm in the thorough tier)"],
        "evaluations": n_cases * 65 + sum(len(res["images"][n]) for _, n in TABLES),
        "distinct_nontrivial": len(distinct),
        "rule": "evaluations = 2x67 records x 65 fixed bytes compared exhaustively, plus every byte of both images handed to the kernel; "
                "distinct_nontrivial = number of pairwise distinct (mask,base,inc,shift,crc,desc) records among the 134 compared "
                "(each has a non-zero base vector and crc)",
        "samples": samples,
        "distribution": {"kind": "exhaustive, no sampling (seed unused)", "tables": res["counts"],
                         "bytes_per_record_compared": 65, "message_bytes_compared": "up to '$', dots trimmed as convert_case does",
                         "image_bytes": {n: len(res["images"][n]) for _, n in TABLES},
                         "nonzero_vectors": nonzero_vec, "status_bytes_vectors_checked_against_fields": 3 * n_cases},
        "theorems_closed": pa["closed"],
        "python_crosscheck": "independent parser: 0 differences go/image/pinned",
    }
    coverage.update(extra)
    assumptions = ["the records the exerciser runs are those reachable from the pointer table addressed by `ld hl,tests` at 011Fh "
                   "(start-up code prefix `jp 0113h` and opcode 21h are checked, the rest of the exerciser code is not modelled)",
                   "canonical = the images as pinned in harness/c17/pinned.json (pristine repository state)",
                   "Print Assumptions: all %d theorems closed under the global context" % pa["closed"]]
    p = common.write_evidence(ID, tier, seed, "proof", coverage, assumptions, time.time() - t0)
    common.log("[c17] ok: %d theorems closed, %d obligations, evidence %s (%.1fs)" % (pa["closed"], nob, p, time.time() - t0))
    return 0


def replay(path):
    rep = json.load(open(path))
    res = analyse()
    if res["build_error"] is not None:
        print("observed: the dumper does not build: %s" % res["build_error"][-500:])
        return 1
    fd, ds = first_diff(res)
    stored = rep.get("input")
    print("stored failing input: %s" % json.dumps(stored, sort_keys=True))
    if res["image_error"]:
        print("observed: image not parsable: %s" % res["image_error"])
        return 1
    if isinstance(stored, dict) and "table" in stored:
        same = [d for d in ds if d["table"] == stored["table"] and d.get("index") == stored.get("index")
                and d["field"] == stored["field"] and d["comparison"] == stored.get("comparison")]
        if same:
            d = same[0]
            sides = [k for k in ("go", "image", "pinned", "fields") if k in d]
            print("still differs: table=%s index=%s field=%s  %s" % (d["table"], d.get("index"), d["field"],
                  "  ".join("%s=%s" % (k, d[k]) for k in sides)))
            print("expected (property): %s == %s ; observed: %s" % (sides[0], sides[1], "different"))
            return 1
    if ds:
        print("the stored difference is gone but %d other difference(s) remain, first: %s" % (len(ds), json.dumps(ds[0], sort_keys=True)))
        return 1
    print("expected == observed: tables, images and pinned copy coincide (%s)" % json.dumps(res["counts"], sort_keys=True))
    return 0
