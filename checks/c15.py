"""C15 - the bundled memory and port types (memio.go) behave as plain byte stores with safe bounds.

proof          : coq/theories/Memio/{Model,Proofs}.v, restated in coq/theories/Props/C15.v
correspondence : harness/c15/main.go drives the REAL z80.DumbMemory / DumbIO / MapMemory,
                 harness/c15/driver.ml drives the extracted Coq model (Memio.Model.step),
                 class Spec below is the trivial dict model of the PROPERTY TEXT (third opinion,
                 and the judge that decides between "property violated" and "model differs").
"""
import json
import os
import re
import shutil
import time

from lib import common

ID = "C15"
HARNESS = os.path.join(common.VERIF, "harness", "c15")
BDIR = os.path.join(common.BUILD, "c15")
CORPUS = os.path.join(HARNESS, "corpus.txt")
LENGTHS = [0, 1, 2, 255, 256, 257, 65535, 65536]
TRUSTED = [
    "Coq 8.16.1 kernel (vm_compute used only in Examples)",
    "hand-written Gallina model coq/theories/Memio/Model.v of /repo/memio.go (tied to the code only by the correspondence run)",
    "Coq extraction (ExtrOcamlBasic only; Z/positive/nat inductive) + OCaml 4.13 + harness/c15/driver.ml (parsing/printing)",
    "Go harness harness/c15/main.go (recover() = panic outcome) and go1.23 toolchain",
    "Python dict model `Spec` in checks/c15.py as the reading of the property text when judging a mismatch",
]


# --------------------------------------------------------------------------
# the trivial map model of the property text.  Operations are symbolic tuples whose
# variable references are symbolic ids (so that operations can be deleted while shrinking);
# Spec.apply renders an operation to a concrete harness line, gives the expected outcome and
# says whether the property text covers this outcome (scope).
class Spec:
    def __init__(self):
        self.arrays = []      # backing arrays: dict index -> byte (absent = 0)
        self.maps = []        # map objects: dict addr -> byte
        self.env = {}         # symbolic id -> (concrete index, type, value)
        self.nvars = 0
        self.tainted = False  # an operation outside the property's scope has been executed

    def _push(self, dst, typ, val):
        self.env[dst] = (self.nvars, typ, val)
        self.nvars += 1
        return "n %d" % (self.nvars - 1)

    def _ref(self, sym, typ):
        e = self.env.get(sym)
        if e is None or (typ is not None and e[1] != typ):
            return None
        return e

    def apply(self, op):
        """-> (line, expected, in_scope) or None when the operation cannot be rendered
        (it refers to a variable that does not exist in this (shrunk) sequence)."""
        k = op[0]
        if k in ("dmmake", "iomake"):
            _, dst, n = op
            self.arrays.append({})
            return ("%s %d" % (k, n), self._push(dst, k[:2], (len(self.arrays) - 1, 0, n, n)), True)
        if k in ("dmnil", "ionil"):
            self.arrays.append({})
            return (k, self._push(op[1], k[:2], (len(self.arrays) - 1, 0, 0, 0)), True)
        if k == "dmslice":
            _, dst, src, lo, hi = op
            e = self._ref(src, "dm")
            if e is None:
                return None
            c, off, ln, cap = e[2]
            line = "dmslice %d %d %d" % (e[0], lo, hi)
            if 0 <= lo <= hi <= cap:
                return (line, self._push(dst, "dm", (c, off + lo, hi - lo, cap - lo)), True)
            return (line, "panic", False)       # Go slice expression, not memio.go
        if k in ("ioofdm", "dmofio"):
            _, dst, src = op
            e = self._ref(src, "dm" if k == "ioofdm" else "io")
            if e is None:
                return None
            return ("%s %d" % (k, e[0]), self._push(dst, "io" if k == "ioofdm" else "dm", e[2]), True)
        if k in ("dmget", "ioin"):
            _, src, a = op
            e = self._ref(src, "dm" if k == "dmget" else "io")
            if e is None:
                return None
            c, off, ln, cap = e[2]
            v = self.arrays[c].get(off + a, 0) if a < ln else 0
            return ("%s %d %d" % (k, e[0], a), "b %d" % v, True)
        if k in ("dmset", "ioout"):
            _, src, a, x = op
            e = self._ref(src, "dm" if k == "dmset" else "io")
            if e is None:
                return None
            c, off, ln, cap = e[2]
            if a < ln:
                self.arrays[c][off + a] = x
            return ("%s %d %d %d" % (k, e[0], a, x), "u", True)
        if k == "dmput":
            _, dst, src, a, data = op
            e = self._ref(src, "dm")
            if e is None:
                return None
            c, off, ln, cap = e[2]
            line = "dmput %d %d" % (e[0], a) + "".join(" %d" % b for b in data)
            n = len(data)
            if a + n <= cap:
                arr = self.arrays[c]
                for i, b in enumerate(data):
                    arr[off + a + i] = b
                return (line, self._push(dst, "dm", e[2]), a + n <= ln)
            return (line, "panic", False)       # block not inside the slice: outside the property text
        if k == "mmnil":
            return ("mmnil", self._push(op[1], "mm", None), True)
        if k == "mmnew":
            self.maps.append({})
            return ("mmnew", self._push(op[1], "mm", len(self.maps) - 1), True)
        if k == "mmget":
            _, src, a = op
            e = self._ref(src, "mm")
            if e is None:
                return None
            v = 199 if e[2] is None else self.maps[e[2]].get(a, 199)
            return ("mmget %d %d" % (e[0], a), "b %d" % v, True)
        if k == "mmset":
            _, src, a, x = op
            e = self._ref(src, "mm")
            if e is None:
                return None
            line = "mmset %d %d %d" % (e[0], a, x)
            if e[2] is None:
                return (line, "panic", False)   # uninitialised map: outside the property text
            self.maps[e[2]][a] = x
            return (line, "u", True)
        if k == "mmput":
            _, dst, src, a, data = op
            e = self._ref(src, "mm")
            if e is None:
                return None
            line = "mmput %d %d" % (e[0], a) + "".join(" %d" % b for b in data)
            if e[2] is None:
                if data:
                    return (line, "panic", False)
                return (line, self._push(dst, "mm", None), True)
            m = self.maps[e[2]]
            for b in data:
                m[a] = b
                a = (a + 1) & 0xFFFF
            return (line, self._push(dst, "mm", e[2]), True)
        if k == "mmclone":
            _, dst, src = op
            e = self._ref(src, "mm")
            if e is None:
                return None
            self.maps.append({} if e[2] is None else dict(self.maps[e[2]]))
            return ("mmclone %d" % e[0], self._push(dst, "mm", len(self.maps) - 1), True)
        if k == "mmclear":
            e = self._ref(op[1], "mm")
            if e is None:
                return None
            if e[2] is not None:
                self.maps[e[2]].clear()
            return ("mmclear %d" % e[0], "u", True)
        if k == "mmequal":
            _, src, kind, w = op
            e = self._ref(src, "mm")
            if e is None:
                return None
            if kind == "nilif":
                return ("mmequal %d nilif" % e[0], "f", True)
            e2 = self._ref(w, "mm" if kind == "raw" else None)
            if e2 is None:
                return None
            line = "mmequal %d %s %d" % (e[0], kind, e2[0])
            if kind == "raw" or e2[1] != "mm":
                return (line, "f", True)
            if e[2] is None and e2[2] is None:
                return (line, "t", False)       # nil == nil: DeepEqual says true; property speaks of initialised values
            if e[2] is None or e2[2] is None:
                return (line, "f", True)
            return (line, "t" if self.maps[e[2]] == self.maps[e2[2]] else "f", True)
        raise ValueError("unknown op %r" % (op,))


def render(seq):
    """symbolic sequence -> (lines, expected, judge) ; judge[i]: the property text decides outcome i
    (operation in scope and nothing out of scope happened before it in this sequence)."""
    sp = Spec()
    lines, exp, judge = [], [], []
    for op in seq:
        r = sp.apply(op)
        if r is None:
            continue
        lines.append(r[0])
        exp.append(r[1])
        judge.append(r[2] and not sp.tainted)
        if not r[2]:
            sp.tainted = True
    return lines, exp, judge


# --------------------------------------------------------------------------
# generators
class Gen:
    """structured random sequences; keeps a Spec alongside to aim at the boundaries of live objects."""

    def __init__(self, rng, stats, scope_only=False, big=False):
        self.r, self.stats, self.scope_only, self.big = rng, stats, scope_only, big
        self.next_id = 0

    def fresh(self):
        self.next_id += 1
        return self.next_id

    def byte(self):
        r = self.r
        return r.choice([0, 1, 0xC7, 0xFF, 0x80]) if r.chance(1, 4) else r.below(256)

    def length(self):
        r = self.r
        c = r.below(10)
        if c < 5:
            return r.choice(LENGTHS)
        if c < 8:
            return r.below(600)
        if c < 9:
            return r.below(65537)
        return r.choice([65537, 70000])

    def addr(self, marks, limit):
        r = self.r
        if r.chance(1, 2):
            cands = [0, 1, limit - 1, limit - 2, 255, 256]
            for m in marks:
                cands += [m - 1, m, m + 1]
            cands = [a for a in cands if 0 <= a < limit]
            self.stats["addr_boundary"] = self.stats.get("addr_boundary", 0) + 1
            return r.choice(cands)
        self.stats["addr_uniform"] = self.stats.get("addr_uniform", 0) + 1
        return r.below(limit)

    def data(self, n):
        return tuple(self.byte() for _ in range(n))

    def sequence(self, nops):
        r = self.r
        sp = Spec()
        seq = []
        written = []       # addresses written recently (to re-read them)

        def emit(op):
            res = sp.apply(op)
            if res is None:
                return
            if not res[2]:
                if self.scope_only:
                    raise AssertionError("scope_only generator produced an out-of-scope op")
                sp.tainted = True
            seq.append(op)
            self.stats["op_" + op[0]] = self.stats.get("op_" + op[0], 0) + 1
            if res[1] == "panic":
                self.stats["panics"] = self.stats.get("panics", 0) + 1

        def vars_of(t):
            return [s for s, e in sp.env.items() if e[1] == t]

        # a few objects to start with
        emit(("dmmake", self.fresh(), self.length()))
        emit(("iomake", self.fresh(), r.choice([0, 1, 2, 255, 256, 257, 300]) if r.chance(2, 3) else self.length()))
        emit(("mmnew", self.fresh()))
        if r.chance(1, 2):
            emit(("mmnil", self.fresh()))
        while len(seq) < nops:
            c = r.below(100)
            dms, ios, mms = vars_of("dm"), vars_of("io"), vars_of("mm")
            if c < 4:
                emit(("dmmake", self.fresh(), self.length()))
            elif c < 5:
                emit((r.choice(["dmnil", "ionil"]), self.fresh()))
            elif c < 7:
                emit(("iomake", self.fresh(), self.length()))
            elif c < 13 and dms:
                s = r.choice(dms)
                _, off, ln, cap = sp.env[s][2]
                if r.chance(1, 8) and not self.scope_only:
                    lo, hi = r.below(cap + 2), r.below(cap + 3)      # may panic
                else:
                    lo = r.below(cap + 1) if r.chance(1, 2) else r.choice([0, min(1, cap), cap])
                    hi = lo + r.below(cap - lo + 1) if r.chance(1, 2) else r.choice([lo, cap, max(lo, min(ln, cap))])
                emit(("dmslice", self.fresh(), s, lo, hi))
            elif c < 15 and dms:
                emit(("ioofdm", self.fresh(), r.choice(dms)))
            elif c < 17 and ios:
                emit(("dmofio", self.fresh(), r.choice(ios)))
            elif c < 30 and dms:
                s = r.choice(dms)
                _, off, ln, cap = sp.env[s][2]
                a = self.addr([ln, cap] + written[-3:], 65536)
                written.append(a)
                emit(("dmset", s, a, self.byte()))
            elif c < 43 and dms:
                s = r.choice(dms)
                _, off, ln, cap = sp.env[s][2]
                emit(("dmget", s, self.addr([ln, cap] + written[-4:], 65536)))
            elif c < 50 and dms:
                s = r.choice(dms)
                _, off, ln, cap = sp.env[s][2]
                a = self.addr([ln, cap, ln - 3, cap - 3], 65536)
                room, croom = ln - a, cap - a
                opts = [0, 1, 2, 3, r.below(40)]
                if room >= 0:
                    opts += [room, room, max(room - 1, 0)]
                if not self.scope_only:
                    opts += [room + 1 if room >= 0 else 1, max(croom, 0), max(croom, 0) + 1]
                n = r.choice(opts)
                if self.scope_only and a + n > ln:
                    n = max(0, ln - a) if a <= ln else 0
                    if a > ln:
                        continue
                if n > 3000 and not r.chance(1, 40 if self.big else 20):
                    n = r.below(300)
                emit(("dmput", self.fresh(), s, a, self.data(n)))
                written.append(a)
                written.append(a + max(n - 1, 0))
            elif c < 56 and ios:
                s = r.choice(ios)
                _, off, ln, cap = sp.env[s][2]
                a = self.addr([ln, cap] + [w for w in written[-3:] if w < 256], 256)
                written.append(a)
                emit(("ioout", s, a, self.byte()))
            elif c < 62 and ios:
                s = r.choice(ios)
                _, off, ln, cap = sp.env[s][2]
                emit(("ioin", s, self.addr([ln, cap] + [w for w in written[-4:] if w < 256], 256)))
            elif c < 63:
                emit((r.choice(["mmnew", "mmnil"]), self.fresh()))
            elif c < 72 and mms:
                s = r.choice(mms)
                if self.scope_only and sp.env[s][2] is None:
                    continue
                a = self.addr([65535] + written[-3:], 65536)
                written.append(a)
                emit(("mmset", s, a, self.byte()))
            elif c < 82 and mms:
                emit(("mmget", r.choice(mms), self.addr([65535] + written[-4:], 65536)))
            elif c < 87 and mms:
                s = r.choice(mms)
                a = self.addr([65535, 65533] + written[-2:], 65536)
                opts = [0, 1, 2, 3, 65536 - a, 65536 - a + 1, 65536 - a + 2, r.below(40)]
                n = r.choice(opts)
                if n > 3000 and not r.chance(1, 40 if self.big else 20):
                    n = r.below(300)
                if self.big and r.chance(1, 400):
                    n = 65536 + r.below(5000)
                if self.scope_only and sp.env[s][2] is None and n > 0:
                    continue
                emit(("mmput", self.fresh(), s, a, self.data(n)))
                written.append(a)
                written.append((a + max(n - 1, 0)) & 0xFFFF)
            elif c < 91 and mms:
                emit(("mmclone", self.fresh(), r.choice(mms)))
            elif c < 93 and mms:
                emit(("mmclear", r.choice(mms)))
            elif mms:
                s = r.choice(mms)
                k = r.below(10)
                if k < 7:
                    w = r.choice(mms)
                    if self.scope_only and sp.env[s][2] is None and sp.env[w][2] is None:
                        continue
                    emit(("mmequal", s, "var", w))
                elif k < 8:
                    w = r.choice(list(sp.env.keys()))
                    if self.scope_only and sp.env[s][2] is None and sp.env[w][1] == "mm" and sp.env[w][2] is None:
                        continue
                    emit(("mmequal", s, "var", w))
                elif k < 9:
                    emit(("mmequal", s, "raw", r.choice(mms)))
                else:
                    emit(("mmequal", s, "nilif", 0))
        return seq


def boundary_suite():
    """deterministic sequences aimed at every boundary named in the property."""
    seqs = []
    for n in LENGTHS + [3, 65537]:
        s = [("dmmake", 1, n), ("dmnil", 2)]
        pts = sorted({a for a in [0, 1, 2, n - 2, n - 1, n, n + 1, 254, 255, 256, 257, 65534, 65535] if 0 <= a < 65536})
        for a in pts:
            s.append(("dmget", 1, a))
        for a in pts:
            s.append(("dmset", 1, a, (a * 7 + 1) % 255 + 1))
            s.append(("dmset", 2, a, 9))
        for a in pts:
            s.append(("dmget", 1, a))
            s.append(("dmget", 2, a))
        # Put: exact fit, one short, one over (panic), empty at len, empty beyond len
        i = 100
        for a, k in [(0, min(n, 5)), (max(n - 3, 0), min(n, 3)), (max(n - 2, 0), min(n, 2) + 1),
                     (min(n, 65535), 0), (min(n + 1, 65535), 0), (0, 0), (min(n, 65535), 1)]:
            i += 1
            s.append(("dmput", i, 1, a, tuple((a + j) % 251 + 1 for j in range(k))))
            for b in sorted({x for x in [a - 1, a, a + k - 1, a + k, 0] if 0 <= x < 65536}):
                s.append(("dmget", 1, b))
            s.append(("dmget", i, a))
        seqs.append(s)
    # sub-slices: aliasing, len < cap, Put past len inside cap, past cap
    s = [("dmmake", 1, 16), ("dmslice", 2, 1, 4, 8), ("dmslice", 3, 2, 1, 2), ("dmslice", 4, 2, 0, 12),
         ("dmset", 2, 0, 11), ("dmget", 1, 4), ("dmset", 2, 4, 12), ("dmget", 1, 8), ("dmget", 2, 4),
         ("dmset", 3, 0, 13), ("dmget", 1, 5), ("dmget", 2, 1), ("dmget", 4, 1),
         ("dmput", 5, 2, 2, (21, 22)), ("dmget", 1, 6), ("dmget", 1, 7),
         ("dmput", 6, 2, 3, (31, 32, 33)), ("dmget", 1, 7), ("dmget", 1, 8), ("dmget", 1, 9), ("dmget", 4, 5),
         ("dmput", 7, 2, 10, (41, 42)), ("dmget", 1, 15), ("dmput", 8, 2, 10, (51, 52, 53)), ("dmget", 1, 15),
         ("dmput", 9, 3, 11, ()), ("dmput", 10, 3, 12, ()), ("dmslice", 11, 1, 17, 17), ("dmslice", 12, 1, 5, 4),
         ("ioofdm", 13, 2), ("ioout", 13, 3, 61), ("dmget", 1, 7), ("ioin", 13, 4), ("ioin", 13, 3),
         ("dmofio", 14, 13), ("dmget", 14, 3)]
    seqs.append(s)
    for n in [0, 1, 2, 255, 256, 257, 300]:
        s = [("iomake", 1, n), ("ionil", 2)]
        for p in range(256):
            s.append(("ioin", 1, p))
        for p in range(256):
            s.append(("ioout", 1, p, (p * 5 + 3) % 255 + 1))
            s.append(("ioout", 2, p, 1))
        for p in range(256):
            s.append(("ioin", 1, p))
        s += [("ioin", 2, 0), ("ioin", 2, 255)]
        seqs.append(s)
    # MapMemory: defaults, nil, wrap, Clone, Clear, Equal
    s = [("mmnew", 1), ("mmnil", 2), ("mmget", 1, 0), ("mmget", 1, 65535), ("mmget", 2, 7),
         ("mmput", 3, 2, 1, ()), ("mmclear", 2), ("mmclone", 5, 2),
         ("mmset", 5, 3, 4), ("mmget", 5, 3), ("mmget", 2, 3),
         ("mmequal", 2, "var", 1), ("mmequal", 1, "var", 2), ("mmequal", 1, "var", 1),
         ("mmequal", 1, "nilif", 0), ("mmequal", 2, "nilif", 0), ("mmequal", 1, "raw", 1), ("mmequal", 2, "raw", 2),
         ("mmput", 6, 1, 65535, (1, 2, 3)), ("mmget", 1, 65535), ("mmget", 1, 0), ("mmget", 1, 1), ("mmget", 1, 2),
         ("mmget", 6, 0), ("mmput", 7, 1, 65534, (9,)), ("mmget", 1, 65534), ("mmget", 1, 65535),
         ("mmclone", 8, 1), ("mmequal", 1, "var", 8), ("mmequal", 8, "var", 1), ("mmequal", 1, "var", 6),
         ("mmset", 8, 0, 77), ("mmget", 1, 0), ("mmget", 8, 0), ("mmequal", 1, "var", 8),
         ("mmset", 1, 0, 77), ("mmequal", 1, "var", 8), ("mmset", 1, 500, 199), ("mmget", 8, 500),
         ("mmequal", 1, "var", 8), ("mmset", 8, 501, 199), ("mmequal", 1, "var", 8), ("mmequal", 8, "var", 1),
         ("mmclear", 8), ("mmget", 8, 0), ("mmget", 8, 65535), ("mmget", 8, 501), ("mmget", 1, 0),
         ("mmnew", 9), ("mmequal", 8, "var", 9), ("mmequal", 9, "var", 8), ("mmequal", 1, "var", 9),
         ("mmclear", 1), ("mmequal", 1, "var", 9), ("mmget", 6, 65535), ("mmget", 7, 1),
         ("dmmake", 10, 4), ("iomake", 11, 4), ("mmequal", 1, "var", 10), ("mmequal", 1, "var", 11),
         # outside the property text (uninitialised map): recorded behaviour of the real code
         ("mmequal", 2, "var", 2), ("mmset", 2, 1, 1), ("mmput", 4, 2, 1, (5,)), ("mmget", 2, 1), ("mmequal", 2, "var", 3)]
    seqs.append(s)
    # same number of keys, different keys / different values
    s = [("mmnew", 1), ("mmnew", 2), ("mmnew", 3), ("mmset", 1, 1, 1), ("mmset", 2, 2, 1), ("mmset", 3, 1, 2),
         ("mmequal", 1, "var", 2), ("mmequal", 1, "var", 3), ("mmequal", 2, "var", 3), ("mmequal", 3, "var", 1),
         ("mmset", 2, 1, 1), ("mmset", 1, 2, 1), ("mmequal", 1, "var", 2), ("mmset", 3, 1, 1), ("mmset", 3, 2, 1),
         ("mmequal", 3, "var", 1), ("mmset", 3, 65535, 0), ("mmset", 1, 0, 0), ("mmequal", 3, "var", 1)]
    seqs.append(s)
    return seqs


def sweep_addrs(tier, n, full_in_quick=False):
    if tier == "thorough" or full_in_quick:
        return range(65536), True
    pts = set(range(0, 65536, 251))
    for m in (0, n, 255, 256, 65535, 32768):
        for d in range(-3, 4):
            if 0 <= m + d < 65536:
                pts.add(m + d)
    return sorted(pts), False


def sweeps(tier):
    """all addresses (thorough) / boundary windows + stride 251 (quick) for the stated lengths."""
    seqs = []
    exhaustive = True
    for n in LENGTHS:
        addrs, ex = sweep_addrs(tier, n, full_in_quick=True)
        exhaustive = exhaustive and ex
        s = [("dmmake", 1, n)]
        s += [("dmget", 1, a) for a in addrs]
        s += [("dmset", 1, a, (a * 7 + n) % 255 + 1) for a in addrs]
        s += [("dmget", 1, a) for a in addrs]
        seqs.append(s)
    for n in LENGTHS + [3, 128, 254]:
        s = [("iomake", 1, n)]
        s += [("ioout", 1, p, (p * 11 + n) % 255 + 1) for p in range(256)]
        s += [("ioin", 1, p) for p in range(256)]
        seqs.append(s)
    addrs, ex = sweep_addrs(tier, 65536, full_in_quick=True)
    s = [("mmnew", 1)]
    s += [("mmget", 1, a) for a in addrs]
    s += [("mmset", 1, a, (a * 13 + 5) % 255 + 1) for a in addrs]
    s += [("mmget", 1, a) for a in addrs]
    s += [("mmclone", 2, 1), ("mmequal", 1, "var", 2), ("mmset", 2, 40000, 0), ("mmequal", 1, "var", 2)]
    s += [("mmget", 2, a) for a in addrs]
    s += [("mmclear", 1), ("mmnew", 3), ("mmequal", 1, "var", 3)]
    s += [("mmget", 1, a) for a in addrs]
    s += [("mmget", 2, 40000), ("mmget", 2, 39999)]
    seqs.append(s)
    # one Put of a whole 64 KiB image and more, starting near the top (wraps)
    addrs, ex = sweep_addrs(tier, 65536)
    big = tuple((i * 3 + 1) % 251 for i in range(65536 + 300))
    s = [("mmnew", 1), ("mmput", 2, 1, 65000, big[:65536])]
    s += [("mmget", 1, a) for a in addrs]
    s += [("mmput", 3, 1, 65530, big)]
    s += [("mmget", 2, a) for a in addrs]
    s += [("dmmake", 4, 65536), ("dmput", 5, 4, 0, big[:65536])]
    s += [("dmget", 4, a) for a in addrs]
    s += [("dmput", 6, 4, 1, big[:65536]), ("dmget", 4, 0), ("dmget", 4, 65535)]
    seqs.append(s)
    return seqs, exhaustive


# --------------------------------------------------------------------------
# builds
def build_model():
    """extract the Coq model and compile the OCaml driver (rebuilt when inputs changed)."""
    os.makedirs(BDIR, exist_ok=True)
    srcs = [os.path.join(common.COQ, "theories", "Memio", "Model.v"),
            os.path.join(HARNESS, "extract.v"), os.path.join(HARNESS, "driver.ml")]
    import hashlib
    h = hashlib.sha256(b"".join(open(p, "rb").read() for p in srcs)).hexdigest()
    out = os.path.join(BDIR, "model.bin")
    stamp = os.path.join(BDIR, "model.stamp")
    if os.path.exists(out) and os.path.exists(stamp) and open(stamp).read() == h:
        return out
    with common.locked("c15-model"):
        for f in ("extract.v", "driver.ml"):
            shutil.copy(os.path.join(HARNESS, f), os.path.join(BDIR, f))
        rc, o = common.sh(["coqc", "-Q", os.path.join(common.COQ, "theories"), "Z80V", "extract.v"],
                          cwd=BDIR, timeout=600)
        if rc:
            raise RuntimeError("extraction failed:\n" + o)
        rc, o = common.sh(["ocamlfind", "ocamlopt", "-w", "-a", "memio_model.mli", "memio_model.ml",
                           "driver.ml", "-o", "model.bin"], cwd=BDIR, timeout=600)
        if rc:
            raise RuntimeError("ocaml build failed:\n" + o)
        open(stamp, "w").write(h)
    return out


def build_go():
    return common.go_build_overlay("verif_c15", {"main.go": os.path.join(HARNESS, "main.go")}, "cmd/verif_c15")


def run_bin(binp, lines_path, timeout=1800):
    rc, out = common.sh([binp, lines_path], timeout=timeout)
    if rc:
        raise RuntimeError("%s failed (rc=%d): %s" % (binp, rc, out[-2000:]))
    return out.split("\n")


_tmp_counter = [0]


def run_seqs(binp, rendered, tag):
    """rendered: list of line-lists; returns list of outcome-lists (same shapes)."""
    _tmp_counter[0] += 1
    p = os.path.join(BDIR, "ops-%s-%d-%d.txt" % (tag, os.getpid(), _tmp_counter[0]))
    with open(p, "w") as f:
        for lines in rendered:
            f.write("reset\n")
            f.write("\n".join(lines))
            f.write("\n")
    try:
        out = run_bin(binp, p)
    finally:
        os.unlink(p)
    res, i = [], 0
    for lines in rendered:
        if i >= len(out) or out[i] != "--":
            raise RuntimeError("harness output out of step at line %d: %r" % (i, out[i:i + 3]))
        res.append(out[i + 1:i + 1 + len(lines)])
        i += 1 + len(lines)
    return res


def first_diff(a, b, mask=None):
    for i in range(max(len(a), len(b))):
        x = a[i] if i < len(a) else None
        y = b[i] if i < len(b) else None
        if x != y and (mask is None or (i < len(mask) and mask[i])):
            return i
    return None


# --------------------------------------------------------------------------
# shrinking
def shrink(seq, pred, budget=250):
    """greedy chunk removal, then shortening of Put data; pred(seq) must stay true."""
    n = len(seq)
    chunk = max(n // 2, 1)
    runs = 0
    while chunk >= 1 and runs < budget:
        i = 0
        changed = False
        while i < len(seq) and runs < budget:
            cand = seq[:i] + seq[i + chunk:]
            runs += 1
            if cand and pred(cand):
                seq = cand
                changed = True
            else:
                i += chunk
        if chunk == 1 and not changed:
            break
        chunk = chunk // 2 if chunk > 1 else (1 if changed else 0)
    for i, op in enumerate(list(seq)):
        if op[0] in ("dmput", "mmput") and len(op[4]) > 1 and runs < budget + 60:
            d = op[4]
            while len(d) > 1 and runs < budget + 60:
                for cand_d in (d[:len(d) // 2], d[1:], d[:-1]):
                    cand = seq[:i] + [op[:4] + (cand_d,)] + seq[i + 1:]
                    runs += 1
                    if pred(cand):
                        seq, d = cand, cand_d
                        break
                else:
                    break
    return seq


def judge_go(gobin, seq):
    """-> (index of first judged outcome where the real code differs from the property's map model, rendered) or (None, ..)"""
    lines, exp, judge = render(seq)
    if not lines:
        return None, (lines, exp, judge, [])
    got = run_seqs(gobin, [lines], "j")[0]
    return first_diff(got, exp, judge), (lines, exp, judge, got)


def report_violation(gobin, modelbin, seq, why):
    seq = shrink(seq, lambda s: judge_go(gobin, s)[0] is not None)
    k, (lines, exp, judge, got) = judge_go(gobin, seq)
    model = run_seqs(modelbin, [lines], "m")[0] if modelbin else None
    rep = {"property": ID, "kind": "real code vs property (trivial map model)", "why": why,
           "ops": lines, "expected": exp, "observed": got, "model": model, "judge": judge,
           "first_mismatch": k,
           "explanation": "operation #%d `%s`: the property's map model gives `%s`, the real code gave `%s`"
                          % (k, lines[k], exp[k], got[k] if k < len(got) else None)}
    common.violation(ID, rep)
    common.log("[c15] " + rep["explanation"])
    return 1


# --------------------------------------------------------------------------
def load_corpus():
    """corpus.txt: blocks of symbolic ops as python tuples, one per line, blocks separated by blank lines"""
    seqs, cur = [], []
    if not os.path.exists(CORPUS):
        return seqs
    import ast
    for line in open(CORPUS):
        line = line.strip()
        if line.startswith("#"):
            continue
        if not line:
            if cur:
                seqs.append(cur)
                cur = []
            continue
        cur.append(ast.literal_eval(line))
    if cur:
        seqs.append(cur)
    return seqs


def classify(lines, exp, counters, distinct):
    """count non-trivial evaluations (see `rule` in the evidence)"""
    for ln, e in zip(lines, exp):
        f = ln.split(" ", 3)
        k = f[0]
        nontrivial = False
        if k in ("dmget", "ioin"):
            nontrivial = e != "b 0" or True      # every read is checked against the model; class below
            cls = (k, f[2], e)
        elif k == "mmget":
            nontrivial = True
            cls = (k, f[2], e)
        elif k in ("dmput", "mmput"):
            nontrivial = True
            cls = (k, f[2], ln.count(" ") - 2, e == "panic")
        elif k in ("mmequal", "mmclone", "mmclear", "dmslice"):
            nontrivial = True
            cls = (ln, e)
        elif e == "panic":
            nontrivial = True
            cls = (ln, e)
        if nontrivial:
            counters["nontrivial"] += 1
            distinct.add(hash(cls))


def run(tier, seed):
    t0 = time.time()
    rng = common.Rng(seed)
    # ---- 2. proofs
    targets = ["theories/Memio/Model.vo", "theories/Memio/Proofs.vo", "theories/Props/C15.vo"]
    ok, log = common.coq_make(targets, timeout=1500)
    if not ok:
        # the model is hand-written and does not depend on the repository: this is a machinery failure
        raise RuntimeError("Coq build of the C15 model/proofs failed:\n" + log[-3000:])
    closure = common.coq_dep_closure("theories/Props/C15.v")
    bad = [b for b in common.hygiene() if b.split(":")[0] in closure]
    if bad:
        raise RuntimeError("hygiene: " + "; ".join(bad))
    other_bad = [b for b in common.hygiene() if b.split(":")[0] not in closure]
    if other_bad:
        common.log("[c15] note: hygiene findings outside the C15 closure (not mine): %s" % other_bad[:3])
    pa, raw = common.print_assumptions("theories/Props/C15.v")
    if pa is None:
        raise RuntimeError("Props/C15.v does not compile:\n" + raw[-2000:])
    ntheorems = len(re.findall(r"^\s*Theorem\s", open(os.path.join(common.COQ, "theories/Props/C15.v")).read(), re.M))
    if pa["axioms"] or pa["closed"] != ntheorems:
        raise RuntimeError("Print Assumptions: %d closed of %d, axioms %r" % (pa["closed"], ntheorems, pa["axioms"]))
    obligations = common.count_obligations(closure)
    coqchk_note = "not run (quick tier)"
    if tier == "thorough":
        rc, o = common.sh(["coqchk", "-silent", "-o", "-Q", "theories", "Z80V", "Z80V.Props.C15"], cwd=common.COQ, timeout=1500)
        if rc or "Axioms: <none>" not in re.sub(r"\s+", " ", o):
            raise RuntimeError("coqchk failed or reports axioms:\n" + o[-2000:])
        coqchk_note = "coqchk -silent -o Z80V.Props.C15: ok, Axioms: <none>"

    # ---- 1./3. builds against the CURRENT working tree
    modelbin = build_model()
    try:
        gobin = build_go()
    except common.GoBuildError as e:
        common.log("[c15] go build failed:\n" + str(e)[-1500:])
        common.violation(ID, {"property": ID, "broken": "correspondence: harness/c15/main.go no longer builds against the "
                              "repository (an API of DumbMemory/DumbIO/MapMemory used by the harness changed)",
                              "input": None, "build_log": str(e)[-1500:]}, found_input=False)
        return 1

    stats = {}
    nrand, nops = (250, 70) if tier == "quick" else (2500, 120)
    seqs = []
    origin = []
    for s in load_corpus():
        seqs.append(s); origin.append("corpus")
    for s in boundary_suite():
        seqs.append(s); origin.append("boundary")
    sw, exhaustive = sweeps(tier)
    for s in sw:
        seqs.append(s); origin.append("sweep")
    g = Gen(rng, stats, big=(tier == "thorough"))
    for i in range(nrand):
        seqs.append(g.sequence(nops if i % 10 else nops * 4)); origin.append("random")
    g2 = Gen(rng, stats, scope_only=True, big=(tier == "thorough"))
    for i in range(nrand // 2):
        seqs.append(g2.sequence(nops)); origin.append("random-in-scope")

    rendered = [render(s) for s in seqs]
    t1 = time.time()
    go_out = run_seqs(gobin, [r[0] for r in rendered], "go")
    t2 = time.time()
    ml_out = run_seqs(modelbin, [r[0] for r in rendered], "ml")
    t3 = time.time()
    common.log("[c15] %d sequences, %d ops: gen %.1fs go %.1fs model %.1fs" %
               (len(seqs), sum(len(r[0]) for r in rendered), t1 - t0, t2 - t1, t3 - t2))

    # ---- compare three ways
    viol, corr_broken, model_bug = None, None, None
    for i, (lines, exp, judge) in enumerate(rendered):
        if go_out[i] == ml_out[i] == exp:
            continue
        k = first_diff(go_out[i], exp, judge)
        if k is not None and viol is None:
            viol = (i, k)
        if go_out[i] != ml_out[i] and corr_broken is None:
            corr_broken = (i, first_diff(go_out[i], ml_out[i]))
        if go_out[i] == exp and ml_out[i] != exp and model_bug is None:
            model_bug = (i, first_diff(ml_out[i], exp))
        if go_out[i] == ml_out[i] and go_out[i] != exp and k is None and model_bug is None:
            model_bug = (i, first_diff(go_out[i], exp))     # the Python reading is off (out of scope part)
    if viol is not None:
        i, k = viol
        common.log("[c15] real code differs from the property's map model in %s sequence %d at op %d" % (origin[i], i, k))
        return report_violation(gobin, modelbin, seqs[i], "found by the %s generator" % origin[i])
    if corr_broken is not None:
        i, k = corr_broken
        lines = rendered[i][0]
        common.log("[c15] correspondence broken (%s sequence %d, op %d `%s`: real %r, model %r) - outside the "
                   "property's scope; searching for an in-scope violation" %
                   (origin[i], i, k, lines[k][:80], go_out[i][k:k + 1], ml_out[i][k:k + 1]))
        # search: in-scope sequences only, real code vs the property's map model
        srng = common.Rng(seed ^ 0xC15C15)
        gs = Gen(srng, {}, scope_only=True, big=True)
        for rnd in range(6):
            batch = [gs.sequence(150) for _ in range(400)]
            rb = [render(s) for s in batch]
            outs = run_seqs(gobin, [r[0] for r in rb], "s")
            for j, (l2, e2, j2) in enumerate(rb):
                if first_diff(outs[j], e2, j2) is not None:
                    return report_violation(gobin, modelbin, batch[j], "found by the targeted search after the correspondence broke")
        # minimise the out-of-scope witness for the report
        def still(s):
            l2, e2, j2 = render(s)
            if not l2:
                return False
            return run_seqs(gobin, [l2], "w")[0] != run_seqs(modelbin, [l2], "w")[0]
        w = shrink(seqs[i], still, budget=150)
        wl = render(w)[0]
        common.violation(ID, {"property": ID,
                              "broken": "correspondence between memio.go and coq/theories/Memio/Model.v (theorems C15_* no longer "
                                        "speak about this code); the difference seen lies outside the property text "
                                        "(Put of a block not inside the slice / uninitialised map / nil==nil)",
                              "input": None, "witness_ops": wl,
                              "witness_real": run_seqs(gobin, [wl], "w")[0],
                              "witness_model": run_seqs(modelbin, [wl], "w")[0]}, found_input=False)
        return 1
    if model_bug is not None:
        i, k = model_bug
        raise RuntimeError("model/spec disagreement while the real code is consistent (machinery bug): %s sequence %d op %d `%s` go=%r model=%r spec=%r"
                           % (origin[i], i, k, rendered[i][0][k][:100], go_out[i][k:k + 1], ml_out[i][k:k + 1], rendered[i][1][k:k + 1]))

    # ---- evidence
    counters = {"nontrivial": 0}
    distinct = set()
    per_origin = {}
    total_ops = 0
    for i, (lines, exp, judge) in enumerate(rendered):
        total_ops += len(lines)
        per_origin[origin[i]] = per_origin.get(origin[i], 0) + len(lines)
        classify(lines, exp, counters, distinct)
    samples = []
    for want in ("boundary", "random", "random-in-scope", "sweep"):
        i = origin.index(want)
        lines, exp, _ = rendered[i]
        samples.append({"origin": want, "ops": [l if len(l) < 90 else l[:90] + "..." for l in lines[:24]], "outcomes": exp[:24]})
    cov = {
        "obligations": obligations, "discharged": obligations,
        "checker_cmd": "make -C coq " + " ".join(targets) + " ; coqc theories/Props/C15.v (Print Assumptions: %d x Closed under the global context)" % pa["closed"],
        "trusted_base": TRUSTED,
        "theorems": ntheorems,
        "coqchk": coqchk_note,
        "evaluations": total_ops,
        "sequences": len(seqs),
        "distinct_nontrivial": len(distinct),
        "nontrivial_evaluations": counters["nontrivial"],
        "rule": "an evaluation = one operation run on the real type, on the extracted Coq model and on the dict model, outcomes compared 3-way; "
                "non-trivial = a read (Get/In), Put, Slice, Clone, Clear, Equal or any panic outcome (creations and plain Set/Out are only "
                "observed through later reads and are not counted); distinct = distinct (operation kind, address or full operand text, "
                "data length, expected outcome) classes, counted with a hash set",
        "samples": samples,
        "exhaustive": bool(exhaustive),
        "exhaustive_note": ("all 65,536 addresses for slice lengths %s and for MapMemory, all 256 ports for DumbIO" % LENGTHS) if exhaustive
                           else "quick tier: all 256 ports for DumbIO at every length; all 65,536 addresses for MapMemory and for DumbMemory of every stated length; only the reads after the two 64 KiB Put blocks are sampled (stride 251 + boundary windows)",
        "distribution": {"ops_by_origin": per_origin, "generator": stats, "slice_lengths": LENGTHS,
                         "timing_s": {"go": round(t2 - t1, 2), "model": round(t3 - t2, 2)}},
    }
    p = common.write_evidence(ID, tier, seed, "proof", cov,
                              ["memio.go is modelled by hand; only the differential run ties Model.v to the code",
                               "Go slice/map/reflect.DeepEqual semantics as observed with go1.23.5",
                               "operands are in the range of their Go types (uint16 / uint8)"],
                              time.time() - t0)
    common.log("[c15] green: %d ops, %d distinct non-trivial, evidence %s (%.1fs)" % (total_ops, len(distinct), p, time.time() - t0))
    return 0


def replay(path):
    rep = json.load(open(path))
    if rep.get("input", 1) is None and "ops" not in rep:
        print("replay %s: no failing input stored (broken: %s)" % (path, rep.get("broken")))
        wl = rep.get("witness_ops")
        if not wl:
            return 1
        gobin = build_go()
        got = run_seqs(gobin, [wl], "r")[0]
        print("witness ops     :", wl)
        print("model           :", rep.get("witness_model"))
        print("real code (now) :", got)
        return 1 if got != rep.get("witness_model") else 0
    gobin = build_go()
    lines, exp, judge = rep["ops"], rep["expected"], rep["judge"]
    got = run_seqs(gobin, [lines], "r")[0]
    k = first_diff(got, exp, judge)
    for i, ln in enumerate(lines):
        mark = "   <-- MISMATCH" if i == k else ""
        print("%3d %-40s expected %-8s observed %-8s%s" % (i, ln[:40], exp[i], got[i] if i < len(got) else None, mark))
    if k is None:
        print("replay: the real code now agrees with the property's model on this input")
        return 0
    print("replay: still failing at operation #%d `%s`: expected %s, observed %s" % (k, lines[k][:80], exp[k], got[k] if k < len(got) else None))
    return 1
