"""C12 - Step and Run are total: no input makes the emulator panic or hang."""
import json, time
from lib import common, pipeline, cases, cpucheck
PROP = "C12"

def step_cases(rng, tier):
    """arbitrary states incl. absurd IM, interrupts with empty / long data, PC 0xFFFF, prefix sequences cut off at 0xFFFF: Gen-vs-Go"""
    lines, meta = [], {}
    encs = cases.encodings()
    n = 400 if tier == "quick" else 80000
    for k in range(n):
        e = rng.choice(encs)
        cid = "z%d" % k
        l = cases.make_case(rng, cid, e, io=rng.below(2))
        kv = {"IM": rng.choice([0, 1, 2, 3, -1, 7, 1 << 30, -(1 << 31)]), "IFF1": rng.below(2)}
        if rng.chance(1, 3):
            kv["PC"] = rng.choice([0xFFFD, 0xFFFE, 0xFFFF])
        l = cases.patch_state(l, **kv)
        kind = rng.choice([0, 1, 1, 1, 2, 99, -1])
        dl = rng.choice([0, 0, 1, 1, 2, 3, 4, 300])
        data = [rng.choice([0xC7, 0xFF, 0xCD, 0xC3, 0x3E, 0xDD, 0xED, 0xCB, rng.below(256)])] + [rng.below(256) for _ in range(dl - 1)] if dl else []
        if rng.chance(3, 4):
            l = cases.with_irq(l, kind, data, at=0)
        l = cases.set_steps(l, rng.choice([1, 2, 3]))
        lines.append(l)
        meta[cid] = ("step", "IM=%s irq=%s len=%d" % (kv["IM"], kind, len(data)))
    # mode 0 with LONG supplied data whose own operand reads fall into the window the data occupies (its tail included)
    for j in range(60 if tier == "quick" else 2000):
        cid = "m%d" % j
        l = cases.make_case(rng, cid, ("main", 0, [0x00]), io=1)
        pc = rng.choice([0x0100, 0x8000, 0x4321, rng.below(0xFF00)])
        ln = rng.choice([5, 6, 8, 12])
        off = rng.below(ln)
        tgt = (pc + off) & 0xFFFF
        shape = rng.below(4)
        if shape == 0:
            data = [0x3A, tgt & 255, tgt >> 8] + [rng.below(256) for _ in range(ln - 3)]           # LD A,(nn)
            kv = {}
        elif shape == 1:
            data = [rng.choice([0x7E, 0x46, 0x86, 0xBE, 0x34])] + [rng.below(256) for _ in range(ln - 1)]   # ... (HL)
            kv = {"H": tgt >> 8, "L": tgt & 255}
        elif shape == 2:
            data = [rng.choice([0xE1, 0xC1, 0xC9])] + [rng.below(256) for _ in range(ln - 1)]          # POP / RET from the window
            kv = {"SP": tgt}
        else:
            data = [0x2A, tgt & 255, tgt >> 8] + [rng.below(256) for _ in range(ln - 3)]           # LD HL,(nn): two bytes
            kv = {}
        l = cases.patch_state(l, PC=pc, IM=0, IFF1=1, IFF2=1, **kv)
        l = cases.with_irq(l, 1, data, at=0)
        lines.append(cases.set_steps(l, 1))
        meta[cid] = ("mode0-long-data", "len=%d off=%d shape=%d" % (ln, off, shape))
    # every encoding of every table (implemented or not) once with NO device attached and once with one: an I/O handler that
    # forgets the nil check, an unsupported opcode that is not consumed
    for j, e in enumerate(encs):
        for io in (0, 1):
            cid = "y%d_%d" % (j, io)
            l = cases.make_case(rng, cid, e, io=io)
            lines.append(cases.set_steps(l, 1))
            meta[cid] = ("sweep", "io=%d" % io)
    return lines, meta

def fuzz(go_bin, seed, n, only=None):
    l = "fuzz f %d %d" % (seed, n) + ("" if only is None else " %d" % only)
    return pipeline.run_lines(go_bin, [l], timeout=3000).get("f", ["missing"])

def run(tier, seed):
    t0 = time.time()
    rng = common.Rng(seed)
    pr = pipeline.proof_stage(PROP)
    go_bin = pipeline.build_stepper()
    nf = 400 if tier == "quick" else 200000
    fr = fuzz(go_bin, seed, nf)
    lines, meta = step_cases(rng, tier)
    broken, detail = pr["broken"], pr["detail"]
    witness = None
    if fr[0] != "ok":
        witness = ("fuzz", "fuzz f %d %d" % (seed, nf), [("random scenario under recover()/watchdog", " ".join(fr), "Step/Run return normally")])
        broken = broken or "the real code panicked or hung"
    # a panic inside Step shows up as a panic event in the harness output
    go = pipeline.run_lines(go_bin, lines)
    for l in lines:
        i = l.split()[1]
        g = go.get(i, [])
        if len(g) > 29 and "7 0 0" in " ".join(g[29:]) and any(g[29 + j] == "7" for j in range(0, len(g) - 29, 3)):
            witness = witness or (i, l, [("Step", "panicked", "returns normally")])
            broken = broken or "the real code panicked in Step"
            break
    if not broken:
        corr, _ = pipeline.compare(lines, go_bin, pipeline.build_driver(), model=0)
        if corr:
            broken = "correspondence on arbitrary states / requests: %d of %d differ" % (len(corr), len(lines))
            detail = str(corr[0][2][:3])
            witness = corr[0]
    if broken:
        rep = {"property": PROP, "broken": broken, "detail": detail, "tier": tier, "seed": seed, "repo": common.repo_describe()}
        if not witness:
            mism, _ = pipeline.compare(lines, go_bin, pipeline.build_spec_driver(), spec_masks=True)
            mism = [m for m in mism if any(d[0] in ("NTRACE",) or "panic" in str(d) for d in m[2])]
            if mism:
                witness = mism[0]
        if witness:
            i, l, d = witness
            rep["input"] = {"case": l, "about": str(meta.get(i, i)), "differs": [{"what": a, "real_code": b, "required": c} for a, b, c in d[:4]]}
            common.violation(PROP, rep)
        else:
            rep["input"] = None
            rep["searched"] = {"fuzz_scenarios": nf, "step_cases": len(lines)}
            common.violation(PROP, rep, found_input=False)
        return 1
    dist = {}
    for m in meta.values():
        key = m[1].split(" len")[0]
        dist[key] = dist.get(key, 0) + 1
    cov = {"obligations": pr["obligations"], "discharged": pr["obligations"],
           "checker_cmd": "go2coq (every generated function is a non-recursive Definition) ; make theories/Props/C12.vo ; coqc theories/Props/C12.v",
           "trusted_base": pipeline.TRUSTED_BASE, "theorems_closed_under_global_context": pr["closed"], "axioms": pr["axioms"],
           "evaluations": nf + len(lines), "distinct_nontrivial": len(set(" ".join(l.split()[2:]) for l in lines)) + nf,
           "rule": "(a) %d random scenarios inside the Go harness: random byte strings as programs (prefix-heavy, incl. sequences cut off at 0xFFFF), arbitrary States (IM in {0,1,2,3,-1,7,2^30,-2^31}), "
                   "{short / full DumbMemory, MapMemory} x {nil IO, short DumbIO, full DumbIO} x arbitrary Interrupt values (any type, data length 0..70000) injected at random Steps, 40 Steps + Run to a HALT, "
                   "under recover() and a watchdog; (b) %d Step cases with absurd IM / requests compared with the extracted generated model; every scenario is distinct (seeded)" % (nf, len(lines)),
           "distribution": dist, "samples": lines[:1]}
    common.write_evidence(PROP, tier, seed, "proof", cov, ["the Memory / IO objects themselves do not panic (C15 for the bundled ones)"], time.time() - t0)
    return 0

def replay(path):
    rep = json.load(open(path))
    if not rep.get("input"):
        print("no concrete input stored; broken:", rep.get("broken")); return 1
    l = rep["input"]["case"]
    go_bin = pipeline.build_stepper()
    if l.startswith("fuzz"):
        r = pipeline.run_lines(go_bin, [l]).get("f", ["missing"])
        print(" ".join(r)); return 0 if r[0] == "ok" else 1
    mism, _ = pipeline.compare([l], go_bin, pipeline.build_spec_driver(), spec_masks=True)
    print(mism[0][2][:4] if mism else "passes now")
    return 1 if mism else 0
