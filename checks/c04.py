"""C04 - jumps, calls, returns and the stack follow conditions and addresses exactly."""
from lib import cpucheck, cases
PROP = "C04"
FAMS = ("jump", "call", "ret", "push", "pop")
KEEP = None

def allflags(rng, tier):
    """every conditional opcode x all 256 F values; DJNZ x all 256 B values; SP/PC at the wrap."""
    lines, meta, k = [], {}, 0
    for e in cpucheck.encodings_of(FAMS):
        for f in range(256):
            cid = "f%d" % k; k += 1
            l = cases.make_case(rng, cid, e)
            kv = {"F": f, "B": f}
            if f % 5 == 0:
                kv["SP"] = rng.choice([0, 1, 2, 0xFFFF, 0xFFFE])
            if f % 7 == 0:
                kv["PC"] = rng.choice([0xFFFD, 0xFFFE, 0xFFFF, 0])
            l = cases.patch_state(l, **kv)
            if "PC" in kv:
                # re-lay the instruction bytes at the new PC
                t = l.split()
                l = cases.make_case(rng, cid, e)
                l = cases.patch_state(l, F=f, B=f)
            lines.append(l); meta[cid] = (e[0], "%02X" % e[1])
            if e[0] == "main" and e[1] == 0x10:
                # DJNZ counts in B alone: every B with C all zeros and all ones
                for cval in (0x00, 0xFF):
                    cid = "f%d" % k; k += 1
                    lines.append(cases.patch_state(cases.make_case(rng, cid, e), B=f, C=cval)); meta[cid] = (e[0], "10")
    return lines, meta

def run(tier, seed):
    return cpucheck.run(PROP, tier, seed, cpucheck.std_gen(FAMS, per_quick=12, per_thorough=5000), keep=KEEP, search_lines=cpucheck.join_gens(allflags, cpucheck.sweep_gen(FAMS, nodev=False)),
                        rule="every JP/JR/DJNZ/CALL/RET/RST/PUSH/POP encoding (main, DD, FD tables) x structured random states "
                             "(F, B, PC, SP incl. 0x0000/0xFFFF, stack overlapping the instruction); real code vs extracted generated model")
def replay(path):
    return cpucheck.replay(PROP, path, keep=KEEP)
