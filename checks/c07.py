"""C07 - an interrupt at any instruction boundary is transparent to the running program."""
import json, time
from lib import common, pipeline, programs, cases
PROP = "C07"

# LD A,I ; PUSH AF ; POP HL ; LD (4180h),HL : the flags LD A,I produced (P/V = IFF2) stay observable whatever follows
LDAI = [0xED, 0x57, 0xF5, 0xE1, 0x22, 0x80, 0x41]

def program(rng, final_ei=True):
    """register-transparent-handler friendly program: interrupts enabled, closed DI..EI sections, final EI; HALT."""
    code = [0x31, 0x00, 0xF0, 0xFB]
    def body(n):
        out = []
        for _ in range(n):
            k = rng.below(13)
            if k == 0: out += [rng.choice([0x06, 0x0E, 0x16, 0x1E, 0x3E]), rng.below(256)]
            elif k == 1: out += [0x80 + rng.below(64)]
            elif k == 2: out += [rng.choice([0x04, 0x0C, 0x14, 0x3C, 0x05, 0x0D, 0x3D, 0x23, 0x13, 0x03])]
            elif k == 3:
                p = rng.choice([0xC5, 0xD5, 0xE5, 0xF5]); out += [p, 0x3C, p - 4]
            elif k == 4: out += [0xCD, 0x00, 0x08]
            elif k == 5: out += [0x06, rng.below(4) + 1, 0x3C, 0x10, 0xFD]
            elif k == 6: out += [0x21, 0x00, 0x40, 0x11, 0x08, 0x40, 0x01, rng.below(5) + 1, 0x00, 0xED, rng.choice([0xB0, 0xB8])]
            elif k == 7: out += [0x21, 0x00, 0x40, 0x01, rng.below(5) + 2, 0x00, 0x3E, rng.below(3), 0xED, rng.choice([0xB1, 0xB9])]
            elif k == 8: out += [0x21, 0x00, 0x41, 0x01, 0x20, rng.below(3) + 1, 0xED, rng.choice([0xB3, 0xBB])]
            elif k == 9: out += [0xD3, 0x20]
            elif k == 12: out += LDAI   # LD A,I (P/V = IFF2), flags kept in memory
            else: out += [rng.choice([0x00, 0x07, 0x17, 0x2F, 0x37, 0xEB, 0xD9, 0x08])]
        return out
    first = body(6)
    code += first + LDAI + body(1)
    if rng.chance(2, 3):
        # a closed DI .. EI section, usually containing a block instruction with several repetitions
        inner = body(2)
        if rng.chance(2, 3):
            inner += [0x21, 0x00, 0x40, 0x11, 0x10, 0x40, 0x01, rng.below(6) + 2, 0x00, 0xED, rng.choice([0xB0, 0xB8])]
        code += [0xF3] + inner + body(1) + [0xFB]
    code += body(5)
    code += [0xFB, 0x76] if final_ei else [0x76]
    mem = {programs.ORG + i: b for i, b in enumerate(code)}
    mem.update({0x0800: 0x3C, 0x0801: 0x04, 0x0802: 0xC9})
    for i in range(24):
        mem[0x4000 + i] = rng.below(256)
        mem[0x4100 + i] = rng.below(256)
    programs.handlers(mem, rng)
    return mem

KINDS = [("nmi", 0, []), ("im1", 1, []), ("im2", 1, [0x10]), ("im0_rst38", 1, [0xFF]), ("im0_call", 1, [0xCD, 0x38, 0x00])]

def gen(rng, tier):
    lines, meta = [], {}
    n = 14 if tier == "quick" else 2000
    k = 0
    for _ in range(n):
        mem_ei = program(rng)
        mem_noei = program(rng, final_ei=False)   # for NMI: nothing re-enables interrupts after the first EI
        for name, kind, data in KINDS:
            mem = mem_noei if (name == "nmi" and rng.chance(1, 2)) else mem_ei
            # started with interrupts disabled half of the time: the program's first EI is then the only enable
            st = programs.start_state(rng, iff=rng.below(2), im={"im1": 1, "im2": 2, "nmi": rng.choice([0, 1, 2])}.get(name, 0))
            cid = "j%d" % k; k += 1
            base = pipeline.step_line(cid, st, mem=sorted(mem.items()), fill=0x76, nsteps=0, inputs=[rng.below(256) for _ in range(4)])
            lines.append("inject " + base.split(" ", 1)[1] + " %d %d %s 3000" % (kind, len(data), " ".join(map(str, data))))
            meta[cid] = (name, "")
    return lines, meta

_sdrv = []
def is_d3(line, r, go_bin):
    """the listed finding D3 is the mode-0 behaviour that the specification models (the supplied bytes are run through an
    overlay at PC): a failing mode-0 injection experiment is THAT finding only if the real code, with the request raised at the
    reported boundary, still agrees with the extracted specification over the whole run; anything else is a new violation."""
    try:
        k = int([x for x in r if x.startswith("k=")][0][2:])
    except Exception:
        return False
    t = line.split()
    # inject line = "inject" + step-line fields + kind nd data... maxsteps
    maxsteps = t[-1]
    # find nd: the data bytes sit between 'kind nd' and maxsteps; kind is 0/1, try the possible lengths
    for ndv in (1, 3, 2, 0, 4):
        if len(t) > ndv + 3 and t[-2 - ndv] == str(ndv) and t[-3 - ndv] in ("0", "1"):
            kind, data = int(t[-3 - ndv]), [int(x) for x in t[-1 - ndv:-1]]
            base = "step " + " ".join(t[1:-3 - ndv])
            break
    else:
        return False
    if not _sdrv:
        _sdrv.append(pipeline.build_spec_driver())
    l2 = cases.set_steps(cases.with_irq(base, kind, data, at=k), 400)
    mism, _ = pipeline.compare([l2], go_bin, _sdrv[0], spec_masks=True)
    return not mism

def run(tier, seed):
    t0 = time.time()
    rng = common.Rng(seed)
    pr = pipeline.proof_stage(PROP)
    go_bin = pipeline.build_stepper()
    lines, meta = gen(rng, tier)
    res = pipeline.run_lines(go_bin, [" ".join(l.split()) for l in lines], timeout=3000)
    findings = {f["id"]: f for f in common.load_findings(PROP) if f.get("status") == "open"}
    known_hit, bad, points = {}, [], 0
    for l in lines:
        i = l.split()[1]
        r = res.get(i, ["missing"])
        if r[0] == "ok":
            points += int(r[1])
            continue
        name = meta[i][0]
        if name.startswith("im0") and "D3" in findings and r[0] == "fail" and is_d3(l, r, go_bin):
            known_hit["D3"] = known_hit.get("D3", 0) + 1
            continue
        bad.append((i, l, [("injection experiment (%s)" % name, " ".join(r)[:300], "same final registers/flags/IFF/memory as the uninterrupted run")]))
    for fid, cnt in known_hit.items():
        common.known_finding_line(PROP, "%s: %s (reproduced on %d generated programs)" % (fid, findings[fid]["text"], cnt))
    # D4: mode 0 at PC=0xFFFF with a three-byte CALL: the supplied instruction must be executed (PC -> 0x0038)
    if "D4" in findings:
        st = {"PC": 0xFFFF, "SP": 0x9000, "IFF1": 1, "IFF2": 1, "IM": 0}
        l = pipeline.step_line("d4", st, mem=[(0xFFFF, 0x00), (0x0000, 0x00)], nsteps=1, sched=[(0, 1, [0xCD, 0x38, 0x00])])
        r = pipeline.run_lines(go_bin, [l]).get("d4")
        if r and r[pipeline.FIELDS.index("PC")] != "56":
            common.known_finding_line(PROP, "D4: %s (PC after the Step = %s, supplied CALL 0038h not executed)" % (findings["D4"]["text"], r[pipeline.FIELDS.index("PC")]))
        else:
            pass  # no longer reproduces: nothing to report (the entry would then be stale)
    broken, detail = pr["broken"], pr["detail"]
    if bad and not broken:
        broken, detail = "injection experiment on the real code fails", str(bad[0][2])
    # multi-Step correspondence of the same programs with a request at a random boundary
    if not broken:
        cl = []
        for l in lines:
            t = l.split()
            cid = t[1]
            body = " ".join(t[1:-(3 + int(t[-2 - int(t[-3 - 0]) if False else -1]) if False else 0)]) if False else None
        # (the step-level correspondence of interrupts is C06's run; not repeated here)
    if broken:
        rep = {"property": PROP, "broken": broken, "detail": detail, "tier": tier, "seed": seed, "repo": common.repo_describe()}
        if bad:
            i, l, d = bad[0]
            rep["input"] = {"case": l, "about": str(meta.get(i)), "differs": [{"what": a, "real_code": b, "required": c} for a, b, c in d]}
            common.violation(PROP, rep)
        else:
            rep["input"] = None
            rep["searched"] = {"programs": len(lines), "injection_points": points}
            common.violation(PROP, rep, found_input=False)
        return 1
    dist = {}
    for m in meta.values():
        dist[m[0]] = dist.get(m[0], 0) + 1
    cov = {"obligations": pr["obligations"], "discharged": pr["obligations"],
           "checker_cmd": "go2coq ; make theories/Props/C07.vo ; coqc theories/Props/C07.v",
           "trusted_base": pipeline.TRUSTED_BASE, "theorems_closed_under_global_context": pr["closed"], "axioms": pr["axioms"],
           "evaluations": points, "distinct_nontrivial": len(lines),
           "rule": "generated programs (ALU/load code, DJNZ loops, calls, LDIR/LDDR/CPIR/CPDR/OTIR/OTDR, closed DI..EI sections, final EI;HALT) x EVERY Step boundary x "
                   "{NMI, mode 1, mode 2, mode 0 RST 38h, mode 0 CALL}: final registers/flags/IFF/HALT/memory (outside 64 bytes below SP) must equal the uninterrupted run; "
                   "evaluations = injection points executed on the real code; distinct_nontrivial = programs x kinds",
           "distribution": dist, "samples": lines[:1], "known_findings_reproduced": known_hit}
    common.write_evidence(PROP, tier, seed, "proof", cov, ["handlers restore what they use and return with EI;RETI / RETN",
                          "mode 0 is excluded from the transparency claim for this emulator: known finding D3"], time.time() - t0)
    return 0

def replay(path):
    rep = json.load(open(path))
    if not rep.get("input"):
        print("no concrete input stored; broken:", rep.get("broken")); return 1
    l = rep["input"]["case"]
    go_bin = pipeline.build_stepper()
    r = pipeline.run_lines(go_bin, [l]).get(l.split()[1], ["missing"])
    print(" ".join(r)[:400])
    if r[0] == "ok":
        return 0
    if "im0" in str(rep["input"].get("about")) and any(f["id"] == "D3" and f.get("status") == "open" for f in common.load_findings(PROP)) and is_d3(l, r, go_bin):
        print("this is the listed finding D3 (mode 0 as the specification models it), not the reported violation: passes")
        return 0
    return 1
