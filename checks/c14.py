"""C14 - the refresh register counts opcode fetches; I and bit 7 of R change only by LD."""
from lib import cpucheck, cases, pipeline, programs
PROP = "C14"
KEEP = cpucheck.fields("R", "I", "A", "F")

def gen_n(per):
    def gen(rng, tier):
        lines, meta, k = [], {}, 0
        n = per[0] if tier == "quick" else per[1]
        for e in cases.encodings():
            for _ in range(n):
                cid = "c%d" % k; k += 1
                l = cases.make_case(rng, cid, e)
                l = cases.patch_state(l, R=rng.choice([0x7F, 0xFF, 0x7E, 0xFE, 0x80, 0x00, rng.below(256)]), I=rng.below(256), IFF2=rng.below(2), IFF1=rng.below(2))
                lines.append(l); meta[cid] = (e[0], "%02X" % e[1])
        # all 256 starting R values through LD A,R, NOP, NEG, LD IX,nn, a DDCB form; halted Steps; block repeats
        for r in range(256):
            for bs in ([0xED, 0x5F], [0x00], [0xED, 0x44], [0xDD, 0x21, 1, 2], [0xDD, 0xCB, 1, 0x06], [0xED, 0x57], [0x76]):
                cid = "r%d" % k; k += 1
                st = cases.rand_state(rng); st.update(R=r, PC=0x200, HALT=0)
                mem = [(0x200 + i, b) for i, b in enumerate(bs)] + [(0x200 + len(bs), 0x00)]
                lines.append(pipeline.step_line(cid, st, mem=mem, nsteps=rng.choice([1, 2])))
                meta[cid] = ("rsweep", "")
        for j in range(20 if tier == "quick" else 4000):
            cid = "m%d" % k; k += 1
            st = programs.start_state(rng); st["R"] = rng.choice([0x70, 0xF0, 0xFD])
            mem = {0x100: 0x21, 0x101: 0x00, 0x102: 0x40, 0x103: 0x11, 0x104: 0x00, 0x105: 0x50, 0x106: 0x01, 0x107: rng.below(20) + 1, 0x108: 0x00,
                   0x109: 0xED, 0x10A: 0xB0, 0x10B: 0xED, 0x10C: 0x5F, 0x10D: 0x76}
            lines.append(pipeline.step_line(cid, st, mem=sorted(mem.items()), nsteps=40 + rng.below(20), sched=[(30, 0, [])] if rng.chance(1, 3) else []))
            meta[cid] = ("program", "ldir+halt")
        # acceptance of a request fetches no opcode: R and I must not change in that Step (every kind, any R incl. bit 7)
        for j in range(120 if tier == "quick" else 3000):
            cid = "q%d" % k; k += 1
            e = rng.choice(cases.encodings())
            l = cases.make_case(rng, cid, e)
            l = cases.patch_state(l, R=rng.choice([0x7F, 0xFF, 0x85, 0x05, rng.below(256)]), I=rng.below(256), IFF1=1, IFF2=1, IM=rng.choice([0, 1, 2]))
            kind = rng.choice([0, 1, 1, 1])
            data = rng.choice([[0x10], [0x90], [0xFE], [0x00], [0xFF], [0xCD, 0x38, 0x00]])
            l = cases.with_irq(l, kind, data, at=0)
            lines.append(cases.set_steps(l, rng.choice([1, 2])))
            meta[cid] = ("acceptance", "kind=%d" % kind)
        # LD A,I / LD A,R while a maskable request is pending but refused (IFF1 = 0): P/V is still IFF2
        for op in (0x57, 0x5F):
            for iff2 in (0, 1):
                for im in (0, 1, 2):
                    for data in ([0xFF], [0x10], [0xCD, 0x38, 0x00]):
                        for ns in (1, 2):
                            cid = "p%d" % k; k += 1
                            st = cases.rand_state(rng); st.update(PC=0x200, HALT=0, IFF1=0, IFF2=iff2, IM=im, I=rng.choice([0, 0x80, rng.below(256)]))
                            mem = [(0x200, 0xED), (0x201, op), (0x202, 0xED), (0x203, op ^ 8)]
                            lines.append(pipeline.step_line(cid, st, mem=mem, nsteps=ns, sched=[(0, 1, data)]))
                            meta[cid] = ("pending-refused", "ED %02X IFF2=%d" % (op, iff2))
        return lines, meta
    return gen

def run(tier, seed):
    return cpucheck.run(PROP, tier, seed, gen_n((2, 200)), keep=KEEP, search_lines=gen_n((8, 30)),
                        rule="all dispatch cases x R in {0x7F,0xFF,0x7E,0xFE,0x80,0x00,random} and random I / IFF2; all 256 starting R values through LD A,R, LD A,I, NOP, NEG, LD IX,nn, "
                             "a DDCB form and HALT; LDIR + HALT programs with halted Steps and an NMI; LD A,I / LD A,R under a pending refused request (IFF1=0, IFF2 in {0,1}, every mode); real code vs extracted generated model")
def replay(path):
    return cpucheck.replay(PROP, path, keep=KEEP)
