"""C13 (partial) - Run honours cancellation promptly, at an instruction boundary, leak/race-free.
proof: Props/C13.v (loop + hand-off model); supporting runtime evidence: harness runs (prompt return, context error,
whole number of Steps, goroutine accounting; -race build in the thorough tier)."""
import time
from lib import common, pipeline, programs
PROP = "C13"

LOOPS = {
    "jr": {0x100: 0x18, 0x101: 0xFE},
    "ldir": {0x100: 0x21, 0x101: 0x00, 0x102: 0x40, 0x103: 0x11, 0x104: 0x00, 0x105: 0x50, 0x106: 0x01, 0x107: 0x00, 0x108: 0x00,
             0x109: 0xED, 0x10A: 0xB0, 0x10B: 0x18, 0x10C: 0xF3},
    "io": {0x100: 0xDB, 0x101: 0x10, 0x102: 0x3C, 0x103: 0xD3, 0x104: 0x11, 0x105: 0xED, 0x106: 0xA2, 0x107: 0x18, 0x108: 0xF7},
    "masked_irq": {0x100: 0xF3, 0x101: 0x18, 0x102: 0xFE},
    # loops made of prefixed instructions only (R advances by 2 per Step) and a loop that keeps reloading R:
    # cancellation must not depend on the refresh counter, a step count, or any other machine state
    "jp_ix": {0x100: 0xDD, 0x101: 0xE9},
    "ld_r_a": {0x100: 0xED, 0x101: 0x4F, 0x102: 0x18, 0x103: 0xFC},
}

def gen(rng, tier):
    lines, meta = [], {}
    reps = 6 if tier == "quick" else 150
    k = 0
    for name, mem in LOOPS.items():
        for mode, ms in ((1, 0), (2, 1), (2, 3), (2, 12), (4, 2), (5, 4)):
            for r in range(reps if mode == 2 else max(2, reps // 2)):
                st = programs.start_state(rng, iff=0, im=1)
                if name == "jp_ix":
                    st["IX"] = 0x100
                if name == "ld_r_a":
                    st["A"] = rng.choice([0x01, 0x7F, 0x81, rng.below(256)])
                sched = [(0, 1, [])] if name == "masked_irq" else []
                cid = "k%d" % k; k += 1
                lines.append(programs.run_line(cid, st, dict(mem), cancel=mode, ms=ms, nruns=1, inputs=[1, 2, 3], sched=sched, fill=0x00))
                meta[cid] = (name, "cancel=%s ms=%d" % ({1: "before", 2: "during", 4: "during, context with a cancellation cause", 5: "deadline with a cause"}[mode], ms))
    # terminating programs, never cancelled, many repeated Run calls on one CPU (goroutine accounting)
    for r in range(10 if tier == "quick" else 200):
        mem, halt, multi = programs.gen_program(rng)
        cid = "k%d" % k; k += 1
        mode = rng.choice([0, 3])
        lines.append(programs.run_line(cid, programs.start_state(rng), mem, cancel=mode, nruns=40 if tier == "quick" else 400, inputs=[5, 6]))
        meta[cid] = ("terminating", "never cancelled during Run, repeated" + (", context cancelled right after each return" if mode == 3 else ""))
    return lines, meta

def judge(lines, meta, go_bin, drv, model):
    """returns list of (id, line, problems)."""
    go = pipeline.run_lines(go_bin, lines, timeout=3000)
    bad = []
    todo = []
    for l in lines:
        i = l.split()[1]
        t = l.split()
        problems = []
        if go.get(i + ".gor", ["?"])[0] != "0":
            problems.append(("goroutines left behind", go.get(i + ".gor", ["?"])[0], "0"))
        if meta[i][0] == "terminating":
            for key in [x for x in go if x.startswith(i + ".") and x.endswith(".res")]:
                if go[key][0] != "0":
                    problems.append((key + " result", go[key][0], "0 (nil)"))
        else:
            res = go.get(i + ".0.res", ["?", "?"])
            if res[0] != "2":
                problems.append(("result", res[0] + " (0 nil,1 bp,2 ctx err,3 did not return in 5 s,4 panic,5 other error)", "2 (the context's error)"))
            if res[1] != "0":
                problems.append(("delay", "more than 3 s after cancellation", "bounded"))
            todo.append((i, l))
        if problems:
            bad.append((i, l, problems))
    # whole number of Steps: the model advanced to the same access count must be in the same state
    q = []
    for i, l in todo:
        g = go.get(i + ".0")
        if not g:
            continue
        base = l.split()
        # common part ends before the run extras: rebuild a runto line = common part + target
        extras = 1 + (0 if int(base_extra(l)[0]) < 0 else int(base_extra(l)[0])) + 3 + 3 + int(base_extra(l)[-1 - 0]) if False else None
        q.append((i, l, g))
    tl = []
    for i, l, g in q:
        tl.append(runto_line(l, g[pipeline.FIELDS.index("NTRACE")], model))
    if tl:
        co = pipeline.run_lines(drv, tl, timeout=3000)
        for i, l, g in q:
            c = co.get(i)
            if c != g:
                bad.append((i, l, [("state after Run (must be a whole number of Steps from the start)", a + "=" + b, cval) for a, b, cval in pipeline.describe_diff(g, c or [])][:4]))
    return bad

def base_extra(l):
    return l.split()

def runto_line(l, target, model):
    t = l.split()
    # strip the run extras: they start after the common part; recompute by parsing counts
    p = 5 + 26 + 7
    n = int(t[p]); p += 1
    for _ in range(n):
        p += 3 + int(t[p + 2])
    p += 1  # fill
    nm = int(t[p]); p += 1 + 2 * nm
    ni = int(t[p]); p += 1 + ni
    common_part = t[:p]
    common_part[0] = "runto"
    common_part[2] = str(model)
    return " ".join(common_part + [str(target)])

def run(tier, seed):
    t0 = time.time()
    rng = common.Rng(seed)
    pr = pipeline.proof_stage(PROP)
    go_bin = pipeline.build_stepper()
    lines, meta = gen(rng, tier)
    broken, detail = pr["broken"], pr["detail"]
    bad = []
    if not broken:
        bad = judge(lines, meta, go_bin, pipeline.build_driver(), 0)
        if bad:
            broken = "runtime harness: %d of %d Run calls misbehaved" % (len(bad), len(lines))
            detail = str(bad[0][2][:3])
    race = None
    if tier == "thorough" and not broken:
        rb = pipeline.build_stepper(race=True)
        sub = lines[::7]
        bad = judge(sub, meta, rb, pipeline.build_driver(), 0)
        race = {"runs_under_race_detector": len(sub), "problems": len(bad)}
        if bad:
            broken, detail = "race-detector build: %d problems" % len(bad), str(bad[0][2][:3])
    if broken:
        if not bad:
            bad = judge(lines, meta, go_bin, pipeline.build_spec_driver(), 1)
        rep = {"property": PROP, "broken": broken, "detail": detail, "tier": tier, "seed": seed, "repo": common.repo_describe()}
        if bad:
            i, l, d = bad[0]
            rep["input"] = {"case": l, "about": str(meta.get(i)), "kind": meta.get(i, ("loop", ""))[0], "differs": [{"what": a, "real_code": b, "required": c} for a, b, c in d]}
            common.violation(PROP, rep)
        else:
            rep["input"] = None
            rep["searched"] = {"cases": len(lines)}
            common.violation(PROP, rep, found_input=False)
        return 1
    dist = {}
    for m in meta.values():
        dist[m[0] + " " + m[1]] = dist.get(m[0] + " " + m[1], 0) + 1
    cov = {"obligations": pr["obligations"], "discharged": pr["obligations"],
           "checker_cmd": "go2coq (shape check of Run) ; make theories/Props/C13.vo ; coqc theories/Props/C13.v",
           "trusted_base": pipeline.TRUSTED_BASE + ["the hand-off model (two threads, sequentially consistent steps) is hand-written; tie = go2coq shape check + harness"],
           "theorems_closed_under_global_context": pr["closed"], "axioms": pr["axioms"],
           "evaluations": len(lines), "distinct_nontrivial": len(set(" ".join(l.split()[2:]) for l in lines)),
           "rule": "non-terminating programs (jump loop, LDIR loop, I/O loop, DI + pending maskable request) x cancellation before / 1-12 ms into the call, and terminating programs "
                   "with repeated Run calls; checks: returns the context error, within 3 s of the cancellation, state = start advanced by a whole number of Steps (model advanced to the same access count), "
                   "no goroutine left behind; all cases are non-trivial (each calls Run)",
           "distribution": dist, "samples": lines[:1], "partial": "wall-clock bounds, scheduler and race freedom are runtime behaviour: harness evidence only",
           "race_detector": race}
    common.write_evidence(PROP, tier, seed, "proof", cov, ["PARTIAL claim: see Props/C13.v header"], time.time() - t0)
    return 0

def replay(path):
    import json
    rep = json.load(open(path))
    if not rep.get("input"):
        print("no concrete input stored; broken:", rep.get("broken")); return 1
    l = rep["input"]["case"]
    meta = {l.split()[1]: (rep["input"].get("kind", "loop"), "")}
    bad = judge([l], meta, pipeline.build_stepper(), pipeline.build_spec_driver(), 1)
    print(bad[0][2] if bad else "passes now")
    return 1 if bad else 0
