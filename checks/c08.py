"""C08 - Run is exactly repeated Step and stops only at a breakpoint or an executed HALT."""
import time
from lib import common, pipeline, programs, cpucheck
PROP = "C08"

def gen(rng, tier):
    lines, meta = [], {}
    n = 60 if tier == "quick" else 15000
    for k in range(n):
        mem, halt, multi = programs.gen_program(rng)
        programs.handlers(mem, rng)
        st = programs.start_state(rng, iff=rng.below(2), im=rng.choice([1, 2]))
        st["HALT"] = rng.below(2)
        variants = [None, [], [programs.ORG], [halt], [halt, programs.ORG + 3]]
        if multi:
            variants.append([rng.choice(multi) + 1])
            variants.append([rng.choice(multi)])
        variants.append([rng.below(65536) for _ in range(3)])
        bps = rng.choice(variants)
        trig = (0, 0, [])
        if rng.chance(1, 2):
            kind = rng.below(2)
            trig = (rng.below(4) + 1, kind, [] if kind == 0 or st["IM"] == 1 else [0x10])
        cid = "r%d" % k
        lines.append(programs.run_line(cid, st, mem, bps=bps, nruns=rng.choice([1, 2, 3]), trig=trig, inputs=[rng.below(256) for _ in range(8)]))
        meta[cid] = ("run", "bps=%s trig=%s" % (bps, trig[0]))
    # addresses reached via wrap-around, HALT at 0xFFFF, break point on an interrupt vector
    for k in range(12 if tier == "quick" else 1500):
        st = programs.start_state(rng, iff=1, im=1)
        st["PC"] = 0xFFFC
        mem = {0xFFFC: 0x3C, 0xFFFD: 0x3C, 0xFFFE: rng.choice([0x00, 0x3C]), 0xFFFF: rng.choice([0x76, 0x00, 0x3C]), 0x0000: 0x3C, 0x0001: 0x76, 0x38: 0x76}
        cid = "w%d" % k
        bps = rng.choice([None, [0x0000], [0xFFFF], [0x0001], [0x38]])
        sched = [(0, 1, [])] if rng.chance(1, 3) else []
        lines.append(programs.run_line(cid, st, mem, bps=bps, nruns=2, sched=sched))
        meta[cid] = ("wrap", "bps=%s" % bps)
    # a CPU parked on HALT is run again with a request raised in between (accepted by the first Step of the next Run,
    # or refused): the halted indication of the previous Run must not end the new one early
    for k in range(16 if tier == "quick" else 600):
        im = rng.choice([1, 2])
        st = programs.start_state(rng, iff=0, im=im)
        first = rng.choice([0xFB, 0xF3])      # EI or DI
        mem = {0x100: first, 0x101: 0x76, 0x102: 0x3C, 0x103: 0x76, 0x104: 0x3C, 0x105: 0x76}
        programs.handlers(mem, rng)
        mem.update({0x38: 0x3C, 0x39: 0xFB, 0x3A: 0xED, 0x3B: 0x4D, 0x66: 0x3C, 0x67: 0xED, 0x68: 0x45})   # INC A ; EI ; RETI  /  INC A ; RETN
        kind = rng.choice([0, 1, 1])
        sched = [(1, kind, [] if kind == 0 else [0x10])]
        if rng.chance(1, 2):
            sched.append((2, rng.choice([0, 1]), [0x10]))
        cid = "h%d" % k
        lines.append(programs.run_line(cid, st, mem, bps=rng.choice([None, [0x38], [0x66]]), nruns=3, sched=sched))
        meta[cid] = ("halted-then-request", "first=%02X kind=%d im=%d" % (first, kind, im))
    return lines, meta

def compare(lines, go_bin, drv, model=0):
    go = pipeline.run_lines(go_bin, lines)
    co = pipeline.run_lines(drv, [" ".join(l.split()[:2] + [str(model)] + l.split()[3:]) for l in lines])
    bad = []
    for l in lines:
        i = l.split()[1]
        keys = [k for k in go if k.startswith(i + ".") and not k.endswith(".gor")]
        for k in sorted(keys):
            if go.get(k) != co.get(k):
                d = [("result", str(go.get(k)), str(co.get(k)))] if k.endswith(".res") else pipeline.describe_diff(go.get(k, []), co.get(k, []))
                bad.append((i, l, [(k + ":" + a, b, c) for a, b, c in d]))
                break
    return bad

def run(tier, seed):
    t0 = time.time()
    rng = common.Rng(seed)
    pr = pipeline.proof_stage(PROP)
    go_bin = pipeline.build_stepper()
    lines, meta = gen(rng, tier)
    broken, detail = pr["broken"], pr["detail"]
    if not broken:
        bad = compare(lines, go_bin, pipeline.build_driver())
        if bad:
            broken = "correspondence: CPU.Run of the real code and the generated Run model differ on %d of %d programs" % (len(bad), len(lines))
            detail = str(bad[0][2][:3])
    if broken:
        sdrv = pipeline.build_spec_driver()
        bad = compare(lines, go_bin, sdrv, model=1)
        rep = {"property": PROP, "broken": broken, "detail": detail, "tier": tier, "seed": seed, "repo": common.repo_describe()}
        if bad:
            i, l, d = bad[0]
            rep["input"] = {"case": l, "about": str(meta.get(i)), "differs": [{"field": a, "real_code": b, "specification": c} for a, b, c in d],
                            "format": "run line: lib/programs.py run_line"}
            common.violation(PROP, rep)
        else:
            rep["input"] = None
            rep["searched"] = {"cases": len(lines), "oracle": "iterate the extracted specification's Step with the stated stop rule"}
            common.violation(PROP, rep, found_input=False)
        return 1
    dist = {}
    for m in meta.values():
        dist[m[0]] = dist.get(m[0], 0) + 1
    cov = {"obligations": pr["obligations"], "discharged": pr["obligations"],
           "checker_cmd": "go2coq (incl. statement-by-statement shape check of Run) ; make theories/Props/C08.vo ; coqc theories/Props/C08.v",
           "trusted_base": pipeline.TRUSTED_BASE + ["Run's loop is modelled by fixed text whose shape go2coq compares with cpu.go statement by statement"],
           "theorems_closed_under_global_context": pr["closed"], "axioms": pr["axioms"],
           "evaluations": len(lines), "distinct_nontrivial": len(set(" ".join(l.split()[2:]) for l in lines)),
           "rule": "generated terminating programs x break point sets (nil, empty, start PC, HALT address, inside a multi-byte instruction, wrap-around) x 1-3 repeated Run calls "
                   "x port callbacks raising NMI/maskable requests; CPU.Run of the real code vs iterating the extracted model; non-trivial = executes at least one Step (all)",
           "distribution": dist, "samples": lines[:1]}
    common.write_evidence(PROP, tier, seed, "proof", cov, ["no cancellation (C13 covers it)", "states well formed"], time.time() - t0)
    return 0

def replay(path):
    import json
    rep = json.load(open(path))
    if not rep.get("input"):
        print("no concrete input stored; broken:", rep.get("broken")); return 1
    bad = compare([rep["input"]["case"]], pipeline.build_stepper(), pipeline.build_spec_driver(), model=1)
    print(bad[0][2] if bad else "passes now")
    return 1 if bad else 0
