"""C02 - 8-bit ALU, rotate/shift and bit results and flags are exact for all operands."""
from lib import cpucheck, cases, pipeline
PROP = "C02"
FAMS = ("alu8", "incdec8", "rot", "bit")

def cube(rng, tier):
    """A x operand sweeps through the real Step for every encoding of the families (search pool / thorough tier)."""
    lines, meta = [], {}
    k = 0
    encs = cpucheck.encodings_of(FAMS)
    vals = [0, 1, 0x0F, 0x10, 0x7F, 0x80, 0x99, 0x9A, 0xFE, 0xFF]
    for e in encs:
        for a in vals:
            for b in vals:
                for f in (0x00, 0xFF, 0x01, 0x12):
                    cid = "q%d" % k
                    k += 1
                    l = cases.make_case(rng, cid, e)
                    t = l.split()
                    # registers start at token 5: A F B C D E H L
                    t[5], t[6] = str(a), str(f)
                    for j in (7, 8, 9, 10, 11, 12):
                        t[j] = str(b)
                    # IX, IY carry the operand in both halves
                    t[5 + 18] = str(b * 257)
                    t[5 + 19] = str(b * 257)
                    lines.append(" ".join(t))
                    meta[cid] = (e[0], "%02X" % e[1])
    return lines, meta

def run(tier, seed):
    return cpucheck.run(PROP, tier, seed, cpucheck.std_gen(FAMS, per_quick=6, per_thorough=1500),
                        keep=cpucheck.fields("A", "F", "B", "C", "D", "E", "H", "L", "IX", "IY", "event", "accesses"),
                        search_lines=cube,
                        rule="every encoding of the ALU / INC / DEC / rotate / shift / BIT / SET / RES families x structured random states; "
                             "real code vs extracted generated model")
def replay(path):
    return cpucheck.replay(PROP, path, keep=cpucheck.fields("A", "F", "B", "C", "D", "E", "H", "L", "IX", "IY", "event", "accesses"))
