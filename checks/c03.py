"""C03 - 16-bit arithmetic is exact for every operand pair and carry."""
from lib import cpucheck, cases
from lib.pipeline import EDGE16
PROP = "C03"
FAMS = ("arith16", "incdec16")
KEEP = cpucheck.fields("F", "B", "C", "D", "E", "H", "L", "IX", "IY", "SP", "A")

def grid(rng, tier):
    lines, meta, k = [], {}, 0
    vals = EDGE16 + [0x0FFF, 0x1000, 0x7F00, 0x80FF, 0xF000]
    for e in cpucheck.encodings_of(FAMS):
        for a in vals:
            for b in vals:
                for f in (0x00, 0xFF, 0x01):
                    cid = "g%d" % k; k += 1
                    l = cases.make_case(rng, cid, e)
                    l = cases.patch_state(l, F=f, H=a >> 8, L=a & 255, IX=a, IY=a, B=b >> 8, C=b & 255, D=b >> 8, E=b & 255, SP=b)
                    lines.append(l); meta[cid] = (e[0], "%02X" % e[1])
    return lines, meta

def run(tier, seed):
    return cpucheck.run(PROP, tier, seed, cpucheck.std_gen(FAMS, per_quick=40, per_thorough=8000), keep=KEEP, search_lines=grid,
                        rule="every encoding of ADD HL/IX/IY,ss, ADC/SBC HL,ss, INC/DEC ss x structured random operand pairs (edges 0x0000/0x0FFF/0x7FFF/0x8000/0xFFFF ...); "
                             "real code vs extracted generated model")
def replay(path):
    return cpucheck.replay(PROP, path, keep=KEEP)
