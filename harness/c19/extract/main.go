// extract reads cmd/cim2bin/cim2bin.go or cmd/cim2cas/cim2cas.go with go/ast and
// prints, as JSON, the "write script" the C19 Coq model interprets: the byte
// constants, the order of the write calls of run(), the integer expressions
// handed to writeU16, the byte order of writeU16, the buffer / comparison /
// slice bound of writeName, the flag names and defaults.
//
// It is a whitelist reader: every statement of run(), writeU16 and writeName
// must have one of the shapes it knows, anything else is an error (exit 1),
// which the check reports as a broken tie between code and proof.
//
// usage: extract <file.go>
package main

import (
	"encoding/json"
	"fmt"
	"go/ast"
	"go/parser"
	"go/token"
	"os"
	"strconv"
)

type Expr struct {
	K   string `json:"k"` // off len lit conv16 convint add sub
	Z   int64  `json:"z,omitempty"`
	W16 bool   `json:"w16,omitempty"`
	A   *Expr  `json:"a,omitempty"`
	B   *Expr  `json:"b,omitempty"`
}

type Op struct {
	Op     string  `json:"op"` // byte bytes u16 name body flush
	V      int64   `json:"v,omitempty"`
	Bytes  []int64 `json:"bytes,omitempty"`
	Var    string  `json:"var,omitempty"`
	Shifts []int64 `json:"shifts,omitempty"`
	Expr   *Expr   `json:"expr,omitempty"`
	Line   int     `json:"line"`
}

type Flag struct {
	Var     string `json:"var"`
	Name    string `json:"name"`
	Kind    string `json:"kind"`
	DefStr  string `json:"def_str"`
	DefUint uint64 `json:"def_uint"`
}

type NameFn struct {
	Buf []int64 `json:"buf"`
	Cmp string  `json:"cmp"` // > >= < <= == != never
	N   int64   `json:"n"`
	M   int64   `json:"m"`
}

type Result struct {
	File            string             `json:"file"`
	Flags           []Flag             `json:"flags"`
	InFlag          string             `json:"in_flag"`
	OutFlag         string             `json:"out_flag"`
	OffFlag         string             `json:"off_flag"`
	OffDefault      uint64             `json:"off_default"`
	NamFlag         string             `json:"nam_flag"`
	DefaultFromCim  bool               `json:"default_name_from_cim"`
	ByteVars        map[string][]int64 `json:"byte_vars"`
	ByteVarOrder    []string           `json:"byte_var_order"`
	U16Shifts       []int64            `json:"u16_shifts"`
	Name            *NameFn            `json:"name_fn"`
	Ops             []Op               `json:"ops"`
	MainCallsRunLog bool               `json:"main_calls_run"`
}

var fset = token.NewFileSet()

type bail struct{ msg string }

func fail(n ast.Node, format string, a ...interface{}) {
	pos := ""
	if n != nil {
		pos = fset.Position(n.Pos()).String() + ": "
	}
	panic(bail{pos + fmt.Sprintf(format, a...)})
}

func intLit(e ast.Expr) (int64, bool) {
	for {
		p, ok := e.(*ast.ParenExpr)
		if !ok {
			break
		}
		e = p.X
	}
	b, ok := e.(*ast.BasicLit)
	if !ok || b.Kind != token.INT {
		return 0, false
	}
	v, err := strconv.ParseInt(b.Value, 0, 64)
	if err != nil {
		return 0, false
	}
	return v, true
}

func strLit(e ast.Expr) (string, bool) {
	b, ok := e.(*ast.BasicLit)
	if !ok || b.Kind != token.STRING {
		return "", false
	}
	s, err := strconv.Unquote(b.Value)
	return s, err == nil
}

func ident(e ast.Expr) string {
	if p, ok := e.(*ast.ParenExpr); ok {
		return ident(p.X)
	}
	if i, ok := e.(*ast.Ident); ok {
		return i.Name
	}
	return ""
}

// sel returns "a.b" for a selector on an identifier, "a.b.c" for two levels
func sel(e ast.Expr) string {
	s, ok := e.(*ast.SelectorExpr)
	if !ok {
		return ""
	}
	if x := ident(s.X); x != "" {
		return x + "." + s.Sel.Name
	}
	if x := sel(s.X); x != "" {
		return x + "." + s.Sel.Name
	}
	return ""
}

// []byte{...} with integer literal elements
func byteSliceLit(e ast.Expr) ([]int64, bool) {
	c, ok := e.(*ast.CompositeLit)
	if !ok {
		return nil, false
	}
	at, ok := c.Type.(*ast.ArrayType)
	if !ok || at.Len != nil {
		return nil, false
	}
	if t := ident(at.Elt); t != "byte" && t != "uint8" {
		return nil, false
	}
	res := []int64{}
	for _, el := range c.Elts {
		v, ok := intLit(el)
		if !ok || v < 0 || v > 255 {
			return nil, false
		}
		res = append(res, v)
	}
	return res, true
}

func isErrNotNil(e ast.Expr) bool {
	b, ok := e.(*ast.BinaryExpr)
	return ok && b.Op == token.NEQ && ident(b.X) == "err" && ident(b.Y) == "nil"
}

func isReturnErr(b *ast.BlockStmt) bool {
	if len(b.List) != 1 {
		return false
	}
	r, ok := b.List[0].(*ast.ReturnStmt)
	return ok && len(r.Results) == 1 && ident(r.Results[0]) == "err"
}

// ---------------------------------------------------------------------------
// writeU16

// shift amount of  uint8(v), uint8(v >> k), byte(..), (.. & 0xff)
func byteOfWord(e ast.Expr, v string) (int64, bool) {
	if p, ok := e.(*ast.ParenExpr); ok {
		return byteOfWord(p.X, v)
	}
	if c, ok := e.(*ast.CallExpr); ok && len(c.Args) == 1 {
		if f := ident(c.Fun); f == "uint8" || f == "byte" {
			return shiftOf(c.Args[0], v)
		}
	}
	return 0, false
}

func shiftOf(e ast.Expr, v string) (int64, bool) {
	if p, ok := e.(*ast.ParenExpr); ok {
		return shiftOf(p.X, v)
	}
	if ident(e) == v {
		return 0, true
	}
	b, ok := e.(*ast.BinaryExpr)
	if !ok {
		return 0, false
	}
	switch b.Op {
	case token.SHR:
		k, ok := intLit(b.Y)
		if ok && ident(b.X) == v && k >= 0 && k < 64 {
			return k, true
		}
	case token.AND:
		m, ok := intLit(b.Y)
		if ok && m == 0xff {
			return shiftOf(b.X, v)
		}
	}
	return 0, false
}

func endian(e ast.Expr) ([]int64, bool) {
	switch sel(e) {
	case "binary.LittleEndian":
		return []int64{0, 8}, true
	case "binary.BigEndian":
		return []int64{8, 0}, true
	}
	return nil, false
}

func analyseWriteU16(fn *ast.FuncDecl) []int64 {
	ps := fn.Type.Params.List
	if len(ps) != 2 || len(ps[0].Names) != 1 || len(ps[1].Names) != 1 || ident(ps[1].Type) != "uint16" {
		fail(fn, "writeU16: unexpected signature")
	}
	w, v := ps[0].Names[0].Name, ps[1].Names[0].Name
	var buf map[int64]int64 // index -> shift
	bufName, bufLen := "", int64(0)
	var shifts []int64
	written := false
	finish := func(n ast.Node) {
		if buf == nil || int64(len(buf)) != bufLen {
			fail(n, "writeU16: buffer not fully assigned")
		}
		shifts = nil
		for i := int64(0); i < bufLen; i++ {
			shifts = append(shifts, buf[i])
		}
		written = true
	}
	isBuf := func(e ast.Expr) bool {
		if s, ok := e.(*ast.SliceExpr); ok && s.Low == nil && s.High == nil && s.Max == nil {
			return ident(s.X) == bufName && bufName != ""
		}
		return false
	}
	writeCall := func(c *ast.CallExpr) bool {
		if sel(c.Fun) != w+".Write" || len(c.Args) != 1 {
			return false
		}
		if isBuf(c.Args[0]) {
			finish(c)
			return true
		}
		if cl, ok := c.Args[0].(*ast.CompositeLit); ok {
			at, ok := cl.Type.(*ast.ArrayType)
			if ok && at.Len == nil && (ident(at.Elt) == "byte" || ident(at.Elt) == "uint8") {
				shifts = nil
				for _, el := range cl.Elts {
					s, ok := byteOfWord(el, v)
					if !ok {
						fail(el, "writeU16: unrecognised byte expression")
					}
					shifts = append(shifts, s)
				}
				written = true
				return true
			}
		}
		return false
	}
	for _, st := range fn.Body.List {
		if written {
			// only `return err` may follow the write
			if r, ok := st.(*ast.ReturnStmt); ok && len(r.Results) == 1 && ident(r.Results[0]) == "err" {
				continue
			}
			fail(st, "writeU16: statement after the write")
		}
		switch s := st.(type) {
		case *ast.DeclStmt:
			gd := s.Decl.(*ast.GenDecl)
			if gd.Tok != token.VAR || len(gd.Specs) != 1 {
				fail(st, "writeU16: unrecognised declaration")
			}
			vs := gd.Specs[0].(*ast.ValueSpec)
			at, ok := vs.Type.(*ast.ArrayType)
			if !ok || len(vs.Names) != 1 || len(vs.Values) != 0 || at.Len == nil {
				fail(st, "writeU16: unrecognised declaration")
			}
			n, ok := intLit(at.Len)
			if !ok || (ident(at.Elt) != "byte" && ident(at.Elt) != "uint8") {
				fail(st, "writeU16: unrecognised buffer type")
			}
			bufName, bufLen, buf = vs.Names[0].Name, n, map[int64]int64{}
		case *ast.AssignStmt:
			if len(s.Lhs) == 1 && len(s.Rhs) == 1 && s.Tok == token.ASSIGN {
				if ix, ok := s.Lhs[0].(*ast.IndexExpr); ok && ident(ix.X) == bufName && bufName != "" {
					i, ok1 := intLit(ix.Index)
					sh, ok2 := byteOfWord(s.Rhs[0], v)
					if !ok1 || !ok2 || i < 0 || i >= bufLen {
						fail(st, "writeU16: unrecognised buffer assignment")
					}
					buf[i] = sh
					continue
				}
			}
			if len(s.Lhs) == 2 && len(s.Rhs) == 1 && ident(s.Lhs[0]) == "_" && ident(s.Lhs[1]) == "err" {
				if c, ok := s.Rhs[0].(*ast.CallExpr); ok && writeCall(c) {
					continue
				}
			}
			fail(st, "writeU16: unrecognised assignment")
		case *ast.ExprStmt:
			c, ok := s.X.(*ast.CallExpr)
			if ok && len(c.Args) == 2 && isBuf(c.Args[0]) && ident(c.Args[1]) == v && bufLen == 2 {
				if f, ok := c.Fun.(*ast.SelectorExpr); ok && f.Sel.Name == "PutUint16" {
					if sh, ok := endian(f.X); ok {
						buf[0], buf[1] = sh[0], sh[1]
						continue
					}
				}
			}
			fail(st, "writeU16: unrecognised statement")
		case *ast.ReturnStmt:
			if len(s.Results) == 1 {
				if c, ok := s.Results[0].(*ast.CallExpr); ok && sel(c.Fun) == "binary.Write" && len(c.Args) == 3 &&
					ident(c.Args[0]) == w && ident(c.Args[2]) == v {
					if sh, ok := endian(c.Args[1]); ok {
						shifts, written = sh, true
						continue
					}
				}
			}
			fail(st, "writeU16: unrecognised return")
		default:
			fail(st, "writeU16: unrecognised statement")
		}
	}
	if !written {
		fail(fn, "writeU16: no write found")
	}
	return shifts
}

// ---------------------------------------------------------------------------
// writeName

func analyseWriteName(fn *ast.FuncDecl) *NameFn {
	ps := fn.Type.Params.List
	if len(ps) != 2 || len(ps[0].Names) != 1 || len(ps[1].Names) != 1 {
		fail(fn, "writeName: unexpected signature")
	}
	w, name := ps[0].Names[0].Name, ps[1].Names[0].Name
	res := &NameFn{Cmp: "never"}
	bufName := ""
	stage := 0 // 0 start, 1 buf declared, 2 copied, 3 written
	for _, st := range fn.Body.List {
		switch s := st.(type) {
		case *ast.AssignStmt:
			if stage == 0 && s.Tok == token.DEFINE && len(s.Lhs) == 1 && len(s.Rhs) == 1 {
				if b, ok := byteSliceLit(s.Rhs[0]); ok && ident(s.Lhs[0]) != "" {
					bufName, res.Buf, stage = ident(s.Lhs[0]), b, 1
					continue
				}
			}
			if stage == 2 && len(s.Lhs) == 2 && len(s.Rhs) == 1 && ident(s.Lhs[0]) == "_" && ident(s.Lhs[1]) == "err" {
				if c, ok := s.Rhs[0].(*ast.CallExpr); ok && sel(c.Fun) == w+".Write" && len(c.Args) == 1 && ident(c.Args[0]) == bufName {
					stage = 3
					continue
				}
			}
			fail(st, "writeName: unrecognised assignment")
		case *ast.IfStmt:
			// if len(name) CMP n { name = name[:m] }
			if stage != 1 || s.Init != nil || s.Else != nil || res.Cmp != "never" || len(s.Body.List) != 1 {
				fail(st, "writeName: unrecognised if")
			}
			be, ok := s.Cond.(*ast.BinaryExpr)
			if !ok {
				fail(st, "writeName: unrecognised condition")
			}
			lc, ok := be.X.(*ast.CallExpr)
			n, okn := intLit(be.Y)
			if !ok || !okn || ident(lc.Fun) != "len" || len(lc.Args) != 1 || ident(lc.Args[0]) != name {
				fail(st, "writeName: unrecognised condition")
			}
			switch be.Op {
			case token.GTR, token.GEQ, token.LSS, token.LEQ, token.EQL, token.NEQ:
			default:
				fail(st, "writeName: unrecognised comparison")
			}
			as, ok := s.Body.List[0].(*ast.AssignStmt)
			if !ok || as.Tok != token.ASSIGN || len(as.Lhs) != 1 || len(as.Rhs) != 1 || ident(as.Lhs[0]) != name {
				fail(st, "writeName: unrecognised truncation")
			}
			se, ok := as.Rhs[0].(*ast.SliceExpr)
			if !ok || ident(se.X) != name || se.High == nil || se.Max != nil {
				fail(st, "writeName: unrecognised truncation")
			}
			if se.Low != nil {
				if z, ok := intLit(se.Low); !ok || z != 0 {
					fail(st, "writeName: unrecognised truncation")
				}
			}
			m, ok := intLit(se.High)
			if !ok || m < 0 {
				fail(st, "writeName: unrecognised truncation")
			}
			res.Cmp, res.N, res.M = be.Op.String(), n, m
		case *ast.ExprStmt:
			c, ok := s.X.(*ast.CallExpr)
			if stage == 1 && ok && ident(c.Fun) == "copy" && len(c.Args) == 2 && ident(c.Args[0]) == bufName && ident(c.Args[1]) == name {
				stage = 2
				continue
			}
			fail(st, "writeName: unrecognised statement")
		case *ast.ReturnStmt:
			if stage == 3 && len(s.Results) == 1 && ident(s.Results[0]) == "err" {
				stage = 4
				continue
			}
			fail(st, "writeName: unrecognised return")
		default:
			fail(st, "writeName: unrecognised statement")
		}
	}
	if stage != 4 {
		fail(fn, "writeName: incomplete")
	}
	return res
}

// ---------------------------------------------------------------------------
// run()

type writer struct {
	kind string // bufio | buffer | file
	ops  []Op
}

type runState struct {
	res      *Result
	strVars  map[string]bool // package-level string vars
	uintVars map[string]bool
	flagOf   map[string]*Flag // by Go variable
	offVar   string           // uint16 variable
	bodyVar  string
	fileVar  string
	writers  map[string]*writer
	nameFn   *NameFn
	u16      []int64
	parsed   bool
	done     bool
}

const (
	tU16 = iota + 1
	tInt
	tUntyped
)

func (rs *runState) expr(e ast.Expr) (*Expr, int) {
	switch x := e.(type) {
	case *ast.ParenExpr:
		return rs.expr(x.X)
	case *ast.Ident:
		if x.Name == rs.offVar && rs.offVar != "" {
			return &Expr{K: "off"}, tU16
		}
	case *ast.BasicLit:
		if v, ok := intLit(x); ok && v < 1<<31 {
			return &Expr{K: "lit", Z: v}, tUntyped
		}
	case *ast.CallExpr:
		if len(x.Args) == 1 {
			switch ident(x.Fun) {
			case "len":
				if ident(x.Args[0]) == rs.bodyVar && rs.bodyVar != "" {
					return &Expr{K: "len"}, tInt
				}
			case "uint16":
				a, _ := rs.expr(x.Args[0])
				return &Expr{K: "conv16", A: a}, tU16
			case "int":
				a, _ := rs.expr(x.Args[0])
				return &Expr{K: "convint", A: a}, tInt
			}
		}
	case *ast.BinaryExpr:
		if x.Op == token.ADD || x.Op == token.SUB {
			a, ta := rs.expr(x.X)
			b, tb := rs.expr(x.Y)
			t := ta
			if ta == tUntyped {
				t = tb
			} else if tb != tUntyped && tb != ta {
				fail(e, "mixed integer types in expression")
			}
			if t == tUntyped {
				fail(e, "constant-only arithmetic is not supported")
			}
			k := "add"
			if x.Op == token.SUB {
				k = "sub"
			}
			return &Expr{K: k, W16: t == tU16, A: a, B: b}, t
		}
	}
	fail(e, "unrecognised integer expression")
	return nil, 0
}

func (rs *runState) u16expr(e ast.Expr) *Expr {
	x, t := rs.expr(e)
	if t == tInt {
		fail(e, "expression of type int where uint16 is needed")
	}
	return x
}

func (rs *runState) writerOf(e ast.Expr) *writer {
	if u, ok := e.(*ast.UnaryExpr); ok && u.Op == token.AND {
		e = u.X
	}
	if w, ok := rs.writers[ident(e)]; ok && ident(e) != "" {
		return w
	}
	fail(e, "unrecognised writer")
	return nil
}

func (rs *runState) line(n ast.Node) int { return fset.Position(n.Pos()).Line }

func (rs *runState) emit(w *writer, o Op) {
	w.ops = append(w.ops, o)
	if w.kind == "file" {
		w.ops = append(w.ops, Op{Op: "flush", Line: o.Line})
	}
}

func (rs *runState) splice(dst, src *writer, n ast.Node) {
	if src.kind != "buffer" {
		fail(n, "only a bytes.Buffer can be copied into a writer")
	}
	for _, o := range src.ops {
		rs.emit(dst, o)
	}
}

func isNewBuffer(e ast.Expr) bool {
	if c, ok := e.(*ast.CallExpr); ok {
		if ident(c.Fun) == "new" && len(c.Args) == 1 && sel(c.Args[0]) == "bytes.Buffer" {
			return true
		}
		if sel(c.Fun) == "bytes.NewBuffer" && len(c.Args) == 1 && ident(c.Args[0]) == "nil" {
			return true
		}
	}
	if u, ok := e.(*ast.UnaryExpr); ok && u.Op == token.AND {
		if cl, ok := u.X.(*ast.CompositeLit); ok && sel(cl.Type) == "bytes.Buffer" && len(cl.Elts) == 0 {
			return true
		}
	}
	return false
}

// call handles one call; lhs are the assigned names ("" for none / blank)
func (rs *runState) call(c *ast.CallExpr, lhs []string) {
	f := sel(c.Fun)
	if f == "" {
		f = ident(c.Fun)
	}
	arg := func(i int) ast.Expr { return c.Args[i] }
	switch {
	case (f == "flag.StringVar" || f == "flag.UintVar") && len(c.Args) == 4:
		u, ok := arg(0).(*ast.UnaryExpr)
		name, ok2 := strLit(arg(1))
		if !ok || u.Op != token.AND || !ok2 || rs.parsed {
			fail(c, "unrecognised flag definition")
		}
		fl := &Flag{Var: ident(u.X), Name: name}
		if f == "flag.StringVar" {
			d, ok := strLit(arg(2))
			if !ok || !rs.strVars[fl.Var] {
				fail(c, "unrecognised string flag")
			}
			fl.Kind, fl.DefStr = "string", d
		} else {
			b, ok := arg(2).(*ast.BasicLit)
			if !ok || b.Kind != token.INT || !rs.uintVars[fl.Var] {
				fail(c, "unrecognised uint flag")
			}
			d, err := strconv.ParseUint(b.Value, 0, 64)
			if err != nil {
				fail(c, "unrecognised uint flag default")
			}
			fl.Kind, fl.DefUint = "uint", d
		}
		rs.flagOf[fl.Var] = fl
		rs.res.Flags = append(rs.res.Flags, *fl)
	case f == "flag.Parse" && len(c.Args) == 0:
		rs.parsed = true
	case f == "os.ReadFile" && len(c.Args) == 1 && len(lhs) == 2 && lhs[1] == "err":
		fl := rs.flagOf[ident(arg(0))]
		if fl == nil || fl.Kind != "string" || !rs.parsed || rs.bodyVar != "" || lhs[0] == "" {
			fail(c, "unrecognised os.ReadFile")
		}
		if rs.res.InFlag != "" && rs.res.InFlag != fl.Name {
			fail(c, "default name taken from a flag that is not the input file")
		}
		rs.bodyVar, rs.res.InFlag = lhs[0], fl.Name
	case f == "os.Create" && len(c.Args) == 1 && len(lhs) == 2 && lhs[1] == "err":
		fl := rs.flagOf[ident(arg(0))]
		if fl == nil || fl.Kind != "string" || !rs.parsed || rs.fileVar != "" || lhs[0] == "" {
			fail(c, "unrecognised os.Create")
		}
		rs.fileVar, rs.res.OutFlag = lhs[0], fl.Name
		rs.writers[lhs[0]] = &writer{kind: "file"}
	case f == "bufio.NewWriter" && len(c.Args) == 1 && len(lhs) == 1 && lhs[0] != "":
		if ident(arg(0)) != rs.fileVar || rs.fileVar == "" {
			fail(c, "bufio.NewWriter over something that is not the output file")
		}
		for _, w := range rs.writers {
			if w.kind == "bufio" {
				fail(c, "second bufio.Writer")
			}
		}
		if len(rs.writers[rs.fileVar].ops) != 0 {
			fail(c, "output file written before the bufio.Writer was made")
		}
		rs.writers[lhs[0]] = &writer{kind: "bufio"}
	case isNewBuffer(c) && len(lhs) == 1 && lhs[0] != "":
		rs.writers[lhs[0]] = &writer{kind: "buffer"}
	case f == "writeU16" && len(c.Args) == 2 && rs.u16 != nil:
		w := rs.writerOf(arg(0))
		rs.emit(w, Op{Op: "u16", Shifts: rs.u16, Expr: rs.u16expr(arg(1)), Line: rs.line(c)})
	case f == "binary.Write" && len(c.Args) == 3:
		w := rs.writerOf(arg(0))
		sh, ok := endian(arg(1))
		if !ok {
			fail(c, "unrecognised byte order")
		}
		x, t := rs.expr(arg(2))
		if t != tU16 {
			fail(c, "binary.Write of something that is not a uint16")
		}
		rs.emit(w, Op{Op: "u16", Shifts: sh, Expr: x, Line: rs.line(c)})
	case f == "writeName" && len(c.Args) == 2 && rs.nameFn != nil:
		w := rs.writerOf(arg(0))
		cv, ok := arg(1).(*ast.CallExpr)
		if !ok || len(cv.Args) != 1 {
			fail(c, "unrecognised writeName argument")
		}
		at, ok := cv.Fun.(*ast.ArrayType)
		fl := rs.flagOf[ident(cv.Args[0])]
		if !ok || at.Len != nil || ident(at.Elt) != "byte" || fl == nil || fl.Kind != "string" {
			fail(c, "unrecognised writeName argument")
		}
		if rs.res.NamFlag != "" && rs.res.NamFlag != fl.Name {
			fail(c, "writeName with a different flag than the defaulted one")
		}
		rs.res.NamFlag = fl.Name
		rs.emit(w, Op{Op: "name", Line: rs.line(c)})
	default:
		// method calls on writers
		s, ok := c.Fun.(*ast.SelectorExpr)
		if !ok {
			fail(c, "unrecognised call")
		}
		recv := ident(s.X)
		w, isW := rs.writers[recv]
		switch {
		case isW && s.Sel.Name == "WriteByte" && len(c.Args) == 1:
			v, ok := intLit(arg(0))
			if !ok || v < 0 || v > 255 {
				fail(c, "WriteByte of a non-literal")
			}
			rs.emit(w, Op{Op: "byte", V: v, Line: rs.line(c)})
		case isW && s.Sel.Name == "Write" && len(c.Args) == 1:
			a := arg(0)
			if id := ident(a); id != "" {
				if id == rs.bodyVar {
					rs.emit(w, Op{Op: "body", Line: rs.line(c)})
				} else if bs, ok := rs.res.ByteVars[id]; ok {
					rs.emit(w, Op{Op: "bytes", Bytes: bs, Var: id, Line: rs.line(c)})
				} else {
					fail(c, "Write of an unknown variable %s", id)
				}
			} else if bs, ok := byteSliceLit(a); ok {
				rs.emit(w, Op{Op: "bytes", Bytes: bs, Line: rs.line(c)})
			} else if ac, ok := a.(*ast.CallExpr); ok && len(ac.Args) == 0 {
				as, ok := ac.Fun.(*ast.SelectorExpr)
				if !ok || as.Sel.Name != "Bytes" {
					fail(c, "unrecognised Write argument")
				}
				rs.splice(w, rs.writerOf(as.X), c)
			} else {
				fail(c, "unrecognised Write argument")
			}
		case isW && s.Sel.Name == "WriteTo" && len(c.Args) == 1:
			rs.splice(rs.writerOf(arg(0)), w, c)
		case isW && s.Sel.Name == "Flush" && len(c.Args) == 0 && w.kind == "bufio":
			w.ops = append(w.ops, Op{Op: "flush", Line: rs.line(c)})
		default:
			fail(c, "unrecognised call")
		}
	}
}

func lhsNames(l []ast.Expr) []string {
	r := []string{}
	for _, e := range l {
		n := ident(e)
		if n == "_" {
			n = ""
		}
		r = append(r, n)
	}
	return r
}

func (rs *runState) stmt(st ast.Stmt) {
	if rs.done {
		fail(st, "statement after return")
	}
	switch s := st.(type) {
	case *ast.ExprStmt:
		c, ok := s.X.(*ast.CallExpr)
		if !ok {
			fail(st, "unrecognised statement")
		}
		rs.call(c, nil)
	case *ast.AssignStmt:
		if len(s.Rhs) != 1 || (s.Tok != token.ASSIGN && s.Tok != token.DEFINE) {
			fail(st, "unrecognised assignment")
		}
		lhs := lhsNames(s.Lhs)
		if c, ok := s.Rhs[0].(*ast.CallExpr); ok {
			// off := uint16(off0)
			if ident(c.Fun) == "uint16" && len(lhs) == 1 && s.Tok == token.DEFINE {
				rs.defOff(lhs[0], c, st)
				return
			}
			// only err / _ / fresh names may be assigned from calls
			for _, n := range lhs {
				if n != "" && n != "err" && s.Tok != token.DEFINE {
					fail(st, "assignment to %s", n)
				}
			}
			rs.call(c, lhs)
			return
		}
		if isNewBuffer(s.Rhs[0]) && len(lhs) == 1 && s.Tok == token.DEFINE {
			rs.writers[lhs[0]] = &writer{kind: "buffer"}
			return
		}
		fail(st, "unrecognised assignment")
	case *ast.DeclStmt:
		gd, ok := s.Decl.(*ast.GenDecl)
		if !ok || gd.Tok != token.VAR || len(gd.Specs) != 1 {
			fail(st, "unrecognised declaration")
		}
		vs := gd.Specs[0].(*ast.ValueSpec)
		if len(vs.Names) != 1 {
			fail(st, "unrecognised declaration")
		}
		name := vs.Names[0].Name
		if len(vs.Values) == 0 && sel(vs.Type) == "bytes.Buffer" {
			rs.writers[name] = &writer{kind: "buffer"}
			return
		}
		if len(vs.Values) == 1 && (vs.Type == nil || ident(vs.Type) == "uint16") {
			if c, ok := vs.Values[0].(*ast.CallExpr); ok && ident(c.Fun) == "uint16" {
				rs.defOff(name, c, st)
				return
			}
		}
		fail(st, "unrecognised declaration")
	case *ast.IfStmt:
		if s.Else != nil {
			fail(st, "unrecognised if/else")
		}
		if s.Init != nil {
			rs.stmt(s.Init)
		}
		if isErrNotNil(s.Cond) && isReturnErr(s.Body) {
			return
		}
		// if nam == "" { nam = cim }
		if be, ok := s.Cond.(*ast.BinaryExpr); ok && s.Init == nil && be.Op == token.EQL && len(s.Body.List) == 1 {
			e, ok1 := strLit(be.Y)
			as, ok2 := s.Body.List[0].(*ast.AssignStmt)
			if ok1 && e == "" && ok2 && as.Tok == token.ASSIGN && len(as.Lhs) == 1 && len(as.Rhs) == 1 &&
				ident(as.Lhs[0]) == ident(be.X) {
				nf, cf := rs.flagOf[ident(be.X)], rs.flagOf[ident(as.Rhs[0])]
				if nf != nil && cf != nil && nf.Kind == "string" && cf.Kind == "string" && rs.parsed &&
					rs.bodyVar == "" && rs.res.NamFlag == "" {
					rs.res.NamFlag, rs.res.DefaultFromCim = nf.Name, true
					rs.res.InFlag = cf.Name // confirmed by os.ReadFile below
					return
				}
			}
		}
		fail(st, "unrecognised if")
	case *ast.DeferStmt:
		if sel(s.Call.Fun) == rs.fileVar+".Close" && rs.fileVar != "" && len(s.Call.Args) == 0 {
			return
		}
		fail(st, "unrecognised defer")
	case *ast.ReturnStmt:
		if len(s.Results) != 1 {
			fail(st, "unrecognised return")
		}
		if ident(s.Results[0]) == "nil" {
			rs.done = true
			return
		}
		if c, ok := s.Results[0].(*ast.CallExpr); ok {
			rs.call(c, nil)
			rs.done = true
			return
		}
		fail(st, "unrecognised return")
	default:
		fail(st, "unrecognised statement")
	}
}

func (rs *runState) defOff(name string, c *ast.CallExpr, st ast.Stmt) {
	if len(c.Args) != 1 || rs.offVar != "" || !rs.parsed {
		fail(st, "unrecognised offset conversion")
	}
	fl := rs.flagOf[ident(c.Args[0])]
	if fl == nil || fl.Kind != "uint" {
		fail(st, "offset is not uint16(<uint flag>)")
	}
	rs.offVar, rs.res.OffFlag, rs.res.OffDefault = name, fl.Name, fl.DefUint
}

func analyse(path string) *Result {
	file, err := parser.ParseFile(fset, path, nil, 0)
	if err != nil {
		panic(bail{err.Error()})
	}
	res := &Result{File: path, ByteVars: map[string][]int64{}}
	rs := &runState{res: res, strVars: map[string]bool{}, uintVars: map[string]bool{},
		flagOf: map[string]*Flag{}, writers: map[string]*writer{}}
	funcs := map[string]*ast.FuncDecl{}
	for _, d := range file.Decls {
		switch x := d.(type) {
		case *ast.FuncDecl:
			if x.Recv != nil {
				fail(x, "method declarations are not expected")
			}
			funcs[x.Name.Name] = x
		case *ast.GenDecl:
			if x.Tok == token.IMPORT {
				continue
			}
			if x.Tok != token.VAR {
				fail(x, "unexpected package-level declaration")
			}
			for _, sp := range x.Specs {
				vs := sp.(*ast.ValueSpec)
				for i, n := range vs.Names {
					switch {
					case len(vs.Values) == 0 && ident(vs.Type) == "string":
						rs.strVars[n.Name] = true
					case len(vs.Values) == 0 && ident(vs.Type) == "uint":
						rs.uintVars[n.Name] = true
					case len(vs.Values) == len(vs.Names):
						bs, ok := byteSliceLit(vs.Values[i])
						if !ok {
							fail(vs, "unrecognised package-level variable %s", n.Name)
						}
						res.ByteVars[n.Name] = bs
						res.ByteVarOrder = append(res.ByteVarOrder, n.Name)
					default:
						fail(vs, "unrecognised package-level variable %s", n.Name)
					}
				}
			}
		}
	}
	for name := range funcs {
		switch name {
		case "run", "main", "writeU16", "writeName":
		default:
			fail(funcs[name], "unexpected function %s", name)
		}
	}
	if fn := funcs["writeU16"]; fn != nil {
		rs.u16 = analyseWriteU16(fn)
		res.U16Shifts = rs.u16
	}
	if fn := funcs["writeName"]; fn != nil {
		rs.nameFn = analyseWriteName(fn)
		res.Name = rs.nameFn
	}
	run := funcs["run"]
	if run == nil {
		fail(file, "no run()")
	}
	for _, st := range run.Body.List {
		rs.stmt(st)
	}
	if !rs.done {
		fail(run, "run() does not end in a return")
	}
	// package-level byte slices must not be assigned anywhere (they are read as constants)
	ast.Inspect(file, func(n ast.Node) bool {
		if as, ok := n.(*ast.AssignStmt); ok {
			for _, l := range as.Lhs {
				base := l
				if ix, ok := l.(*ast.IndexExpr); ok {
					base = ix.X
				}
				if _, ok := res.ByteVars[ident(base)]; ok && ident(base) != "" {
					fail(as, "package-level byte slice %s is modified", ident(base))
				}
			}
		}
		return true
	})
	// what reaches the file
	var out *writer
	for _, w := range rs.writers {
		if w.kind == "bufio" {
			out = w
		}
	}
	if out == nil {
		out = rs.writers[rs.fileVar]
	} else if len(rs.writers[rs.fileVar].ops) != 0 {
		fail(run, "output file written both directly and through bufio")
	}
	if out == nil || rs.bodyVar == "" || rs.offVar == "" {
		fail(run, "run(): input, output or offset not found")
	}
	res.Ops = out.ops
	// main: err := run(); if err != nil { log.Fatal(err) }
	if m := funcs["main"]; m != nil && len(m.Body.List) == 2 {
		as, ok1 := m.Body.List[0].(*ast.AssignStmt)
		is, ok2 := m.Body.List[1].(*ast.IfStmt)
		if ok1 && ok2 && len(as.Rhs) == 1 && isErrNotNil(is.Cond) {
			if c, ok := as.Rhs[0].(*ast.CallExpr); ok && ident(c.Fun) == "run" {
				res.MainCallsRunLog = true
			}
		}
	}
	if !res.MainCallsRunLog {
		fail(file, "main() is not `err := run(); if err != nil { ... }`")
	}
	return res
}

func main() {
	if len(os.Args) != 2 {
		fmt.Fprintln(os.Stderr, "usage: extract <file.go>")
		os.Exit(2)
	}
	defer func() {
		if r := recover(); r != nil {
			if b, ok := r.(bail); ok {
				fmt.Fprintln(os.Stderr, "extract: "+b.msg)
				os.Exit(1)
			}
			panic(r)
		}
	}()
	res := analyse(os.Args[1])
	enc := json.NewEncoder(os.Stdout)
	enc.SetIndent("", " ")
	if err := enc.Encode(res); err != nil {
		panic(err)
	}
}
