include Model
let bin_cli = cim2bin_cli
let cas_cli = cim2cas_cli
