(* OCaml extraction of the C19 model (stdlib directives only; Z stays inductive) *)
Require Extraction.
Require Import ExtrOcamlBasic.
From Z80V Require Import Cim.Model.
Extraction "model.ml" cim2bin_cli cim2cas_cli.
