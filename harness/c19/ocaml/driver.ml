(* C19 driver: runs the extracted Coq functions (module X = model or spec) on a case file.
   case file, one case per line, fields separated by one space:
     <bin|cas> <off hex | -> <nam hex | -> <cimpath hex | -> <body file> <output file>
   ("-" for off: flag not given (None); for nam / cimpath: empty byte string)
   The result bytes are written to <output file>. *)
open X

let pos_of_hex (s : string) : positive option =
  (* nibbles are read most significant first; each pushes its bits so that the
     final list has the least significant bit of the number at its head *)
  let bits = ref [] in
  String.iter (fun c ->
    let v = match c with
      | '0'..'9' -> Char.code c - 48
      | 'a'..'f' -> Char.code c - 87
      | 'A'..'F' -> Char.code c - 55
      | _ -> failwith "bad hex" in
    bits := (v land 1 = 1) :: (v land 2 = 2) :: (v land 4 = 4) :: (v land 8 = 8) :: !bits) s;
  let rec build = function
    | [] -> None
    | b :: rest ->
      (match build rest with
       | None -> if b then Some XH else None
       | Some p -> Some (if b then XI p else XO p)) in
  build !bits

let z_of_hex s = match pos_of_hex s with None -> Z0 | Some p -> Zpos p

let rec int_of_pos = function XH -> 1 | XO p -> 2 * int_of_pos p | XI p -> 2 * int_of_pos p + 1
let int_of_z = function Z0 -> 0 | Zpos p -> int_of_pos p | Zneg p -> - (int_of_pos p)

let byte_tab : z array = Array.init 256 (fun i -> z_of_hex (Printf.sprintf "%x" i))

let zlist_of_string (s : string) : z list =
  let r = ref [] in
  for i = String.length s - 1 downto 0 do r := byte_tab.(Char.code s.[i]) :: !r done;
  !r

let unhex (s : string) : string =
  if s = "-" then "" else
  String.init (String.length s / 2) (fun i -> Char.chr (int_of_string ("0x" ^ String.sub s (2 * i) 2)))

let read_file p =
  let ic = open_in_bin p in
  let n = in_channel_length ic in
  let s = really_input_string ic n in
  close_in ic; s

let () =
  let ic = open_in Sys.argv.(1) in
  (try
    while true do
      let line = input_line ic in
      match String.split_on_char ' ' line with
      | [tool; off; nam; cim; bodyf; outf] ->
        let offopt = if off = "-" then None else Some (z_of_hex off) in
        let body = zlist_of_string (read_file bodyf) in
        let res =
          if tool = "bin" then bin_cli offopt body
          else cas_cli offopt (zlist_of_string (unhex nam)) (zlist_of_string (unhex cim)) body in
        let b = Buffer.create 70000 in
        List.iter (fun z ->
          let v = int_of_z z in
          if v < 0 || v > 255 then failwith "model produced a non-byte";
          Buffer.add_char b (Char.chr v)) res;
        let oc = open_out_bin outf in
        Buffer.output_buffer oc b; close_out oc
      | [] | [""] -> ()
      | _ -> failwith ("bad case line: " ^ line)
    done
  with End_of_file -> ());
  close_in ic
