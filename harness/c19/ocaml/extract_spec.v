(* OCaml extraction of the C19 specification (independent of Gen/) *)
Require Extraction.
Require Import ExtrOcamlBasic.
From Z80V Require Import Cim.Spec.
Extraction "spec.ml" spec_bin_cli spec_cas_cli.
