include Spec
let bin_cli = spec_bin_cli
let cas_cli = spec_cas_cli
