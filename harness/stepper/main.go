// Command verif_step drives the REAL github.com/koron-go/z80 package on case lines (stdin)
// and prints observations in the format shared with the OCaml driver of the Coq model.
// It is compiled into the repository's module with `go build -overlay` (nothing in /repo is edited).
package main

import (
	"errors"
	"bufio"
	"context"
	"fmt"
	"log"
	"os"
	"runtime"
	"strconv"
	"strings"
	"time"

	z80 "github.com/koron-go/z80"
)

type event struct{ k, a, v int }

type world struct {
	mem    [65536]uint8
	trace  []event
	inputs []uint8
	full   bool
	n      int
	h      int
	nreti  int
	nretn  int
}

const hmod = 1000000007

func (w *world) ev(k, a, v int) {
	w.n++
	w.h = (((w.h*31+k)%hmod*31+a)%hmod*31 + v) % hmod
	if w.full {
		w.trace = append(w.trace, event{k, a, v})
	}
}

type memory struct{ w *world }

func (m memory) Get(addr uint16) uint8 {
	v := m.w.mem[addr]
	m.w.ev(0, int(addr), int(v))
	return v
}
func (m memory) Set(addr uint16, v uint8) {
	m.w.ev(1, int(addr), int(v))
	m.w.mem[addr] = v
}

type ioDev struct {
	w *world
	// optional trigger: on the n-th port access raise an interrupt request on the CPU
	cpu   *z80.CPU
	trigN int
	count int
	irq   *z80.Interrupt
}

func (d *ioDev) touch() {
	d.count++
	if d.cpu != nil && d.trigN > 0 && d.count == d.trigN {
		d.cpu.Interrupt = d.irq
	}
}

func (d *ioDev) In(addr uint8) uint8 {
	defer d.touch()
	var v uint8
	if len(d.w.inputs) > 0 {
		v = d.w.inputs[0]
		d.w.inputs = d.w.inputs[1:]
	}
	d.w.ev(2, int(addr), int(v))
	return v
}
func (d *ioDev) Out(addr uint8, v uint8) { d.w.ev(3, int(addr), int(v)); d.touch() }

type retiH struct{ w *world }

func (h retiH) RETIHandle() { h.w.nreti++; h.w.ev(4, 0, 0) }

type retnH struct{ w *world }

func (h retnH) RETNHandle() { h.w.nretn++; h.w.ev(5, 0, 0) }

type logW struct{ w **world }

func (l logW) Write(p []byte) (int, error) {
	if *l.w != nil {
		(*l.w).ev(6, 0, 0)
	}
	return len(p), nil
}

type toks struct {
	t []string
	i int
}

func (t *toks) s() string { v := t.t[t.i]; t.i++; return v }
func (t *toks) n() int {
	v, err := strconv.Atoi(t.s())
	if err != nil {
		panic(err)
	}
	return v
}

var cur *world

type sch struct {
	at, kind int
	data     []uint8
}

type parsed struct {
	id        string
	nsteps    int
	tracemode int
	cpu       *z80.CPU
	w         *world
	sched     []sch
	dev       *ioDev
}

func parseCase(t *toks) *parsed {
	id := t.s()
	_ = t.n() // model selector (for the Coq side)
	nsteps := t.n()
	tracemode := t.n()
	var r [26]int
	for i := range r {
		r[i] = t.n()
	}
	iff1, iff2 := t.n() != 0, t.n() != 0
	im := t.n()
	halt := t.n() != 0
	io, reti, retn := t.n() != 0, t.n() != 0, t.n() != 0
	var sched []sch
	for k := t.n(); k > 0; k-- {
		s := sch{at: t.n(), kind: t.n()}
		nd := t.n()
		if nd > 0 {
			s.data = make([]uint8, nd)
		}
		for j := 0; j < nd; j++ {
			s.data[j] = uint8(t.n())
		}
		sched = append(sched, s)
	}
	w := &world{full: tracemode == 0, h: 7}
	fill := uint8(t.n())
	if fill != 0 {
		for i := range w.mem {
			w.mem[i] = fill
		}
	}
	for k := t.n(); k > 0; k-- {
		a := t.n()
		w.mem[a&0xffff] = uint8(t.n())
	}
	for k := t.n(); k > 0; k-- {
		w.inputs = append(w.inputs, uint8(t.n()))
	}
	reg := func(i int) z80.Register { return z80.Register{Hi: uint8(r[i]), Lo: uint8(r[i+1])} }
	cpu := &z80.CPU{
		States: z80.States{
			GPR:       z80.GPR{AF: reg(0), BC: reg(2), DE: reg(4), HL: reg(6)},
			Alternate: z80.GPR{AF: reg(8), BC: reg(10), DE: reg(12), HL: reg(14)},
			SPR:       z80.SPR{IR: reg(16), IX: uint16(r[18]), IY: uint16(r[19]), SP: uint16(r[20]), PC: uint16(r[21])},
			IFF1:      iff1, IFF2: iff2, IM: im,
		},
		Memory: memory{w},
		HALT:   halt,
	}
	dev := &ioDev{w: w}
	if io {
		cpu.IO = dev
	}
	if reti {
		cpu.RETIHandler = retiH{w}
	}
	if retn {
		cpu.RETNHandler = retnH{w}
	}
	return &parsed{id, nsteps, tracemode, cpu, w, sched, dev}
}

func runStep(t *toks, out *bufio.Writer) {
	pc := parseCase(t)
	id, nsteps, cpu, w, sched := pc.id, pc.nsteps, pc.cpu, pc.w, pc.sched
	cur = w
	panicked := func() (p bool) {
		defer func() {
			if e := recover(); e != nil {
				p = true
			}
		}()
		for k := 0; k < nsteps; k++ {
			for _, s := range sched {
				if s.at == k {
					cpu.Interrupt = &z80.Interrupt{Type: z80.InterruptType(s.kind), Data: s.data}
				}
			}
			cpu.Step()
		}
		return false
	}()
	cur = nil
	if panicked {
		w.ev(7, 0, 0)
	}
	printState(out, id, cpu, w)
}

func printState(out *bufio.Writer, id string, cpu *z80.CPU, w *world) {
	b := func(v bool) int {
		if v {
			return 1
		}
		return 0
	}
	rr := func(x z80.Register) string { return fmt.Sprintf("%d %d", x.Hi, x.Lo) }
	fmt.Fprintf(out, "%s %s %s %s %s %s %s %s %s %s %d %d %d %d %d %d %d %d %d %d %d", id,
		rr(cpu.AF), rr(cpu.BC), rr(cpu.DE), rr(cpu.HL),
		rr(cpu.Alternate.AF), rr(cpu.Alternate.BC), rr(cpu.Alternate.DE), rr(cpu.Alternate.HL),
		rr(cpu.IR), cpu.IX, cpu.IY, cpu.SP, cpu.PC, b(cpu.IFF1), b(cpu.IFF2), cpu.IM, b(cpu.HALT),
		b(cpu.Interrupt != nil), w.n, w.h)
	for _, e := range w.trace {
		fmt.Fprintf(out, " %d %d %d", e.k, e.a, e.v)
	}
	fmt.Fprintln(out)
}

// run: CPU.Run with break points, optional cancellation, repeated calls, an interrupt raised by a port callback.
// extras after the common part: nbp (-1 = nil map) bps... cancelmode(0 never,1 before the call,2 after ms) ms nruns trigN trigKind trigNd data...
func runRun(t *toks, out *bufio.Writer) {
	pc := parseCase(t)
	cpu, w := pc.cpu, pc.w
	nbp := t.n()
	if nbp >= 0 {
		cpu.BreakPoints = map[uint16]struct{}{}
		for i := 0; i < nbp; i++ {
			cpu.BreakPoints[uint16(t.n())] = struct{}{}
		}
	}
	cancelMode, ms, nruns := t.n(), t.n(), t.n()
	trigN, trigKind, trigNd := t.n(), t.n(), t.n()
	var data []uint8
	for i := 0; i < trigNd; i++ {
		data = append(data, uint8(t.n()))
	}
	if trigN > 0 {
		pc.dev.cpu, pc.dev.trigN, pc.dev.irq = cpu, trigN, &z80.Interrupt{Type: z80.InterruptType(trigKind), Data: data}
	}
	for _, s := range pc.sched {
		if s.at == 0 {
			cpu.Interrupt = &z80.Interrupt{Type: z80.InterruptType(s.kind), Data: s.data}
		}
	}
	cur = w
	time.Sleep(2 * time.Millisecond)
	base := runtime.NumGoroutine()
	var cancels []context.CancelFunc
	for r := 0; r < nruns; r++ {
		// in run mode a scheduled request with at = r >= 1 is raised between Run number r-1 and Run number r
		if r > 0 {
			for _, s := range pc.sched {
				if s.at == r {
					cpu.Interrupt = &z80.Interrupt{Type: z80.InterruptType(s.kind), Data: s.data}
				}
			}
		}
		ctx, cancel := context.WithCancel(context.Background())
		switch cancelMode {
		case 1:
			cancel()
		case 2:
			go func() { time.Sleep(time.Duration(ms) * time.Millisecond); cancel() }()
		case 4:
			// a context that carries a cancellation cause: Run must still return ctx.Err(), not the cause
			cancel()
			c4, cc := context.WithCancelCause(context.Background())
			ctx, cancel = c4, func() { cc(errCause) }
			go func() { time.Sleep(time.Duration(ms) * time.Millisecond); cc(errCause) }()
		case 5:
			cancel()
			ctx, cancel = context.WithTimeoutCause(context.Background(), time.Duration(ms)*time.Millisecond, errCause)
		}
		cancels = append(cancels, cancel)
		type res struct {
			err   error
			panic bool
		}
		ch := make(chan res, 1)
		t0 := time.Now()
		go func() {
			defer func() {
				if e := recover(); e != nil {
					ch <- res{nil, true}
				}
			}()
			ch <- res{cpu.Run(ctx), false}
		}()
		code, late := 0, 0
		select {
		case x := <-ch:
			switch {
			case x.panic:
				code = 4
			case x.err == nil:
				code = 0
			case x.err == z80.ErrBreakPoint:
				code = 1
			case x.err == ctx.Err():
				code = 2
			default:
				code = 5
			}
		case <-time.After(5 * time.Second):
			code = 3
			cancel()
			// give a well-behaved Run one more second to notice the cancellation; a Run that ignores it is abandoned
			select {
			case <-ch:
			case <-time.After(time.Second):
				code = 6
			}
		}
		el := time.Since(t0)
		if (cancelMode == 2 || cancelMode == 4 || cancelMode == 5) && el > time.Duration(ms+3000)*time.Millisecond {
			late = 1
		}
		if cancelMode == 3 {
			cancel() // the caller's usual `defer cancel()`: must not disturb a later Run on the same CPU
		}
		fmt.Fprintf(out, "%s.%d.res %d %d\n", pc.id, r, code, late)
		if code == 6 {
			// Run is still executing on this CPU: its state cannot be read or reused
			break
		}
		printState(out, fmt.Sprintf("%s.%d", pc.id, r), cpu, w)
	}
	// goroutines that outlive Run although its context is still live are leaks (the parent contexts are cancelled only now)
	if cancelMode == 2 || cancelMode == 4 || cancelMode == 5 {
		time.Sleep(time.Duration(ms+5) * time.Millisecond)
	}
	leak := 0
	for i := 0; i < 50; i++ {
		leak = runtime.NumGoroutine() - base
		if leak <= 0 {
			break
		}
		time.Sleep(2 * time.Millisecond)
	}
	fmt.Fprintf(out, "%s.gor %d\n", pc.id, leak)
	for _, c := range cancels {
		c()
	}
	cur = nil
}

// snapshot builds a second CPU from a copy of States, a copy of memory and the pending request only
func snapshot(cpu *z80.CPU, w *world) (*z80.CPU, *world) {
	w2 := &world{full: w.full, h: 7}
	w2.mem = w.mem
	w2.inputs = append([]uint8(nil), w.inputs...)
	c2 := &z80.CPU{States: cpu.States, Memory: memory{w2}}
	if cpu.IO != nil {
		c2.IO = &ioDev{w: w2}
	}
	if cpu.RETIHandler != nil {
		c2.RETIHandler = retiH{w2}
	}
	if cpu.RETNHandler != nil {
		c2.RETNHandler = retnH{w2}
	}
	if cpu.Interrupt != nil {
		c2.Interrupt = &z80.Interrupt{Type: cpu.Interrupt.Type, Data: append([]uint8(nil), cpu.Interrupt.Data...)}
	}
	return c2, w2
}

func sameCPU(a, b *z80.CPU, wa, wb *world) string {
	if a.States != b.States {
		return fmt.Sprintf("States %+v vs %+v", a.States, b.States)
	}
	if (a.Interrupt == nil) != (b.Interrupt == nil) {
		return "pending request differs"
	}
	if wa.mem != wb.mem {
		return "memory differs"
	}
	return ""
}

// twin: at EVERY instruction boundary a CPU rebuilt from States + memory + pending request must continue
// exactly like the original (next Step: same state, same memory, same accesses)
func runTwin(t *toks, out *bufio.Writer) {
	pc := parseCase(t)
	cpu, w := pc.cpu, pc.w
	w.full = true
	cur = nil
	res := "same"
	for k := 0; k < pc.nsteps && res == "same"; k++ {
		for _, s := range pc.sched {
			if s.at == k {
				cpu.Interrupt = &z80.Interrupt{Type: z80.InterruptType(s.kind), Data: s.data}
			}
		}
		c2, w2 := snapshot(cpu, w)
		n0 := len(w.trace)
		// the request descriptor belongs to the caller (it may be shared by several CPUs): Step must not write into it
		var reqData, reqBefore []uint8
		if cpu.Interrupt != nil {
			reqData = cpu.Interrupt.Data
			reqBefore = append([]uint8(nil), reqData...)
		}
		cpu.Step()
		c2.Step()
		if string(reqData) != string(reqBefore) {
			res = fmt.Sprintf("diverged_at_step_%d:the_callers_Interrupt.Data_was_modified_%x_to_%x", k, reqBefore, reqData)
			break
		}
		if d := sameCPU(cpu, c2, w, w2); d != "" {
			res = fmt.Sprintf("diverged_at_step_%d:%s", k, strings.ReplaceAll(d, " ", "_"))
			break
		}
		ta, tb := w.trace[n0:], w2.trace
		if len(ta) != len(tb) {
			res = fmt.Sprintf("diverged_at_step_%d:access_count_%d_vs_%d", k, len(ta), len(tb))
			break
		}
		for i := range ta {
			if ta[i] != tb[i] {
				res = fmt.Sprintf("diverged_at_step_%d:access_%d", k, i)
			}
		}
	}
	fmt.Fprintf(out, "%s %s\n", pc.id, res)
}

// par: n copies of one case stepped on their own goroutines; every copy must end like the sequential run
func runPar(t *toks, out *bufio.Writer) {
	pc := parseCase(t)
	ncopies := t.n()
	cur = nil
	type fin struct {
		st z80.States
		h  int
		n  int
	}
	runOne := func(cpu *z80.CPU, w *world) fin {
		for k := 0; k < pc.nsteps; k++ {
			for _, s := range pc.sched {
				if s.at == k {
					cpu.Interrupt = &z80.Interrupt{Type: z80.InterruptType(s.kind), Data: s.data}
				}
			}
			cpu.Step()
		}
		return fin{cpu.States, w.h, w.n}
	}
	var cpus []*z80.CPU
	var ws []*world
	for i := 0; i < ncopies+1; i++ {
		c, w := snapshot(pc.cpu, pc.w)
		w.full = false
		cpus, ws = append(cpus, c), append(ws, w)
	}
	ref := runOne(cpus[0], ws[0])
	ch := make(chan fin, ncopies)
	for i := 1; i <= ncopies; i++ {
		go func(i int) { ch <- runOne(cpus[i], ws[i]) }(i)
	}
	res := "same"
	for i := 0; i < ncopies; i++ {
		if f := <-ch; f != ref {
			res = "differs"
		}
	}
	fmt.Fprintf(out, "%s %s\n", pc.id, res)
}

// inject: the property's own experiment.  Baseline: run the program to its HALT.  Then for EVERY Step boundary k
// inject the request before Step k, run to the HALT again, and compare registers, flags, IFF state, HALT and memory
// (outside the 64 bytes below the initial SP) with the baseline.  extras: kind ndata data... maxsteps
func runInject(t *toks, out *bufio.Writer) {
	pc := parseCase(t)
	kind, nd := t.n(), t.n()
	var data []uint8
	for i := 0; i < nd; i++ {
		data = append(data, uint8(t.n()))
	}
	maxsteps := t.n()
	cur = nil
	runTo := func(inj int) (*z80.CPU, *world, int, bool) {
		c, w := snapshot(pc.cpu, pc.w)
		w.full = false
		steps, settled := 0, 0
		for steps < maxsteps {
			if steps == inj {
				c.Interrupt = &z80.Interrupt{Type: z80.InterruptType(kind), Data: data}
			}
			c.Step()
			steps++
			// finished = parked on HALT with no request pending, for a few Steps in a row
			if c.HALT && c.Interrupt == nil && w.mem[c.PC] == 0x76 {
				settled++
				if settled >= 3 && steps > inj+1 {
					return c, w, steps, true
				}
			} else {
				settled = 0
			}
		}
		return c, w, steps, false
	}
	base, bw, n, ok := runTo(-1)
	if !ok {
		fmt.Fprintf(out, "%s baseline_did_not_halt\n", pc.id)
		return
	}
	sp0 := pc.cpu.SP
	same := func(c *z80.CPU, w *world) string {
		a, b := base.States, c.States
		a.IR.Lo, b.IR.Lo = 0, 0
		if a != b {
			return fmt.Sprintf("registers:%+v_vs_%+v", a, b)
		}
		for addr := 0; addr < 65536; addr++ {
			if d := uint16(sp0 - uint16(addr)); d >= 1 && d <= 64 {
				continue
			}
			if bw.mem[addr] != w.mem[addr] {
				return fmt.Sprintf("memory_at_%04X:%02X_vs_%02X", addr, bw.mem[addr], w.mem[addr])
			}
		}
		return ""
	}
	for k := 0; k <= n; k++ {
		c, w, _, ok := runTo(k)
		if !ok {
			fmt.Fprintf(out, "%s fail k=%d did_not_halt\n", pc.id, k)
			return
		}
		if d := same(c, w); d != "" {
			fmt.Fprintf(out, "%s fail k=%d %s\n", pc.id, k, strings.ReplaceAll(d, " ", "_"))
			return
		}
		// the request must have been SERVED exactly once: one more return-from-interrupt than the undisturbed run
		// (a maskable request only when the program ends with interrupts enabled; a non-maskable one always)
		if pc.cpu.RETIHandler != nil && pc.cpu.RETNHandler != nil {
			if kind == 0 && w.nretn != bw.nretn+1 {
				fmt.Fprintf(out, "%s fail k=%d non-maskable_request_served_%d_times\n", pc.id, k, w.nretn-bw.nretn)
				return
			}
			if kind != 0 && base.IFF1 && base.IM != 0 && w.nreti != bw.nreti+1 {
				fmt.Fprintf(out, "%s fail k=%d maskable_request_served_%d_times\n", pc.id, k, w.nreti-bw.nreti)
				return
			}
		}
	}
	fmt.Fprintf(out, "%s ok %d\n", pc.id, n+1)
}

var errCause = errors.New("operator requested stop")

type rng64 struct{ s uint64 }

func (r *rng64) next() uint64 {
	r.s += 0x9E3779B97F4A7C15
	z := r.s
	z = (z ^ (z >> 30)) * 0xBF58476D1CE4E5B9
	z = (z ^ (z >> 27)) * 0x94D049BB133111EB
	return z ^ (z >> 31)
}
func (r *rng64) below(n int) int { return int(r.next() % uint64(n)) }

// fuzz id seed n [only]: n random scenarios (arbitrary byte strings as programs, arbitrary States incl. any IM, the
// bundled memory / port types incl. short ones, nil IO, arbitrary Interrupt values); each under recover() and a watchdog.
func runFuzz(t *toks, out *bufio.Writer) {
	id := t.s()
	seed, n := t.n(), t.n()
	only := -1
	if t.i < len(t.t) {
		only = t.n()
	}
	cur = nil
	edges := []int{0, 1, 2, 3, 0x7FFF, 0x8000, 0xFFFC, 0xFFFD, 0xFFFE, 0xFFFF}
	for i := 0; i < n; i++ {
		r := &rng64{uint64(seed)*1000003 + uint64(i)}
		if only >= 0 && i != only {
			continue
		}
		var mem z80.Memory
		kind := r.below(4)
		length := []int{0, 1, 2, 255, 256, 4096, 65535, 65536}[r.below(8)]
		prefixes := []uint8{0xDD, 0xFD, 0xCB, 0xED, 0xDD, 0xFD, 0x76, 0x00, 0xFF, 0xC7}
		// one scenario in eight fills the whole memory from a tiny alphabet (a single prefix byte, DD/FD mixes, ED or CB
		// pages of one opcode): prefix chains that never end, the same unsupported opcode everywhere
		uniform := r.below(8) == 0
		alphabet := [][]uint8{{0xDD}, {0xFD}, {0xDD, 0xFD}, {0xED}, {0xCB}, {0xDD, 0xCB}, {0xFD, 0xCB, 0xFF}, {0xED, 0x70}, {0x76}, {0xFF}, {0x00}}[r.below(11)]
		fillByte := func(a int) uint8 {
			if uniform {
				if len(alphabet) == 2 && alphabet[0] == 0xED {
					return alphabet[a%2]
				}
				return alphabet[r.below(len(alphabet))]
			}
			if r.below(3) == 0 {
				return prefixes[r.below(len(prefixes))]
			}
			return uint8(r.below(256))
		}
		switch kind {
		case 0, 1:
			dm := make(z80.DumbMemory, length)
			for a := range dm {
				dm[a] = fillByte(a)
			}
			mem = dm
		case 2:
			mm := z80.MapMemory{}
			for k := 0; k < 200; k++ {
				mm[uint16(r.below(65536))] = fillByte(0)
			}
			for _, a := range []int{0xFFFD, 0xFFFE, 0xFFFF, 0, 1} {
				mm[uint16(a)] = prefixes[r.below(6)]
			}
			mem = mm
		default:
			dm := make(z80.DumbMemory, 65536)
			for a := range dm {
				dm[a] = fillByte(a)
			}
			mem = dm
		}
		cpu := &z80.CPU{Memory: mem}
		pick16 := func() uint16 {
			if r.below(2) == 0 {
				return uint16(edges[r.below(len(edges))])
			}
			return uint16(r.below(65536))
		}
		cpu.AF.SetU16(pick16())
		cpu.BC.SetU16(pick16())
		cpu.DE.SetU16(pick16())
		cpu.HL.SetU16(pick16())
		cpu.IX, cpu.IY, cpu.SP, cpu.PC = pick16(), pick16(), pick16(), pick16()
		cpu.IR.SetU16(pick16())
		cpu.IFF1, cpu.IFF2 = r.below(2) == 0, r.below(2) == 0
		cpu.IM = []int{0, 1, 2, 3, -1, 7, -1 << 31, 1 << 30, 0, 2}[r.below(10)]
		switch r.below(3) {
		case 1:
			cpu.IO = make(z80.DumbIO, []int{0, 1, 16, 256}[r.below(4)])
		case 2:
			cpu.IO = make(z80.DumbIO, 256)
		}
		mkIrq := func() *z80.Interrupt {
			ty := []int{0, 1, 1, 1, 2, -1, 99}[r.below(7)]
			dl := []int{0, 0, 1, 1, 2, 3, 4, 300, 70000}[r.below(9)]
			var d []uint8
			if dl > 0 || r.below(2) == 0 {
				d = make([]uint8, dl)
				for k := range d {
					d[k] = uint8(r.below(256))
				}
				if dl > 0 && r.below(2) == 0 {
					d[0] = []uint8{0xC7, 0xFF, 0xCD, 0xC3, 0x3E, 0xDD, 0xED, 0xCB}[r.below(8)]
				}
			}
			return &z80.Interrupt{Type: z80.InterruptType(ty), Data: d}
		}
		done := make(chan string, 1)
		go func() {
			defer func() {
				if e := recover(); e != nil {
					done <- fmt.Sprintf("panic:%v", e)
				}
			}()
			for k := 0; k < 40; k++ {
				if r.below(5) == 0 {
					cpu.Interrupt = mkIrq()
				}
				cpu.Step()
			}
			// Run returns once the program halts: jump to a HALT
			if dm, ok := mem.(z80.DumbMemory); ok && len(dm) == 65536 {
				dm[0x4000] = 0x76
				cpu.PC = 0x4000
				cpu.Interrupt = nil
				if r.below(2) == 0 {
					// a request that can never be accepted must not keep Run from returning at the HALT
					cpu.IFF1 = false
					cpu.Interrupt = &z80.Interrupt{Type: z80.IMType, Data: []uint8{0xFF}}
				}
				ctx, cancel := context.WithTimeout(context.Background(), 3*time.Second)
				err := cpu.Run(ctx)
				cancel()
				if err != nil {
					done <- fmt.Sprintf("run_did_not_halt:%v", err)
					return
				}
			}
			done <- "ok"
		}()
		res := ""
		select {
		case res = <-done:
		case <-time.After(10 * time.Second):
			res = "hang"
		}
		if res != "ok" {
			fmt.Fprintf(out, "%s fail scenario=%d memkind=%d len=%d im=%d pc=%d %s\n", id, i, kind, length, cpu.IM, cpu.PC, strings.ReplaceAll(res, " ", "_"))
			return
		}
	}
	fmt.Fprintf(out, "%s ok %d\n", id, n)
}

func mkgpr(a, f int) z80.GPR {
	return z80.GPR{AF: z80.Register{Hi: uint8(a), Lo: uint8(f)}, BC: z80.Register{Hi: 1, Lo: 2},
		DE: z80.Register{Hi: 3, Lo: 4}, HL: z80.Register{Hi: 5, Lo: 6}}
}

func prgpr(out *bufio.Writer, id string, g z80.GPR) {
	fmt.Fprintf(out, "%s %d %d %d %d %d %d %d %d\n", id, g.AF.Hi, g.AF.Lo, g.BC.Hi, g.BC.Lo, g.DE.Hi, g.DE.Lo, g.HL.Hi, g.HL.Lo)
}

func main() {
	log.SetFlags(0)
	log.SetOutput(logW{&cur})
	in := bufio.NewScanner(os.Stdin)
	in.Buffer(make([]byte, 1<<20), 1<<28)
	out := bufio.NewWriterSize(os.Stdout, 1<<20)
	defer out.Flush()
	for in.Scan() {
		f := strings.Fields(in.Text())
		if len(f) == 0 {
			continue
		}
		t := &toks{t: f}
		switch t.s() {
		case "step":
			runStep(t, out)
		case "run":
			runRun(t, out)
		case "twin":
			runTwin(t, out)
		case "inject":
			runInject(t, out)
		case "fuzz":
			runFuzz(t, out)
		case "par":
			runPar(t, out)
		case "getflag":
			id, a, fl, m := t.s(), t.n(), t.n(), t.n()
			r := 0
			if mkgpr(a, fl).GetFlag(z80.Flag(m)) {
				r = 1
			}
			fmt.Fprintf(out, "%s %d\n", id, r)
		case "setflag":
			id, a, fl, m := t.s(), t.n(), t.n(), t.n()
			g := mkgpr(a, fl)
			g.SetFlag(z80.Flag(m))
			prgpr(out, id, g)
		case "resetflag":
			id, a, fl, m := t.s(), t.n(), t.n(), t.n()
			g := mkgpr(a, fl)
			g.ResetFlag(z80.Flag(m))
			prgpr(out, id, g)
		case "setu16":
			id, h, l, v := t.s(), t.n(), t.n(), t.n()
			r := z80.Register{Hi: uint8(h), Lo: uint8(l)}
			r.SetU16(uint16(v))
			fmt.Fprintf(out, "%s %d %d %d\n", id, r.Hi, r.Lo, r.U16())
		case "consts":
			id := t.s()
			fmt.Fprintf(out, "%s %d %d %d %d %d %d %d %d\n", id, z80.FlagC, z80.FlagN, z80.FlagPV, z80.Flag3, z80.FlagH, z80.Flag5, z80.FlagZ, z80.FlagS)
		case "#":
		default:
			fmt.Fprintf(os.Stderr, "unknown case kind %s\n", f[0])
			os.Exit(2)
		}
	}
}
