(* C15: runs the extracted Coq model (Memio_model.step) on the same operation
   lines as the Go harness and prints the outcomes in the same canonical form.
   Trusted for the correspondence only. *)
open Memio_model

let rec pos_of_int n =
  if n = 1 then XH
  else if n land 1 = 0 then XO (pos_of_int (n lsr 1))
  else XI (pos_of_int (n lsr 1))

let z_of_int n = if n = 0 then Z0 else if n > 0 then Zpos (pos_of_int n) else Zneg (pos_of_int (-n))

let rec int_of_pos = function
  | XH -> 1
  | XO p -> 2 * int_of_pos p
  | XI p -> 2 * int_of_pos p + 1

let int_of_z = function Z0 -> 0 | Zpos p -> int_of_pos p | Zneg p -> - (int_of_pos p)

let rec nat_of_int n = if n <= 0 then O else S (nat_of_int (n - 1))
let rec int_of_nat = function O -> 0 | S n -> 1 + int_of_nat n

exception Bad

let num s = try int_of_string s with _ -> raise Bad
let zs s = z_of_int (num s)
let ns s = let n = num s in if n < 0 then raise Bad else nat_of_int n

let parse (f : string list) : op =
  match f with
  | ["dmmake"; n] -> DmMake (zs n)
  | ["dmnil"] -> DmNil
  | ["dmslice"; v; lo; hi] -> DmSlice (ns v, zs lo, zs hi)
  | ["dmget"; v; a] -> DmGet (ns v, zs a)
  | ["dmset"; v; a; x] -> DmSet (ns v, zs a, zs x)
  | "dmput" :: v :: a :: d -> DmPut (ns v, zs a, List.map zs d)
  | ["iomake"; n] -> IoMake (zs n)
  | ["ionil"] -> IoNil
  | ["ioofdm"; v] -> IoOfDm (ns v)
  | ["dmofio"; v] -> DmOfIo (ns v)
  | ["ioin"; v; p] -> IoIn (ns v, zs p)
  | ["ioout"; v; p; x] -> IoOut (ns v, zs p, zs x)
  | ["mmnil"] -> MmNil
  | ["mmnew"] -> MmNew
  | ["mmget"; v; a] -> MmGet (ns v, zs a)
  | ["mmset"; v; a; x] -> MmSet (ns v, zs a, zs x)
  | "mmput" :: v :: a :: d -> MmPut (ns v, zs a, List.map zs d)
  | ["mmclone"; v] -> MmClone (ns v)
  | ["mmclear"; v] -> MmClear (ns v)
  | ["mmequal"; v; "nilif"] -> MmEqual (ns v, ENilIface)
  | ["mmequal"; v; "var"; w] -> MmEqual (ns v, EVar (ns w))
  | ["mmequal"; v; "raw"; w] -> MmEqual (ns v, ERawOf (ns w))
  | _ -> raise Bad

let show = function
  | OUnit -> "u"
  | OByte b -> "b " ^ string_of_int (int_of_z b)
  | OBool true -> "t"
  | OBool false -> "f"
  | ONew i -> "n " ^ string_of_int (int_of_nat i)
  | OPanic -> "panic"
  | OBadOp -> "bad"

let () =
  let ic = if Array.length Sys.argv > 1 then open_in Sys.argv.(1) else stdin in
  let st = ref init in
  let buf = Buffer.create (1 lsl 20) in
  (try
     while true do
       let line = String.trim (input_line ic) in
       if line <> "" then begin
         let f = List.filter (fun s -> s <> "") (String.split_on_char ' ' line) in
         (match f with
          | ["reset"] -> st := init; Buffer.add_string buf "--\n"
          | _ ->
            (match (try Some (parse f) with Bad -> None) with
             | None -> Buffer.add_string buf "bad\n"
             | Some o ->
               let (s', r) = step !st o in
               st := s';
               Buffer.add_string buf (show r); Buffer.add_char buf '\n'));
         if Buffer.length buf > (1 lsl 20) then begin
           print_string (Buffer.contents buf); Buffer.clear buf end
       end
     done
   with End_of_file -> ());
  print_string (Buffer.contents buf)
