(* extraction of the executable memio model (Z / positive / nat stay inductive) *)
From Z80V Require Import Memio.Model.
Require Extraction.
Require Import ExtrOcamlBasic.
Extraction "memio_model.ml" step init.
