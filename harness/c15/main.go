// C15 correspondence harness: executes operation sequences on the REAL
// z80.DumbMemory / z80.DumbIO / z80.MapMemory and prints canonical outcomes.
//
// input  (stdin or file argument), one operation per line:
//   reset | dmmake n | dmnil | dmslice v lo hi | dmget v a | dmset v a x | dmput v a b...
//   iomake n | ionil | ioofdm v | dmofio v | ioin v p | ioout v p x
//   mmnil | mmnew | mmget v a | mmset v a x | mmput v a b... | mmclone v | mmclear v
//   mmequal v var w | mmequal v nilif | mmequal v raw w
// output, one line per input line:
//   "--" (reset) | "u" | "b <byte>" | "t" | "f" | "n <new variable index>" | "panic" | "bad"
package main

import (
	"bufio"
	"fmt"
	"os"
	"strconv"
	"strings"

	"github.com/koron-go/z80"
)

type badOp struct{}

var vars []interface{}

func num(s string) int {
	n, err := strconv.Atoi(s)
	if err != nil {
		panic(badOp{})
	}
	return n
}

func getVar(s string) interface{} {
	i := num(s)
	if i < 0 || i >= len(vars) {
		panic(badOp{})
	}
	return vars[i]
}

func dmVar(s string) z80.DumbMemory {
	v, ok := getVar(s).(z80.DumbMemory)
	if !ok {
		panic(badOp{})
	}
	return v
}

func ioVar(s string) z80.DumbIO {
	v, ok := getVar(s).(z80.DumbIO)
	if !ok {
		panic(badOp{})
	}
	return v
}

func mmVar(s string) z80.MapMemory {
	v, ok := getVar(s).(z80.MapMemory)
	if !ok {
		panic(badOp{})
	}
	return v
}

func bytesOf(f []string) []uint8 {
	d := make([]uint8, len(f))
	for i, s := range f {
		d[i] = uint8(num(s))
	}
	return d
}

func push(v interface{}) string {
	vars = append(vars, v)
	return "n " + strconv.Itoa(len(vars)-1)
}

func boolStr(b bool) string {
	if b {
		return "t"
	}
	return "f"
}

func need(f []string, n int) {
	if len(f) < n {
		panic(badOp{})
	}
}

func exec(f []string) (res string) {
	defer func() {
		if r := recover(); r != nil {
			if _, ok := r.(badOp); ok {
				res = "bad"
			} else {
				res = "panic"
			}
		}
	}()
	switch f[0] {
	case "reset":
		vars = nil
		return "--"
	case "dmmake":
		need(f, 2)
		return push(z80.DumbMemory(make([]uint8, num(f[1]))))
	case "dmnil":
		return push(z80.DumbMemory(nil))
	case "dmslice":
		need(f, 4)
		dm := dmVar(f[1])
		lo, hi := num(f[2]), num(f[3])
		return push(dm[lo:hi])
	case "dmget":
		need(f, 3)
		return "b " + strconv.Itoa(int(dmVar(f[1]).Get(uint16(num(f[2])))))
	case "dmset":
		need(f, 4)
		dmVar(f[1]).Set(uint16(num(f[2])), uint8(num(f[3])))
		return "u"
	case "dmput":
		need(f, 3)
		dm := dmVar(f[1])
		r := dm.Put(uint16(num(f[2])), bytesOf(f[3:])...)
		return push(r)
	case "iomake":
		need(f, 2)
		return push(z80.DumbIO(make([]uint8, num(f[1]))))
	case "ionil":
		return push(z80.DumbIO(nil))
	case "ioofdm":
		need(f, 2)
		return push(z80.DumbIO(dmVar(f[1])))
	case "dmofio":
		need(f, 2)
		return push(z80.DumbMemory(ioVar(f[1])))
	case "ioin":
		need(f, 3)
		return "b " + strconv.Itoa(int(ioVar(f[1]).In(uint8(num(f[2])))))
	case "ioout":
		need(f, 4)
		ioVar(f[1]).Out(uint8(num(f[2])), uint8(num(f[3])))
		return "u"
	case "mmnil":
		return push(z80.MapMemory(nil))
	case "mmnew":
		return push(z80.MapMemory{})
	case "mmget":
		need(f, 3)
		return "b " + strconv.Itoa(int(mmVar(f[1]).Get(uint16(num(f[2])))))
	case "mmset":
		need(f, 4)
		mmVar(f[1]).Set(uint16(num(f[2])), uint8(num(f[3])))
		return "u"
	case "mmput":
		need(f, 3)
		mm := mmVar(f[1])
		r := mm.Put(uint16(num(f[2])), bytesOf(f[3:])...)
		return push(r)
	case "mmclone":
		need(f, 2)
		return push(mmVar(f[1]).Clone())
	case "mmclear":
		need(f, 2)
		mmVar(f[1]).Clear()
		return "u"
	case "mmequal":
		need(f, 3)
		mm := mmVar(f[1])
		switch f[2] {
		case "nilif":
			return boolStr(mm.Equal(nil))
		case "var":
			need(f, 4)
			return boolStr(mm.Equal(getVar(f[3])))
		case "raw":
			need(f, 4)
			return boolStr(mm.Equal(map[uint16]uint8(mmVar(f[3]))))
		}
	}
	panic(badOp{})
}

func main() {
	in := os.Stdin
	if len(os.Args) > 1 {
		f, err := os.Open(os.Args[1])
		if err != nil {
			fmt.Fprintln(os.Stderr, err)
			os.Exit(2)
		}
		defer f.Close()
		in = f
	}
	sc := bufio.NewScanner(in)
	sc.Buffer(make([]byte, 1<<20), 1<<26)
	w := bufio.NewWriterSize(os.Stdout, 1<<20)
	defer w.Flush()
	for sc.Scan() {
		line := strings.TrimSpace(sc.Text())
		if line == "" {
			continue
		}
		w.WriteString(exec(strings.Fields(line)))
		w.WriteByte('\n')
	}
	if err := sc.Err(); err != nil {
		w.Flush()
		fmt.Fprintln(os.Stderr, err)
		os.Exit(2)
	}
}
