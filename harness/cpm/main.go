// Command verif_cpm drives the REAL internal/tinycpm machine (memory image with the mini BIOS, console I/O) under
// CPU.Run; compiled into the repository's module with `go build -overlay`.
package main

import (
	"bufio"
	"bytes"
	"context"
	"fmt"
	"log"
	"os"
	"strconv"
	"strings"
	"time"

	z80 "github.com/koron-go/z80"
	"github.com/koron-go/z80/internal/tinycpm"
)

// capped keeps the first 70000 console bytes (a runaway print loop would otherwise produce gigabytes)
type capped struct{ bytes.Buffer }

func (c *capped) Write(p []byte) (int, error) {
	if c.Len() < 70000 {
		c.Buffer.Write(p)
	}
	return len(p), nil
}

func main() {
	in := bufio.NewScanner(os.Stdin)
	in.Buffer(make([]byte, 1<<20), 1<<28)
	out := bufio.NewWriter(os.Stdout)
	defer out.Flush()
	for in.Scan() {
		f := strings.Fields(in.Text())
		if len(f) == 0 {
			continue
		}
		switch f[0] {
		case "bios":
			m := tinycpm.NewMemory()
			fmt.Fprintf(out, "bios")
			for a := 0; a < 65536; a++ {
				if v := m.Get(uint16(a)); v != 0 {
					fmt.Fprintf(out, " %d %d", a, v)
				}
			}
			fmt.Fprintln(out)
		case "cpm", "cpm2":
			// cpm id sp nmem (addr val)* ncheck (addr)*   (cpm2: the same machine and CPU run the program a second time
			// after the first run ended: PC and SP are set again, nothing else is touched)
			id := f[1]
			n := func(i int) int { v, _ := strconv.Atoi(f[i]); return v }
			mem, io := tinycpm.New()
			var con capped
			var warn bytes.Buffer
			io.SetStdout(&con)
			io.SetWarnLogger(log.New(&warn, "", 0))
			log.SetOutput(&warn)
			sp := n(2)
			nm := n(3)
			p := 4
			for i := 0; i < nm; i++ {
				mem.Set(uint16(n(p)), uint8(n(p+1)))
				p += 2
			}
			cpu := &z80.CPU{Memory: mem, IO: io}
			cpu.PC = tinycpm.Start
			cpu.SP = uint16(sp)
			ctx, cancel := context.WithTimeout(context.Background(), 3*time.Second)
			err := cpu.Run(ctx)
			cancel()
			if f[0] == "cpm2" && err == nil {
				cpu.PC = tinycpm.Start
				cpu.SP = uint16(sp)
				ctx2, cancel2 := context.WithTimeout(context.Background(), 3*time.Second)
				err = cpu.Run(ctx2)
				cancel2()
			}
			code := 0
			if err == z80.ErrBreakPoint {
				code = 1
			} else if err != nil {
				code = 2
			}
			nwarn := bytes.Count(warn.Bytes(), []byte("\n"))
			halt := 0
			if cpu.HALT {
				halt = 1
			}
			fmt.Fprintf(out, "%s %d %d %d %d %d %x", id, code, cpu.PC, cpu.SP, halt, nwarn, con.Bytes())
			if con.Len() == 0 {
				fmt.Fprintf(out, "-")
			}
			nc := n(p)
			p++
			fmt.Fprintf(out, " ")
			for i := 0; i < nc; i++ {
				fmt.Fprintf(out, "%02x", mem.Get(uint16(n(p+i))))
			}
			fmt.Fprintln(out)
		}
	}
}
