// Dumper for property C17: prints the exerciser tables of internal/zex exactly as
// the Go test-suite sees them (values, not syntax), as one JSON document.
//
// Every Status is printed twice: field by field (what Case.Maxes/OnesCount and
// zexSetStatus read) and through Status.Bytes() (what Case.Iter reads), so that a
// defect in Bytes() cannot hide a table difference or vice versa.
package main

import (
	"encoding/json"
	"os"

	"github.com/koron-go/z80/internal/zex"
)

type status struct {
	Inst0, Inst1, Inst2, Inst3 uint64
	MemOP, IY, IX, HL, DE, BC  uint64
	Flags, Accum               uint64
	SP                         uint64
	Bytes                      []uint64
}

type zcase struct {
	Mask  uint64
	Base  status
	Inc   status
	Shift status
	CRC   uint64
	Desc  []uint64 // bytes of the Go string
	Text  string   // for humans only
}

type dump struct {
	Msbt     uint64
	DocCases []zcase
	AllCases []zcase
}

func conv(s zex.Status) status {
	b := s.Bytes()
	bs := make([]uint64, len(b))
	for i, x := range b {
		bs[i] = uint64(x)
	}
	return status{
		Inst0: uint64(s.Inst0), Inst1: uint64(s.Inst1), Inst2: uint64(s.Inst2), Inst3: uint64(s.Inst3),
		MemOP: uint64(s.MemOP), IY: uint64(s.IY), IX: uint64(s.IX), HL: uint64(s.HL), DE: uint64(s.DE), BC: uint64(s.BC),
		Flags: uint64(s.Flags), Accum: uint64(s.Accum), SP: uint64(s.SP),
		Bytes: bs,
	}
}

func convCases(cs []zex.Case) []zcase {
	out := make([]zcase, 0, len(cs))
	for _, c := range cs {
		d := []byte(c.Desc)
		ds := make([]uint64, len(d))
		for i, x := range d {
			ds[i] = uint64(x)
		}
		out = append(out, zcase{
			Mask:  uint64(c.FlagMask),
			Base:  conv(c.BaseCase),
			Inc:   conv(c.IncVec),
			Shift: conv(c.ShiftVec),
			CRC:   uint64(c.Expect),
			Desc:  ds,
			Text:  c.Desc,
		})
	}
	return out
}

func main() {
	d := dump{
		Msbt:     uint64(zex.Msbt),
		DocCases: convCases(zex.DocCases),
		AllCases: convCases(zex.AllCases),
	}
	enc := json.NewEncoder(os.Stdout)
	if err := enc.Encode(&d); err != nil {
		panic(err)
	}
}
