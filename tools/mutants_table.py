#!/usr/bin/env python3
"""writes docs/MUTANTS.md from seeded/*/{meta,campaign,campaign_full}.json"""
import json, glob, os
ROOT = os.path.dirname(os.path.dirname(os.path.abspath(__file__)))
rows = []
for d in sorted(glob.glob(os.path.join(ROOT, 'seeded', '*', ''))):
    mid = os.path.basename(d.rstrip('/'))
    meta = json.load(open(d + 'meta.json'))
    c = json.load(open(d + 'campaign.json'))
    f = json.load(open(d + 'campaign_full.json')) if os.path.exists(d + 'campaign_full.json') else (c if c.get('mode') == 'full' else None)
    so = c if c.get('mode') != 'full' else None
    def first(x):
        w = ((x or {}).get('differs') or [{}])[0]
        return str(w.get('field') or w.get('what') or '')[:50].replace('|', '/')
    rows.append((mid, meta.get('summary', '')[:110].replace('|', '/'),
                 ('input, %ss' % so.get('wall_s') if so and so.get('found_input') else ('none' if so and so.get('violation') else ('MISSED' if so else '-'))),
                 first(so or f),
                 ('%s, %ss%s' % ('input' if f.get('found_input') else 'no input', f.get('wall_s'), '; ' + str(f.get('broken') or '')[:70]) if f else '')))
out = ["# Seeded changes and what the checks report on them", "",
       "Each change was produced by an independent sub-agent that saw only the property text and a scratch worktree; I verified each",
       "(`verified.txt`: the existing suite passes with the patch, the demonstration passes on the clean tree and fails with the patch).",
       "`search-only` = `VERIF_CAMPAIGN=1` (CPU properties: proof stage skipped, straight to the failing-input search); `full` = the registered quick command as is",
       "(regenerate the model, rebuild the proofs, correspondence, search).  In every row with an input the replay fails on the changed tree and passes on the original.", "",
       "| id | change | search-only | first differing observable | full mode |", "|---|---|---|---|---|"]
for r in rows:
    out.append("| %s | %s | %s | %s | %s |" % r)
open(os.path.join(ROOT, 'docs', 'MUTANTS.md'), 'w').write("\n".join(out) + "\n")
print(len(rows), "rows")
