#!/bin/bash
# usage: tools/verify_seeded.sh <mutant-dir> : confirms in a scratch worktree that the patch compiles, the existing suite
# passes with it, the demonstration fails with it and passes without it. Writes <mutant-dir>/verified.txt
set -u
M=$(readlink -f "$1"); ID=$(basename "$M")
export GOFLAGS=-mod=mod GOPROXY=off GOSUMDB=off GOTOOLCHAIN=local
W=/tmp/vs-$ID-$$
git -C /repo worktree add --detach "$W" HEAD >/dev/null 2>&1 || { echo "worktree failed"; exit 2; }
trap 'git -C /repo worktree remove --force "$W" >/dev/null 2>&1' EXIT
cd "$W"
out="$M/verified.txt"; : > "$out"
D=$(python3 -c "import json,sys; print(json.load(open(sys.argv[1])).get('demo_dir','.'))" "$M/meta.json" 2>/dev/null || echo .)
[ -z "$D" ] && D=.
cp "$M/demo_test.go" ./$D/zz_demo_${ID//-/_}_test.go
if go test -vet=off -count=1 -run 'C[0-9]|Mutant|Demo' ./$D >/tmp/vs-$ID.clean.log 2>&1; then echo "demo on clean tree: PASS" >> "$out"; else echo "demo on clean tree: FAIL (unexpected)" >> "$out"; tail -5 /tmp/vs-$ID.clean.log >> "$out"; fi
rm -f ./$D/zz_demo_*_test.go
if ! git apply "$M/patch.diff" 2>>"$out"; then echo "patch does not apply" >> "$out"; exit 1; fi
if go build ./... >>"$out" 2>&1; then echo "build with patch: OK" >> "$out"; else echo "build with patch: FAIL" >> "$out"; exit 1; fi
if go test -vet=off -count=1 ./... >/tmp/vs-$ID.suite.log 2>&1; then echo "existing suite with patch: PASS" >> "$out"; else echo "existing suite with patch: FAIL" >> "$out"; tail -5 /tmp/vs-$ID.suite.log >> "$out"; fi
cp "$M/demo_test.go" ./$D/zz_demo_${ID//-/_}_test.go
if go test -vet=off -count=1 -run 'C[0-9]|Mutant|Demo' ./$D >/tmp/vs-$ID.mut.log 2>&1; then echo "demo with patch: PASS (unexpected)" >> "$out"; else echo "demo with patch: FAIL (as required)" >> "$out"; fi
cat "$out"
