#!/usr/bin/env python3
"""mutation campaign: runs the property's check (fast mode = search only, or full) against every seeded mutant in a
scratch copy of the repository and records the outcome in seeded/<id>/campaign.json"""
import json, os, re, shutil, subprocess, sys, time
ROOT = os.path.dirname(os.path.dirname(os.path.abspath(__file__)))
full = "--full" in sys.argv
ids = [a for a in sys.argv[1:] if not a.startswith("--")] or sorted(os.listdir(os.path.join(ROOT, "seeded")))
for mid in ids:
    d = os.path.join(ROOT, "seeded", mid)
    if not os.path.exists(os.path.join(d, "patch.diff")):
        continue
    prop = mid.split("-")[0]
    scratch = "/tmp/camp-%s" % mid
    shutil.rmtree(scratch, ignore_errors=True)
    subprocess.run(["cp", "-r", "/repo", scratch], check=True)
    r = subprocess.run(["git", "-C", scratch, "apply", os.path.join(d, "patch.diff")], capture_output=True, text=True)
    res = {"mutant": mid, "property": prop, "mode": "full" if full else "search-only"}
    if r.returncode:
        res["outcome"] = "patch does not apply: " + r.stderr[-200:]
    else:
        env = dict(os.environ, VERIF_REPO=scratch)
        if not full:
            env["VERIF_CAMPAIGN"] = "1"
        t0 = time.time()
        p = subprocess.run([os.path.join(ROOT, "bin", "check"), prop, "quick"], capture_output=True, text=True, env=env, cwd=ROOT, timeout=3000)
        res["wall_s"] = round(time.time() - t0, 1)
        res["exit"] = p.returncode
        m = re.search(r"VIOLATION property=(\S+) replay=(\S+)( no-failing-input-found)?", p.stdout)
        if m:
            res["violation"] = True
            res["found_input"] = m.group(3) is None
            rp = m.group(2)
            if res["found_input"]:
                a = subprocess.run([os.path.join(ROOT, "bin", "check"), prop, "--replay", rp], capture_output=True, text=True, env=env, cwd=ROOT, timeout=600)
                b = subprocess.run([os.path.join(ROOT, "bin", "check"), prop, "--replay", rp], capture_output=True, text=True, cwd=ROOT, timeout=600)
                res["replay_on_mutant_fails"] = a.returncode == 1
                res["replay_on_original_passes"] = b.returncode == 0
            try:
                rep = json.load(open(rp))
                res["broken"] = rep.get("broken")
                res["input_about"] = (rep.get("input") or {}).get("about")
                res["differs"] = ((rep.get("input") or {}).get("differs") or [])[:3]
            except Exception:
                pass
        else:
            res["violation"] = False
            res["stdout_tail"] = p.stdout[-300:] + p.stderr[-300:]
    shutil.rmtree(scratch, ignore_errors=True)
    json.dump(res, open(os.path.join(d, "campaign.json"), "w"), indent=1)
    print(mid, "VIOLATION" if res.get("violation") else "MISSED", "input" if res.get("found_input") else "-",
          res.get("replay_on_mutant_fails"), res.get("replay_on_original_passes"), res.get("wall_s"), flush=True)
# the generated files (Gen/) now describe the last mutant: bring them back to the repository itself
subprocess.run([os.path.join(ROOT, "bin", "setup")], cwd=ROOT, capture_output=True)
