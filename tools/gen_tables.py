#!/usr/bin/env python3
"""writes coq/theories/Proofs/Tab_<table>_<k>.v (one shard of 32 opcodes each) and Proofs/Tables.v.
The shard files are static (committed); they only say `Proof. table_tac. Qed.`"""
import os
OUT = os.path.join(os.path.dirname(os.path.dirname(os.path.abspath(__file__))), "coq", "theories", "Proofs")
TABS = {
 'main': ("executeOne_main cpu c c", "exec impl_unspec MHL (decode_main c) cpu", "", "", [203, 221, 237, 253]),
 'cb':   ("executeOne_cb cpu c0 c c", "exec impl_unspec MHL (decode_cb c) cpu", "forall c0, ", " c0", []),
 'ed':   ("executeOne_ed cpu c0 c c", "exec impl_unspec MHL (decode_ed c) cpu", "forall c0, ", " c0", []),
 'dd':   ("executeOne_dd cpu c0 c c", "exec impl_unspec MIX (decode_idx c) cpu", "forall c0, ", " c0", [203]),
 'fd':   ("executeOne_fd cpu c0 c c", "exec impl_unspec MIY (decode_idx c) cpu", "forall c0, ", " c0", [203]),
 'ddcb': ("executeOne_ddcb cpu c0 c1 d c c", "exec_idxcb impl_unspec MIX d (decode_idxcb c) cpu", "forall c0 c1 d, is8 d -> ", " c0 c1 d Hd", []),
 'fdcb': ("executeOne_fdcb cpu c0 c1 d c c", "exec_idxcb impl_unspec MIY d (decode_idxcb c) cpu", "forall c0 c1 d, is8 d -> ", " c0 c1 d Hd", []),
}
SH = 32
def wr(path, text):
    if os.path.exists(path) and open(path).read() == text:
        return
    open(path, "w").write(text)
imports = []
body = []
for t, (lhs, rhs, q, qi, excl) in TABS.items():
    names = []
    for k in range(0, 256, SH):
        ops = [c for c in range(k, k + SH) if c not in excl]
        name = "tab_%s_%03d" % (t, k)
        names.append((name, ops))
        imports.append("Proofs.T%s" % name[1:])
        wr(os.path.join(OUT, "T%s.v" % name[1:]),
f'''(* one shard of the {t} decode table: generated handler = specification, opcode by opcode.
   Written by tools/gen_tables.py. *)
From Z80V Require Import Proofs.TableTac.
Lemma {name} : forall c, In c [{"; ".join(map(str, ops))}] -> forall cpu, WF cpu -> {q}
  {lhs} = {rhs}.
Proof. intros c Hc cpu H{qi}. table_tac Hc H. Qed.
''')
    allops = [c for c in range(256) if c not in excl]
    ex = "[" + "; ".join(map(str, excl)) + "]"
    lines = [f"Theorem {t}_table : forall c, 0 <= c < 256 -> ~ In c {ex} -> forall cpu, WF cpu -> {q}",
             f"  {lhs} = {rhs}.", "Proof.",
             f"  intros c Hc Hn. assert (Hin : In c ({' ++ '.join('ops_' + n for n, _ in names)})).",
             f"  {{ apply (covered ({' ++ '.join('ops_' + n for n, _ in names)}) {ex}); [vm_compute; reflexivity | exact Hc | exact Hn]. }}",
             "  repeat (apply in_app_or in Hin; destruct Hin as [Hin|Hin]);"]
    lines.append("  [ " + " | ".join(f"exact ({n} c Hin)" for n, _ in names) + " ].")
    lines.append("Qed.")
    defs = [f"Definition ops_{n} : list Z := [{'; '.join(map(str, ops))}]." for n, ops in names]
    body.append("\n".join(defs) + "\n" + "\n".join(lines) + "\n")
wr(os.path.join(OUT, "Tables.v"),
'''(* Proofs/Tables.v -- the seven decode tables, assembled from their shards.  Written by tools/gen_tables.py.
   For every opcode byte of every table and every well-formed state, the generated dispatch arm
   equals the specification's execution of the decoded instruction (exact equality of states,
   memory/port access trace included). *)
From Z80V Require Import Proofs.TableTac.
From Z80V Require Import ''' + " ".join(imports) + '''.

Lemma covered (ops excl : list Z) :
  forallb (fun c => inb c excl || inb c ops) (map Z.of_nat (seq 0 256)) = true ->
  forall c, 0 <= c < 256 -> ~ In c excl -> In c ops.
Proof.
  intros H c Hc Hn. rewrite forallb_forall in H.
  assert (Hi : In c (map Z.of_nat (seq 0 256))).
  { apply in_map_iff. exists (Z.to_nat c). split; [lia|]. apply in_seq. lia. }
  specialize (H c Hi). apply orb_prop in H. unfold inb in H. rewrite !existsb_exists in H.
  destruct H as [(x & Hx & E)|(x & Hx & E)]; apply Z.eqb_eq in E; subst x; [contradiction|assumption].
Qed.

''' + "\n".join(body))
print("wrote", len(imports), "shards")
