#!/usr/bin/env python3
"""writes coq/theories/Proofs/SpecAll{Swap,Ix,Iy,Env,IR}.v: facts about EVERY instruction of the specification,
one lemma per instruction form (so that each proof term stays small), assembled by a case split on the instruction."""
import os
import re

ROOT = os.path.dirname(os.path.dirname(os.path.abspath(__file__)))
P = os.path.join(ROOT, "coq", "theories", "Proofs")
src = open(os.path.join(ROOT, "coq", "theories", "Spec", "Instr.v")).read()
blk = src[src.index("Inductive instr :="):src.index("Definition r_tab")]
ctors = []
for m in re.finditer(r"\|\s*([A-Za-z_0-9]+)((?:\s*\([^)]*\))*)", blk):
    name = m.group(1)
    params = []
    for a in re.findall(r"\(([^)]*)\)", m.group(2)):
        if ":" not in a:
            continue
        names, ty = a.split(":")
        for n in names.split():
            params.append((n.strip() + "_", ty.strip()))
    ctors.append((name, params))

DESTR = ("repeat match goal with x : opnd |- _ => destruct x | x : rp |- _ => destruct x | x : r8 |- _ => destruct x "
         "| x : alu |- _ => destruct x | x : rot |- _ => destruct x | x : blk |- _ => destruct x | x : cc |- _ => destruct x "
         "| x : bool |- _ => destruct x end")


def gen(lemma, stmt, pre, tac, extra_params="", skip=()):
    out = ["(* facts about every instruction of the specification, one lemma per instruction form so that each proof stays small",
           "   (written by tools/gen_specall.py) *)", "From Z80V Require Export Proofs.SpecAllTac.", ""]
    names = []
    for (c, params) in ctors:
        ps = " ".join("(%s : %s)" % p for p in params)
        term = "(" + c + "".join(" " + p[0] for p in params) + ")" if params else c
        ln = "%s_%s" % (lemma, c)
        if c in skip:
            continue
        names.append(ln)
        out.append("Lemma %s u %s cpu %s : %s." % (ln, ps, extra_params, stmt(term)))
        out.append("Proof. %s%s; open_cpu cpu; %s Qed." % (pre, DESTR, tac))
    return out, names


def wr(name, lines):
    text = "\n".join(lines) + "\n"
    p = os.path.join(P, name)
    if not os.path.exists(p) or open(p).read() != text:
        open(p, "w").write(text)


out, names = gen('exec_swap', lambda t: "exec u MIY %s (swapXY cpu) = swapXY (exec u MIX %s cpu)" % (t, t), "", "(unfold swapXY; spec_norm); close_case.")
out += ["Lemma exec_swap u i cpu : exec u MIY i (swapXY cpu) = swapXY (exec u MIX i cpu).",
        "Proof. destruct i; [ " + " | ".join("apply %s" % n for n in names) + " ]. Qed.",
        "Lemma exec_idxcb_swap u dd i cpu : exec_idxcb u MIY dd i (swapXY cpu) = swapXY (exec_idxcb u MIX dd i cpu).",
        "Proof. all_cases i; try rename b into b_; open_cpu cpu; (unfold swapXY; spec_norm); close_case. Qed."]
wr('SpecAllSwap.v', out)

out, names = gen('exec_ix_ign', lambda t: "exec u MIX %s (s_IY cpu v) = s_IY (exec u MIX %s cpu) v" % (t, t), "", "spec_norm; close_case.", extra_params="v")
out += ["Lemma exec_ix_ignores_iy u i cpu v : exec u MIX i (s_IY cpu v) = s_IY (exec u MIX i cpu) v.",
        "Proof. destruct i; [ " + " | ".join("apply %s" % n for n in names) + " ]. Qed.",
        "Lemma exec_idxcb_ix_ignores_iy u dd i cpu v : exec_idxcb u MIX dd i (s_IY cpu v) = s_IY (exec_idxcb u MIX dd i cpu) v.",
        "Proof. all_cases i; try rename b into b_; open_cpu cpu; spec_norm; close_case. Qed."]
wr('SpecAllIx.v', out)

out, names = gen('exec_iy_ign', lambda t: "exec u MIY %s (s_IX cpu v) = s_IX (exec u MIY %s cpu) v" % (t, t), "", "spec_norm; close_case.", extra_params="v")
out += ["Lemma exec_iy_ignores_ix u i cpu v : exec u MIY i (s_IX cpu v) = s_IX (exec u MIY i cpu) v.",
        "Proof. destruct i; [ " + " | ".join("apply %s" % n for n in names) + " ]. Qed.",
        "Lemma exec_idxcb_iy_ignores_ix u dd i cpu v : exec_idxcb u MIY dd i (s_IX cpu v) = s_IX (exec_idxcb u MIY dd i cpu) v.",
        "Proof. all_cases i; try rename b into b_; open_cpu cpu; spec_norm; close_case. Qed."]
wr('SpecAllIy.v', out)

ENV = ("g_Interrupt cpu' = g_Interrupt cpu /\\ g_Memory cpu' = g_Memory cpu /\\ g_IO cpu' = g_IO cpu /\\ "
       "g_RETIHandler cpu' = g_RETIHandler cpu /\\ g_RETNHandler cpu' = g_RETNHandler cpu /\\ g_BreakPoints cpu' = g_BreakPoints cpu")
out, names = gen('exec_env', lambda t: "let cpu' := exec u m %s cpu in %s" % (t, ENV), "destruct m; ",
                 "spec_norm; first [ solve [repeat split] | solve [split_ifs; repeat split] ].", extra_params="(m : mode)")
out += ["Lemma exec_keeps_env u m i cpu : let cpu' := exec u m i cpu in %s." % ENV,
        "Proof. destruct i; [ " + " | ".join("apply %s" % n for n in names) + " ]. Qed.",
        "Lemma exec_idxcb_keeps_env u m dd i cpu : let cpu' := exec_idxcb u m dd i cpu in %s." % ENV,
        "Proof. destruct m; all_cases i; try rename b into b_; open_cpu cpu; spec_norm; first [ solve [repeat split] | solve [split_ifs; repeat split] ]. Qed."]
wr('SpecAllEnv.v', out)

out, names = gen('exec_ir', lambda t: "g_IR (exec u m %s cpu) = g_IR cpu" % t, "destruct m; ",
                 "spec_norm; first [ syn_refl | solve [split_ifs; syn_refl] ].", extra_params="(m : mode)", skip=("LD_I_A", "LD_R_A"))
out += ["Lemma exec_keeps_ir u m i cpu : writes_ir i = false -> g_IR (exec u m i cpu) = g_IR cpu.",
        "Proof. intros E. destruct i; try discriminate E; [ " + " | ".join("apply %s" % n for n in names) + " ]. Qed.",
        "Lemma exec_idxcb_keeps_ir u m dd i cpu : g_IR (exec_idxcb u m dd i cpu) = g_IR cpu.",
        "Proof. destruct m; all_cases i; try rename b into b_; open_cpu cpu; spec_norm; first [ syn_refl | solve [split_ifs; syn_refl] ]. Qed."]
wr('SpecAllIR.v', out)
out, names = gen('exec_erase', lambda t: "erase (exec u m %s (erase cpu)) = erase (exec u m %s cpu)" % (t, t), "destruct m; ",
                 "(unfold erase; spec_norm); close_case.", extra_params="(m : mode)")
out += ["Lemma exec_erase u m i cpu : erase (exec u m i (erase cpu)) = erase (exec u m i cpu).",
        "Proof. destruct i; [ " + " | ".join("apply %s" % n for n in names) + " ]. Qed.",
        "Lemma exec_idxcb_erase u m dd i cpu : erase (exec_idxcb u m dd i (erase cpu)) = erase (exec_idxcb u m dd i cpu).",
        "Proof. destruct m; all_cases i; try rename b into b_; open_cpu cpu; (unfold erase; spec_norm); close_case. Qed."]
wr('SpecAllErase.v', out)

PAN = "mem_safe (g_Memory cpu) -> npanics (trace (g_W (exec u m %s cpu))) = npanics (trace (g_W cpu))"
out, names = gen('exec_nopanic', lambda t: PAN % t, "destruct m; ",
                 "intros Hs; unfold mem_safe in Hs; cbv_struct_in Hs; spec_norm; first [ panic_close Hs | split_ifs; panic_close Hs ].", extra_params="(m : mode)")
out += ["Lemma exec_no_panic u m i cpu : " + PAN % "i" + ".",
        "Proof. destruct i; [ " + " | ".join("apply %s" % n for n in names) + " ]. Qed.",
        "Lemma exec_idxcb_no_panic u m dd i cpu : mem_safe (g_Memory cpu) -> npanics (trace (g_W (exec_idxcb u m dd i cpu))) = npanics (trace (g_W cpu)).",
        "Proof. destruct m; all_cases i; try rename b into b_; open_cpu cpu; intros Hs; unfold mem_safe in Hs; cbv_struct_in Hs; spec_norm; first [ panic_close Hs | split_ifs; panic_close Hs ]. Qed."]
wr('SpecAllPanic.v', out)
out, names = gen('exec_wf', lambda t: "instr_ok %s -> WF cpu -> WF (exec u m %s cpu)" % (t, t), "destruct m; ",
                 "intros Hi H; wf_open H; wf_norm; wf_ifs; wf_close.", extra_params="(m : mode)")
out += ["Lemma exec_wf u m i cpu : instr_ok i -> WF cpu -> WF (exec u m i cpu).",
        "Proof. destruct i; [ " + " | ".join("apply %s" % n for n in names) + " ]. Qed.",
        "Lemma exec_idxcb_wf u m dd i cpu : instr_ok i -> WF cpu -> WF (exec_idxcb u m dd i cpu).",
        "Proof. destruct m; all_cases i; try rename b into b_; open_cpu cpu; intros Hi H; wf_open H; wf_norm; wf_ifs; wf_close. Qed."]
out[2] = "From Z80V Require Export Proofs.WFTac."
wr('SpecAllWF.v', out)
print("constructors:", len(ctors))
