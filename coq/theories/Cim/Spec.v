(* C19 - the property text as Gallina definitions.  This file does not depend
   on anything generated from /repo: it is the fixed oracle (MSX BSAVE file and
   MSX cassette binary block layouts). *)
From Coq Require Import ZArith List.
Import ListNotations.
Open Scope Z_scope.

Definition len (l : list Z) : Z := Z.of_nat (length l).

(* MSX-defined constants *)
Definition msx_bin_magic : Z := 0xFE.
Definition msx_sync : list Z := [0x1F; 0xA6; 0xDE; 0xBA; 0xCC; 0x13; 0x7D; 0x74].
Definition msx_type_byte : Z := 0xD0.
Definition msx_type_count : nat := 10.
Definition msx_name_len : nat := 6.
Definition msx_name_pad : Z := 0x20.

(* little-endian 16-bit word and its decoding *)
Definition le16 (v : Z) : list Z := [v mod 256; (v / 256) mod 256].
Definition de16 (lo hi : Z) : Z := lo + 256 * hi.

(* name truncated or space-padded to six characters *)
Definition pad6_spec (name : list Z) : list Z :=
  firstn msx_name_len (name ++ repeat msx_name_pad msx_name_len).

Definition bytes_ok (l : list Z) : Prop := Forall (fun b => 0 <= b < 256) l.

(* the guard of the property: image lengths 1..65536-off, offsets 0..0xFFFF *)
Definition guard (off : Z) (body : list Z) : Prop :=
  0 <= off < 65536 /\ 1 <= len body /\ off + len body - 1 < 65536.

Definition spec_bin (off : Z) (body : list Z) : list Z :=
  [msx_bin_magic] ++ le16 off ++ le16 (off + len body - 1) ++ le16 off ++ body.

Definition spec_cas (off : Z) (name body : list Z) : list Z :=
  msx_sync ++ repeat msx_type_byte msx_type_count ++ pad6_spec name ++ msx_sync
  ++ le16 off ++ le16 (off + len body - 1) ++ le16 off ++ body.

(* command line level: -off omitted = 0xA000; -nam empty = the -cim string *)
Definition spec_off_default : Z := 0xA000.
Definition spec_bin_cli (offopt : option Z) (body : list Z) : list Z :=
  spec_bin (match offopt with Some o => o | None => spec_off_default end) body.
Definition spec_cas_cli (offopt : option Z) (nam cimpath body : list Z) : list Z :=
  spec_cas (match offopt with Some o => o | None => spec_off_default end)
           (match nam with [] => cimpath | _ => nam end) body.
