(* C19 - proofs about the model of cim2bin / cim2cas (for ALL bodies, names,
   offsets).  The script constants come from Gen/CimConsts.v (regenerated from
   the Go sources on every run), so every theorem here is re-checked against
   what the code says now. *)
From Coq Require Import ZArith List Bool Lia.
From Z80V Require Import Cim.Syntax Cim.Spec Gen.CimConsts Cim.Model.
Import ListNotations.
Open Scope Z_scope.

(* ------------------------------------------------------------------ *)
(* list helpers                                                         *)

Lemma firstn_repeat_ : forall (x : Z) n k, firstn k (repeat x n) = repeat x (Nat.min k n).
Proof.
  intros x n; induction n as [|n IH]; intros [|k]; cbn [repeat firstn Nat.min]; try reflexivity.
  f_equal. apply IH.
Qed.

Lemma skipn_repeat_ : forall (x : Z) n k, skipn k (repeat x n) = repeat x (n - k).
Proof.
  intros x n; induction n as [|n IH]; intros [|k]; cbn [repeat skipn Nat.sub]; try reflexivity.
  apply IH.
Qed.

Lemma len_app : forall a b, len (a ++ b) = len a + len b.
Proof. intros; unfold len; rewrite app_length; lia. Qed.

Lemma len_nonneg : forall l, 0 <= len l.
Proof. intros; unfold len; lia. Qed.

(* ------------------------------------------------------------------ *)
(* le16                                                                 *)

Lemma le16_length : forall v, length (le16 v) = 2%nat.
Proof. reflexivity. Qed.

Lemma le16_bytes : forall v, bytes_ok (le16 v).
Proof.
  intros v; unfold bytes_ok, le16.
  repeat constructor; apply Z.mod_pos_bound; lia.
Qed.

Lemma le16_roundtrip : forall v, 0 <= v < 65536 ->
  de16 (nth 0 (le16 v) 0) (nth 1 (le16 v) 0) = v.
Proof.
  intros v Hv; unfold de16, le16; cbn [nth].
  rewrite (Z.mod_small (v / 256) 256).
  - pose proof (Z.div_mod v 256); lia.
  - split; [apply Z.div_pos; lia | apply Z.div_lt_upper_bound; lia].
Qed.

Lemma le16_exact : forall v, 0 <= v < 65536 -> le16 v = [v mod 256; v / 256].
Proof.
  intros v Hv; unfold le16; f_equal; f_equal.
  apply Z.mod_small. split; [apply Z.div_pos; lia | apply Z.div_lt_upper_bound; lia].
Qed.

Lemma le16_inj : forall a b, 0 <= a < 65536 -> 0 <= b < 65536 -> le16 a = le16 b -> a = b.
Proof.
  intros a b Ha Hb H.
  rewrite <- (le16_roundtrip a Ha), <- (le16_roundtrip b Hb), H; reflexivity.
Qed.

(* the extracted writeU16 is little-endian: shifts [0; 8] *)
Lemma u16_le : forall v, u16bytes [0; 8] v = le16 v.
Proof.
  intros v; unfold u16bytes, le16; cbn [map].
  rewrite Z.shiftr_0_r, Z.shiftr_div_pow2 by lia. reflexivity.
Qed.

(* ------------------------------------------------------------------ *)
(* uint16 arithmetic                                                    *)

Lemma trunc16_range : forall z, 0 <= trunc16 z < 65536.
Proof. intros; unfold trunc16; apply Z.mod_pos_bound; lia. Qed.

Lemma trunc16_small : forall z, 0 <= z < 65536 -> trunc16 z = z.
Proof. intros; unfold trunc16; apply Z.mod_small; assumption. Qed.

Lemma trunc16_idem : forall z, trunc16 (trunc16 z) = trunc16 z.
Proof. intros; unfold trunc16; apply Z.mod_mod; lia. Qed.

(* wrap-free reading of an expression *)
Fixpoint evalZ (off n : Z) (e : expr) : Z :=
  match e with
  | EOff => off
  | ELen => n
  | ELit z => z
  | EConv16 a => evalZ off n a
  | EConvInt a => evalZ off n a
  | EAdd _ a b => evalZ off n a + evalZ off n b
  | ESub _ a b => evalZ off n a - evalZ off n b
  end.

(* intermediate uint16 wraps do not matter once the result is a uint16 *)
Lemma eval_mod : forall off n e, trunc16 (eval off n e) = trunc16 (evalZ off n e).
Proof.
  intros off n e; induction e as [| | z | a IH | a IH | w a IHa b IHb | w a IHa b IHb];
    cbn [eval evalZ]; try reflexivity.
  - rewrite trunc16_idem; exact IH.
  - exact IH.
  - assert (H : trunc16 (eval off n a + eval off n b) = trunc16 (evalZ off n a + evalZ off n b)).
    { unfold trunc16 in *. rewrite Zplus_mod, IHa, IHb, <- Zplus_mod. reflexivity. }
    destruct w; [rewrite trunc16_idem|]; exact H.
  - assert (H : trunc16 (eval off n a - eval off n b) = trunc16 (evalZ off n a - evalZ off n b)).
    { unfold trunc16 in *. rewrite Zminus_mod, IHa, IHb, <- Zminus_mod. reflexivity. }
    destruct w; [rewrite trunc16_idem|]; exact H.
Qed.

(* ------------------------------------------------------------------ *)
(* writeName / pad6                                                     *)

Lemma gocopy_length : forall dst src, length (gocopy dst src) = length dst.
Proof.
  intros; unfold gocopy. rewrite app_length, firstn_length, skipn_length. lia.
Qed.

Lemma gocopy_spaces : forall name, gocopy (repeat msx_name_pad msx_name_len) name = pad6_spec name.
Proof.
  intros name; unfold gocopy, pad6_spec.
  rewrite repeat_length, firstn_app, skipn_repeat_, firstn_repeat_.
  f_equal. f_equal. lia.
Qed.

Lemma gocopy_firstn : forall dst m name, (length dst <= m)%nat ->
  gocopy dst (firstn m name) = gocopy dst name.
Proof.
  intros dst m name Hm; unfold gocopy.
  rewrite firstn_firstn, Nat.min_l by exact Hm. f_equal.
  rewrite firstn_length.
  destruct (Nat.le_gt_cases (length name) m) as [H|H].
  - rewrite Nat.min_r by exact H. reflexivity.
  - rewrite Nat.min_l by lia. rewrite !skipn_all2 by lia. reflexivity.
Qed.

Lemma write_name_spec : forall buf c n m name,
  buf = repeat msx_name_pad msx_name_len -> (length buf <= Z.to_nat m)%nat ->
  write_name buf c n m name = pad6_spec name.
Proof.
  intros buf c n m name Hb Hm; unfold write_name.
  destruct (cmpb c (len name) n).
  - rewrite gocopy_firstn by exact Hm. subst buf; apply gocopy_spaces.
  - subst buf; apply gocopy_spaces.
Qed.

(* the writeName found in cim2cas.go truncates / space-pads to six bytes *)
Theorem pad6_is_spec : forall name, pad6 name = pad6_spec name.
Proof.
  intros name; unfold pad6. apply write_name_spec.
  - reflexivity.
  - apply Nat.leb_le. vm_compute. reflexivity.
Qed.

Lemma pad6_spec_length : forall name, length (pad6_spec name) = 6%nat.
Proof.
  intros; unfold pad6_spec. rewrite firstn_length, app_length, repeat_length.
  unfold msx_name_len; lia.
Qed.

Theorem pad6_length : forall name, length (pad6 name) = 6%nat.
Proof. intros; rewrite pad6_is_spec; apply pad6_spec_length. Qed.

Theorem pad6_exact6 : forall name, length name = 6%nat -> pad6 name = name.
Proof.
  intros name H; rewrite pad6_is_spec; unfold pad6_spec, msx_name_len.
  rewrite firstn_app, H, Nat.sub_diag, firstn_O, app_nil_r.
  rewrite <- H. apply firstn_all.
Qed.

Theorem pad6_truncates : forall name, (6 <= length name)%nat -> pad6 name = firstn 6 name.
Proof.
  intros name H; rewrite pad6_is_spec; unfold pad6_spec, msx_name_len.
  rewrite firstn_app. replace (6 - length name)%nat with 0%nat by lia.
  rewrite firstn_O. apply app_nil_r.
Qed.

Theorem pad6_pads : forall name, (length name <= 6)%nat ->
  pad6 name = name ++ repeat 32 (6 - length name).
Proof.
  intros name H; rewrite pad6_is_spec; unfold pad6_spec, msx_name_len, msx_name_pad.
  rewrite firstn_app, firstn_all2 by exact H. f_equal.
  rewrite firstn_repeat_. f_equal. lia.
Qed.

Theorem pad6_prefix : forall name, firstn (Nat.min 6 (length name)) (pad6 name) = firstn 6 name.
Proof.
  intros name. destruct (Nat.le_gt_cases 6 (length name)) as [H|H].
  - rewrite pad6_truncates by exact H. rewrite Nat.min_l by exact H.
    rewrite firstn_firstn, Nat.min_id. reflexivity.
  - rewrite pad6_pads by lia. rewrite Nat.min_r by lia.
    rewrite firstn_app, Nat.sub_diag, firstn_all, firstn_O, app_nil_r.
    symmetry; apply firstn_all2; lia.
Qed.

Theorem pad6_bytes : forall name, bytes_ok name -> bytes_ok (pad6 name).
Proof.
  intros name H; rewrite pad6_is_spec; unfold pad6_spec, bytes_ok in *.
  apply Forall_forall. intros x Hx.
  assert (Hin : In x (name ++ repeat msx_name_pad msx_name_len)).
  { revert Hx. generalize (name ++ repeat msx_name_pad msx_name_len) as l.
    generalize msx_name_len as k. induction k as [|k IH]; intros [|y l]; cbn [firstn In]; try tauto.
    intros [->|Hx]; [left; reflexivity | right; apply IH; exact Hx]. }
  apply in_app_or in Hin. destruct Hin as [Hin|Hin].
  - rewrite Forall_forall in H. apply H; exact Hin.
  - apply repeat_spec in Hin. subst x. unfold msx_name_pad. lia.
Qed.

(* default name: -nam empty => the -cim string as typed, cut to six bytes *)
Theorem default_name_spec : forall cimpath, default_name cimpath = pad6_spec cimpath.
Proof. intros; unfold default_name; cbn. apply pad6_is_spec. Qed.

Theorem effective_name_given : forall nam cimpath, nam <> [] -> effective_name nam cimpath = nam.
Proof. intros [|x nam] cimpath H; [contradiction H; reflexivity | reflexivity]. Qed.

Theorem effective_name_default : forall cimpath, effective_name [] cimpath = cimpath.
Proof. reflexivity. Qed.

(* ------------------------------------------------------------------ *)
(* the write script                                                     *)

(* pieces that reach the file: everything written before the last Flush *)
Fixpoint flushed (ops : list op) (emitted pending : list piece) : list piece :=
  match ops with
  | [] => emitted
  | OWrite p :: r => flushed r emitted (pending ++ [p])
  | OFlush :: r => flushed r (emitted ++ pending) []
  end.

Definition denote (off : Z) (name body : list Z) (ps : list piece) : list Z :=
  concat (map (piece_bytes off name body) ps).

Lemma denote_app : forall off name body a b,
  denote off name body (a ++ b) = denote off name body a ++ denote off name body b.
Proof. intros; unfold denote. rewrite map_app, concat_app. reflexivity. Qed.

Lemma fold_step_flushed : forall off name body ops em pe,
  fst (fold_left (step off name body) ops (denote off name body em, denote off name body pe))
  = denote off name body (flushed ops em pe).
Proof.
  intros off name body ops; induction ops as [|o r IH]; intros em pe; cbn [fold_left flushed].
  - reflexivity.
  - destruct o as [p|]; cbn [step fst snd].
    + rewrite <- IH. f_equal. f_equal. f_equal.
      rewrite denote_app. unfold denote at 3. cbn [map concat]. rewrite app_nil_r. reflexivity.
    + rewrite <- IH. rewrite denote_app. reflexivity.
Qed.

Lemma run_ops_flat : forall off name body ops,
  run_ops off name body ops = denote off name body (flushed ops [] []).
Proof. intros; unfold run_ops. apply (fold_step_flushed off name body ops [] []). Qed.

Ltac script ops :=
  rewrite run_ops_flat;
  let x := eval vm_compute in (flushed ops [] []) in
  change (flushed ops [] []) with x;
  cbv beta iota delta [denote map concat piece_bytes];
  cbn [app];
  repeat rewrite u16_le;
  repeat rewrite eval_mod;
  cbn [evalZ].

(* ---- cim2bin: what the code computes, for every off0 and body (no guard) ---- *)
Theorem cim2bin_general : forall off0 body,
  cim2bin off0 body =
  [0xFE] ++ le16 (trunc16 off0) ++ le16 (trunc16 (trunc16 off0 + len body - 1))
         ++ le16 (trunc16 off0) ++ body.
Proof.
  intros off0 body; unfold cim2bin. script bin_ops.
  rewrite !trunc16_idem, app_nil_r.
  repeat (f_equal; try lia).
Qed.

Theorem cim2cas_general : forall off0 name body,
  cim2cas off0 name body =
  msx_sync ++ repeat 0xD0 10 ++ pad6_spec name ++ msx_sync
  ++ le16 (trunc16 off0) ++ le16 (trunc16 (trunc16 off0 + len body - 1))
  ++ le16 (trunc16 off0) ++ body.
Proof.
  intros off0 name body; unfold cim2cas. script cas_ops.
  rewrite !trunc16_idem, app_nil_r, pad6_is_spec.
  cbn [msx_sync repeat app].
  repeat (f_equal; try lia).
Qed.

(* ---- under the guard of the property: the exact layout ---- *)
Lemma guard_end : forall off body, guard off body ->
  trunc16 (trunc16 off + len body - 1) = off + len body - 1.
Proof.
  intros off body (Ho & Hl & He). rewrite (trunc16_small off Ho).
  apply trunc16_small. lia.
Qed.

Theorem cim2bin_layout : forall off body, guard off body ->
  cim2bin off body = spec_bin off body.
Proof.
  intros off body G. rewrite cim2bin_general, (guard_end off body G).
  destruct G as (Ho & _). rewrite (trunc16_small off Ho). reflexivity.
Qed.

Theorem cim2cas_layout : forall off name body, guard off body ->
  cim2cas off name body = spec_cas off name body.
Proof.
  intros off name body G. rewrite cim2cas_general, (guard_end off body G).
  destruct G as (Ho & _). rewrite (trunc16_small off Ho). reflexivity.
Qed.

(* spelled out byte by byte *)
Theorem cim2bin_bytes : forall off body, guard off body ->
  let e := off + len body - 1 in
  cim2bin off body =
  0xFE :: off mod 256 :: off / 256 :: e mod 256 :: e / 256 :: off mod 256 :: off / 256 :: body.
Proof.
  intros off body G e. rewrite (cim2bin_layout off body G). unfold spec_bin.
  destruct G as (Ho & Hl & He).
  rewrite (le16_exact off Ho), (le16_exact (off + len body - 1)) by lia. reflexivity.
Qed.

Theorem cim2cas_bytes : forall off name body, guard off body ->
  let e := off + len body - 1 in
  cim2cas off name body =
  [0x1F; 0xA6; 0xDE; 0xBA; 0xCC; 0x13; 0x7D; 0x74]
  ++ [0xD0; 0xD0; 0xD0; 0xD0; 0xD0; 0xD0; 0xD0; 0xD0; 0xD0; 0xD0]
  ++ firstn 6 (name ++ [32; 32; 32; 32; 32; 32])
  ++ [0x1F; 0xA6; 0xDE; 0xBA; 0xCC; 0x13; 0x7D; 0x74]
  ++ [off mod 256; off / 256; e mod 256; e / 256; off mod 256; off / 256]
  ++ body.
Proof.
  intros off name body G e. rewrite (cim2cas_layout off name body G). unfold spec_cas.
  destruct G as (Ho & Hl & He).
  rewrite (le16_exact off Ho), (le16_exact (off + len body - 1)) by lia. reflexivity.
Qed.

(* ---- lengths and "body unaltered" ---- *)
Theorem cim2bin_length : forall off0 body, len (cim2bin off0 body) = 7 + len body.
Proof. intros; rewrite cim2bin_general. unfold len. cbn [app le16 length]. lia. Qed.

Theorem cim2bin_body : forall off0 body, skipn 7 (cim2bin off0 body) = body.
Proof. intros; rewrite cim2bin_general. reflexivity. Qed.

Lemma cas_prefix_length : forall name,
  length (msx_sync ++ repeat 0xD0 10 ++ pad6_spec name ++ msx_sync) = 32%nat.
Proof. intros; rewrite !app_length, pad6_spec_length. reflexivity. Qed.

Theorem cim2cas_length : forall off0 name body,
  len (cim2cas off0 name body) = 8 + 10 + 6 + 8 + 6 + len body.
Proof.
  intros; rewrite cim2cas_general. unfold len.
  rewrite !app_length, pad6_spec_length. cbn [msx_sync repeat le16 length]. lia.
Qed.

Theorem cim2cas_body : forall off0 name body, skipn 38 (cim2cas off0 name body) = body.
Proof.
  intros; rewrite cim2cas_general.
  pose proof (pad6_spec_length name) as H.
  destruct (pad6_spec name) as [|a [|b [|c [|d [|e [|f [|g r]]]]]]]; cbn [length] in H; try discriminate H.
  reflexivity.
Qed.

Theorem cim2cas_name_field : forall off0 name body,
  firstn 6 (skipn 18 (cim2cas off0 name body)) = pad6 name.
Proof.
  intros; rewrite cim2cas_general, pad6_is_spec.
  cbn [msx_sync repeat app skipn].
  rewrite firstn_app, pad6_spec_length, Nat.sub_diag, firstn_O, app_nil_r.
  rewrite <- (pad6_spec_length name) at 1. apply firstn_all.
Qed.

(* ---- start, end, exec words decode to the right addresses ---- *)
Definition word_at (i : nat) (l : list Z) : Z := de16 (nth i l 0) (nth (S i) l 0).

Theorem cim2bin_words : forall off body, guard off body ->
  nth 0 (cim2bin off body) 0 = 0xFE /\
  word_at 1 (cim2bin off body) = off /\
  word_at 3 (cim2bin off body) = off + len body - 1 /\
  word_at 5 (cim2bin off body) = off.
Proof.
  intros off body G. rewrite (cim2bin_bytes off body G). cbv zeta.
  destruct G as (Ho & Hl & He). unfold word_at, de16. cbn [nth].
  pose proof (Z.div_mod off 256). pose proof (Z.div_mod (off + len body - 1) 256). lia.
Qed.

Theorem cim2cas_words : forall off name body, guard off body ->
  word_at 32 (cim2cas off name body) = off /\
  word_at 34 (cim2cas off name body) = off + len body - 1 /\
  word_at 36 (cim2cas off name body) = off.
Proof.
  intros off name body G. rewrite (cim2cas_bytes off name body G). cbv zeta.
  assert (H6 : length (firstn 6 (name ++ [32; 32; 32; 32; 32; 32])) = 6%nat).
  { rewrite firstn_length, app_length. cbn [length]. lia. }
  destruct (firstn 6 (name ++ [32; 32; 32; 32; 32; 32])) as [|a [|b [|c [|d [|e [|f [|g r]]]]]]];
    cbn [length] in H6; try discriminate H6.
  destruct G as (Ho & Hl & He). unfold word_at, de16. cbn [app nth].
  pose proof (Z.div_mod off 256). pose proof (Z.div_mod (off + len body - 1) 256). lia.
Qed.

(* every output byte is a byte *)
Theorem cim2bin_bytes_ok : forall off0 body, bytes_ok body -> bytes_ok (cim2bin off0 body).
Proof.
  intros off0 body H; rewrite cim2bin_general. unfold bytes_ok in *.
  repeat (apply Forall_app; split); try apply le16_bytes; try exact H.
  repeat constructor; lia.
Qed.

Theorem cim2cas_bytes_ok : forall off0 name body, bytes_ok name -> bytes_ok body ->
  bytes_ok (cim2cas off0 name body).
Proof.
  intros off0 name body Hn H; rewrite cim2cas_general. unfold bytes_ok in *.
  repeat (apply Forall_app; split); try apply le16_bytes; try exact H.
  - repeat constructor; lia.
  - repeat constructor; lia.
  - rewrite <- pad6_is_spec. apply pad6_bytes; exact Hn.
  - repeat constructor; lia.
Qed.

(* ---- outside the guard (not property violations: the property is guarded) ---- *)
Theorem cim2bin_outside_guard_flag : forall off0 body,
  cim2bin off0 body = cim2bin (off0 mod 65536) body.
Proof. intros; rewrite !cim2bin_general. fold (trunc16 off0). rewrite !trunc16_idem. reflexivity. Qed.

Theorem cim2cas_outside_guard_flag : forall off0 name body,
  cim2cas off0 name body = cim2cas (off0 mod 65536) name body.
Proof. intros; rewrite !cim2cas_general. fold (trunc16 off0). rewrite !trunc16_idem. reflexivity. Qed.

(* empty image: end = off-1 modulo 2^16 (0xFFFF for off = 0) *)
Theorem cim2bin_outside_guard_empty : forall off, 0 <= off < 65536 ->
  cim2bin off [] = [0xFE] ++ le16 off ++ le16 ((off - 1) mod 65536) ++ le16 off.
Proof.
  intros off Ho; rewrite cim2bin_general, (trunc16_small off Ho).
  unfold len; cbn [length Z.of_nat]. rewrite Z.add_0_r, app_nil_r. reflexivity.
Qed.

Theorem cim2cas_outside_guard_empty : forall off name, 0 <= off < 65536 ->
  cim2cas off name [] = msx_sync ++ repeat 0xD0 10 ++ pad6_spec name ++ msx_sync
                        ++ le16 off ++ le16 ((off - 1) mod 65536) ++ le16 off.
Proof.
  intros off name Ho; rewrite cim2cas_general, (trunc16_small off Ho).
  unfold len; cbn [length Z.of_nat]. rewrite Z.add_0_r, app_nil_r. reflexivity.
Qed.

(* image running past 0xFFFF: the end word wraps, end < start *)
Theorem cim2bin_outside_guard_overflow : forall off body,
  0 <= off < 65536 -> len body <= 65536 -> 65536 < off + len body ->
  cim2bin off body = [0xFE] ++ le16 off ++ le16 (off + len body - 1 - 65536) ++ le16 off ++ body
  /\ off + len body - 1 - 65536 < off.
Proof.
  intros off body Ho Hb Hl; rewrite cim2bin_general, (trunc16_small off Ho). split; [|lia].
  replace (trunc16 (off + len body - 1)) with (off + len body - 1 - 65536); [reflexivity|].
  unfold trunc16. apply Z.mod_unique with (q := 1); lia.
Qed.

Theorem cim2cas_outside_guard_overflow : forall off name body,
  0 <= off < 65536 -> len body <= 65536 -> 65536 < off + len body ->
  cim2cas off name body = msx_sync ++ repeat 0xD0 10 ++ pad6_spec name ++ msx_sync
     ++ le16 off ++ le16 (off + len body - 1 - 65536) ++ le16 off ++ body.
Proof.
  intros off name body Ho Hb Hl; rewrite cim2cas_general, (trunc16_small off Ho).
  replace (trunc16 (off + len body - 1)) with (off + len body - 1 - 65536); [reflexivity|].
  unfold trunc16. apply Z.mod_unique with (q := 1); lia.
Qed.

(* ---- command-line level ---- *)
Theorem cli_bin_layout : forall offopt body,
  guard (match offopt with Some o => o | None => 0xA000 end) body ->
  cim2bin_cli offopt body = spec_bin_cli offopt body.
Proof.
  intros [o|] body G; unfold cim2bin_cli, spec_bin_cli; apply cim2bin_layout; exact G.
Qed.

Theorem cli_cas_layout : forall offopt nam cimpath body,
  guard (match offopt with Some o => o | None => 0xA000 end) body ->
  cim2cas_cli offopt nam cimpath body = spec_cas_cli offopt nam cimpath body.
Proof.
  intros [o|] nam cimpath body G; unfold cim2cas_cli, spec_cas_cli;
    (rewrite cim2cas_layout by exact G); destruct nam; reflexivity.
Qed.

(* ------------------------------------------------------------------ *)
(* non-vacuity: concrete instances                                      *)

Example guard_ex1 : guard 0xA000 [1; 2; 3].
Proof. unfold guard, len; cbn; lia. Qed.

Example guard_ex2 : guard 0xFFFF [7].
Proof. unfold guard, len; cbn; lia. Qed.

Example guard_ex3 : guard 0 (repeat 0xAA (Z.to_nat 65536)).
Proof. unfold guard, len. rewrite repeat_length. lia. Qed.

Example bin_ex1 : cim2bin 0xA000 [1; 2; 3] = [0xFE; 0x00; 0xA0; 0x02; 0xA0; 0x00; 0xA0; 1; 2; 3].
Proof. vm_compute. reflexivity. Qed.

Example bin_ex2 : cim2bin 0xFFFF [7] = [0xFE; 0xFF; 0xFF; 0xFF; 0xFF; 0xFF; 0xFF; 7].
Proof. vm_compute. reflexivity. Qed.

Example bin_ex3 : firstn 7 (cim2bin 0 (repeat 0xAA (Z.to_nat 65536))) = [0xFE; 0; 0; 0xFF; 0xFF; 0; 0].
Proof. vm_compute. reflexivity. Qed.

Example cas_ex1 : cim2cas 0x8000 [65; 66] [9; 8] =
  [0x1F; 0xA6; 0xDE; 0xBA; 0xCC; 0x13; 0x7D; 0x74;
   0xD0; 0xD0; 0xD0; 0xD0; 0xD0; 0xD0; 0xD0; 0xD0; 0xD0; 0xD0;
   65; 66; 32; 32; 32; 32;
   0x1F; 0xA6; 0xDE; 0xBA; 0xCC; 0x13; 0x7D; 0x74;
   0x00; 0x80; 0x01; 0x80; 0x00; 0x80; 9; 8].
Proof. vm_compute. reflexivity. Qed.

Example pad6_ex_short : pad6 [] = [32; 32; 32; 32; 32; 32].
Proof. vm_compute. reflexivity. Qed.
Example pad6_ex_six : pad6 [1; 2; 3; 4; 5; 6] = [1; 2; 3; 4; 5; 6].
Proof. vm_compute. reflexivity. Qed.
Example pad6_ex_long : pad6 [1; 2; 3; 4; 5; 6; 7; 8; 9; 10; 11; 12] = [1; 2; 3; 4; 5; 6].
Proof. vm_compute. reflexivity. Qed.
Example pad6_ex_five : pad6 [1; 2; 3; 4; 5] = [1; 2; 3; 4; 5; 32].
Proof. vm_compute. reflexivity. Qed.
Example pad6_ex_seven : pad6 [1; 2; 3; 4; 5; 6; 7] = [1; 2; 3; 4; 5; 6].
Proof. vm_compute. reflexivity. Qed.

(* default name: "dir/prog.cim" typed on the command line gives "dir/pr" *)
Example default_name_ex :
  default_name [100; 105; 114; 47; 112; 114; 111; 103; 46; 99; 105; 109] = [100; 105; 114; 47; 112; 114].
Proof. vm_compute. reflexivity. Qed.
Example default_name_ex_short : default_name [97; 46; 99] = [97; 46; 99; 32; 32; 32].
Proof. vm_compute. reflexivity. Qed.
Example cli_default_ex :
  firstn 6 (skipn 18 (cim2cas_cli None [] [97; 46; 99] [0])) = [97; 46; 99; 32; 32; 32]
  /\ word_at 32 (cim2cas_cli None [] [97; 46; 99] [0]) = 0xA000.
Proof. vm_compute. split; reflexivity. Qed.

Example le16_ex : le16 0xA002 = [0x02; 0xA0] /\ de16 0x02 0xA0 = 0xA002.
Proof. vm_compute. split; reflexivity. Qed.

(* outside the guard *)
Example outside_ex_empty : cim2bin 0 [] = [0xFE; 0; 0; 0xFF; 0xFF; 0; 0].
Proof. vm_compute. reflexivity. Qed.
Example outside_ex_overflow : cim2bin 0xFFFF [1; 2] = [0xFE; 0xFF; 0xFF; 0x00; 0x00; 0xFF; 0xFF; 1; 2].
Proof. vm_compute. reflexivity. Qed.
Example outside_ex_flag : cim2bin 0x1A000 [5] = cim2bin 0xA000 [5].
Proof. vm_compute. reflexivity. Qed.
