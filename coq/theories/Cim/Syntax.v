(* C19 - cim2bin / cim2cas.
   Abstract syntax of the "write script" that harness/c19/extract (go/ast)
   reads out of /repo/cmd/cim2bin/cim2bin.go and /repo/cmd/cim2cas/cim2cas.go.
   The generated file Gen/CimConsts.v contains only closed terms of these
   types; Cim/Model.v gives them their meaning. *)
From Coq Require Import ZArith List.
Import ListNotations.
Open Scope Z_scope.

(* integer expressions that may be handed to writeU16.  [w16 = true] marks an
   operation carried out in Go type uint16 (result wraps modulo 2^16),
   [w16 = false] one carried out in type int (no wrap can occur for the
   magnitudes that exist here: |body| + 2^16 + small literals). *)
Inductive expr : Set :=
| EOff                                  (* the variable  off  (uint16(off0)) *)
| ELen                                  (* len(b), b = the bytes of the -cim file *)
| ELit (z : Z)                          (* integer literal *)
| EConv16 (e : expr)                    (* uint16(e) *)
| EConvInt (e : expr)                   (* int(e) *)
| EAdd (w16 : bool) (a b : expr)
| ESub (w16 : bool) (a b : expr).

(* what one write call appends to the buffered writer *)
Inductive piece : Set :=
| PByte (z : Z)                         (* w.WriteByte(c) *)
| PBytes (bs : list Z)                  (* w.Write(<package-level []byte literal>) *)
| PU16 (shifts : list Z) (e : expr)     (* writeU16(w, e): one byte uint8(v >> s) per shift s, in order *)
| PName                                 (* writeName(w, []byte(nam)) *)
| PBody.                                (* w.Write(b) *)

Inductive op : Set :=
| OWrite (p : piece)
| OFlush.                               (* w.Flush() *)

(* comparison used in  if len(name) CMP n { name = name[:m] }  of writeName *)
Inductive cmp : Set := CmpGt | CmpGe | CmpLt | CmpLe | CmpEq | CmpNe | CmpNever.
