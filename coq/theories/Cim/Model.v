(* C19 - executable model of cmd/cim2bin and cmd/cim2cas.
   The model is an interpreter of the write script in Gen/CimConsts.v, which is
   re-extracted from the Go sources on every check run; the interpreter itself
   (meaning of uint16 arithmetic, of writeU16, of copy() in writeName, of
   bufio Write/Flush) is written by hand and tied to the real commands by the
   correspondence harness. *)
From Coq Require Import ZArith List Bool.
From Z80V Require Import Cim.Syntax Cim.Spec Gen.CimConsts.
Import ListNotations.
Open Scope Z_scope.

(* conversion to Go uint16 *)
Definition trunc16 (z : Z) : Z := z mod 65536.

(* value of an expression; off is already a uint16, n = len(b) *)
Fixpoint eval (off n : Z) (e : expr) : Z :=
  match e with
  | EOff => off
  | ELen => n
  | ELit z => z
  | EConv16 a => trunc16 (eval off n a)
  | EConvInt a => eval off n a
  | EAdd w a b => let r := eval off n a + eval off n b in if w then trunc16 r else r
  | ESub w a b => let r := eval off n a - eval off n b in if w then trunc16 r else r
  end.

(* writeU16: byte i is uint8(v >> shift_i) *)
Definition u16bytes (shifts : list Z) (v : Z) : list Z :=
  map (fun s => Z.shiftr v s mod 256) shifts.

(* Go's copy(dst, src) followed by reading dst: min(len) elements overwritten *)
Definition gocopy (dst src : list Z) : list Z :=
  firstn (length dst) src ++ skipn (length src) dst.

Definition cmpb (c : cmp) (a b : Z) : bool :=
  match c with
  | CmpGt => a >? b | CmpGe => a >=? b | CmpLt => a <? b | CmpLe => a <=? b
  | CmpEq => a =? b | CmpNe => negb (a =? b) | CmpNever => false
  end.

(* writeName:  buf := []byte{..}; if len(name) CMP n { name = name[:m] }; copy(buf, name); w.Write(buf) *)
Definition write_name (buf : list Z) (c : cmp) (n m : Z) (name : list Z) : list Z :=
  gocopy buf (if cmpb c (len name) n then firstn (Z.to_nat m) name else name).

Definition pad6 (name : list Z) : list Z :=
  write_name cas_name_buf cas_name_cmp cas_name_cmp_n cas_name_slice_m name.

Definition piece_bytes (off : Z) (name body : list Z) (p : piece) : list Z :=
  match p with
  | PByte z => [z]
  | PBytes bs => bs
  | PU16 sh e => u16bytes sh (trunc16 (eval off (len body) e))
  | PName => pad6 name
  | PBody => body
  end.

(* bufio.Writer seen from the file: what has been written reaches the file
   when Flush is called (state = (in the file, still buffered)).  Data never
   flushed is modelled as lost. *)
Definition step (off : Z) (name body : list Z) (st : list Z * list Z) (o : op) : list Z * list Z :=
  match o with
  | OWrite p => (fst st, snd st ++ piece_bytes off name body p)
  | OFlush => (fst st ++ snd st, [])
  end.

Definition run_ops (off : Z) (name body : list Z) (ops : list op) : list Z :=
  fst (fold_left (step off name body) ops ([], [])).

(* off0 is the value of the uint flag -off; the programs convert it with uint16(off0) *)
Definition cim2bin (off0 : Z) (body : list Z) : list Z :=
  run_ops (trunc16 off0) [] body bin_ops.

Definition cim2cas (off0 : Z) (name body : list Z) : list Z :=
  run_ops (trunc16 off0) name body cas_ops.

(* command-line level.  offopt = None: flag -off not given.
   nam = value of -nam (bytes), cimpath = the -cim argument exactly as typed. *)
Definition effective_name (nam cimpath : list Z) : list Z :=
  match nam with
  | [] => if cas_default_name_from_cim then cimpath else nam
  | _ => nam
  end.

Definition default_name (cimpath : list Z) : list Z := pad6 (effective_name [] cimpath).

Definition cim2bin_cli (offopt : option Z) (body : list Z) : list Z :=
  cim2bin (match offopt with Some o => o | None => bin_off_default end) body.

Definition cim2cas_cli (offopt : option Z) (nam cimpath body : list Z) : list Z :=
  cim2cas (match offopt with Some o => o | None => cas_off_default end)
          (effective_name nam cimpath) body.
