(* C17 - proofs.
   Part 1 (general, all records): the record decoder used by parse_image is a two-sided inverse of the
   encoder on well-formed records, so equality of decoded records IS equality of the 65 bytes
   ("byte for byte"), and the message trimming loses nothing on well-formed descriptions.
   Part 2 (finite, by kernel computation over the data regenerated from the current tree):
   the tables of internal/zex are the records of the two images, and both are the pinned records. *)
From Coq Require Import ZArith List Bool Lia.
From Z80V Require Import Zex.Model Zex.Pinned Gen.ZexData.
Import ListNotations.
Open Scope Z_scope.

(* ------------------------------------------------------------------ words *)
Lemma le16_lo_hi : forall v, word_ok v -> le16 (lo v) (hi v) = v.
Proof.
  intros v [H0 H1]. unfold le16, lo, hi.
  assert (Hq : 0 <= v / 256 < 256).
  { split. apply Z.div_pos; lia. apply Z.div_lt_upper_bound; lia. }
  rewrite (Z.mod_small (v / 256)) by lia.
  pose proof (Z.div_mod v 256 ltac:(lia)). lia.
Qed.

Lemma lo_le16 : forall l h, byte_ok l -> byte_ok h -> lo (le16 l h) = l.
Proof.
  intros l h Hl Hh. unfold lo, le16, byte_ok in *.
  rewrite (Z.mul_comm 256 h), Z.mod_add by lia. apply Z.mod_small; lia.
Qed.

Lemma hi_le16 : forall l h, byte_ok l -> byte_ok h -> hi (le16 l h) = h.
Proof.
  intros l h Hl Hh. unfold hi, le16, byte_ok in *.
  rewrite (Z.mul_comm 256 h), Z.div_add by lia.
  rewrite (Z.div_small l) by lia. rewrite Z.add_0_l. apply Z.mod_small; lia.
Qed.

Lemma le16_word : forall l h, byte_ok l -> byte_ok h -> word_ok (le16 l h).
Proof. unfold byte_ok, word_ok, le16. lia. Qed.

Lemma lo_byte : forall v, byte_ok (lo v).
Proof. intro v. unfold byte_ok, lo. apply Z.mod_pos_bound. lia. Qed.
Lemma hi_byte : forall v, byte_ok (hi v).
Proof. intro v. unfold byte_ok, hi. apply Z.mod_pos_bound. lia. Qed.

(* ------------------------------------------------------------------ state vectors *)
Lemma decode_status_bytes : forall s, status_ok s -> decode_status (status_bytes s) = Some s.
Proof.
  intros s (_ & _ & _ & _ & H4 & H5 & H6 & H7 & H8 & H9 & _ & _ & H12).
  unfold status_bytes, decode_status.
  rewrite !le16_lo_hi by assumption. destruct s; reflexivity.
Qed.

Lemma status_bytes_length : forall s, length (status_bytes s) = 20%nat.
Proof. reflexivity. Qed.

Lemma status_bytes_ok : forall s, status_ok s -> Forall byte_ok (status_bytes s).
Proof.
  intros s (H0 & H1 & H2 & H3 & _ & _ & _ & _ & _ & _ & H10 & H11 & _).
  unfold status_bytes. repeat (apply Forall_cons; [ first [assumption | apply lo_byte | apply hi_byte] | ]).
  apply Forall_nil.
Qed.

(* the decoder determines the 20 bytes: two different byte vectors never decode to the same Status *)
Lemma status_bytes_decode : forall l s,
  Forall byte_ok l -> decode_status l = Some s -> status_bytes s = l /\ status_ok s.
Proof.
  intros l s HF HD.
  do 20 (destruct l as [|? l]; [discriminate HD|]).
  destruct l; [|discriminate HD].
  cbn [decode_status] in HD. injection HD as <-.
  repeat match goal with H : Forall _ (_ :: _) |- _ => apply Forall_cons_iff in H; destruct H as [? H] end.
  split.
  - unfold status_bytes; cbn [inst0 inst1 inst2 inst3 memop riy rix rhl rde rbc flags accum rsp].
    rewrite !lo_le16, !hi_le16 by assumption. reflexivity.
  - unfold status_ok; cbn [inst0 inst1 inst2 inst3 memop riy rix rhl rde rbc flags accum rsp].
    repeat split; try assumption; try (apply le16_word; assumption);
      match goal with H : byte_ok ?x |- _ <= ?x => apply H | H : byte_ok ?x |- ?x < _ => apply H
                 | |- _ => try (apply le16_word; assumption) end.
Qed.

(* ------------------------------------------------------------------ crc *)
Lemma of_be32_be32 : forall v, 0 <= v < 4294967296 ->
  match be32 v with [a; b; c; d] => of_be32 a b c d = v | _ => False end.
Proof.
  intros v Hv. unfold be32, of_be32.
  pose proof (Z.div_mod v 256 ltac:(lia)) as E0.
  pose proof (Z.mod_pos_bound v 256 ltac:(lia)) as B0.
  assert (D1 : v / 65536 = v / 256 / 256) by (rewrite Z.div_div by lia; reflexivity).
  assert (D2 : v / 16777216 = v / 256 / 256 / 256) by (rewrite !Z.div_div by lia; reflexivity).
  rewrite D1, D2.
  set (q1 := v / 256) in *.
  pose proof (Z.div_mod q1 256 ltac:(lia)) as E1.
  pose proof (Z.mod_pos_bound q1 256 ltac:(lia)) as B1.
  set (q2 := q1 / 256) in *.
  pose proof (Z.div_mod q2 256 ltac:(lia)) as E2.
  pose proof (Z.mod_pos_bound q2 256 ltac:(lia)) as B2.
  set (q3 := q2 / 256) in *.
  assert (0 <= q3 < 256) by lia.
  rewrite (Z.mod_small q3) by lia. lia.
Qed.

Lemma be32_of_be32 : forall a b c d, byte_ok a -> byte_ok b -> byte_ok c -> byte_ok d ->
  be32 (of_be32 a b c d) = [a; b; c; d] /\ 0 <= of_be32 a b c d < 4294967296.
Proof.
  intros a b c d Ha Hb Hc Hd. unfold byte_ok in *. unfold be32, of_be32. split; [|lia].
  set (v := ((a * 256 + b) * 256 + c) * 256 + d).
  assert (E0 : v mod 256 = d).
  { symmetry. apply (Z.mod_unique v 256 ((a * 256 + b) * 256 + c) d); [left; lia | unfold v; lia]. }
  assert (Q1 : v / 256 = (a * 256 + b) * 256 + c).
  { symmetry. apply (Z.div_unique v 256 ((a * 256 + b) * 256 + c) d); [left; lia | unfold v; lia]. }
  assert (E1 : (v / 256) mod 256 = c).
  { rewrite Q1. symmetry. apply (Z.mod_unique _ 256 (a * 256 + b) c); [left; lia | lia]. }
  assert (Q2 : v / 65536 = a * 256 + b).
  { replace 65536 with (256 * 256) by reflexivity. rewrite <- Z.div_div by lia. rewrite Q1.
    symmetry. apply (Z.div_unique _ 256 (a * 256 + b) c); [left; lia | lia]. }
  assert (E2 : (v / 65536) mod 256 = b).
  { rewrite Q2. symmetry. apply (Z.mod_unique _ 256 a b); [left; lia | lia]. }
  assert (Q3 : v / 16777216 = a).
  { replace 16777216 with (65536 * 256) by reflexivity. rewrite <- Z.div_div by lia. rewrite Q2.
    symmetry. apply (Z.div_unique _ 256 a b); [left; lia | lia]. }
  rewrite E0, E1, E2, Q3, (Z.mod_small a) by lia. reflexivity.
Qed.

(* ------------------------------------------------------------------ lists *)
Lemma split_at_app : forall a b, split_at (length a) (a ++ b) = Some (a, b).
Proof. induction a as [|x a IH]; intro b; cbn; [reflexivity | rewrite IH; reflexivity]. Qed.

Lemma split_at_spec : forall n l a r, split_at n l = Some (a, r) -> l = a ++ r /\ length a = n.
Proof.
  induction n as [|n IH]; intros l a r H; cbn in H.
  - injection H as <- <-. split; reflexivity.
  - destruct l as [|x l]; [discriminate|].
    destruct (split_at n l) as [[a' r']|] eqn:E; [|discriminate].
    injection H as <- <-. destruct (IH _ _ _ E) as [-> <-]. split; reflexivity.
Qed.

Lemma read_msg_app : forall m t, ~ In DOLLAR m -> read_msg (m ++ DOLLAR :: t) = Some m.
Proof.
  induction m as [|x m IH]; intros t H; cbn.
  - reflexivity.
  - destruct (x =? DOLLAR) eqn:E.
    + apply Z.eqb_eq in E. exfalso. apply H. left. assumption.
    + rewrite IH; [reflexivity|]. intro HI. apply H. right. assumption.
Qed.

Lemma drop_dots_repeat : forall n l, drop_dots (repeat DOT n ++ l) = drop_dots l.
Proof. induction n as [|n IH]; intro l; cbn; [reflexivity | apply IH]. Qed.

Lemma drop_dots_head : forall a l, a <> DOT -> drop_dots (a :: l) = a :: l.
Proof. intros a l H. cbn. destruct (a =? DOT) eqn:E; [apply Z.eqb_eq in E; contradiction | reflexivity]. Qed.

Lemma rev_repeat : forall (x : Z) n, rev (repeat x n) = repeat x n.
Proof.
  intros x n. induction n as [|n IH]; [reflexivity|].
  cbn [repeat rev]. rewrite IH. clear IH.
  induction n as [|n IH]; [reflexivity | cbn; rewrite IH; reflexivity].
Qed.

(* the '.' padding of tmsg is removed by the trimming and nothing else is *)
Lemma trim_dots_padded : forall d n, desc_ok d -> trim_dots (d ++ repeat DOT n) = d.
Proof.
  intros d n (_ & Hh & Hl). unfold trim_dots.
  destruct d as [|a d].
  - cbn [app]. rewrite <- (app_nil_r (repeat DOT n)), drop_dots_repeat. reflexivity.
  - cbn [app]. rewrite drop_dots_head by assumption.
    change (a :: d ++ repeat DOT n) with ((a :: d) ++ repeat DOT n).
    rewrite rev_app_distr, rev_repeat, drop_dots_repeat.
    destruct (rev (a :: d)) as [|b r] eqn:E.
    + apply (f_equal (@length Z)) in E. rewrite rev_length in E. discriminate.
    + rewrite drop_dots_head by assumption. rewrite <- E. apply rev_involutive.
Qed.

(* ------------------------------------------------------------------ whole records *)
Theorem decode_encode_case : forall c tail, case_ok c -> decode_case (encode_case c ++ tail) = Some c.
Proof.
  intros c tail (Hm & Hb & Hi & Hs & Hc & Hd).
  unfold decode_case, decode_fixed, encode_case, encode_fixed.
  cbn [app].
  rewrite <- !app_assoc.
  rewrite <- (status_bytes_length (cbase c)) at 1. rewrite split_at_app.
  rewrite <- (status_bytes_length (cinc c)) at 1. rewrite split_at_app.
  rewrite <- (status_bytes_length (cshift c)) at 1. rewrite split_at_app.
  rewrite !decode_status_bytes by assumption.
  pose proof (of_be32_be32 (ccrc c) Hc) as Hcrc.
  unfold be32 in *. cbn [app]. rewrite Hcrc.
  unfold encode_msg. rewrite <- !app_assoc. cbn [app].
  replace (cdesc c ++ repeat DOT (30 - length (cdesc c)) ++ DOLLAR :: tail)
    with ((cdesc c ++ repeat DOT (30 - length (cdesc c))) ++ DOLLAR :: tail) by (rewrite <- app_assoc; reflexivity).
  rewrite read_msg_app.
  - rewrite trim_dots_padded by assumption. destruct c; reflexivity.
  - destruct Hd as (Hd & _). intro HI. apply in_app_or in HI. destruct HI as [HI|HI]; [contradiction|].
    apply repeat_spec in HI. discriminate HI.
Qed.

(* "byte for byte": whatever decodes to (m,b,i,s,crc) consists of exactly the bytes encode_fixed gives *)
Theorem decode_fixed_bytes : forall l m b i s crc rest,
  Forall byte_ok l -> decode_fixed l = Some (m, b, i, s, crc, rest) ->
  l = encode_fixed (mkCase m b i s crc []) ++ rest.
Proof.
  intros l m b i s crc rest HF HD. unfold decode_fixed in HD.
  destruct l as [|m0 l1]; [discriminate|].
  destruct (split_at 20 l1) as [[bb l2]|] eqn:E1; [|discriminate].
  destruct (split_at 20 l2) as [[ib l3]|] eqn:E2; [|discriminate].
  destruct (split_at 20 l3) as [[sb l4]|] eqn:E3; [|discriminate].
  destruct (decode_status bb) as [b'|] eqn:D1; [|discriminate].
  destruct (decode_status ib) as [i'|] eqn:D2; [|discriminate].
  destruct (decode_status sb) as [s'|] eqn:D3; [|discriminate].
  destruct l4 as [|c3 [|c2 [|c1 [|c0 l5]]]]; try discriminate.
  injection HD as <- <- <- <- <- <-.
  apply split_at_spec in E1. destruct E1 as [-> _].
  apply split_at_spec in E2. destruct E2 as [-> _].
  apply split_at_spec in E3. destruct E3 as [-> _].
  apply Forall_cons_iff in HF. destruct HF as [_ HF].
  apply Forall_app in HF. destruct HF as [F1 HF].
  apply Forall_app in HF. destruct HF as [F2 HF].
  apply Forall_app in HF. destruct HF as [F3 HF].
  repeat match goal with H : Forall _ (_ :: _) |- _ => apply Forall_cons_iff in H; destruct H as [? H] end.
  destruct (status_bytes_decode _ _ F1 D1) as [R1 _].
  destruct (status_bytes_decode _ _ F2 D2) as [R2 _].
  destruct (status_bytes_decode _ _ F3 D3) as [R3 _].
  unfold encode_fixed. cbn [cmask cbase cinc cshift ccrc].
  rewrite R1, R2, R3.
  destruct (be32_of_be32 c3 c2 c1 c0) as [-> _]; try assumption.
  cbn [app]. rewrite <- !app_assoc. reflexivity.
Qed.

(* ------------------------------------------------------------------ boolean well-formedness *)
Lemma byte_okb_ok : forall b, byte_okb b = true -> byte_ok b.
Proof. unfold byte_okb, byte_ok. intros b H. apply andb_prop in H. destruct H. lia. Qed.
Lemma word_okb_ok : forall b, word_okb b = true -> word_ok b.
Proof. unfold word_okb, word_ok. intros b H. apply andb_prop in H. destruct H. lia. Qed.

Lemma status_okb_ok : forall s, status_okb s = true -> status_ok s.
Proof.
  unfold status_okb, status_ok. intros s H.
  do 12 (apply andb_prop in H; let H' := fresh in destruct H as [H H']).
  repeat (apply conj; [first [apply byte_okb_ok; assumption | apply word_okb_ok; assumption] | ]).
  apply word_okb_ok; assumption.
Qed.

Lemma no_dot_head_ok : forall d, no_dot_head d = true -> match d with [] => True | a :: _ => a <> DOT end.
Proof.
  intros [|a d] H; [exact I|]. cbn in H. intro E. apply Z.eqb_eq in E. rewrite E in H. discriminate.
Qed.

Lemma desc_okb_ok : forall d, desc_okb d = true -> desc_ok d.
Proof.
  unfold desc_okb, desc_ok. intros d H.
  apply andb_prop in H. destruct H as [H H3]. apply andb_prop in H. destruct H as [H1 H2].
  split; [|split; apply no_dot_head_ok; assumption].
  intro HI. rewrite forallb_forall in H1. specialize (H1 _ HI). cbn in H1. discriminate.
Qed.

Lemma case_okb_ok : forall c, case_okb c = true -> case_ok c.
Proof.
  unfold case_okb, case_ok. intros c H.
  do 5 (apply andb_prop in H; let H' := fresh in destruct H as [H H']).
  repeat match goal with H : (_ && _) = true |- _ => apply andb_prop in H; destruct H end.
  split; [apply byte_okb_ok; assumption|].
  split; [apply status_okb_ok; assumption|].
  split; [apply status_okb_ok; assumption|].
  split; [apply status_okb_ok; assumption|].
  split; [lia|]. apply desc_okb_ok; assumption.
Qed.

(* the hypotheses are satisfiable, non-trivially: the first documented-flags case *)
Example case_ok_example :
  let c := mkCase 199 (mkStatus 237 66 0 0 33580 20360 61995 45881 32287 5475 211 137 18014)
                      (mkStatus 0 56 0 0 0 0 0 63521 0 0 0 0 0)
                      (mkStatus 0 0 0 0 0 0 0 65535 65535 65535 215 0 65535) 4172606121 [97; 100; 99] in
  case_ok c /\ length (encode_case c) = 96%nat /\ decode_case (encode_case c ++ [1; 2; 3]) = Some c.
Proof.
  intro c. assert (H : case_ok c) by (apply case_okb_ok; vm_compute; reflexivity).
  split; [exact H|]. split; [vm_compute; reflexivity|]. apply decode_encode_case. exact H.
Qed.

(* ------------------------------------------------------------------ the finite statements *)
Definition vec_bytes (c : zcase) : list Z * list Z * list Z :=
  (status_bytes (cbase c), status_bytes (cinc c), status_bytes (cshift c)).

Lemma zexdoc_parse_go : parse_image zexdoc_cim = Some go_doc_cases.
Proof. vm_compute. reflexivity. Qed.

Lemma zexall_parse_go : parse_image zexall_cim = Some go_all_cases.
Proof. vm_compute. reflexivity. Qed.

Lemma zexdoc_bytes_go : image_fixed_bytes zexdoc_cim = Some (map encode_fixed go_doc_cases).
Proof. vm_compute. reflexivity. Qed.

Lemma zexall_bytes_go : image_fixed_bytes zexall_cim = Some (map encode_fixed go_all_cases).
Proof. vm_compute. reflexivity. Qed.

Lemma go_counts : length go_doc_cases = 67%nat /\ length go_all_cases = 67%nat.
Proof. vm_compute. split; reflexivity. Qed.

Lemma go_doc_pinned : go_doc_cases = pinned_doc.
Proof. vm_compute. reflexivity. Qed.

Lemma go_all_pinned : go_all_cases = pinned_all.
Proof. vm_compute. reflexivity. Qed.

Lemma zexdoc_parse_pinned : parse_image zexdoc_cim = Some pinned_doc.
Proof. vm_compute. reflexivity. Qed.

Lemma zexall_parse_pinned : parse_image zexall_cim = Some pinned_all.
Proof. vm_compute. reflexivity. Qed.

(* Status.Bytes() of the real code gives, on every vector of both tables, the bytes of the model *)
Lemma go_doc_bytes_ok : map vec_bytes go_doc_cases = go_doc_bytes.
Proof. vm_compute. reflexivity. Qed.

Lemma go_all_bytes_ok : map vec_bytes go_all_cases = go_all_bytes.
Proof. vm_compute. reflexivity. Qed.

(* every table entry and every image byte is in range, so the general theorems apply to them *)
Lemma go_cases_ok : Forall case_ok go_doc_cases /\ Forall case_ok go_all_cases.
Proof.
  assert (H : forallb case_okb go_doc_cases = true /\ forallb case_okb go_all_cases = true)
    by (vm_compute; split; reflexivity).
  destruct H as [H1 H2]. rewrite forallb_forall in H1, H2.
  split; apply Forall_forall; intros c Hc; apply case_okb_ok; auto.
Qed.

Lemma images_bytes : Forall byte_ok zexdoc_cim /\ Forall byte_ok zexall_cim.
Proof.
  assert (H : forallb byte_okb zexdoc_cim = true /\ forallb byte_okb zexall_cim = true)
    by (vm_compute; split; reflexivity).
  destruct H as [H1 H2]. rewrite forallb_forall in H1, H2.
  split; apply Forall_forall; intros c Hc; apply byte_okb_ok; auto.
Qed.

(* the doc and all variants are the same tests in the same order; only flag mask and crc differ *)
Definition strip (c : zcase) : zcase := mkCase 0 (cbase c) (cinc c) (cshift c) 0 (cdesc c).

Lemma doc_all_same_tests : map strip pinned_doc = map strip pinned_all.
Proof. vm_compute. reflexivity. Qed.

Lemma no_duplicate_descriptions : NoDup (map cdesc pinned_doc) /\ NoDup (map cdesc pinned_all).
Proof.
  assert (H : forall l : list (list Z),
             (fix nd (l : list (list Z)) : bool :=
                match l with [] => true
                | x :: t => negb (existsb (fun y => if list_eq_dec Z.eq_dec x y then true else false) t) && nd t end) l = true
             -> NoDup l).
  { induction l as [|x t IH]; intro H; [constructor|].
    apply andb_prop in H. destruct H as [H1 H2]. constructor; [|apply IH; exact H2].
    intro HI. apply negb_true_iff in H1. assert (E : existsb (fun y => if list_eq_dec Z.eq_dec x y then true else false) t = true).
    { apply existsb_exists. exists x. split; [exact HI|]. destruct (list_eq_dec Z.eq_dec x x); [reflexivity|contradiction]. }
    rewrite E in H1. discriminate. }
  split; apply H; vm_compute; reflexivity.
Qed.
