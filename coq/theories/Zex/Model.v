(* C17 - model of the exerciser test records and of the CP/M image layout.

   A test descriptor of zexdoc/zexall (see _z80/zexdoc.asm) is
     flag mask (1 byte) ; base state (20) ; increment vector (20) ; shift vector (20) ;
     expected crc (4 bytes, most significant first) ; message padded with '.' to 30 bytes ; '$'.
   A 20 byte state vector is  insn[4] ; memop iy ix hl de bc (little endian words) ; flags ; acc ; sp (word),
   which is exactly the layout of zex.Status.Bytes()/newStatus in internal/zex/zex.go.

   The .cim file is a CP/M .COM image loaded at 0100h:  `jp start` ; msbt (16 bytes) ;
   start: ld hl,(6) ; ld sp,hl ; ld de,msg1 ; ld c,9 ; call bdos ; ld hl,tests ; ...
   so `ld hl,tests` sits at address 011Fh (file offset 1Fh); `tests` is a table of little endian
   pointers terminated by the word 0.  *)
From Coq Require Import ZArith List Bool Lia.
Import ListNotations.
Open Scope Z_scope.

Set Primitive Projections.

Record zstatus := mkStatus {
  inst0 : Z; inst1 : Z; inst2 : Z; inst3 : Z;
  memop : Z; riy : Z; rix : Z; rhl : Z; rde : Z; rbc : Z;
  flags : Z; accum : Z; rsp : Z }.

Record zcase := mkCase {
  cmask : Z; cbase : zstatus; cinc : zstatus; cshift : zstatus;
  ccrc : Z; cdesc : list Z }.

(* ---------------------------------------------------------------- bytes and words *)
Definition byte_ok (b : Z) : Prop := 0 <= b < 256.
Definition word_ok (w : Z) : Prop := 0 <= w < 65536.

Definition lo (v : Z) : Z := v mod 256.                 (* uint8(v)      *)
Definition hi (v : Z) : Z := (v / 256) mod 256.         (* uint8(v >> 8) *)
Definition le16 (l h : Z) : Z := l + 256 * h.           (* toU16         *)

(* Status.Bytes() *)
Definition status_bytes (s : zstatus) : list Z :=
  [ inst0 s; inst1 s; inst2 s; inst3 s;
    lo (memop s); hi (memop s); lo (riy s); hi (riy s); lo (rix s); hi (rix s);
    lo (rhl s); hi (rhl s); lo (rde s); hi (rde s); lo (rbc s); hi (rbc s);
    flags s; accum s; lo (rsp s); hi (rsp s) ].

(* newStatus: exactly 20 bytes *)
Definition decode_status (l : list Z) : option zstatus :=
  match l with
  | [b0; b1; b2; b3; b4; b5; b6; b7; b8; b9; b10; b11; b12; b13; b14; b15; b16; b17; b18; b19] =>
      Some (mkStatus b0 b1 b2 b3 (le16 b4 b5) (le16 b6 b7) (le16 b8 b9) (le16 b10 b11)
                     (le16 b12 b13) (le16 b14 b15) b16 b17 (le16 b18 b19))
  | _ => None
  end.

(* expected crc: `db c3,c2,c1,c0` most significant byte first *)
Definition be32 (v : Z) : list Z :=
  [ (v / 16777216) mod 256; (v / 65536) mod 256; (v / 256) mod 256; v mod 256 ].
Definition of_be32 (a b c d : Z) : Z := ((a * 256 + b) * 256 + c) * 256 + d.

(* ---------------------------------------------------------------- messages *)
Definition DOLLAR : Z := 36.
Definition DOT : Z := 46.

(* bytes up to (not including) the first '$'; None when there is no '$' *)
Fixpoint read_msg (l : list Z) : option (list Z) :=
  match l with
  | [] => None
  | b :: t => if b =? DOLLAR then Some []
              else match read_msg t with Some m => Some (b :: m) | None => None end
  end.

Fixpoint drop_dots (l : list Z) : list Z :=
  match l with
  | b :: t => if b =? DOT then drop_dots t else l
  | [] => []
  end.

(* strings.Trim(s, ".") of cmd/convert_case: leading and trailing dots removed *)
Definition trim_dots (l : list Z) : list Z := rev (drop_dots (rev (drop_dots l))).

(* ---------------------------------------------------------------- one record *)
Fixpoint split_at (n : nat) (l : list Z) : option (list Z * list Z) :=
  match n with
  | O => Some ([], l)
  | S k => match l with
           | [] => None
           | b :: t => match split_at k t with
                       | Some (a, r) => Some (b :: a, r)
                       | None => None
                       end
           end
  end.

(* the 65 fixed bytes; returns the case without description and the rest of the bytes *)
Definition decode_fixed (l : list Z) : option (Z * zstatus * zstatus * zstatus * Z * list Z) :=
  match l with
  | [] => None
  | m :: l1 =>
    match split_at 20 l1 with None => None | Some (bb, l2) =>
    match split_at 20 l2 with None => None | Some (ib, l3) =>
    match split_at 20 l3 with None => None | Some (sb, l4) =>
    match decode_status bb, decode_status ib, decode_status sb, l4 with
    | Some b, Some i, Some s, c3 :: c2 :: c1 :: c0 :: l5 =>
        Some (m, b, i, s, of_be32 c3 c2 c1 c0, l5)
    | _, _, _, _ => None
    end end end end
  end.

Definition decode_case (l : list Z) : option zcase :=
  match decode_fixed l with
  | Some (m, b, i, s, c, l5) =>
      match read_msg l5 with
      | Some msg => Some (mkCase m b i s c (trim_dots msg))
      | None => None
      end
  | None => None
  end.

Definition encode_fixed (c : zcase) : list Z :=
  cmask c :: status_bytes (cbase c) ++ status_bytes (cinc c) ++ status_bytes (cshift c) ++ be32 (ccrc c).

(* tmsg: message, '.' up to 30 characters, '$' *)
Definition encode_msg (d : list Z) : list Z :=
  d ++ repeat DOT (30 - length d) ++ [DOLLAR].

Definition encode_case (c : zcase) : list Z := encode_fixed c ++ encode_msg (cdesc c).

(* ---------------------------------------------------------------- the image *)
Definition LOAD : Z := 256.          (* org 100h *)
Definition LD_HL_OFF : nat := 31.    (* file offset of `ld hl,tests` (address 011Fh) *)

(* bytes of the image from address a on; None when a is outside the image *)
Definition from_addr (img : list Z) (a : Z) : option (list Z) :=
  if (a <? LOAD) then None
  else let off := Z.to_nat (a - LOAD) in
       if (off <? length img)%nat then Some (skipn off img) else None.

Definition word_at (img : list Z) (a : Z) : option Z :=
  match from_addr img a with
  | Some (l :: h :: _) => Some (le16 l h)
  | _ => None
  end.

(* walk the zero terminated pointer table *)
Fixpoint walk (fuel : nat) (img : list Z) (a : Z) : option (list Z) :=
  match fuel with
  | O => None
  | S f =>
    match word_at img a with
    | None => None
    | Some p => if p =? 0 then Some []
                else match walk f img (a + 2) with
                     | Some ps => Some (p :: ps)
                     | None => None
                     end
    end
  end.

Fixpoint map_opt {A B} (f : A -> option B) (l : list A) : option (list B) :=
  match l with
  | [] => Some []
  | a :: t => match f a, map_opt f t with
              | Some b, Some bs => Some (b :: bs)
              | _, _ => None
              end
  end.

(* start-up code: `jp 0113h` at 0100h and the opcode 21h (ld hl,nn) at 011Fh *)
Definition startup_ok (img : list Z) : bool :=
  match img with
  | 195 :: 19 :: 1 :: _ => match nth_error img LD_HL_OFF with Some 33 => true | _ => false end
  | _ => false
  end.

Definition test_pointers (img : list Z) : option (list Z) :=
  if startup_ok img then
    match word_at img (LOAD + Z.of_nat LD_HL_OFF + 1) with
    | Some tests => walk (length img) img tests
    | None => None
    end
  else None.

Definition record_at (img : list Z) (p : Z) : option zcase :=
  match from_addr img p with Some l => decode_case l | None => None end.

Definition parse_image (img : list Z) : option (list zcase) :=
  match test_pointers img with
  | Some ps => map_opt (record_at img) ps
  | None => None
  end.

(* the raw 65 bytes (mask, vectors, crc) of every record, for the byte-for-byte statement *)
Definition raw_fixed_at (img : list Z) (p : Z) : option (list Z) :=
  match from_addr img p with
  | Some l => match split_at 65 l with Some (a, _) => Some a | None => None end
  | None => None
  end.

Definition image_fixed_bytes (img : list Z) : option (list (list Z)) :=
  match test_pointers img with
  | Some ps => map_opt (raw_fixed_at img) ps
  | None => None
  end.

(* ---------------------------------------------------------------- well-formedness of a table entry *)
Definition status_ok (s : zstatus) : Prop :=
  byte_ok (inst0 s) /\ byte_ok (inst1 s) /\ byte_ok (inst2 s) /\ byte_ok (inst3 s) /\
  word_ok (memop s) /\ word_ok (riy s) /\ word_ok (rix s) /\ word_ok (rhl s) /\
  word_ok (rde s) /\ word_ok (rbc s) /\ byte_ok (flags s) /\ byte_ok (accum s) /\ word_ok (rsp s).

Definition desc_ok (d : list Z) : Prop :=
  ~ In DOLLAR d /\
  match d with [] => True | a :: _ => a <> DOT end /\
  match rev d with [] => True | a :: _ => a <> DOT end.

Definition case_ok (c : zcase) : Prop :=
  byte_ok (cmask c) /\ status_ok (cbase c) /\ status_ok (cinc c) /\ status_ok (cshift c) /\
  0 <= ccrc c < 4294967296 /\ desc_ok (cdesc c).

(* boolean versions, used to check the generated tables by computation *)
Definition byte_okb (b : Z) : bool := (0 <=? b) && (b <? 256).
Definition word_okb (b : Z) : bool := (0 <=? b) && (b <? 65536).
Definition status_okb (s : zstatus) : bool :=
  byte_okb (inst0 s) && byte_okb (inst1 s) && byte_okb (inst2 s) && byte_okb (inst3 s) &&
  word_okb (memop s) && word_okb (riy s) && word_okb (rix s) && word_okb (rhl s) &&
  word_okb (rde s) && word_okb (rbc s) && byte_okb (flags s) && byte_okb (accum s) && word_okb (rsp s).
Definition no_dot_head (d : list Z) : bool :=
  match d with [] => true | a :: _ => negb (a =? DOT) end.
Definition desc_okb (d : list Z) : bool :=
  forallb (fun b => negb (b =? DOLLAR)) d && no_dot_head d && no_dot_head (rev d).
Definition case_okb (c : zcase) : bool :=
  byte_okb (cmask c) && status_okb (cbase c) && status_okb (cinc c) && status_okb (cshift c) &&
  ((0 <=? ccrc c) && (ccrc c <? 4294967296)) && desc_okb (cdesc c).
