(* Props/C12.v -- property C12: Step and Run are total: no input makes the emulator panic or hang.
   * Termination of Step: every function go2coq generates from the Go source is a non-recursive Gallina Definition
     (the translator refuses loops, recursion, goroutines outside Run), accepted by Coq: Step is a total function.
   * No panic: Go can panic in Step only through indexing/nil dereference; go2coq models each such site by an EvPanic
     event.  Step_ok shows Step = spec_step for EVERY well-formed state -- any IM value, PC/SP anywhere, any pending
     request (any type, empty or long data) -- and spec_step has a single place where EvPanic could be logged: the
     index into the mode-0 overlay.  C12_overlay_index_in_range shows that index is always in range, for every PC
     (incl. 0xFFFF, where the overlay range wraps and is empty) and every non-empty data length.
   * Unsupported opcodes are consumed: they decode to INVALID, which only logs a warning.
   * Short memories / nil IO: the Memory model returns arbitrary bytes (no law), the IO-absent case is part of the state
     (C15 covers the bundled types' own bounds).  Run returns once its program halts: C08. *)
From Z80V Require Import Proofs.SpecFacts Proofs.Iter.

Theorem C12_Step_total_and_specified : forall cpu, WF cpu -> Step cpu = spec_step impl_unspec cpu.
Proof. exact Step_ok. Qed.
Print Assumptions C12_Step_total_and_specified.
Theorem C12_overlay_index_in_range : forall pc data a, is16 pc -> is16 a -> data <> [] ->
  let d := im0_overlay pc data in
  (a <? im0data_start d) || (a >? im0data_end d) = false ->
  in_range (u16 (a - im0data_start d)) (im0data_data d) = true.
Proof. exact overlay_index_in_range. Qed.
Print Assumptions C12_overlay_index_in_range.
Theorem C12_overlay_read_never_panics : forall w pc data a, is16 pc -> is16 a -> data <> [] ->
  trace (fst (wget w (Im0Mem (im0_overlay pc data)) a)) = trace w \/
  exists v, trace (fst (wget w (Im0Mem (im0_overlay pc data)) a)) = EvRd a v :: trace w.
Proof. exact overlay_read_no_panic. Qed.
Print Assumptions C12_overlay_read_never_panics.
(* requests with no data in mode 0 / 2, and any mode value outside 0..2, are handled without touching Data *)
Theorem C12_degenerate_requests : forall u cpu t,
  try_interrupt u (s_IM cpu 0) (mk_Interrupt (Z.pos t) []) = (if g_IFF1 cpu then Some (s_IM cpu 0) else None) /\
  try_interrupt u (s_IM cpu 2) (mk_Interrupt (Z.pos t) []) = (if g_IFF1 cpu then Some (s_IM cpu 2) else None) /\
  try_interrupt u (s_IM cpu (-1)) (mk_Interrupt (Z.pos t) []) = None /\
  try_interrupt u (s_IM cpu 3) (mk_Interrupt (Z.pos t) []) = None.
Proof. exact degenerate_requests. Qed.
Print Assumptions C12_degenerate_requests.
(* an unsupported opcode is consumed: the bytes are fetched, a warning is logged, nothing else changes *)
Theorem C12_invalid_is_consumed : forall u m cpu, exec u m INVALID cpu = warnf cpu.
Proof. reflexivity. Qed.
Print Assumptions C12_invalid_is_consumed.
Theorem C12_unimplemented_decode_to_invalid :
  (count_impl decode_ed, count_impl decode_idx, count_impl decode_idxcb) = (58, 151, 32).
Proof. vm_compute. reflexivity. Qed.
Print Assumptions C12_unimplemented_decode_to_invalid.

(* ---- the whole statement: no Go run-time panic in any number of Steps ----
   EvPanic is the event go2coq emits wherever Go would panic (index out of range, nil dereference). *)
Theorem C12_no_panic_ever : forall n cpu, WF cpu -> g_Memory cpu = UserMem ->
  npanics (trace (g_W (iter n cpu))) = npanics (trace (g_W cpu)).
Proof. exact iter_no_panic. Qed.
Print Assumptions C12_no_panic_ever.
(* one step of the specification, for every safe memory (the user's, or the mode-0 overlay at any PC with any non-empty
   data) and every pending request *)
Theorem C12_step_no_panic : forall u cpu, is16 (g_PC cpu) -> mem_safe (g_Memory cpu) ->
  npanics (trace (g_W (spec_step u cpu))) = npanics (trace (g_W cpu)).
Proof. exact spec_step_no_panic. Qed.
Print Assumptions C12_step_no_panic.
Theorem C12_overlay_is_safe : forall pc data, is16 pc -> data <> [] -> mem_safe (Im0Mem (im0_overlay pc data)).
Proof. exact overlay_safe. Qed.
Print Assumptions C12_overlay_is_safe.
(* Step keeps every field within its Go type, so the hypothesis WF of every theorem here holds along any execution *)
Theorem C12_states_stay_well_formed : forall n cpu, WF cpu -> WF (iter n cpu).
Proof. exact iter_WF. Qed.
Print Assumptions C12_states_stay_well_formed.
Example C12_premises_hold : WF cpu0 /\ g_Memory cpu0 = UserMem.
Proof. split; [exact cpu0_WF | reflexivity]. Qed.
