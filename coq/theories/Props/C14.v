(* Props/C14.v -- property C14: the refresh register counts opcode fetches; I and bit 7 of R change only by LD.
   The specification's step (which the real code equals, C14_tie) is: one M1 fetch per opcode byte -- one for an
   unprefixed instruction, two for CB/ED/DD/FD forms, two or three for DDCB/FDCB (this project: three) -- each ticking
   R's low seven bits; operand fetches do not tick; no instruction other than LD I,A / LD R,A writes I or R. *)
From Z80V Require Import Proofs.SpecFacts Proofs.SpecAll Proofs.Refresh Proofs.Block Proofs.BlockRefresh Proofs.Iter Proofs.Halted.

Theorem C14_tie : forall cpu, WF cpu -> Step cpu = spec_step impl_unspec cpu.
Proof. exact Step_ok. Qed.
Print Assumptions C14_tie.
(* an opcode fetch: I unchanged, R ticked; an operand fetch: neither changes *)
Theorem C14_opcode_fetch_ticks_R : forall cpu, g_IR (fst (fetch_m1 cpu)) = mk_Register (g_IR_Hi cpu) (r_tick (g_IR_Lo cpu)).
Proof. exact fetch_m1_ir. Qed.
Print Assumptions C14_opcode_fetch_ticks_R.
Theorem C14_operand_fetch_does_not : forall cpu, g_IR (fst (fetch8 cpu)) = g_IR cpu.
Proof. exact fetch8_ir. Qed.
Print Assumptions C14_operand_fetch_does_not.
(* the tick: low seven bits + 1 modulo 128 (0x7F wraps to 0x00), bit 7 kept -- for all 256 values of R *)
Theorem C14_tick : forall r, is8 r -> Z.testbit (r_tick r) 7 = Z.testbit r 7 /\ Z.land (r_tick r) 127 = (Z.land r 127 + 1) mod 128.
Proof. exact r_tick_bits. Qed.
Print Assumptions C14_tick.
(* the fetch formula of the real code is this tick, for all 256 values *)
Theorem C14_go_formula : forall r, is8 r -> Z.lor (Z.land r 128) (Z.land (u8 (r + 1)) 127) = r_tick r.
Proof. exact r_tick_ok. Qed.
Print Assumptions C14_go_formula.
(* executing an instruction (after its opcode bytes have been fetched) leaves I and R alone, except LD I,A / LD R,A *)
Theorem C14_only_ld_writes_I_R : forall u m i cpu, writes_ir i = false -> g_IR (exec u m i cpu) = g_IR cpu.
Proof. exact exec_keeps_ir. Qed.
Print Assumptions C14_only_ld_writes_I_R.
Theorem C14_idxcb_keeps_I_R : forall u m d i cpu, g_IR (exec_idxcb u m d i cpu) = g_IR cpu.
Proof. exact exec_idxcb_keeps_ir. Qed.
Print Assumptions C14_idxcb_keeps_I_R.
Theorem C14_ld_i_r : forall u m cpu, exec u m LD_I_A cpu = s_IR_Hi cpu (get_A cpu) /\ exec u m LD_R_A cpu = s_IR_Lo cpu (get_A cpu).
Proof. intros; split; reflexivity. Qed.
Print Assumptions C14_ld_i_r.
(* how many opcode fetches: the structure of step_instr (1 / 2 / 2-or-3); this project ticks three times for DDCB/FDCB *)
Theorem C14_fetch_structure : forall u cpu,
  step_instr u cpu =
  (let '(cpu1, c0) := fetch_m1 cpu in
   match decode_main c0 with
   | PREFIX_CB => let '(cpu2, c1) := fetch_m1 cpu1 in exec u MHL (decode_cb c1) cpu2
   | PREFIX_ED => let '(cpu2, c1) := fetch_m1 cpu1 in exec u MHL (decode_ed c1) cpu2
   | PREFIX_DD => step_idx u MIX cpu1
   | PREFIX_FD => step_idx u MIY cpu1
   | i => exec u MHL i cpu1
   end) /\ u_cbidx_ticks impl_unspec = true.
Proof. intros. split; [reflexivity | exact impl_ticks]. Qed.
Print Assumptions C14_fetch_structure.
(* LD A,R / LD A,I: the current value (after the instruction's own fetches: both opcode bytes precede exec),
   S Z from it, H = N = 0, P/V = IFF2, C preserved, bits 5,3 from it *)
Theorem C14_ld_a_r : forall u m cpu,
  exec u m LD_A_R cpu = set_F (set_A cpu (g_IR_Lo cpu)) (ldair_flags (g_IR_Lo cpu) (g_IFF2 cpu) (get_F cpu)) /\
  exec u m LD_A_I cpu = set_F (set_A cpu (g_IR_Hi cpu)) (ldair_flags (g_IR_Hi cpu) (g_IFF2 cpu) (get_F cpu)).
Proof. intros; split; reflexivity. Qed.
Print Assumptions C14_ld_a_r.
Theorem C14_ld_a_r_flags : forall v (i : bool) f, is8 v -> is8 f ->
  let r := ldair_flags v i f in
  Z.testbit r 7 = Z.testbit v 7 /\ Z.testbit r 6 = (v =? 0) /\ Z.testbit r 5 = Z.testbit v 5 /\ Z.testbit r 4 = false /\
  Z.testbit r 3 = Z.testbit v 3 /\ Z.testbit r 2 = i /\ Z.testbit r 1 = false /\ Z.testbit r 0 = Z.testbit f 0.
Proof. exact ldair_bits. Qed.
Print Assumptions C14_ld_a_r_flags.
Theorem C14_go_flag_helper : forall cpu d, is8 d -> is8 (g_AF_Lo cpu) ->
  updateFlagIR cpu d = s_AF_Lo cpu (ldair_flags d (g_IFF2 cpu) (g_AF_Lo cpu)).
Proof. exact updateFlagIR_ok. Qed.
Print Assumptions C14_go_flag_helper.

(* ---- a whole instruction step: R advances by exactly the number of opcode fetches of the instruction executed
   (fetched: which instruction, how many M1 fetches -- 1 unprefixed, 2 for CB/ED/DD/FD, 3 for DDCB/FDCB in this project),
   I and the rest are untouched, unless that instruction is LD I,A / LD R,A ---- *)
Theorem C14_step_refresh : forall u cpu, writes_ir (fst (fetched u cpu)) = false ->
  g_IR_Hi (step_instr u cpu) = g_IR_Hi cpu /\ g_IR_Lo (step_instr u cpu) = ticks (snd (fetched u cpu)) (g_IR_Lo cpu).
Proof. exact step_instr_refresh. Qed.
Print Assumptions C14_step_refresh.
Theorem C14_ticks : forall n r, is8 r ->
  Z.testbit (ticks n r) 7 = Z.testbit r 7 /\ Z.land (ticks n r) 127 = (Z.land r 127 + Z.of_nat n) mod 128.
Proof. exact ticks_bits. Qed.
Print Assumptions C14_ticks.
(* a repeating block instruction re-executes its two fetches on every repetition, a halted CPU its one fetch on every
   Step: both leave PC on the instruction (C09_one_element_per_step, C07_halt_keeps_pc), so every further Step is
   again a step_instr from that PC and C14_step_refresh applies to each of them *)
Theorem C14_generated_steps : forall n cpu, WF cpu -> iter n cpu = spec_iter impl_unspec n cpu.
Proof. exact iter_ok. Qed.
Print Assumptions C14_generated_steps.

(* ---- "on every Step spent halted", for ANY number of Steps of the generated code: a CPU whose PC addresses a HALT
   opcode, with no request pending, keeps every register, flag, flip-flop, the mode, I, SP, PC and memory (halted_same),
   its R has made exactly n ticks (C14_ticks: bit 7 kept, low seven bits + n mod 128), the halted indication is set ---- *)
Theorem C14_halted_steps : forall n cpu, WF cpu -> g_Memory cpu = UserMem -> g_Interrupt cpu = None ->
  u8 (ram (g_W cpu) (g_PC cpu)) = 118 ->
  let cpu' := iter n cpu in
  halted_same cpu cpu' /\ g_IR_Lo cpu' = ticks n (g_IR_Lo cpu) /\ ((1 <= n)%nat -> g_HALT cpu' = true).
Proof. exact halted_steps_gen. Qed.
Print Assumptions C14_halted_steps.
Example C14_halted_premises_hold :
  WF halt_demo /\ g_Memory halt_demo = UserMem /\ g_Interrupt halt_demo = None /\ u8 (ram (g_W halt_demo) (g_PC halt_demo)) = 118.
Proof. exact halt_demo_premises. Qed.

(* ---- "again on every repetition of a block instruction": every Step of the generated code spent on LDIR/LDDR (on_ldxr: PC addresses
   ED B0 / ED B8, no request pending) fetches the two opcode bytes again -- R makes exactly two ticks, I is kept ---- *)
Theorem C14_block_repetition_ticks_twice : forall dec cpu, WF cpu -> on_ldxr dec cpu ->
  g_IR_Hi (Step cpu) = g_IR_Hi cpu /\ g_IR_Lo (Step cpu) = r_tick (r_tick (g_IR_Lo cpu)).
Proof. exact ldxr_repetition_ticks_twice_gen. Qed.
Print Assumptions C14_block_repetition_ticks_twice.
