(* C15 - the bundled memory and port types behave as plain byte stores with safe bounds.
   Only restatements of theorems proved in Memio/Proofs.v. *)
From Coq Require Import ZArith List Bool Lia.
From Z80V Require Import Memio.Model Memio.Proofs.
Import ListNotations.
Open Scope Z_scope.

Theorem C15_refinement : forall ops, Forall op_ok ops ->
  Forall2 out_match (snd (exec init ops)) (snd (aexec ainit ops)).
Proof. exact refinement. Qed.
Print Assumptions C15_refinement.

Theorem C15_refinement_from_any_state : forall ops s a, wf s -> R s a -> Forall op_ok ops ->
  R (fst (exec s ops)) (fst (aexec a ops)) /\
  Forall2 out_match (snd (exec s ops)) (snd (aexec a ops)).
Proof. exact sim_exec. Qed.
Print Assumptions C15_refinement_from_any_state.

Theorem C15_invariant_reachable : forall ops, wf (run init ops).
Proof. exact reachable_wf. Qed.
Print Assumptions C15_invariant_reachable.

Theorem C15_slice_out_of_range : forall s h a x, s_len h <= a ->
  sl_get s h a = OByte 0 /\ sl_set s h a x = (s, OUnit).
Proof. exact slice_out_of_range. Qed.
Print Assumptions C15_slice_out_of_range.

Theorem C15_slice_no_panic : forall s h a x, 0 <= a ->
  sl_get s h a <> OPanic /\ snd (sl_set s h a x) <> OPanic.
Proof. exact slice_no_panic. Qed.
Print Assumptions C15_slice_no_panic.

Theorem C15_dm_get_set : forall s v w h h' a b x, wf s ->
  getv s v = Some (VDm h) -> getv s w = Some (VDm h') ->
  0 <= a < s_len h -> 0 <= b < s_len h' ->
  snd (step (fst (step s (DmSet v a x))) (DmGet w b)) =
  if Nat.eqb (s_cell h') (s_cell h) && (s_off h' + b =? s_off h + a)
  then OByte x else snd (step s (DmGet w b)).
Proof. exact dm_get_set. Qed.
Print Assumptions C15_dm_get_set.

Theorem C15_io_in_out : forall s v w h h' a b x, wf s ->
  getv s v = Some (VIo h) -> getv s w = Some (VIo h') ->
  0 <= a < s_len h -> 0 <= b < s_len h' ->
  snd (step (fst (step s (IoOut v a x))) (IoIn w b)) =
  if Nat.eqb (s_cell h') (s_cell h) && (s_off h' + b =? s_off h + a)
  then OByte x else snd (step s (IoIn w b)).
Proof. exact io_in_out. Qed.
Print Assumptions C15_io_in_out.

Theorem C15_dm_make_zero : forall s n a, 0 <= n -> 0 <= a ->
  let r := step s (DmMake n) in
  snd r = ONew (length (vars s)) /\
  snd (step (fst r) (DmGet (length (vars s)) a)) = OByte 0.
Proof. exact dm_make_zero. Qed.
Print Assumptions C15_dm_make_zero.

Theorem C15_io_make_zero : forall s n a, 0 <= n -> 0 <= a ->
  let r := step s (IoMake n) in
  snd r = ONew (length (vars s)) /\
  snd (step (fst r) (IoIn (length (vars s)) a)) = OByte 0.
Proof. exact io_make_zero. Qed.
Print Assumptions C15_io_make_zero.

Theorem C15_mm_get_set : forall s v w c m' a b x, wf s ->
  getv s v = Some (VMm (Some c)) -> getv s w = Some (VMm m') -> 0 <= a -> 0 <= b ->
  snd (step (fst (step s (MmSet v a x))) (MmGet w b)) =
  if (match m' with Some c' => Nat.eqb c' c | None => false end) && (b =? a)
  then OByte x else snd (step s (MmGet w b)).
Proof. exact mm_get_set. Qed.
Print Assumptions C15_mm_get_set.

Theorem C15_mm_default : forall s a,
  snd (step (fst (step s MmNew)) (MmGet (length (vars s)) a)) = OByte 199 /\
  snd (step (fst (step s MmNil)) (MmGet (length (vars s)) a)) = OByte 199.
Proof. exact mm_new_default. Qed.
Print Assumptions C15_mm_default.

Theorem C15_mm_nil_ops : forall s v a x d, getv s v = Some (VMm None) ->
  step s (MmGet v a) = (s, OByte 199) /\
  step s (MmSet v a x) = (s, OPanic) /\
  step s (MmPut v a (x :: d)) = (s, OPanic) /\
  step s (MmPut v a []) = push s (VMm None) /\
  step s (MmClear v) = (s, OUnit).
Proof. exact mm_nil_ops. Qed.
Print Assumptions C15_mm_nil_ops.

Theorem C15_dm_put_as_sets : forall s v h a d, wf s -> getv s v = Some (VDm h) ->
  0 <= a -> a + zlen d <= s_len h ->
  step s (DmPut v a d) = push (run s (dm_sets v a d)) (VDm h).
Proof. exact dm_put_as_sets. Qed.
Print Assumptions C15_dm_put_as_sets.

Theorem C15_dm_put_beyond : forall s v h a d, getv s v = Some (VDm h) -> 0 <= a ->
  (a + zlen d <= s_cap h ->
     step s (DmPut v a d) =
     push (set_bcell s (s_cell h) (tcopy (bcell s (s_cell h)) (s_off h + a) d)) (VDm h)) /\
  (s_cap h < a + zlen d -> step s (DmPut v a d) = (s, OPanic)).
Proof. exact dm_put_beyond. Qed.
Print Assumptions C15_dm_put_beyond.

Theorem C15_mm_put_as_sets : forall s v c a d, wf s -> getv s v = Some (VMm (Some c)) ->
  step s (MmPut v a d) = push (run s (mm_sets v a d)) (VMm (Some c)).
Proof. exact mm_put_as_sets. Qed.
Print Assumptions C15_mm_put_as_sets.

Theorem C15_mm_clear : forall s v c, wf s -> getv s v = Some (VMm (Some c)) ->
  let s' := fst (step s (MmClear v)) in
  snd (step s (MmClear v)) = OUnit /\
  (forall k, contents s' c k = None) /\
  (forall w a, getv s w = Some (VMm (Some c)) -> step s' (MmGet w a) = (s', OByte 199)) /\
  (forall d, d <> c -> mcell s' d = mcell s d) /\ bytes s' = bytes s /\ vars s' = vars s.
Proof. exact mm_clear_spec. Qed.
Print Assumptions C15_mm_clear.

Theorem C15_mm_equal : forall s v w c c', wf s ->
  getv s v = Some (VMm (Some c)) -> getv s w = Some (VMm (Some c')) ->
  exists b, step s (MmEqual v (EVar w)) = (s, OBool b) /\
            (b = true <-> forall k, 0 <= k -> contents s c k = contents s c' k).
Proof. exact mm_equal_spec. Qed.
Print Assumptions C15_mm_equal.

Theorem C15_mm_equal_other : forall s v m, getv s v = Some (VMm m) ->
  step s (MmEqual v ENilIface) = (s, OBool false) /\
  (forall w m', getv s w = Some (VMm m') -> step s (MmEqual v (ERawOf w)) = (s, OBool false)) /\
  (forall w h, getv s w = Some (VDm h) \/ getv s w = Some (VIo h) ->
               step s (MmEqual v (EVar w)) = (s, OBool false)) /\
  (forall w m', getv s w = Some (VMm m') ->
     match m, m' with
     | None, None => step s (MmEqual v (EVar w)) = (s, OBool true)
     | None, Some _ | Some _, None => step s (MmEqual v (EVar w)) = (s, OBool false)
     | Some _, Some _ => True
     end).
Proof. exact mm_equal_other. Qed.
Print Assumptions C15_mm_equal_other.

Theorem C15_frame : forall ops s,
  (forall c, (c < length (bytes s))%nat -> avoids (true, c) s ops -> bcell (run s ops) c = bcell s c) /\
  (forall c, (c < length (maps s))%nat -> avoids (false, c) s ops -> mcell (run s ops) c = mcell s c).
Proof. exact frame_run. Qed.
Print Assumptions C15_frame.

Theorem C15_mm_clone : forall s v c, wf s -> getv s v = Some (VMm (Some c)) ->
  let s1 := fst (step s (MmClone v)) in
  let c' := length (maps s) in
  snd (step s (MmClone v)) = ONew (length (vars s)) /\
  getv s1 (length (vars s)) = Some (VMm (Some c')) /\
  c' <> c /\
  (forall k, contents s1 c' k = contents s c k) /\
  (forall d, (d < c')%nat -> mcell s1 d = mcell s d) /\
  (forall w d, getv s w = Some (VMm (Some d)) -> d <> c') /\
  (forall ops, avoids (false, c') s1 ops -> mcell (run s1 ops) c' = mcell s c) /\
  (forall ops, avoids (false, c) s1 ops -> mcell (run s1 ops) c = mcell s c).
Proof. exact mm_clone_spec. Qed.
Print Assumptions C15_mm_clone.

Theorem C15_mm_clone_nil : forall s v, getv s v = Some (VMm None) ->
  let s1 := fst (step s (MmClone v)) in
  snd (step s (MmClone v)) = ONew (length (vars s)) /\
  getv s1 (length (vars s)) = Some (VMm (Some (length (maps s)))) /\
  (forall k, contents s1 (length (maps s)) k = None).
Proof. exact mm_clone_nil. Qed.
Print Assumptions C15_mm_clone_nil.
