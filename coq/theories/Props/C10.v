(* Props/C10.v -- property C10 (PARTIAL): execution is deterministic, captured by States + memory, isolated per CPU.
   What is proved: the generated Step is a closed Gallina function of the CPU record (go2coq refuses any read or write
   of package-level state, closures, hidden globals), so its result depends on nothing else; it is the specification's
   step (C10_tie), which reads neither the halted indication nor the break points.  That the REAL code has no state
   outside the record (no hidden field that a snapshot of States would miss, no cache, no global) is what the
   correspondence run checks on multi-Step histories and what the twin-CPU harness checks at every boundary.
   NOT expressible here: goroutine interleavings and the race detector (harness, thorough tier). *)
From Z80V Require Import Proofs.SpecFacts Proofs.RunProofs Proofs.Iter.

Theorem C10_tie : forall cpu, WF cpu -> Step cpu = spec_step impl_unspec cpu.
Proof. exact Step_ok. Qed.
Print Assumptions C10_tie.
(* two CPUs with equal state stay equal Step for Step *)
Theorem C10_equal_states_stay_equal : forall n cpu cpu', cpu = cpu' -> iter n cpu = iter n cpu'.
Proof. intros n cpu cpu' ->. reflexivity. Qed.
Print Assumptions C10_equal_states_stay_equal.
(* the specification's step never looks at the halted indication or the break points when no request is pending:
   it only writes HALT (HALT instruction) *)
Theorem C10_fetch_ignores_halt_and_breakpoints : forall cpu h b,
  fst (fetch_m1 (s_BreakPoints (s_HALT cpu h) b)) = s_BreakPoints (s_HALT (fst (fetch_m1 cpu)) h) b /\
  snd (fetch_m1 (s_BreakPoints (s_HALT cpu h) b)) = snd (fetch_m1 cpu).
Proof. intros. split; reflexivity. Qed.
Print Assumptions C10_fetch_ignores_halt_and_breakpoints.

(* well-formedness is an invariant of Step, so the tie extends to any number of Steps *)
Theorem C10_steps_are_spec_steps : forall n cpu, WF cpu -> iter n cpu = spec_iter impl_unspec n cpu /\ WF (iter n cpu).
Proof. intros n cpu H. split; [apply iter_ok, H | apply iter_WF, H]. Qed.
Print Assumptions C10_steps_are_spec_steps.
(* "captured by States + memory": the fields of the CPU record that are not machine state -- the halted indication and
   the break points -- never influence what any number of Steps compute: erasing them first changes nothing else *)
Theorem C10_hidden_fields_never_matter : forall n cpu, WF cpu -> erase (iter n (erase cpu)) = erase (iter n cpu).
Proof. exact iter_erase. Qed.
Print Assumptions C10_hidden_fields_never_matter.
Theorem C10_step_ignores_halt_and_breakpoints : forall u cpu, erase (spec_step u (erase cpu)) = erase (spec_step u cpu).
Proof. exact spec_step_erase. Qed.
Print Assumptions C10_step_ignores_halt_and_breakpoints.
(* the memory object, the IO object and the handlers are never replaced by an instruction *)
Theorem C10_environment_is_kept : forall u m i cpu, let cpu' := exec u m i cpu in
  g_Interrupt cpu' = g_Interrupt cpu /\ g_Memory cpu' = g_Memory cpu /\ g_IO cpu' = g_IO cpu /\
  g_RETIHandler cpu' = g_RETIHandler cpu /\ g_RETNHandler cpu' = g_RETNHandler cpu /\ g_BreakPoints cpu' = g_BreakPoints cpu.
Proof. exact exec_keeps_env. Qed.
Print Assumptions C10_environment_is_kept.
