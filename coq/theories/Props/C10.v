(* Props/C10.v -- property C10 (PARTIAL): execution is deterministic, captured by States + memory, isolated per CPU.
   What is proved: the generated Step is a closed Gallina function of the CPU record (go2coq refuses any read or write
   of package-level state, closures, hidden globals), so its result depends on nothing else; it is the specification's
   step (C10_tie), which reads neither the halted indication nor the break points.  That the REAL code has no state
   outside the record (no hidden field that a snapshot of States would miss, no cache, no global) is what the
   correspondence run checks on multi-Step histories and what the twin-CPU harness checks at every boundary.
   NOT expressible here: goroutine interleavings and the race detector (harness, thorough tier). *)
From Z80V Require Import Proofs.SpecFacts Proofs.RunProofs.

Theorem C10_tie : forall cpu, WF cpu -> Step cpu = spec_step impl_unspec cpu.
Proof. exact Step_ok. Qed.
Print Assumptions C10_tie.
(* two CPUs with equal state stay equal Step for Step *)
Theorem C10_equal_states_stay_equal : forall n cpu cpu', cpu = cpu' -> iter n cpu = iter n cpu'.
Proof. intros n cpu cpu' ->. reflexivity. Qed.
Print Assumptions C10_equal_states_stay_equal.
(* the specification's step never looks at the halted indication or the break points when no request is pending:
   it only writes HALT (HALT instruction) *)
Theorem C10_fetch_ignores_halt_and_breakpoints : forall cpu h b,
  fst (fetch_m1 (s_BreakPoints (s_HALT cpu h) b)) = s_BreakPoints (s_HALT (fst (fetch_m1 cpu)) h) b /\
  snd (fetch_m1 (s_BreakPoints (s_HALT cpu h) b)) = snd (fetch_m1 cpu).
Proof. intros. split; reflexivity. Qed.
Print Assumptions C10_fetch_ignores_halt_and_breakpoints.
