(* Props/C11.v -- property C11: FD-prefixed instructions do to IY exactly what DD-prefixed ones do to IX.
   Stated directly between the two GENERATED halves of the dispatch (after the prefix byte has been fetched):
   running the FD table from a state with IX and IY exchanged gives the DD table's result with IX and IY exchanged
   back -- registers, flags, memory and the complete ordered access log included; neither table reads or writes the
   other index register.  All 256 second bytes, incl. CB (the DDCB/FDCB tables with their displacement and fourth byte). *)
From Z80V Require Import Proofs.SpecFacts Proofs.SpecAll Proofs.Mirror.

Theorem C11_fd_mirrors_dd : forall c c0 c0' cpu, is8 c -> WF cpu ->
  executeOne_fd (swapXY cpu) c0 c c = swapXY (executeOne_dd cpu c0' c c).
Proof. exact fd_mirrors_dd. Qed.
Print Assumptions C11_fd_mirrors_dd.
Theorem C11_dd_ignores_iy : forall c c0 cpu v, is8 c -> is16 v -> WF cpu ->
  executeOne_dd (s_IY cpu v) c0 c c = s_IY (executeOne_dd cpu c0 c c) v.
Proof. exact dd_ignores_iy. Qed.
Print Assumptions C11_dd_ignores_iy.
Theorem C11_fd_ignores_ix : forall c c0 cpu v, is8 c -> is16 v -> WF cpu ->
  executeOne_fd (s_IX cpu v) c0 c c = s_IX (executeOne_fd cpu c0 c c) v.
Proof. exact fd_ignores_ix. Qed.
Print Assumptions C11_fd_ignores_ix.
(* the specification-level statement, for every instruction form *)
Theorem C11_spec_mirror : forall u i cpu, exec u MIY i (swapXY cpu) = swapXY (exec u MIX i cpu).
Proof. exact exec_swap. Qed.
Print Assumptions C11_spec_mirror.
