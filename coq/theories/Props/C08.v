(* Props/C08.v -- property C08: Run is exactly repeated Step and stops only at a break point or an executed HALT.
   Run / Run_iter / Run_enter: Gen/Run.v (fixed text whose shape go2coq checks against cpu.go statement by statement);
   Step is the generated Step. *)
From Z80V Require Import Proofs.SpecFacts Proofs.Refresh Proofs.Halted Proofs.RunHalted Proofs.RunProofs.

(* with s_j = the entry state (HALT indication cleared) advanced by j Steps: if n+1 >= 1 is the first index at which
   PC is a break point or a HALT was executed, Run returns exactly s_(n+1) -- ErrBreakPoint if PC is a break point
   (the break point wins over HALT), nil otherwise; never earlier, never later, at least one Step *)
Theorem C08_Run_is_repeated_Step : forall n fuel cpu, (n < fuel)%nat ->
  let s := fun j => iter j (Run_enter cpu) in
  (forall j, (1 <= j <= n)%nat -> stops (s j) = false) -> stops (s (S n)) = true ->
  Run fuel never cpu = Some (s (S n), result_of (s (S n))).
Proof. exact Run_is_repeated_Step. Qed.
Print Assumptions C08_Run_is_repeated_Step.
(* while neither has happened Run keeps running *)
Theorem C08_no_early_return : forall fuel k cpu, (forall j, (1 <= j <= fuel)%nat -> stops (iter j cpu) = false) ->
  Run_loop fuel never k cpu = None.
Proof. exact Run_loop_running. Qed.
Print Assumptions C08_no_early_return.
Theorem C08_stop_rule : forall cpu,
  stops cpu = (match g_BreakPoints cpu with Some l => inb (g_PC cpu) l | None => false end) || g_HALT cpu /\
  result_of cpu = (if match g_BreakPoints cpu with Some l => inb (g_PC cpu) l | None => false end then RunErrBreakPoint else RunNil).
Proof. intros; split; reflexivity. Qed.
Print Assumptions C08_stop_rule.
Theorem C08_nil_and_empty_breakpoints_agree : forall cpu, bp_hit (s_BreakPoints cpu (Some [])) = bp_hit (s_BreakPoints cpu None).
Proof. exact empty_breakpoints. Qed.
Print Assumptions C08_nil_and_empty_breakpoints_agree.
Theorem C08_stale_halt_discarded : forall cpu, g_HALT (Run_enter cpu) = false.
Proof. exact Run_enter_clears_halt. Qed.
Print Assumptions C08_stale_halt_discarded.

(* ---- calling Run again on a halted CPU: parked on a HALT opcode with no request pending, Run -- whatever the halted
   indication says on entry -- executes exactly one Step and returns: halted again at the same address, every register, flag,
   flip-flop, I, SP, PC and memory unchanged (halted_same), R one tick further; nil, or ErrBreakPoint if that address is a break point ---- *)
Theorem C08_run_again_on_halted : forall fuel cpu, (1 <= fuel)%nat -> WF cpu -> g_Memory cpu = UserMem -> g_Interrupt cpu = None ->
  u8 (ram (g_W cpu) (g_PC cpu)) = 118 ->
  let cpu' := Step (Run_enter cpu) in
  Run fuel never cpu = Some (cpu', if bp_hit cpu then RunErrBreakPoint else RunNil) /\
  halted_same cpu cpu' /\ g_HALT cpu' = true /\ g_IR_Lo cpu' = r_tick (g_IR_Lo cpu).
Proof. exact Run_again_on_halted. Qed.
Print Assumptions C08_run_again_on_halted.
Example C08_halted_premises_hold :
  WF halt_demo /\ g_Memory halt_demo = UserMem /\ g_Interrupt halt_demo = None /\ u8 (ram (g_W halt_demo) (g_PC halt_demo)) = 118.
Proof. exact halt_demo_premises. Qed.
