(* Props/C09.v -- property C09: block instructions transfer, search and count exactly as a whole operation.
   Proved here: what ONE Step of a block instruction does (one element; counters, pointers, PC, flags), for every state,
   and the repeat rule; C09_tie: the real code's Step is this specification.  The whole-operation statement
   (BC / B elements, 65536 / 256 when the counter starts at 0, overlapping ranges, final PC) is checked in the
   correspondence run by executing the real code to completion (up to 65,536 Steps) against the extracted model and,
   when something breaks, against a direct functional specification of the whole operation (checks/c09.py). *)
From Z80V Require Import Proofs.SpecFacts Proofs.Block Proofs.BlockFacts Proofs.Iter.

Theorem C09_tie : forall cpu, WF cpu -> Step cpu = spec_step impl_unspec cpu.
Proof. exact Step_ok. Qed.
Print Assumptions C09_tie.
(* a repeating form performs one element and then either stays on itself (PC rewound by its two bytes) or falls through;
   the non-repeating forms are exactly one element *)
Theorem C09_one_element_per_step : forall u m k dec rep cpu,
  exec u m (BLOCK k dec rep) cpu =
  let cpu' := block_step u k dec cpu in
  if rep && block_again k cpu' then s_PC cpu' (u16 (g_PC cpu' - 2)) else cpu'.
Proof. reflexivity. Qed.
Print Assumptions C09_one_element_per_step.
Theorem C09_single_forms_are_one_element : forall u m k dec cpu, exec u m (BLOCK k dec false) cpu = block_step u k dec cpu.
Proof. reflexivity. Qed.
Print Assumptions C09_single_forms_are_one_element.
(* the repeat rule: LDIR/LDDR until BC = 0; CPIR/CPDR until BC = 0 or a match (Z); INIR/INDR/OTIR/OTDR until B = 0 *)
Theorem C09_repeat_rule : forall cpu,
  block_again BLD cpu = negb (regw (g_BC cpu) =? 0) /\
  block_again BCP cpu = negb (regw (g_BC cpu) =? 0) && negb (Z.testbit (get_F cpu) 6) /\
  block_again BIN cpu = negb (g_BC_Hi cpu =? 0) /\ block_again BOUT cpu = negb (g_BC_Hi cpu =? 0).
Proof. intros; repeat split. Qed.
Print Assumptions C09_repeat_rule.
(* one LDI/LDD element: the byte at HL goes to DE, HL and DE step by +-1, BC by -1, all modulo 65536 *)
Theorem C09_ld_element : forall u (dec : bool) cpu, g_Memory cpu = UserMem ->
  let step := fun w : Z => if dec then u16 (w - 1) else u16 (w + 1) in
  let hl := regw (g_HL cpu) in let de := regw (g_DE cpu) in let bc := regw (g_BC cpu) in
  let cpu' := block_step u BLD dec cpu in
  g_HL cpu' = wreg (step hl) /\ g_DE cpu' = wreg (step de) /\ g_BC cpu' = wreg (u16 (bc - 1)) /\
  ram (g_W cpu') = upd (ram (g_W cpu)) de (u8 (ram (g_W cpu) hl)) /\ g_PC cpu' = g_PC cpu /\
  get_F cpu' = ldx_flags (get_A cpu) (u8 (ram (g_W cpu) hl)) (u16 (bc - 1)) (get_F cpu).
Proof. exact ld_element. Qed.
Print Assumptions C09_ld_element.
(* one CPI/CPD element *)
Theorem C09_cp_element : forall u (dec : bool) cpu, g_Memory cpu = UserMem ->
  let step := fun w : Z => if dec then u16 (w - 1) else u16 (w + 1) in
  let hl := regw (g_HL cpu) in let bc := regw (g_BC cpu) in
  let cpu' := block_step u BCP dec cpu in
  g_HL cpu' = wreg (step hl) /\ g_BC cpu' = wreg (u16 (bc - 1)) /\ ram (g_W cpu') = ram (g_W cpu) /\ get_A cpu' = get_A cpu /\
  get_F cpu' = cpx_flags (get_A cpu) (u8 (ram (g_W cpu) hl)) (u16 (bc - 1)) (get_F cpu).
Proof. exact cp_element. Qed.
Print Assumptions C09_cp_element.
(* the flags the repeat tests read: P/V = (BC-1 <> 0); CPI's Z = (A = (HL)) *)
Theorem C09_counter_flag : forall a v bc f, is8 a -> is8 v -> is8 f ->
  Z.testbit (ldx_flags a v bc f) 2 = negb (bc =? 0) /\ Z.testbit (cpx_flags a v bc f) 2 = negb (bc =? 0).
Proof. intros a v bc f Ha Hv Hf. split; [apply ldx_pv; assumption | apply cpx_pv; assumption]. Qed.
Print Assumptions C09_counter_flag.
(* one INI/IND/OUTI/OUTD element: B by -1 (mod 256), HL by +-1, the byte goes through port C *)
Theorem C09_io_element_counts : forall u (dec : bool) cpu, g_IO cpu = true -> g_Memory cpu = UserMem ->
  let step := fun w : Z => if dec then u16 (w - 1) else u16 (w + 1) in
  g_BC_Hi (block_step u BIN dec cpu) = u8 (g_BC_Hi cpu - 1) /\ g_HL (block_step u BIN dec cpu) = wreg (step (regw (g_HL cpu))) /\
  g_BC_Hi (block_step u BOUT dec cpu) = u8 (g_BC_Hi cpu - 1) /\ g_HL (block_step u BOUT dec cpu) = wreg (step (regw (g_HL cpu))).
Proof. exact io_element. Qed.
Print Assumptions C09_io_element_counts.

(* ---- LDIR / LDDR as a whole operation, any number of repetitions (induction over the elements), for the GENERATED Step ----
   n = BC, or 65,536 when BC = 0 (regw BC = u16 n covers both).  From a well-formed state with no request pending whose
   PC is on ED B0 (dec = false) / ED B8 (dec = true) in the user's memory, n Steps: perform the sequential byte-by-byte
   copy -- each element read after the previous one was written, so overlapping ranges behave as on the Z80 --,
   move HL and DE by n (modulo 65536), leave BC = 0, stay on the instruction for the first n-1 Steps (that is where an
   interrupt is accepted, C07) and end with PC behind it.  The copy must not overwrite the instruction's own two bytes. *)
Theorem C09_ldir_lddr_whole_operation : forall (dec : bool) (n : nat) cpu, WF cpu -> on_ldxr dec cpu ->
  1 <= Z.of_nat n <= 65536 -> regw (g_BC cpu) = u16 (Z.of_nat n) ->
  (forall j, (j < n)%nat -> biter dec j (regw (g_DE cpu)) <> g_PC cpu /\ biter dec j (regw (g_DE cpu)) <> inc16 (g_PC cpu)) ->
  let cpu' := iter n cpu in
  regw (g_HL cpu') = biter dec n (regw (g_HL cpu)) /\ regw (g_DE cpu') = biter dec n (regw (g_DE cpu)) /\
  regw (g_BC cpu') = 0 /\
  ram (g_W cpu') = copy dec n (ram (g_W cpu)) (regw (g_HL cpu)) (regw (g_DE cpu)) /\
  g_PC cpu' = u16 (g_PC cpu + 2) /\
  (forall k, (k < n)%nat -> g_PC (iter k cpu) = g_PC cpu).
Proof.
  intros dec n cpu H Hon Hn Hbc Hd. cbv zeta. rewrite iter_ok by exact H.
  destruct (ldxr_run impl_unspec dec n cpu H Hon Hn Hbc Hd) as (A & B & C & D & E & F).
  repeat split; try assumption. intros k Hk. rewrite iter_ok by exact H. apply F, Hk.
Qed.
Print Assumptions C09_ldir_lddr_whole_operation.
(* the pointers in closed form *)
Theorem C09_pointers_closed_form : forall (dec : bool) n w, is16 w ->
  biter dec n w = if dec then u16 (w - Z.of_nat n) else u16 (w + Z.of_nat n).
Proof. exact biter_closed. Qed.
Print Assumptions C09_pointers_closed_form.
(* the premises are satisfiable: LDIR at 0100h copying 3 bytes from 4000h to 5000h *)
Definition ldir_demo : CPU :=
  s_W (s_PC (s_BC (s_DE (s_HL cpu0 (wreg 16384)) (wreg 20480)) (wreg 3)) 256)
      (mk_World (fun a => if a =? 256 then 237 else if a =? 257 then 176 else 7) [] []).
Example C09_premises_hold :
  WF ldir_demo /\ on_ldxr false ldir_demo /\ regw (g_BC ldir_demo) = u16 (Z.of_nat 3) /\
  (forall j, (j < 3)%nat -> biter false j (regw (g_DE ldir_demo)) <> g_PC ldir_demo /\
                            biter false j (regw (g_DE ldir_demo)) <> inc16 (g_PC ldir_demo)).
Proof.
  split; [|split; [|split]].
  - cbv [WF WF_gpr WF_reg WF_mem WF_irq ldir_demo cpu0 wreg hi lo]; cbv_struct; unfold is8, is16; repeat split; try lia; vm_compute; intuition discriminate.
  - unfold on_ldxr. repeat split; vm_compute; reflexivity.
  - vm_compute. reflexivity.
  - intros j Hj. destruct j as [|[|[|j]]]; try lia; split; vm_compute; discriminate.
Qed.

(* ---- CPIR / CPDR as a whole operation, for the GENERATED Step: the search examines m elements -- the first m-1 differ
   from A, and either the m-th equals A or the counter is exhausted (m = n; n = BC, 65,536 for 0) --, then stops with
   HL moved by m, BC = n - m, Z set exactly when the last byte examined equals A, PC behind the instruction; memory is
   not written; until then PC stays on the instruction ---- *)
Theorem C09_cpir_cpdr_whole_operation : forall (dec : bool) (m : nat) (n : Z) cpu, WF cpu -> on_cpxr dec cpu ->
  1 <= Z.of_nat m <= n -> n <= 65536 -> regw (g_BC cpu) = u16 n ->
  (forall j, (S j < m)%nat -> u8 (ram (g_W cpu) (biter dec j (regw (g_HL cpu)))) <> get_A cpu) ->
  (Z.of_nat m = n \/ u8 (ram (g_W cpu) (biter dec (pred m) (regw (g_HL cpu)))) = get_A cpu) ->
  let cpu' := iter m cpu in
  regw (g_HL cpu') = biter dec m (regw (g_HL cpu)) /\ regw (g_BC cpu') = u16 (n - Z.of_nat m) /\
  ram (g_W cpu') = ram (g_W cpu) /\ get_A cpu' = get_A cpu /\
  Z.testbit (get_F cpu') 6 = (get_A cpu =? u8 (ram (g_W cpu) (biter dec (pred m) (regw (g_HL cpu))))) /\
  g_PC cpu' = u16 (g_PC cpu + 2) /\
  (forall k, (k < m)%nat -> g_PC (iter k cpu) = g_PC cpu).
Proof.
  intros dec m n cpu H Hon Hm Hn Hbc Hne Hl. cbv zeta. rewrite iter_ok by exact H.
  destruct (cpxr_run impl_unspec dec m n cpu H Hon Hm Hn Hbc Hne Hl) as (A & B & C & D & E & F & G).
  repeat split; try assumption. intros k Hk. rewrite iter_ok by exact H. apply G, Hk.
Qed.
Print Assumptions C09_cpir_cpdr_whole_operation.

(* ---- OTIR / OTDR and INIR / INDR as whole operations, for the GENERATED Step.  The counter is B alone (n = B, 256 for 0),
   the port is C.  OTIR/OTDR: the n memory bytes at HL, HL+-1, ... go to port C in that order (sent), nothing else is
   written to a port, memory is untouched.  INIR/INDR: the next n bytes the device supplies go to memory at HL, HL+-1, ...
   (fill) and are consumed from the device (skipn).  B ends 0, HL moved by n, PC stays on the instruction until the last
   element and ends behind it. ---- *)
Theorem C09_otir_otdr_whole_operation : forall (dec : bool) (n : nat) cpu, WF cpu -> on_ioxr (op2o dec) cpu ->
  1 <= Z.of_nat n <= 256 -> g_BC_Hi cpu = u8 (Z.of_nat n) ->
  let cpu' := iter n cpu in
  regw (g_HL cpu') = biter dec n (regw (g_HL cpu)) /\ g_BC_Hi cpu' = 0 /\ g_BC_Lo cpu' = g_BC_Lo cpu /\
  ram (g_W cpu') = ram (g_W cpu) /\
  couts (trace (g_W cpu')) = rev (map (fun v => (g_BC_Lo cpu, v)) (sent dec n (ram (g_W cpu)) (regw (g_HL cpu)))) ++ couts (trace (g_W cpu)) /\
  g_PC cpu' = u16 (g_PC cpu + 2) /\
  (forall k, (k < n)%nat -> g_PC (iter k cpu) = g_PC cpu).
Proof.
  intros dec n cpu H Hon Hn Hb. cbv zeta. rewrite iter_ok by exact H.
  destruct (otxr_run impl_unspec dec n cpu H Hon Hn Hb) as (A & B & C & D & E & F & G).
  repeat split; try assumption. intros k Hk. rewrite iter_ok by exact H. apply G, Hk.
Qed.
Print Assumptions C09_otir_otdr_whole_operation.
Theorem C09_inir_indr_whole_operation : forall (dec : bool) (n : nat) cpu, WF cpu -> on_ioxr (op2i dec) cpu ->
  1 <= Z.of_nat n <= 256 -> g_BC_Hi cpu = u8 (Z.of_nat n) ->
  (forall j, (j < n)%nat -> biter dec j (regw (g_HL cpu)) <> g_PC cpu /\ biter dec j (regw (g_HL cpu)) <> inc16 (g_PC cpu)) ->
  let cpu' := iter n cpu in
  regw (g_HL cpu') = biter dec n (regw (g_HL cpu)) /\ g_BC_Hi cpu' = 0 /\ g_BC_Lo cpu' = g_BC_Lo cpu /\
  ram (g_W cpu') = fill dec n (ram (g_W cpu)) (regw (g_HL cpu)) (inputs (g_W cpu)) /\
  inputs (g_W cpu') = skipn n (inputs (g_W cpu)) /\
  g_PC cpu' = u16 (g_PC cpu + 2) /\
  (forall k, (k < n)%nat -> g_PC (iter k cpu) = g_PC cpu).
Proof.
  intros dec n cpu H Hon Hn Hb Hd. cbv zeta. rewrite iter_ok by exact H.
  destruct (inxr_run impl_unspec dec n cpu H Hon Hn Hb Hd) as (A & B & C & D & E & F & G).
  repeat split; try assumption. intros k Hk. rewrite iter_ok by exact H. apply G, Hk.
Qed.
Print Assumptions C09_inir_indr_whole_operation.

(* ---- what the sequential copy computes (LDIR, no wrap-around): nothing outside the destination range changes; when the
   destination starts at or below the source, or beyond its end, it receives the ORIGINAL source bytes (a block move);
   with DE = HL+1 the first byte is replicated (the fill idiom) -- overlapping ranges are copied byte by byte ---- *)
Theorem C09_copy_outside : forall n r hl de x, 0 <= de -> de + Z.of_nat n <= 65536 -> 0 <= hl -> hl + Z.of_nat n <= 65536 ->
  (x < de \/ de + Z.of_nat n <= x) -> copy false n r hl de x = r x.
Proof. exact copy_outside. Qed.
Print Assumptions C09_copy_outside.
Theorem C09_copy_is_a_move : forall n r hl de k, 0 <= de -> de + Z.of_nat n <= 65536 -> 0 <= hl -> hl + Z.of_nat n <= 65536 ->
  (de <= hl \/ hl + Z.of_nat n <= de) -> 0 <= k < Z.of_nat n -> copy false n r hl de (de + k) = u8 (r (hl + k)).
Proof. exact copy_move. Qed.
Print Assumptions C09_copy_is_a_move.
Theorem C09_overlap_fills : forall n r hl k, 0 <= hl -> hl + 1 + Z.of_nat n <= 65536 -> 0 <= k < Z.of_nat n ->
  copy false n r hl (hl + 1) (hl + 1 + k) = u8 (r hl).
Proof. exact copy_fill. Qed.
Print Assumptions C09_overlap_fills.
