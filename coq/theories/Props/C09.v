(* Props/C09.v -- property C09: block instructions transfer, search and count exactly as a whole operation.
   Proved here: what ONE Step of a block instruction does (one element; counters, pointers, PC, flags), for every state,
   and the repeat rule; C09_tie: the real code's Step is this specification.  The whole-operation statement
   (BC / B elements, 65536 / 256 when the counter starts at 0, overlapping ranges, final PC) is checked in the
   correspondence run by executing the real code to completion (up to 65,536 Steps) against the extracted model and,
   when something breaks, against a direct functional specification of the whole operation (checks/c09.py). *)
From Z80V Require Import Proofs.SpecFacts.

Theorem C09_tie : forall cpu, WF cpu -> Step cpu = spec_step impl_unspec cpu.
Proof. exact Step_ok. Qed.
Print Assumptions C09_tie.
(* a repeating form performs one element and then either stays on itself (PC rewound by its two bytes) or falls through;
   the non-repeating forms are exactly one element *)
Theorem C09_one_element_per_step : forall u m k dec rep cpu,
  exec u m (BLOCK k dec rep) cpu =
  let cpu' := block_step u k dec cpu in
  if rep && block_again k cpu' then s_PC cpu' (u16 (g_PC cpu' - 2)) else cpu'.
Proof. reflexivity. Qed.
Print Assumptions C09_one_element_per_step.
Theorem C09_single_forms_are_one_element : forall u m k dec cpu, exec u m (BLOCK k dec false) cpu = block_step u k dec cpu.
Proof. reflexivity. Qed.
Print Assumptions C09_single_forms_are_one_element.
(* the repeat rule: LDIR/LDDR until BC = 0; CPIR/CPDR until BC = 0 or a match (Z); INIR/INDR/OTIR/OTDR until B = 0 *)
Theorem C09_repeat_rule : forall cpu,
  block_again BLD cpu = negb (regw (g_BC cpu) =? 0) /\
  block_again BCP cpu = negb (regw (g_BC cpu) =? 0) && negb (Z.testbit (get_F cpu) 6) /\
  block_again BIN cpu = negb (g_BC_Hi cpu =? 0) /\ block_again BOUT cpu = negb (g_BC_Hi cpu =? 0).
Proof. intros; repeat split. Qed.
Print Assumptions C09_repeat_rule.
(* one LDI/LDD element: the byte at HL goes to DE, HL and DE step by +-1, BC by -1, all modulo 65536 *)
Theorem C09_ld_element : forall u (dec : bool) cpu, g_Memory cpu = UserMem ->
  let step := fun w : Z => if dec then u16 (w - 1) else u16 (w + 1) in
  let hl := regw (g_HL cpu) in let de := regw (g_DE cpu) in let bc := regw (g_BC cpu) in
  let cpu' := block_step u BLD dec cpu in
  g_HL cpu' = wreg (step hl) /\ g_DE cpu' = wreg (step de) /\ g_BC cpu' = wreg (u16 (bc - 1)) /\
  ram (g_W cpu') = upd (ram (g_W cpu)) de (u8 (ram (g_W cpu) hl)) /\ g_PC cpu' = g_PC cpu /\
  get_F cpu' = ldx_flags (get_A cpu) (u8 (ram (g_W cpu) hl)) (u16 (bc - 1)) (get_F cpu).
Proof. exact ld_element. Qed.
Print Assumptions C09_ld_element.
(* one CPI/CPD element *)
Theorem C09_cp_element : forall u (dec : bool) cpu, g_Memory cpu = UserMem ->
  let step := fun w : Z => if dec then u16 (w - 1) else u16 (w + 1) in
  let hl := regw (g_HL cpu) in let bc := regw (g_BC cpu) in
  let cpu' := block_step u BCP dec cpu in
  g_HL cpu' = wreg (step hl) /\ g_BC cpu' = wreg (u16 (bc - 1)) /\ ram (g_W cpu') = ram (g_W cpu) /\ get_A cpu' = get_A cpu /\
  get_F cpu' = cpx_flags (get_A cpu) (u8 (ram (g_W cpu) hl)) (u16 (bc - 1)) (get_F cpu).
Proof. exact cp_element. Qed.
Print Assumptions C09_cp_element.
(* the flags the repeat tests read: P/V = (BC-1 <> 0); CPI's Z = (A = (HL)) *)
Theorem C09_counter_flag : forall a v bc f, is8 a -> is8 v -> is8 f ->
  Z.testbit (ldx_flags a v bc f) 2 = negb (bc =? 0) /\ Z.testbit (cpx_flags a v bc f) 2 = negb (bc =? 0).
Proof. intros a v bc f Ha Hv Hf. split; [apply ldx_pv; assumption | apply cpx_pv; assumption]. Qed.
Print Assumptions C09_counter_flag.
(* one INI/IND/OUTI/OUTD element: B by -1 (mod 256), HL by +-1, the byte goes through port C *)
Theorem C09_io_element_counts : forall u (dec : bool) cpu, g_IO cpu = true -> g_Memory cpu = UserMem ->
  let step := fun w : Z => if dec then u16 (w - 1) else u16 (w + 1) in
  g_BC_Hi (block_step u BIN dec cpu) = u8 (g_BC_Hi cpu - 1) /\ g_HL (block_step u BIN dec cpu) = wreg (step (regw (g_HL cpu))) /\
  g_BC_Hi (block_step u BOUT dec cpu) = u8 (g_BC_Hi cpu - 1) /\ g_HL (block_step u BOUT dec cpu) = wreg (step (regw (g_HL cpu))).
Proof. exact io_element. Qed.
Print Assumptions C09_io_element_counts.
