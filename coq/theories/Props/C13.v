(* Props/C13.v -- property C13 (PARTIAL): Run honours cancellation at an instruction boundary.
   Proved: the loop returns the context error after a whole number of Steps, exactly when the flag becomes visible;
   the hand-off with the watcher goroutine (hand-written two-thread model of Run's prologue, tied to cpu.go by go2coq's
   shape check and by the runtime harness) returns a written, non-nil context error and always lets the watcher exit.
   NOT expressible here (runtime behaviour): wall-clock delay, the Go scheduler, the memory model of sync/atomic,
   goroutine accounting and the race detector -- covered by the harness runs of checks/c13.py as supporting evidence. *)
From Z80V Require Import Proofs.SpecFacts Proofs.Refresh Proofs.DjnzLoop Proofs.TightLoop Proofs.RunProofs.

Theorem C13_returns_at_instruction_boundary : forall fuel seen cpu cpu' r,
  Run fuel seen cpu = Some (cpu', r) -> exists j, (j <= fuel)%nat /\ cpu' = iter j (Run_enter cpu).
Proof. exact Run_whole_steps. Qed.
Print Assumptions C13_returns_at_instruction_boundary.
Theorem C13_cancel_is_prompt : forall n fuel seen cpu, (n < fuel)%nat ->
  (forall j, (j < n)%nat -> seen j = false) -> seen n = true ->
  (forall j, (1 <= j <= n)%nat -> stops (iter j (Run_enter cpu)) = false) ->
  Run fuel seen cpu = Some (iter n (Run_enter cpu), RunCtxErr).
Proof. exact Run_cancel. Qed.
Print Assumptions C13_cancel_is_prompt.
Theorem C13_handoff_returns_context_error : forall s v, hreach s -> mainr s = RetErr v -> exists e, v = Some (Some e).
Proof. exact handoff_returns_context_error. Qed.
Print Assumptions C13_handoff_returns_context_error.
Theorem C13_watcher_always_exits : forall s, hreach s -> mainr s <> Running -> (wpc s < 3)%nat ->
  exists s', hstep s s' /\ (w_measure s' < w_measure s)%nat /\ mainr s' = mainr s.
Proof. exact watcher_can_exit. Qed.
Print Assumptions C13_watcher_always_exits.

(* ---- the tightest loop,  L: JR L  (18 FE), on the Run model with the generated Step, for EVERY fuel: Run never returns by
   itself (no break point, no HALT ever), and when the cancellation flag is first seen at the head of iteration n it returns the
   context's error with the CPU advanced by exactly n whole Steps: PC on the instruction, R = n ticks, everything else as on entry ---- *)
Theorem C13_tight_loop_needs_cancellation : forall fuel cpu, jr_at cpu -> Run fuel never cpu = None.
Proof. exact tight_loop_run_never_returns. Qed.
Print Assumptions C13_tight_loop_needs_cancellation.
Theorem C13_tight_loop_cancelled_at_boundary : forall n fuel seen cpu, jr_at cpu -> (n < fuel)%nat ->
  (forall j, (j < n)%nat -> seen j = false) -> seen n = true ->
  Run fuel seen cpu = Some (iter n (Run_enter cpu), RunCtxErr) /\
  g_PC (iter n (Run_enter cpu)) = g_PC cpu /\ g_IR_Lo (iter n (Run_enter cpu)) = ticks n (g_IR_Lo cpu) /\
  djnz_same cpu (iter n (Run_enter cpu)).
Proof. exact tight_loop_run_cancel. Qed.
Print Assumptions C13_tight_loop_cancelled_at_boundary.
Example C13_tight_loop_premises_hold : jr_at jr_demo.
Proof. exact jr_demo_premises. Qed.
