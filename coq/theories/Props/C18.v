(* Props/C18.v -- property C18: the mini CP/M machine prints what programs ask for and returns control correctly.
   Proved here (finite statements closed by kernel computation over the image dumped from the real tinycpm.NewMemory()):
   the memory image consists of exactly the three BIOS pieces, the BDOS bytes are the assembly of _z80/minibios.asm, and
   the specification's decoder reads them as the dispatcher (C = 2 -> putchar, C = 9 -> putstr, otherwise HALT),
   putchar = LD A,E ; OUT (0),A ; RET and putstr = loop { LD A,(DE) ; CP '$' ; RET Z ; OUT (0),A ; INC DE }.
   C18_tie: the CPU that executes them is the specification (Step_ok).  The run-time statement (console bytes in program
   order, return to the caller with SP and code intact, JP 0 ends halted at FF03, warnings for other ports) is checked on
   the REAL tinycpm memory + IO under CPU.Run with generated programs (checks/c18.py); tinycpm.IO is exercised there,
   not translated. *)
From Z80V Require Import Cpm.Bios Proofs.Interrupt Cpm.Programs Proofs.Iter Gen.TinyData.

Theorem C18_tie : forall cpu, WF cpu -> Step cpu = spec_step impl_unspec cpu.
Proof. exact Step_ok. Qed.
Print Assumptions C18_tie.
Theorem C18_page0_vectors : bytes_from 0 8 = [195; 3; 255; 0; 0; 195; 6; 254] /\ decode_main 195 = JP.
Proof. exact page0. Qed.
Print Assumptions C18_page0_vectors.
Theorem C18_stop_code : bytes_from 65283 1 = [118] /\ decode_main 118 = HALT.
Proof. exact stop_code. Qed.
Print Assumptions C18_stop_code.
Theorem C18_bdos_is_minibios : bytes_from 65030 23 = bdos_bytes.
Proof. exact bdos_image. Qed.
Print Assumptions C18_bdos_is_minibios.
Theorem C18_bdos_disassembly :
  decode_main 121 = LD8 (Reg rA) (Reg rC) /\ decode_main 254 = ALU8 CP Imm /\ decode_main 40 = JR_cc Z_ /\
  decode_main 118 = HALT /\ decode_main 123 = LD8 (Reg rA) (Reg rE) /\ decode_main 211 = OUT_n_A /\
  decode_main 201 = RET /\ decode_main 26 = LD_A_DE /\ decode_main 200 = RET_cc Z_ /\ decode_main 19 = INC16 pDE /\
  decode_main 24 = JR /\
  disp (65033 + 2) 5 = 65040 /\ disp (65037 + 2) 5 = 65044 /\ disp (65051 + 2) 247 = 65044.
Proof. exact bdos_disassembly. Qed.
Print Assumptions C18_bdos_disassembly.
Theorem C18_nothing_else_preloaded : forall a, 0 <= a < 65536 -> image_at a <> 0 -> (0 <= a < 8) \/ (65030 <= a < 65053) \/ a = 65283.
Proof. exact image_support. Qed.
Print Assumptions C18_nothing_else_preloaded.

(* ---- the two services as PROGRAMS run by the generated Step (iter n = n calls of Step) ----
   c0: any well-formed state that uses the user's memory and an IO device, no request pending, whose memory holds the
   page-0 vector JP FE06h at 0005h and the BDOS bytes of the real image at FE06h..FE1Ch (bdos_loaded; everything else in
   memory, all other registers, the stack contents are arbitrary), entered at 0005h as by CALL 5.
   rel c0 c' outs v: c' still has that environment, memory is unchanged, the port writes since c0 are exactly outs
   (newest first), and c' shows the registers v = (A, F, C, DE, E, SP, PC). *)
Theorem C18_putchar : forall c0 a f de ch sp, WF c0 -> env_ok c0 -> bdos_loaded (ram (g_W c0)) ->
  view c0 = mk_mach a f 2 de ch sp 5 ->
  rel c0 (iter 7 c0) [(0, ch)]
      (mk_mach ch (cp8 2 2) 2 de ch (u16 (u16 (sp + 1) + 1)) (popped (ram (g_W c0)) sp)).
Proof. intros c0 a f de ch sp H He Hl Hv. rewrite iter_ok by exact H. exact (putchar impl_unspec c0 He Hl a f de ch sp Hv). Qed.
Print Assumptions C18_putchar.
(* any string length: 6 Steps to the loop, 6 per character, 3 for the terminator *)
Theorem C18_putstr : forall c0 a f d e sp (s : list Z), WF c0 -> env_ok c0 -> bdos_loaded (ram (g_W c0)) ->
  view c0 = mk_mach a f 9 d e sp 5 -> is16 d ->
  (forall k, (k < length s)%nat -> u8 (ram (g_W c0) (u16 (d + Z.of_nat k))) = nth k s 0) ->
  Forall (fun c => is8 c /\ c <> 36) s ->
  u8 (ram (g_W c0) (u16 (d + Z.of_nat (length s)))) = 36 ->
  exists e', rel c0 (iter (6 + 6 * length s + 3) c0) (rev (map (fun c => (0, c)) s))
               (mk_mach 36 (cp8 36 36) 9 (u16 (d + Z.of_nat (length s))) e' (u16 (u16 (sp + 1) + 1)) (popped (ram (g_W c0)) sp)).
Proof.
  intros c0 a f d e sp s H He Hl Hv Hd Hs Hok Hend. rewrite iter_ok by exact H.
  exact (putstr impl_unspec c0 He Hl a f d e sp s Hv Hd Hs Hok Hend).
Qed.
Print Assumptions C18_putstr.
(* the return address is the word on the stack (what CALL 5 pushed), SP is back above it *)
Theorem C18_return_address : forall r sp, popped r sp = mk16 (u8 (r (u16 (sp + 1)))) (u8 (r sp)).
Proof. reflexivity. Qed.
(* the premises are satisfiable: the real image with a two-character string *)
Definition cpm_demo : CPU :=
  s_IO (s_W (s_SP (s_PC (s_DE (s_BC cpu0 (mk_Register 0 9)) (wreg 512)) 5) 61440)
            (mk_World (fun a => if a =? 512 then 72 else if a =? 513 then 105 else if a =? 514 then 36 else image_at a) [] [])) true.
Example C18_premises_hold :
  WF cpm_demo /\ env_ok cpm_demo /\ bdos_loaded (ram (g_W cpm_demo)) /\ view cpm_demo = mk_mach 0 0 9 512 0 61440 5.
Proof.
  split; [|split; [|split]].
  - cbv [WF WF_gpr WF_reg WF_mem WF_irq cpm_demo cpu0 wreg hi lo]; cbv_struct; unfold is8, is16; repeat split; try lia; vm_compute; intuition discriminate.
  - repeat split.
  - unfold bdos_loaded, cpm_demo. cbv_struct. repeat split; try (vm_compute; reflexivity).
    intros a Ha. destruct (Z.eqb_spec a 512); [lia|]. destruct (Z.eqb_spec a 513); [lia|]. destruct (Z.eqb_spec a 514); [lia|].
    apply u8_id. unfold image_at. destruct (find _ bios_image) as [p|] eqn:E; [|lia].
    apply find_some in E. destruct E as [Hin _].
    assert (F : forallb (fun p => (0 <=? snd p) && (snd p <? 256)) bios_image = true) by (vm_compute; reflexivity).
    rewrite forallb_forall in F. specialize (F p Hin). lia.
  - vm_compute. reflexivity.
Qed.
