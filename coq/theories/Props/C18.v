(* Props/C18.v -- property C18: the mini CP/M machine prints what programs ask for and returns control correctly.
   Proved here (finite statements closed by kernel computation over the image dumped from the real tinycpm.NewMemory()):
   the memory image consists of exactly the three BIOS pieces, the BDOS bytes are the assembly of _z80/minibios.asm, and
   the specification's decoder reads them as the dispatcher (C = 2 -> putchar, C = 9 -> putstr, otherwise HALT),
   putchar = LD A,E ; OUT (0),A ; RET and putstr = loop { LD A,(DE) ; CP '$' ; RET Z ; OUT (0),A ; INC DE }.
   C18_tie: the CPU that executes them is the specification (Step_ok).  The run-time statement (console bytes in program
   order, return to the caller with SP and code intact, JP 0 ends halted at FF03, warnings for other ports) is checked on
   the REAL tinycpm memory + IO under CPU.Run with generated programs (checks/c18.py); tinycpm.IO is exercised there,
   not translated. *)
From Z80V Require Import Cpm.Bios Proofs.Interrupt.

Theorem C18_tie : forall cpu, WF cpu -> Step cpu = spec_step impl_unspec cpu.
Proof. exact Step_ok. Qed.
Print Assumptions C18_tie.
Theorem C18_page0_vectors : bytes_from 0 8 = [195; 3; 255; 0; 0; 195; 6; 254] /\ decode_main 195 = JP.
Proof. exact page0. Qed.
Print Assumptions C18_page0_vectors.
Theorem C18_stop_code : bytes_from 65283 1 = [118] /\ decode_main 118 = HALT.
Proof. exact stop_code. Qed.
Print Assumptions C18_stop_code.
Theorem C18_bdos_is_minibios : bytes_from 65030 23 = bdos_bytes.
Proof. exact bdos_image. Qed.
Print Assumptions C18_bdos_is_minibios.
Theorem C18_bdos_disassembly :
  decode_main 121 = LD8 (Reg rA) (Reg rC) /\ decode_main 254 = ALU8 CP Imm /\ decode_main 40 = JR_cc Z_ /\
  decode_main 118 = HALT /\ decode_main 123 = LD8 (Reg rA) (Reg rE) /\ decode_main 211 = OUT_n_A /\
  decode_main 201 = RET /\ decode_main 26 = LD_A_DE /\ decode_main 200 = RET_cc Z_ /\ decode_main 19 = INC16 pDE /\
  decode_main 24 = JR /\
  disp (65033 + 2) 5 = 65040 /\ disp (65037 + 2) 5 = 65044 /\ disp (65051 + 2) 247 = 65044.
Proof. exact bdos_disassembly. Qed.
Print Assumptions C18_bdos_disassembly.
Theorem C18_nothing_else_preloaded : forall a, 0 <= a < 65536 -> image_at a <> 0 -> (0 <= a < 8) \/ (65030 <= a < 65053) \/ a = 65283.
Proof. exact image_support. Qed.
Print Assumptions C18_nothing_else_preloaded.
