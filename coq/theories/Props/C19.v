(* C19 - cim2bin and cim2cas wrap any image in a correct MSX container, body unaltered. *)
From Coq Require Import ZArith List.
From Z80V Require Import Cim.Syntax Cim.Spec Gen.CimConsts Cim.Model Cim.Proofs.
Import ListNotations.
Open Scope Z_scope.

(* exact layout under the guard (1 <= |body|, 0 <= off < 65536, off+|body|-1 < 65536), all bodies *)
Theorem C19_bin_layout : forall off body, guard off body ->
  cim2bin off body = spec_bin off body.
Proof. exact cim2bin_layout. Qed.
Print Assumptions C19_bin_layout.

Theorem C19_bin_bytes : forall off body, guard off body ->
  let e := off + len body - 1 in
  cim2bin off body =
  0xFE :: off mod 256 :: off / 256 :: e mod 256 :: e / 256 :: off mod 256 :: off / 256 :: body.
Proof. exact cim2bin_bytes. Qed.
Print Assumptions C19_bin_bytes.

Theorem C19_cas_layout : forall off name body, guard off body ->
  cim2cas off name body = spec_cas off name body.
Proof. exact cim2cas_layout. Qed.
Print Assumptions C19_cas_layout.

Theorem C19_cas_bytes : forall off name body, guard off body ->
  let e := off + len body - 1 in
  cim2cas off name body =
  [0x1F; 0xA6; 0xDE; 0xBA; 0xCC; 0x13; 0x7D; 0x74]
  ++ [0xD0; 0xD0; 0xD0; 0xD0; 0xD0; 0xD0; 0xD0; 0xD0; 0xD0; 0xD0]
  ++ firstn 6 (name ++ [32; 32; 32; 32; 32; 32])
  ++ [0x1F; 0xA6; 0xDE; 0xBA; 0xCC; 0x13; 0x7D; 0x74]
  ++ [off mod 256; off / 256; e mod 256; e / 256; off mod 256; off / 256]
  ++ body.
Proof. exact cim2cas_bytes. Qed.
Print Assumptions C19_cas_bytes.

(* lengths, body unaltered (these hold for every off0 and body, guard or not) *)
Theorem C19_bin_length : forall off0 body, len (cim2bin off0 body) = 7 + len body.
Proof. exact cim2bin_length. Qed.
Print Assumptions C19_bin_length.

Theorem C19_bin_body : forall off0 body, skipn 7 (cim2bin off0 body) = body.
Proof. exact cim2bin_body. Qed.
Print Assumptions C19_bin_body.

Theorem C19_cas_length : forall off0 name body,
  len (cim2cas off0 name body) = 8 + 10 + 6 + 8 + 6 + len body.
Proof. exact cim2cas_length. Qed.
Print Assumptions C19_cas_length.

Theorem C19_cas_body : forall off0 name body, skipn 38 (cim2cas off0 name body) = body.
Proof. exact cim2cas_body. Qed.
Print Assumptions C19_cas_body.

Theorem C19_cas_name_field : forall off0 name body,
  firstn 6 (skipn 18 (cim2cas off0 name body)) = pad6 name.
Proof. exact cim2cas_name_field. Qed.
Print Assumptions C19_cas_name_field.

(* start / end / exec words decode to start, start+length-1, start *)
Theorem C19_bin_words : forall off body, guard off body ->
  nth 0 (cim2bin off body) 0 = 0xFE /\
  word_at 1 (cim2bin off body) = off /\
  word_at 3 (cim2bin off body) = off + len body - 1 /\
  word_at 5 (cim2bin off body) = off.
Proof. exact cim2bin_words. Qed.
Print Assumptions C19_bin_words.

Theorem C19_cas_words : forall off name body, guard off body ->
  word_at 32 (cim2cas off name body) = off /\
  word_at 34 (cim2cas off name body) = off + len body - 1 /\
  word_at 36 (cim2cas off name body) = off.
Proof. exact cim2cas_words. Qed.
Print Assumptions C19_cas_words.

Theorem C19_bin_bytes_ok : forall off0 body, bytes_ok body -> bytes_ok (cim2bin off0 body).
Proof. exact cim2bin_bytes_ok. Qed.
Print Assumptions C19_bin_bytes_ok.

Theorem C19_cas_bytes_ok : forall off0 name body, bytes_ok name -> bytes_ok body ->
  bytes_ok (cim2cas off0 name body).
Proof. exact cim2cas_bytes_ok. Qed.
Print Assumptions C19_cas_bytes_ok.

(* the name field: truncated or space-padded to six, any name length *)
Theorem C19_pad6_spec : forall name, pad6 name = firstn 6 (name ++ repeat 32 6).
Proof. exact pad6_is_spec. Qed.
Print Assumptions C19_pad6_spec.

Theorem C19_pad6_length : forall name, length (pad6 name) = 6%nat.
Proof. exact pad6_length. Qed.
Print Assumptions C19_pad6_length.

Theorem C19_pad6_exact6 : forall name, length name = 6%nat -> pad6 name = name.
Proof. exact pad6_exact6. Qed.
Print Assumptions C19_pad6_exact6.

Theorem C19_pad6_truncates : forall name, (6 <= length name)%nat -> pad6 name = firstn 6 name.
Proof. exact pad6_truncates. Qed.
Print Assumptions C19_pad6_truncates.

Theorem C19_pad6_pads : forall name, (length name <= 6)%nat ->
  pad6 name = name ++ repeat 32 (6 - length name).
Proof. exact pad6_pads. Qed.
Print Assumptions C19_pad6_pads.

Theorem C19_default_name : forall cimpath,
  default_name cimpath = firstn 6 (cimpath ++ repeat 32 6).
Proof. exact default_name_spec. Qed.
Print Assumptions C19_default_name.

(* little-endian words *)
Theorem C19_le16_roundtrip : forall v, 0 <= v < 65536 ->
  de16 (nth 0 (le16 v) 0) (nth 1 (le16 v) 0) = v.
Proof. exact le16_roundtrip. Qed.
Print Assumptions C19_le16_roundtrip.

Theorem C19_le16_inj : forall a b, 0 <= a < 65536 -> 0 <= b < 65536 -> le16 a = le16 b -> a = b.
Proof. exact le16_inj. Qed.
Print Assumptions C19_le16_inj.

(* command-line level: -off omitted = 0xA000, -nam empty = the -cim string as typed *)
Theorem C19_cli_bin : forall offopt body,
  guard (match offopt with Some o => o | None => 0xA000 end) body ->
  cim2bin_cli offopt body = spec_bin_cli offopt body.
Proof. exact cli_bin_layout. Qed.
Print Assumptions C19_cli_bin.

Theorem C19_cli_cas : forall offopt nam cimpath body,
  guard (match offopt with Some o => o | None => 0xA000 end) body ->
  cim2cas_cli offopt nam cimpath body = spec_cas_cli offopt nam cimpath body.
Proof. exact cli_cas_layout. Qed.
Print Assumptions C19_cli_cas.

(* what the code does for every input, guard or not *)
Theorem C19_bin_general : forall off0 body,
  cim2bin off0 body =
  [0xFE] ++ le16 (trunc16 off0) ++ le16 (trunc16 (trunc16 off0 + len body - 1))
         ++ le16 (trunc16 off0) ++ body.
Proof. exact cim2bin_general. Qed.
Print Assumptions C19_bin_general.

Theorem C19_cas_general : forall off0 name body,
  cim2cas off0 name body =
  msx_sync ++ repeat 0xD0 10 ++ pad6_spec name ++ msx_sync
  ++ le16 (trunc16 off0) ++ le16 (trunc16 (trunc16 off0 + len body - 1))
  ++ le16 (trunc16 off0) ++ body.
Proof. exact cim2cas_general. Qed.
Print Assumptions C19_cas_general.

(* outside the guard: documented behaviour, not property violations *)
Theorem C19_bin_outside_guard_empty : forall off, 0 <= off < 65536 ->
  cim2bin off [] = [0xFE] ++ le16 off ++ le16 ((off - 1) mod 65536) ++ le16 off.
Proof. exact cim2bin_outside_guard_empty. Qed.
Print Assumptions C19_bin_outside_guard_empty.

Theorem C19_cas_outside_guard_empty : forall off name, 0 <= off < 65536 ->
  cim2cas off name [] = msx_sync ++ repeat 0xD0 10 ++ pad6_spec name ++ msx_sync
                        ++ le16 off ++ le16 ((off - 1) mod 65536) ++ le16 off.
Proof. exact cim2cas_outside_guard_empty. Qed.
Print Assumptions C19_cas_outside_guard_empty.

Theorem C19_bin_outside_guard_overflow : forall off body,
  0 <= off < 65536 -> len body <= 65536 -> 65536 < off + len body ->
  cim2bin off body = [0xFE] ++ le16 off ++ le16 (off + len body - 1 - 65536) ++ le16 off ++ body
  /\ off + len body - 1 - 65536 < off.
Proof. exact cim2bin_outside_guard_overflow. Qed.
Print Assumptions C19_bin_outside_guard_overflow.

Theorem C19_cas_outside_guard_overflow : forall off name body,
  0 <= off < 65536 -> len body <= 65536 -> 65536 < off + len body ->
  cim2cas off name body = msx_sync ++ repeat 0xD0 10 ++ pad6_spec name ++ msx_sync
     ++ le16 off ++ le16 (off + len body - 1 - 65536) ++ le16 off ++ body.
Proof. exact cim2cas_outside_guard_overflow. Qed.
Print Assumptions C19_cas_outside_guard_overflow.

Theorem C19_bin_outside_guard_flag : forall off0 body,
  cim2bin off0 body = cim2bin (off0 mod 65536) body.
Proof. exact cim2bin_outside_guard_flag. Qed.
Print Assumptions C19_bin_outside_guard_flag.

Theorem C19_cas_outside_guard_flag : forall off0 name body,
  cim2cas off0 name body = cim2cas (off0 mod 65536) name body.
Proof. exact cim2cas_outside_guard_flag. Qed.
Print Assumptions C19_cas_outside_guard_flag.
