(* Props/C04.v -- property C04: jumps, calls, returns and the stack follow conditions and addresses exactly.
   The clauses below are theorems about the specification's exec, for every F, B, PC, SP (wrap included: all
   address arithmetic is u16 = mod 65536); C04_tie states that the real code is that specification. *)
From Z80V Require Import Proofs.SpecFacts Proofs.RoundTrip Proofs.Refresh Proofs.DjnzLoop Proofs.Iter.

Theorem C04_conditions : forall f,
  cond NZ f = negb (Z.testbit f 6) /\ cond Z_ f = Z.testbit f 6 /\
  cond NC f = negb (Z.testbit f 0) /\ cond C_ f = Z.testbit f 0 /\
  cond PO f = negb (Z.testbit f 2) /\ cond PE f = Z.testbit f 2 /\
  cond P_ f = negb (Z.testbit f 7) /\ cond M_ f = Z.testbit f 7.
Proof. exact cond_table. Qed.
Print Assumptions C04_conditions.
(* the Go's mask tests are these bit tests, for all 256 F values *)
Theorem C04_mask_tests : forall f, is8 f ->
  (Z.land f 64 =? 0) = negb (Z.testbit f 6) /\ (Z.land f 1 =? 0) = negb (Z.testbit f 0) /\
  (Z.land f 4 =? 0) = negb (Z.testbit f 2) /\ (Z.land f 128 =? 0) = negb (Z.testbit f 7).
Proof. intros f Hf. repeat split; [apply mask64 | apply mask1 | apply mask4 | apply mask128]; exact Hf. Qed.
Print Assumptions C04_mask_tests.

(* JP cc: taken iff the condition holds in the current F; untaken = only the operand bytes are consumed *)
Theorem C04_jp_cc : forall u m c cpu,
  exec u m (JP_cc c) cpu =
  let cpu1 := fst (Spec.Exec.fetch16 cpu) in let a := snd (Spec.Exec.fetch16 cpu) in
  if cond c (get_F cpu) then s_PC cpu1 a else cpu1.
Proof. exact jp_cc_spec. Qed.
Print Assumptions C04_jp_cc.
(* JR cc: measured from the address after the instruction, signed 8-bit displacement *)
Theorem C04_jr_cc : forall u m c cpu,
  exec u m (JR_cc c) cpu =
  let cpu1 := fst (fetch8 cpu) in let d := snd (fetch8 cpu) in
  if cond c (get_F cpu) then s_PC cpu1 (disp (inc16 (g_PC cpu)) d) else cpu1.
Proof. exact jr_cc_spec. Qed.
Print Assumptions C04_jr_cc.
Theorem C04_disp_is_signed : forall base d, disp base d = u16 (base + (if d <? 128 then d else d - 256)).
Proof. reflexivity. Qed.
Print Assumptions C04_disp_is_signed.
(* CALL cc: return address = address of the following instruction *)
Theorem C04_call_cc : forall u m c cpu,
  exec u m (CALL_cc c) cpu =
  let cpu1 := fst (Spec.Exec.fetch16 cpu) in let a := snd (Spec.Exec.fetch16 cpu) in
  if cond c (get_F cpu) then s_PC (push16 cpu1 (inc16 (inc16 (g_PC cpu)))) a else cpu1.
Proof. exact call_cc_spec. Qed.
Print Assumptions C04_call_cc.
Theorem C04_ret_cc : forall u m c cpu,
  exec u m (RET_cc c) cpu = if cond c (get_F cpu) then exec u m RET cpu else cpu.
Proof. exact ret_cc_spec. Qed.
Print Assumptions C04_ret_cc.
(* DJNZ: B decremented (mod 256), jump iff the new B is non-zero *)
Theorem C04_djnz : forall u m cpu,
  exec u m DJNZ cpu =
  let cpu1 := fst (fetch8 cpu) in let d := snd (fetch8 cpu) in
  let b' := u8 (g_BC_Hi cpu - 1) in
  if b' =? 0 then s_BC_Hi cpu1 b' else s_PC (s_BC_Hi cpu1 b') (disp (inc16 (g_PC cpu)) d).
Proof. exact djnz_spec. Qed.
Print Assumptions C04_djnz.
(* the stack: high byte at SP-1, low byte at SP-2, SP lowered by 2, everything mod 65536 *)
Theorem C04_push : forall cpu w,
  push16 cpu w =
  s_SP (wr (wr cpu (dec16 (g_SP cpu)) (hi w)) (dec16 (dec16 (g_SP cpu))) (lo w)) (dec16 (dec16 (g_SP cpu))).
Proof. exact push16_spec. Qed.
Print Assumptions C04_push.
Theorem C04_rst_push : forall cpu w,
  push16_lowfirst cpu w =
  s_SP (wr (wr cpu (u16 (g_SP cpu - 2)) (lo w)) (inc16 (u16 (g_SP cpu - 2))) (hi w)) (u16 (g_SP cpu - 2)).
Proof. exact push16_lowfirst_spec. Qed.
Print Assumptions C04_rst_push.
Theorem C04_same_addresses : forall x, is16 x -> dec16 (dec16 x) = u16 (x - 2) /\ inc16 (u16 (x - 2)) = dec16 x.
Proof. intros x Hx. split; [apply dec16_twice | apply inc16_dec16, Hx]. Qed.
Print Assumptions C04_same_addresses.
(* JP (HL)/(IX)/(IY): PC := the register value itself *)
Theorem C04_jp_hl : forall u m cpu, exec u m JP_HL cpu = s_PC cpu (get_idx m cpu).
Proof. reflexivity. Qed.
Print Assumptions C04_jp_hl.
(* PUSH qq ; POP qq restores qq and SP when the two stack bytes are ordinary memory: the word read back is the word written *)
Theorem C04_word_roundtrip : forall w, is16 w -> mk16 (hi w) (lo w) = w.
Proof. exact mk16_hi_lo. Qed.
Print Assumptions C04_word_roundtrip.
Theorem C04_tie : forall cpu, WF cpu -> executeOne cpu = step_instr impl_unspec cpu.
Proof. exact executeOne_ok. Qed.
Print Assumptions C04_tie.

(* ---- CALL nn ; RET as two generated Steps: control is back at the instruction after the CALL, SP and every register
   restored, the return address was stored high byte at SP-1, low byte at SP-2 ---- *)
Theorem C04_call_ret_round_trip : forall cpu, WF cpu -> g_Memory cpu = UserMem -> g_Interrupt cpu = None ->
  let pc := g_PC cpu in let nn := mk16 (u8 (ram (g_W cpu) (u16 (u16 (pc + 1) + 1)))) (u8 (ram (g_W cpu) (u16 (pc + 1)))) in
  let sp1 := u16 (g_SP cpu - 1) in let sp2 := u16 (sp1 - 1) in
  u8 (ram (g_W cpu) pc) = 205 -> u8 (ram (g_W cpu) nn) = 201 -> sp1 <> nn -> sp2 <> nn ->
  let cpu' := iter 2 cpu in
  g_GPR cpu' = g_GPR cpu /\ g_Alternate cpu' = g_Alternate cpu /\ g_IX cpu' = g_IX cpu /\ g_IY cpu' = g_IY cpu /\
  g_SP cpu' = g_SP cpu /\ g_PC cpu' = u16 (u16 (u16 (pc + 1) + 1) + 1) /\
  g_IFF1 cpu' = g_IFF1 cpu /\ g_IFF2 cpu' = g_IFF2 cpu /\
  ram (g_W cpu') = upd (upd (ram (g_W cpu)) sp1 (hi (u16 (u16 (u16 (pc + 1) + 1) + 1)))) sp2 (lo (u16 (u16 (u16 (pc + 1) + 1) + 1))).
Proof. intros cpu H. cbv zeta. rewrite iter_ok by exact H. exact (call_ret_round_trip impl_unspec cpu H). Qed.
Print Assumptions C04_call_ret_round_trip.

(* ---- a whole DJNZ loop (the delay idiom  L: DJNZ L), for the generated Step: from B = k+1 it takes exactly k+1 Steps,
   from B = 0 exactly 256; every Step but the last goes back to the instruction itself (displacement -2 measured from the
   end of the instruction, also when the instruction lies across FFFFh/0000h), the last one falls through; only B, PC
   and the refresh counter change (djnz_same lists what is kept: A, F, C, DE, HL, the alternate set, IX, IY, SP,
   IFF1/2, IM, I, memory, the pending-request slot) ---- *)
Theorem C04_djnz_loop : forall k cpu, djnz_at cpu -> g_BC_Hi cpu = Z.of_nat k + 1 -> Z.of_nat k <= 254 ->
  let cpu' := iter (S k) cpu in
  djnz_same cpu cpu' /\ g_BC_Hi cpu' = 0 /\ g_PC cpu' = u16 (u16 (g_PC cpu + 1) + 1) /\
  g_IR_Lo cpu' = ticks (S k) (g_IR_Lo cpu).
Proof. exact djnz_loop_gen. Qed.
Print Assumptions C04_djnz_loop.
Theorem C04_djnz_loop_from_zero : forall cpu, djnz_at cpu -> g_BC_Hi cpu = 0 ->
  let cpu' := iter 256 cpu in
  djnz_same cpu cpu' /\ g_BC_Hi cpu' = 0 /\ g_PC cpu' = u16 (u16 (g_PC cpu + 1) + 1) /\
  g_IR_Lo cpu' = ticks 256 (g_IR_Lo cpu).
Proof. exact djnz_loop_256_gen. Qed.
Print Assumptions C04_djnz_loop_from_zero.
Example C04_djnz_premises_hold : djnz_at djnz_demo /\ g_BC_Hi djnz_demo = Z.of_nat 2 + 1.
Proof. exact djnz_demo_premises. Qed.
