(* Props/C02.v -- property C02: 8-bit ALU, rotate/shift and bit results and flags are exact for all operands.
   Left-hand sides are GENERATED from accum.go / op_*.go; right-hand sides are the arithmetic definitions of
   Spec/Flags.v (sums, borrows, signed ranges, parity by counting -- no carry-vector tricks).
   Every statement is for all A, all operands and all 256 incoming F values. *)
From Z80V Require Import Proofs.SpecFacts.

Theorem C02_add : forall cpu a b, is8 a -> is8 b -> is8 (g_AF_Lo cpu) ->
  addU8 cpu a b = (s_AF_Lo cpu (snd (alu8 ADD a b (g_AF_Lo cpu))), fst (alu8 ADD a b (g_AF_Lo cpu))).
Proof. exact addU8_ok. Qed.
Print Assumptions C02_add.
Theorem C02_adc : forall cpu a b, is8 a -> is8 b -> is8 (g_AF_Lo cpu) ->
  adcU8 cpu a b = (s_AF_Lo cpu (snd (alu8 ADC a b (g_AF_Lo cpu))), fst (alu8 ADC a b (g_AF_Lo cpu))).
Proof. exact adcU8_ok. Qed.
Print Assumptions C02_adc.
Theorem C02_sub : forall cpu a b, is8 a -> is8 b -> is8 (g_AF_Lo cpu) ->
  subU8 cpu a b = (s_AF_Lo cpu (snd (alu8 SUB a b (g_AF_Lo cpu))), fst (alu8 SUB a b (g_AF_Lo cpu))).
Proof. exact subU8_ok. Qed.
Print Assumptions C02_sub.
Theorem C02_sbc : forall cpu a b, is8 a -> is8 b -> is8 (g_AF_Lo cpu) ->
  sbcU8 cpu a b = (s_AF_Lo cpu (snd (alu8 SBC a b (g_AF_Lo cpu))), fst (alu8 SBC a b (g_AF_Lo cpu))).
Proof. exact sbcU8_ok. Qed.
Print Assumptions C02_sbc.
Theorem C02_and : forall cpu a b, is8 a -> is8 b -> is8 (g_AF_Lo cpu) ->
  andU8 cpu a b = (s_AF_Lo cpu (snd (alu8 AND a b (g_AF_Lo cpu))), fst (alu8 AND a b (g_AF_Lo cpu))).
Proof. exact andU8_ok. Qed.
Print Assumptions C02_and.
Theorem C02_or : forall cpu a b, is8 a -> is8 b -> is8 (g_AF_Lo cpu) ->
  orU8 cpu a b = (s_AF_Lo cpu (snd (alu8 OR a b (g_AF_Lo cpu))), fst (alu8 OR a b (g_AF_Lo cpu))).
Proof. exact orU8_ok. Qed.
Print Assumptions C02_or.
Theorem C02_xor : forall cpu a b, is8 a -> is8 b -> is8 (g_AF_Lo cpu) ->
  xorU8 cpu a b = (s_AF_Lo cpu (snd (alu8 XOR a b (g_AF_Lo cpu))), fst (alu8 XOR a b (g_AF_Lo cpu))).
Proof. exact xorU8_ok. Qed.
Print Assumptions C02_xor.
(* CP: A is kept, bits 5 and 3 come from the operand *)
Theorem C02_cp : forall a b f, is8 a -> is8 b -> is8 f -> pF cpU8 a b f = cp8 a b.
Proof. exact cpU8_pure. Qed.
Print Assumptions C02_cp.
(* AND/OR/XOR A,r register forms call the flag helper directly *)
Theorem C02_logic_flags : forall cpu r b, is8 r -> is8 (g_AF_Lo cpu) ->
  updateFlagLogic8 cpu r b = s_AF_Lo cpu (if b then sz53 r + FH + parity r else sz53 r + parity r).
Proof. exact updateFlagLogic8_ok. Qed.
Print Assumptions C02_logic_flags.
Theorem C02_inc : forall cpu a, is8 a -> is8 (g_AF_Lo cpu) ->
  incU8 cpu a = (s_AF_Lo cpu (snd (inc8 a (g_AF_Lo cpu))), fst (inc8 a (g_AF_Lo cpu))).
Proof. exact incU8_ok. Qed.
Print Assumptions C02_inc.
Theorem C02_dec : forall cpu a, is8 a -> is8 (g_AF_Lo cpu) ->
  decU8 cpu a = (s_AF_Lo cpu (snd (dec8 a (g_AF_Lo cpu))), fst (dec8 a (g_AF_Lo cpu))).
Proof. exact decU8_ok. Qed.
Print Assumptions C02_dec.
(* DEC r goes through a pointer into the CPU (decP8) *)
Theorem C02_dec_reg : forall b f, is8 b -> is8 f -> (u8 (b - 1), pDecF b f) = dec8 b f.
Proof. exact decP8_pure. Qed.
Print Assumptions C02_dec_reg.
Theorem C02_daa : forall a f, is8 a -> is8 f -> (pA oopDAA a f, pFa oopDAA a f) = daa8 a f.
Proof. exact oopDAA_pure. Qed.
Print Assumptions C02_daa.
Theorem C02_cpl : forall a f, is8 a -> is8 f -> (pA oopCPL a f, pFa oopCPL a f) = cpl8 a f.
Proof. exact oopCPL_pure. Qed.
Print Assumptions C02_cpl.
Theorem C02_neg : forall a f, is8 a -> is8 f -> (pA oopNEG a f, pFa oopNEG a f) = neg8 a.
Proof. exact oopNEG_pure. Qed.
Print Assumptions C02_neg.
(* SCF / CCF: A untouched; S Z H P/V N C exactly as specified whatever bits 5,3 turn out to be *)
Theorem C02_scf : forall a f, is8 a -> is8 f -> pA oopSCF a f = a /\ pFa oopSCF a f = scf8 f (pFa oopSCF a f).
Proof. exact oopSCF_pure. Qed.
Print Assumptions C02_scf.
Theorem C02_ccf : forall a f, is8 a -> is8 f -> pA oopCCF a f = a /\ pFa oopCCF a f = ccf8 f (pFa oopCCF a f).
Proof. exact oopCCF_pure. Qed.
Print Assumptions C02_ccf.
Theorem C02_rlca : forall a f, is8 a -> is8 f -> (pA oopRLCA a f, pFa oopRLCA a f) = rota RLC a f.
Proof. exact oopRLCA_pure. Qed.
Print Assumptions C02_rlca.
Theorem C02_rrca : forall a f, is8 a -> is8 f -> (pA oopRRCA a f, pFa oopRRCA a f) = rota RRC a f.
Proof. exact oopRRCA_pure. Qed.
Print Assumptions C02_rrca.
Theorem C02_rla : forall a f, is8 a -> is8 f -> (pA oopRLA a f, pFa oopRLA a f) = rota RL a f.
Proof. exact oopRLA_pure. Qed.
Print Assumptions C02_rla.
Theorem C02_rra : forall a f, is8 a -> is8 f -> (pA oopRRA a f, pFa oopRRA a f) = rota RR a f.
Proof. exact oopRRA_pure. Qed.
Print Assumptions C02_rra.
Theorem C02_rlc : forall a f, is8 a -> is8 f -> (pR1 rlcU8 a f, pF1 rlcU8 a f) = rotcb RLC a f.
Proof. exact rlcU8_pure. Qed.
Print Assumptions C02_rlc.
Theorem C02_rrc : forall a f, is8 a -> is8 f -> (pR1 rrcU8 a f, pF1 rrcU8 a f) = rotcb RRC a f.
Proof. exact rrcU8_pure. Qed.
Print Assumptions C02_rrc.
Theorem C02_rl : forall a f, is8 a -> is8 f -> (pR1 rlU8 a f, pF1 rlU8 a f) = rotcb RL a f.
Proof. exact rlU8_pure. Qed.
Print Assumptions C02_rl.
Theorem C02_rr : forall a f, is8 a -> is8 f -> (pR1 rrU8 a f, pF1 rrU8 a f) = rotcb RR a f.
Proof. exact rrU8_pure. Qed.
Print Assumptions C02_rr.
Theorem C02_sla : forall a f, is8 a -> is8 f -> (pR1 slaU8 a f, pF1 slaU8 a f) = rotcb SLA a f.
Proof. exact slaU8_pure. Qed.
Print Assumptions C02_sla.
Theorem C02_sra : forall a f, is8 a -> is8 f -> (pR1 sraU8 a f, pF1 sraU8 a f) = rotcb SRA a f.
Proof. exact sraU8_pure. Qed.
Print Assumptions C02_sra.
Theorem C02_sll : forall a f, is8 a -> is8 f -> (pR1 sl1U8 a f, pF1 sl1U8 a f) = rotcb SLL a f.
Proof. exact sl1U8_pure. Qed.
Print Assumptions C02_sll.
Theorem C02_srl : forall a f, is8 a -> is8 f -> (pR1 srlU8 a f, pF1 srlU8 a f) = rotcb SRL a f.
Proof. exact srlU8_pure. Qed.
Print Assumptions C02_srl.
Theorem C02_rld_rrd_flags : forall r f, is8 r -> is8 f -> pV updateFlagRxD r f = sz53 r + parity r + Z.land f FC.
Proof. exact updateFlagRxD_pure. Qed.
Print Assumptions C02_rld_rrd_flags.
Theorem C02_rld_rrd_nibbles : forall a m, is8 a -> is8 m ->
  Z.lor (Z.land a 240) (Z.shiftr m 4) = (a / 16) * 16 + m / 16 /\
  Z.lor (u8 (Z.shiftl m 4)) (Z.land a 15) = (m mod 16) * 16 + a mod 16 /\
  Z.lor (Z.land a 240) (Z.land m 15) = (a / 16) * 16 + m mod 16 /\
  Z.lor (u8 (Z.shiftl a 4)) (Z.shiftr m 4) = (a mod 16) * 16 + m / 16.
Proof. intros a m Ha Hm. repeat split; [apply rld_a | apply rld_m | apply rrd_a | apply rrd_m]; assumption. Qed.
Print Assumptions C02_rld_rrd_nibbles.
(* BIT b,r: bits 5 and 3 from the tested register; BIT b,(HL)/(IX+d): unspecified there, everything else exact *)
Theorem C02_bit_reg : forall b v f, 0 <= b < 8 -> is8 v -> is8 f -> pBit bitchk8 b v f = bit8 b v f v.
Proof. exact bitchk8_pure. Qed.
Print Assumptions C02_bit_reg.
Theorem C02_bit_mem : forall b v f, 0 <= b < 8 -> is8 v -> is8 f -> pBit bitchk8b b v f = bit8 b v f (pBit bitchk8b b v f).
Proof. exact bitchk8b_pure. Qed.
Print Assumptions C02_bit_mem.
Theorem C02_set : forall cpu b v, 0 <= b < 8 -> bitset8 cpu b v = set8 b v.
Proof. exact bitset8_ok. Qed.
Print Assumptions C02_set.
Theorem C02_res : forall cpu b v, 0 <= b < 8 -> is8 v -> bitres8 cpu b v = res8 b v.
Proof. exact bitres8_ok. Qed.
Print Assumptions C02_res.
(* the outcome is the same function of (A, operand value, F) whatever the operand encoding:
   B C D E H L A, (HL), immediate, IXH/IXL/IYH/IYL, (IX+d), (IY+d) -- and C01 ties every such encoding of the
   real code to this one specification clause *)
Theorem C02_same_for_every_operand_encoding : forall u m o s cpu,
  exec u m (ALU8 o s) cpu =
  let '(cpu', v) := rd_opnd m (is_mem s) s cpu in
  set_F (set_A cpu' (fst (alu8 o (get_A cpu') v (get_F cpu')))) (snd (alu8 o (get_A cpu') v (get_F cpu'))).
Proof. exact alu_any_operand. Qed.
Print Assumptions C02_same_for_every_operand_encoding.
Theorem C02_tie : forall cpu, WF cpu -> executeOne cpu = step_instr impl_unspec cpu.
Proof. exact executeOne_ok. Qed.
Print Assumptions C02_tie.
