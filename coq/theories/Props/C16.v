(* Props/C16.v -- property C16: flag and register accessors touch exactly the named bits.
   Statements only; proofs are in Proofs/C16.v.  The functions GPR_GetFlag, GPR_SetFlag, GPR_ResetFlag,
   Register_SetU16, Register_U16 and the constants const_Flag* are GENERATED from flag.go / z80.go. *)
From Z80V Require Import Proofs.C16.

Theorem C16_GetFlag : forall g m, is8 (F_of g) -> is8 m ->
  (GPR_GetFlag g m = true <-> exists k, 0 <= k < 8 /\ Z.testbit m k = true /\ Z.testbit (F_of g) k = true).
Proof. exact GetFlag_correct. Qed.
Print Assumptions C16_GetFlag.

Theorem C16_SetFlag : forall g m, is8 (F_of g) -> is8 m ->
  let g' := GPR_SetFlag g m in
  (forall k, Z.testbit (F_of g') k = Z.testbit (F_of g) k || Z.testbit m k) /\ is8 (F_of g') /\
  A_of g' = A_of g /\ GPR_BC g' = GPR_BC g /\ GPR_DE g' = GPR_DE g /\ GPR_HL g' = GPR_HL g.
Proof. exact SetFlag_correct. Qed.
Print Assumptions C16_SetFlag.

Theorem C16_ResetFlag : forall g m, is8 (F_of g) -> is8 m ->
  let g' := GPR_ResetFlag g m in
  (forall k, Z.testbit (F_of g') k = Z.testbit (F_of g) k && negb (Z.testbit m k)) /\ is8 (F_of g') /\
  A_of g' = A_of g /\ GPR_BC g' = GPR_BC g /\ GPR_DE g' = GPR_DE g /\ GPR_HL g' = GPR_HL g.
Proof. exact ResetFlag_correct. Qed.
Print Assumptions C16_ResetFlag.

Theorem C16_flag_constants :
  (const_FlagC, const_FlagN, const_FlagPV, const_Flag3, const_FlagH, const_Flag5, const_FlagZ, const_FlagS)
  = (1, 2, 4, 8, 16, 32, 64, 128).
Proof. exact flag_constants. Qed.
Print Assumptions C16_flag_constants.

Theorem C16_SetU16_U16 : forall r v, is16 v ->
  let r' := Register_SetU16 r v in
  Register_U16 r' = v /\ Register_Hi r' = v / 256 /\ Register_Lo r' = v mod 256.
Proof. exact SetU16_U16. Qed.
Print Assumptions C16_SetU16_U16.
