(* Props/C03.v -- property C03: 16-bit arithmetic is exact for every operand pair and carry.
   addU16 / adcU16 / sbcU16 are GENERATED from accum.go.  The 2^33 combinations are not enumerated: the proof
   (Proofs/H16.v) splits words into bytes, shows symbolically that flags depend on the high bytes and the
   carry/borrow out of the low bytes only, and enumerates that 2^17 space. *)
From Z80V Require Import Proofs.SpecFacts.

(* ADD HL/IX/IY,ss: low word of the 17-bit sum, H = carry out of bit 11, C = carry out of bit 15, N = 0,
   bits 5,3 from the high byte of the result, S Z P/V untouched *)
Theorem C03_add16 : forall cpu a b, is16 a -> is16 b -> is8 (g_AF_Lo cpu) ->
  addU16 cpu a b = (s_AF_Lo cpu (snd (add16 a b (g_AF_Lo cpu))), fst (add16 a b (g_AF_Lo cpu))).
Proof. exact addU16_ok. Qed.
Print Assumptions C03_add16.
Theorem C03_adc16 : forall cpu a b, is16 a -> is16 b -> is8 (g_AF_Lo cpu) ->
  adcU16 cpu a b = (s_AF_Lo cpu (snd (adc16 a b (Z.land (g_AF_Lo cpu) FC))), fst (adc16 a b (Z.land (g_AF_Lo cpu) FC))).
Proof. exact adcU16_ok. Qed.
Print Assumptions C03_adc16.
Theorem C03_sbc16 : forall cpu a b, is16 a -> is16 b -> is8 (g_AF_Lo cpu) ->
  sbcU16 cpu a b = (s_AF_Lo cpu (snd (sbc16 a b (Z.land (g_AF_Lo cpu) FC))), fst (sbc16 a b (Z.land (g_AF_Lo cpu) FC))).
Proof. exact sbcU16_ok. Qed.
Print Assumptions C03_sbc16.

(* the specification's clauses: both operands of a doubling form are the same register value; INC/DEC wrap and
   leave F alone (C01 ties every encoding of the real code, incl. the byte-wise INC BC/DE/HL, to these clauses) *)
Theorem C03_add16_clause : forall u m p cpu,
  exec u m (ADD16 p) cpu =
  set_F (set_idx m cpu (fst (add16 (get_idx m cpu) (get_rp m p cpu) (get_F cpu))))
        (snd (add16 (get_idx m cpu) (get_rp m p cpu) (get_F cpu))).
Proof. intros. cbn [exec]. destruct (add16 _ _ _). reflexivity. Qed.
Print Assumptions C03_add16_clause.
Theorem C03_doubling_uses_one_value : forall m cpu, get_rp m pHL cpu = get_idx m cpu.
Proof. reflexivity. Qed.
Print Assumptions C03_doubling_uses_one_value.
Theorem C03_inc16_dec16_clause : forall u m p cpu,
  exec u m (INC16 p) cpu = set_rp m p cpu (u16 (get_rp m p cpu + 1)) /\
  exec u m (DEC16 p) cpu = set_rp m p cpu (u16 (get_rp m p cpu - 1)).
Proof. intros; split; reflexivity. Qed.
Print Assumptions C03_inc16_dec16_clause.
Theorem C03_inc16_dec16_keep_F : forall m p cpu w, p <> pAF -> get_F (set_rp m p cpu w) = get_F cpu.
Proof. intros m p cpu w Hp. destruct p; try congruence; destruct m; reflexivity. Qed.
Print Assumptions C03_inc16_dec16_keep_F.
(* the byte-wise increment of a register pair used by INC BC/DE/HL is the 16-bit increment *)
Theorem C03_bytewise_inc : forall r, is8 (Register_Hi r) -> is8 (Register_Lo r) ->
  wreg (u16 (regw r + 1)) =
  if u8 (Register_Lo r + 1) =? 0 then mk_Register (u8 (Register_Hi r + 1)) (u8 (Register_Lo r + 1))
  else mk_Register (Register_Hi r) (u8 (Register_Lo r + 1)).
Proof. exact wreg_inc16. Qed.
Print Assumptions C03_bytewise_inc.
Theorem C03_bytewise_dec : forall r, is8 (Register_Hi r) -> is8 (Register_Lo r) ->
  wreg (u16 (regw r - 1)) =
  if u8 (Register_Lo r - 1) =? 255 then mk_Register (u8 (Register_Hi r - 1)) (u8 (Register_Lo r - 1))
  else mk_Register (Register_Hi r) (u8 (Register_Lo r - 1)).
Proof. exact wreg_dec16. Qed.
Print Assumptions C03_bytewise_dec.
Theorem C03_tie : forall cpu, WF cpu -> executeOne cpu = step_instr impl_unspec cpu.
Proof. exact executeOne_ok. Qed.
Print Assumptions C03_tie.
(* non-vacuity *)
Example C03_example : snd (adc16 0x7FFF 0x0000 1) = 0x80 + 0x10 + 0x04 /\ fst (sbc16 0 0 1) = 0xFFFF /\ snd (add16 0x0FFF 1 0xFF) = 0xC4 + 0x10.
Proof. vm_compute. repeat split. Qed.
