(* Props/C05.v -- property C05: each Step makes exactly the instruction's memory and port accesses.
   The access log (trace, newest first: EvRd/EvWr reach the user's Memory, EvIn/EvOut the user's IO) is part of
   the machine state, so C05_tie fixes the exact log of every Step of the real code; the clauses spell out what the
   specification's log is for the cases the property names.  (The property constrains the multiset of accesses; the
   theorem fixes their order as well -- a harmless reordering inside one Step breaks the proof without violating C05;
   the failing-input search then compares multisets and reports no-failing-input-found.) *)
From Z80V Require Import Proofs.SpecFacts Proofs.Halted Proofs.Iter.

Theorem C05_tie : forall cpu, WF cpu -> Step cpu = spec_step impl_unspec cpu.
Proof. exact Step_ok. Qed.
Print Assumptions C05_tie.
(* each instruction byte is read exactly once, at PC (then PC+1 ... modulo 65536) *)
Theorem C05_fetch_reads_pc_once : forall cpu, g_Memory cpu = UserMem ->
  new_events (g_W cpu) (g_W (fst (fetch8 cpu))) = [EvRd (g_PC cpu) (snd (fetch8 cpu))].
Proof. exact fetch8_log. Qed.
Print Assumptions C05_fetch_reads_pc_once.
(* untaken conditional JP / CALL / RET touch neither target nor stack *)
Theorem C05_untaken_jp : forall u m c cpu, g_Memory cpu = UserMem -> cond c (get_F cpu) = false ->
  new_events (g_W cpu) (g_W (exec u m (JP_cc c) cpu)) =
  [EvRd (inc16 (g_PC cpu)) (u8 (ram (g_W cpu) (inc16 (g_PC cpu)))); EvRd (g_PC cpu) (u8 (ram (g_W cpu) (g_PC cpu)))].
Proof. exact jp_cc_untaken_log. Qed.
Print Assumptions C05_untaken_jp.
Theorem C05_untaken_call : forall u m c cpu, g_Memory cpu = UserMem -> cond c (get_F cpu) = false ->
  new_events (g_W cpu) (g_W (exec u m (CALL_cc c) cpu)) =
  [EvRd (inc16 (g_PC cpu)) (u8 (ram (g_W cpu) (inc16 (g_PC cpu)))); EvRd (g_PC cpu) (u8 (ram (g_W cpu) (g_PC cpu)))].
Proof. exact call_cc_untaken_log. Qed.
Print Assumptions C05_untaken_call.
Theorem C05_untaken_ret : forall u m c cpu, cond c (get_F cpu) = false ->
  new_events (g_W cpu) (g_W (exec u m (RET_cc c) cpu)) = [].
Proof. exact ret_cc_untaken_log. Qed.
Print Assumptions C05_untaken_ret.
(* read-modify-write: read once, then write once, same address *)
Theorem C05_read_modify_write : forall u cpu, g_Memory cpu = UserMem ->
  let a := regw (g_HL cpu) in let x := u8 (ram (g_W cpu) a) in
  new_events (g_W cpu) (g_W (exec u MHL (INC8 MemHL) cpu)) = [EvWr a (fst (inc8 x (get_F cpu))); EvRd a x].
Proof. exact inc_hl_log. Qed.
Print Assumptions C05_read_modify_write.
(* 16-bit accesses touch addr and addr+1 modulo 65536 *)
Theorem C05_word_write : forall cpu a w, g_Memory cpu = UserMem ->
  new_events (g_W cpu) (g_W (wr16 cpu a w)) = [EvWr (inc16 a) (hi w); EvWr a (lo w)].
Proof. exact wr16_log. Qed.
Print Assumptions C05_word_write.
(* ports: register C for IN r,(C), OUT (C),r and the block I/O instructions; the device's byte is the byte loaded/stored *)
Theorem C05_in_r_c : forall u r cpu, g_IO cpu = true ->
  let v := u8 (hd 0 (inputs (g_W cpu))) in
  new_events (g_W cpu) (g_W (exec u MHL (IN_r_C r) cpu)) = [EvIn (g_BC_Lo cpu) v] /\
  (r <> rC -> get_r r (exec u MHL (IN_r_C r) cpu) = v).
Proof. exact in_r_c_log. Qed.
Print Assumptions C05_in_r_c.
Theorem C05_out_c_r : forall u r cpu, g_IO cpu = true ->
  new_events (g_W cpu) (g_W (exec u MHL (OUT_C_r r) cpu)) = [EvOut (g_BC_Lo cpu) (get_r r cpu)].
Proof. exact out_c_r_log. Qed.
Print Assumptions C05_out_c_r.
Theorem C05_block_in : forall u dec rep cpu, g_IO cpu = true -> g_Memory cpu = UserMem ->
  let v := u8 (hd 0 (inputs (g_W cpu))) in
  new_events (g_W cpu) (g_W (exec u MHL (BLOCK BIN dec rep) cpu)) = [EvWr (regw (g_HL cpu)) v; EvIn (g_BC_Lo cpu) v].
Proof. exact block_in_log. Qed.
Print Assumptions C05_block_in.
Theorem C05_block_out : forall u dec rep cpu, g_IO cpu = true -> g_Memory cpu = UserMem ->
  let v := u8 (ram (g_W cpu) (regw (g_HL cpu))) in
  new_events (g_W cpu) (g_W (exec u MHL (BLOCK BOUT dec rep) cpu)) = [EvOut (g_BC_Lo cpu) v; EvRd (regw (g_HL cpu)) v].
Proof. exact block_out_log. Qed.
Print Assumptions C05_block_out.

(* ---- over ANY number of Steps of the generated code spent on a HALT opcode: the access log grows by exactly one read of the
   opcode byte at PC per Step (the log is newest first) -- no other read, no write, no port access, no device input consumed ---- *)
Theorem C05_halted_accesses : forall n cpu, WF cpu -> g_Memory cpu = UserMem -> g_Interrupt cpu = None ->
  u8 (ram (g_W cpu) (g_PC cpu)) = 118 ->
  trace (g_W (iter n cpu)) = repeat (EvRd (g_PC cpu) 118) n ++ trace (g_W cpu) /\
  inputs (g_W (iter n cpu)) = inputs (g_W cpu).
Proof. exact halted_trace_gen. Qed.
Print Assumptions C05_halted_accesses.
