(* Props/C01.v -- property C01: every implemented instruction has exactly its Z80-defined effect in every state.
   Step, executeOne and all handlers are GENERATED from the Go source by go2coq on every run; spec_step / step_instr /
   exec / decode_* are the hand-written Z80 semantics (Spec/).  Equality is equality of whole machine states:
   all registers, flags, IFF/IM/HALT, the memory contents and the ordered log of memory and port accesses. *)
From Z80V Require Import Proofs.SpecFacts.

(* one Step of the real code = one step of the specification, for every well-formed state (all register values,
   all 256 F values, PC/SP anywhere, any memory contents, any device input stream, any pending request) *)
Theorem C01_Step_is_the_specification : forall cpu, WF cpu -> Step cpu = spec_step impl_unspec cpu.
Proof. exact Step_ok. Qed.
Print Assumptions C01_Step_is_the_specification.

Theorem C01_executeOne_is_the_specification : forall cpu, WF cpu -> executeOne cpu = step_instr impl_unspec cpu.
Proof. exact executeOne_ok. Qed.
Print Assumptions C01_executeOne_is_the_specification.

(* the quantifier: 936 implemented encodings in the seven decode tables; everything else decodes to INVALID *)
Theorem C01_implemented_encodings :
  (count_impl decode_main, count_impl decode_cb, count_impl decode_ed, count_impl decode_idx, count_impl decode_idxcb)
  = (256, 256, 58, 151, 32) /\ 256 + 256 + 58 + 151 + 151 + 32 + 32 = 936.
Proof. exact implemented_count. Qed.
Print Assumptions C01_implemented_encodings.

(* the bits the Z80 leaves open can influence only SCF, CCF, BIT on a memory operand and the block I/O flags ... *)
Theorem C01_unspecified_bits_confined : forall u u' m i cpu,
  unspec_sensitive i = false -> exec u m i cpu = exec u' m i cpu.
Proof. exact exec_unspec_confined. Qed.
Print Assumptions C01_unspecified_bits_confined.
(* ... and there only bits 5 and 3 of F: S Z H P/V N C of SCF/CCF are the same for every choice *)
Theorem C01_scf_ccf_specified_bits : forall f x x', is8 f -> is8 x -> is8 x' ->
  Z.land (scf8 f x) 215 = Z.land (scf8 f x') 215 /\ Z.land (ccf8 f x) 215 = Z.land (ccf8 f x') 215.
Proof. intros f x x' Hf Hx Hx'. split; [exact (scf_specified f x x' Hf Hx Hx') | exact (ccf_specified f x x' Hf Hx Hx')]. Qed.
Print Assumptions C01_scf_ccf_specified_bits.

(* non-vacuity: the all-zero machine is well formed *)
Theorem C01_wf_inhabited : WF cpu0.
Proof. exact cpu0_WF. Qed.
Print Assumptions C01_wf_inhabited.
