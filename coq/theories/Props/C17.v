(* C17 - the Go exerciser tables are exactly the canonical zexdoc/zexall cases.
   Statements only; proofs are in Zex/Proofs.v. *)
From Coq Require Import ZArith List.
From Z80V Require Import Zex.Model Zex.Pinned Zex.Proofs Gen.ZexData.
Import ListNotations.
Open Scope Z_scope.

(* the records reached through the test-pointer table of the image, decoded, are the Go table - all of them, in order *)
Theorem zexdoc_cases_canonical : parse_image zexdoc_cim = Some go_doc_cases.
Proof. exact zexdoc_parse_go. Qed.
Print Assumptions zexdoc_cases_canonical.

Theorem zexall_cases_canonical : parse_image zexall_cim = Some go_all_cases.
Proof. exact zexall_parse_go. Qed.
Print Assumptions zexall_cases_canonical.

(* byte for byte: the 65 bytes mask|base|inc|shift|crc of every image record are the encoding of the Go table entry *)
Theorem zexdoc_bytes_canonical : image_fixed_bytes zexdoc_cim = Some (map encode_fixed go_doc_cases).
Proof. exact zexdoc_bytes_go. Qed.
Print Assumptions zexdoc_bytes_canonical.

Theorem zexall_bytes_canonical : image_fixed_bytes zexall_cim = Some (map encode_fixed go_all_cases).
Proof. exact zexall_bytes_go. Qed.
Print Assumptions zexall_bytes_canonical.

Theorem exerciser_case_counts : length go_doc_cases = 67%nat /\ length go_all_cases = 67%nat.
Proof. exact go_counts. Qed.
Print Assumptions exerciser_case_counts.

(* pinned copy: neither the tables nor the images moved away from the pristine 2 x 67 records *)
Theorem go_doc_cases_pinned : go_doc_cases = pinned_doc.
Proof. exact go_doc_pinned. Qed.
Print Assumptions go_doc_cases_pinned.

Theorem go_all_cases_pinned : go_all_cases = pinned_all.
Proof. exact go_all_pinned. Qed.
Print Assumptions go_all_cases_pinned.

Theorem zexdoc_image_pinned : parse_image zexdoc_cim = Some pinned_doc.
Proof. exact zexdoc_parse_pinned. Qed.
Print Assumptions zexdoc_image_pinned.

Theorem zexall_image_pinned : parse_image zexall_cim = Some pinned_all.
Proof. exact zexall_parse_pinned. Qed.
Print Assumptions zexall_image_pinned.

(* the bytes the Go iterator really uses (Status.Bytes()) are the bytes of the compared fields *)
Theorem go_doc_bytes_consistent : map vec_bytes go_doc_cases = go_doc_bytes.
Proof. exact go_doc_bytes_ok. Qed.
Print Assumptions go_doc_bytes_consistent.

Theorem go_all_bytes_consistent : map vec_bytes go_all_cases = go_all_bytes.
Proof. exact go_all_bytes_ok. Qed.
Print Assumptions go_all_bytes_consistent.

(* general: decoding is a two-sided inverse of encoding, for ALL records *)
Theorem record_round_trip : forall c tail, case_ok c -> decode_case (encode_case c ++ tail) = Some c.
Proof. exact decode_encode_case. Qed.
Print Assumptions record_round_trip.

Theorem record_bytes_determined : forall l m b i s crc rest,
  Forall byte_ok l -> decode_fixed l = Some (m, b, i, s, crc, rest) ->
  l = encode_fixed (mkCase m b i s crc []) ++ rest.
Proof. exact decode_fixed_bytes. Qed.
Print Assumptions record_bytes_determined.

Theorem tables_well_formed : Forall case_ok go_doc_cases /\ Forall case_ok go_all_cases.
Proof. exact go_cases_ok. Qed.
Print Assumptions tables_well_formed.

Theorem images_are_bytes : Forall byte_ok zexdoc_cim /\ Forall byte_ok zexall_cim.
Proof. exact images_bytes. Qed.
Print Assumptions images_are_bytes.

Theorem no_duplicate_cases : NoDup (map cdesc pinned_doc) /\ NoDup (map cdesc pinned_all).
Proof. exact no_duplicate_descriptions. Qed.
Print Assumptions no_duplicate_cases.

Theorem doc_and_all_are_the_same_tests : map strip pinned_doc = map strip pinned_all.
Proof. exact doc_all_same_tests. Qed.
Print Assumptions doc_and_all_are_the_same_tests.
