(* Props/C06.v -- property C06: interrupt requests are accepted, refused, dispatched and retired per Z80 rules.
   C06_tie: the generated Step IS spec_step; the clauses are theorems about spec_step / try_interrupt. *)
From Z80V Require Import Proofs.SpecFacts Proofs.Frame Proofs.Deferred Proofs.Iter.

Theorem C06_tie : forall cpu, WF cpu -> Step cpu = spec_step impl_unspec cpu.
Proof. exact Step_ok. Qed.
Print Assumptions C06_tie.

(* an NMI is always accepted: PC pushed, PC = 0x0066, IFF2 := old IFF1, IFF1 := 0; the request is consumed and no
   program instruction runs in that Step *)
Theorem C06_nmi : forall u cpu irq, g_Interrupt cpu = Some irq -> Interrupt_Type irq = 0 ->
  spec_step u cpu = s_Interrupt (s_IFF1 (s_IFF2 (s_PC (push16_lowfirst cpu (g_PC cpu)) 102) (g_IFF1 cpu)) false) None.
Proof. intros u cpu irq E T. unfold spec_step, try_interrupt, NMI_type. rewrite E, T. reflexivity. Qed.
Print Assumptions C06_nmi.
(* a maskable request is refused when IFF1 is clear: the Step is an ordinary instruction step *)
Theorem C06_refused : forall u cpu irq, g_Interrupt cpu = Some irq -> Interrupt_Type irq <> 0 -> g_IFF1 cpu = false ->
  spec_step u cpu = step_instr u cpu.
Proof.
  intros u cpu irq E T F. unfold spec_step, try_interrupt, NMI_type. rewrite E.
  destruct (Z.eqb_spec (Interrupt_Type irq) 0); [contradiction|]. rewrite F. reflexivity.
Qed.
Print Assumptions C06_refused.
(* mode 1: accepted iff IFF1; pushes PC, jumps to 0x0038, clears both flip-flops *)
Theorem C06_mode1 : forall u cpu irq, g_Interrupt cpu = Some irq -> Interrupt_Type irq <> 0 -> g_IFF1 cpu = true -> g_IM cpu = 1 ->
  spec_step u cpu = s_Interrupt (s_IFF2 (s_IFF1 (s_PC (push16_lowfirst cpu (g_PC cpu)) 56) false) false) None.
Proof.
  intros u cpu irq E T F M. unfold spec_step, try_interrupt, NMI_type. rewrite E.
  destruct (Z.eqb_spec (Interrupt_Type irq) 0); [contradiction|]. rewrite F, M. reflexivity.
Qed.
Print Assumptions C06_mode1.
(* mode 2: pushes PC, jumps to the word stored at I*256 + (vector with bit 0 cleared), clears both flip-flops *)
Theorem C06_mode2 : forall u cpu irq v vs, g_Interrupt cpu = Some irq -> Interrupt_Type irq <> 0 -> g_IFF1 cpu = true ->
  g_IM cpu = 2 -> Interrupt_Data irq = v :: vs ->
  spec_step u cpu = s_Interrupt (accept_im2 cpu v) None /\
  accept_im2 cpu v =
    (let cpu1 := push16_lowfirst cpu (g_PC cpu) in
     let '(cpu2, a) := rd16 cpu1 (mk16 (g_IR_Hi cpu1) (Z.land v 254)) in
     s_IFF2 (s_IFF1 (s_PC cpu2 a) false) false).
Proof.
  intros u cpu irq v vs E T F M D. split; [|reflexivity]. unfold spec_step, try_interrupt, NMI_type. rewrite E.
  destruct (Z.eqb_spec (Interrupt_Type irq) 0); [contradiction|]. rewrite F, M, D. reflexivity.
Qed.
Print Assumptions C06_mode2.
(* mode 0: the supplied instruction is executed (by this emulator: laid over memory at PC for one instruction),
   both flip-flops cleared, request consumed *)
Theorem C06_mode0 : forall u cpu irq d ds, g_Interrupt cpu = Some irq -> Interrupt_Type irq <> 0 -> g_IFF1 cpu = true ->
  g_IM cpu = 0 -> Interrupt_Data irq = d :: ds ->
  spec_step u cpu = s_Interrupt (accept_im0 u cpu (d :: ds)) None.
Proof.
  intros u cpu irq d ds E T F M D. unfold spec_step, try_interrupt, NMI_type. rewrite E.
  destruct (Z.eqb_spec (Interrupt_Type irq) 0); [contradiction|]. rewrite F, M, D. reflexivity.
Qed.
Print Assumptions C06_mode0.
(* EI / DI set / clear both flip-flops; RETN copies IFF2 into IFF1; RETN / RETI notify their handler exactly once *)
Theorem C06_ei_di : forall u m cpu,
  exec u m EI cpu = s_IFF2 (s_IFF1 cpu true) true /\ exec u m DI cpu = s_IFF2 (s_IFF1 cpu false) false.
Proof. intros; split; reflexivity. Qed.
Print Assumptions C06_ei_di.
Theorem C06_retn_reti_notify : forall u m cpu, g_RETNHandler cpu = true -> g_RETIHandler cpu = true -> g_Memory cpu = UserMem ->
  (exists rest, new_events (g_W cpu) (g_W (exec u m RETN cpu)) = rest ++ [EvRETN] /\ ~ In EvRETN rest /\ ~ In EvRETI rest) /\
  (exists rest, new_events (g_W cpu) (g_W (exec u m RETI cpu)) = rest ++ [EvRETI] /\ ~ In EvRETN rest /\ ~ In EvRETI rest) /\
  g_IFF1 (exec u m RETN cpu) = g_IFF2 cpu.
Proof. exact retn_reti_log. Qed.
Print Assumptions C06_retn_reti_notify.
(* non-vacuity: a state in which a mode-2 request is accepted *)
Example C06_example :
  let cpu := s_IR_Hi (s_IM (s_IFF1 (s_Interrupt cpu0 (Some (mk_Interrupt 1 [18]))) true) 2) 64 in
  g_PC (spec_step impl_unspec cpu) = 0 /\ g_IFF1 (spec_step impl_unspec cpu) = false /\ g_Interrupt (spec_step impl_unspec cpu) = None.
Proof. vm_compute. repeat split. Qed.

(* ---- requests over time ----
   a refused maskable request is still pending, unchanged, after the Step (which was the plain instruction step): it is
   therefore offered again at every following boundary until IFF1 is set; an accepted request is retired; with nothing
   pending nothing appears.  Together with C06_tie / iter_ok these hold for the generated Step along any execution. *)
Theorem C06_refused_request_stays : forall u cpu irq, g_Interrupt cpu = Some irq -> Interrupt_Type irq <> 0 -> g_IFF1 cpu = false ->
  spec_step u cpu = step_instr u cpu /\ g_Interrupt (spec_step u cpu) = Some irq.
Proof. exact refused_request_stays. Qed.
Print Assumptions C06_refused_request_stays.
Theorem C06_accepted_request_retired : forall u cpu irq, g_Interrupt cpu = Some irq ->
  (Interrupt_Type irq = 0 \/ (g_IFF1 cpu = true /\ (g_IM cpu = 0 \/ g_IM cpu = 1 \/ g_IM cpu = 2))) ->
  g_Interrupt (spec_step u cpu) = None.
Proof. exact accepted_request_retired. Qed.
Print Assumptions C06_accepted_request_retired.
Theorem C06_no_request_appears : forall u cpu, g_Interrupt cpu = None -> g_Interrupt (spec_step u cpu) = None.
Proof. exact no_request_appears. Qed.
Print Assumptions C06_no_request_appears.
Theorem C06_generated_steps : forall n cpu, WF cpu -> iter n cpu = spec_iter impl_unspec n cpu /\ WF (iter n cpu).
Proof. intros n cpu H. split; [apply iter_ok, H | apply iter_WF, H]. Qed.
Print Assumptions C06_generated_steps.

(* ---- a maskable request arriving while interrupts are disabled (IFF1 = 0, mode 1), the program about to execute EI, for the
   generated Step: Step 1 refuses it, leaves it pending and runs EI (nothing pushed); Step 2 accepts it: the address pushed is that
   of the first instruction not yet executed (the one after EI), control goes to 0038h, both flip-flops cleared, request consumed,
   no program instruction runs in that Step (R advanced only by EI's fetch) ---- *)
Theorem C06_deferred_request_served_after_ei : forall cpu dat, WF cpu -> g_Memory cpu = UserMem ->
  g_Interrupt cpu = Some (mk_Interrupt 1 dat) -> g_IFF1 cpu = false -> g_IM cpu = 1 ->
  u8 (ram (g_W cpu) (g_PC cpu)) = 251 ->
  let next := u16 (g_PC cpu + 1) in
  let sp2 := u16 (g_SP cpu - 2) in let sp1 := u16 (sp2 + 1) in
  let cpu1 := iter 1 cpu in let cpu2 := iter 2 cpu in
  (g_Interrupt cpu1 = Some (mk_Interrupt 1 dat) /\ g_IFF1 cpu1 = true /\ g_IFF2 cpu1 = true /\ g_PC cpu1 = next /\
   g_SP cpu1 = g_SP cpu /\ ram (g_W cpu1) = ram (g_W cpu)) /\
  (g_Interrupt cpu2 = None /\ g_IFF1 cpu2 = false /\ g_IFF2 cpu2 = false /\ g_PC cpu2 = 56 /\ g_SP cpu2 = sp2 /\
   g_GPR cpu2 = g_GPR cpu /\ g_Alternate cpu2 = g_Alternate cpu /\ g_IX cpu2 = g_IX cpu /\ g_IY cpu2 = g_IY cpu /\
   g_IM cpu2 = g_IM cpu /\ g_IR_Hi cpu2 = g_IR_Hi cpu /\ g_IR_Lo cpu2 = r_tick (g_IR_Lo cpu) /\
   ram (g_W cpu2) = upd (upd (ram (g_W cpu)) sp2 (lo next)) sp1 (hi next)).
Proof. exact deferred_im1_gen. Qed.
Print Assumptions C06_deferred_request_served_after_ei.
Example C06_deferred_premises_hold :
  WF deferred_demo /\ g_Memory deferred_demo = UserMem /\ g_Interrupt deferred_demo = Some (mk_Interrupt 1 []) /\
  g_IFF1 deferred_demo = false /\ g_IM deferred_demo = 1 /\ u8 (ram (g_W deferred_demo) (g_PC deferred_demo)) = 251.
Proof. exact deferred_demo_premises. Qed.
