(* Props/C07.v -- property C07: an interrupt at any instruction boundary is transparent to the running program.
   Proved: the "equivalently" clause -- the return address pushed on acceptance (NMI, mode 1, mode 2) is the PC at the
   boundary, i.e. the address of the first instruction not yet executed, including between the repetitions of a block
   instruction and while parked on HALT (both leave PC on the instruction).  For mode 0 the clause is REFUTED for this
   emulator (known findings D3/D4): the supplied bytes are run through an overlay at PC, so RST/CALL push PC + length.
   The whole-program statement (same final registers/flags/IFF/memory for every injection point) is the experiment
   of checks/c07.py on the real code. *)
From Z80V Require Import Proofs.SpecFacts Proofs.RoundTrip Proofs.Deferred Proofs.Iter.

Theorem C07_tie : forall cpu, WF cpu -> Step cpu = spec_step impl_unspec cpu.
Proof. exact Step_ok. Qed.
Print Assumptions C07_tie.
(* NMI, mode 1, mode 2: what is pushed is the boundary PC; where it goes: low byte at SP-2, high byte at SP-1 *)
Theorem C07_pushed_is_boundary_pc : forall cpu v,
  accept_nmi cpu = s_IFF1 (s_IFF2 (s_PC (push16_lowfirst cpu (g_PC cpu)) 102) (g_IFF1 cpu)) false /\
  accept_im1 cpu = s_IFF2 (s_IFF1 (s_PC (push16_lowfirst cpu (g_PC cpu)) 56) false) false /\
  accept_im2 cpu v = (let cpu1 := push16_lowfirst cpu (g_PC cpu) in
                      let '(cpu2, a) := rd16 cpu1 (mk16 (g_IR_Hi cpu1) (Z.land v 254)) in
                      s_IFF2 (s_IFF1 (s_PC cpu2 a) false) false) /\
  push16_lowfirst cpu (g_PC cpu) =
    s_SP (wr (wr cpu (u16 (g_SP cpu - 2)) (lo (g_PC cpu))) (inc16 (u16 (g_SP cpu - 2))) (hi (g_PC cpu))) (u16 (g_SP cpu - 2)).
Proof. intros. split; [reflexivity|]. split; [reflexivity|]. split; [reflexivity|]. apply push16_lowfirst_spec. Qed.
Print Assumptions C07_pushed_is_boundary_pc.
(* a repeating block instruction with work left ends its Step with PC back on its own first byte; HALT likewise *)
Theorem C07_block_repeat_keeps_pc : forall u m k dec cpu, block_again k (block_step u k dec cpu) = true ->
  g_PC (exec u m (BLOCK k dec true) cpu) = u16 (g_PC (block_step u k dec cpu) - 2).
Proof. intros u m k dec cpu H. cbn [exec andb]. rewrite H. reflexivity. Qed.
Print Assumptions C07_block_repeat_keeps_pc.
Theorem C07_block_step_keeps_pc : forall u k dec cpu, g_PC (block_step u k dec cpu) = g_PC cpu.
Proof. exact block_step_pc. Qed.
Print Assumptions C07_block_step_keeps_pc.
Theorem C07_pc_back_on_instruction : forall pc, is16 pc -> u16 (u16 (u16 (pc + 1) + 1) - 2) = pc /\ dec16 (inc16 pc) = pc.
Proof.
  intros pc H. unfold dec16, inc16. rewrite u16_add_u16_l, !u16_sub_u16_l.
  replace (pc + 1 + 1 - 2) with pc by lia. replace (pc + 1 - 1) with pc by lia. split; apply u16_id; exact H.
Qed.
Print Assumptions C07_pc_back_on_instruction.
Theorem C07_halt_keeps_pc : forall u m cpu, exec u m HALT cpu = s_HALT (s_PC cpu (dec16 (g_PC cpu))) true.
Proof. reflexivity. Qed.
Print Assumptions C07_halt_keeps_pc.
(* mode 0: the clause fails for this emulator -- RST 38h supplied at PC = 0x0100 pushes 0x0101 (known finding D3) *)
Definition im0_witness : CPU :=
  s_SP (s_PC (s_IM (s_IFF1 (s_Interrupt cpu0 (Some (mk_Interrupt 1 [255]))) true) 0) 256) 36864.
Theorem C07_mode0_resume_address_refuted :
  WF im0_witness /\
  let cpu' := spec_step impl_unspec im0_witness in
  g_PC cpu' = 56 /\ mk16 (u8 (ram (g_W cpu') 36863)) (u8 (ram (g_W cpu') 36862)) = 257 /\ g_PC im0_witness = 256.
Proof. split; [|vm_compute; repeat split]. cbv [WF WF_gpr WF_reg WF_mem WF_irq im0_witness cpu0]; cbv_struct; unfold is8, is16; repeat split; try lia; repeat constructor; lia. Qed.
Print Assumptions C07_mode0_resume_address_refuted.

(* ---- the whole round trip, for the GENERATED Step (iter n = n calls of Step) ----
   NMI accepted at a boundary, handler RETN at 0066h: two Steps later every register, flag, index register, SP and PC
   of the interrupted program is back; IFF1 is the IFF1 before the NMI; the only traces are the two bytes below SP,
   R (+2) and IFF2. *)
Theorem C07_nmi_round_trip : forall cpu dat, WF cpu -> g_Memory cpu = UserMem ->
  g_Interrupt cpu = Some (mk_Interrupt 0 dat) ->
  let sp2 := u16 (g_SP cpu - 2) in let sp1 := u16 (sp2 + 1) in
  u8 (ram (g_W cpu) 102) = 237 -> u8 (ram (g_W cpu) 103) = 69 ->
  sp2 <> 102 -> sp2 <> 103 -> sp1 <> 102 -> sp1 <> 103 ->
  let cpu' := iter 2 cpu in
  g_GPR cpu' = g_GPR cpu /\ g_Alternate cpu' = g_Alternate cpu /\ g_IX cpu' = g_IX cpu /\ g_IY cpu' = g_IY cpu /\
  g_SP cpu' = g_SP cpu /\ g_PC cpu' = g_PC cpu /\ g_IFF1 cpu' = g_IFF1 cpu /\ g_IFF2 cpu' = g_IFF1 cpu /\
  g_IM cpu' = g_IM cpu /\ g_IR_Hi cpu' = g_IR_Hi cpu /\ g_IR_Lo cpu' = r_tick (r_tick (g_IR_Lo cpu)) /\
  g_Interrupt cpu' = None /\
  ram (g_W cpu') = upd (upd (ram (g_W cpu)) sp2 (lo (g_PC cpu))) sp1 (hi (g_PC cpu)).
Proof. intros cpu dat H. cbv zeta. rewrite iter_ok by exact H. exact (nmi_round_trip impl_unspec cpu dat H). Qed.
Print Assumptions C07_nmi_round_trip.
(* mode 1, handler EI ; RETI at 0038h: three Steps *)
Theorem C07_im1_round_trip : forall cpu dat, WF cpu -> g_Memory cpu = UserMem ->
  g_Interrupt cpu = Some (mk_Interrupt 1 dat) -> g_IFF1 cpu = true -> g_IM cpu = 1 ->
  let sp2 := u16 (g_SP cpu - 2) in let sp1 := u16 (sp2 + 1) in
  u8 (ram (g_W cpu) 56) = 251 -> u8 (ram (g_W cpu) 57) = 237 -> u8 (ram (g_W cpu) 58) = 77 ->
  sp2 <> 56 -> sp2 <> 57 -> sp2 <> 58 -> sp1 <> 56 -> sp1 <> 57 -> sp1 <> 58 ->
  let cpu' := iter 3 cpu in
  g_GPR cpu' = g_GPR cpu /\ g_Alternate cpu' = g_Alternate cpu /\ g_IX cpu' = g_IX cpu /\ g_IY cpu' = g_IY cpu /\
  g_SP cpu' = g_SP cpu /\ g_PC cpu' = g_PC cpu /\ g_IFF1 cpu' = true /\ g_IFF2 cpu' = true /\
  g_IM cpu' = g_IM cpu /\ g_IR_Hi cpu' = g_IR_Hi cpu /\ g_IR_Lo cpu' = r_tick (r_tick (r_tick (g_IR_Lo cpu))) /\
  g_Interrupt cpu' = None /\
  ram (g_W cpu') = upd (upd (ram (g_W cpu)) sp2 (lo (g_PC cpu))) sp1 (hi (g_PC cpu)).
Proof. intros cpu dat H. cbv zeta. rewrite iter_ok by exact H. exact (im1_round_trip impl_unspec cpu dat H). Qed.
Print Assumptions C07_im1_round_trip.
(* mode 2, handler EI ; RETI at the address stored in the vector table: three Steps *)
Theorem C07_im2_round_trip : forall cpu v dat, WF cpu -> g_Memory cpu = UserMem ->
  g_Interrupt cpu = Some (mk_Interrupt 1 (v :: dat)) -> g_IFF1 cpu = true -> g_IM cpu = 2 ->
  let sp2 := u16 (g_SP cpu - 2) in let sp1 := u16 (sp2 + 1) in
  let t := mk16 (g_IR_Hi cpu) (Z.land v 254) in
  let h := mk16 (u8 (ram (g_W cpu) (u16 (t + 1)))) (u8 (ram (g_W cpu) t)) in
  sp2 <> t -> sp2 <> u16 (t + 1) -> sp1 <> t -> sp1 <> u16 (t + 1) ->
  u8 (ram (g_W cpu) h) = 251 -> u8 (ram (g_W cpu) (u16 (h + 1))) = 237 -> u8 (ram (g_W cpu) (u16 (u16 (h + 1) + 1))) = 77 ->
  sp2 <> h -> sp2 <> u16 (h + 1) -> sp2 <> u16 (u16 (h + 1) + 1) -> sp1 <> h -> sp1 <> u16 (h + 1) -> sp1 <> u16 (u16 (h + 1) + 1) ->
  let cpu' := iter 3 cpu in
  g_GPR cpu' = g_GPR cpu /\ g_Alternate cpu' = g_Alternate cpu /\ g_IX cpu' = g_IX cpu /\ g_IY cpu' = g_IY cpu /\
  g_SP cpu' = g_SP cpu /\ g_PC cpu' = g_PC cpu /\ g_IFF1 cpu' = true /\ g_IFF2 cpu' = true /\
  g_IM cpu' = g_IM cpu /\ g_IR_Hi cpu' = g_IR_Hi cpu /\ g_IR_Lo cpu' = r_tick (r_tick (r_tick (g_IR_Lo cpu))) /\
  g_Interrupt cpu' = None /\
  ram (g_W cpu') = upd (upd (ram (g_W cpu)) sp2 (lo (g_PC cpu))) sp1 (hi (g_PC cpu)).
Proof. intros cpu v dat H. cbv zeta. rewrite iter_ok by exact H. exact (im2_round_trip impl_unspec cpu v dat H). Qed.
Print Assumptions C07_im2_round_trip.
(* the premises are satisfiable *)
Definition nmi_demo : CPU :=
  s_Interrupt (s_W (s_SP (s_PC cpu0 4660) 36864) (mk_World (fun a => if a =? 102 then 237 else if a =? 103 then 69 else 0) [] []))
              (Some (mk_Interrupt 0 [])).
Example C07_premises_hold :
  WF nmi_demo /\ g_Memory nmi_demo = UserMem /\ g_Interrupt nmi_demo = Some (mk_Interrupt 0 []) /\
  u8 (ram (g_W nmi_demo) 102) = 237 /\ u8 (ram (g_W nmi_demo) 103) = 69 /\
  u16 (g_SP nmi_demo - 2) <> 102 /\ u16 (u16 (g_SP nmi_demo - 2) + 1) <> 103.
Proof.
  split.
  - cbv [WF WF_gpr WF_reg WF_mem WF_irq nmi_demo cpu0]; cbv_struct; unfold is8, is16; repeat split; try lia; constructor.
  - repeat split; try reflexivity; vm_compute; discriminate.
Qed.

(* ---- a maskable request arriving while interrupts are disabled (IFF1 = 0, mode 1), the program about to execute EI, for the
   generated Step: Step 1 refuses it, leaves it pending and runs EI (nothing pushed); Step 2 accepts it: the address pushed is that
   of the first instruction not yet executed (the one after EI), control goes to 0038h, both flip-flops cleared, request consumed,
   no program instruction runs in that Step (R advanced only by EI's fetch) ---- *)
Theorem C07_deferred_request_served_after_ei : forall cpu dat, WF cpu -> g_Memory cpu = UserMem ->
  g_Interrupt cpu = Some (mk_Interrupt 1 dat) -> g_IFF1 cpu = false -> g_IM cpu = 1 ->
  u8 (ram (g_W cpu) (g_PC cpu)) = 251 ->
  let next := u16 (g_PC cpu + 1) in
  let sp2 := u16 (g_SP cpu - 2) in let sp1 := u16 (sp2 + 1) in
  let cpu1 := iter 1 cpu in let cpu2 := iter 2 cpu in
  (g_Interrupt cpu1 = Some (mk_Interrupt 1 dat) /\ g_IFF1 cpu1 = true /\ g_IFF2 cpu1 = true /\ g_PC cpu1 = next /\
   g_SP cpu1 = g_SP cpu /\ ram (g_W cpu1) = ram (g_W cpu)) /\
  (g_Interrupt cpu2 = None /\ g_IFF1 cpu2 = false /\ g_IFF2 cpu2 = false /\ g_PC cpu2 = 56 /\ g_SP cpu2 = sp2 /\
   g_GPR cpu2 = g_GPR cpu /\ g_Alternate cpu2 = g_Alternate cpu /\ g_IX cpu2 = g_IX cpu /\ g_IY cpu2 = g_IY cpu /\
   g_IM cpu2 = g_IM cpu /\ g_IR_Hi cpu2 = g_IR_Hi cpu /\ g_IR_Lo cpu2 = r_tick (g_IR_Lo cpu) /\
   ram (g_W cpu2) = upd (upd (ram (g_W cpu)) sp2 (lo next)) sp1 (hi next)).
Proof. exact deferred_im1_gen. Qed.
Print Assumptions C07_deferred_request_served_after_ei.
Example C07_deferred_premises_hold :
  WF deferred_demo /\ g_Memory deferred_demo = UserMem /\ g_Interrupt deferred_demo = Some (mk_Interrupt 1 []) /\
  g_IFF1 deferred_demo = false /\ g_IM deferred_demo = 1 /\ u8 (ram (g_W deferred_demo) (g_PC deferred_demo)) = 251.
Proof. exact deferred_demo_premises. Qed.
