(* Spec/Flags.v -- the Z80 flag semantics, stated arithmetically (no carry-vector tricks).
   Hand-written from the Zilog manual + the commonly agreed undocumented behaviour
   (bits 3 and 5).  All functions take operands as mathematical integers in range and
   return (result, new F) or the new F. *)
From Z80V Require Export Prelude.Base.

Definition FC := 1.   Definition FN := 2.   Definition FPV := 4.  Definition F3 := 8.
Definition FH := 16.  Definition F5 := 32.  Definition FZ := 64.  Definition FS := 128.

Definition b2z (b : bool) (m : Z) : Z := if b then m else 0.

(* S, bit 5, bit 3 copied from r; Z set iff r = 0 *)
Definition sz53 (r : Z) : Z := Z.land r 168 + b2z (r =? 0) FZ.
Definition s_z (r : Z) : Z := Z.land r 128 + b2z (r =? 0) FZ.
Definition f53 (r : Z) : Z := Z.land r 40.
(* P/V as parity: set iff the number of 1 bits is even *)
Definition parity (r : Z) : Z := b2z (Z.even (popcount8 r)) FPV.
(* signed value of a byte / word *)
Definition s8 (x : Z) : Z := if x <? 128 then x else x - 256.
Definition s16 (x : Z) : Z := if x <? 32768 then x else x - 65536.
Definition out_of_s8 (v : Z) : bool := (v <? -128) || (127 <? v).
Definition out_of_s16 (v : Z) : bool := (v <? -32768) || (32767 <? v).

(* ---- 8-bit arithmetic: A op b with carry-in c (0 or 1) ---- *)
Definition add8 (a b c : Z) : Z * Z :=
  let s := a + b + c in
  let r := s mod 256 in
  (r, sz53 r + b2z (16 <=? a mod 16 + b mod 16 + c) FH
        + b2z (out_of_s8 (s8 a + s8 b + c)) FPV + b2z (256 <=? s) FC).
Definition sub8 (a b c : Z) : Z * Z :=
  let s := a - b - c in
  let r := s mod 256 in
  (r, sz53 r + b2z (a mod 16 <? b mod 16 + c) FH
        + b2z (out_of_s8 (s8 a - s8 b - c)) FPV + FN + b2z (s <? 0) FC).
(* CP: flags of SUB, but bits 5 and 3 come from the operand *)
Definition cp8 (a b : Z) : Z :=
  let s := a - b in
  let r := s mod 256 in
  s_z r + f53 b + b2z (a mod 16 <? b mod 16) FH
        + b2z (out_of_s8 (s8 a - s8 b)) FPV + FN + b2z (s <? 0) FC.
Definition and8 (a b : Z) : Z * Z := let r := Z.land a b in (r, sz53 r + FH + parity r).
Definition or8  (a b : Z) : Z * Z := let r := Z.lor a b in (r, sz53 r + parity r).
Definition xor8 (a b : Z) : Z * Z := let r := Z.lxor a b in (r, sz53 r + parity r).
(* INC/DEC keep C *)
Definition inc8 (a f : Z) : Z * Z :=
  let r := (a + 1) mod 256 in
  (r, sz53 r + b2z (a mod 16 =? 15) FH + b2z (a =? 127) FPV + Z.land f FC).
Definition dec8 (a f : Z) : Z * Z :=
  let r := (a - 1) mod 256 in
  (r, sz53 r + b2z (a mod 16 =? 0) FH + b2z (a =? 128) FPV + FN + Z.land f FC).
Definition neg8 (a : Z) : Z * Z :=
  let r := (0 - a) mod 256 in
  (r, sz53 r + b2z (0 <? a mod 16) FH + b2z (a =? 128) FPV + FN + b2z (negb (a =? 0)) FC).
Definition cpl8 (a f : Z) : Z * Z :=
  let r := 255 - a in
  (r, Z.land f (FS + FZ + FPV + FC) + f53 r + FH + FN).
(* DAA: decimal adjust after add (N=0) or subtract (N=1) *)
Definition daa8 (a f : Z) : Z * Z :=
  let cf := Z.testbit f 0 in let nf := Z.testbit f 1 in let hf := Z.testbit f 4 in
  let lo := a mod 16 in
  let corr := b2z (hf || (9 <? lo)) 6 + b2z (cf || (153 <? a)) 96 in
  let r := (if nf then a - corr else a + corr) mod 256 in
  let h' := if nf then hf && (lo <? 6) else 9 <? lo in
  (r, sz53 r + parity r + b2z h' FH + b2z nf FN + b2z (cf || (153 <? a)) FC).
(* SCF / CCF: bits 5 and 3 are not specified here (chips differ); x supplies them *)
Definition scf8 (f x : Z) : Z := Z.land f (FS + FZ + FPV) + f53 x + FC.
Definition ccf8 (f x : Z) : Z :=
  Z.land f (FS + FZ + FPV) + f53 x + b2z (Z.testbit f 0) FH + b2z (negb (Z.testbit f 0)) FC.

(* ---- rotates and shifts ---- *)
Inductive rot := RLC | RRC | RL | RR | SLA | SRA | SLL | SRL.
(* result and carry-out *)
Definition rot8 (o : rot) (a cin : Z) : Z * Z :=
  match o with
  | RLC => ((a * 2) mod 256 + a / 128, a / 128)
  | RRC => (a / 2 + (a mod 2) * 128, a mod 2)
  | RL  => ((a * 2) mod 256 + cin, a / 128)
  | RR  => (a / 2 + cin * 128, a mod 2)
  | SLA => ((a * 2) mod 256, a / 128)
  | SRA => (a / 2 + Z.land a 128, a mod 2)
  | SLL => ((a * 2) mod 256 + 1, a / 128)
  | SRL => (a / 2, a mod 2)
  end.
(* CB-prefixed rotates: S Z 5 3 P from the result, H = N = 0, C = carry-out *)
Definition rotcb (o : rot) (a f : Z) : Z * Z :=
  let '(r, c) := rot8 o a (Z.land f FC) in (r, sz53 r + parity r + c).
(* RLCA RRCA RLA RRA: S Z P/V kept, 5 3 from the result, H = N = 0 *)
Definition rota (o : rot) (a f : Z) : Z * Z :=
  let '(r, c) := rot8 o a (Z.land f FC) in (r, Z.land f (FS + FZ + FPV) + f53 r + c).
(* RLD / RRD: new A, new (HL) byte, new F (C kept) *)
Definition rld8 (a m f : Z) : Z * Z * Z :=
  let a' := (a / 16) * 16 + m / 16 in
  (a', (m mod 16) * 16 + a mod 16, sz53 a' + parity a' + Z.land f FC).
Definition rrd8 (a m f : Z) : Z * Z * Z :=
  let a' := (a / 16) * 16 + m mod 16 in
  (a', (a mod 16) * 16 + m / 16, sz53 a' + parity a' + Z.land f FC).

(* ---- BIT: Z = P/V = complement of the bit, S only for a set bit 7, H = 1, N = 0, C kept.
        bits 5 and 3: from x (the tested register; unspecified for memory operands) ---- *)
Definition bit8 (b v f x : Z) : Z :=
  let set := Z.testbit v b in
  b2z (negb set) (FZ + FPV) + b2z (set && (b =? 7)) FS + FH + f53 x + Z.land f FC.
Definition set8 (b v : Z) : Z := Z.lor v (2 ^ b).
Definition res8 (b v : Z) : Z := Z.land v (255 - 2 ^ b).

(* ---- 16-bit arithmetic ---- *)
Definition add16 (a b f : Z) : Z * Z :=
  let s := a + b in
  let r := s mod 65536 in
  (r, Z.land f (FS + FZ + FPV) + f53 (r / 256) + b2z (4096 <=? a mod 4096 + b mod 4096) FH + b2z (65536 <=? s) FC).
Definition adc16 (a b c : Z) : Z * Z :=
  let s := a + b + c in
  let r := s mod 65536 in
  (r, Z.land (r / 256) 168 + b2z (r =? 0) FZ + b2z (4096 <=? a mod 4096 + b mod 4096 + c) FH
        + b2z (out_of_s16 (s16 a + s16 b + c)) FPV + b2z (65536 <=? s) FC).
Definition sbc16 (a b c : Z) : Z * Z :=
  let s := a - b - c in
  let r := s mod 65536 in
  (r, Z.land (r / 256) 168 + b2z (r =? 0) FZ + b2z (a mod 4096 <? b mod 4096 + c) FH
        + b2z (out_of_s16 (s16 a - s16 b - c)) FPV + FN + b2z (s <? 0) FC).

(* ---- block transfer / search: bc' is the counter AFTER the decrement ---- *)
Definition ldx_flags (a v bc' f : Z) : Z :=
  let n := u8 (a + v) in
  Z.land f (FS + FZ + FC) + b2z (negb (bc' =? 0)) FPV + Z.land n F3 + b2z (Z.testbit n 1) F5.
Definition cpx_flags (a v bc' f : Z) : Z :=
  let r := (a - v) mod 256 in
  let h := a mod 16 <? v mod 16 in
  let n := (r - b2z h 1) mod 256 in
  s_z r + b2z h FH + b2z (negb (bc' =? 0)) FPV + FN + Z.land f FC + Z.land n F3 + b2z (Z.testbit n 1) F5.
(* INI/IND/OUTI/OUTD (and repeats): Z from the decremented B, N set, C preserved; the rest from x *)
Definition blockio_flags (b' f x : Z) : Z :=
  b2z (b' =? 0) FZ + FN + Z.land f FC + Z.land x (FS + F5 + FH + F3 + FPV).
(* IN r,(C) *)
Definition in_flags (v f : Z) : Z := sz53 v + parity v + Z.land f FC.
(* LD A,I / LD A,R *)
Definition ldair_flags (v : Z) (iff2 : bool) (f : Z) : Z := sz53 v + b2z iff2 FPV + Z.land f FC.

(* refresh: the low seven bits count, bit 7 is kept *)
Definition r_tick (r : Z) : Z := Z.land r 128 + (r + 1) mod 128.

(* conditions *)
Inductive cc := NZ | Z_ | NC | C_ | PO | PE | P_ | M_.
Definition cond (c : cc) (f : Z) : bool :=
  match c with
  | NZ => negb (Z.testbit f 6) | Z_ => Z.testbit f 6
  | NC => negb (Z.testbit f 0) | C_ => Z.testbit f 0
  | PO => negb (Z.testbit f 2) | PE => Z.testbit f 2
  | P_ => negb (Z.testbit f 7) | M_ => Z.testbit f 7
  end.
