(* Spec/Instr.v -- Z80 instruction syntax and the decoding of the seven opcode tables.
   Hand-written, from the standard x/y/z/p/q decomposition of the opcode byte
   (x = bits 7-6, y = bits 5-3, z = bits 2-0, p = y/2, q = y mod 2). *)
From Z80V Require Export Spec.Flags.

Inductive r8 := rB | rC | rD | rE | rH | rL | rA.
(* 8-bit operand: a register, the byte at (HL) -- (IX+d)/(IY+d) under a DD/FD prefix --, or an immediate *)
Inductive opnd := Reg (r : r8) | MemHL | Imm.
(* register pairs; pHL stands for IX/IY under a DD/FD prefix *)
Inductive rp := pBC | pDE | pHL | pSP | pAF.
Inductive alu := ADD | ADC | SUB | SBC | AND | XOR | OR | CP.
Inductive blk := BLD | BCP | BIN | BOUT.

Inductive instr :=
| NOP | HALT | DI | EI | IM (m : Z) | EXX | EX_AF | EX_DE_HL | EX_SP_HL
| LD8 (d s : opnd)
| LD16_imm (p : rp)            (* LD dd,nn *)
| LD16_mem (p : rp)            (* LD dd,(nn) *)
| ST16_mem (p : rp)            (* LD (nn),dd *)
| LD_SP_HL
| LD_A_BC | LD_A_DE | LD_BC_A | LD_DE_A | LD_A_nn | LD_nn_A
| LD_A_I | LD_A_R | LD_I_A | LD_R_A
| PUSH (p : rp) | POP (p : rp)
| ALU8 (o : alu) (s : opnd) | INC8 (d : opnd) | DEC8 (d : opnd)
| INC16 (p : rp) | DEC16 (p : rp)
| ADD16 (p : rp) | ADC16 (p : rp) | SBC16 (p : rp)
| DAA | CPL | NEG | CCF | SCF | RLCA | RRCA | RLA | RRA | RLD | RRD
| ROT (o : rot) (d : opnd) | BIT (b : Z) (d : opnd) | RES (b : Z) (d : opnd) | SET (b : Z) (d : opnd)
| JP | JP_cc (c : cc) | JR | JR_cc (c : cc) | DJNZ | JP_HL
| CALL | CALL_cc (c : cc) | RET | RET_cc (c : cc) | RETI | RETN | RST (t : Z)
| IN_A_n | OUT_n_A | IN_r_C (r : r8) | OUT_C_r (r : r8)
| BLOCK (k : blk) (dec rep : bool)
| PREFIX_CB | PREFIX_ED | PREFIX_DD | PREFIX_FD
| INVALID.

Definition r_tab (z : Z) : opnd :=
  match z with 0 => Reg rB | 1 => Reg rC | 2 => Reg rD | 3 => Reg rE
             | 4 => Reg rH | 5 => Reg rL | 6 => MemHL | _ => Reg rA end.
Definition rp_tab (p : Z) : rp := match p with 0 => pBC | 1 => pDE | 2 => pHL | _ => pSP end.
Definition rp2_tab (p : Z) : rp := match p with 0 => pBC | 1 => pDE | 2 => pHL | _ => pAF end.
Definition alu_tab (y : Z) : alu :=
  match y with 0 => ADD | 1 => ADC | 2 => SUB | 3 => SBC | 4 => AND | 5 => XOR | 6 => OR | _ => CP end.
Definition rot_tab (y : Z) : rot :=
  match y with 0 => RLC | 1 => RRC | 2 => RL | 3 => RR | 4 => SLA | 5 => SRA | 6 => SLL | _ => SRL end.

Definition cc_tab (y : Z) : cc :=
  match y with 0 => NZ | 1 => Z_ | 2 => NC | 3 => C_ | 4 => PO | 5 => PE | 6 => P_ | _ => M_ end.

Definition fx (c : Z) := c / 64.
Definition fy (c : Z) := (c / 8) mod 8.
Definition fz (c : Z) := c mod 8.
Definition fp (c : Z) := fy c / 2.
Definition fq (c : Z) := fy c mod 2.

(* unprefixed table: every byte is an instruction (four of them are prefixes) *)
Definition decode_main (c : Z) : instr :=
  let y := fy c in let z := fz c in let p := fp c in let q := fq c in
  match fx c with
  | 0 =>
    match z with
    | 0 => match y with 0 => NOP | 1 => EX_AF | 2 => DJNZ | 3 => JR | _ => JR_cc (cc_tab (y - 4)) end
    | 1 => if q =? 0 then LD16_imm (rp_tab p) else ADD16 (rp_tab p)
    | 2 => if q =? 0
           then match p with 0 => LD_BC_A | 1 => LD_DE_A | 2 => ST16_mem pHL | _ => LD_nn_A end
           else match p with 0 => LD_A_BC | 1 => LD_A_DE | 2 => LD16_mem pHL | _ => LD_A_nn end
    | 3 => if q =? 0 then INC16 (rp_tab p) else DEC16 (rp_tab p)
    | 4 => INC8 (r_tab y)
    | 5 => DEC8 (r_tab y)
    | 6 => LD8 (r_tab y) Imm
    | _ => match y with 0 => RLCA | 1 => RRCA | 2 => RLA | 3 => RRA
                      | 4 => DAA | 5 => CPL | 6 => SCF | _ => CCF end
    end
  | 1 => if c =? 118 then HALT else LD8 (r_tab y) (r_tab z)
  | 2 => ALU8 (alu_tab y) (r_tab z)
  | _ =>
    match z with
    | 0 => RET_cc (cc_tab y)
    | 1 => if q =? 0 then POP (rp2_tab p)
           else match p with 0 => RET | 1 => EXX | 2 => JP_HL | _ => LD_SP_HL end
    | 2 => JP_cc (cc_tab y)
    | 3 => match y with 0 => JP | 1 => PREFIX_CB | 2 => OUT_n_A | 3 => IN_A_n
                      | 4 => EX_SP_HL | 5 => EX_DE_HL | 6 => DI | _ => EI end
    | 4 => CALL_cc (cc_tab y)
    | 5 => if q =? 0 then PUSH (rp2_tab p)
           else match p with 0 => CALL | 1 => PREFIX_DD | 2 => PREFIX_ED | _ => PREFIX_FD end
    | 6 => ALU8 (alu_tab y) Imm
    | _ => RST (y * 8)
    end
  end.

(* CB table: all 256 encodings *)
Definition decode_cb (c : Z) : instr :=
  let y := fy c in let d := r_tab (fz c) in
  match fx c with 0 => ROT (rot_tab y) d | 1 => BIT y d | 2 => RES y d | _ => SET y d end.

(* ED table: the encodings this project implements (58); everything else is INVALID *)
Definition decode_ed (c : Z) : instr :=
  let y := fy c in let z := fz c in let p := fp c in let q := fq c in
  match fx c with
  | 1 =>
    match z with
    | 0 => match r_tab y with Reg r => IN_r_C r | _ => INVALID end
    | 1 => match r_tab y with Reg r => OUT_C_r r | _ => INVALID end
    | 2 => if q =? 0 then SBC16 (rp_tab p) else ADC16 (rp_tab p)
    | 3 => if q =? 0 then ST16_mem (rp_tab p) else LD16_mem (rp_tab p)
    | 4 => if y =? 0 then NEG else INVALID
    | 5 => match y with 0 => RETN | 1 => RETI | _ => INVALID end
    | 6 => match y with 0 => IM 0 | 2 => IM 1 | 3 => IM 2 | _ => INVALID end
    | _ => match y with 0 => LD_I_A | 1 => LD_R_A | 2 => LD_A_I | 3 => LD_A_R
                      | 4 => RRD | 5 => RLD | _ => INVALID end
    end
  | 2 =>
    if (4 <=? y) && (z <=? 3)
    then BLOCK (match z with 0 => BLD | 1 => BCP | 2 => BIN | _ => BOUT end) (y mod 2 =? 1) (6 <=? y)
    else INVALID
  | _ => INVALID
  end.

(* DD / FD tables: the main-table instruction with HL := IX/IY, for the encodings implemented (151) *)
Definition implemented_idx (c : Z) : bool :=
  ((64 <=? c) && (c <=? 191) && negb (c =? 118))
  || existsb (Z.eqb c) [9; 25; 41; 57; 33; 34; 35; 36; 37; 38; 42; 43; 44; 45; 46; 52; 53; 54;
                        225; 227; 229; 233; 249; 203].
Definition decode_idx (c : Z) : instr := if implemented_idx c then decode_main c else INVALID.

(* DDCB / FDCB tables: only the (IX+d)/(IY+d) forms (z = 6) are implemented (32) *)
Definition decode_idxcb (c : Z) : instr := if fz c =? 6 then decode_cb c else INVALID.

Definition is_invalid (i : instr) : bool := match i with INVALID => true | _ => false end.
Definition count_impl (dec : Z -> instr) : Z :=
  Z.of_nat (length (filter (fun c => negb (is_invalid (dec c))) (map Z.of_nat (seq 0 256)))).
(* the quantifier of C01: 936 implemented encodings *)
Example implemented_count :
  (count_impl decode_main, count_impl decode_cb, count_impl decode_ed, count_impl decode_idx, count_impl decode_idxcb)
  = (256, 256, 58, 151, 32) /\ 256 + 256 + 58 + 151 + 151 + 32 + 32 = 936.
Proof. split; vm_compute; reflexivity. Qed.
