(* Spec/Exec.v -- what each Z80 instruction does to the machine state.
   Hand-written specification (the oracle), independent of the structure of the Go code:
   one function parameterised by instruction, operand descriptors and index mode, where the
   Go has ~700 hand-expanded handlers.  It acts on the same state record and the same
   environment primitives (Prelude) as the generated model, so that
   "generated model = specification" can be stated as an equality of states, traces included. *)
From Z80V Require Export Prelude.Env Spec.Instr.

(* ---- words and bytes ---- *)
Definition mk16 (h l : Z) : Z := Z.lor (u16 (Z.shiftl h 8)) l.
Definition hi (w : Z) : Z := u8 (Z.shiftr w 8).
Definition lo (w : Z) : Z := u8 w.
Definition inc16 (w : Z) : Z := u16 (w + 1).
Definition dec16 (w : Z) : Z := u16 (w - 1).
(* base + signed 8-bit displacement, modulo 65536 *)
Definition disp (base d : Z) : Z := u16 (base + s8 d).
Definition regw (r : Register) : Z := mk16 (Register_Hi r) (Register_Lo r).
Definition wreg (w : Z) : Register := mk_Register (hi w) (lo w).
(* replace the high / low half of a 16-bit index register *)
Definition with_hi (w v : Z) : Z := Z.lor (u16 (Z.shiftl v 8)) (Z.land w 255).
Definition with_lo (w v : Z) : Z := Z.lor v (Z.land w 65280).

(* ---- bits the Z80 leaves unspecified (chips differ); theorems hold for every choice ---- *)
Record Unspec := mk_Unspec {
  u_scf : Z -> Z -> Z;        (* A, old F  |-> byte whose bits 5,3 are used *)
  u_ccf : Z -> Z -> Z;
  u_bitmem : Z -> Z -> Z -> Z;    (* bit number, tested byte, old F |-> byte whose bits 5,3 are used *)
  u_blockio : Z -> Z -> Z -> Z; (* transferred byte, new B, old F |-> S,5,H,3,P/V *)
  u_cbidx_ticks : bool        (* DDCB/FDCB: true = three refresh ticks, false = two *)
}.

Inductive mode := MHL | MIX | MIY.

Section WithUnspec.
Variable u : Unspec.

(* ---- memory through whatever object is installed in the Memory field ----
   stated on the World alone: an access changes nothing of the CPU but the world *)
Definition wget (w : World) (m : MemRef) (a : Z) : World * Z :=
  let user := let v := u8 (ram w a) in (w_log w (EvRd a v), v) in
  match m with
  | UserMem => user
  | Im0Mem d =>
    (* the overlay serves [start, end]; everything else goes to the user's memory *)
    if (a <? im0data_start d) || (a >? im0data_end d) then user
    else let i := u16 (a - im0data_start d) in
         if in_range i (im0data_data d) then (w, nth_Z i (im0data_data d)) else (w_log w EvPanic, 0)
  end.
Definition wset (w : World) (m : MemRef) (a v : Z) : World :=
  let user := mk_World (upd (ram w) a v) (EvWr a v :: trace w) (inputs w) in
  match m with
  | UserMem => user
  | Im0Mem d => if (a >=? im0data_start d) && (a <=? im0data_end d) then w else user
  end.
Definition mem_get (cpu : CPU) (m : MemRef) (a : Z) : CPU * Z :=
  (s_W cpu (fst (wget (g_W cpu) m a)), snd (wget (g_W cpu) m a)).
Definition mem_set (cpu : CPU) (m : MemRef) (a v : Z) : CPU := s_W cpu (wset (g_W cpu) m a v).
Definition rd (cpu : CPU) (a : Z) : CPU * Z := mem_get cpu (g_Memory cpu) a.
Definition wr (cpu : CPU) (a v : Z) : CPU := mem_set cpu (g_Memory cpu) a v.
(* 16-bit accesses: low byte at a, high byte at a+1 (mod 65536) *)
Definition rd16 (cpu : CPU) (a : Z) : CPU * Z :=
  let '(cpu, l) := rd cpu a in let '(cpu, h) := rd cpu (inc16 a) in (cpu, mk16 h l).
Definition wr16 (cpu : CPU) (a w : Z) : CPU := wr (wr cpu a (lo w)) (inc16 a) (hi w).

(* ---- fetching ---- *)
Definition fetch8 (cpu : CPU) : CPU * Z :=
  let '(cpu, v) := rd cpu (g_PC cpu) in (s_PC cpu (inc16 (g_PC cpu)), v).
Definition fetch16 (cpu : CPU) : CPU * Z :=
  let '(cpu, l) := fetch8 cpu in let '(cpu, h) := fetch8 cpu in (cpu, mk16 h l).
(* opcode fetch (M1): also ticks the refresh counter *)
Definition fetch_m1 (cpu : CPU) : CPU * Z :=
  let '(cpu, v) := fetch8 cpu in (s_IR_Lo cpu (r_tick (g_IR_Lo cpu)), v).

(* ---- registers ---- *)
Definition get_r (r : r8) (cpu : CPU) : Z :=
  match r with rB => g_BC_Hi cpu | rC => g_BC_Lo cpu | rD => g_DE_Hi cpu | rE => g_DE_Lo cpu
             | rH => g_HL_Hi cpu | rL => g_HL_Lo cpu | rA => g_AF_Hi cpu end.
Definition set_r (r : r8) (cpu : CPU) (v : Z) : CPU :=
  match r with rB => s_BC_Hi cpu v | rC => s_BC_Lo cpu v | rD => s_DE_Hi cpu v | rE => s_DE_Lo cpu v
             | rH => s_HL_Hi cpu v | rL => s_HL_Lo cpu v | rA => s_AF_Hi cpu v end.
Definition get_idx (m : mode) (cpu : CPU) : Z :=
  match m with MHL => regw (g_HL cpu) | MIX => g_IX cpu | MIY => g_IY cpu end.
Definition set_idx (m : mode) (cpu : CPU) (w : Z) : CPU :=
  match m with MHL => s_HL cpu (wreg w) | MIX => s_IX cpu w | MIY => s_IY cpu w end.
(* H and L name the halves of IX/IY under a prefix, unless the instruction also has a memory operand *)
Definition get_rm (m : mode) (plain : bool) (r : r8) (cpu : CPU) : Z :=
  match m, plain, r with
  | MHL, _, _ | _, true, _ => get_r r cpu
  | _, false, rH => hi (get_idx m cpu)
  | _, false, rL => lo (get_idx m cpu)
  | _, false, _ => get_r r cpu
  end.
Definition set_rm (m : mode) (plain : bool) (r : r8) (cpu : CPU) (v : Z) : CPU :=
  match m, plain, r with
  | MHL, _, _ | _, true, _ => set_r r cpu v
  | _, false, rH => set_idx m cpu (with_hi (get_idx m cpu) v)
  | _, false, rL => set_idx m cpu (with_lo (get_idx m cpu) v)
  | _, false, _ => set_r r cpu v
  end.
Definition get_rp (m : mode) (p : rp) (cpu : CPU) : Z :=
  match p with pBC => regw (g_BC cpu) | pDE => regw (g_DE cpu) | pHL => get_idx m cpu
             | pSP => g_SP cpu | pAF => regw (g_AF cpu) end.
Definition set_rp (m : mode) (p : rp) (cpu : CPU) (w : Z) : CPU :=
  match p with pBC => s_BC cpu (wreg w) | pDE => s_DE cpu (wreg w) | pHL => set_idx m cpu w
             | pSP => s_SP cpu w | pAF => s_AF cpu (wreg w) end.
Definition get_F (cpu : CPU) : Z := g_AF_Lo cpu.
Definition set_F (cpu : CPU) (f : Z) : CPU := s_AF_Lo cpu f.
Definition get_A (cpu : CPU) : Z := g_AF_Hi cpu.
Definition set_A (cpu : CPU) (a : Z) : CPU := s_AF_Hi cpu a.

Definition is_mem (o : opnd) : bool := match o with MemHL => true | _ => false end.
(* effective address of the memory operand: HL, or IX/IY + the displacement byte that follows *)
Definition ea (m : mode) (cpu : CPU) : CPU * Z :=
  match m with
  | MHL => (cpu, get_idx MHL cpu)
  | _ => let '(cpu, d) := fetch8 cpu in (cpu, disp (get_idx m cpu) d)
  end.
Definition rd_opnd (m : mode) (plain : bool) (o : opnd) (cpu : CPU) : CPU * Z :=
  match o with
  | Reg r => (cpu, get_rm m plain r cpu)
  | MemHL => let '(cpu, a) := ea m cpu in rd cpu a
  | Imm => fetch8 cpu
  end.

(* ---- stack ---- *)
(* PUSH / CALL: high byte to SP-1, then low byte to SP-2 *)
Definition push16 (cpu : CPU) (w : Z) : CPU :=
  let cpu := s_SP cpu (dec16 (g_SP cpu)) in let cpu := wr cpu (g_SP cpu) (hi w) in
  let cpu := s_SP cpu (dec16 (g_SP cpu)) in wr cpu (g_SP cpu) (lo w).
(* RST / interrupt acceptance store the same two bytes, low byte first *)
Definition push16_lowfirst (cpu : CPU) (w : Z) : CPU :=
  let cpu := s_SP cpu (u16 (g_SP cpu - 2)) in wr16 cpu (g_SP cpu) w.
Definition pop16 (cpu : CPU) : CPU * Z :=
  let '(cpu, l) := rd cpu (g_SP cpu) in let cpu := s_SP cpu (inc16 (g_SP cpu)) in
  let '(cpu, h) := rd cpu (g_SP cpu) in let cpu := s_SP cpu (inc16 (g_SP cpu)) in
  (cpu, mk16 h l).
Definition pop16_plus2 (cpu : CPU) : CPU * Z :=
  let '(cpu, w) := rd16 cpu (g_SP cpu) in (s_SP cpu (u16 (g_SP cpu + 2)), w).

Definition alu8 (o : alu) (a b f : Z) : Z * Z :=
  match o with
  | ADD => add8 a b 0 | ADC => add8 a b (Z.land f FC)
  | SUB => sub8 a b 0 | SBC => sub8 a b (Z.land f FC)
  | AND => and8 a b | XOR => xor8 a b | OR => or8 a b
  | CP => (a, cp8 a b)
  end.

Definition jump_rel (cpu : CPU) (d : Z) : CPU := s_PC cpu (disp (g_PC cpu) d).
Definition rewind2 (cpu : CPU) : CPU := s_PC cpu (u16 (g_PC cpu - 2)).

(* one element of a block instruction *)
Definition block_step (k : blk) (dec : bool) (cpu : CPU) : CPU :=
  let step := fun w => if dec then dec16 w else inc16 w in
  let hl := regw (g_HL cpu) in
  match k with
  | BLD =>
    let de := regw (g_DE cpu) in let bc := regw (g_BC cpu) in
    let '(cpu, v) := rd cpu hl in
    let cpu := wr cpu de v in
    let cpu := s_DE cpu (wreg (step de)) in
    let cpu := s_HL cpu (wreg (step hl)) in
    let cpu := s_BC cpu (wreg (dec16 bc)) in
    set_F cpu (ldx_flags (get_A cpu) v (dec16 bc) (get_F cpu))
  | BCP =>
    let bc := regw (g_BC cpu) in
    let '(cpu, v) := rd cpu hl in
    let cpu := s_HL cpu (wreg (step hl)) in
    let cpu := s_BC cpu (wreg (dec16 bc)) in
    set_F cpu (cpx_flags (get_A cpu) v (dec16 bc) (get_F cpu))
  | BIN =>
    let '(cpu, v) := if g_IO cpu then io_In cpu (g_BC_Lo cpu) else (cpu, 0) in
    let cpu := wr cpu hl v in
    let b' := u8 (g_BC_Hi cpu - 1) in
    let cpu := s_BC_Hi cpu b' in
    let cpu := s_HL cpu (wreg (step hl)) in
    set_F cpu (blockio_flags b' (get_F cpu) (u_blockio u v b' (get_F cpu)))
  | BOUT =>
    let '(cpu, v) := rd cpu hl in
    let cpu := if g_IO cpu then io_Out cpu (g_BC_Lo cpu) v else cpu in
    let b' := u8 (g_BC_Hi cpu - 1) in
    let cpu := s_BC_Hi cpu b' in
    let cpu := s_HL cpu (wreg (step hl)) in
    set_F cpu (blockio_flags b' (get_F cpu) (u_blockio u v b' (get_F cpu)))
  end.
(* does a repeating block instruction go round again after this element? *)
Definition block_again (k : blk) (cpu : CPU) : bool :=
  match k with
  | BLD => negb (regw (g_BC cpu) =? 0)
  | BCP => negb (regw (g_BC cpu) =? 0) && negb (Z.testbit (get_F cpu) 6)
  | BIN | BOUT => negb (g_BC_Hi cpu =? 0)
  end.

(* ---- the instructions.  m: index mode (HL, IX, IY); the opcode and prefixes have been fetched ---- *)
Definition exec (m : mode) (i : instr) (cpu : CPU) : CPU :=
  match i with
  | NOP => cpu
  | HALT => s_HALT (s_PC cpu (dec16 (g_PC cpu))) true
  | DI => s_IFF2 (s_IFF1 cpu false) false
  | EI => s_IFF2 (s_IFF1 cpu true) true
  | IM n => s_IM cpu n
  | EXX =>
    let a := g_Alternate cpu in
    let cpu' := s_HL (s_DE (s_BC cpu (GPR_BC a)) (GPR_DE a)) (GPR_HL a) in
    s_Alternate_HL (s_Alternate_DE (s_Alternate_BC cpu' (g_BC cpu)) (g_DE cpu)) (g_HL cpu)
  | EX_AF => s_Alternate_AF (s_AF cpu (g_Alternate_AF cpu)) (g_AF cpu)
  | EX_DE_HL => s_DE (s_HL cpu (g_DE cpu)) (g_HL cpu)
  | EX_SP_HL =>
    let '(cpu, w) := rd16 cpu (g_SP cpu) in
    let cpu := wr16 cpu (g_SP cpu) (get_idx m cpu) in
    set_idx m cpu w
  | LD8 d s =>
    let plain := is_mem d || is_mem s in
    match d with
    | Reg r => let '(cpu, v) := rd_opnd m plain s cpu in set_rm m plain r cpu v
    | MemHL =>
      let '(cpu, a) := ea m cpu in
      let '(cpu, v) := rd_opnd m true s cpu in
      wr cpu a v
    | Imm => cpu
    end
  | LD16_imm p => let '(cpu, w) := fetch16 cpu in set_rp m p cpu w
  | LD16_mem p => let '(cpu, a) := fetch16 cpu in let '(cpu, w) := rd16 cpu a in set_rp m p cpu w
  | ST16_mem p => let '(cpu, a) := fetch16 cpu in wr16 cpu a (get_rp m p cpu)
  | LD_SP_HL => s_SP cpu (get_idx m cpu)
  | LD_A_BC => let '(cpu, v) := rd cpu (regw (g_BC cpu)) in set_A cpu v
  | LD_A_DE => let '(cpu, v) := rd cpu (regw (g_DE cpu)) in set_A cpu v
  | LD_BC_A => wr cpu (regw (g_BC cpu)) (get_A cpu)
  | LD_DE_A => wr cpu (regw (g_DE cpu)) (get_A cpu)
  | LD_A_nn => let '(cpu, a) := fetch16 cpu in let '(cpu, v) := rd cpu a in set_A cpu v
  | LD_nn_A => let '(cpu, a) := fetch16 cpu in wr cpu a (get_A cpu)
  | LD_A_I => let v := g_IR_Hi cpu in set_F (set_A cpu v) (ldair_flags v (g_IFF2 cpu) (get_F cpu))
  | LD_A_R => let v := g_IR_Lo cpu in set_F (set_A cpu v) (ldair_flags v (g_IFF2 cpu) (get_F cpu))
  | LD_I_A => s_IR_Hi cpu (get_A cpu)
  | LD_R_A => s_IR_Lo cpu (get_A cpu)
  | PUSH p =>
    (* the same two bytes at the same two addresses for every register pair; this implementation
       stores IX/IY low byte first (the order inside one instruction is not part of the contract) *)
    match m with MHL => push16 cpu (get_rp m p cpu) | _ => push16_lowfirst cpu (get_rp m p cpu) end
  | POP p =>
    match m with
    | MHL => let '(cpu, w) := pop16 cpu in set_rp m p cpu w
    | _ => let '(cpu, w) := pop16_plus2 cpu in set_rp m p cpu w
    end
  | ALU8 o s =>
    let '(cpu, v) := rd_opnd m (is_mem s) s cpu in
    let '(r, f) := alu8 o (get_A cpu) v (get_F cpu) in
    set_F (set_A cpu r) f
  | INC8 d | DEC8 d =>
    let op := match i with INC8 _ => inc8 | _ => dec8 end in
    match d with
    | Reg r => let '(v, f) := op (get_rm m false r cpu) (get_F cpu) in set_F (set_rm m false r cpu v) f
    | _ =>
      let '(cpu, a) := ea m cpu in
      let '(cpu, x) := rd cpu a in
      let '(v, f) := op x (get_F cpu) in
      wr (set_F cpu f) a v
    end
  | INC16 p => set_rp m p cpu (inc16 (get_rp m p cpu))
  | DEC16 p => set_rp m p cpu (dec16 (get_rp m p cpu))
  | ADD16 p =>
    let '(r, f) := add16 (get_idx m cpu) (get_rp m p cpu) (get_F cpu) in set_F (set_idx m cpu r) f
  | ADC16 p =>
    let '(r, f) := adc16 (get_idx MHL cpu) (get_rp MHL p cpu) (Z.land (get_F cpu) FC) in set_F (set_idx MHL cpu r) f
  | SBC16 p =>
    let '(r, f) := sbc16 (get_idx MHL cpu) (get_rp MHL p cpu) (Z.land (get_F cpu) FC) in set_F (set_idx MHL cpu r) f
  | DAA => let '(r, f) := daa8 (get_A cpu) (get_F cpu) in set_F (set_A cpu r) f
  | CPL => let '(r, f) := cpl8 (get_A cpu) (get_F cpu) in set_F (set_A cpu r) f
  | NEG => let '(r, f) := neg8 (get_A cpu) in set_F (set_A cpu r) f
  | SCF => set_F cpu (scf8 (get_F cpu) (u_scf u (get_A cpu) (get_F cpu)))
  | CCF => set_F cpu (ccf8 (get_F cpu) (u_ccf u (get_A cpu) (get_F cpu)))
  | RLCA => let '(r, f) := rota RLC (get_A cpu) (get_F cpu) in set_F (set_A cpu r) f
  | RRCA => let '(r, f) := rota RRC (get_A cpu) (get_F cpu) in set_F (set_A cpu r) f
  | RLA => let '(r, f) := rota RL (get_A cpu) (get_F cpu) in set_F (set_A cpu r) f
  | RRA => let '(r, f) := rota RR (get_A cpu) (get_F cpu) in set_F (set_A cpu r) f
  | RLD | RRD =>
    let op := match i with RLD => rld8 | _ => rrd8 end in
    let a := regw (g_HL cpu) in
    let '(cpu, x) := rd cpu a in
    let '(a', x', f) := op (get_A cpu) x (get_F cpu) in
    set_F (set_A (wr cpu a x') a') f
  | ROT o d =>
    match d with
    | Reg r => let '(v, f) := rotcb o (get_r r cpu) (get_F cpu) in set_F (set_r r cpu v) f
    | _ =>
      let a := get_idx MHL cpu in
      let '(cpu, x) := rd cpu a in
      let '(v, f) := rotcb o x (get_F cpu) in
      wr (set_F cpu f) a v
    end
  | BIT b d =>
    match d with
    | Reg r => let v := get_r r cpu in set_F cpu (bit8 b v (get_F cpu) v)
    | _ => let '(cpu, v) := rd cpu (get_idx MHL cpu) in set_F cpu (bit8 b v (get_F cpu) (u_bitmem u b v (get_F cpu)))
    end
  | RES b d =>
    match d with
    | Reg r => set_r r cpu (res8 b (get_r r cpu))
    | _ => let a := get_idx MHL cpu in let '(cpu, v) := rd cpu a in wr cpu a (res8 b v)
    end
  | SET b d =>
    match d with
    | Reg r => set_r r cpu (set8 b (get_r r cpu))
    | _ => let a := get_idx MHL cpu in let '(cpu, v) := rd cpu a in wr cpu a (set8 b v)
    end
  | JP => let '(cpu, a) := fetch16 cpu in s_PC cpu a
  | JP_cc c => let '(cpu, a) := fetch16 cpu in if cond c (get_F cpu) then s_PC cpu a else cpu
  | JR => let '(cpu, d) := fetch8 cpu in jump_rel cpu d
  | JR_cc c => let '(cpu, d) := fetch8 cpu in if cond c (get_F cpu) then jump_rel cpu d else cpu
  | DJNZ =>
    let '(cpu, d) := fetch8 cpu in
    let b' := u8 (g_BC_Hi cpu - 1) in
    let cpu := s_BC_Hi cpu b' in
    if negb (b' =? 0) then jump_rel cpu d else cpu
  | JP_HL => s_PC cpu (get_idx m cpu)
  | CALL => let '(cpu, a) := fetch16 cpu in s_PC (push16 cpu (g_PC cpu)) a
  | CALL_cc c =>
    let '(cpu, a) := fetch16 cpu in
    if cond c (get_F cpu) then s_PC (push16 cpu (g_PC cpu)) a else cpu
  | RET => let '(cpu, a) := pop16 cpu in s_PC cpu a
  | RET_cc c => if cond c (get_F cpu) then let '(cpu, a) := pop16 cpu in s_PC cpu a else cpu
  | RETI =>
    let cpu := if g_RETIHandler cpu then reti_Handle cpu else cpu in
    let '(cpu, a) := pop16_plus2 cpu in s_PC cpu a
  | RETN =>
    let cpu := if g_RETNHandler cpu then retn_Handle cpu else cpu in
    let '(cpu, a) := pop16_plus2 cpu in
    let cpu := s_PC cpu a in
    s_IFF1 cpu (g_IFF2 cpu)
  | RST t => s_PC (push16_lowfirst cpu (g_PC cpu)) t
  | IN_A_n =>
    let '(cpu, n) := fetch8 cpu in
    let '(cpu, v) := if g_IO cpu then io_In cpu n else (cpu, 0) in
    set_A cpu v
  | OUT_n_A =>
    let '(cpu, n) := fetch8 cpu in
    if g_IO cpu then io_Out cpu n (get_A cpu) else cpu
  | IN_r_C r =>
    let '(cpu, v) := if g_IO cpu then io_In cpu (g_BC_Lo cpu) else (cpu, 0) in
    set_F (set_r r cpu v) (in_flags v (get_F cpu))
  | OUT_C_r r => if g_IO cpu then io_Out cpu (g_BC_Lo cpu) (get_r r cpu) else cpu
  | BLOCK k dec rep =>
    let cpu := block_step k dec cpu in
    if rep && block_again k cpu then rewind2 cpu else cpu
  | PREFIX_CB | PREFIX_ED | PREFIX_DD | PREFIX_FD => cpu
  | INVALID => warnf cpu
  end.

(* DDCB / FDCB: the displacement precedes the final opcode byte; the operand is always (IX+d)/(IY+d) *)
Definition exec_idxcb (m : mode) (d : Z) (i : instr) (cpu : CPU) : CPU :=
  let a := disp (get_idx m cpu) d in
  match i with
  | ROT o _ =>
    let '(cpu, x) := rd cpu a in
    let '(v, f) := rotcb o x (get_F cpu) in
    wr (set_F cpu f) a v
  | BIT b _ => let '(cpu, v) := rd cpu a in set_F cpu (bit8 b v (get_F cpu) (u_bitmem u b v (get_F cpu)))
  | RES b _ => let '(cpu, v) := rd cpu a in wr cpu a (res8 b v)
  | SET b _ => let '(cpu, v) := rd cpu a in wr cpu a (set8 b v)
  | _ => warnf cpu
  end.

(* ---- one instruction: fetch, decode (following prefixes), execute ---- *)
(* after a DD/FD prefix and its second opcode byte c1 *)
Definition exec_idx (m : mode) (c1 : Z) (cpu : CPU) : CPU :=
  match decode_idx c1 with
  | PREFIX_CB =>
    let '(cpu, d) := fetch8 cpu in
    let '(cpu, c3) := if u_cbidx_ticks u then fetch_m1 cpu else fetch8 cpu in
    exec_idxcb m d (decode_idxcb c3) cpu
  | i => exec m i cpu
  end.
Definition step_idx (m : mode) (cpu : CPU) : CPU :=
  let '(cpu, c1) := fetch_m1 cpu in exec_idx m c1 cpu.
Definition step_instr (cpu : CPU) : CPU :=
  let '(cpu, c0) := fetch_m1 cpu in
  match decode_main c0 with
  | PREFIX_CB => let '(cpu, c1) := fetch_m1 cpu in exec MHL (decode_cb c1) cpu
  | PREFIX_ED => let '(cpu, c1) := fetch_m1 cpu in exec MHL (decode_ed c1) cpu
  | PREFIX_DD => step_idx MIX cpu
  | PREFIX_FD => step_idx MIY cpu
  | i => exec MHL i cpu
  end.

End WithUnspec.

(* ---- interrupts: what happens at the start of a Step when a request is pending ---- *)
Section Interrupts.
Variable u : Unspec.

(* acceptance pushes the address of the next instruction to execute, low byte first *)
Definition accept_nmi (cpu : CPU) : CPU :=
  let cpu := push16_lowfirst cpu (g_PC cpu) in
  s_IFF1 (s_IFF2 (s_PC cpu 102) (g_IFF1 cpu)) false.
Definition disable_both (cpu : CPU) : CPU := s_IFF2 (s_IFF1 cpu false) false.
Definition accept_im1 (cpu : CPU) : CPU :=
  disable_both (s_PC (push16_lowfirst cpu (g_PC cpu)) 56).
Definition accept_im2 (cpu : CPU) (v : Z) : CPU :=
  let cpu := push16_lowfirst cpu (g_PC cpu) in
  let '(cpu, a) := rd16 cpu (mk16 (g_IR_Hi cpu) (Z.land v 254)) in
  disable_both (s_PC cpu a).
(* mode 0 as this emulator realises it: the supplied bytes are laid over memory at PC for one
   instruction (the defects of this scheme are stated in Props/C07 as refuted theorems) *)
Definition im0_overlay (pc : Z) (d : list Z) : im0data := mk_im0data pc (u16 (pc + u16 (len_Z d - 1))) d.
Definition accept_im0 (cpu : CPU) (d : list Z) : CPU :=
  let saved := g_Memory cpu in
  let cpu := s_Memory cpu (Im0Mem (im0_overlay (g_PC cpu) d)) in
  let cpu := step_instr u cpu in
  disable_both (s_Memory cpu saved).

Definition NMI_type := 0.
(* Some cpu' = the request was accepted (and is consumed); None = refused, the program runs *)
Definition try_interrupt (cpu : CPU) (irq : Interrupt) : option CPU :=
  if Interrupt_Type irq =? NMI_type then Some (accept_nmi cpu)
  else if negb (g_IFF1 cpu) then None
  else match g_IM cpu with
       | 0 => Some (match Interrupt_Data irq with [] => cpu | _ => accept_im0 cpu (Interrupt_Data irq) end)
       | 1 => Some (accept_im1 cpu)
       | 2 => Some (match Interrupt_Data irq with [] => cpu | v :: _ => accept_im2 cpu v end)
       | _ => None
       end.
Definition spec_step (cpu : CPU) : CPU :=
  match g_Interrupt cpu with
  | None => step_instr u cpu
  | Some irq =>
    match try_interrupt cpu irq with
    | Some cpu' => s_Interrupt cpu' None
    | None => step_instr u cpu
    end
  end.
End Interrupts.
