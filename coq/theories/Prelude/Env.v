(* Prelude/Env.v -- the primitives through which the generated model and the
   specification touch the outside world (hand-written; trusted base, DESIGN.md 3.2). *)
From Z80V Require Export Prelude.Types.

(* functional update of the byte store; kept opaque in proofs so that both sides of an
   equality build syntactically equal chains *)
Definition upd (m : Z -> Z) (a v : Z) : Z -> Z := fun x => if x =? a then v else m x.

(* world-level primitives: what an access to the user's memory object does *)
Definition w_log (w : World) (e : event) : World := mk_World (ram w) (e :: trace w) (inputs w).
(* Memory.Get / Memory.Set reaching the user's memory object.  The interface returns a uint8. *)
Definition user_get_w (w : World) (a : Z) : World * Z :=
  let v := u8 (ram w a) in (w_log w (EvRd a v), v).
Definition user_set_w (w : World) (a v : Z) : World :=
  mk_World (upd (ram w) a v) (EvWr a v :: trace w) (inputs w).
(* Go run-time checks: an out-of-range index or a nil dereference is recorded as EvPanic
   (and yields a default), so "Step never panics" is a theorem about the trace *)
Definition idx_w (w : World) (l : list Z) (i : Z) : World * Z :=
  if in_range i l then (w, nth_Z i l) else (w_log w EvPanic, 0).

Definition log_ev (cpu : CPU) (e : event) : CPU := s_W cpu (w_log (g_W cpu) e).

(* IO.In / IO.Out reaching the user's IO object: the device answers with the next byte of
   its input stream (any deterministic device produces some stream; theorems quantify over all) *)
Definition io_In (cpu : CPU) (p : Z) : CPU * Z :=
  let w := g_W cpu in
  let v := u8 (hd 0 (inputs w)) in
  (s_W cpu (mk_World (ram w) (EvIn p v :: trace w) (tl (inputs w))), v).
Definition io_Out (cpu : CPU) (p v : Z) : CPU := log_ev cpu (EvOut p v).

Definition reti_Handle (cpu : CPU) : CPU := log_ev cpu EvRETI.
Definition retn_Handle (cpu : CPU) : CPU := log_ev cpu EvRETN.
Definition warnf (cpu : CPU) : CPU := log_ev cpu EvWarn.

Definition idx (cpu : CPU) (l : list Z) (i : Z) : CPU * Z :=
  (s_W cpu (fst (idx_w (g_W cpu) l i)), snd (idx_w (g_W cpu) l i)).
Definition nil_Interrupt : Interrupt := mk_Interrupt 0 [].
Definition deref_Interrupt (cpu : CPU) (o : option Interrupt) : CPU * Interrupt :=
  match o with Some i => (cpu, i) | None => (log_ev cpu EvPanic, nil_Interrupt) end.
