(* Prelude/Base.v -- machine words as Z, bit operations, the small library the
   generated model (go2coq output) and the hand-written specification share.
   Hand-written; part of the trusted base (DESIGN.md 3.2). *)
From Coq Require Export ZArith List Bool Lia.
From Coq.Strings Require Export Byte.
Export ListNotations.
#[global] Open Scope Z_scope.
#[global] Set Primitive Projections.

(* unsigned wrap-around of Go's uintN: keeps the low N bits (also of negative
   intermediate results, Z.land works on the two's-complement expansion) *)
Definition u8  (x : Z) : Z := Z.land x 255.
Definition u16 (x : Z) : Z := Z.land x 65535.
Definition u32 (x : Z) : Z := Z.land x 4294967295.
(* int8(x) for x : uint8 *)
Definition sext8 (x : Z) : Z := if x <? 128 then x else x - 256.
Definition sext16 (x : Z) : Z := if x <? 32768 then x else x - 65536.

Definition bit (x : Z) (k : Z) : Z := if Z.testbit x k then 1 else 0.
(* math/bits.OnesCount8 *)
Definition popcount8 (x : Z) : Z :=
  bit x 0 + bit x 1 + bit x 2 + bit x 3 + bit x 4 + bit x 5 + bit x 6 + bit x 7.

(* Go slice indexing; the bounds check is modelled where it is used (idx in Env.v) *)
Definition nth_Z (i : Z) (l : list Z) : Z := nth (Z.to_nat i) l 0.
Definition len_Z {A} (l : list A) : Z := Z.of_nat (length l).
Definition in_range (i : Z) {A} (l : list A) : bool := (0 <=? i) && (i <? len_Z l).

(* the 256-way opcode dispatch is a match on Coq.Strings.Byte.byte *)
Definition byte_of_Z (c : Z) : byte :=
  match Byte.of_N (Z.to_N c) with Some b => b | None => x00 end.
Definition Z_of_byte (b : byte) : Z := Z.of_N (Byte.to_N b).

Definition isSome {A} (o : option A) : bool := match o with Some _ => true | None => false end.
Definition inb (x : Z) (l : list Z) : bool := existsb (Z.eqb x) l.

Lemma u8_mod x : u8 x = x mod 256.
Proof. unfold u8. change 255 with (Z.ones 8). rewrite Z.land_ones by lia. reflexivity. Qed.
Lemma u16_mod x : u16 x = x mod 65536.
Proof. unfold u16. change 65535 with (Z.ones 16). rewrite Z.land_ones by lia. reflexivity. Qed.
Lemma u32_mod x : u32 x = x mod 4294967296.
Proof. unfold u32. change 4294967295 with (Z.ones 32). rewrite Z.land_ones by lia. reflexivity. Qed.
Lemma u8_range x : 0 <= u8 x < 256.
Proof. rewrite u8_mod. apply Z.mod_pos_bound. lia. Qed.
Lemma u16_range x : 0 <= u16 x < 65536.
Proof. rewrite u16_mod. apply Z.mod_pos_bound. lia. Qed.
Lemma u8_id x : 0 <= x < 256 -> u8 x = x.
Proof. intros. rewrite u8_mod. apply Z.mod_small. lia. Qed.
Lemma u16_id x : 0 <= x < 65536 -> u16 x = x.
Proof. intros. rewrite u16_mod. apply Z.mod_small. lia. Qed.

Lemma byte_of_Z_of_byte b : byte_of_Z (Z_of_byte b) = b.
Proof. unfold byte_of_Z, Z_of_byte. rewrite N2Z.id, Byte.of_to_N. reflexivity. Qed.
Lemma Z_of_byte_range b : 0 <= Z_of_byte b < 256.
Proof. unfold Z_of_byte. pose proof (Byte.to_N_bounded b). lia. Qed.
Lemma Z_of_byte_of_Z c : 0 <= c < 256 -> Z_of_byte (byte_of_Z c) = c.
Proof.
  intros H. unfold byte_of_Z, Z_of_byte.
  destruct (Byte.of_N (Z.to_N c)) eqn:E.
  - apply Byte.to_of_N in E. rewrite E. lia.
  - apply Byte.of_N_None_iff in E. lia.
Qed.
(* every statement about an opcode byte reduces to 256 closed cases *)
Lemma all_bytes (P : Z -> Prop) : (forall b : byte, P (Z_of_byte b)) -> forall c, 0 <= c < 256 -> P c.
Proof. intros H c Hc. rewrite <- (Z_of_byte_of_Z c Hc). apply H. Qed.
