(* Prelude/Types.v -- PINNED copy of the go2coq output Gen/Types.v (record types mirroring the Go
   structs + the modelled environment).  Every check regenerates Gen/Types.v from the current source
   and compares it with this file byte for byte (after this header); a difference means the Go
   structs changed and is treated like a broken proof. *)
From Z80V Require Export Prelude.Base.

Record Register := mk_Register {
  Register_Hi : Z;
  Register_Lo : Z
}.
Definition set_Register_Hi (x : Register) (v : Z) : Register :=
  mk_Register v (Register_Lo x).
Definition set_Register_Lo (x : Register) (v : Z) : Register :=
  mk_Register (Register_Hi x) v.

Record GPR := mk_GPR {
  GPR_AF : Register;
  GPR_BC : Register;
  GPR_DE : Register;
  GPR_HL : Register
}.
Definition set_GPR_AF (x : GPR) (v : Register) : GPR :=
  mk_GPR v (GPR_BC x) (GPR_DE x) (GPR_HL x).
Definition set_GPR_BC (x : GPR) (v : Register) : GPR :=
  mk_GPR (GPR_AF x) v (GPR_DE x) (GPR_HL x).
Definition set_GPR_DE (x : GPR) (v : Register) : GPR :=
  mk_GPR (GPR_AF x) (GPR_BC x) v (GPR_HL x).
Definition set_GPR_HL (x : GPR) (v : Register) : GPR :=
  mk_GPR (GPR_AF x) (GPR_BC x) (GPR_DE x) v.

Record SPR := mk_SPR {
  SPR_IR : Register;
  SPR_IX : Z;
  SPR_IY : Z;
  SPR_SP : Z;
  SPR_PC : Z
}.
Definition set_SPR_IR (x : SPR) (v : Register) : SPR :=
  mk_SPR v (SPR_IX x) (SPR_IY x) (SPR_SP x) (SPR_PC x).
Definition set_SPR_IX (x : SPR) (v : Z) : SPR :=
  mk_SPR (SPR_IR x) v (SPR_IY x) (SPR_SP x) (SPR_PC x).
Definition set_SPR_IY (x : SPR) (v : Z) : SPR :=
  mk_SPR (SPR_IR x) (SPR_IX x) v (SPR_SP x) (SPR_PC x).
Definition set_SPR_SP (x : SPR) (v : Z) : SPR :=
  mk_SPR (SPR_IR x) (SPR_IX x) (SPR_IY x) v (SPR_PC x).
Definition set_SPR_PC (x : SPR) (v : Z) : SPR :=
  mk_SPR (SPR_IR x) (SPR_IX x) (SPR_IY x) (SPR_SP x) v.

Record States := mk_States {
  States_GPR : GPR;
  States_SPR : SPR;
  States_Alternate : GPR;
  States_IFF1 : bool;
  States_IFF2 : bool;
  States_IM : Z
}.
Definition set_States_GPR (x : States) (v : GPR) : States :=
  mk_States v (States_SPR x) (States_Alternate x) (States_IFF1 x) (States_IFF2 x) (States_IM x).
Definition set_States_SPR (x : States) (v : SPR) : States :=
  mk_States (States_GPR x) v (States_Alternate x) (States_IFF1 x) (States_IFF2 x) (States_IM x).
Definition set_States_Alternate (x : States) (v : GPR) : States :=
  mk_States (States_GPR x) (States_SPR x) v (States_IFF1 x) (States_IFF2 x) (States_IM x).
Definition set_States_IFF1 (x : States) (v : bool) : States :=
  mk_States (States_GPR x) (States_SPR x) (States_Alternate x) v (States_IFF2 x) (States_IM x).
Definition set_States_IFF2 (x : States) (v : bool) : States :=
  mk_States (States_GPR x) (States_SPR x) (States_Alternate x) (States_IFF1 x) v (States_IM x).
Definition set_States_IM (x : States) (v : Z) : States :=
  mk_States (States_GPR x) (States_SPR x) (States_Alternate x) (States_IFF1 x) (States_IFF2 x) v.

Record Interrupt := mk_Interrupt {
  Interrupt_Type : Z;
  Interrupt_Data : list Z
}.
Definition set_Interrupt_Type (x : Interrupt) (v : Z) : Interrupt :=
  mk_Interrupt v (Interrupt_Data x).
Definition set_Interrupt_Data (x : Interrupt) (v : list Z) : Interrupt :=
  mk_Interrupt (Interrupt_Type x) v.

Record im0data := mk_im0data {
  im0data_start : Z;
  im0data_end : Z;
  im0data_data : list Z
}.
Definition set_im0data_start (x : im0data) (v : Z) : im0data :=
  mk_im0data v (im0data_end x) (im0data_data x).
Definition set_im0data_end (x : im0data) (v : Z) : im0data :=
  mk_im0data (im0data_start x) v (im0data_data x).
Definition set_im0data_data (x : im0data) (v : list Z) : im0data :=
  mk_im0data (im0data_start x) (im0data_end x) v.

(* ---- modelled environment (fixed text emitted by go2coq) ---- *)
(* the object installed in the CPU's Memory field: the user's memory, or the
   mode-0 overlay that processInterrupt wraps around it for one instruction *)
Inductive MemRef := UserMem | Im0Mem (d : im0data).
(* what the outside world can observe of one execution, newest first *)
Inductive event :=
| EvRd (a v : Z) | EvWr (a v : Z)      (* accesses reaching the user's Memory *)
| EvIn (p v : Z) | EvOut (p v : Z)    (* accesses reaching the user's IO *)
| EvRETI | EvRETN                      (* handler notifications *)
| EvWarn                               (* log.Printf from warnf *)
| EvPanic.                             (* a Go run-time panic would have happened here *)
Record World := mk_World {
  ram : Z -> Z;          (* contents of the user's memory (a plain byte store) *)
  trace : list event;
  inputs : list Z        (* bytes the IO device will return, in order *)
}.

Record CPU := mk_CPU {
  CPU_States : States;
  CPU_Memory : MemRef;
  CPU_IO : bool;
  CPU_RETNHandler : bool;
  CPU_RETIHandler : bool;
  CPU_Interrupt : option Interrupt;
  CPU_BreakPoints : option (list Z);
  CPU_HALT : bool;
  CPU_W : World
}.
Definition set_CPU_States (x : CPU) (v : States) : CPU :=
  mk_CPU v (CPU_Memory x) (CPU_IO x) (CPU_RETNHandler x) (CPU_RETIHandler x) (CPU_Interrupt x) (CPU_BreakPoints x) (CPU_HALT x) (CPU_W x).
Definition set_CPU_Memory (x : CPU) (v : MemRef) : CPU :=
  mk_CPU (CPU_States x) v (CPU_IO x) (CPU_RETNHandler x) (CPU_RETIHandler x) (CPU_Interrupt x) (CPU_BreakPoints x) (CPU_HALT x) (CPU_W x).
Definition set_CPU_IO (x : CPU) (v : bool) : CPU :=
  mk_CPU (CPU_States x) (CPU_Memory x) v (CPU_RETNHandler x) (CPU_RETIHandler x) (CPU_Interrupt x) (CPU_BreakPoints x) (CPU_HALT x) (CPU_W x).
Definition set_CPU_RETNHandler (x : CPU) (v : bool) : CPU :=
  mk_CPU (CPU_States x) (CPU_Memory x) (CPU_IO x) v (CPU_RETIHandler x) (CPU_Interrupt x) (CPU_BreakPoints x) (CPU_HALT x) (CPU_W x).
Definition set_CPU_RETIHandler (x : CPU) (v : bool) : CPU :=
  mk_CPU (CPU_States x) (CPU_Memory x) (CPU_IO x) (CPU_RETNHandler x) v (CPU_Interrupt x) (CPU_BreakPoints x) (CPU_HALT x) (CPU_W x).
Definition set_CPU_Interrupt (x : CPU) (v : option Interrupt) : CPU :=
  mk_CPU (CPU_States x) (CPU_Memory x) (CPU_IO x) (CPU_RETNHandler x) (CPU_RETIHandler x) v (CPU_BreakPoints x) (CPU_HALT x) (CPU_W x).
Definition set_CPU_BreakPoints (x : CPU) (v : option (list Z)) : CPU :=
  mk_CPU (CPU_States x) (CPU_Memory x) (CPU_IO x) (CPU_RETNHandler x) (CPU_RETIHandler x) (CPU_Interrupt x) v (CPU_HALT x) (CPU_W x).
Definition set_CPU_HALT (x : CPU) (v : bool) : CPU :=
  mk_CPU (CPU_States x) (CPU_Memory x) (CPU_IO x) (CPU_RETNHandler x) (CPU_RETIHandler x) (CPU_Interrupt x) (CPU_BreakPoints x) v (CPU_W x).
Definition set_CPU_W (x : CPU) (v : World) : CPU :=
  mk_CPU (CPU_States x) (CPU_Memory x) (CPU_IO x) (CPU_RETNHandler x) (CPU_RETIHandler x) (CPU_Interrupt x) (CPU_BreakPoints x) (CPU_HALT x) v.

Record lens (A : Type) := mk_lens { lget : CPU -> A; lset : CPU -> A -> CPU }.
Arguments mk_lens {A}. Arguments lget {A}. Arguments lset {A}.

Definition g_States (cpu : CPU) : States := CPU_States cpu.
Definition s_States (cpu : CPU) (v : States) : CPU := set_CPU_States cpu v.
Definition lens_States : lens States := mk_lens g_States s_States.
Definition g_GPR (cpu : CPU) : GPR := States_GPR (CPU_States cpu).
Definition s_GPR (cpu : CPU) (v : GPR) : CPU := set_CPU_States cpu (set_States_GPR (CPU_States cpu) v).
Definition lens_GPR : lens GPR := mk_lens g_GPR s_GPR.
Definition g_AF (cpu : CPU) : Register := GPR_AF (States_GPR (CPU_States cpu)).
Definition s_AF (cpu : CPU) (v : Register) : CPU := set_CPU_States cpu (set_States_GPR (CPU_States cpu) (set_GPR_AF (States_GPR (CPU_States cpu)) v)).
Definition lens_AF : lens Register := mk_lens g_AF s_AF.
Definition g_AF_Hi (cpu : CPU) : Z := Register_Hi (GPR_AF (States_GPR (CPU_States cpu))).
Definition s_AF_Hi (cpu : CPU) (v : Z) : CPU := set_CPU_States cpu (set_States_GPR (CPU_States cpu) (set_GPR_AF (States_GPR (CPU_States cpu)) (set_Register_Hi (GPR_AF (States_GPR (CPU_States cpu))) v))).
Definition lens_AF_Hi : lens Z := mk_lens g_AF_Hi s_AF_Hi.
Definition g_AF_Lo (cpu : CPU) : Z := Register_Lo (GPR_AF (States_GPR (CPU_States cpu))).
Definition s_AF_Lo (cpu : CPU) (v : Z) : CPU := set_CPU_States cpu (set_States_GPR (CPU_States cpu) (set_GPR_AF (States_GPR (CPU_States cpu)) (set_Register_Lo (GPR_AF (States_GPR (CPU_States cpu))) v))).
Definition lens_AF_Lo : lens Z := mk_lens g_AF_Lo s_AF_Lo.
Definition g_BC (cpu : CPU) : Register := GPR_BC (States_GPR (CPU_States cpu)).
Definition s_BC (cpu : CPU) (v : Register) : CPU := set_CPU_States cpu (set_States_GPR (CPU_States cpu) (set_GPR_BC (States_GPR (CPU_States cpu)) v)).
Definition lens_BC : lens Register := mk_lens g_BC s_BC.
Definition g_BC_Hi (cpu : CPU) : Z := Register_Hi (GPR_BC (States_GPR (CPU_States cpu))).
Definition s_BC_Hi (cpu : CPU) (v : Z) : CPU := set_CPU_States cpu (set_States_GPR (CPU_States cpu) (set_GPR_BC (States_GPR (CPU_States cpu)) (set_Register_Hi (GPR_BC (States_GPR (CPU_States cpu))) v))).
Definition lens_BC_Hi : lens Z := mk_lens g_BC_Hi s_BC_Hi.
Definition g_BC_Lo (cpu : CPU) : Z := Register_Lo (GPR_BC (States_GPR (CPU_States cpu))).
Definition s_BC_Lo (cpu : CPU) (v : Z) : CPU := set_CPU_States cpu (set_States_GPR (CPU_States cpu) (set_GPR_BC (States_GPR (CPU_States cpu)) (set_Register_Lo (GPR_BC (States_GPR (CPU_States cpu))) v))).
Definition lens_BC_Lo : lens Z := mk_lens g_BC_Lo s_BC_Lo.
Definition g_DE (cpu : CPU) : Register := GPR_DE (States_GPR (CPU_States cpu)).
Definition s_DE (cpu : CPU) (v : Register) : CPU := set_CPU_States cpu (set_States_GPR (CPU_States cpu) (set_GPR_DE (States_GPR (CPU_States cpu)) v)).
Definition lens_DE : lens Register := mk_lens g_DE s_DE.
Definition g_DE_Hi (cpu : CPU) : Z := Register_Hi (GPR_DE (States_GPR (CPU_States cpu))).
Definition s_DE_Hi (cpu : CPU) (v : Z) : CPU := set_CPU_States cpu (set_States_GPR (CPU_States cpu) (set_GPR_DE (States_GPR (CPU_States cpu)) (set_Register_Hi (GPR_DE (States_GPR (CPU_States cpu))) v))).
Definition lens_DE_Hi : lens Z := mk_lens g_DE_Hi s_DE_Hi.
Definition g_DE_Lo (cpu : CPU) : Z := Register_Lo (GPR_DE (States_GPR (CPU_States cpu))).
Definition s_DE_Lo (cpu : CPU) (v : Z) : CPU := set_CPU_States cpu (set_States_GPR (CPU_States cpu) (set_GPR_DE (States_GPR (CPU_States cpu)) (set_Register_Lo (GPR_DE (States_GPR (CPU_States cpu))) v))).
Definition lens_DE_Lo : lens Z := mk_lens g_DE_Lo s_DE_Lo.
Definition g_HL (cpu : CPU) : Register := GPR_HL (States_GPR (CPU_States cpu)).
Definition s_HL (cpu : CPU) (v : Register) : CPU := set_CPU_States cpu (set_States_GPR (CPU_States cpu) (set_GPR_HL (States_GPR (CPU_States cpu)) v)).
Definition lens_HL : lens Register := mk_lens g_HL s_HL.
Definition g_HL_Hi (cpu : CPU) : Z := Register_Hi (GPR_HL (States_GPR (CPU_States cpu))).
Definition s_HL_Hi (cpu : CPU) (v : Z) : CPU := set_CPU_States cpu (set_States_GPR (CPU_States cpu) (set_GPR_HL (States_GPR (CPU_States cpu)) (set_Register_Hi (GPR_HL (States_GPR (CPU_States cpu))) v))).
Definition lens_HL_Hi : lens Z := mk_lens g_HL_Hi s_HL_Hi.
Definition g_HL_Lo (cpu : CPU) : Z := Register_Lo (GPR_HL (States_GPR (CPU_States cpu))).
Definition s_HL_Lo (cpu : CPU) (v : Z) : CPU := set_CPU_States cpu (set_States_GPR (CPU_States cpu) (set_GPR_HL (States_GPR (CPU_States cpu)) (set_Register_Lo (GPR_HL (States_GPR (CPU_States cpu))) v))).
Definition lens_HL_Lo : lens Z := mk_lens g_HL_Lo s_HL_Lo.
Definition g_SPR (cpu : CPU) : SPR := States_SPR (CPU_States cpu).
Definition s_SPR (cpu : CPU) (v : SPR) : CPU := set_CPU_States cpu (set_States_SPR (CPU_States cpu) v).
Definition lens_SPR : lens SPR := mk_lens g_SPR s_SPR.
Definition g_IR (cpu : CPU) : Register := SPR_IR (States_SPR (CPU_States cpu)).
Definition s_IR (cpu : CPU) (v : Register) : CPU := set_CPU_States cpu (set_States_SPR (CPU_States cpu) (set_SPR_IR (States_SPR (CPU_States cpu)) v)).
Definition lens_IR : lens Register := mk_lens g_IR s_IR.
Definition g_IR_Hi (cpu : CPU) : Z := Register_Hi (SPR_IR (States_SPR (CPU_States cpu))).
Definition s_IR_Hi (cpu : CPU) (v : Z) : CPU := set_CPU_States cpu (set_States_SPR (CPU_States cpu) (set_SPR_IR (States_SPR (CPU_States cpu)) (set_Register_Hi (SPR_IR (States_SPR (CPU_States cpu))) v))).
Definition lens_IR_Hi : lens Z := mk_lens g_IR_Hi s_IR_Hi.
Definition g_IR_Lo (cpu : CPU) : Z := Register_Lo (SPR_IR (States_SPR (CPU_States cpu))).
Definition s_IR_Lo (cpu : CPU) (v : Z) : CPU := set_CPU_States cpu (set_States_SPR (CPU_States cpu) (set_SPR_IR (States_SPR (CPU_States cpu)) (set_Register_Lo (SPR_IR (States_SPR (CPU_States cpu))) v))).
Definition lens_IR_Lo : lens Z := mk_lens g_IR_Lo s_IR_Lo.
Definition g_IX (cpu : CPU) : Z := SPR_IX (States_SPR (CPU_States cpu)).
Definition s_IX (cpu : CPU) (v : Z) : CPU := set_CPU_States cpu (set_States_SPR (CPU_States cpu) (set_SPR_IX (States_SPR (CPU_States cpu)) v)).
Definition lens_IX : lens Z := mk_lens g_IX s_IX.
Definition g_IY (cpu : CPU) : Z := SPR_IY (States_SPR (CPU_States cpu)).
Definition s_IY (cpu : CPU) (v : Z) : CPU := set_CPU_States cpu (set_States_SPR (CPU_States cpu) (set_SPR_IY (States_SPR (CPU_States cpu)) v)).
Definition lens_IY : lens Z := mk_lens g_IY s_IY.
Definition g_SP (cpu : CPU) : Z := SPR_SP (States_SPR (CPU_States cpu)).
Definition s_SP (cpu : CPU) (v : Z) : CPU := set_CPU_States cpu (set_States_SPR (CPU_States cpu) (set_SPR_SP (States_SPR (CPU_States cpu)) v)).
Definition lens_SP : lens Z := mk_lens g_SP s_SP.
Definition g_PC (cpu : CPU) : Z := SPR_PC (States_SPR (CPU_States cpu)).
Definition s_PC (cpu : CPU) (v : Z) : CPU := set_CPU_States cpu (set_States_SPR (CPU_States cpu) (set_SPR_PC (States_SPR (CPU_States cpu)) v)).
Definition lens_PC : lens Z := mk_lens g_PC s_PC.
Definition g_Alternate (cpu : CPU) : GPR := States_Alternate (CPU_States cpu).
Definition s_Alternate (cpu : CPU) (v : GPR) : CPU := set_CPU_States cpu (set_States_Alternate (CPU_States cpu) v).
Definition lens_Alternate : lens GPR := mk_lens g_Alternate s_Alternate.
Definition g_Alternate_AF (cpu : CPU) : Register := GPR_AF (States_Alternate (CPU_States cpu)).
Definition s_Alternate_AF (cpu : CPU) (v : Register) : CPU := set_CPU_States cpu (set_States_Alternate (CPU_States cpu) (set_GPR_AF (States_Alternate (CPU_States cpu)) v)).
Definition lens_Alternate_AF : lens Register := mk_lens g_Alternate_AF s_Alternate_AF.
Definition g_Alternate_AF_Hi (cpu : CPU) : Z := Register_Hi (GPR_AF (States_Alternate (CPU_States cpu))).
Definition s_Alternate_AF_Hi (cpu : CPU) (v : Z) : CPU := set_CPU_States cpu (set_States_Alternate (CPU_States cpu) (set_GPR_AF (States_Alternate (CPU_States cpu)) (set_Register_Hi (GPR_AF (States_Alternate (CPU_States cpu))) v))).
Definition lens_Alternate_AF_Hi : lens Z := mk_lens g_Alternate_AF_Hi s_Alternate_AF_Hi.
Definition g_Alternate_AF_Lo (cpu : CPU) : Z := Register_Lo (GPR_AF (States_Alternate (CPU_States cpu))).
Definition s_Alternate_AF_Lo (cpu : CPU) (v : Z) : CPU := set_CPU_States cpu (set_States_Alternate (CPU_States cpu) (set_GPR_AF (States_Alternate (CPU_States cpu)) (set_Register_Lo (GPR_AF (States_Alternate (CPU_States cpu))) v))).
Definition lens_Alternate_AF_Lo : lens Z := mk_lens g_Alternate_AF_Lo s_Alternate_AF_Lo.
Definition g_Alternate_BC (cpu : CPU) : Register := GPR_BC (States_Alternate (CPU_States cpu)).
Definition s_Alternate_BC (cpu : CPU) (v : Register) : CPU := set_CPU_States cpu (set_States_Alternate (CPU_States cpu) (set_GPR_BC (States_Alternate (CPU_States cpu)) v)).
Definition lens_Alternate_BC : lens Register := mk_lens g_Alternate_BC s_Alternate_BC.
Definition g_Alternate_BC_Hi (cpu : CPU) : Z := Register_Hi (GPR_BC (States_Alternate (CPU_States cpu))).
Definition s_Alternate_BC_Hi (cpu : CPU) (v : Z) : CPU := set_CPU_States cpu (set_States_Alternate (CPU_States cpu) (set_GPR_BC (States_Alternate (CPU_States cpu)) (set_Register_Hi (GPR_BC (States_Alternate (CPU_States cpu))) v))).
Definition lens_Alternate_BC_Hi : lens Z := mk_lens g_Alternate_BC_Hi s_Alternate_BC_Hi.
Definition g_Alternate_BC_Lo (cpu : CPU) : Z := Register_Lo (GPR_BC (States_Alternate (CPU_States cpu))).
Definition s_Alternate_BC_Lo (cpu : CPU) (v : Z) : CPU := set_CPU_States cpu (set_States_Alternate (CPU_States cpu) (set_GPR_BC (States_Alternate (CPU_States cpu)) (set_Register_Lo (GPR_BC (States_Alternate (CPU_States cpu))) v))).
Definition lens_Alternate_BC_Lo : lens Z := mk_lens g_Alternate_BC_Lo s_Alternate_BC_Lo.
Definition g_Alternate_DE (cpu : CPU) : Register := GPR_DE (States_Alternate (CPU_States cpu)).
Definition s_Alternate_DE (cpu : CPU) (v : Register) : CPU := set_CPU_States cpu (set_States_Alternate (CPU_States cpu) (set_GPR_DE (States_Alternate (CPU_States cpu)) v)).
Definition lens_Alternate_DE : lens Register := mk_lens g_Alternate_DE s_Alternate_DE.
Definition g_Alternate_DE_Hi (cpu : CPU) : Z := Register_Hi (GPR_DE (States_Alternate (CPU_States cpu))).
Definition s_Alternate_DE_Hi (cpu : CPU) (v : Z) : CPU := set_CPU_States cpu (set_States_Alternate (CPU_States cpu) (set_GPR_DE (States_Alternate (CPU_States cpu)) (set_Register_Hi (GPR_DE (States_Alternate (CPU_States cpu))) v))).
Definition lens_Alternate_DE_Hi : lens Z := mk_lens g_Alternate_DE_Hi s_Alternate_DE_Hi.
Definition g_Alternate_DE_Lo (cpu : CPU) : Z := Register_Lo (GPR_DE (States_Alternate (CPU_States cpu))).
Definition s_Alternate_DE_Lo (cpu : CPU) (v : Z) : CPU := set_CPU_States cpu (set_States_Alternate (CPU_States cpu) (set_GPR_DE (States_Alternate (CPU_States cpu)) (set_Register_Lo (GPR_DE (States_Alternate (CPU_States cpu))) v))).
Definition lens_Alternate_DE_Lo : lens Z := mk_lens g_Alternate_DE_Lo s_Alternate_DE_Lo.
Definition g_Alternate_HL (cpu : CPU) : Register := GPR_HL (States_Alternate (CPU_States cpu)).
Definition s_Alternate_HL (cpu : CPU) (v : Register) : CPU := set_CPU_States cpu (set_States_Alternate (CPU_States cpu) (set_GPR_HL (States_Alternate (CPU_States cpu)) v)).
Definition lens_Alternate_HL : lens Register := mk_lens g_Alternate_HL s_Alternate_HL.
Definition g_Alternate_HL_Hi (cpu : CPU) : Z := Register_Hi (GPR_HL (States_Alternate (CPU_States cpu))).
Definition s_Alternate_HL_Hi (cpu : CPU) (v : Z) : CPU := set_CPU_States cpu (set_States_Alternate (CPU_States cpu) (set_GPR_HL (States_Alternate (CPU_States cpu)) (set_Register_Hi (GPR_HL (States_Alternate (CPU_States cpu))) v))).
Definition lens_Alternate_HL_Hi : lens Z := mk_lens g_Alternate_HL_Hi s_Alternate_HL_Hi.
Definition g_Alternate_HL_Lo (cpu : CPU) : Z := Register_Lo (GPR_HL (States_Alternate (CPU_States cpu))).
Definition s_Alternate_HL_Lo (cpu : CPU) (v : Z) : CPU := set_CPU_States cpu (set_States_Alternate (CPU_States cpu) (set_GPR_HL (States_Alternate (CPU_States cpu)) (set_Register_Lo (GPR_HL (States_Alternate (CPU_States cpu))) v))).
Definition lens_Alternate_HL_Lo : lens Z := mk_lens g_Alternate_HL_Lo s_Alternate_HL_Lo.
Definition g_IFF1 (cpu : CPU) : bool := States_IFF1 (CPU_States cpu).
Definition s_IFF1 (cpu : CPU) (v : bool) : CPU := set_CPU_States cpu (set_States_IFF1 (CPU_States cpu) v).
Definition lens_IFF1 : lens bool := mk_lens g_IFF1 s_IFF1.
Definition g_IFF2 (cpu : CPU) : bool := States_IFF2 (CPU_States cpu).
Definition s_IFF2 (cpu : CPU) (v : bool) : CPU := set_CPU_States cpu (set_States_IFF2 (CPU_States cpu) v).
Definition lens_IFF2 : lens bool := mk_lens g_IFF2 s_IFF2.
Definition g_IM (cpu : CPU) : Z := States_IM (CPU_States cpu).
Definition s_IM (cpu : CPU) (v : Z) : CPU := set_CPU_States cpu (set_States_IM (CPU_States cpu) v).
Definition lens_IM : lens Z := mk_lens g_IM s_IM.
Definition g_Memory (cpu : CPU) : MemRef := CPU_Memory cpu.
Definition s_Memory (cpu : CPU) (v : MemRef) : CPU := set_CPU_Memory cpu v.
Definition lens_Memory : lens MemRef := mk_lens g_Memory s_Memory.
Definition g_IO (cpu : CPU) : bool := CPU_IO cpu.
Definition s_IO (cpu : CPU) (v : bool) : CPU := set_CPU_IO cpu v.
Definition lens_IO : lens bool := mk_lens g_IO s_IO.
Definition g_RETNHandler (cpu : CPU) : bool := CPU_RETNHandler cpu.
Definition s_RETNHandler (cpu : CPU) (v : bool) : CPU := set_CPU_RETNHandler cpu v.
Definition lens_RETNHandler : lens bool := mk_lens g_RETNHandler s_RETNHandler.
Definition g_RETIHandler (cpu : CPU) : bool := CPU_RETIHandler cpu.
Definition s_RETIHandler (cpu : CPU) (v : bool) : CPU := set_CPU_RETIHandler cpu v.
Definition lens_RETIHandler : lens bool := mk_lens g_RETIHandler s_RETIHandler.
Definition g_Interrupt (cpu : CPU) : option Interrupt := CPU_Interrupt cpu.
Definition s_Interrupt (cpu : CPU) (v : option Interrupt) : CPU := set_CPU_Interrupt cpu v.
Definition lens_Interrupt : lens (option Interrupt) := mk_lens g_Interrupt s_Interrupt.
Definition g_BreakPoints (cpu : CPU) : option (list Z) := CPU_BreakPoints cpu.
Definition s_BreakPoints (cpu : CPU) (v : option (list Z)) : CPU := set_CPU_BreakPoints cpu v.
Definition lens_BreakPoints : lens (option (list Z)) := mk_lens g_BreakPoints s_BreakPoints.
Definition g_HALT (cpu : CPU) : bool := CPU_HALT cpu.
Definition s_HALT (cpu : CPU) (v : bool) : CPU := set_CPU_HALT cpu v.
Definition lens_HALT : lens bool := mk_lens g_HALT s_HALT.
Definition g_W (cpu : CPU) : World := CPU_W cpu.
Definition s_W (cpu : CPU) (v : World) : CPU := set_CPU_W cpu v.
Definition lens_W : lens World := mk_lens g_W s_W.
