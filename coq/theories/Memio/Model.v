(* C15 - hand-written executable model of /repo/memio.go
   (package z80: DumbMemory, DumbIO, MapMemory).

   Go values are modelled with an explicit heap so that aliasing is expressible:
     * a backing array of a []uint8 is a heap cell in [bytes]; a DumbMemory / DumbIO
       value is a slice header (cell, offset, len, cap) - several headers may share
       one cell (sub-slices, DumbIO(dm) conversions, the value returned by Put);
     * a Go map is a heap cell in [maps]; a MapMemory value is nil ([None]) or a
       reference to such a cell ([Some c]) - copies of the value alias the cell.
   Cells are binary tries indexed by address+1 (canonical when built by insertion
   only, which is what lets [Equal] be structural equality).
   Variables ([vars]) are single-assignment: every operation that yields a Go value
   appends it; operations name their operands by variable index.
   A Go run-time panic is the explicit outcome [OPanic] (state unchanged - every
   panic in memio.go happens before the first write of the operation). *)
From Coq Require Import ZArith List Bool Lia.
Import ListNotations.
Open Scope Z_scope.

(* ---------------------------------------------------------------- tries *)
Inductive tree := Leaf | Node (l : tree) (o : option Z) (r : tree).

Fixpoint tget (p : positive) (t : tree) : option Z :=
  match t with
  | Leaf => None
  | Node l o r => match p with xH => o | xO q => tget q l | xI q => tget q r end
  end.

Fixpoint tset (p : positive) (v : Z) (t : tree) : tree :=
  match p, t with
  | xH, Leaf => Node Leaf (Some v) Leaf
  | xH, Node l _ r => Node l (Some v) r
  | xO q, Leaf => Node (tset q v Leaf) None Leaf
  | xO q, Node l o r => Node (tset q v l) o r
  | xI q, Leaf => Node Leaf None (tset q v Leaf)
  | xI q, Node l o r => Node l o (tset q v r)
  end.

Definition oeqb (a b : option Z) : bool :=
  match a, b with
  | Some x, Some y => x =? y
  | None, None => true
  | _, _ => false
  end.

Fixpoint teqb (a b : tree) : bool :=
  match a, b with
  | Leaf, Leaf => true
  | Node l o r, Node l' o' r' => teqb l l' && oeqb o o' && teqb r r'
  | _, _ => false
  end.

(* address (an index >= 0) -> trie key *)
Definition key (a : Z) : positive := Z.to_pos (a + 1).

(* a byte cell reads 0 where nothing was stored (make() zeroes the array) *)
Definition bread (t : tree) (i : Z) : Z :=
  match tget (key i) t with Some x => x | None => 0 end.

(* ---------------------------------------------------------------- state *)
Record slice := mkSlice { s_cell : nat; s_off : Z; s_len : Z; s_cap : Z }.

Inductive value :=
| VDm (h : slice)            (* a z80.DumbMemory value *)
| VIo (h : slice)            (* a z80.DumbIO value *)
| VMm (m : option nat).      (* a z80.MapMemory value: nil or a map object *)

Record state := mkState { bytes : list tree; maps : list tree; vars : list value }.

Definition init : state := mkState [] [] [].

(* the argument a0 of MapMemory.Equal(a0 interface{}) *)
Inductive eqarg :=
| EVar (w : nat)     (* the value of variable w, whatever its type *)
| ENilIface          (* the nil interface *)
| ERawOf (w : nat).  (* map[uint16]uint8(vars[w]) : same map object, but not of type MapMemory *)

Inductive op :=
| DmMake (n : Z)                         (* DumbMemory(make([]uint8, n)) *)
| DmNil                                  (* DumbMemory(nil) *)
| DmSlice (v : nat) (lo hi : Z)          (* vars[v][lo:hi] *)
| DmGet (v : nat) (a : Z)
| DmSet (v : nat) (a x : Z)
| DmPut (v : nat) (a : Z) (d : list Z)   (* yields the returned DumbMemory *)
| IoMake (n : Z)                         (* DumbIO(make([]uint8, n)) *)
| IoNil
| IoOfDm (v : nat)                       (* DumbIO(vars[v]) *)
| DmOfIo (v : nat)                       (* DumbMemory(vars[v]) *)
| IoIn (v : nat) (p : Z)
| IoOut (v : nat) (p x : Z)
| MmNil                                  (* MapMemory(nil) *)
| MmNew                                  (* MapMemory{} *)
| MmGet (v : nat) (a : Z)
| MmSet (v : nat) (a x : Z)
| MmPut (v : nat) (a : Z) (d : list Z)   (* yields the returned MapMemory *)
| MmClone (v : nat)
| MmClear (v : nat)
| MmEqual (v : nat) (e : eqarg).

Inductive out :=
| OUnit | OByte (b : Z) | OBool (b : bool)
| ONew (i : nat)       (* a new variable with this index now holds the result *)
| OPanic               (* Go run-time panic (recovered by the harness) *)
| OBadOp.              (* ill-typed operation: never generated, never reachable in Go *)

(* ---------------------------------------------------------------- helpers *)
Fixpoint upd_nth {A} (n : nat) (x : A) (l : list A) {struct l} : list A :=
  match l with
  | [] => []
  | y :: t => match n with O => x :: t | S m => y :: upd_nth m x t end
  end.

Fixpoint zlen {A} (d : list A) : Z :=
  match d with [] => 0 | _ :: t => 1 + zlen t end.

Definition getv (s : state) (v : nat) : option value := nth_error (vars s) v.
Definition bcell (s : state) (c : nat) : tree := nth c (bytes s) Leaf.
Definition mcell (s : state) (c : nat) : tree := nth c (maps s) Leaf.
Definition set_bcell (s : state) (c : nat) (t : tree) : state :=
  mkState (upd_nth c t (bytes s)) (maps s) (vars s).
Definition set_mcell (s : state) (c : nat) (t : tree) : state :=
  mkState (bytes s) (upd_nth c t (maps s)) (vars s).
Definition push (s : state) (x : value) : state * out :=
  (mkState (bytes s) (maps s) (vars s ++ [x]), ONew (length (vars s))).
Definition new_bcell (s : state) : state := mkState (bytes s ++ [Leaf]) (maps s) (vars s).
Definition new_mcell (s : state) (t : tree) : state := mkState (bytes s) (maps s ++ [t]) (vars s).

(* ---------------------------------------------------------------- []uint8 wrappers *)
(*  func (dm DumbMemory) Get(addr uint16) uint8 {
        if int(addr) >= len(dm) { return 0 }
        return dm[addr] }                       -- dm[addr] has the run-time check 0 <= addr < len(dm) *)
Definition sl_get (s : state) (h : slice) (a : Z) : out :=
  if a >=? s_len h then OByte 0
  else if (0 <=? a) && (a <? s_len h)
       then OByte (bread (bcell s (s_cell h)) (s_off h + a))
       else OPanic.

(*  func (dm DumbMemory) Set(addr uint16, value uint8) {
        if int(addr) >= len(dm) { return }
        dm[addr] = value } *)
Definition sl_set (s : state) (h : slice) (a x : Z) : state * out :=
  if a >=? s_len h then (s, OUnit)
  else if (0 <=? a) && (a <? s_len h)
       then (set_bcell s (s_cell h) (tset (key (s_off h + a)) x (bcell s (s_cell h))), OUnit)
       else (s, OPanic).

(* copy(dst, data) with len(dst) = len(data): consecutive elements of the backing array *)
Fixpoint tcopy (t : tree) (i : Z) (d : list Z) : tree :=
  match d with [] => t | x :: d' => tcopy (tset (key i) x t) (i + 1) d' end.

(*  func (dm DumbMemory) Put(addr uint16, data ...uint8) DumbMemory {
        copy(dm[int(addr):int(addr)+len(data)], data)
        return dm }
    The slice expression dm[lo:hi] panics unless 0 <= lo <= hi <= cap(dm)  (cap, not len). *)
Definition sl_put (s : state) (h : slice) (a : Z) (d : list Z) : option state :=
  if (0 <=? a) && (a + zlen d <=? s_cap h)
  then Some (set_bcell s (s_cell h) (tcopy (bcell s (s_cell h)) (s_off h + a) d))
  else None.

Definition sl_make (s : state) (n : Z) (mk : slice -> value) : state * out :=
  if n <? 0 then (s, OPanic)
  else push (new_bcell s) (mk (mkSlice (length (bytes s)) 0 n n)).

(* ---------------------------------------------------------------- MapMemory *)
(*  for _, v := range data { mm[addr] = v; addr++ }     -- addr is a uint16: it wraps *)
Fixpoint mcopy (t : tree) (a : Z) (d : list Z) : tree :=
  match d with [] => t | x :: d' => mcopy (tset (key a) x t) ((a + 1) mod 65536) d' end.

(*  a, ok := a0.(MapMemory); if !ok { return false }; return reflect.DeepEqual(mm, a)
    DeepEqual on maps: both nil, or both non-nil with the same key set and equal values. *)
Definition mm_equal (s : state) (m : option nat) (e : eqarg) : out :=
  match e with
  | ENilIface => OBool false
  | ERawOf w => match getv s w with Some (VMm _) => OBool false | _ => OBadOp end
  | EVar w =>
      match getv s w with
      | Some (VMm m') =>
          OBool (match m, m' with
                 | None, None => true
                 | Some c, Some c' => teqb (mcell s c) (mcell s c')
                 | _, _ => false
                 end)
      | Some _ => OBool false
      | None => OBadOp
      end
  end.

(* ---------------------------------------------------------------- one operation *)
Definition step (s : state) (o : op) : state * out :=
  match o with
  | DmMake n => sl_make s n VDm
  | DmNil => sl_make s 0 VDm
  | IoMake n => sl_make s n VIo
  | IoNil => sl_make s 0 VIo
  | DmSlice v lo hi =>
      match getv s v with
      | Some (VDm h) =>
          if (0 <=? lo) && (lo <=? hi) && (hi <=? s_cap h)
          then push s (VDm (mkSlice (s_cell h) (s_off h + lo) (hi - lo) (s_cap h - lo)))
          else (s, OPanic)
      | _ => (s, OBadOp)
      end
  | IoOfDm v => match getv s v with Some (VDm h) => push s (VIo h) | _ => (s, OBadOp) end
  | DmOfIo v => match getv s v with Some (VIo h) => push s (VDm h) | _ => (s, OBadOp) end
  | DmGet v a => match getv s v with Some (VDm h) => (s, sl_get s h a) | _ => (s, OBadOp) end
  | IoIn v a => match getv s v with Some (VIo h) => (s, sl_get s h a) | _ => (s, OBadOp) end
  | DmSet v a x => match getv s v with Some (VDm h) => sl_set s h a x | _ => (s, OBadOp) end
  | IoOut v a x => match getv s v with Some (VIo h) => sl_set s h a x | _ => (s, OBadOp) end
  | DmPut v a d =>
      match getv s v with
      | Some (VDm h) => match sl_put s h a d with Some s' => push s' (VDm h) | None => (s, OPanic) end
      | _ => (s, OBadOp)
      end
  | MmNil => push s (VMm None)
  | MmNew => push (new_mcell s Leaf) (VMm (Some (length (maps s))))
  | MmGet v a =>
      match getv s v with
      | Some (VMm (Some c)) =>
          (s, OByte (match tget (key a) (mcell s c) with Some x => x | None => 199 end))
      | Some (VMm None) => (s, OByte 199)            (* reading a nil map: absent *)
      | _ => (s, OBadOp)
      end
  | MmSet v a x =>
      match getv s v with
      | Some (VMm (Some c)) => (set_mcell s c (tset (key a) x (mcell s c)), OUnit)
      | Some (VMm None) => (s, OPanic)               (* assignment to entry in nil map *)
      | _ => (s, OBadOp)
      end
  | MmPut v a d =>
      match getv s v with
      | Some (VMm (Some c)) => push (set_mcell s c (mcopy (mcell s c) a d)) (VMm (Some c))
      | Some (VMm None) =>
          match d with [] => push s (VMm None) | _ :: _ => (s, OPanic) end
      | _ => (s, OBadOp)
      end
  | MmClone v =>
      match getv s v with
      | Some (VMm (Some c)) => push (new_mcell s (mcell s c)) (VMm (Some (length (maps s))))
      | Some (VMm None) => push (new_mcell s Leaf) (VMm (Some (length (maps s))))
      | _ => (s, OBadOp)
      end
  | MmClear v =>
      match getv s v with
      | Some (VMm (Some c)) => (set_mcell s c Leaf, OUnit)
      | Some (VMm None) => (s, OUnit)                (* range over a nil map: no iterations *)
      | _ => (s, OBadOp)
      end
  | MmEqual v e =>
      match getv s v with
      | Some (VMm m) => (s, mm_equal s m e)
      | _ => (s, OBadOp)
      end
  end.

(* a whole sequence: final state and the list of outcomes *)
Fixpoint exec (s : state) (ops : list op) : state * list out :=
  match ops with
  | [] => (s, [])
  | o :: t => let (s1, r) := step s o in let (s2, rs) := exec s1 t in (s2, r :: rs)
  end.

Definition run (s : state) (ops : list op) : state :=
  fold_left (fun s o => fst (step s o)) ops s.

(* ================================================================ abstract machine:
   every object is a plain function store updated pointwise *)
Record astate := mkA {
  abytes : nat -> Z -> Z;            (* backing array c, index i  -> byte (default 0) *)
  amaps : nat -> Z -> option Z;      (* map object c, address a   -> last value written, if any *)
  anb : nat; anm : nat;              (* number of objects allocated so far *)
  avars : list value }.

Definition ainit : astate := mkA (fun _ _ => 0) (fun _ _ => None) O O [].

Definition fupd {A} (f : Z -> A) (i : Z) (x : A) : Z -> A := fun j => if j =? i then x else f j.
Definition cupd {A} (h : nat -> A) (c : nat) (x : A) : nat -> A := fun d => if Nat.eqb d c then x else h d.

(* outcome of the abstract machine: a value, or (for Equal) a proposition the returned bool decides *)
Inductive aout := AOut (o : out) | AEq (P : Prop).

Definition out_match (o : out) (ao : aout) : Prop :=
  match ao with
  | AOut o' => o = o'
  | AEq P => exists b, o = OBool b /\ (b = true <-> P)
  end.

Definition apush (a : astate) (x : value) : astate * aout :=
  (mkA (abytes a) (amaps a) (anb a) (anm a) (avars a ++ [x]), AOut (ONew (length (avars a)))).

Definition in_slice (h : slice) (a : Z) : bool := (0 <=? a) && (a <? s_len h).

Definition a_get (a : astate) (h : slice) (addr : Z) : aout :=
  AOut (OByte (if in_slice h addr then abytes a (s_cell h) (s_off h + addr) else 0)).

Definition a_write (a : astate) (c : nat) (f : Z -> Z) : astate :=
  mkA (cupd (abytes a) c f) (amaps a) (anb a) (anm a) (avars a).
Definition a_mwrite (a : astate) (c : nat) (f : Z -> option Z) : astate :=
  mkA (abytes a) (cupd (amaps a) c f) (anb a) (anm a) (avars a).

Definition a_set (a : astate) (h : slice) (addr x : Z) : astate * aout :=
  (if in_slice h addr
   then a_write a (s_cell h) (fupd (abytes a (s_cell h)) (s_off h + addr) x)
   else a, AOut OUnit).

Fixpoint acopy {A} (f : Z -> A) (i : Z) (d : list A) : Z -> A :=
  match d with [] => f | x :: d' => acopy (fupd f i x) (i + 1) d' end.
Fixpoint amcopy (f : Z -> option Z) (i : Z) (d : list Z) : Z -> option Z :=
  match d with [] => f | x :: d' => amcopy (fupd f i (Some x)) ((i + 1) mod 65536) d' end.

Definition a_make (a : astate) (n : Z) (mk : slice -> value) : astate * aout :=
  if n <? 0 then (a, AOut OPanic)
  else apush (mkA (cupd (abytes a) (anb a) (fun _ => 0)) (amaps a) (S (anb a)) (anm a) (avars a))
             (mk (mkSlice (anb a) 0 n n)).

Definition a_newmap (a : astate) (f : Z -> option Z) : astate * aout :=
  apush (mkA (abytes a) (cupd (amaps a) (anm a) f) (anb a) (S (anm a)) (avars a))
        (VMm (Some (anm a))).

Definition a_equal (a : astate) (m : option nat) (e : eqarg) : aout :=
  match e with
  | ENilIface => AOut (OBool false)
  | ERawOf w => match nth_error (avars a) w with Some (VMm _) => AOut (OBool false) | _ => AOut OBadOp end
  | EVar w =>
      match nth_error (avars a) w with
      | Some (VMm m') =>
          match m, m' with
          | None, None => AOut (OBool true)
          | Some c, Some c' => AEq (forall k, 0 <= k -> amaps a c k = amaps a c' k)
          | _, _ => AOut (OBool false)
          end
      | Some _ => AOut (OBool false)
      | None => AOut OBadOp
      end
  end.

Definition astep (a : astate) (o : op) : astate * aout :=
  let bad := (a, AOut OBadOp) in
  match o with
  | DmMake n => a_make a n VDm
  | DmNil => a_make a 0 VDm
  | IoMake n => a_make a n VIo
  | IoNil => a_make a 0 VIo
  | DmSlice v lo hi =>
      match nth_error (avars a) v with
      | Some (VDm h) =>
          if (0 <=? lo) && (lo <=? hi) && (hi <=? s_cap h)
          then apush a (VDm (mkSlice (s_cell h) (s_off h + lo) (hi - lo) (s_cap h - lo)))
          else (a, AOut OPanic)
      | _ => bad
      end
  | IoOfDm v => match nth_error (avars a) v with Some (VDm h) => apush a (VIo h) | _ => bad end
  | DmOfIo v => match nth_error (avars a) v with Some (VIo h) => apush a (VDm h) | _ => bad end
  | DmGet v x => match nth_error (avars a) v with Some (VDm h) => (a, a_get a h x) | _ => bad end
  | IoIn v x => match nth_error (avars a) v with Some (VIo h) => (a, a_get a h x) | _ => bad end
  | DmSet v x y => match nth_error (avars a) v with Some (VDm h) => a_set a h x y | _ => bad end
  | IoOut v x y => match nth_error (avars a) v with Some (VIo h) => a_set a h x y | _ => bad end
  | DmPut v x d =>
      match nth_error (avars a) v with
      | Some (VDm h) =>
          if (0 <=? x) && (x + zlen d <=? s_cap h)
          then apush (a_write a (s_cell h) (acopy (abytes a (s_cell h)) (s_off h + x) d)) (VDm h)
          else (a, AOut OPanic)
      | _ => bad
      end
  | MmNil => apush a (VMm None)
  | MmNew => a_newmap a (fun _ => None)
  | MmGet v x =>
      match nth_error (avars a) v with
      | Some (VMm (Some c)) => (a, AOut (OByte (match amaps a c x with Some y => y | None => 199 end)))
      | Some (VMm None) => (a, AOut (OByte 199))
      | _ => bad
      end
  | MmSet v x y =>
      match nth_error (avars a) v with
      | Some (VMm (Some c)) => (a_mwrite a c (fupd (amaps a c) x (Some y)), AOut OUnit)
      | Some (VMm None) => (a, AOut OPanic)
      | _ => bad
      end
  | MmPut v x d =>
      match nth_error (avars a) v with
      | Some (VMm (Some c)) => apush (a_mwrite a c (amcopy (amaps a c) x d)) (VMm (Some c))
      | Some (VMm None) => match d with [] => apush a (VMm None) | _ :: _ => (a, AOut OPanic) end
      | _ => bad
      end
  | MmClone v =>
      match nth_error (avars a) v with
      | Some (VMm (Some c)) => a_newmap a (amaps a c)
      | Some (VMm None) => a_newmap a (fun _ => None)
      | _ => bad
      end
  | MmClear v =>
      match nth_error (avars a) v with
      | Some (VMm (Some c)) => (a_mwrite a c (fun _ => None), AOut OUnit)
      | Some (VMm None) => (a, AOut OUnit)
      | _ => bad
      end
  | MmEqual v e =>
      match nth_error (avars a) v with
      | Some (VMm m) => (a, a_equal a m e)
      | _ => bad
      end
  end.

Fixpoint aexec (a : astate) (ops : list op) : astate * list aout :=
  match ops with
  | [] => (a, [])
  | o :: t => let (a1, r) := astep a o in let (a2, rs) := aexec a1 t in (a2, r :: rs)
  end.

(* ---------------------------------------------------------------- typing of operands and invariant *)
(* what the Go parameter types uint16 / uint8 guarantee *)
Definition op_ok (o : op) : Prop :=
  match o with
  | DmGet _ a | DmSet _ a _ | DmPut _ a _ | MmGet _ a | MmSet _ a _ | MmPut _ a _ => 0 <= a < 65536
  | IoIn _ p | IoOut _ p _ => 0 <= p < 256
  | _ => True
  end.

(* trie built by insertion only: no empty Node *)
Fixpoint wf_tree (t : tree) : Prop :=
  match t with
  | Leaf => True
  | Node l o r => wf_tree l /\ wf_tree r /\ (o <> None \/ l <> Leaf \/ r <> Leaf)
  end.

Definition wf_slice (nb : nat) (h : slice) : Prop :=
  (s_cell h < nb)%nat /\ 0 <= s_off h /\ 0 <= s_len h <= s_cap h.

Definition wf_value (nb nm : nat) (v : value) : Prop :=
  match v with
  | VDm h | VIo h => wf_slice nb h
  | VMm (Some c) => (c < nm)%nat
  | VMm None => True
  end.

Definition wf (s : state) : Prop :=
  Forall (wf_value (length (bytes s)) (length (maps s))) (vars s) /\ Forall wf_tree (maps s).

(* refinement relation: same variables and object counts, every cell read = abstract store *)
Definition R (s : state) (a : astate) : Prop :=
  vars s = avars a /\ length (bytes s) = anb a /\ length (maps s) = anm a /\
  (forall c i, 0 <= i -> bread (bcell s c) i = abytes a c i) /\
  (forall c k, 0 <= k -> tget (key k) (mcell s c) = amaps a c k).
