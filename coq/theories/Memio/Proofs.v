(* C15 - proofs about the memio model (see Model.v) *)
From Coq Require Import ZArith List Bool Lia ZifyBool ZifyNat.
From Z80V Require Import Memio.Model.
Import ListNotations.
Open Scope Z_scope.

(* ================================================================ tries *)
Lemma tget_leaf p : tget p Leaf = None.
Proof. destruct p; reflexivity. Qed.

Lemma tgss p v : forall t, tget p (tset p v t) = Some v.
Proof. induction p; intros [|l o r]; simpl; auto. Qed.

Lemma tgso q v : forall p t, p <> q -> tget p (tset q v t) = tget p t.
Proof.
  induction q; intros [p|p|] [|l o r] H; simpl; auto;
    try (rewrite IHq by congruence); try rewrite tget_leaf; auto; congruence.
Qed.

Lemma key_inj i j : 0 <= i -> 0 <= j -> key i = key j -> i = j.
Proof. unfold key; intros Hi Hj H. apply Z2Pos.inj in H; lia. Qed.

Lemma key_surj p : exists k, 0 <= k /\ key k = p.
Proof.
  exists (Z.pos p - 1). split; [lia|]. unfold key.
  replace (Z.pos p - 1 + 1) with (Z.pos p) by lia. reflexivity.
Qed.

Lemma tget_key_tset i j x t : 0 <= i -> 0 <= j ->
  tget (key j) (tset (key i) x t) = if j =? i then Some x else tget (key j) t.
Proof.
  intros Hi Hj. destruct (Z.eqb_spec j i) as [->|N].
  - apply tgss.
  - apply tgso. intro E. apply N. apply key_inj; auto.
Qed.

Lemma bread_tset i j x t : 0 <= i -> 0 <= j ->
  bread (tset (key i) x t) j = if j =? i then x else bread t j.
Proof.
  intros Hi Hj. unfold bread. rewrite tget_key_tset by auto.
  destruct (j =? i); reflexivity.
Qed.

Lemma tset_not_leaf p v t : tset p v t <> Leaf.
Proof. destruct p, t; simpl; discriminate. Qed.

Lemma wf_tset p v : forall t, wf_tree t -> wf_tree (tset p v t).
Proof.
  induction p; intros [|l o r] H; simpl in *; try destruct H as (Hl & Hr & Hn);
    repeat split; auto; try (apply IHp; simpl; auto);
    try (right; right; apply tset_not_leaf); try (right; left; apply tset_not_leaf);
    try (left; discriminate).
Qed.

Lemma wf_nonempty t : wf_tree t -> t <> Leaf -> exists p, tget p t <> None.
Proof.
  induction t as [|l IHl o r IHr]; intros H N; [congruence|].
  simpl in H. destruct H as (Hl & Hr & [Ho|[Hn|Hn]]).
  - exists xH; exact Ho.
  - destruct (IHl Hl Hn) as [p Hp]. exists (xO p); exact Hp.
  - destruct (IHr Hr Hn) as [p Hp]. exists (xI p); exact Hp.
Qed.

Lemma wf_ext_eq t1 : forall t2, wf_tree t1 -> wf_tree t2 ->
  (forall p, tget p t1 = tget p t2) -> t1 = t2.
Proof.
  induction t1 as [|l IHl o r IHr]; intros [|l' o' r'] W1 W2 E; auto.
  - destruct (wf_nonempty _ W2) as [p Hp]; [discriminate|].
    specialize (E p). rewrite tget_leaf in E. congruence.
  - destruct (wf_nonempty _ W1) as [p Hp]; [discriminate|].
    specialize (E p). rewrite tget_leaf in E. congruence.
  - simpl in W1, W2. destruct W1 as (A1 & B1 & _), W2 as (A2 & B2 & _).
    f_equal.
    + apply IHl; auto. intro p; exact (E (xO p)).
    + exact (E xH).
    + apply IHr; auto. intro p; exact (E (xI p)).
Qed.

Lemma oeqb_eq a b : oeqb a b = true <-> a = b.
Proof.
  destruct a, b; simpl; split; intro H; try discriminate; auto.
  - f_equal; lia.
  - inversion H; lia.
Qed.

Lemma teqb_eq a : forall b, teqb a b = true <-> a = b.
Proof.
  induction a as [|l IHl o r IHr]; intros [|l' o' r']; simpl; split; intro H;
    try discriminate; auto.
  - apply andb_true_iff in H. destruct H as [H H3]. apply andb_true_iff in H. destruct H as [H1 H2].
    apply IHl in H1. apply IHr in H3. apply oeqb_eq in H2. congruence.
  - inversion H; subst. rewrite (proj2 (IHl l')), (proj2 (IHr r')), (proj2 (oeqb_eq o' o')); auto.
Qed.

(* structural equality of insertion-built tries = same finite contents *)
Lemma teqb_contents t1 t2 : wf_tree t1 -> wf_tree t2 ->
  (teqb t1 t2 = true <-> forall k, 0 <= k -> tget (key k) t1 = tget (key k) t2).
Proof.
  intros W1 W2. rewrite teqb_eq. split.
  - intros ->; auto.
  - intro E. apply wf_ext_eq; auto. intro p.
    destruct (key_surj p) as (k & Hk & <-). auto.
Qed.

(* ================================================================ lists *)
Lemma length_upd_nth {A} (x : A) : forall l n, length (upd_nth n x l) = length l.
Proof. induction l; intros [|n]; simpl; auto. Qed.

Lemma nth_upd_nth {A} (x dflt : A) : forall l c d, (c < length l)%nat ->
  nth d (upd_nth c x l) dflt = if Nat.eqb d c then x else nth d l dflt.
Proof.
  induction l; intros c d H; simpl in *; [lia|].
  destruct c, d; simpl; auto. apply IHl; lia.
Qed.

Lemma nth_snoc {A} (x dflt : A) : forall l d,
  nth d (l ++ [x]) dflt = if Nat.eqb d (length l) then x else nth d l dflt.
Proof.
  induction l; intros [|d]; simpl; auto. destruct d; auto.
Qed.

Lemma Forall_upd_nth {A} (P : A -> Prop) x : forall l c, Forall P l -> P x -> Forall P (upd_nth c x l).
Proof.
  induction l; intros c H Hx; simpl; [constructor|].
  inversion H; subst. destruct c; constructor; auto.
Qed.

Lemma zlen_length {A} (d : list A) : zlen d = Z.of_nat (length d).
Proof. induction d; simpl length; cbn [zlen]; lia. Qed.

Lemma zlen_nonneg {A} (d : list A) : 0 <= zlen d.
Proof. rewrite zlen_length; lia. Qed.

(* ================================================================ copies *)
Lemma tcopy_spec d : forall t i f, 0 <= i ->
  (forall j, 0 <= j -> bread t j = f j) ->
  forall j, 0 <= j -> bread (tcopy t i d) j = acopy f i d j.
Proof.
  induction d as [|x d IH]; intros t i f Hi E j Hj; simpl; auto.
  apply IH; auto; [lia|]. intros j' Hj'. rewrite bread_tset by auto. unfold fupd.
  destruct (j' =? i); auto.
Qed.

Lemma mcopy_spec d : forall t a f, 0 <= a ->
  (forall k, 0 <= k -> tget (key k) t = f k) ->
  forall k, 0 <= k -> tget (key k) (mcopy t a d) = amcopy f a d k.
Proof.
  induction d as [|x d IH]; intros t a f Ha E k Hk; simpl; auto.
  apply IH; auto.
  - pose proof (Z.mod_pos_bound (a + 1) 65536). lia.
  - intros k' Hk'. rewrite tget_key_tset by auto. unfold fupd. destruct (k' =? a); auto.
Qed.

Lemma wf_mcopy d : forall t a, wf_tree t -> wf_tree (mcopy t a d).
Proof. induction d; intros; simpl; auto. apply IHd. apply wf_tset; auto. Qed.

(* ================================================================ invariant *)
Lemma wf_value_mono nb nm nb' nm' v : (nb <= nb')%nat -> (nm <= nm')%nat ->
  wf_value nb nm v -> wf_value nb' nm' v.
Proof.
  intros H1 H2. destruct v as [h|h|[c|]]; simpl; unfold wf_slice; intros; try lia; auto.
Qed.

Lemma wf_getv s v x : wf s -> getv s v = Some x ->
  wf_value (length (bytes s)) (length (maps s)) x.
Proof.
  intros [W _] E. unfold getv in E. apply nth_error_In in E.
  rewrite Forall_forall in W. auto.
Qed.

Lemma wf_mcell s c : wf s -> wf_tree (mcell s c).
Proof.
  intros [_ W]. unfold mcell. destruct (Nat.ltb_spec c (length (maps s))).
  - rewrite Forall_forall in W. apply W. apply nth_In; auto.
  - rewrite nth_overflow by lia. exact I.
Qed.

Lemma wf_push s x : wf s -> wf_value (length (bytes s)) (length (maps s)) x -> wf (fst (push s x)).
Proof.
  intros [W1 W2] Hx. split; simpl; auto. apply Forall_app; split; auto.
Qed.

Lemma wf_set_bcell s c t : wf s -> wf (set_bcell s c t).
Proof. intros [W1 W2]. split; simpl; auto. rewrite length_upd_nth; auto. Qed.

Lemma wf_set_mcell s c t : wf s -> wf_tree t -> wf (set_mcell s c t).
Proof.
  intros [W1 W2] Ht. split; simpl. rewrite length_upd_nth; auto.
  apply Forall_upd_nth; auto.
Qed.

Lemma wf_new_bcell s : wf s -> wf (new_bcell s).
Proof.
  intros [W1 W2]. split; simpl; auto. rewrite app_length; simpl.
  eapply Forall_impl; [|exact W1]. intros v. apply wf_value_mono; lia.
Qed.

Lemma wf_new_mcell s t : wf s -> wf_tree t -> wf (new_mcell s t).
Proof.
  intros [W1 W2] Ht. split; simpl.
  - rewrite app_length; simpl. eapply Forall_impl; [|exact W1]. intros v. apply wf_value_mono; lia.
  - apply Forall_app; split; auto.
Qed.

Lemma wf_init : wf init.
Proof. split; constructor. Qed.

Lemma step_wf s o : wf s -> wf (fst (step s o)).
Proof.
  intros W. destruct o; cbn [step]; unfold sl_make, sl_set, sl_put.
  all: try (destruct (getv s v) as [[h|h|[c|]]|] eqn:E; cbn [fst]; auto).
  all: try pose proof (wf_getv _ _ _ W E) as Wv; try (simpl in Wv).
  all: repeat match goal with |- context [if ?b then _ else _] => destruct b eqn:? end; cbn [fst]; auto.
  all: try (apply wf_push; auto; simpl; auto).
  all: try (apply wf_new_bcell; assumption).
  all: try (apply wf_set_bcell; assumption).
  all: try (unfold new_bcell; simpl; unfold wf_slice; simpl; rewrite app_length; simpl; lia).
  all: try (unfold wf_slice in *; simpl; lia).
  all: try (apply wf_set_mcell; auto; try apply wf_tset; try apply wf_mcopy; try apply wf_mcell; auto; exact I).
  all: try (apply wf_new_mcell; auto; try apply wf_mcell; auto; exact I).
  all: try (unfold new_mcell; simpl; rewrite app_length; simpl; lia).
  all: try (destruct d; cbn [fst]; auto; apply wf_push; auto; exact I).
  all: rewrite length_upd_nth; auto.
Qed.

(* ================================================================ refinement *)
Definition sim_res (r : state * out) (ar : astate * aout) : Prop :=
  R (fst r) (fst ar) /\ out_match (snd r) (snd ar).

Lemma bread_leaf i : bread Leaf i = 0.
Proof. unfold bread. rewrite tget_leaf. reflexivity. Qed.

Lemma sim_push s a x : R s a -> sim_res (push s x) (apush a x).
Proof.
  intros (Hv & Hb & Hm & Eb & Em). unfold sim_res, push, apush, R; simpl.
  rewrite Hv. repeat split; auto.
Qed.

Lemma R_set_bcell s a c t f : R s a -> (c < length (bytes s))%nat ->
  (forall i, 0 <= i -> bread t i = f i) -> R (set_bcell s c t) (a_write a c f).
Proof.
  intros (Hv & Hb & Hm & Eb & Em) Hc Ht.
  unfold R, set_bcell, a_write, bcell, mcell in *; simpl.
  rewrite length_upd_nth. repeat split; auto.
  intros d i Hi. rewrite nth_upd_nth by auto. unfold cupd. destruct (Nat.eqb d c); auto.
Qed.

Lemma R_set_mcell s a c t f : R s a -> (c < length (maps s))%nat ->
  (forall k, 0 <= k -> tget (key k) t = f k) -> R (set_mcell s c t) (a_mwrite a c f).
Proof.
  intros (Hv & Hb & Hm & Eb & Em) Hc Ht.
  unfold R, set_mcell, a_mwrite, bcell, mcell in *; simpl.
  rewrite length_upd_nth. repeat split; auto.
  intros d i Hi. rewrite nth_upd_nth by auto. unfold cupd. destruct (Nat.eqb d c); auto.
Qed.

Lemma R_new_bcell s a : R s a ->
  R (new_bcell s) (mkA (cupd (abytes a) (anb a) (fun _ => 0)) (amaps a) (S (anb a)) (anm a) (avars a)).
Proof.
  intros (Hv & Hb & Hm & Eb & Em).
  unfold R, new_bcell, bcell, mcell in *; simpl.
  rewrite app_length; simpl. repeat split; auto; try lia.
  intros d i Hi. rewrite nth_snoc. unfold cupd. rewrite Hb.
  destruct (Nat.eqb d (anb a)); auto. apply bread_leaf.
Qed.

Lemma R_new_mcell s a t f : R s a -> (forall k, 0 <= k -> tget (key k) t = f k) ->
  R (new_mcell s t) (mkA (abytes a) (cupd (amaps a) (anm a) f) (anb a) (S (anm a)) (avars a)).
Proof.
  intros (Hv & Hb & Hm & Eb & Em) Ht.
  unfold R, new_mcell, bcell, mcell in *; simpl.
  rewrite app_length; simpl. repeat split; auto; try lia.
  intros d i Hi. rewrite nth_snoc. unfold cupd. rewrite Hm.
  destruct (Nat.eqb d (anm a)); auto.
Qed.

Lemma sim_make s a n mk : R s a -> sim_res (sl_make s n mk) (a_make a n mk).
Proof.
  intros HR. unfold sl_make, a_make. destruct (n <? 0).
  - split; simpl; auto.
  - pose proof HR as (Hv & Hb & Hm & Eb & Em). rewrite Hb.
    apply sim_push. apply R_new_bcell; auto.
Qed.

Lemma sim_get s a h x : R s a -> wf_slice (length (bytes s)) h -> 0 <= x ->
  out_match (sl_get s h x) (a_get a h x).
Proof.
  intros (Hv & Hb & Hm & Eb & Em) (Hc & Ho & Hl) Hx. unfold sl_get, a_get, in_slice, out_match.
  destruct (x >=? s_len h) eqn:E1; destruct (0 <=? x) eqn:E2; destruct (x <? s_len h) eqn:E3;
    simpl; try lia; auto.
  rewrite Eb by lia. reflexivity.
Qed.

Lemma sim_set s a h x y : R s a -> wf_slice (length (bytes s)) h -> 0 <= x ->
  sim_res (sl_set s h x y) (a_set a h x y).
Proof.
  intros HR (Hc & Ho & Hl) Hx. pose proof HR as (Hv & Hb & Hm & Eb & Em).
  unfold sl_set, a_set, in_slice, sim_res.
  destruct (x >=? s_len h) eqn:E1; destruct (0 <=? x) eqn:E2; destruct (x <? s_len h) eqn:E3;
    simpl; try lia; auto.
  split; auto. apply R_set_bcell; auto.
  intros i Hi. rewrite bread_tset by lia. unfold fupd. rewrite Eb by lia. reflexivity.
Qed.

Theorem sim_step s a o : wf s -> R s a -> op_ok o -> sim_res (step s o) (astep a o).
Proof.
  intros W HR Hok. pose proof HR as (Hv & Hb & Hm & Eb & Em).
  destruct o; cbn [step astep]; unfold getv; rewrite <- ?Hv; try (apply sim_make; auto).
  all: try (destruct (nth_error (vars s) v) as [[h|h|[c|]]|] eqn:E; try (split; simpl; auto; fail)).
  all: try (pose proof (wf_getv _ _ _ W E) as Wv; simpl in Wv).
  all: simpl in Hok.
  - destruct ((0 <=? lo) && (lo <=? hi) && (hi <=? s_cap h));
      [apply sim_push; auto | split; simpl; auto].
  - split; simpl; auto. apply sim_get; auto; lia.
  - apply sim_set; auto; lia.
  - unfold sl_put. destruct ((0 <=? a0) && (a0 + zlen d <=? s_cap h)) eqn:G;
      [|split; simpl; auto].
    apply sim_push. destruct Wv as (Hc & Ho & Hl). apply R_set_bcell; auto.
    apply tcopy_spec; auto. lia.
  - apply sim_push; auto.
  - apply sim_push; auto.
  - split; simpl; auto. apply sim_get; auto; lia.
  - apply sim_set; auto; lia.
  - apply sim_push; auto.
  - unfold a_newmap. rewrite Hm. apply sim_push. apply R_new_mcell; auto.
    intros; apply tget_leaf.
  - split; simpl; auto. rewrite Em by lia. reflexivity.
  - split; simpl; auto. apply R_set_mcell; auto. intros k Hk.
    rewrite tget_key_tset by lia. unfold fupd. rewrite Em by auto. reflexivity.
  - apply sim_push. apply R_set_mcell; auto. apply mcopy_spec; auto. lia.
  - destruct d; [apply sim_push; auto | split; simpl; auto].
  - unfold a_newmap. rewrite Hm. apply sim_push. apply R_new_mcell; auto.
  - unfold a_newmap. rewrite Hm. apply sim_push. apply R_new_mcell; auto.
    intros; apply tget_leaf.
  - split; simpl; auto. apply R_set_mcell; auto. intros; apply tget_leaf.
  - split; simpl; auto. unfold mm_equal, a_equal, getv. rewrite <- Hv.
    destruct e as [w| |w]; simpl; auto.
    + destruct (nth_error (vars s) w) as [[h'|h'|[c'|]]|] eqn:E'; simpl; auto.
      exists (teqb (mcell s c) (mcell s c')). split; auto.
      rewrite teqb_contents by (apply wf_mcell; auto).
      split; intros HH k Hk; [rewrite <- !Em by auto | rewrite !Em by auto]; auto.
    + destruct (nth_error (vars s) w) as [[|?|?]|]; simpl; auto.
  - split; simpl; auto. unfold mm_equal, a_equal, getv. rewrite <- Hv.
    destruct e as [w| |w]; simpl; auto.
    + destruct (nth_error (vars s) w) as [[h'|h'|[c'|]]|] eqn:E'; simpl; auto.
    + destruct (nth_error (vars s) w) as [[|?|?]|]; simpl; auto.
Qed.

Lemma exec_cons s o t :
  exec s (o :: t) = (fst (exec (fst (step s o)) t), snd (step s o) :: snd (exec (fst (step s o)) t)).
Proof. simpl. destruct (step s o). simpl. destruct (exec s0 t). reflexivity. Qed.

Lemma aexec_cons a o t :
  aexec a (o :: t) = (fst (aexec (fst (astep a o)) t), snd (astep a o) :: snd (aexec (fst (astep a o)) t)).
Proof. simpl. destruct (astep a o). simpl. destruct (aexec a0 t). reflexivity. Qed.

Lemma exec_run s ops : fst (exec s ops) = run s ops.
Proof.
  revert s; induction ops as [|o t IH]; intros s; [reflexivity|].
  rewrite exec_cons. cbn [fst]. rewrite IH. reflexivity.
Qed.

Lemma run_wf ops : forall s, wf s -> wf (run s ops).
Proof. induction ops; intros s W; simpl; auto. apply IHops. apply step_wf; auto. Qed.

(* refinement over every operation sequence *)
Theorem sim_exec ops : forall s a, wf s -> R s a -> Forall op_ok ops ->
  R (fst (exec s ops)) (fst (aexec a ops)) /\
  Forall2 out_match (snd (exec s ops)) (snd (aexec a ops)).
Proof.
  induction ops as [|o t IH]; intros s a W HR Hok.
  - simpl. split; auto.
  - inversion Hok; subst. rewrite exec_cons, aexec_cons. cbn [fst snd].
    destruct (sim_step s a o W HR H1) as [HR' Ho].
    destruct (IH _ _ (step_wf s o W) HR' H2) as [HR'' Hos].
    split; auto.
Qed.

Lemma R_init : R init ainit.
Proof. unfold R, init, ainit, bcell, mcell; simpl. repeat split; auto; intros [|c] i Hi; simpl; try apply bread_leaf; try apply tget_leaf. Qed.

Theorem refinement ops : Forall op_ok ops ->
  Forall2 out_match (snd (exec init ops)) (snd (aexec ainit ops)).
Proof. intro H. apply (sim_exec ops init ainit wf_init R_init H). Qed.

(* ================================================================ value-level facts
   (stated on the model of the code itself, for every state / handle / slice length) *)

(* an address beyond the slice reads 0 and a write there is ignored - no panic, any length *)
Theorem slice_out_of_range s h a x : s_len h <= a ->
  sl_get s h a = OByte 0 /\ sl_set s h a x = (s, OUnit).
Proof.
  intro H. unfold sl_get, sl_set. destruct (a >=? s_len h) eqn:E; [auto|lia].
Qed.

(* the bounds VC: the guard `int(addr) >= len` makes the index expression safe *)
Theorem slice_no_panic s h a x : 0 <= a ->
  sl_get s h a <> OPanic /\ snd (sl_set s h a x) <> OPanic.
Proof.
  intro H. unfold sl_get, sl_set.
  destruct (a >=? s_len h) eqn:E1; destruct (0 <=? a) eqn:E2; destruct (a <? s_len h) eqn:E3;
    simpl; try lia; split; discriminate.
Qed.

Lemma bcell_set_bcell s c t d : (c < length (bytes s))%nat ->
  bcell (set_bcell s c t) d = if Nat.eqb d c then t else bcell s d.
Proof. intro H. unfold bcell, set_bcell; simpl. apply nth_upd_nth; auto. Qed.

Lemma mcell_set_mcell s c t d : (c < length (maps s))%nat ->
  mcell (set_mcell s c t) d = if Nat.eqb d c then t else mcell s d.
Proof. intro H. unfold mcell, set_mcell; simpl. apply nth_upd_nth; auto. Qed.

(* a read returns the value last written to that element of the backing array - through
   whichever slice header (alias) it is read - and is unaffected by writes elsewhere *)
Theorem slice_get_set s h h' a b x :
  (s_cell h < length (bytes s))%nat -> 0 <= s_off h -> 0 <= s_off h' ->
  0 <= a < s_len h -> 0 <= b < s_len h' ->
  sl_get (fst (sl_set s h a x)) h' b =
  if Nat.eqb (s_cell h') (s_cell h) && (s_off h' + b =? s_off h + a) then OByte x else sl_get s h' b.
Proof.
  intros Hc Ho Ho' Ha Hb. unfold sl_get, sl_set.
  destruct (a >=? s_len h) eqn:E1; [lia|].
  destruct ((0 <=? a) && (a <? s_len h)) eqn:E2; [|lia].
  destruct (b >=? s_len h') eqn:E3; [lia|].
  destruct ((0 <=? b) && (b <? s_len h')) eqn:E4; [|lia].
  cbn [fst]. rewrite bcell_set_bcell by auto.
  destruct (Nat.eqb (s_cell h') (s_cell h)) eqn:E5; simpl; auto.
  rewrite bread_tset by lia.
  apply Nat.eqb_eq in E5. rewrite E5.
  destruct (s_off h' + b =? s_off h + a); reflexivity.
Qed.

Theorem dm_get_set s v w h h' a b x : wf s ->
  getv s v = Some (VDm h) -> getv s w = Some (VDm h') ->
  0 <= a < s_len h -> 0 <= b < s_len h' ->
  snd (step (fst (step s (DmSet v a x))) (DmGet w b)) =
  if Nat.eqb (s_cell h') (s_cell h) && (s_off h' + b =? s_off h + a)
  then OByte x else snd (step s (DmGet w b)).
Proof.
  intros W Ev Ew Ha Hb.
  destruct (wf_getv _ _ _ W Ev) as (Hc & Ho & _). destruct (wf_getv _ _ _ W Ew) as (_ & Ho' & _).
  cbn [step]. rewrite Ev, Ew.
  assert (Ew' : getv (fst (sl_set s h a x)) w = Some (VDm h')).
  { unfold sl_set. repeat (match goal with |- context [if ?b then _ else _] => destruct b end); auto. }
  rewrite Ew'. cbn [snd]. apply slice_get_set; auto.
Qed.

Theorem io_in_out s v w h h' a b x : wf s ->
  getv s v = Some (VIo h) -> getv s w = Some (VIo h') ->
  0 <= a < s_len h -> 0 <= b < s_len h' ->
  snd (step (fst (step s (IoOut v a x))) (IoIn w b)) =
  if Nat.eqb (s_cell h') (s_cell h) && (s_off h' + b =? s_off h + a)
  then OByte x else snd (step s (IoIn w b)).
Proof.
  intros W Ev Ew Ha Hb.
  destruct (wf_getv _ _ _ W Ev) as (Hc & Ho & _). destruct (wf_getv _ _ _ W Ew) as (_ & Ho' & _).
  cbn [step]. rewrite Ev, Ew.
  assert (Ew' : getv (fst (sl_set s h a x)) w = Some (VIo h')).
  { unfold sl_set. repeat (match goal with |- context [if ?b then _ else _] => destruct b end); auto. }
  rewrite Ew'. cbn [snd]. apply slice_get_set; auto.
Qed.

Lemma nth_error_snoc {A} (l : list A) x : nth_error (l ++ [x]) (length l) = Some x.
Proof. rewrite nth_error_app2 by lia. rewrite Nat.sub_diag. reflexivity. Qed.

(* a freshly made slice of any length reads 0 everywhere (inside: zeroed array; outside: guard) *)
Theorem dm_make_zero s n a : 0 <= n -> 0 <= a ->
  let r := step s (DmMake n) in
  snd r = ONew (length (vars s)) /\
  snd (step (fst r) (DmGet (length (vars s)) a)) = OByte 0.
Proof.
  intros Hn Ha. cbn [step]. unfold sl_make. destruct (n <? 0) eqn:E; [lia|].
  unfold push; cbn [fst snd]. split; auto.
  unfold getv; cbn [vars new_bcell]. rewrite nth_error_snoc. cbn [snd].
  unfold sl_get; cbn [s_len s_cell s_off].
  destruct (a >=? n) eqn:E1; auto. destruct ((0 <=? a) && (a <? n)) eqn:E2; [|lia].
  unfold bcell, new_bcell; cbn [bytes]. rewrite nth_snoc, Nat.eqb_refl. rewrite bread_leaf. reflexivity.
Qed.

Theorem io_make_zero s n a : 0 <= n -> 0 <= a ->
  let r := step s (IoMake n) in
  snd r = ONew (length (vars s)) /\
  snd (step (fst r) (IoIn (length (vars s)) a)) = OByte 0.
Proof.
  intros Hn Ha. cbn [step]. unfold sl_make. destruct (n <? 0) eqn:E; [lia|].
  unfold push; cbn [fst snd]. split; auto.
  unfold getv; cbn [vars new_bcell]. rewrite nth_error_snoc. cbn [snd].
  unfold sl_get; cbn [s_len s_cell s_off].
  destruct (a >=? n) eqn:E1; auto. destruct ((0 <=? a) && (a <? n)) eqn:E2; [|lia].
  unfold bcell, new_bcell; cbn [bytes]. rewrite nth_snoc, Nat.eqb_refl. rewrite bread_leaf. reflexivity.
Qed.

(* MapMemory: last value written at that address through any copy of the map value, else unchanged *)
Theorem mm_get_set s v w c m' a b x : wf s ->
  getv s v = Some (VMm (Some c)) -> getv s w = Some (VMm m') -> 0 <= a -> 0 <= b ->
  snd (step (fst (step s (MmSet v a x))) (MmGet w b)) =
  if (match m' with Some c' => Nat.eqb c' c | None => false end) && (b =? a)
  then OByte x else snd (step s (MmGet w b)).
Proof.
  intros W Ev Ew Ha Hb. pose proof (wf_getv _ _ _ W Ev) as Hc; simpl in Hc.
  cbn [step]. rewrite Ev, Ew. cbn [fst]. unfold getv in *; cbn [vars set_mcell]. rewrite Ew.
  destruct m' as [c'|]; simpl; auto.
  rewrite mcell_set_mcell by auto.
  destruct (Nat.eqb c' c) eqn:E; simpl; auto.
  rewrite tget_key_tset by auto. apply Nat.eqb_eq in E; subst c'.
  destruct (b =? a); reflexivity.
Qed.

(* default 0xC7: new map, nil map *)
Theorem mm_new_default s a :
  snd (step (fst (step s MmNew)) (MmGet (length (vars s)) a)) = OByte 199 /\
  snd (step (fst (step s MmNil)) (MmGet (length (vars s)) a)) = OByte 199.
Proof.
  cbn [step]. unfold push; cbn [fst]. unfold getv; cbn [vars new_mcell].
  rewrite !nth_error_snoc. cbn [snd]. split; auto.
  unfold mcell, new_mcell; cbn [maps]. rewrite nth_snoc, Nat.eqb_refl. rewrite tget_leaf. reflexivity.
Qed.

(* what the real code rejects: writes through a nil MapMemory *)
Theorem mm_nil_ops s v a x d : getv s v = Some (VMm None) ->
  step s (MmGet v a) = (s, OByte 199) /\
  step s (MmSet v a x) = (s, OPanic) /\
  step s (MmPut v a (x :: d)) = (s, OPanic) /\
  step s (MmPut v a []) = push s (VMm None) /\
  step s (MmClear v) = (s, OUnit).
Proof. intro E. cbn [step]. rewrite E. auto. Qed.

(* ================================================================ Put = consecutive Sets *)
Fixpoint dm_sets (v : nat) (a : Z) (d : list Z) : list op :=
  match d with [] => [] | x :: t => DmSet v a x :: dm_sets v (a + 1) t end.

Fixpoint mm_sets (v : nat) (a : Z) (d : list Z) : list op :=
  match d with [] => [] | x :: t => MmSet v a x :: mm_sets v ((a + 1) mod 65536) t end.

Lemma upd_nth_same {A} (dflt : A) : forall l c, upd_nth c (nth c l dflt) l = l.
Proof. induction l; intros [|c]; simpl; auto; f_equal; auto. Qed.

Lemma upd_nth_twice {A} (x y : A) : forall l c, upd_nth c y (upd_nth c x l) = upd_nth c y l.
Proof. induction l; intros [|c]; simpl; auto; f_equal; auto. Qed.

Lemma run_dm_sets v h d : forall s a,
  getv s v = Some (VDm h) -> (s_cell h < length (bytes s))%nat ->
  0 <= a -> a + zlen d <= s_len h ->
  run s (dm_sets v a d) = set_bcell s (s_cell h) (tcopy (bcell s (s_cell h)) (s_off h + a) d).
Proof.
  induction d as [|x d IH]; intros s a Ev Hc Ha Hl.
  - simpl. unfold set_bcell, bcell. rewrite upd_nth_same. destruct s; reflexivity.
  - cbn [zlen] in Hl. pose proof (zlen_nonneg d).
    cbn [dm_sets run fold_left]. fold (run (fst (step s (DmSet v a x))) (dm_sets v (a + 1) d)).
    cbn [step]. rewrite Ev. unfold sl_set.
    destruct (a >=? s_len h) eqn:E1; [lia|].
    destruct ((0 <=? a) && (a <? s_len h)) eqn:E2; [|lia]. cbn [fst].
    rewrite IH; auto; try lia.
    + rewrite bcell_set_bcell by auto. rewrite Nat.eqb_refl.
      unfold set_bcell; cbn [bytes maps vars]. rewrite upd_nth_twice.
      replace (s_off h + (a + 1)) with (s_off h + a + 1) by lia. reflexivity.
    + unfold set_bcell; cbn [bytes]. rewrite length_upd_nth; auto.
Qed.

(* DumbMemory.Put of a block lying inside the slice = the Sets at consecutive addresses;
   the result value is the receiver itself *)
Theorem dm_put_as_sets s v h a d : wf s -> getv s v = Some (VDm h) ->
  0 <= a -> a + zlen d <= s_len h ->
  step s (DmPut v a d) = push (run s (dm_sets v a d)) (VDm h).
Proof.
  intros W Ev Ha Hl. destruct (wf_getv _ _ _ W Ev) as (Hc & Ho & Hlc).
  rewrite (run_dm_sets v h d s a) by auto.
  cbn [step]. rewrite Ev. unfold sl_put.
  destruct ((0 <=? a) && (a + zlen d <=? s_cap h)) eqn:E; [reflexivity|lia].
Qed.

(* outside the guard: a block inside the capacity is copied whole (past len, into the shared
   backing array); a block reaching beyond the capacity panics with nothing written *)
Theorem dm_put_beyond s v h a d : getv s v = Some (VDm h) -> 0 <= a ->
  (a + zlen d <= s_cap h ->
     step s (DmPut v a d) =
     push (set_bcell s (s_cell h) (tcopy (bcell s (s_cell h)) (s_off h + a) d)) (VDm h)) /\
  (s_cap h < a + zlen d -> step s (DmPut v a d) = (s, OPanic)).
Proof.
  intros Ev Ha. cbn [step]. rewrite Ev. unfold sl_put. split; intro H.
  - destruct ((0 <=? a) && (a + zlen d <=? s_cap h)) eqn:E; [reflexivity|lia].
  - destruct ((0 <=? a) && (a + zlen d <=? s_cap h)) eqn:E; [lia|reflexivity].
Qed.

Lemma run_mm_sets v c d : forall s a,
  getv s v = Some (VMm (Some c)) -> (c < length (maps s))%nat ->
  run s (mm_sets v a d) = set_mcell s c (mcopy (mcell s c) a d).
Proof.
  induction d as [|x d IH]; intros s a Ev Hc.
  - simpl. unfold set_mcell, mcell. rewrite upd_nth_same. destruct s; reflexivity.
  - cbn [mm_sets run fold_left]. fold (run (fst (step s (MmSet v a x))) (mm_sets v ((a + 1) mod 65536) d)).
    cbn [step]. rewrite Ev. cbn [fst].
    rewrite IH; auto.
    + rewrite mcell_set_mcell by auto. rewrite Nat.eqb_refl.
      unfold set_mcell; cbn [bytes maps vars]. rewrite upd_nth_twice. reflexivity.
    + unfold set_mcell; cbn [maps]. rewrite length_upd_nth; auto.
Qed.

(* MapMemory.Put = Sets at consecutive addresses wrapping past 0xFFFF, for data of any length *)
Theorem mm_put_as_sets s v c a d : wf s -> getv s v = Some (VMm (Some c)) ->
  step s (MmPut v a d) = push (run s (mm_sets v a d)) (VMm (Some c)).
Proof.
  intros W Ev. pose proof (wf_getv _ _ _ W Ev) as Hc; simpl in Hc.
  rewrite (run_mm_sets v c d s a) by auto. cbn [step]. rewrite Ev. reflexivity.
Qed.

(* ================================================================ Clear, Equal *)
(* contents of a map object: the value last written at address k since creation / Clear, if any *)
Definition contents (s : state) (c : nat) (k : Z) : option Z := tget (key k) (mcell s c).

Theorem mm_clear_spec s v c : wf s -> getv s v = Some (VMm (Some c)) ->
  let s' := fst (step s (MmClear v)) in
  snd (step s (MmClear v)) = OUnit /\
  (forall k, contents s' c k = None) /\
  (forall w a, getv s w = Some (VMm (Some c)) -> step s' (MmGet w a) = (s', OByte 199)) /\
  (forall d, d <> c -> mcell s' d = mcell s d) /\ bytes s' = bytes s /\ vars s' = vars s.
Proof.
  intros W Ev. pose proof (wf_getv _ _ _ W Ev) as Hc; simpl in Hc.
  cbn [step]. rewrite Ev. cbn [fst snd]. repeat split; auto.
  - intro k. unfold contents. rewrite mcell_set_mcell by auto. rewrite Nat.eqb_refl. apply tget_leaf.
  - intros w a Ew. cbn [step]. unfold getv in *. cbn [vars set_mcell]. rewrite Ew.
    rewrite mcell_set_mcell by auto. rewrite Nat.eqb_refl, tget_leaf. reflexivity.
  - intros d Hd. rewrite mcell_set_mcell by auto.
    destruct (Nat.eqb d c) eqn:E; auto. apply Nat.eqb_eq in E; contradiction.
Qed.

(* Equal on two initialised MapMemory values: true exactly when the contents are identical *)
Theorem mm_equal_spec s v w c c' : wf s ->
  getv s v = Some (VMm (Some c)) -> getv s w = Some (VMm (Some c')) ->
  exists b, step s (MmEqual v (EVar w)) = (s, OBool b) /\
            (b = true <-> forall k, 0 <= k -> contents s c k = contents s c' k).
Proof.
  intros W Ev Ew. cbn [step]. rewrite Ev. unfold mm_equal. rewrite Ew.
  eexists; split; [reflexivity|]. apply teqb_contents; apply wf_mcell; auto.
Qed.

(* the remaining cases of Equal, as the real code (type assertion + reflect.DeepEqual) behaves *)
Theorem mm_equal_other s v m : getv s v = Some (VMm m) ->
  step s (MmEqual v ENilIface) = (s, OBool false) /\
  (forall w m', getv s w = Some (VMm m') -> step s (MmEqual v (ERawOf w)) = (s, OBool false)) /\
  (forall w h, getv s w = Some (VDm h) \/ getv s w = Some (VIo h) ->
               step s (MmEqual v (EVar w)) = (s, OBool false)) /\
  (forall w m', getv s w = Some (VMm m') ->
     match m, m' with
     | None, None => step s (MmEqual v (EVar w)) = (s, OBool true)
     | None, Some _ | Some _, None => step s (MmEqual v (EVar w)) = (s, OBool false)
     | Some _, Some _ => True
     end).
Proof.
  intro Ev. cbn [step]. rewrite Ev. unfold mm_equal. repeat split; auto.
  - intros w m' Ew. rewrite Ew. reflexivity.
  - intros w h [Ew|Ew]; rewrite Ew; reflexivity.
  - intros w m' Ew. rewrite Ew. destruct m, m'; auto.
Qed.

(* ================================================================ frame / independence *)
(* the object an operation may write: (true, c) a backing array, (false, c) a map object *)
Definition target (s : state) (o : op) : option (bool * nat) :=
  match o with
  | DmSet v _ _ | DmPut v _ _ | IoOut v _ _ =>
      match getv s v with
      | Some (VDm h) | Some (VIo h) => Some (true, s_cell h)
      | _ => None
      end
  | MmSet v _ _ | MmPut v _ _ | MmClear v =>
      match getv s v with Some (VMm (Some c)) => Some (false, c) | _ => None end
  | _ => None
  end.

Fixpoint avoids (t : bool * nat) (s : state) (ops : list op) : Prop :=
  match ops with
  | [] => True
  | o :: r => target s o <> Some t /\ avoids t (fst (step s o)) r
  end.

Lemma nth_upd_nth_other {A} (x dflt : A) : forall l c d, d <> c ->
  nth d (upd_nth c x l) dflt = nth d l dflt.
Proof.
  induction l; intros [|c] [|d] H; simpl; auto; try congruence.
Qed.

Lemma nth_app_old {A} (l : list A) x dflt d : (d < length l)%nat -> nth d (l ++ [x]) dflt = nth d l dflt.
Proof. intro H. apply app_nth1; auto. Qed.

Lemma step_frame s o : 
  (length (bytes s) <= length (bytes (fst (step s o))))%nat /\
  (length (maps s) <= length (maps (fst (step s o))))%nat /\
  (forall c, (c < length (bytes s))%nat -> target s o <> Some (true, c) ->
             bcell (fst (step s o)) c = bcell s c) /\
  (forall c, (c < length (maps s))%nat -> target s o <> Some (false, c) ->
             mcell (fst (step s o)) c = mcell s c).
Proof.
  destruct o; cbn [step target]; unfold sl_make, sl_set, sl_put.
  all: try (destruct (getv s v) as [[h|h|[c0|]]|] eqn:E; cbn [fst]).
  all: repeat match goal with |- context [if ?b then _ else _] => destruct b eqn:? end.
  all: try (destruct d as [|x0 d0]).
  all: unfold push, new_bcell, new_mcell, set_bcell, set_mcell, bcell, mcell; cbn [fst bytes maps vars].
  all: rewrite ?app_length, ?length_upd_nth; cbn [length].
  all: repeat split; try lia; auto.
  all: intros c Hc Ht; try (apply nth_app_old; assumption).
  all: try (apply nth_upd_nth_other; congruence).
Qed.

(* a run that never targets object t leaves it exactly as it was *)
Theorem frame_run ops : forall s,
  (forall c, (c < length (bytes s))%nat -> avoids (true, c) s ops -> bcell (run s ops) c = bcell s c) /\
  (forall c, (c < length (maps s))%nat -> avoids (false, c) s ops -> mcell (run s ops) c = mcell s c).
Proof.
  induction ops as [|o r IH]; intros s; [split; reflexivity|].
  destruct (step_frame s o) as (Lb & Lm & Fb & Fm).
  destruct (IH (fst (step s o))) as [IHb IHm].
  split; intros c Hc [Ht Hr]; cbn [run fold_left]; fold (run (fst (step s o)) r).
  - rewrite IHb by (auto; lia). auto.
  - rewrite IHm by (auto; lia). auto.
Qed.

(* Clone: a new object with the same contents, unreachable from every existing variable,
   and from then on the two objects evolve independently over arbitrary operation sequences *)
Theorem mm_clone_spec s v c : wf s -> getv s v = Some (VMm (Some c)) ->
  let s1 := fst (step s (MmClone v)) in
  let c' := length (maps s) in
  snd (step s (MmClone v)) = ONew (length (vars s)) /\
  getv s1 (length (vars s)) = Some (VMm (Some c')) /\
  c' <> c /\
  (forall k, contents s1 c' k = contents s c k) /\
  (forall d, (d < c')%nat -> mcell s1 d = mcell s d) /\
  (forall w d, getv s w = Some (VMm (Some d)) -> d <> c') /\
  (forall ops, avoids (false, c') s1 ops -> mcell (run s1 ops) c' = mcell s c) /\
  (forall ops, avoids (false, c) s1 ops -> mcell (run s1 ops) c = mcell s c).
Proof.
  intros W Ev. pose proof (wf_getv _ _ _ W Ev) as Hc; simpl in Hc.
  cbn [step]. rewrite Ev. unfold push; cbn [fst snd].
  set (s1 := mkState _ _ _).
  assert (Hnew : mcell s1 (length (maps s)) = mcell s c).
  { unfold mcell, s1, new_mcell; cbn [maps]. rewrite nth_snoc, Nat.eqb_refl. reflexivity. }
  assert (Hold : forall d, (d < length (maps s))%nat -> mcell s1 d = mcell s d).
  { intros d Hd. unfold mcell, s1, new_mcell; cbn [maps]. apply nth_app_old; auto. }
  assert (Hlen : length (maps s1) = S (length (maps s))).
  { unfold s1, new_mcell; cbn [maps]. rewrite app_length; simpl; lia. }
  repeat split; auto.
  - unfold getv, s1; cbn [vars new_mcell]. apply nth_error_snoc.
  - lia.
  - intro k. unfold contents. rewrite Hnew. reflexivity.
  - intros w d Ew. pose proof (wf_getv _ _ _ W Ew) as Hd; simpl in Hd. lia.
  - intros ops Ha. destruct (frame_run ops s1) as [_ F]. rewrite F; auto. lia.
  - intros ops Ha. destruct (frame_run ops s1) as [_ F]. rewrite F; auto. lia.
Qed.

(* an operation whose receiver is (any alias of) one map object does not target another one *)
Lemma target_receiver s v c a x d c' : getv s v = Some (VMm (Some c)) -> c' <> c ->
  target s (MmSet v a x) <> Some (false, c') /\
  target s (MmPut v a d) <> Some (false, c') /\
  target s (MmClear v) <> Some (false, c').
Proof. intros E N. cbn [target]. rewrite E. repeat split; congruence. Qed.

(* Clone of a nil MapMemory: a new, initialised, empty map *)
Theorem mm_clone_nil s v : getv s v = Some (VMm None) ->
  let s1 := fst (step s (MmClone v)) in
  snd (step s (MmClone v)) = ONew (length (vars s)) /\
  getv s1 (length (vars s)) = Some (VMm (Some (length (maps s)))) /\
  (forall k, contents s1 (length (maps s)) k = None).
Proof.
  intro Ev. cbn [step]. rewrite Ev. unfold push; cbn [fst snd]. repeat split.
  - unfold getv; cbn [vars]. apply nth_error_snoc.
  - intro k. unfold contents, mcell, new_mcell; cbn [maps]. rewrite nth_snoc, Nat.eqb_refl. apply tget_leaf.
Qed.

Theorem reachable_wf ops : wf (run init ops).
Proof. apply run_wf. apply wf_init. Qed.

(* ================================================================ non-vacuity *)
(* a run exercising aliasing through sub-slices, Put past len inside cap, Put past cap (panic),
   out-of-range reads/writes, conversion DumbIO(dm), nil / new maps, wrap, Clone independence,
   Clear and every flavour of Equal *)
Definition demo : list op :=
  [ DmMake 4;                (* v0 = make(4)                      *)
    DmSlice 0 1 3;           (* v1 = v0[1:3]  len 2 cap 3         *)
    DmSet 1 0 7;             (* writes array[1]                   *)
    DmGet 0 1;               (* 7 through the alias               *)
    DmGet 1 2;               (* beyond len of v1: 0               *)
    DmSet 1 2 9;             (* ignored                           *)
    DmGet 0 3;               (* still 0                           *)
    DmPut 1 1 [8; 9];        (* v2: inside cap, past len: array[2], array[3] *)
    DmGet 0 3;               (* 9                                 *)
    DmPut 1 2 [1; 2];        (* beyond cap: panic                 *)
    DmGet 0 3;               (* unchanged 9                       *)
    IoOfDm 0;                (* v3 = DumbIO(v0)                   *)
    IoOut 3 0 5; DmGet 0 0;  (* 5                                 *)
    IoIn 3 200;              (* 0                                 *)
    MmNil;                   (* v4                                *)
    MmNew;                   (* v5                                *)
    MmGet 4 10; MmSet 4 1 1; (* 199, panic                        *)
    MmPut 5 65535 [1; 2; 3]; (* v6: wraps to 0, 1                 *)
    MmGet 5 65535; MmGet 5 0; MmGet 5 1; MmGet 5 2;
    MmClone 5;               (* v7                                *)
    MmEqual 5 (EVar 7);      (* true                              *)
    MmSet 7 2 199;           (* clone gets key 2 := 0xC7          *)
    MmGet 5 2; MmGet 7 2;    (* both read 199 ...                 *)
    MmEqual 5 (EVar 7);      (* ... but contents differ: false    *)
    MmSet 6 2 199;           (* through the alias returned by Put *)
    MmEqual 7 (EVar 5);      (* true again                        *)
    MmClear 5; MmGet 6 0; MmGet 7 0;   (* 199, 2                  *)
    MmEqual 4 (EVar 4); MmEqual 4 (EVar 5); MmEqual 5 (EVar 4);   (* nil/nil true, nil/empty false *)
    MmEqual 5 ENilIface; MmEqual 5 (ERawOf 5); MmEqual 5 (EVar 0) ].

Example demo_outs : snd (exec init demo) =
  [ ONew 0; ONew 1; OUnit; OByte 7; OByte 0; OUnit; OByte 0; ONew 2; OByte 9; OPanic; OByte 9;
    ONew 3; OUnit; OByte 5; OByte 0; ONew 4; ONew 5; OByte 199; OPanic; ONew 6;
    OByte 1; OByte 2; OByte 3; OByte 199; ONew 7; OBool true; OUnit; OByte 199; OByte 199;
    OBool false; OUnit; OBool true; OUnit; OByte 199; OByte 2;
    OBool true; OBool false; OBool false; OBool false; OBool false; OBool false ].
Proof. vm_compute. reflexivity. Qed.

Example demo_ok : Forall op_ok demo.
Proof. unfold demo. repeat constructor; simpl; lia. Qed.

(* the refinement theorem applies to it (and its abstract outcomes are therefore the same list) *)
Example demo_refines : Forall2 out_match (snd (exec init demo)) (snd (aexec ainit demo)).
Proof. apply refinement. apply demo_ok. Qed.

Definition demo_state : state := run init (firstn 25 demo).   (* up to and including the Clone *)

(* the hypotheses of the theorems above are satisfiable on a reachable state *)
Example demo_hyps :
  wf demo_state /\
  (exists h h', getv demo_state 0 = Some (VDm h) /\ getv demo_state 1 = Some (VDm h') /\
     s_cell h = s_cell h' /\ 0 <= 1 < s_len h /\ 0 <= 0 < s_len h' /\ s_off h + 1 = s_off h' + 0 /\
     0 <= 1 /\ 1 + zlen [8; 9] <= s_len h /\ s_len h' < 1 + zlen [8; 9] <= s_cap h' /\
     s_cap h' < 2 + zlen [1; 2]) /\
  (exists c c', getv demo_state 5 = Some (VMm (Some c)) /\ getv demo_state 7 = Some (VMm (Some c')) /\
     c <> c' /\ contents demo_state c 0 = Some 2 /\ contents demo_state c' 0 = Some 2) /\
  getv demo_state 4 = Some (VMm None) /\
  avoids (false, 1%nat) demo_state [MmSet 5 0 9; MmClear 6; MmPut 5 3 [4]] /\
  avoids (false, 0%nat) demo_state [MmSet 7 0 9; MmClear 7].
Proof.
  split; [apply reachable_wf|].
  split; [exists (mkSlice 0 0 4 4), (mkSlice 0 1 2 3); vm_compute; repeat split; congruence|].
  split; [exists 0%nat, 1%nat; vm_compute; repeat split; congruence|].
  split; [reflexivity|].
  split; vm_compute; repeat split; congruence.
Qed.

(* Clone then Equal is true; after a write to the clone the original still has the old contents *)
Example demo_clone_indep :
  let s := run init [MmNew; MmSet 0 5 1; MmClone 0; MmSet 1 5 2; MmSet 1 6 3; MmSet 0 7 4] in
  snd (exec s [MmGet 0 5; MmGet 0 6; MmGet 1 5; MmGet 1 7; MmEqual 0 (EVar 1)]) =
  [OByte 1; OByte 199; OByte 2; OByte 199; OBool false].
Proof. vm_compute. reflexivity. Qed.
