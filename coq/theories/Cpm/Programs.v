(* Cpm/Programs.v -- the two BDOS services of the mini CP/M BIOS as PROGRAMS: symbolic execution of the specification's step
   over the bytes of the real tinycpm image (Gen/TinyData.v), any string length (induction). *)
From Z80V Require Import Proofs.SpecFacts Proofs.Frame Proofs.Block Proofs.RoundTrip Cpm.Bios.
From Coq Require Import Lia.

Record mach := mk_mach { mA : Z; mF : Z; mC : Z; mDE : Z; mE : Z; mSP : Z; mPC : Z }.
Definition view (cpu : CPU) : mach :=
  mk_mach (g_AF_Hi cpu) (g_AF_Lo cpu) (g_BC_Lo cpu) (regw (g_DE cpu)) (g_DE_Lo cpu) (g_SP cpu) (g_PC cpu).
Definition env_ok (cpu : CPU) : Prop := g_Memory cpu = UserMem /\ g_Interrupt cpu = None /\ g_IO cpu = true.
Definition rel (cpu cpu' : CPU) (o : list (Z * Z)) (v : mach) : Prop :=
  env_ok cpu' /\ ram (g_W cpu') = ram (g_W cpu) /\ couts (trace (g_W cpu')) = o ++ couts (trace (g_W cpu)) /\ view cpu' = v.

Lemma dm_79 : decode_main 121 = LD8 (Reg rA) (Reg rC). Proof. vm_compute. reflexivity. Qed.
Lemma dm_fe : decode_main 254 = ALU8 CP Imm. Proof. vm_compute. reflexivity. Qed.
Lemma dm_d3 : decode_main 211 = OUT_n_A. Proof. vm_compute. reflexivity. Qed.

Lemma dm_c3 : decode_main 195 = JP. Proof. vm_compute. reflexivity. Qed.
Lemma dm_28 : decode_main 40 = JR_cc Z_. Proof. vm_compute. reflexivity. Qed.
Lemma dm_18 : decode_main 24 = JR. Proof. vm_compute. reflexivity. Qed.
Lemma dm_7b : decode_main 123 = LD8 (Reg rA) (Reg rE). Proof. vm_compute. reflexivity. Qed.
Lemma dm_c9 : decode_main 201 = RET. Proof. vm_compute. reflexivity. Qed.
Lemma dm_c8 : decode_main 200 = RET_cc Z_. Proof. vm_compute. reflexivity. Qed.
Lemma dm_1a : decode_main 26 = LD_A_DE. Proof. vm_compute. reflexivity. Qed.
Lemma dm_13 : decode_main 19 = INC16 pDE. Proof. vm_compute. reflexivity. Qed.
Definition popped (r : Z -> Z) (sp : Z) : Z := mk16 (u8 (r (u16 (sp + 1)))) (u8 (r sp)).
Definition g_none (v : mach) (r : Z -> Z) : list (Z * Z) := [].
Definition f_ld_a_c (v : mach) (r : Z -> Z) : mach := (mk_mach (mC v) (mF v) (mC v) (mDE v) (mE v) (mSP v) (u16 (mPC v + 1))).
Definition f_cp_n (v : mach) (r : Z -> Z) : mach := (mk_mach (mA v) (cp8 (mA v) (u8 (r (u16 (mPC v + 1))))) (mC v) (mDE v) (mE v) (mSP v) (u16 (u16 (mPC v + 1) + 1))).
Definition f_out (v : mach) (r : Z -> Z) : mach := (mk_mach (mA v) (mF v) (mC v) (mDE v) (mE v) (mSP v) (u16 (u16 (mPC v + 1) + 1))).
Definition g_out (v : mach) (r : Z -> Z) : list (Z * Z) := [(u8 (r (u16 (mPC v + 1))), mA v)].
Definition f_jp (v : mach) (r : Z -> Z) : mach := (mk_mach (mA v) (mF v) (mC v) (mDE v) (mE v) (mSP v)
        (mk16 (u8 (r (u16 (u16 (mPC v + 1) + 1)))) (u8 (r (u16 (mPC v + 1)))))).
Definition f_jr_z (v : mach) (r : Z -> Z) : mach := (mk_mach (mA v) (mF v) (mC v) (mDE v) (mE v) (mSP v)
        (if Z.testbit (mF v) 6 then disp (u16 (u16 (mPC v + 1) + 1)) (u8 (r (u16 (mPC v + 1)))) else u16 (u16 (mPC v + 1) + 1))).
Definition f_jr (v : mach) (r : Z -> Z) : mach := (mk_mach (mA v) (mF v) (mC v) (mDE v) (mE v) (mSP v)
        (disp (u16 (u16 (mPC v + 1) + 1)) (u8 (r (u16 (mPC v + 1)))))).
Definition f_ld_a_e (v : mach) (r : Z -> Z) : mach := (mk_mach (mE v) (mF v) (mC v) (mDE v) (mE v) (mSP v) (u16 (mPC v + 1))).
Definition f_ret (v : mach) (r : Z -> Z) : mach := (mk_mach (mA v) (mF v) (mC v) (mDE v) (mE v) (u16 (u16 (mSP v + 1) + 1)) (popped r (mSP v))).
Definition f_ret_z (v : mach) (r : Z -> Z) : mach := (if Z.testbit (mF v) 6 then mk_mach (mA v) (mF v) (mC v) (mDE v) (mE v) (u16 (u16 (mSP v + 1) + 1)) (popped r (mSP v))
     else mk_mach (mA v) (mF v) (mC v) (mDE v) (mE v) (mSP v) (u16 (mPC v + 1))).
Definition f_ld_a_de (v : mach) (r : Z -> Z) : mach := (mk_mach (u8 (r (mDE v))) (mF v) (mC v) (mDE v) (mE v) (mSP v) (u16 (mPC v + 1))).
Definition f_inc_de (v : mach) (r : Z -> Z) : mach := (mk_mach (mA v) (mF v) (mC v) (u16 (mDE v + 1)) (lo (u16 (mDE v + 1))) (mSP v) (u16 (mPC v + 1))).
Section S.
Variable u : Unspec.
Definition is_plain (i : instr) : bool :=
  match i with PREFIX_CB | PREFIX_ED | PREFIX_DD | PREFIX_FD => false | _ => true end.
Lemma fetch_m1_user cpu : g_Memory cpu = UserMem -> snd (fetch_m1 cpu) = u8 (ram (g_W cpu) (g_PC cpu)).
Proof.
  intros Hm. open_cpu cpu. cbv_struct_in Hm. subst.
  cbv beta iota zeta delta [fetch_m1 fetch8 rd mem_get wget w_log]. cbv_struct. reflexivity.
Qed.
(* a Step with no request pending whose first opcode byte is not a prefix: fetch it, execute it *)
Lemma step_plain cpu o : env_ok cpu -> u8 (ram (g_W cpu) (g_PC cpu)) = o -> is_plain (decode_main o) = true ->
  spec_step u cpu = exec u MHL (decode_main o) (fst (fetch_m1 cpu)).
Proof.
  intros (Hm & Hi & _) H0 Hp. unfold spec_step. rewrite Hi. unfold step_instr.
  pose proof (fetch_m1_user cpu Hm) as Ho. destruct (fetch_m1 cpu) as [c1 o']. cbn [fst snd] in *.
  rewrite Ho, H0. destruct (decode_main o); try discriminate Hp; reflexivity.
Qed.
Ltac start cpu He H0 :=
  rewrite (step_plain cpu _ He H0 eq_refl); rewrite ?dm_79, ?dm_fe, ?dm_d3, ?dm_c3, ?dm_28, ?dm_18, ?dm_7b, ?dm_c9, ?dm_c8, ?dm_1a, ?dm_13;
  open_cpu cpu; destruct He as (Hm & Hi & Hio); cbv_struct_in Hm; cbv_struct_in Hi; cbv_struct_in Hio; cbv_struct_in H0; subst;
  unfold rel, env_ok, view; cbv_struct;
  cbv beta iota zeta delta [fetch_m1 fetch8 rd mem_get wget w_log inc16]; cbv_struct; cbn [mA mF mC mDE mE mSP mPC].
Ltac finish := cbv_struct; cbn [couts app]; repeat split.

Lemma st_ld_a_c cpu : env_ok cpu -> u8 (ram (g_W cpu) (g_PC cpu)) = 121 ->
  rel cpu (spec_step u cpu) (g_none (view cpu) (ram (g_W cpu))) (f_ld_a_c (view cpu) (ram (g_W cpu))).
Proof. unfold f_ld_a_c, g_none.
  intros He H0. start cpu He H0.
  cbv beta iota zeta delta [exec rd_opnd set_rm get_rm get_r set_r is_mem orb]. finish.
Qed.
Lemma st_cp_n cpu : env_ok cpu -> u8 (ram (g_W cpu) (g_PC cpu)) = 254 ->
  rel cpu (spec_step u cpu) (g_none (view cpu) (ram (g_W cpu))) (f_cp_n (view cpu) (ram (g_W cpu))).
Proof. unfold f_cp_n, g_none.
  intros He H0. start cpu He H0.
  cbv beta iota zeta delta [exec rd_opnd is_mem alu8 get_A get_F set_A set_F fetch8 rd mem_get wget w_log inc16]. finish.
Qed.
Lemma st_out cpu : env_ok cpu -> u8 (ram (g_W cpu) (g_PC cpu)) = 211 ->
  rel cpu (spec_step u cpu) (g_out (view cpu) (ram (g_W cpu))) (f_out (view cpu) (ram (g_W cpu))).
Proof. unfold f_out, g_out.
  intros He H0. start cpu He H0.
  cbv beta iota zeta delta [exec get_A fetch8 rd mem_get wget w_log inc16 io_Out log_ev]. finish.
Qed.
Lemma st_jp cpu : env_ok cpu -> u8 (ram (g_W cpu) (g_PC cpu)) = 195 ->
  rel cpu (spec_step u cpu) (g_none (view cpu) (ram (g_W cpu))) (f_jp (view cpu) (ram (g_W cpu))).
Proof. unfold f_jp, g_none.
  intros He H0. start cpu He H0.
  cbv beta iota zeta delta [exec Spec.Exec.fetch16 fetch8 rd mem_get wget w_log inc16]. finish.
Qed.
Lemma st_jr_z cpu : env_ok cpu -> u8 (ram (g_W cpu) (g_PC cpu)) = 40 ->
  rel cpu (spec_step u cpu) (g_none (view cpu) (ram (g_W cpu))) (f_jr_z (view cpu) (ram (g_W cpu))).
Proof. unfold f_jr_z, g_none.
  intros He H0. start cpu He H0.
  cbv beta iota zeta delta [exec cond get_F jump_rel fetch8 rd mem_get wget w_log inc16]. cbv_struct.
  destruct (Z.testbit f 6); finish.
Qed.
Lemma st_jr cpu : env_ok cpu -> u8 (ram (g_W cpu) (g_PC cpu)) = 24 ->
  rel cpu (spec_step u cpu) (g_none (view cpu) (ram (g_W cpu))) (f_jr (view cpu) (ram (g_W cpu))).
Proof. unfold f_jr, g_none.
  intros He H0. start cpu He H0.
  cbv beta iota zeta delta [exec jump_rel fetch8 rd mem_get wget w_log inc16]. finish.
Qed.
Lemma st_ld_a_e cpu : env_ok cpu -> u8 (ram (g_W cpu) (g_PC cpu)) = 123 ->
  rel cpu (spec_step u cpu) (g_none (view cpu) (ram (g_W cpu))) (f_ld_a_e (view cpu) (ram (g_W cpu))).
Proof. unfold f_ld_a_e, g_none.
  intros He H0. start cpu He H0.
  cbv beta iota zeta delta [exec rd_opnd set_rm get_rm get_r set_r is_mem orb]. finish.
Qed.
Lemma st_ret cpu : env_ok cpu -> u8 (ram (g_W cpu) (g_PC cpu)) = 201 ->
  rel cpu (spec_step u cpu) (g_none (view cpu) (ram (g_W cpu))) (f_ret (view cpu) (ram (g_W cpu))).
Proof. unfold f_ret, g_none.
  intros He H0. start cpu He H0.
  cbv beta iota zeta delta [exec pop16 rd mem_get wget w_log inc16 popped]. finish.
Qed.
Lemma st_ret_z cpu : env_ok cpu -> u8 (ram (g_W cpu) (g_PC cpu)) = 200 ->
  rel cpu (spec_step u cpu) (g_none (view cpu) (ram (g_W cpu))) (f_ret_z (view cpu) (ram (g_W cpu))).
Proof. unfold f_ret_z, g_none.
  intros He H0. start cpu He H0.
  cbv beta iota zeta delta [exec cond get_F pop16 rd mem_get wget w_log inc16 popped]. cbv_struct.
  destruct (Z.testbit f 6); finish.
Qed.
Lemma st_ld_a_de cpu : env_ok cpu -> u8 (ram (g_W cpu) (g_PC cpu)) = 26 ->
  rel cpu (spec_step u cpu) (g_none (view cpu) (ram (g_W cpu))) (f_ld_a_de (view cpu) (ram (g_W cpu))).
Proof. unfold f_ld_a_de, g_none.
  intros He H0. start cpu He H0.
  cbv beta iota zeta delta [exec set_A rd mem_get wget w_log]. finish.
Qed.
Lemma st_inc_de cpu : env_ok cpu -> u8 (ram (g_W cpu) (g_PC cpu)) = 19 ->
  rel cpu (spec_step u cpu) (g_none (view cpu) (ram (g_W cpu))) (f_inc_de (view cpu) (ram (g_W cpu))).
Proof. unfold f_inc_de, g_none.
  intros He H0. start cpu He H0.
  cbv beta iota zeta delta [exec set_rp get_rp inc16]. cbv_struct.
  unfold rel, env_ok, view. cbv_struct. cbn [couts app]. repeat split.
  unfold inc16. rewrite regw_wreg by apply is16_u16. reflexivity.
Qed.
End S.
(* ---------------------------------------------------------------- chaining *)
Section Chain.
Variable u : Unspec.
Lemma spec_iter_S_r n : forall cpu, spec_iter u (S n) cpu = spec_step u (spec_iter u n cpu).
Proof. induction n as [|n IH]; intros cpu; [reflexivity|]. cbn [spec_iter] in *. rewrite <- IH. reflexivity. Qed.
Definition reach (c0 : CPU) (n : nat) (o : list (Z * Z)) (v : mach) : Prop := rel c0 (spec_iter u n c0) o v.
Lemma reach_0 c0 : env_ok c0 -> reach c0 0 [] (view c0).
Proof. intros H. unfold reach, rel. cbn [spec_iter]. repeat split; try apply H. Qed.
(* one more Step, by a step lemma of the shape  rel cpu (spec_step cpu) o' (f (view cpu) (ram cpu)) *)
Lemma lift c0 n o v op o' (f : mach -> (Z -> Z) -> mach) (g : mach -> (Z -> Z) -> list (Z * Z)) :
  (forall cpu, env_ok cpu -> u8 (ram (g_W cpu) (g_PC cpu)) = op ->
     rel cpu (spec_step u cpu) (g (view cpu) (ram (g_W cpu))) (f (view cpu) (ram (g_W cpu)))) ->
  o' = g v (ram (g_W c0)) ->
  reach c0 n o v -> u8 (ram (g_W c0) (mPC v)) = op -> reach c0 (S n) (o' ++ o) (f v (ram (g_W c0))).
Proof.
  intros L Eo (He & Hr & Ho & Hv) Hop. unfold reach. rewrite spec_iter_S_r. set (c := spec_iter u n c0) in *.
  assert (Hpc : g_PC c = mPC v) by (rewrite <- Hv; reflexivity).
  destruct (L c He ltac:(rewrite Hr, Hpc; exact Hop)) as (He' & Hr' & Ho' & Hv').
  unfold rel. rewrite Hv, Hr in *. subst o'. repeat split; try apply He'; try congruence.
  rewrite Ho', Ho. apply app_assoc.
Qed.
End Chain.

(* ---------------------------------------------------------------- the BDOS services as programs *)
Lemma cp8_z a n : is8 a -> is8 n -> Z.testbit (cp8 a n) 6 = (a =? n).
Proof.
  intros Ha Hn. apply Bool.eqb_prop.
  exact (forall_byte2 (fun a n => Bool.eqb (Z.testbit (cp8 a n) 6) (a =? n)) ltac:(vm_compute; reflexivity) a n Ha Hn).
Qed.

Ltac closedP p := lazymatch p with xH => idtac | xO ?q => closedP q | xI ?q => closedP q end.
Ltac closedZ t := lazymatch t with
  | Z0 => idtac | Zpos ?p => closedP p | Zneg ?p => closedP p
  | ?a + ?b => closedZ a; closedZ b | ?a - ?b => closedZ a; closedZ b
  | u16 ?a => closedZ a | u8 ?a => closedZ a | disp ?a ?b => closedZ a; closedZ b | mk16 ?a ?b => closedZ a; closedZ b
  | cp8 ?a ?b => closedZ a; closedZ b
  end.
Ltac eval_closed H :=
  repeat match type of H with
  | context [u16 ?t] => closedZ t; let v := eval vm_compute in (u16 t) in change (u16 t) with v in H
  | context [disp ?a ?b] => closedZ a; closedZ b; let v := eval vm_compute in (disp a b) in change (disp a b) with v in H
  | context [mk16 ?a ?b] => closedZ a; closedZ b; let v := eval vm_compute in (mk16 a b) in change (mk16 a b) with v in H
  | context [Z.testbit (cp8 ?a ?b) 6] => closedZ a; closedZ b;
      let v := eval vm_compute in (Z.testbit (cp8 a b) 6) in change (Z.testbit (cp8 a b) 6) with v in H
  end.

Definition bdos_loaded (r : Z -> Z) : Prop :=
  u8 (r 5) = 195 /\ u8 (r 6) = 6 /\ u8 (r 7) = 254 /\ forall a, 65030 <= a < 65053 -> u8 (r a) = image_at a.

Section Programs.
Variable u : Unspec.
Variable c0 : CPU.
Hypothesis He : env_ok c0.
Hypothesis Hl : bdos_loaded (ram (g_W c0)).
Let r0 := ram (g_W c0).
Lemma B5 : u8 (ram (g_W c0) 5) = 195. Proof. exact (proj1 Hl). Qed.
Lemma B6 : u8 (ram (g_W c0) 6) = 6. Proof. exact (proj1 (proj2 Hl)). Qed.
Lemma B7 : u8 (ram (g_W c0) 7) = 254. Proof. exact (proj1 (proj2 (proj2 Hl))). Qed.
Lemma B65030 : u8 (ram (g_W c0) 65030) = 121. Proof. destruct Hl as (_ & _ & _ & H). rewrite H by lia. reflexivity. Qed.
Lemma B65031 : u8 (ram (g_W c0) 65031) = 254. Proof. destruct Hl as (_ & _ & _ & H). rewrite H by lia. reflexivity. Qed.
Lemma B65032 : u8 (ram (g_W c0) 65032) = 2. Proof. destruct Hl as (_ & _ & _ & H). rewrite H by lia. reflexivity. Qed.
Lemma B65033 : u8 (ram (g_W c0) 65033) = 40. Proof. destruct Hl as (_ & _ & _ & H). rewrite H by lia. reflexivity. Qed.
Lemma B65034 : u8 (ram (g_W c0) 65034) = 5. Proof. destruct Hl as (_ & _ & _ & H). rewrite H by lia. reflexivity. Qed.
Lemma B65035 : u8 (ram (g_W c0) 65035) = 254. Proof. destruct Hl as (_ & _ & _ & H). rewrite H by lia. reflexivity. Qed.
Lemma B65036 : u8 (ram (g_W c0) 65036) = 9. Proof. destruct Hl as (_ & _ & _ & H). rewrite H by lia. reflexivity. Qed.
Lemma B65037 : u8 (ram (g_W c0) 65037) = 40. Proof. destruct Hl as (_ & _ & _ & H). rewrite H by lia. reflexivity. Qed.
Lemma B65038 : u8 (ram (g_W c0) 65038) = 5. Proof. destruct Hl as (_ & _ & _ & H). rewrite H by lia. reflexivity. Qed.
Lemma B65039 : u8 (ram (g_W c0) 65039) = 118. Proof. destruct Hl as (_ & _ & _ & H). rewrite H by lia. reflexivity. Qed.
Lemma B65040 : u8 (ram (g_W c0) 65040) = 123. Proof. destruct Hl as (_ & _ & _ & H). rewrite H by lia. reflexivity. Qed.
Lemma B65041 : u8 (ram (g_W c0) 65041) = 211. Proof. destruct Hl as (_ & _ & _ & H). rewrite H by lia. reflexivity. Qed.
Lemma B65042 : u8 (ram (g_W c0) 65042) = 0. Proof. destruct Hl as (_ & _ & _ & H). rewrite H by lia. reflexivity. Qed.
Lemma B65043 : u8 (ram (g_W c0) 65043) = 201. Proof. destruct Hl as (_ & _ & _ & H). rewrite H by lia. reflexivity. Qed.
Lemma B65044 : u8 (ram (g_W c0) 65044) = 26. Proof. destruct Hl as (_ & _ & _ & H). rewrite H by lia. reflexivity. Qed.
Lemma B65045 : u8 (ram (g_W c0) 65045) = 254. Proof. destruct Hl as (_ & _ & _ & H). rewrite H by lia. reflexivity. Qed.
Lemma B65046 : u8 (ram (g_W c0) 65046) = 36. Proof. destruct Hl as (_ & _ & _ & H). rewrite H by lia. reflexivity. Qed.
Lemma B65047 : u8 (ram (g_W c0) 65047) = 200. Proof. destruct Hl as (_ & _ & _ & H). rewrite H by lia. reflexivity. Qed.
Lemma B65048 : u8 (ram (g_W c0) 65048) = 211. Proof. destruct Hl as (_ & _ & _ & H). rewrite H by lia. reflexivity. Qed.
Lemma B65049 : u8 (ram (g_W c0) 65049) = 0. Proof. destruct Hl as (_ & _ & _ & H). rewrite H by lia. reflexivity. Qed.
Lemma B65050 : u8 (ram (g_W c0) 65050) = 19. Proof. destruct Hl as (_ & _ & _ & H). rewrite H by lia. reflexivity. Qed.
Lemma B65051 : u8 (ram (g_W c0) 65051) = 24. Proof. destruct Hl as (_ & _ & _ & H). rewrite H by lia. reflexivity. Qed.
Lemma B65052 : u8 (ram (g_W c0) 65052) = 247. Proof. destruct Hl as (_ & _ & _ & H). rewrite H by lia. reflexivity. Qed.
Ltac bytes H := rewrite ?B5, ?B6, ?B7, ?B65030, ?B65031, ?B65032, ?B65033, ?B65034, ?B65035, ?B65036, ?B65037, ?B65038, ?B65039, ?B65040, ?B65041, ?B65042, ?B65043, ?B65044, ?B65045, ?B65046, ?B65047, ?B65048, ?B65049, ?B65050, ?B65051, ?B65052 in H.
Ltac simp H := cbv beta iota delta [g_none f_ld_a_c f_cp_n f_out g_out f_jp f_jr_z f_jr f_ld_a_e f_ret f_ret_z f_ld_a_de f_inc_de] in H; cbn [mA mF mC mDE mE mSP mPC app] in H; eval_closed H; bytes H; eval_closed H; cbv iota in H.
Ltac code := cbn [mPC]; first [ exact B5 | exact B65030 | exact B65031 | exact B65032 | exact B65033 | exact B65034 | exact B65035 | exact B65036 | exact B65037 | exact B65038 | exact B65039 | exact B65040 | exact B65041 | exact B65042 | exact B65043 | exact B65044 | exact B65045 | exact B65046 | exact B65047 | exact B65048 | exact B65049 | exact B65050 | exact B65051 | exact B65052 ].
Ltac stp L f g :=
  match goal with R : reach u c0 ?n ?o ?v |- _ =>
    let R' := fresh "R" in
    pose proof (lift u c0 n o v _ _ f g (L u) eq_refl R ltac:(code)) as R'; clear R; simp R' end.

(* BDOS function 2: C = 2, E = the character; entered by CALL 5.  Seven Steps later the character has gone to port 0
   -- once, nothing else printed --, control is back at the caller's return address with SP restored, memory untouched. *)
Theorem putchar a f de ch sp : view c0 = mk_mach a f 2 de ch sp 5 ->
  reach u c0 7 [(0, ch)] (mk_mach ch (cp8 2 2) 2 de ch (u16 (u16 (sp + 1) + 1)) (popped r0 sp)).
Proof.
  intros Hv. pose proof (reach_0 u c0 He) as R. rewrite Hv in R.
  stp st_jp f_jp g_none. stp st_ld_a_c f_ld_a_c g_none. stp st_cp_n f_cp_n g_none. stp st_jr_z f_jr_z g_none.
  stp st_ld_a_e f_ld_a_e g_none. stp st_out f_out g_out. stp st_ret f_ret g_none.
  match goal with X : reach _ _ _ _ _ |- _ => exact X end.
Qed.

(* BDOS function 9: C = 9, DE = address of a '$'-terminated string.  The loop at FE14, for a string of ANY length
   (induction over the string): every character goes to port 0, in order, nothing else is printed; then control
   returns to the caller's address with SP restored; DE points at the '$'; memory is untouched. *)
Lemma putstr_loop sp cc : forall (s : list Z) n o a f d e,
  reach u c0 n o (mk_mach a f cc d e sp 65044) -> is16 d ->
  (forall k, (k < length s)%nat -> u8 (ram (g_W c0) (u16 (d + Z.of_nat k))) = nth k s 0) ->
  Forall (fun c => is8 c /\ c <> 36) s ->
  u8 (ram (g_W c0) (u16 (d + Z.of_nat (length s)))) = 36 ->
  exists e', reach u c0 (n + 6 * length s + 3) (rev (map (fun c => (0, c)) s) ++ o)
               (mk_mach 36 (cp8 36 36) cc (u16 (d + Z.of_nat (length s))) e' (u16 (u16 (sp + 1) + 1)) (popped (ram (g_W c0)) sp)).
Proof.
  induction s as [|ch s IH]; intros n o a f d e R Hd Hs Hok Hend.
  - (* the terminator: LD A,(DE) ; CP '$' ; RET Z *)
    cbn [length] in *. change (Z.of_nat 0) with 0 in *. rewrite Z.add_0_r in *. rewrite (u16_id d Hd) in *.
    stp st_ld_a_de f_ld_a_de g_none.
    match goal with X : reach _ _ _ _ _ |- _ => rewrite Hend in X end.
    stp st_cp_n f_cp_n g_none. stp st_ret_z f_ret_z g_none.
    exists e. replace (n + 6 * 0 + 3)%nat with (S (S (S n))) by lia. cbn [rev map app].
    match goal with X : reach _ _ _ _ _ |- _ => exact X end.
  - (* one character: LD A,(DE) ; CP '$' ; RET Z (not taken) ; OUT (0),A ; INC DE ; JR loop *)
    pose proof (Hs 0%nat ltac:(cbn [length]; lia)) as H0. cbn [nth] in H0. change (Z.of_nat 0) with 0 in H0.
    rewrite Z.add_0_r, (u16_id d Hd) in H0.
    inversion Hok as [|x l [Hc8 Hc36] Hok']; subst x l.
    stp st_ld_a_de f_ld_a_de g_none.
    match goal with X : reach _ _ _ _ _ |- _ => rewrite H0 in X end.
    stp st_cp_n f_cp_n g_none. stp st_ret_z f_ret_z g_none.
    match goal with X : reach _ _ _ _ _ |- _ =>
      rewrite (cp8_z ch 36 Hc8 ltac:(unfold is8; lia)) in X;
      destruct (Z.eqb_spec ch 36) as [Hbad|_]; [contradiction|] end.
    stp st_out f_out g_out. stp st_inc_de f_inc_de g_none. stp st_jr f_jr g_none.
    match goal with X : reach _ _ _ _ _ |- _ =>
      destruct (IH _ _ _ _ _ _ X (is16_u16 _)) as [e' R'] end.
    + intros k Hk. rewrite u16_add_u16_l. replace (d + 1 + Z.of_nat k) with (d + Z.of_nat (S k)) by lia.
      rewrite (Hs (S k)) by (cbn [length]; lia). reflexivity.
    + exact Hok'.
    + rewrite u16_add_u16_l. replace (d + 1 + Z.of_nat (length s)) with (d + Z.of_nat (length (ch :: s))) by (cbn [length]; lia). exact Hend.
    + exists e'. cbn [length rev map]. rewrite <- app_assoc. cbn [app].
      replace (n + 6 * S (length s) + 3)%nat with (S (S (S (S (S (S n))))) + 6 * length s + 3)%nat by lia.
      rewrite u16_add_u16_l in R'. replace (d + 1 + Z.of_nat (length s)) with (d + Z.of_nat (S (length s))) in R' by lia.
      exact R'.
Qed.

Theorem putstr a f d e sp (s : list Z) : view c0 = mk_mach a f 9 d e sp 5 -> is16 d ->
  (forall k, (k < length s)%nat -> u8 (ram (g_W c0) (u16 (d + Z.of_nat k))) = nth k s 0) ->
  Forall (fun c => is8 c /\ c <> 36) s ->
  u8 (ram (g_W c0) (u16 (d + Z.of_nat (length s)))) = 36 ->
  exists e', reach u c0 (6 + 6 * length s + 3) (rev (map (fun c => (0, c)) s))
               (mk_mach 36 (cp8 36 36) 9 (u16 (d + Z.of_nat (length s))) e' (u16 (u16 (sp + 1) + 1)) (popped (ram (g_W c0)) sp)).
Proof.
  intros Hv Hd Hs Hok Hend. pose proof (reach_0 u c0 He) as R. rewrite Hv in R.
  stp st_jp f_jp g_none. stp st_ld_a_c f_ld_a_c g_none. stp st_cp_n f_cp_n g_none. stp st_jr_z f_jr_z g_none.
  stp st_cp_n f_cp_n g_none. stp st_jr_z f_jr_z g_none.
  match goal with X : reach _ _ _ _ _ |- _ => destruct (putstr_loop sp 9 s _ _ _ _ _ _ X Hd Hs Hok Hend) as [e' R'] end.
  exists e'. rewrite app_nil_r in R'. exact R'.
Qed.
End Programs.
