(* Cpm/Bios.v -- the mini CP/M BIOS of internal/tinycpm: Gen/TinyData.v holds the non-zero bytes of the REAL
   tinycpm.NewMemory() image of the current tree (dumped on every run); here they are read with the specification's
   decoder. *)
From Z80V Require Import Spec.Exec Gen.TinyData.

Definition image_at (a : Z) : Z :=
  match find (fun p => fst p =? a) bios_image with Some p => snd p | None => 0 end.
Definition bytes_from (a : Z) (n : nat) : list Z := map (fun k => image_at (a + Z.of_nat k)) (seq 0 n).

(* page 0: warm boot vector and BDOS entry *)
Lemma page0 : bytes_from 0 8 = [195; 3; 255; 0; 0; 195; 6; 254] /\ decode_main 195 = JP.
Proof. vm_compute. split; reflexivity. Qed.
(* the stop code *)
Lemma stop_code : bytes_from 65283 1 = [118] /\ decode_main 118 = HALT.
Proof. vm_compute. split; reflexivity. Qed.
(* the BDOS dispatcher and its two services, byte for byte the assembly of _z80/minibios.asm ... *)
Definition bdos_bytes : list Z :=
  [121; 254; 2; 40; 5; 254; 9; 40; 5; 118;        (* FE06: LD A,C ; CP 2 ; JR Z,putchar ; CP 9 ; JR Z,putstr ; HALT *)
   123; 211; 0; 201;                              (* FE10 putchar: LD A,E ; OUT (0),A ; RET *)
   26; 254; 36; 200; 211; 0; 19; 24; 247].        (* FE14 putstr: LD A,(DE) ; CP '$' ; RET Z ; OUT (0),A ; INC DE ; JR putstr *)
Lemma bdos_image : bytes_from 65030 23 = bdos_bytes.
Proof. vm_compute. reflexivity. Qed.
(* ... and what those opcodes mean in the specification *)
Lemma bdos_disassembly :
  decode_main 121 = LD8 (Reg rA) (Reg rC) /\ decode_main 254 = ALU8 CP Imm /\ decode_main 40 = JR_cc Z_ /\
  decode_main 118 = HALT /\ decode_main 123 = LD8 (Reg rA) (Reg rE) /\ decode_main 211 = OUT_n_A /\
  decode_main 201 = RET /\ decode_main 26 = LD_A_DE /\ decode_main 200 = RET_cc Z_ /\ decode_main 19 = INC16 pDE /\
  decode_main 24 = JR /\
  (* branch targets: FE09+2+5 = FE10 (putchar), FE0D+2+5 = FE14 (putstr), FE1B+2-9 = FE14 *)
  disp (65033 + 2) 5 = 65040 /\ disp (65037 + 2) 5 = 65044 /\ disp (65051 + 2) 247 = 65044.
Proof. vm_compute. repeat split. Qed.
(* nothing else is preloaded *)
Lemma image_support : forall a, 0 <= a < 65536 -> image_at a <> 0 -> (0 <= a < 8) \/ (65030 <= a < 65053) \/ a = 65283.
Proof.
  intros a Ha Hn. unfold image_at in Hn. destruct (find _ bios_image) as [p|] eqn:E; [|congruence].
  apply find_some in E. destruct E as [Hin Heq]. apply Z.eqb_eq in Heq.
  assert (forallb (fun p => ((0 <=? fst p) && (fst p <? 8)) || ((65030 <=? fst p) && (fst p <? 65053)) || (fst p =? 65283)) bios_image = true) as F by (vm_compute; reflexivity).
  rewrite forallb_forall in F. specialize (F p Hin). lia.
Qed.
