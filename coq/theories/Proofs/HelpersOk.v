(* Proofs/HelpersOk.v -- the helper lemmas in the form used to rewrite inside the table proofs:
   generated helper = (state with the specified F, specified result). *)
From Z80V Require Export Proofs.H8Alu Proofs.H8IncDec Proofs.H8Rot Proofs.H8AF Proofs.H8Misc Proofs.HStruct Proofs.H16.

Ltac ok2 shape pure := intros; rewrite shape; rewrite <- pure by assumption; reflexivity.

Lemma addU8_ok cpu a b : is8 a -> is8 b -> is8 (g_AF_Lo cpu) ->
  addU8 cpu a b = (s_AF_Lo cpu (snd (alu8 ADD a b (g_AF_Lo cpu))), fst (alu8 ADD a b (g_AF_Lo cpu))).
Proof. ok2 addU8_shape addU8_pure. Qed.
Lemma adcU8_ok cpu a b : is8 a -> is8 b -> is8 (g_AF_Lo cpu) ->
  adcU8 cpu a b = (s_AF_Lo cpu (snd (alu8 ADC a b (g_AF_Lo cpu))), fst (alu8 ADC a b (g_AF_Lo cpu))).
Proof. ok2 adcU8_shape adcU8_pure. Qed.
Lemma subU8_ok cpu a b : is8 a -> is8 b -> is8 (g_AF_Lo cpu) ->
  subU8 cpu a b = (s_AF_Lo cpu (snd (alu8 SUB a b (g_AF_Lo cpu))), fst (alu8 SUB a b (g_AF_Lo cpu))).
Proof. ok2 subU8_shape subU8_pure. Qed.
Lemma sbcU8_ok cpu a b : is8 a -> is8 b -> is8 (g_AF_Lo cpu) ->
  sbcU8 cpu a b = (s_AF_Lo cpu (snd (alu8 SBC a b (g_AF_Lo cpu))), fst (alu8 SBC a b (g_AF_Lo cpu))).
Proof. ok2 sbcU8_shape sbcU8_pure. Qed.
Lemma andU8_ok cpu a b : is8 a -> is8 b -> is8 (g_AF_Lo cpu) ->
  andU8 cpu a b = (s_AF_Lo cpu (snd (alu8 AND a b (g_AF_Lo cpu))), fst (alu8 AND a b (g_AF_Lo cpu))).
Proof. ok2 andU8_shape andU8_pure. Qed.
Lemma orU8_ok cpu a b : is8 a -> is8 b -> is8 (g_AF_Lo cpu) ->
  orU8 cpu a b = (s_AF_Lo cpu (snd (alu8 OR a b (g_AF_Lo cpu))), fst (alu8 OR a b (g_AF_Lo cpu))).
Proof. ok2 orU8_shape orU8_pure. Qed.
Lemma xorU8_ok cpu a b : is8 a -> is8 b -> is8 (g_AF_Lo cpu) ->
  xorU8 cpu a b = (s_AF_Lo cpu (snd (alu8 XOR a b (g_AF_Lo cpu))), fst (alu8 XOR a b (g_AF_Lo cpu))).
Proof. ok2 xorU8_shape xorU8_pure. Qed.
Lemma cpU8_ok cpu a b : is8 a -> is8 b -> is8 (g_AF_Lo cpu) ->
  cpU8 cpu a b = (s_AF_Lo cpu (snd (alu8 CP a b (g_AF_Lo cpu))), pR cpU8 a b (g_AF_Lo cpu)).
Proof. intros. rewrite cpU8_shape. rewrite cpU8_pure by assumption. reflexivity. Qed.

Lemma incU8_ok cpu a : is8 a -> is8 (g_AF_Lo cpu) ->
  incU8 cpu a = (s_AF_Lo cpu (snd (inc8 a (g_AF_Lo cpu))), fst (inc8 a (g_AF_Lo cpu))).
Proof. ok2 incU8_shape incU8_pure. Qed.
Lemma decU8_ok cpu a : is8 a -> is8 (g_AF_Lo cpu) ->
  decU8 cpu a = (s_AF_Lo cpu (snd (dec8 a (g_AF_Lo cpu))), fst (dec8 a (g_AF_Lo cpu))).
Proof. ok2 decU8_shape decU8_pure. Qed.

Lemma rlcU8_ok cpu a : is8 a -> is8 (g_AF_Lo cpu) ->
  rlcU8 cpu a = (s_AF_Lo cpu (snd (rotcb RLC a (g_AF_Lo cpu))), fst (rotcb RLC a (g_AF_Lo cpu))).
Proof. ok2 rlcU8_shape rlcU8_pure. Qed.
Lemma rrcU8_ok cpu a : is8 a -> is8 (g_AF_Lo cpu) ->
  rrcU8 cpu a = (s_AF_Lo cpu (snd (rotcb RRC a (g_AF_Lo cpu))), fst (rotcb RRC a (g_AF_Lo cpu))).
Proof. ok2 rrcU8_shape rrcU8_pure. Qed.
Lemma rlU8_ok cpu a : is8 a -> is8 (g_AF_Lo cpu) ->
  rlU8 cpu a = (s_AF_Lo cpu (snd (rotcb RL a (g_AF_Lo cpu))), fst (rotcb RL a (g_AF_Lo cpu))).
Proof. ok2 rlU8_shape rlU8_pure. Qed.
Lemma rrU8_ok cpu a : is8 a -> is8 (g_AF_Lo cpu) ->
  rrU8 cpu a = (s_AF_Lo cpu (snd (rotcb RR a (g_AF_Lo cpu))), fst (rotcb RR a (g_AF_Lo cpu))).
Proof. ok2 rrU8_shape rrU8_pure. Qed.
Lemma slaU8_ok cpu a : is8 a -> is8 (g_AF_Lo cpu) ->
  slaU8 cpu a = (s_AF_Lo cpu (snd (rotcb SLA a (g_AF_Lo cpu))), fst (rotcb SLA a (g_AF_Lo cpu))).
Proof. ok2 slaU8_shape slaU8_pure. Qed.
Lemma sraU8_ok cpu a : is8 a -> is8 (g_AF_Lo cpu) ->
  sraU8 cpu a = (s_AF_Lo cpu (snd (rotcb SRA a (g_AF_Lo cpu))), fst (rotcb SRA a (g_AF_Lo cpu))).
Proof. ok2 sraU8_shape sraU8_pure. Qed.
Lemma sl1U8_ok cpu a : is8 a -> is8 (g_AF_Lo cpu) ->
  sl1U8 cpu a = (s_AF_Lo cpu (snd (rotcb SLL a (g_AF_Lo cpu))), fst (rotcb SLL a (g_AF_Lo cpu))).
Proof. ok2 sl1U8_shape sl1U8_pure. Qed.
Lemma srlU8_ok cpu a : is8 a -> is8 (g_AF_Lo cpu) ->
  srlU8 cpu a = (s_AF_Lo cpu (snd (rotcb SRL a (g_AF_Lo cpu))), fst (rotcb SRL a (g_AF_Lo cpu))).
Proof. ok2 srlU8_shape srlU8_pure. Qed.

(* handlers on A and F *)
Ltac okA shape pure := intros; rewrite shape; rewrite <- pure by assumption; reflexivity.
Lemma oopDAA_ok cpu : is8 (g_AF_Hi cpu) -> is8 (g_AF_Lo cpu) ->
  oopDAA cpu = s_AF cpu (mk_Register (fst (daa8 (g_AF_Hi cpu) (g_AF_Lo cpu))) (snd (daa8 (g_AF_Hi cpu) (g_AF_Lo cpu)))).
Proof. okA oopDAA_shape oopDAA_pure. Qed.
Lemma oopCPL_ok cpu : is8 (g_AF_Hi cpu) -> is8 (g_AF_Lo cpu) ->
  oopCPL cpu = s_AF cpu (mk_Register (fst (cpl8 (g_AF_Hi cpu) (g_AF_Lo cpu))) (snd (cpl8 (g_AF_Hi cpu) (g_AF_Lo cpu)))).
Proof. okA oopCPL_shape oopCPL_pure. Qed.
Lemma oopNEG_ok cpu : is8 (g_AF_Hi cpu) -> is8 (g_AF_Lo cpu) ->
  oopNEG cpu = s_AF cpu (mk_Register (fst (neg8 (g_AF_Hi cpu))) (snd (neg8 (g_AF_Hi cpu)))).
Proof. intros Ha Hf. rewrite oopNEG_shape. rewrite <- (oopNEG_pure _ _ Ha Hf). reflexivity. Qed.
Lemma oopRLCA_ok cpu : is8 (g_AF_Hi cpu) -> is8 (g_AF_Lo cpu) ->
  oopRLCA cpu = s_AF cpu (mk_Register (fst (rota RLC (g_AF_Hi cpu) (g_AF_Lo cpu))) (snd (rota RLC (g_AF_Hi cpu) (g_AF_Lo cpu)))).
Proof. okA oopRLCA_shape oopRLCA_pure. Qed.
Lemma oopRRCA_ok cpu : is8 (g_AF_Hi cpu) -> is8 (g_AF_Lo cpu) ->
  oopRRCA cpu = s_AF cpu (mk_Register (fst (rota RRC (g_AF_Hi cpu) (g_AF_Lo cpu))) (snd (rota RRC (g_AF_Hi cpu) (g_AF_Lo cpu)))).
Proof. okA oopRRCA_shape oopRRCA_pure. Qed.
Lemma oopRLA_ok cpu : is8 (g_AF_Hi cpu) -> is8 (g_AF_Lo cpu) ->
  oopRLA cpu = s_AF cpu (mk_Register (fst (rota RL (g_AF_Hi cpu) (g_AF_Lo cpu))) (snd (rota RL (g_AF_Hi cpu) (g_AF_Lo cpu)))).
Proof. okA oopRLA_shape oopRLA_pure. Qed.
Lemma oopRRA_ok cpu : is8 (g_AF_Hi cpu) -> is8 (g_AF_Lo cpu) ->
  oopRRA cpu = s_AF cpu (mk_Register (fst (rota RR (g_AF_Hi cpu) (g_AF_Lo cpu))) (snd (rota RR (g_AF_Hi cpu) (g_AF_Lo cpu)))).
Proof. okA oopRRA_shape oopRRA_pure. Qed.

(* the bits this implementation chooses where the Z80 leaves them open, read off the generated code *)
Definition impl_unspec : Unspec :=
  mk_Unspec (fun a f => pFa oopSCF a f) (fun a f => pFa oopCCF a f)
            (fun b v f => pBit bitchk8b b v f) (fun _ b' f => pIOZ b' f)
            (g_IR_Lo (executeOne_dd cpu0 221 203 203) =? 1).
Lemma oopSCF_ok cpu : is8 (g_AF_Hi cpu) -> is8 (g_AF_Lo cpu) ->
  oopSCF cpu = s_AF_Lo cpu (scf8 (g_AF_Lo cpu) (u_scf impl_unspec (g_AF_Hi cpu) (g_AF_Lo cpu))).
Proof.
  intros Ha Hf. rewrite oopSCF_shape. destruct (oopSCF_pure _ _ Ha Hf) as [E1 E2].
  rewrite E1. cbv [impl_unspec u_scf]. rewrite <- E2. cbv_struct. reflexivity.
Qed.
Lemma oopCCF_ok cpu : is8 (g_AF_Hi cpu) -> is8 (g_AF_Lo cpu) ->
  oopCCF cpu = s_AF_Lo cpu (ccf8 (g_AF_Lo cpu) (u_ccf impl_unspec (g_AF_Hi cpu) (g_AF_Lo cpu))).
Proof.
  intros Ha Hf. rewrite oopCCF_shape. destruct (oopCCF_pure _ _ Ha Hf) as [E1 E2].
  rewrite E1. cbv [impl_unspec u_ccf]. rewrite <- E2. cbv_struct. reflexivity.
Qed.

Lemma bitchk8_ok cpu b v : 0 <= b < 8 -> is8 v -> is8 (g_AF_Lo cpu) ->
  bitchk8 cpu b v = s_AF_Lo cpu (bit8 b v (g_AF_Lo cpu) v).
Proof. intros. rewrite bitchk8_shape, bitchk8_pure by assumption. reflexivity. Qed.
Lemma bitchk8b_ok cpu b v : 0 <= b < 8 -> is8 v -> is8 (g_AF_Lo cpu) ->
  bitchk8b cpu b v = s_AF_Lo cpu (bit8 b v (g_AF_Lo cpu) (u_bitmem impl_unspec b v (g_AF_Lo cpu))).
Proof. intros. rewrite bitchk8b_shape. cbv [impl_unspec u_bitmem]. rewrite <- bitchk8b_pure by assumption. reflexivity. Qed.
Lemma updateIOIn_ok cpu r : is8 r -> is8 (g_AF_Lo cpu) -> updateIOIn cpu r = s_AF_Lo cpu (in_flags r (g_AF_Lo cpu)).
Proof. intros. rewrite updateIOIn_shape, updateIOIn_pure by assumption. reflexivity. Qed.
Lemma updateFlagRxD_ok cpu r : is8 r -> is8 (g_AF_Lo cpu) ->
  updateFlagRxD cpu r = s_AF_Lo cpu (sz53 r + parity r + Z.land (g_AF_Lo cpu) FC).
Proof. intros. rewrite updateFlagRxD_shape, updateFlagRxD_pure by assumption. reflexivity. Qed.
Lemma updateFlagIR_ok cpu d : is8 d -> is8 (g_AF_Lo cpu) ->
  updateFlagIR cpu d = s_AF_Lo cpu (ldair_flags d (g_IFF2 cpu) (g_AF_Lo cpu)).
Proof. intros. rewrite updateFlagIR_shape, updateFlagIR_pure by assumption. reflexivity. Qed.
Lemma updateFlagIObZ_ok cpu : is8 (g_BC_Hi cpu) -> is8 (g_AF_Lo cpu) ->
  updateFlagIObZ cpu = s_AF_Lo cpu (blockio_flags (g_BC_Hi cpu) (g_AF_Lo cpu) (pIOZ (g_BC_Hi cpu) (g_AF_Lo cpu))).
Proof. intros. rewrite updateFlagIObZ_shape. rewrite <- updateFlagIObZ_pure by assumption. reflexivity. Qed.
Lemma updateFlagLDID_ok cpu v : is8 v -> is8 (g_AF_Hi cpu) -> is8 (g_BC_Hi cpu) -> is8 (g_BC_Lo cpu) -> is8 (g_AF_Lo cpu) ->
  updateFlagLDID cpu v = s_AF_Lo cpu (ldx_flags (g_AF_Hi cpu) v (mk16 (g_BC_Hi cpu) (g_BC_Lo cpu)) (g_AF_Lo cpu)).
Proof. intros. rewrite updateFlagLDID_shape, updateFlagLDID_pure by assumption. reflexivity. Qed.
Lemma updateFlagCPx_ok cpu a x : is8 a -> is8 x -> is8 (g_BC_Hi cpu) -> is8 (g_BC_Lo cpu) -> is8 (g_AF_Lo cpu) ->
  updateFlagCPx cpu (u8 (a - x)) a x = s_AF_Lo cpu (cpx_flags a x (mk16 (g_BC_Hi cpu) (g_BC_Lo cpu)) (g_AF_Lo cpu)).
Proof. intros. rewrite updateFlagCPx_shape, updateFlagCPx_pure by assumption. reflexivity. Qed.
Example impl_ticks : u_cbidx_ticks impl_unspec = true.
Proof. vm_compute. reflexivity. Qed.
Lemma updateFlagLogic8_ok cpu r b : is8 r -> is8 (g_AF_Lo cpu) ->
  updateFlagLogic8 cpu r b = s_AF_Lo cpu (if b then sz53 r + FH + parity r else sz53 r + parity r).
Proof. intros. rewrite updateFlagLogic8_shape, updateFlagLogic8_pure by assumption. reflexivity. Qed.
