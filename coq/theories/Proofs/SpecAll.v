(* Proofs/SpecAll.v -- facts about every instruction of the specification (the five generated files) *)
From Z80V Require Export Proofs.SpecAllSwap Proofs.SpecAllIx Proofs.SpecAllIy Proofs.SpecAllEnv Proofs.SpecAllIR.
