(* Proofs/SpecAll.v -- collects the SpecAll*.v files (which are chained: each needs several GB of memory) *)
From Z80V Require Export Proofs.SpecAllIR.
