(* Proofs/HStruct.v -- the generated word/byte plumbing (z80.go, cpu.go) is the specification's *)
From Z80V Require Export Proofs.WF.

Lemma Register_U16_ok r : Register_U16 r = regw r.
Proof. reflexivity. Qed.
Lemma u8_land255 v : u8 (Z.land v 255) = u8 v.
Proof. unfold u8. rewrite <- Z.land_assoc. reflexivity. Qed.
Lemma Register_SetU16_ok r v : Register_SetU16 r v = wreg v.
Proof. cbv [Register_SetU16 wreg hi lo]; cbv_struct. rewrite u8_land255. reflexivity. Qed.
Lemma toU16_ok l h : toU16 l h = mk16 h l.
Proof. reflexivity. Qed.
Lemma fromU16_ok v : fromU16 v = (lo v, hi v).
Proof. cbv [fromU16 lo hi]. rewrite u8_land255. reflexivity. Qed.
Lemma u16_add_u16_r a b : u16 (a + u16 b) = u16 (a + b).
Proof. rewrite !u16_mod. rewrite Zplus_mod_idemp_r. reflexivity. Qed.
Lemma u16_add_u16_l a b : u16 (u16 a + b) = u16 (a + b).
Proof. rewrite !u16_mod. rewrite Zplus_mod_idemp_l. reflexivity. Qed.
Lemma u16_sub_u16_l a b : u16 (u16 a - b) = u16 (a - b).
Proof. rewrite !u16_mod. rewrite Zminus_mod_idemp_l. reflexivity. Qed.
Lemma addrOff_ok a d : addrOff a d = disp a d.
Proof. cbv [addrOff disp]. rewrite u16_add_u16_r. reflexivity. Qed.
Lemma incU16_ok cpu a : incU16 cpu a = inc16 a. Proof. reflexivity. Qed.
Lemma decU16_ok cpu a : decU16 cpu a = dec16 a. Proof. reflexivity. Qed.

(* the round trip of C16: SetU16 then U16 is the identity on words, Hi/Lo are the two bytes *)
Lemma mk16_arith h l : is8 h -> is8 l -> mk16 h l = h * 256 + l.
Proof. intros Hh Hl. unfold mk16. enum2 h l. Qed.
Lemma hi_div w : is16 w -> hi w = w / 256.
Proof. intros H. unfold hi. rewrite Z.shiftr_div_pow2 by lia. change (2 ^ 8) with 256.
  apply u8_id. unfold is16 in H. split; [apply Z.div_pos; lia | apply Z.div_lt_upper_bound; lia]. Qed.
Lemma lo_mod w : lo w = w mod 256.
Proof. apply u8_mod. Qed.
Lemma regw_wreg w : is16 w -> regw (wreg w) = w.
Proof.
  intros H. cbv [regw wreg]; cbv_struct. rewrite mk16_arith by (unfold hi, lo; range).
  rewrite hi_div by exact H. rewrite lo_mod. rewrite Z.mul_comm. symmetry. apply Z.div_mod. lia.
Qed.
Lemma is16_mk16 h l : is8 h -> is8 l -> is16 (mk16 h l).
Proof. intros Hh Hl. rewrite mk16_arith by assumption. unfold is8, is16 in *. lia. Qed.
Lemma is16_regw r : WF_reg r -> is16 (regw r).
Proof. intros [H1 H2]. apply is16_mk16; assumption. Qed.
#[global] Hint Resolve is16_mk16 : ranges.
#[global] Hint Extern 2 (is16 (regw _)) => (unfold regw; apply is16_mk16) : ranges.

(* conditions: the mask tests of the Go are bit tests *)
Lemma mask_bit f k : 0 <= k < 8 -> is8 f -> (Z.land f (2 ^ k) =? 0) = negb (Z.testbit f k).
Proof. intros Hk Hf. revert k Hk. apply bits8; cbv beta; change (2^0) with 1; change (2^1) with 2; change (2^2) with 4;
  change (2^3) with 8; change (2^4) with 16; change (2^5) with 32; change (2^6) with 64; change (2^7) with 128; benum1 f. Qed.
Lemma mask1 f : is8 f -> (Z.land f 1 =? 0) = negb (Z.testbit f 0). Proof. apply (mask_bit f 0); lia. Qed.
Lemma mask4 f : is8 f -> (Z.land f 4 =? 0) = negb (Z.testbit f 2). Proof. apply (mask_bit f 2); lia. Qed.
Lemma mask64 f : is8 f -> (Z.land f 64 =? 0) = negb (Z.testbit f 6). Proof. apply (mask_bit f 6); lia. Qed.
Lemma mask128 f : is8 f -> (Z.land f 128 =? 0) = negb (Z.testbit f 7). Proof. apply (mask_bit f 7); lia. Qed.

(* ---- register pairs: byte-wise forms used by some handlers ---- *)
Lemma reg_eq h l h' l' : h = h' -> l = l' -> mk_Register h l = mk_Register h' l'.
Proof. intros -> ->. reflexivity. Qed.
Lemma wreg_mk16 h l : is8 h -> is8 l -> wreg (mk16 h l) = mk_Register h l.
Proof. intros Hh Hl. unfold wreg, hi, lo, mk16. apply reg_eq; enum2 h l. Qed.
Lemma wreg_inc16 r : is8 (Register_Hi r) -> is8 (Register_Lo r) ->
  wreg (u16 (regw r + 1)) =
  if u8 (Register_Lo r + 1) =? 0 then mk_Register (u8 (Register_Hi r + 1)) (u8 (Register_Lo r + 1))
  else mk_Register (Register_Hi r) (u8 (Register_Lo r + 1)).
Proof.
  destruct r as [h l]. cbn [Register_Hi Register_Lo]. intros Hh Hl.
  transitivity (mk_Register (if u8 (l + 1) =? 0 then u8 (h + 1) else h) (u8 (l + 1))); [|destruct (u8 (l + 1) =? 0); reflexivity].
  unfold wreg, regw, hi, lo, mk16, inc16. cbn [Register_Hi Register_Lo]. apply reg_eq; enum2 h l.
Qed.
Lemma wreg_dec16 r : is8 (Register_Hi r) -> is8 (Register_Lo r) ->
  wreg (u16 (regw r - 1)) =
  if u8 (Register_Lo r - 1) =? 255 then mk_Register (u8 (Register_Hi r - 1)) (u8 (Register_Lo r - 1))
  else mk_Register (Register_Hi r) (u8 (Register_Lo r - 1)).
Proof.
  destruct r as [h l]. cbn [Register_Hi Register_Lo]. intros Hh Hl.
  transitivity (mk_Register (if u8 (l - 1) =? 255 then u8 (h - 1) else h) (u8 (l - 1))); [|destruct (u8 (l - 1) =? 255); reflexivity].
  unfold wreg, regw, hi, lo, mk16, dec16. cbn [Register_Hi Register_Lo]. apply reg_eq; enum2 h l.
Qed.
Lemma hi_mk16 h l : is8 h -> is8 l -> hi (mk16 h l) = h.
Proof. intros. unfold hi, mk16. enum2 h l. Qed.
Lemma lo_mk16 h l : is8 h -> is8 l -> lo (mk16 h l) = l.
Proof. intros. unfold lo, mk16. enum2 h l. Qed.
#[global] Hint Extern 1 (is8 (match wget ?w ?m ?a with (_, y) => y end)) =>
  exact (wget_byte w m a ltac:(assumption)) : ranges.
Lemma with_hi_hi w : is16 w -> with_hi w (hi w) = w.
Proof.
  intros Hw. destruct (Z.div_mod w 256 ltac:(lia)) . unfold with_hi, hi.
  assert (E : forall h l, is8 h -> is8 l -> Z.lor (u16 (Z.shiftl (u8 (Z.shiftr (h * 256 + l) 8)) 8)) (Z.land (h * 256 + l) 255) = h * 256 + l).
  { intros h l Hh Hl. enum2 h l. }
  pose proof (Z.mod_pos_bound w 256 ltac:(lia)).
  rewrite (Z.div_mod w 256) at 1 2 3 by lia. rewrite (Z.mul_comm 256). apply E; unfold is8, is16 in *.
  - split; [apply Z.div_pos; lia | apply Z.div_lt_upper_bound; lia].
  - lia.
Qed.
Lemma with_lo_lo w : is16 w -> with_lo w (lo w) = w.
Proof.
  intros Hw. unfold with_lo, lo.
  assert (E : forall h l, is8 h -> is8 l -> Z.lor (u8 (h * 256 + l)) (Z.land (h * 256 + l) 65280) = h * 256 + l).
  { intros h l Hh Hl. enum2 h l. }
  pose proof (Z.mod_pos_bound w 256 ltac:(lia)).
  rewrite (Z.div_mod w 256) at 1 2 3 by lia. rewrite (Z.mul_comm 256). apply E; unfold is8, is16 in *.
  - split; [apply Z.div_pos; lia | apply Z.div_lt_upper_bound; lia].
  - lia.
Qed.
Lemma hi_regw r : is8 (Register_Hi r) -> is8 (Register_Lo r) -> hi (regw r) = Register_Hi r.
Proof. intros. apply hi_mk16; assumption. Qed.
Lemma lo_regw r : is8 (Register_Hi r) -> is8 (Register_Lo r) -> lo (regw r) = Register_Lo r.
Proof. intros. apply lo_mk16; assumption. Qed.
Lemma mk16_hi_lo w : is16 w -> mk16 (hi w) (lo w) = w.
Proof. intros H. exact (regw_wreg w H). Qed.
Lemma reg_inc16 r : is8 (Register_Hi r) -> is8 (Register_Lo r) ->
  mk_Register (hi (u16 (regw r + 1))) (lo (u16 (regw r + 1))) =
  if u8 (Register_Lo r + 1) =? 0 then mk_Register (u8 (Register_Hi r + 1)) (u8 (Register_Lo r + 1))
  else mk_Register (Register_Hi r) (u8 (Register_Lo r + 1)).
Proof. intros. rewrite <- wreg_inc16 by assumption. reflexivity. Qed.
Lemma reg_dec16 r : is8 (Register_Hi r) -> is8 (Register_Lo r) ->
  mk_Register (hi (u16 (regw r - 1))) (lo (u16 (regw r - 1))) =
  if u8 (Register_Lo r - 1) =? 255 then mk_Register (u8 (Register_Hi r - 1)) (u8 (Register_Lo r - 1))
  else mk_Register (Register_Hi r) (u8 (Register_Lo r - 1)).
Proof. intros. rewrite <- wreg_dec16 by assumption. reflexivity. Qed.
Lemma is8_hi w : is8 (hi w). Proof. apply is8_u8. Qed.
Lemma is8_lo w : is8 (lo w). Proof. apply is8_u8. Qed.
#[global] Hint Resolve is8_hi is8_lo : ranges.
Lemma reg_inc16' h l : is8 h -> is8 l ->
  mk_Register (hi (u16 (mk16 h l + 1))) (lo (u16 (mk16 h l + 1))) =
  if u8 (l + 1) =? 0 then mk_Register (u8 (h + 1)) (u8 (l + 1)) else mk_Register h (u8 (l + 1)).
Proof. intros Hh Hl. exact (reg_inc16 (mk_Register h l) Hh Hl). Qed.
Lemma reg_dec16' h l : is8 h -> is8 l ->
  mk_Register (hi (u16 (mk16 h l - 1))) (lo (u16 (mk16 h l - 1))) =
  if u8 (l - 1) =? 255 then mk_Register (u8 (h - 1)) (u8 (l - 1)) else mk_Register h (u8 (l - 1)).
Proof. intros Hh Hl. exact (reg_dec16 (mk_Register h l) Hh Hl). Qed.
