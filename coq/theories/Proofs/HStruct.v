(* Proofs/HStruct.v -- the generated word/byte plumbing (z80.go, cpu.go) is the specification's *)
From Z80V Require Export Proofs.WF.

Lemma Register_U16_ok r : Register_U16 r = regw r.
Proof. reflexivity. Qed.
Lemma u8_land255 v : u8 (Z.land v 255) = u8 v.
Proof. unfold u8. rewrite <- Z.land_assoc. reflexivity. Qed.
Lemma Register_SetU16_ok r v : Register_SetU16 r v = wreg v.
Proof. cbv [Register_SetU16 wreg hi lo]; cbv_struct. rewrite u8_land255. reflexivity. Qed.
Lemma toU16_ok l h : toU16 l h = mk16 h l.
Proof. reflexivity. Qed.
Lemma fromU16_ok v : fromU16 v = (lo v, hi v).
Proof. cbv [fromU16 lo hi]. rewrite u8_land255. reflexivity. Qed.
Lemma u16_add_u16_r a b : u16 (a + u16 b) = u16 (a + b).
Proof. rewrite !u16_mod. rewrite Zplus_mod_idemp_r. reflexivity. Qed.
Lemma u16_add_u16_l a b : u16 (u16 a + b) = u16 (a + b).
Proof. rewrite !u16_mod. rewrite Zplus_mod_idemp_l. reflexivity. Qed.
Lemma u16_sub_u16_l a b : u16 (u16 a - b) = u16 (a - b).
Proof. rewrite !u16_mod. rewrite Zminus_mod_idemp_l. reflexivity. Qed.
Lemma addrOff_ok a d : addrOff a d = disp a d.
Proof. cbv [addrOff disp]. rewrite u16_add_u16_r. reflexivity. Qed.
Lemma incU16_ok cpu a : incU16 cpu a = inc16 a. Proof. reflexivity. Qed.
Lemma decU16_ok cpu a : decU16 cpu a = dec16 a. Proof. reflexivity. Qed.

(* the round trip of C16: SetU16 then U16 is the identity on words, Hi/Lo are the two bytes *)
Lemma mk16_arith h l : is8 h -> is8 l -> mk16 h l = h * 256 + l.
Proof. intros Hh Hl. unfold mk16. enum2 h l. Qed.
Lemma hi_div w : is16 w -> hi w = w / 256.
Proof. intros H. unfold hi. rewrite Z.shiftr_div_pow2 by lia. change (2 ^ 8) with 256.
  apply u8_id. unfold is16 in H. split; [apply Z.div_pos; lia | apply Z.div_lt_upper_bound; lia]. Qed.
Lemma lo_mod w : lo w = w mod 256.
Proof. apply u8_mod. Qed.
Lemma regw_wreg w : is16 w -> regw (wreg w) = w.
Proof.
  intros H. cbv [regw wreg]; cbv_struct. rewrite mk16_arith by (unfold hi, lo; range).
  rewrite hi_div by exact H. rewrite lo_mod. rewrite Z.mul_comm. symmetry. apply Z.div_mod. lia.
Qed.
Lemma is16_mk16 h l : is8 h -> is8 l -> is16 (mk16 h l).
Proof. intros Hh Hl. rewrite mk16_arith by assumption. unfold is8, is16 in *. lia. Qed.
Lemma is16_regw r : WF_reg r -> is16 (regw r).
Proof. intros [H1 H2]. apply is16_mk16; assumption. Qed.
#[global] Hint Resolve is16_mk16 : ranges.

(* conditions: the mask tests of the Go are bit tests *)
Lemma mask_bit f k : 0 <= k < 8 -> is8 f -> (Z.land f (2 ^ k) =? 0) = negb (Z.testbit f k).
Proof. intros Hk Hf. revert k Hk. apply bits8; cbv beta; change (2^0) with 1; change (2^1) with 2; change (2^2) with 4;
  change (2^3) with 8; change (2^4) with 16; change (2^5) with 32; change (2^6) with 64; change (2^7) with 128; benum1 f. Qed.
Lemma mask1 f : is8 f -> (Z.land f 1 =? 0) = negb (Z.testbit f 0). Proof. apply (mask_bit f 0); lia. Qed.
Lemma mask4 f : is8 f -> (Z.land f 4 =? 0) = negb (Z.testbit f 2). Proof. apply (mask_bit f 2); lia. Qed.
Lemma mask64 f : is8 f -> (Z.land f 64 =? 0) = negb (Z.testbit f 6). Proof. apply (mask_bit f 6); lia. Qed.
Lemma mask128 f : is8 f -> (Z.land f 128 =? 0) = negb (Z.testbit f 7). Proof. apply (mask_bit f 7); lia. Qed.
