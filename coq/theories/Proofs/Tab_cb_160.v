(* one shard of the cb decode table: generated handler = specification, opcode by opcode.
   Written by tools/gen_tables.py. *)
From Z80V Require Import Proofs.TableTac.
Lemma tab_cb_160 : forall c, In c [160; 161; 162; 163; 164; 165; 166; 167; 168; 169; 170; 171; 172; 173; 174; 175; 176; 177; 178; 179; 180; 181; 182; 183; 184; 185; 186; 187; 188; 189; 190; 191] -> forall cpu, WF cpu -> forall c0, 
  executeOne_cb cpu c0 c c = exec impl_unspec MHL (decode_cb c) cpu.
Proof. intros c Hc cpu H c0. table_tac Hc H. Qed.
