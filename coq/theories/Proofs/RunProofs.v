(* Proofs/RunProofs.v -- CPU.Run (model in Gen/Run.v, shape-checked against cpu.go by go2coq):
   Run is repeated Step with the stated stop rule (C08) and returns at an instruction boundary on cancellation (C13). *)
From Z80V Require Export Gen.Run.
From Coq Require Import Lia.

Fixpoint iter (n : nat) (cpu : CPU) : CPU := match n with O => cpu | S k => iter k (Step cpu) end.
Lemma iter_S n cpu : iter (S n) cpu = Step (iter n cpu).
Proof. revert cpu; induction n as [|n IH]; intros cpu; [reflexivity|]. cbn [iter]. rewrite <- IH. reflexivity. Qed.

Definition bp_hit (cpu : CPU) : bool := match g_BreakPoints cpu with Some l => inb (g_PC cpu) l | None => false end.
(* the stop condition, evaluated after a Step *)
Definition stops (cpu : CPU) : bool := bp_hit cpu || g_HALT cpu.
Definition result_of (cpu : CPU) : RunResult := if bp_hit cpu then RunErrBreakPoint else RunNil.
Definition never : nat -> bool := fun _ => false.

Lemma Run_iter_spec cpu :
  Run_iter cpu = (Step cpu, if stops (Step cpu) then Some (result_of (Step cpu)) else None).
Proof. unfold Run_iter, stops, result_of, bp_hit. destruct (match g_BreakPoints (Step cpu) with Some l => _ | None => _ end); [reflexivity|]. cbn [orb]. destruct (g_HALT (Step cpu)); reflexivity. Qed.

(* C08: with no cancellation, Run returns after the FIRST Step (n >= 1) after which PC is a break point or a HALT
   was executed -- never earlier, never later; the break point wins over HALT *)
Lemma Run_loop_first n : forall fuel k cpu, (n < fuel)%nat ->
  (forall j, (1 <= j <= n)%nat -> stops (iter j cpu) = false) -> stops (iter (S n) cpu) = true ->
  Run_loop fuel never k cpu = Some (iter (S n) cpu, result_of (iter (S n) cpu)).
Proof.
  induction n as [|n IH]; intros fuel k cpu Hf Hno Hst.
  - destruct fuel as [|fuel]; [lia|]. cbn [Run_loop never]. rewrite Run_iter_spec. cbn [iter] in *. rewrite Hst. reflexivity.
  - destruct fuel as [|fuel]; [lia|]. cbn [Run_loop never]. rewrite Run_iter_spec.
    assert (E : stops (Step cpu) = false) by (apply (Hno 1%nat); lia). rewrite E.
    change (iter (S (S n)) cpu) with (iter (S n) (Step cpu)). apply IH; [lia| |exact Hst].
    intros j Hj. change (iter j (Step cpu)) with (iter (S j) cpu). apply Hno. lia.
Qed.
Theorem Run_is_repeated_Step n fuel cpu : (n < fuel)%nat ->
  let s := fun j => iter j (Run_enter cpu) in
  (forall j, (1 <= j <= n)%nat -> stops (s j) = false) -> stops (s (S n)) = true ->
  Run fuel never cpu = Some (s (S n), result_of (s (S n))).
Proof. intros Hf s Hno Hst. unfold Run. apply Run_loop_first; assumption. Qed.
(* and while no stop condition has occurred Run is still running *)
Lemma Run_loop_running fuel : forall k cpu, (forall j, (1 <= j <= fuel)%nat -> stops (iter j cpu) = false) ->
  Run_loop fuel never k cpu = None.
Proof.
  induction fuel as [|fuel IH]; intros k cpu Hno; [reflexivity|]. cbn [Run_loop never]. rewrite Run_iter_spec.
  assert (E : stops (Step cpu) = false) by (apply (Hno 1%nat); lia). rewrite E. apply IH. intros j Hj. change (iter j (Step cpu)) with (iter (S j) cpu). apply Hno. lia.
Qed.
(* a nil BreakPoints map and an empty one agree *)
Lemma empty_breakpoints cpu : bp_hit (s_BreakPoints cpu (Some [])) = bp_hit (s_BreakPoints cpu None).
Proof. reflexivity. Qed.
(* a stale HALT indication is discarded on entry *)
Lemma Run_enter_clears_halt cpu : g_HALT (Run_enter cpu) = false.
Proof. reflexivity. Qed.

(* C13: whatever the cancellation schedule, Run returns only at an instruction boundary: the state it returns is
   the entry state advanced by a whole number of Steps *)
Lemma Run_loop_whole_steps fuel : forall seen k cpu cpu' r,
  Run_loop fuel seen k cpu = Some (cpu', r) -> exists j, (j <= fuel)%nat /\ cpu' = iter j cpu.
Proof.
  induction fuel as [|fuel IH]; intros seen k cpu cpu' r H; [discriminate|]. cbn [Run_loop] in H.
  destruct (seen k).
  - inversion H; subst. exists 0%nat. split; [lia|reflexivity].
  - rewrite Run_iter_spec in H. destruct (stops (Step cpu)).
    + inversion H; subst. exists 1%nat. split; [lia|reflexivity].
    + apply IH in H. destruct H as (j & Hj & ->). exists (S j). split; [lia|reflexivity].
Qed.
Theorem Run_whole_steps fuel seen cpu cpu' r :
  Run fuel seen cpu = Some (cpu', r) -> exists j, (j <= fuel)%nat /\ cpu' = iter j (Run_enter cpu).
Proof. apply Run_loop_whole_steps. Qed.
(* once the flag is visible at the head of iteration k (and the program has not stopped before), Run returns the
   context's error having executed exactly k Steps: at most the one Step that was under way when the flag was set *)
Lemma Run_loop_cancel n : forall fuel seen k cpu, (n < fuel)%nat ->
  (forall j, (j < n)%nat -> seen (k + j)%nat = false) -> seen (k + n)%nat = true ->
  (forall j, (1 <= j <= n)%nat -> stops (iter j cpu) = false) ->
  Run_loop fuel seen k cpu = Some (iter n cpu, RunCtxErr).
Proof.
  induction n as [|n IH]; intros fuel seen k cpu Hf Hns Hs Hno.
  - destruct fuel as [|fuel]; [lia|]. cbn [Run_loop]. rewrite Nat.add_0_r in Hs. rewrite Hs. reflexivity.
  - destruct fuel as [|fuel]; [lia|]. cbn [Run_loop]. rewrite <- (Nat.add_0_r k) at 1. rewrite (Hns 0%nat) by lia.
    rewrite Run_iter_spec. assert (E : stops (Step cpu) = false) by (apply (Hno 1%nat); lia). rewrite E.
    change (iter (S n) cpu) with (iter n (Step cpu)). apply IH; [lia| | |].
    + intros j Hj. replace (S k + j)%nat with (k + S j)%nat by lia. apply Hns. lia.
    + replace (S k + n)%nat with (k + S n)%nat by lia. exact Hs.
    + intros j Hj. change (iter j (Step cpu)) with (iter (S j) cpu). apply Hno. lia.
Qed.
Theorem Run_cancel n fuel seen cpu : (n < fuel)%nat ->
  (forall j, (j < n)%nat -> seen j = false) -> seen n = true ->
  (forall j, (1 <= j <= n)%nat -> stops (iter j (Run_enter cpu)) = false) ->
  Run fuel seen cpu = Some (iter n (Run_enter cpu), RunCtxErr).
Proof. intros Hf Hns Hs Hno. unfold Run. apply (Run_loop_cancel n fuel seen 0%nat); assumption. Qed.

(* ---- the hand-off between Run and its watcher goroutine (hand-written two-thread model of the prologue:
        go func(){ <-ctx2.Done(); ctxErr = ctx.Err(); atomic.StoreInt32(&canceled,1) }() ... defer cancel());
        interleavings are sequentially consistent steps of the two threads and of the parent context ---- *)
Inductive mret := Running | RetErr (v : option (option nat)) | RetOther.
Record hstate := mk_h {
  ctx_err : option nat;       (* the parent context's Err(): None while live, Some e once cancelled / expired *)
  done2 : bool;               (* ctx2.Done() closed: parent cancelled, or cancel() run by the deferred call *)
  wpc : nat;                  (* watcher: 0 waiting on Done, 1 woke, 2 has written ctxErr, 3 has stored the flag and exited *)
  ctxErr_var : option (option nat);  (* the shared variable ctxErr: None = never written, Some v = holds v *)
  flag : bool;                (* the atomic int32 canceled *)
  mainr : mret                (* Running, or how Run returned (RetErr v: it returned the value v read from ctxErr) *)
}.
Inductive hstep : hstate -> hstate -> Prop :=
| h_parent_cancel s e : ctx_err s = None ->
    hstep s (mk_h (Some e) true (wpc s) (ctxErr_var s) (flag s) (mainr s))
| h_w_wake s : wpc s = 0%nat -> done2 s = true -> hstep s (mk_h (ctx_err s) (done2 s) 1 (ctxErr_var s) (flag s) (mainr s))
| h_w_write s : wpc s = 1%nat -> hstep s (mk_h (ctx_err s) (done2 s) 2 (Some (ctx_err s)) (flag s) (mainr s))
| h_w_store s : wpc s = 2%nat -> hstep s (mk_h (ctx_err s) (done2 s) 3 (ctxErr_var s) true (mainr s))
| h_m_see s : mainr s = Running -> flag s = true ->
    hstep s (mk_h (ctx_err s) true (wpc s) (ctxErr_var s) (flag s) (RetErr (ctxErr_var s)))   (* return ctxErr; deferred cancel() *)
| h_m_other s : mainr s = Running ->
    hstep s (mk_h (ctx_err s) true (wpc s) (ctxErr_var s) (flag s) RetOther).                 (* break point / HALT; deferred cancel() *)
Definition h_init : hstate := mk_h None false 0 None false Running.
Inductive hreach : hstate -> Prop :=
| hr0 : hreach h_init
| hrS s s' : hreach s -> hstep s s' -> hreach s'.
Definition h_inv (s : hstate) : Prop :=
  (flag s = true -> wpc s = 3%nat) /\
  ((2 <= wpc s)%nat -> ctxErr_var s <> None) /\
  (mainr s <> Running -> done2 s = true) /\
  ((1 <= wpc s)%nat -> done2 s = true) /\ (wpc s <= 3)%nat /\
  (* while Run is in its loop the watcher can only have been woken by the parent context *)
  (mainr s = Running -> done2 s = true -> ctx_err s <> None) /\
  (mainr s = Running -> (2 <= wpc s)%nat -> exists e, ctxErr_var s = Some (Some e)) /\
  (forall v, mainr s = RetErr v -> exists e, v = Some (Some e)).
Lemma h_inv_reach s : hreach s -> h_inv s.
Proof.
  induction 1 as [|s s' Hr IH Hs].
  - unfold h_inv, h_init; cbn. repeat split; intros; try lia; try discriminate; try congruence.
  - destruct IH as (I1 & I2 & I3 & I4 & I5 & I6 & I7 & I8).
    destruct Hs; unfold h_inv; cbn in *; repeat split; intros; try lia; try congruence; auto.
    + apply I1 in H1. lia.
    + apply I1 in H0. lia.
    + apply I4. lia.
    + assert (D : done2 s = true) by (apply I4; lia).
      assert (X : ctx_err s <> None) by auto. destruct (ctx_err s) as [n|]; [|congruence]. exists n. reflexivity.
    + apply I2. lia.
    + apply I4. lia.
    + apply I7; [assumption|lia].
    + inversion H1; subst. apply I7; [assumption|]. apply I1 in H0. lia.
Qed.
(* Run returns the context's error only after the watcher has written it, and what it returns is a non-nil error
   of the parent context *)
Theorem handoff_returns_context_error s v : hreach s -> mainr s = RetErr v -> exists e, v = Some (Some e).
Proof. intros Hr Hm. pose proof (h_inv_reach _ Hr) as (_ & _ & _ & _ & _ & _ & _ & I8). apply I8, Hm. Qed.
(* however Run returns, the watcher can always run to completion: its exit is enabled and nothing disables it *)
Definition w_measure (s : hstate) : nat := (3 - wpc s)%nat.
Theorem watcher_can_exit s : hreach s -> mainr s <> Running -> (wpc s < 3)%nat ->
  exists s', hstep s s' /\ (w_measure s' < w_measure s)%nat /\ mainr s' = mainr s.
Proof.
  intros Hr Hm Hw. pose proof (h_inv_reach _ Hr) as (_ & _ & I3 & _).
  assert (D : done2 s = true) by (apply I3, Hm).
  destruct (wpc s) as [|[|[|n]]] eqn:E; try lia.
  - eexists. split; [apply h_w_wake; assumption|]. unfold w_measure; cbn. rewrite E. split; [lia|reflexivity].
  - eexists. split; [apply h_w_write; assumption|]. unfold w_measure; cbn. rewrite E. split; [lia|reflexivity].
  - eexists. split; [apply h_w_store; assumption|]. unfold w_measure; cbn. rewrite E. split; [lia|reflexivity].
Qed.
