(* Proofs/Block.v -- LDIR / LDDR as a WHOLE operation: any number of repetitions, by induction.
   Running the specification's step from a state whose PC is on an LDIR (ED B0) or LDDR (ED B8) performs, Step by
   Step, the sequential byte-by-byte copy (overlapping ranges included), counts BC down to 0 -- 65,536 elements when
   BC starts at 0 --, stays on the instruction while elements remain, and ends with PC behind the instruction. *)
From Z80V Require Export Proofs.SpecFacts Proofs.Frame.
From Coq Require Import Lia.

Lemma dm_ed : decode_main 237 = PREFIX_ED. Proof. vm_compute. reflexivity. Qed.
Lemma de_ldir : decode_ed 176 = BLOCK BLD false true. Proof. vm_compute. reflexivity. Qed.
Lemma de_lddr : decode_ed 184 = BLOCK BLD true true. Proof. vm_compute. reflexivity. Qed.

Section LDxR.
Variable u : Unspec.
Variable dec : bool.
Definition bstep (w : Z) : Z := if dec then u16 (w - 1) else u16 (w + 1).
Definition op2 : Z := if dec then 184 else 176.
Fixpoint biter (n : nat) (w : Z) : Z := match n with O => w | S k => biter k (bstep w) end.
(* the sequential copy: n elements, each read after the previous write *)
Fixpoint copy (n : nat) (ram : Z -> Z) (hl de : Z) : Z -> Z :=
  match n with O => ram | S k => copy k (upd ram de (u8 (ram hl))) (bstep hl) (bstep de) end.

Definition on_ldxr (cpu : CPU) : Prop :=
  g_Memory cpu = UserMem /\ g_Interrupt cpu = None /\
  u8 (ram (g_W cpu) (g_PC cpu)) = 237 /\ u8 (ram (g_W cpu) (inc16 (g_PC cpu))) = op2.

Lemma step_at_ldxr cpu : on_ldxr cpu ->
  spec_step u cpu = exec u MHL (BLOCK BLD dec true) (fst (fetch_m1 (fst (fetch_m1 cpu)))).
Proof.
  intros (Hm & Hi & H0 & H1). unfold op2 in H1. open_cpu cpu.
  cbv_struct_in Hm. cbv_struct_in Hi. cbv_struct_in H0. cbv_struct_in H1. subst.
  unfold spec_step, step_instr. cbv_struct.
  cbv beta iota zeta delta [fetch_m1 fetch8 rd mem_get wget w_log]. cbv_struct. unfold inc16 in *.
  rewrite H0. rewrite dm_ed. cbv_struct. rewrite H1. destruct dec; [rewrite de_lddr | rewrite de_ldir]; reflexivity.
Qed.
Lemma fetch2_facts cpu : g_Memory cpu = UserMem ->
  let c2 := fst (fetch_m1 (fst (fetch_m1 cpu))) in
  g_GPR c2 = g_GPR cpu /\ ram (g_W c2) = ram (g_W cpu) /\ g_PC c2 = u16 (g_PC cpu + 2) /\
  g_Memory c2 = UserMem /\ g_Interrupt c2 = g_Interrupt cpu.
Proof.
  intros Hm. open_cpu cpu. cbv_struct_in Hm. subst.
  cbv beta iota zeta delta [fetch_m1 fetch8 rd mem_get wget w_log inc16]. cbv_struct.
  rewrite u16_add_u16_l. replace (pc + 1 + 1) with (pc + 2) by lia. repeat split.
Qed.
Lemma block_step_env k cpu : g_Memory (block_step u k dec cpu) = g_Memory cpu /\ g_Interrupt (block_step u k dec cpu) = g_Interrupt cpu.
Proof.
  change (block_step u k dec cpu) with (exec u MHL (BLOCK k dec false) cpu).
  pose proof (exec_keeps_env u MHL (BLOCK k dec false) cpu) as H. cbv zeta in H. tauto.
Qed.

(* one Step at the instruction *)
Lemma ldxr_one cpu : is16 (g_PC cpu) -> on_ldxr cpu ->
  let hl := regw (g_HL cpu) in let de := regw (g_DE cpu) in let bc := regw (g_BC cpu) in
  let cpu' := spec_step u cpu in
  regw (g_HL cpu') = bstep hl /\ regw (g_DE cpu') = bstep de /\ regw (g_BC cpu') = u16 (bc - 1) /\
  ram (g_W cpu') = upd (ram (g_W cpu)) de (u8 (ram (g_W cpu) hl)) /\
  g_PC cpu' = (if u16 (bc - 1) =? 0 then u16 (g_PC cpu + 2) else g_PC cpu) /\
  g_Memory cpu' = UserMem /\ g_Interrupt cpu' = None.
Proof.
  intros Hpc Hon. cbv zeta. rewrite (step_at_ldxr cpu Hon). destruct Hon as (Hm & Hi & _ & _).
  destruct (fetch2_facts cpu Hm) as (Eg & Er & Ep & Em & Ei). set (c2 := fst (fetch_m1 (fst (fetch_m1 cpu)))) in *.
  change (exec u MHL (BLOCK BLD dec true) c2)
    with (let c3 := block_step u BLD dec c2 in if true && block_again BLD c3 then rewind2 c3 else c3).
  cbv zeta. destruct (ld_element u dec c2 Em) as (E1 & E2 & E3 & E4 & E5 & _).
  destruct (block_step_env BLD c2) as [Em3 Ei3].
  set (c3 := block_step u BLD dec c2) in *.
  assert (Ehl : g_HL c2 = g_HL cpu) by (change (g_HL c2) with (GPR_HL (g_GPR c2)); rewrite Eg; reflexivity).
  assert (Ede : g_DE c2 = g_DE cpu) by (change (g_DE c2) with (GPR_DE (g_GPR c2)); rewrite Eg; reflexivity).
  assert (Ebc : g_BC c2 = g_BC cpu) by (change (g_BC c2) with (GPR_BC (g_GPR c2)); rewrite Eg; reflexivity).
  rewrite Ehl, Ede, Ebc, Er in *.
  assert (Rhl : regw (g_HL c3) = bstep (regw (g_HL cpu))).
  { rewrite E1. apply regw_wreg. unfold bstep. destruct dec; apply is16_u16. }
  assert (Rde : regw (g_DE c3) = bstep (regw (g_DE cpu))).
  { rewrite E2. apply regw_wreg. unfold bstep. destruct dec; apply is16_u16. }
  assert (Rbc : regw (g_BC c3) = u16 (regw (g_BC cpu) - 1)).
  { rewrite E3. apply regw_wreg. apply is16_u16. }
  cbn [andb]. unfold block_again. rewrite Rbc.
  destruct (u16 (regw (g_BC cpu) - 1) =? 0) eqn:Ez; cbn [negb].
  - repeat split; try assumption; try congruence.
  - unfold rewind2.
    change (g_HL (s_PC c3 ?v)) with (g_HL c3). change (g_DE (s_PC c3 ?v)) with (g_DE c3).
    change (g_BC (s_PC c3 ?v)) with (g_BC c3). change (g_W (s_PC c3 ?v)) with (g_W c3).
    change (g_Memory (s_PC c3 ?v)) with (g_Memory c3). change (g_Interrupt (s_PC c3 ?v)) with (g_Interrupt c3).
    change (g_PC (s_PC c3 ?v)) with v.
    repeat split; try assumption; try congruence.
    rewrite E5, Ep. rewrite u16_sub_u16_l. replace (g_PC cpu + 2 - 2) with (g_PC cpu) by lia. apply u16_id, Hpc.
Qed.

Lemma upd_other (f : Z -> Z) a v x : x <> a -> upd f a v x = f x.
Proof. intros H. unfold upd. destruct (Z.eqb_spec x a); [contradiction | reflexivity]. Qed.

(* the whole operation.  n = the number of elements: BC, or 65,536 when BC = 0.  The copy must not overwrite the two
   bytes of the instruction itself (otherwise the program has changed and the next Step decodes something else). *)
Theorem ldxr_run : forall (n : nat) cpu, WF cpu -> on_ldxr cpu ->
  1 <= Z.of_nat n <= 65536 -> regw (g_BC cpu) = u16 (Z.of_nat n) ->
  (forall j, (j < n)%nat -> biter j (regw (g_DE cpu)) <> g_PC cpu /\ biter j (regw (g_DE cpu)) <> inc16 (g_PC cpu)) ->
  let cpu' := spec_iter u n cpu in
  regw (g_HL cpu') = biter n (regw (g_HL cpu)) /\ regw (g_DE cpu') = biter n (regw (g_DE cpu)) /\
  regw (g_BC cpu') = 0 /\
  ram (g_W cpu') = copy n (ram (g_W cpu)) (regw (g_HL cpu)) (regw (g_DE cpu)) /\
  g_PC cpu' = u16 (g_PC cpu + 2) /\
  (forall k, (k < n)%nat -> g_PC (spec_iter u k cpu) = g_PC cpu).
Proof.
  induction n as [|m IH]; intros cpu Hwf Hon Hn Hbc Hdst; [lia|].
  assert (Hpc : is16 (g_PC cpu)) by (pose proof Hwf as H'; wf_open H'; assumption).
  destruct (ldxr_one cpu Hpc Hon) as (S1 & S2 & S3 & S4 & S5 & S6 & S7).
  cbv zeta. cbn [spec_iter]. set (cpu1 := spec_step u cpu) in *.
  destruct m as [|m'].
  - (* the last element *)
    assert (Ez : u16 (regw (g_BC cpu) - 1) = 0) by (rewrite Hbc; reflexivity).
    rewrite Ez in S3, S5. change (0 =? 0) with true in S5. cbv iota in S5.
    cbn [spec_iter biter copy].
    repeat split; try assumption.
    intros k Hk. assert (k = 0)%nat by lia. subst k. reflexivity.
  - assert (Ez : u16 (regw (g_BC cpu) - 1) = Z.of_nat (S m')).
    { rewrite Hbc, u16_sub_u16_l. replace (Z.of_nat (S (S m')) - 1) with (Z.of_nat (S m')) by lia. apply u16_id. lia. }
    rewrite Ez in S3, S5.
    destruct (Z.eqb_spec (Z.of_nat (S m')) 0) as [Hbad|_]; [lia|].
    assert (Hbc1 : regw (g_BC cpu1) = u16 (Z.of_nat (S m'))) by (rewrite S3; symmetry; apply u16_id; lia).
    destruct (Hdst 0%nat ltac:(lia)) as [D0 D1]. cbn [biter] in D0, D1.
    assert (Hon1 : on_ldxr cpu1).
    { destruct Hon as (_ & _ & H0 & H1). unfold on_ldxr. rewrite S4, S5.
      repeat split; try assumption; rewrite upd_other by congruence; assumption. }
    assert (Hwf1 : WF cpu1) by (apply spec_step_wf, Hwf).
    specialize (IH cpu1 Hwf1 Hon1 ltac:(lia) Hbc1).
    assert (Hdst1 : forall j, (j < S m')%nat ->
              biter j (regw (g_DE cpu1)) <> g_PC cpu1 /\ biter j (regw (g_DE cpu1)) <> inc16 (g_PC cpu1)).
    { intros j Hj. rewrite S2, S5. change (biter j (bstep (regw (g_DE cpu)))) with (biter (S j) (regw (g_DE cpu))). apply Hdst. lia. }
    specialize (IH Hdst1). cbv zeta in IH. destruct IH as (I1 & I2 & I3 & I4 & I5 & I6).
    rewrite S1 in I1. rewrite S2 in I2. rewrite S4, S1, S2 in I4. rewrite S5 in I5.
    cbn [biter copy].
    repeat split; try assumption.
    intros k Hk. destruct k as [|k']; [reflexivity|]. cbn [spec_iter]. fold cpu1. rewrite I6 by lia. exact S5.
Qed.

(* closed form of the pointers *)
Lemma biter_closed n : forall w, is16 w -> biter n w = if dec then u16 (w - Z.of_nat n) else u16 (w + Z.of_nat n).
Proof.
  induction n as [|n IH]; intros w Hw.
  - cbn [biter]. change (Z.of_nat 0) with 0. rewrite Z.sub_0_r, Z.add_0_r. destruct dec; symmetry; apply u16_id, Hw.
  - cbn [biter]. rewrite IH by (unfold bstep; destruct dec; apply is16_u16). unfold bstep. destruct dec.
    + rewrite u16_sub_u16_l. f_equal. lia.
    + rewrite u16_add_u16_l. f_equal. lia.
Qed.
End LDxR.

(* ================================================================== CPIR / CPDR as a whole operation ========
   The search runs until the counter is exhausted or a byte equal to A is found.  m = the number of elements examined. *)
Lemma de_cpir : decode_ed 177 = BLOCK BCP false true. Proof. vm_compute. reflexivity. Qed.
Lemma de_cpdr : decode_ed 185 = BLOCK BCP true true. Proof. vm_compute. reflexivity. Qed.
Lemma cpx_norm a v bc f : cpx_flags a v bc f = cpx_flags a v (if bc =? 0 then 0 else 1) (Z.land f 1).
Proof. unfold cpx_flags, FC. rewrite <- Z.land_assoc. change (Z.land 1 1) with 1. destruct (bc =? 0); reflexivity. Qed.
Lemma cpx_z a v bc f : is8 a -> is8 v -> Z.testbit (cpx_flags a v bc f) 6 = (a =? v).
Proof.
  intros Ha Hv. rewrite cpx_norm.
  assert (Hc : Z.land f 1 = 0 \/ Z.land f 1 = 1) by (pose proof (is1_land1 f) as H1; unfold is1 in H1; lia).
  destruct (bc =? 0), Hc as [-> | ->]; apply Bool.eqb_prop;
  [ exact (forall_byte2 (fun a v => Bool.eqb (Z.testbit (cpx_flags a v 0 0) 6) (a =? v)) ltac:(vm_compute; reflexivity) a v Ha Hv)
  | exact (forall_byte2 (fun a v => Bool.eqb (Z.testbit (cpx_flags a v 0 1) 6) (a =? v)) ltac:(vm_compute; reflexivity) a v Ha Hv)
  | exact (forall_byte2 (fun a v => Bool.eqb (Z.testbit (cpx_flags a v 1 0) 6) (a =? v)) ltac:(vm_compute; reflexivity) a v Ha Hv)
  | exact (forall_byte2 (fun a v => Bool.eqb (Z.testbit (cpx_flags a v 1 1) 6) (a =? v)) ltac:(vm_compute; reflexivity) a v Ha Hv) ].
Qed.

Section CPxR.
Variable u : Unspec.
Variable dec : bool.
Definition op2c : Z := if dec then 185 else 177.
Definition on_cpxr (cpu : CPU) : Prop :=
  g_Memory cpu = UserMem /\ g_Interrupt cpu = None /\
  u8 (ram (g_W cpu) (g_PC cpu)) = 237 /\ u8 (ram (g_W cpu) (inc16 (g_PC cpu))) = op2c.

Lemma step_at_cpxr cpu : on_cpxr cpu ->
  spec_step u cpu = exec u MHL (BLOCK BCP dec true) (fst (fetch_m1 (fst (fetch_m1 cpu)))).
Proof.
  intros (Hm & Hi & H0 & H1). unfold op2c in H1. open_cpu cpu.
  cbv_struct_in Hm. cbv_struct_in Hi. cbv_struct_in H0. cbv_struct_in H1. subst.
  unfold spec_step, step_instr. cbv_struct.
  cbv beta iota zeta delta [fetch_m1 fetch8 rd mem_get wget w_log]. cbv_struct. unfold inc16 in *.
  rewrite H0. rewrite dm_ed. cbv_struct. rewrite H1. destruct dec; [rewrite de_cpdr | rewrite de_cpir]; reflexivity.
Qed.

(* one Step at the instruction: one byte compared *)
Lemma cpxr_one cpu : is16 (g_PC cpu) -> is8 (get_A cpu) -> on_cpxr cpu ->
  let hl := regw (g_HL cpu) in let bc := regw (g_BC cpu) in let v := u8 (ram (g_W cpu) hl) in
  let cpu' := spec_step u cpu in
  regw (g_HL cpu') = bstep dec hl /\ regw (g_BC cpu') = u16 (bc - 1) /\ ram (g_W cpu') = ram (g_W cpu) /\
  get_A cpu' = get_A cpu /\ Z.testbit (get_F cpu') 6 = (get_A cpu =? v) /\
  g_PC cpu' = (if (u16 (bc - 1) =? 0) || (get_A cpu =? v) then u16 (g_PC cpu + 2) else g_PC cpu) /\
  g_Memory cpu' = UserMem /\ g_Interrupt cpu' = None.
Proof.
  intros Hpc Ha Hon. cbv zeta. rewrite (step_at_cpxr cpu Hon). destruct Hon as (Hm & Hi & _ & _).
  destruct (fetch2_facts cpu Hm) as (Eg & Er & Ep & Em & Ei). set (c2 := fst (fetch_m1 (fst (fetch_m1 cpu)))) in *.
  change (exec u MHL (BLOCK BCP dec true) c2)
    with (let c3 := block_step u BCP dec c2 in if true && block_again BCP c3 then rewind2 c3 else c3).
  cbv zeta. destruct (cp_element u dec c2 Em) as (E1 & E3 & E4 & EA & EF).
  destruct (block_step_env u dec BCP c2) as [Em3 Ei3].
  pose proof (block_step_pc u BCP dec c2) as E5.
  set (c3 := block_step u BCP dec c2) in *.
  assert (Ehl : g_HL c2 = g_HL cpu) by (change (g_HL c2) with (GPR_HL (g_GPR c2)); rewrite Eg; reflexivity).
  assert (Ebc : g_BC c2 = g_BC cpu) by (change (g_BC c2) with (GPR_BC (g_GPR c2)); rewrite Eg; reflexivity).
  assert (Eaf : get_A c2 = get_A cpu) by (change (get_A c2) with (Register_Hi (GPR_AF (g_GPR c2))); rewrite Eg; reflexivity).
  rewrite Ehl, Ebc, Er, Eaf in *.
  assert (Rhl : regw (g_HL c3) = bstep dec (regw (g_HL cpu))).
  { rewrite E1. apply regw_wreg. unfold bstep. destruct dec; apply is16_u16. }
  assert (Rbc : regw (g_BC c3) = u16 (regw (g_BC cpu) - 1)).
  { rewrite E3. apply regw_wreg. apply is16_u16. }
  assert (Zf : Z.testbit (get_F c3) 6 = (get_A cpu =? u8 (ram (g_W cpu) (regw (g_HL cpu))))).
  { rewrite EF. apply cpx_z; [exact Ha | apply is8_u8]. }
  cbn [andb]. unfold block_again. rewrite Rbc, Zf.
  destruct (u16 (regw (g_BC cpu) - 1) =? 0) eqn:Ez; cbn [negb andb orb].
  - repeat split; try assumption; try congruence.
  - destruct (get_A cpu =? u8 (ram (g_W cpu) (regw (g_HL cpu)))) eqn:Em'; cbn [negb].
    + repeat split; try assumption; try congruence.
    + unfold rewind2.
      change (g_HL (s_PC c3 ?v)) with (g_HL c3). change (g_BC (s_PC c3 ?v)) with (g_BC c3). change (g_W (s_PC c3 ?v)) with (g_W c3).
      change (get_A (s_PC c3 ?v)) with (get_A c3). change (get_F (s_PC c3 ?v)) with (get_F c3).
      change (g_Memory (s_PC c3 ?v)) with (g_Memory c3). change (g_Interrupt (s_PC c3 ?v)) with (g_Interrupt c3).
      change (g_PC (s_PC c3 ?v)) with v.
      repeat split; try assumption; try congruence.
      rewrite E5, Ep. rewrite u16_sub_u16_l. replace (g_PC cpu + 2 - 2) with (g_PC cpu) by lia. apply u16_id, Hpc.
Qed.

(* the whole search.  n = BC (65,536 for 0); m = the number of elements examined: the first m-1 differ from A, and either
   the m-th equals A or the counter is exhausted (m = n).  Memory is not written. *)
Theorem cpxr_run : forall (m : nat) (n : Z) cpu, WF cpu -> on_cpxr cpu ->
  1 <= Z.of_nat m <= n -> n <= 65536 -> regw (g_BC cpu) = u16 n ->
  (forall j, (S j < m)%nat -> u8 (ram (g_W cpu) (biter dec j (regw (g_HL cpu)))) <> get_A cpu) ->
  (Z.of_nat m = n \/ u8 (ram (g_W cpu) (biter dec (pred m) (regw (g_HL cpu)))) = get_A cpu) ->
  let cpu' := spec_iter u m cpu in
  regw (g_HL cpu') = biter dec m (regw (g_HL cpu)) /\ regw (g_BC cpu') = u16 (n - Z.of_nat m) /\
  ram (g_W cpu') = ram (g_W cpu) /\ get_A cpu' = get_A cpu /\
  Z.testbit (get_F cpu') 6 = (get_A cpu =? u8 (ram (g_W cpu) (biter dec (pred m) (regw (g_HL cpu))))) /\
  g_PC cpu' = u16 (g_PC cpu + 2) /\
  (forall k, (k < m)%nat -> g_PC (spec_iter u k cpu) = g_PC cpu).
Proof.
  induction m as [|m IH]; intros n cpu Hwf Hon Hm Hn Hbc Hne Hlast; [lia|].
  assert (Hpc : is16 (g_PC cpu)) by (pose proof Hwf as H'; wf_open H'; assumption).
  assert (Ha : is8 (get_A cpu)) by (pose proof Hwf as H'; open_cpu cpu; wf_open H'; assumption).
  destruct (cpxr_one cpu Hpc Ha Hon) as (S1 & S3 & S4 & SA & SZ & S5 & S6 & S7).
  cbv zeta. cbn [spec_iter]. set (cpu1 := spec_step u cpu) in *.
  assert (Ebc : u16 (regw (g_BC cpu) - 1) = u16 (n - 1)) by (rewrite Hbc, u16_sub_u16_l; reflexivity).
  rewrite Ebc in S3, S5.
  destruct m as [|m'].
  - (* the last element examined *)
    cbn [spec_iter biter pred] in *.
    assert (Estop : (u16 (n - 1) =? 0) || (get_A cpu =? u8 (ram (g_W cpu) (regw (g_HL cpu)))) = true).
    { destruct Hlast as [Hl|Hl].
      - assert (n = 1) by lia. subst n. reflexivity.
      - rewrite Hl, Z.eqb_refl. apply orb_true_r. }
    rewrite Estop in S5. replace (n - Z.of_nat 1) with (n - 1) by lia.
    repeat split; try assumption.
    intros k Hk. assert (k = 0)%nat by lia. subst k. reflexivity.
  - (* more to examine: this byte differs and the counter is not exhausted *)
    assert (Hd : get_A cpu =? u8 (ram (g_W cpu) (regw (g_HL cpu))) = false).
    { apply Z.eqb_neq. intro E. apply (Hne 0%nat ltac:(lia)). cbn [biter]. congruence. }
    assert (Hnz : u16 (n - 1) =? 0 = false).
    { apply Z.eqb_neq. rewrite u16_id by lia. lia. }
    rewrite Hd, Hnz in S5. cbn [orb] in S5.
    assert (Hon1 : on_cpxr cpu1).
    { destruct Hon as (_ & _ & H0 & H1). unfold on_cpxr. rewrite S4, S5. repeat split; assumption. }
    assert (Hwf1 : WF cpu1) by (apply spec_step_wf, Hwf).
    specialize (IH (n - 1) cpu1 Hwf1 Hon1 ltac:(lia) ltac:(lia) S3).
    rewrite S1, S4, SA in IH.
    assert (Hne1 : forall j, (S j < S m')%nat -> u8 (ram (g_W cpu) (biter dec j (bstep dec (regw (g_HL cpu))))) <> get_A cpu).
    { intros j Hj. change (biter dec j (bstep dec (regw (g_HL cpu)))) with (biter dec (S j) (regw (g_HL cpu))). apply Hne. lia. }
    assert (Hlast1 : Z.of_nat (S m') = n - 1 \/ u8 (ram (g_W cpu) (biter dec (pred (S m')) (bstep dec (regw (g_HL cpu))))) = get_A cpu).
    { destruct Hlast as [Hl|Hl]; [left; lia | right]. cbn [pred] in *.
      change (biter dec m' (bstep dec (regw (g_HL cpu)))) with (biter dec (S m') (regw (g_HL cpu))). exact Hl. }
    specialize (IH Hne1 Hlast1). cbv zeta in IH. destruct IH as (I1 & I3 & I4 & IA & IZ & I5 & I6).
    rewrite S5 in I5. cbn [pred] in IZ.
    change (biter dec m' (bstep dec (regw (g_HL cpu)))) with (biter dec (S m') (regw (g_HL cpu))) in IZ.
    change (biter dec (S m') (bstep dec (regw (g_HL cpu)))) with (biter dec (S (S m')) (regw (g_HL cpu))) in I1.
    cbn [pred]. replace (n - Z.of_nat (S (S m'))) with (n - 1 - Z.of_nat (S m')) by lia.
    repeat split; try assumption.
    intros k Hk. destruct k as [|k']; [reflexivity|]. cbn [spec_iter]. fold cpu1. rewrite I6 by lia. exact S5.
Qed.
End CPxR.

(* ================================================================== OTIR / OTDR and INIR / INDR as whole operations ========
   The counter is B alone (256 elements for B = 0); the port is C. *)
Lemma de_otir : decode_ed 179 = BLOCK BOUT false true. Proof. vm_compute. reflexivity. Qed.
Lemma de_otdr : decode_ed 187 = BLOCK BOUT true true. Proof. vm_compute. reflexivity. Qed.
Lemma de_inir : decode_ed 178 = BLOCK BIN false true. Proof. vm_compute. reflexivity. Qed.
Lemma de_indr : decode_ed 186 = BLOCK BIN true true. Proof. vm_compute. reflexivity. Qed.
(* port writes recorded in a trace, newest first *)
Fixpoint couts (tr : list event) : list (Z * Z) :=
  match tr with [] => [] | EvOut p v :: t => (p, v) :: couts t | _ :: t => couts t end.

Section IOxR.
Variable u : Unspec.
Variable dec : bool.
Definition on_ioxr (o2 : Z) (cpu : CPU) : Prop :=
  g_Memory cpu = UserMem /\ g_Interrupt cpu = None /\ g_IO cpu = true /\
  u8 (ram (g_W cpu) (g_PC cpu)) = 237 /\ u8 (ram (g_W cpu) (inc16 (g_PC cpu))) = o2.
Definition op2o : Z := if dec then 187 else 179.
Definition op2i : Z := if dec then 186 else 178.

Lemma step_at_ioxr (k : blk) o2 cpu : (k = BOUT /\ o2 = op2o) \/ (k = BIN /\ o2 = op2i) -> on_ioxr o2 cpu ->
  spec_step u cpu = exec u MHL (BLOCK k dec true) (fst (fetch_m1 (fst (fetch_m1 cpu)))).
Proof.
  intros Hk (Hm & Hi & _ & H0 & H1). open_cpu cpu.
  cbv_struct_in Hm. cbv_struct_in Hi. cbv_struct_in H0. cbv_struct_in H1. subst mem irq.
  unfold spec_step, step_instr. cbv_struct.
  cbv beta iota zeta delta [fetch_m1 fetch8 rd mem_get wget w_log]. cbv_struct. unfold inc16 in *.
  rewrite H0. rewrite dm_ed. cbv_struct. rewrite H1.
  destruct Hk as [[-> ->]|[-> ->]]; unfold op2o, op2i; destruct dec;
    rewrite ?de_otdr, ?de_otir, ?de_indr, ?de_inir; reflexivity.
Qed.
Lemma fetch2_io cpu : g_IO (fst (fetch_m1 (fst (fetch_m1 cpu)))) = g_IO cpu /\
  inputs (g_W (fst (fetch_m1 (fst (fetch_m1 cpu))))) = inputs (g_W cpu) /\
  couts (trace (g_W (fst (fetch_m1 (fst (fetch_m1 cpu)))))) = couts (trace (g_W cpu)).
Proof.
  open_cpu cpu. cbv beta iota zeta delta [fetch_m1 fetch8 rd mem_get]. cbv_struct.
  destruct mem as [|d0].
  - cbv beta iota zeta delta [wget w_log]. cbv_struct. repeat split.
  - repeat split; cbv beta iota zeta delta [wget w_log]; cbv_struct;
      repeat match goal with |- context [if ?c then _ else _] => destruct c end; cbv_struct; reflexivity.
Qed.

(* one element of OUTI/OUTD, everything that matters *)
Lemma out_element cpu : g_IO cpu = true -> g_Memory cpu = UserMem ->
  let hl := regw (g_HL cpu) in let v := u8 (ram (g_W cpu) hl) in
  let cpu' := block_step u BOUT dec cpu in
  g_HL cpu' = wreg (bstep dec hl) /\ g_BC_Hi cpu' = u8 (g_BC_Hi cpu - 1) /\ g_BC_Lo cpu' = g_BC_Lo cpu /\
  ram (g_W cpu') = ram (g_W cpu) /\ couts (trace (g_W cpu')) = (g_BC_Lo cpu, v) :: couts (trace (g_W cpu)) /\
  inputs (g_W cpu') = inputs (g_W cpu) /\ g_PC cpu' = g_PC cpu /\ g_IO cpu' = true.
Proof.
  intros E Em. user_mem cpu E. cbv_struct_in Em. subst. unfold bstep. destruct dec; log_norm; cbn [couts]; repeat split.
Qed.

Lemma otxr_one cpu : is16 (g_PC cpu) -> on_ioxr op2o cpu ->
  let hl := regw (g_HL cpu) in let v := u8 (ram (g_W cpu) hl) in let b' := u8 (g_BC_Hi cpu - 1) in
  let cpu' := spec_step u cpu in
  regw (g_HL cpu') = bstep dec hl /\ g_BC_Hi cpu' = b' /\ g_BC_Lo cpu' = g_BC_Lo cpu /\
  ram (g_W cpu') = ram (g_W cpu) /\ couts (trace (g_W cpu')) = (g_BC_Lo cpu, v) :: couts (trace (g_W cpu)) /\
  g_PC cpu' = (if b' =? 0 then u16 (g_PC cpu + 2) else g_PC cpu) /\
  g_Memory cpu' = UserMem /\ g_Interrupt cpu' = None /\ g_IO cpu' = true.
Proof.
  intros Hpc Hon. cbv zeta. rewrite (step_at_ioxr BOUT op2o cpu (or_introl (conj eq_refl eq_refl)) Hon).
  destruct Hon as (Hm & Hi & Hio & _ & _).
  destruct (fetch2_facts cpu Hm) as (Eg & Er & Ep & Em & Ei). destruct (fetch2_io cpu) as (Eio & Einp & Eco).
  set (c2 := fst (fetch_m1 (fst (fetch_m1 cpu)))) in *.
  change (exec u MHL (BLOCK BOUT dec true) c2)
    with (let c3 := block_step u BOUT dec c2 in if true && block_again BOUT c3 then rewind2 c3 else c3).
  cbv zeta. destruct (out_element c2 ltac:(congruence) Em) as (E1 & E2 & E3 & E4 & E5 & _ & E7 & E8).
  destruct (block_step_env u dec BOUT c2) as [Em3 Ei3].
  set (c3 := block_step u BOUT dec c2) in *.
  assert (Ehl : g_HL c2 = g_HL cpu) by (change (g_HL c2) with (GPR_HL (g_GPR c2)); rewrite Eg; reflexivity).
  assert (Ebh : g_BC_Hi c2 = g_BC_Hi cpu) by (change (g_BC_Hi c2) with (Register_Hi (GPR_BC (g_GPR c2))); rewrite Eg; reflexivity).
  assert (Ebl : g_BC_Lo c2 = g_BC_Lo cpu) by (change (g_BC_Lo c2) with (Register_Lo (GPR_BC (g_GPR c2))); rewrite Eg; reflexivity).
  rewrite Ehl, Ebh, Ebl, Er, Eco in *.
  assert (Rhl : regw (g_HL c3) = bstep dec (regw (g_HL cpu))).
  { rewrite E1. apply regw_wreg. unfold bstep. destruct dec; apply is16_u16. }
  cbn [andb]. unfold block_again. rewrite E2.
  destruct (u8 (g_BC_Hi cpu - 1) =? 0) eqn:Ez; cbn [negb].
  - repeat split; try assumption; try congruence.
  - unfold rewind2.
    change (g_HL (s_PC c3 ?v)) with (g_HL c3). change (g_BC_Hi (s_PC c3 ?v)) with (g_BC_Hi c3). change (g_BC_Lo (s_PC c3 ?v)) with (g_BC_Lo c3).
    change (g_W (s_PC c3 ?v)) with (g_W c3). change (g_IO (s_PC c3 ?v)) with (g_IO c3).
    change (g_Memory (s_PC c3 ?v)) with (g_Memory c3). change (g_Interrupt (s_PC c3 ?v)) with (g_Interrupt c3).
    change (g_PC (s_PC c3 ?v)) with v.
    repeat split; try assumption; try congruence.
    rewrite E7, Ep. rewrite u16_sub_u16_l. replace (g_PC cpu + 2 - 2) with (g_PC cpu) by lia. apply u16_id, Hpc.
Qed.

(* the bytes sent, oldest first: the memory bytes at HL, HL+-1, ... *)
Fixpoint sent (n : nat) (r : Z -> Z) (hl : Z) : list Z :=
  match n with O => [] | S k => u8 (r hl) :: sent k r (bstep dec hl) end.
(* the whole operation: n = B (256 for 0) bytes of memory go to port C in order; B ends 0; memory is not written *)
Theorem otxr_run : forall (n : nat) cpu, WF cpu -> on_ioxr op2o cpu ->
  1 <= Z.of_nat n <= 256 -> g_BC_Hi cpu = u8 (Z.of_nat n) ->
  let cpu' := spec_iter u n cpu in
  regw (g_HL cpu') = biter dec n (regw (g_HL cpu)) /\ g_BC_Hi cpu' = 0 /\ g_BC_Lo cpu' = g_BC_Lo cpu /\
  ram (g_W cpu') = ram (g_W cpu) /\
  couts (trace (g_W cpu')) = rev (map (fun v => (g_BC_Lo cpu, v)) (sent n (ram (g_W cpu)) (regw (g_HL cpu)))) ++ couts (trace (g_W cpu)) /\
  g_PC cpu' = u16 (g_PC cpu + 2) /\
  (forall k, (k < n)%nat -> g_PC (spec_iter u k cpu) = g_PC cpu).
Proof.
  induction n as [|m IH]; intros cpu Hwf Hon Hn Hb; [lia|].
  assert (Hpc : is16 (g_PC cpu)) by (pose proof Hwf as H'; wf_open H'; assumption).
  destruct (otxr_one cpu Hpc Hon) as (S1 & S2 & S3 & S4 & S5 & S6 & S7 & S8 & S9).
  cbv zeta. cbn [spec_iter]. set (cpu1 := spec_step u cpu) in *.
  assert (Eb : u8 (g_BC_Hi cpu - 1) = u8 (Z.of_nat m)).
  { rewrite Hb, !u8_mod, Zminus_mod_idemp_l. f_equal. lia. }
  rewrite Eb in S2, S6.
  destruct m as [|m'].
  - change (u8 (Z.of_nat 0)) with 0 in *. change (0 =? 0) with true in S6. cbv iota in S6.
    cbn [spec_iter biter sent map rev app].
    repeat split; try assumption.
    intros k Hk. assert (k = 0)%nat by lia. subst k. reflexivity.
  - assert (Hnz : u8 (Z.of_nat (S m')) =? 0 = false) by (apply Z.eqb_neq; rewrite u8_id by lia; lia).
    rewrite Hnz in S6.
    assert (Hon1 : on_ioxr op2o cpu1).
    { destruct Hon as (_ & _ & _ & H0 & H1). unfold on_ioxr. rewrite S4, S6. repeat split; assumption. }
    assert (Hwf1 : WF cpu1) by (apply spec_step_wf, Hwf).
    specialize (IH cpu1 Hwf1 Hon1 ltac:(lia) S2). cbv zeta in IH. destruct IH as (I1 & I2 & I3 & I4 & I5 & I6 & I7).
    rewrite S1 in I1. rewrite S3 in I3, I5. rewrite S4 in I4, I5. rewrite S1, S5 in I5. rewrite S6 in I6.
    cbn [biter sent map rev].
    repeat split; try assumption; try congruence.
    + rewrite I5. rewrite <- app_assoc. reflexivity.
    + intros k Hk. destruct k as [|k']; [reflexivity|]. cbn [spec_iter]. fold cpu1. rewrite I7 by lia. exact S6.
Qed.

(* ---- INIR / INDR ---- *)
Lemma in_element cpu : g_IO cpu = true -> g_Memory cpu = UserMem ->
  let hl := regw (g_HL cpu) in let v := u8 (hd 0 (inputs (g_W cpu))) in
  let cpu' := block_step u BIN dec cpu in
  g_HL cpu' = wreg (bstep dec hl) /\ g_BC_Hi cpu' = u8 (g_BC_Hi cpu - 1) /\ g_BC_Lo cpu' = g_BC_Lo cpu /\
  ram (g_W cpu') = upd (ram (g_W cpu)) hl v /\ couts (trace (g_W cpu')) = couts (trace (g_W cpu)) /\
  inputs (g_W cpu') = tl (inputs (g_W cpu)) /\ g_PC cpu' = g_PC cpu /\ g_IO cpu' = true.
Proof.
  intros E Em. user_mem cpu E. cbv_struct_in Em. subst. unfold bstep. destruct dec; log_norm; cbn [couts]; repeat split.
Qed.
Lemma inxr_one cpu : is16 (g_PC cpu) -> on_ioxr op2i cpu ->
  let hl := regw (g_HL cpu) in let v := u8 (hd 0 (inputs (g_W cpu))) in let b' := u8 (g_BC_Hi cpu - 1) in
  let cpu' := spec_step u cpu in
  regw (g_HL cpu') = bstep dec hl /\ g_BC_Hi cpu' = b' /\ g_BC_Lo cpu' = g_BC_Lo cpu /\
  ram (g_W cpu') = upd (ram (g_W cpu)) hl v /\ inputs (g_W cpu') = tl (inputs (g_W cpu)) /\
  g_PC cpu' = (if b' =? 0 then u16 (g_PC cpu + 2) else g_PC cpu) /\
  g_Memory cpu' = UserMem /\ g_Interrupt cpu' = None /\ g_IO cpu' = true.
Proof.
  intros Hpc Hon. cbv zeta. rewrite (step_at_ioxr BIN op2i cpu (or_intror (conj eq_refl eq_refl)) Hon).
  destruct Hon as (Hm & Hi & Hio & _ & _).
  destruct (fetch2_facts cpu Hm) as (Eg & Er & Ep & Em & Ei). destruct (fetch2_io cpu) as (Eio & Einp & Eco).
  set (c2 := fst (fetch_m1 (fst (fetch_m1 cpu)))) in *.
  change (exec u MHL (BLOCK BIN dec true) c2)
    with (let c3 := block_step u BIN dec c2 in if true && block_again BIN c3 then rewind2 c3 else c3).
  cbv zeta. destruct (in_element c2 ltac:(congruence) Em) as (E1 & E2 & E3 & E4 & _ & E6 & E7 & E8).
  destruct (block_step_env u dec BIN c2) as [Em3 Ei3].
  set (c3 := block_step u BIN dec c2) in *.
  assert (Ehl : g_HL c2 = g_HL cpu) by (change (g_HL c2) with (GPR_HL (g_GPR c2)); rewrite Eg; reflexivity).
  assert (Ebh : g_BC_Hi c2 = g_BC_Hi cpu) by (change (g_BC_Hi c2) with (Register_Hi (GPR_BC (g_GPR c2))); rewrite Eg; reflexivity).
  assert (Ebl : g_BC_Lo c2 = g_BC_Lo cpu) by (change (g_BC_Lo c2) with (Register_Lo (GPR_BC (g_GPR c2))); rewrite Eg; reflexivity).
  rewrite Ehl, Ebh, Ebl, Er, Einp in *.
  assert (Rhl : regw (g_HL c3) = bstep dec (regw (g_HL cpu))).
  { rewrite E1. apply regw_wreg. unfold bstep. destruct dec; apply is16_u16. }
  cbn [andb]. unfold block_again. rewrite E2.
  destruct (u8 (g_BC_Hi cpu - 1) =? 0) eqn:Ez; cbn [negb].
  - repeat split; try assumption; try congruence.
  - unfold rewind2.
    change (g_HL (s_PC c3 ?v)) with (g_HL c3). change (g_BC_Hi (s_PC c3 ?v)) with (g_BC_Hi c3). change (g_BC_Lo (s_PC c3 ?v)) with (g_BC_Lo c3).
    change (g_W (s_PC c3 ?v)) with (g_W c3). change (g_IO (s_PC c3 ?v)) with (g_IO c3).
    change (g_Memory (s_PC c3 ?v)) with (g_Memory c3). change (g_Interrupt (s_PC c3 ?v)) with (g_Interrupt c3).
    change (g_PC (s_PC c3 ?v)) with v.
    repeat split; try assumption; try congruence.
    rewrite E7, Ep. rewrite u16_sub_u16_l. replace (g_PC cpu + 2 - 2) with (g_PC cpu) by lia. apply u16_id, Hpc.
Qed.
(* the bytes the device supplies go to memory at HL, HL+-1, ... one after the other *)
Fixpoint fill (n : nat) (r : Z -> Z) (hl : Z) (inp : list Z) : Z -> Z :=
  match n with O => r | S k => fill k (upd r hl (u8 (hd 0 inp))) (bstep dec hl) (tl inp) end.
Theorem inxr_run : forall (n : nat) cpu, WF cpu -> on_ioxr op2i cpu ->
  1 <= Z.of_nat n <= 256 -> g_BC_Hi cpu = u8 (Z.of_nat n) ->
  (forall j, (j < n)%nat -> biter dec j (regw (g_HL cpu)) <> g_PC cpu /\ biter dec j (regw (g_HL cpu)) <> inc16 (g_PC cpu)) ->
  let cpu' := spec_iter u n cpu in
  regw (g_HL cpu') = biter dec n (regw (g_HL cpu)) /\ g_BC_Hi cpu' = 0 /\ g_BC_Lo cpu' = g_BC_Lo cpu /\
  ram (g_W cpu') = fill n (ram (g_W cpu)) (regw (g_HL cpu)) (inputs (g_W cpu)) /\
  inputs (g_W cpu') = skipn n (inputs (g_W cpu)) /\
  g_PC cpu' = u16 (g_PC cpu + 2) /\
  (forall k, (k < n)%nat -> g_PC (spec_iter u k cpu) = g_PC cpu).
Proof.
  induction n as [|m IH]; intros cpu Hwf Hon Hn Hb Hdst; [lia|].
  assert (Hpc : is16 (g_PC cpu)) by (pose proof Hwf as H'; wf_open H'; assumption).
  destruct (inxr_one cpu Hpc Hon) as (S1 & S2 & S3 & S4 & S5 & S6 & S7 & S8 & S9).
  cbv zeta. cbn [spec_iter]. set (cpu1 := spec_step u cpu) in *.
  assert (Eb : u8 (g_BC_Hi cpu - 1) = u8 (Z.of_nat m)).
  { rewrite Hb, !u8_mod, Zminus_mod_idemp_l. f_equal. lia. }
  rewrite Eb in S2, S6.
  assert (Hsk : forall (l : list Z), skipn 1 l = tl l) by (intros [|x l]; reflexivity).
  destruct m as [|m'].
  - change (u8 (Z.of_nat 0)) with 0 in *. change (0 =? 0) with true in S6. cbv iota in S6.
    cbn [spec_iter biter fill]. rewrite Hsk.
    repeat split; try assumption.
    intros k Hk. assert (k = 0)%nat by lia. subst k. reflexivity.
  - assert (Hnz : u8 (Z.of_nat (S m')) =? 0 = false) by (apply Z.eqb_neq; rewrite u8_id by lia; lia).
    rewrite Hnz in S6.
    destruct (Hdst 0%nat ltac:(lia)) as [D0 D1]. cbn [biter] in D0, D1.
    assert (Hon1 : on_ioxr op2i cpu1).
    { destruct Hon as (_ & _ & _ & H0 & H1). unfold on_ioxr. rewrite S4, S6.
      repeat split; try assumption; rewrite upd_other by congruence; assumption. }
    assert (Hwf1 : WF cpu1) by (apply spec_step_wf, Hwf).
    specialize (IH cpu1 Hwf1 Hon1 ltac:(lia) S2).
    assert (Hdst1 : forall j, (j < S m')%nat ->
              biter dec j (regw (g_HL cpu1)) <> g_PC cpu1 /\ biter dec j (regw (g_HL cpu1)) <> inc16 (g_PC cpu1)).
    { intros j Hj. rewrite S1, S6. change (biter dec j (bstep dec (regw (g_HL cpu)))) with (biter dec (S j) (regw (g_HL cpu))). apply Hdst. lia. }
    specialize (IH Hdst1). cbv zeta in IH. destruct IH as (I1 & I2 & I3 & I4 & I5 & I6 & I7).
    rewrite S1 in I1. rewrite S3 in I3. rewrite S4, S1, S5 in I4. rewrite S5 in I5. rewrite S6 in I6.
    cbn [biter fill].
    repeat split; try assumption.
    + rewrite I5. destruct (inputs (g_W cpu)); reflexivity.
    + intros k Hk. destruct k as [|k']; [reflexivity|]. cbn [spec_iter]. fold cpu1. rewrite I7 by lia. exact S6.
Qed.
End IOxR.
