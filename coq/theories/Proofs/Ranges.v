(* Proofs/Ranges.v -- every result of the specification's arithmetic (Spec/Flags.v) is a byte / a 16-bit word.
   Flag bytes are sums of masked terms; each term is bounded by its mask and the masks add up to at most 255. *)
From Z80V Require Export Proofs.SpecTac.
From Coq Require Import Lia ZifyBool.
Ltac Zify.zify_post_hook ::= Z.div_mod_to_equations.

Lemma ldiff_land_disjoint c x : Z.land (Z.ldiff c x) (Z.land c x) = 0.
Proof.
  apply Z.bits_inj'. intros n Hn. rewrite Z.land_spec, Z.ldiff_spec, Z.land_spec, Z.bits_0.
  destruct (Z.testbit c n), (Z.testbit x n); reflexivity.
Qed.
Lemma land_le x c : 0 <= c -> 0 <= Z.land x c <= c.
Proof.
  intros Hc. split; [apply Z.land_nonneg; right; exact Hc|].
  pose proof (Z.lor_ldiff_and c x) as E.
  rewrite <- Z.lxor_lor in E by apply ldiff_land_disjoint.
  rewrite <- Z.add_nocarry_lxor in E by apply ldiff_land_disjoint.
  assert (0 <= Z.ldiff c x) by (apply Z.ldiff_nonneg; left; exact Hc).
  rewrite (Z.land_comm x c). lia.
Qed.
Lemma b2z_le b m : 0 <= m -> 0 <= b2z b m <= m.
Proof. destruct b; cbn [b2z]; lia. Qed.

(* pose the bound of every masked term of the goal, then linear arithmetic *)
Ltac bound_terms :=
  repeat match goal with
  | |- context [Z.land ?x ?c] =>
    let H := fresh "B" in assert (H : 0 <= Z.land x c <= c) by (apply land_le; lia);
    let v := fresh "t" in set (v := Z.land x c) in *
  | |- context [b2z ?b ?c] =>
    let H := fresh "B" in assert (H : 0 <= b2z b c <= c) by (apply b2z_le; lia);
    let v := fresh "t" in set (v := b2z b c) in *
  end.
Ltac flag_range :=
  unfold sz53, s_z, f53, parity, FC, FN, FPV, F3, FH, F5, FZ, FS in *; unfold is8; bound_terms; lia.

Lemma is8_mod256 x : is8 (x mod 256).
Proof. unfold is8. apply Z.mod_pos_bound. lia. Qed.
Lemma is16_mod65536 x : is16 (x mod 65536).
Proof. unfold is16. apply Z.mod_pos_bound. lia. Qed.

Lemma is8_add8_r a b c : is8 (fst (add8 a b c)). Proof. apply is8_mod256. Qed.
Lemma is8_add8_f a b c : is8 (snd (add8 a b c)). Proof. unfold add8. cbn [snd]. flag_range. Qed.
Lemma is8_sub8_r a b c : is8 (fst (sub8 a b c)). Proof. apply is8_mod256. Qed.
Lemma is8_sub8_f a b c : is8 (snd (sub8 a b c)). Proof. unfold sub8. cbn [snd]. flag_range. Qed.
Lemma is8_cp8 a b : is8 (cp8 a b). Proof. unfold cp8. flag_range. Qed.
Lemma is8_and8_r a b : is8 a -> is8 (fst (and8 a b)).
Proof. intros H. unfold and8. cbn [fst]. rewrite Z.land_comm. apply is8_land_r, H. Qed.
Lemma is8_and8_f a b : is8 (snd (and8 a b)). Proof. unfold and8. cbn [snd]. flag_range. Qed.
Lemma is8_or8_r a b : is8 a -> is8 b -> is8 (fst (or8 a b)). Proof. intros. apply is8_lor; assumption. Qed.
Lemma is8_or8_f a b : is8 (snd (or8 a b)). Proof. unfold or8. cbn [snd]. flag_range. Qed.
Lemma is8_xor8_r a b : is8 a -> is8 b -> is8 (fst (xor8 a b)). Proof. intros. apply is8_lxor; assumption. Qed.
Lemma is8_xor8_f a b : is8 (snd (xor8 a b)). Proof. unfold xor8. cbn [snd]. flag_range. Qed.
Lemma is8_inc8_r a f : is8 (fst (inc8 a f)). Proof. apply is8_mod256. Qed.
Lemma is8_inc8_f a f : is8 (snd (inc8 a f)). Proof. unfold inc8. cbn [snd]. flag_range. Qed.
Lemma is8_dec8_r a f : is8 (fst (dec8 a f)). Proof. apply is8_mod256. Qed.
Lemma is8_dec8_f a f : is8 (snd (dec8 a f)). Proof. unfold dec8. cbn [snd]. flag_range. Qed.
Lemma is8_neg8_r a : is8 (fst (neg8 a)). Proof. apply is8_mod256. Qed.
Lemma is8_neg8_f a : is8 (snd (neg8 a)). Proof. unfold neg8. cbn [snd]. flag_range. Qed.
Lemma is8_cpl8_r a f : is8 a -> is8 (fst (cpl8 a f)). Proof. unfold cpl8, is8. cbn [fst]. lia. Qed.
Lemma is8_cpl8_f a f : is8 (snd (cpl8 a f)). Proof. unfold cpl8. cbn [snd]. flag_range. Qed.
Lemma is8_daa8_r a f : is8 (fst (daa8 a f)). Proof. apply is8_mod256. Qed.
Lemma is8_daa8_f a f : is8 (snd (daa8 a f)). Proof. unfold daa8. cbn [snd]. flag_range. Qed.
Lemma is8_scf8 f x : is8 (scf8 f x). Proof. unfold scf8. flag_range. Qed.
Lemma is8_ccf8 f x : is8 (ccf8 f x). Proof. unfold ccf8. flag_range. Qed.

Lemma rot8_ranges o a cin : is8 a -> is1 cin -> is8 (fst (rot8 o a cin)) /\ is1 (snd (rot8 o a cin)).
Proof.
  intros Ha Hc. unfold is8, is1 in *.
  assert (0 <= Z.land a 128 <= 128) by (apply land_le; lia).
  destruct o; cbn [rot8 fst snd]; split; lia.
Qed.
Lemma is8_rotcb_r o a f : is8 a -> is8 (fst (rotcb o a f)).
Proof.
  intros Ha. unfold rotcb. destruct (rot8_ranges o a (Z.land f FC) Ha (is1_land1 f)) as [H1 H2].
  destruct (rot8 o a (Z.land f FC)). exact H1.
Qed.
Lemma is8_rotcb_f o a f : is8 a -> is8 (snd (rotcb o a f)).
Proof.
  intros Ha. unfold rotcb. destruct (rot8_ranges o a (Z.land f FC) Ha (is1_land1 f)) as [H1 H2].
  destruct (rot8 o a (Z.land f FC)) as [r c]. cbn [fst snd] in *. unfold is1 in H2. flag_range.
Qed.
Lemma is8_rota_r o a f : is8 a -> is8 (fst (rota o a f)).
Proof.
  intros Ha. unfold rota. destruct (rot8_ranges o a (Z.land f FC) Ha (is1_land1 f)) as [H1 H2].
  destruct (rot8 o a (Z.land f FC)). exact H1.
Qed.
Lemma is8_rota_f o a f : is8 a -> is8 (snd (rota o a f)).
Proof.
  intros Ha. unfold rota. destruct (rot8_ranges o a (Z.land f FC) Ha (is1_land1 f)) as [H1 H2].
  destruct (rot8 o a (Z.land f FC)) as [r c]. cbn [fst snd] in *. unfold is1 in H2. flag_range.
Qed.
Lemma rld8_ranges a m f : is8 a -> is8 m ->
  is8 (fst (fst (rld8 a m f))) /\ is8 (snd (fst (rld8 a m f))) /\ is8 (snd (rld8 a m f)).
Proof. intros Ha Hm. unfold rld8. cbn [fst snd]. unfold is8 in *. repeat split; try lia; flag_range. Qed.
Lemma rrd8_ranges a m f : is8 a -> is8 m ->
  is8 (fst (fst (rrd8 a m f))) /\ is8 (snd (fst (rrd8 a m f))) /\ is8 (snd (rrd8 a m f)).
Proof. intros Ha Hm. unfold rrd8. cbn [fst snd]. unfold is8 in *. repeat split; try lia; flag_range. Qed.
Lemma is8_bit8 b v f x : is8 (bit8 b v f x). Proof. unfold bit8. flag_range. Qed.
Lemma is8_res8 b v : is8 v -> is8 (res8 b v).
Proof. intros H. unfold res8. rewrite Z.land_comm. apply is8_land_r, H. Qed.
Lemma is8_set8 b v : is8 v -> 0 <= b < 8 -> is8 (set8 b v).
Proof.
  intros H Hb. unfold set8. apply is8_lor; [exact H|]. unfold is8.
  assert (b = 0 \/ b = 1 \/ b = 2 \/ b = 3 \/ b = 4 \/ b = 5 \/ b = 6 \/ b = 7) as Hc by lia.
  destruct Hc as [->|[->|[->|[->|[->|[->|[->| ->]]]]]]]; cbn; lia.
Qed.
Lemma is16_add16_r a b f : is16 (fst (add16 a b f)). Proof. apply is16_mod65536. Qed.
Lemma is8_add16_f a b f : is8 (snd (add16 a b f)). Proof. unfold add16. cbn [snd]. flag_range. Qed.
Lemma is16_adc16_r a b c : is16 (fst (adc16 a b c)). Proof. apply is16_mod65536. Qed.
Lemma is8_adc16_f a b c : is8 (snd (adc16 a b c)). Proof. unfold adc16. cbn [snd]. flag_range. Qed.
Lemma is16_sbc16_r a b c : is16 (fst (sbc16 a b c)). Proof. apply is16_mod65536. Qed.
Lemma is8_sbc16_f a b c : is8 (snd (sbc16 a b c)). Proof. unfold sbc16. cbn [snd]. flag_range. Qed.
Lemma is8_ldx a v bc f : is8 (ldx_flags a v bc f). Proof. unfold ldx_flags. flag_range. Qed.
Lemma is8_cpx a v bc f : is8 (cpx_flags a v bc f). Proof. unfold cpx_flags. flag_range. Qed.
Lemma is8_blockio b f x : is8 (blockio_flags b f x). Proof. unfold blockio_flags. flag_range. Qed.
Lemma is8_in_flags v f : is8 (in_flags v f). Proof. unfold in_flags. flag_range. Qed.
Lemma is8_ldair v i f : is8 (ldair_flags v i f). Proof. unfold ldair_flags. flag_range. Qed.
Lemma is8_rtick r : is8 (r_tick r).
Proof.
  unfold r_tick, is8. assert (0 <= Z.land r 128 <= 128) by (apply land_le; lia).
  assert (0 <= (r + 1) mod 128 < 128) by (apply Z.mod_pos_bound; lia). lia.
Qed.
Lemma is16_mk16_r h l : is8 l -> is16 (mk16 h l).
Proof. intros Hl. unfold mk16. apply is16_lor; [apply is16_u16 | apply is8_is16, Hl]. Qed.
Lemma is8_hi_r w : is8 (hi w). Proof. apply is8_u8. Qed.
Lemma is8_lo_r w : is8 (lo w). Proof. apply is8_u8. Qed.
Lemma is16_with_hi w v : is16 (with_hi w v).
Proof. unfold with_hi. apply is16_lor; [apply is16_u16 | apply is16_land_r; unfold is16; lia]. Qed.
Lemma is16_with_lo w v : is8 v -> is16 (with_lo w v).
Proof. intros H. unfold with_lo. apply is16_lor; [apply is8_is16, H | apply is16_land_r; unfold is16; lia]. Qed.
