(* Proofs/Mirror.v -- C11 at the level of the generated dispatch tables *)
From Z80V Require Export Proofs.SpecFacts Proofs.SpecAll.

Lemma WF_swapXY cpu : WF cpu -> WF (swapXY cpu).
Proof. intros H. pose proof H as H'. wf_destruct H'. cbv [WF WF_gpr WF_reg swapXY]. cbv_struct. splits; assumption. Qed.
Lemma WF_s_IY cpu v : is16 v -> WF cpu -> WF (s_IY cpu v).
Proof. intros Hv H. pose proof H as H'. wf_destruct H'. cbv [WF WF_gpr WF_reg]. cbv_struct. splits; assumption. Qed.
Lemma WF_s_IX cpu v : is16 v -> WF cpu -> WF (s_IX cpu v).
Proof. intros Hv H. pose proof H as H'. wf_destruct H'. cbv [WF WF_gpr WF_reg]. cbv_struct. splits; assumption. Qed.

Lemma fetch8_swap cpu : fetch8 (swapXY cpu) = (swapXY (fst (fetch8 cpu)), snd (fetch8 cpu)).
Proof. cbv beta iota zeta delta [fetch8 rd mem_get swapXY]. cbv_struct. reflexivity. Qed.
Lemma fetch_m1_swap cpu : fetch_m1 (swapXY cpu) = (swapXY (fst (fetch_m1 cpu)), snd (fetch_m1 cpu)).
Proof. cbv beta iota zeta delta [fetch_m1 fetch8 rd mem_get swapXY]. cbv_struct. reflexivity. Qed.
Lemma fetch8_sIY cpu v : fetch8 (s_IY cpu v) = (s_IY (fst (fetch8 cpu)) v, snd (fetch8 cpu)).
Proof. cbv beta iota zeta delta [fetch8 rd mem_get]. cbv_struct. reflexivity. Qed.
Lemma fetch_m1_sIY cpu v : fetch_m1 (s_IY cpu v) = (s_IY (fst (fetch_m1 cpu)) v, snd (fetch_m1 cpu)).
Proof. cbv beta iota zeta delta [fetch_m1 fetch8 rd mem_get]. cbv_struct. reflexivity. Qed.
Lemma fetch8_sIX cpu v : fetch8 (s_IX cpu v) = (s_IX (fst (fetch8 cpu)) v, snd (fetch8 cpu)).
Proof. cbv beta iota zeta delta [fetch8 rd mem_get]. cbv_struct. reflexivity. Qed.
Lemma fetch_m1_sIX cpu v : fetch_m1 (s_IX cpu v) = (s_IX (fst (fetch_m1 cpu)) v, snd (fetch_m1 cpu)).
Proof. cbv beta iota zeta delta [fetch_m1 fetch8 rd mem_get]. cbv_struct. reflexivity. Qed.

Lemma exec_idx_swap u c cpu : exec_idx u MIY c (swapXY cpu) = swapXY (exec_idx u MIX c cpu).
Proof.
  unfold exec_idx. destruct (decode_idx c) eqn:E; try apply exec_swap.
  rewrite fetch8_swap. destruct (fetch8 cpu) as [cpu1 d]. cbn [fst snd].
  destruct (u_cbidx_ticks u).
  - rewrite fetch_m1_swap. destruct (fetch_m1 cpu1) as [cpu2 c3]. cbn [fst snd]. apply exec_idxcb_swap.
  - rewrite fetch8_swap. destruct (fetch8 cpu1) as [cpu2 c3]. cbn [fst snd]. apply exec_idxcb_swap.
Qed.
Lemma exec_idx_ix_ignores_iy u c cpu v : exec_idx u MIX c (s_IY cpu v) = s_IY (exec_idx u MIX c cpu) v.
Proof.
  unfold exec_idx. destruct (decode_idx c) eqn:E; try apply exec_ix_ignores_iy.
  rewrite fetch8_sIY. destruct (fetch8 cpu) as [cpu1 d]. cbn [fst snd].
  destruct (u_cbidx_ticks u).
  - rewrite fetch_m1_sIY. destruct (fetch_m1 cpu1) as [cpu2 c3]. cbn [fst snd]. apply exec_idxcb_ix_ignores_iy.
  - rewrite fetch8_sIY. destruct (fetch8 cpu1) as [cpu2 c3]. cbn [fst snd]. apply exec_idxcb_ix_ignores_iy.
Qed.
Lemma exec_idx_iy_ignores_ix u c cpu v : exec_idx u MIY c (s_IX cpu v) = s_IX (exec_idx u MIY c cpu) v.
Proof.
  unfold exec_idx. destruct (decode_idx c) eqn:E; try apply exec_iy_ignores_ix.
  rewrite fetch8_sIX. destruct (fetch8 cpu) as [cpu1 d]. cbn [fst snd].
  destruct (u_cbidx_ticks u).
  - rewrite fetch_m1_sIX. destruct (fetch_m1 cpu1) as [cpu2 c3]. cbn [fst snd]. apply exec_idxcb_iy_ignores_ix.
  - rewrite fetch8_sIX. destruct (fetch8 cpu1) as [cpu2 c3]. cbn [fst snd]. apply exec_idxcb_iy_ignores_ix.
Qed.

Theorem fd_mirrors_dd c c0 c0' cpu : is8 c -> WF cpu ->
  executeOne_fd (swapXY cpu) c0 c c = swapXY (executeOne_dd cpu c0' c c).
Proof.
  intros Hc H. rewrite (fd_dispatch (swapXY cpu) c0 c Hc (WF_swapXY cpu H)).
  rewrite (dd_dispatch cpu c0' c Hc H). apply exec_idx_swap.
Qed.
Theorem dd_ignores_iy c c0 cpu v : is8 c -> is16 v -> WF cpu ->
  executeOne_dd (s_IY cpu v) c0 c c = s_IY (executeOne_dd cpu c0 c c) v.
Proof.
  intros Hc Hv H. rewrite (dd_dispatch (s_IY cpu v) c0 c Hc (WF_s_IY cpu v Hv H)).
  rewrite (dd_dispatch cpu c0 c Hc H). apply exec_idx_ix_ignores_iy.
Qed.
Theorem fd_ignores_ix c c0 cpu v : is8 c -> is16 v -> WF cpu ->
  executeOne_fd (s_IX cpu v) c0 c c = s_IX (executeOne_fd cpu c0 c c) v.
Proof.
  intros Hc Hv H. rewrite (fd_dispatch (s_IX cpu v) c0 c Hc (WF_s_IX cpu v Hv H)).
  rewrite (fd_dispatch cpu c0 c Hc H). apply exec_idx_iy_ignores_ix.
Qed.
