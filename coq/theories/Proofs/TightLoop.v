(* Proofs/TightLoop.v -- C13/C08 on the tightest loop there is,  L: JR L  (18 FE), for the generated Step and the Run model:
   every Step returns to the instruction itself and changes nothing but R, so no break point or HALT ever stops Run: for EVERY
   fuel (number of loop iterations allowed) Run is still running if the cancellation flag is never seen, and returns the
   context's error after exactly n whole Steps if the flag is first seen at the head of iteration n. *)
From Z80V Require Import Proofs.SpecFacts Proofs.Frame Proofs.Block Proofs.Refresh Proofs.WFStep Proofs.DjnzLoop Proofs.RunHalted Proofs.Iter.
From Coq Require Import Lia.

Lemma dm_jr : decode_main 24 = JR. Proof. vm_compute. reflexivity. Qed.

Definition jr_at (cpu : CPU) : Prop :=
  WF cpu /\ g_Memory cpu = UserMem /\ g_Interrupt cpu = None /\ g_BreakPoints cpu = None /\
  u8 (ram (g_W cpu) (g_PC cpu)) = 24 /\ u8 (ram (g_W cpu) (u16 (g_PC cpu + 1))) = 254.

Lemma jr_one_step u cpu : jr_at cpu -> g_HALT cpu = false ->
  let cpu' := spec_step u cpu in
  djnz_same cpu cpu' /\ g_BC_Hi cpu' = g_BC_Hi cpu /\ g_PC cpu' = g_PC cpu /\ g_IR_Lo cpu' = r_tick (g_IR_Lo cpu) /\
  g_HALT cpu' = false /\ g_BreakPoints cpu' = None.
Proof.
  intros [Hwf [Hm [Hi [Hb [H0 H1]]]]] Hh cpu'. remember cpu' as r eqn:E. subst cpu'. open_cpu cpu.
  cbv_struct_in Hm. cbv_struct_in Hi. cbv_struct_in Hb. cbv_struct_in H0. cbv_struct_in H1. cbv_struct_in Hh. wf_open Hwf.
  subst mem irq bp halt.
  unfold spec_step in E. cbv_struct_in E. unfold step_instr in E.
  cbv beta iota zeta delta [fetch_m1 fetch8 rd mem_get wget w_log inc16] in E. cbv_struct_in E.
  rewrite H0, dm_jr in E.
  cbv beta iota zeta delta [exec fetch8 jump_rel disp rd mem_get wget w_log inc16] in E. cbv_struct_in E.
  rewrite H1 in E.
  assert (Epc : u16 (u16 (u16 (pc + 1) + 1) + s8 254) = pc) by (apply pc_back; assumption).
  rewrite Epc in E. subst r; unfold djnz_same; cbv_struct; repeat split.
Qed.

Lemma jr_at_next u cpu : jr_at cpu -> g_HALT cpu = false -> jr_at (spec_step u cpu) /\ g_HALT (spec_step u cpu) = false.
Proof.
  intros H Hh. destruct (jr_one_step u cpu H Hh) as [Hs [_ [Hpc [_ [Hh' Hb']]]]].
  destruct H as [Hwf [Hm [Hi [Hb [H0 H1]]]]]. unfold djnz_same in Hs. decompose [and] Hs. clear Hs.
  split; [|exact Hh']. unfold jr_at. split; [apply spec_step_wf; exact Hwf|]. repeat split; congruence.
Qed.

Lemma jr_forever u n : forall cpu, jr_at cpu -> g_HALT cpu = false ->
  let cpu' := spec_iter u n cpu in
  jr_at cpu' /\ g_HALT cpu' = false /\ djnz_same cpu cpu' /\ g_BC_Hi cpu' = g_BC_Hi cpu /\ g_PC cpu' = g_PC cpu /\
  g_IR_Lo cpu' = ticks n (g_IR_Lo cpu).
Proof.
  induction n as [|n IH]; intros cpu H Hh.
  - cbn [spec_iter ticks]. split; [exact H|]. split; [exact Hh|]. split; [apply djnz_same_refl|]. repeat split.
  - cbn [spec_iter ticks]. destruct (jr_one_step u cpu H Hh) as [Hs [Hb [Hpc [Hr _]]]].
    destruct (jr_at_next u cpu H Hh) as [H' Hh'].
    destruct (IH (spec_step u cpu) H' Hh') as [A [B [C [D [E F]]]]].
    split; [exact A|]. split; [exact B|]. split; [eapply djnz_same_trans; eassumption|].
    split; [congruence|]. split; [congruence|]. rewrite F, Hr. reflexivity.
Qed.

(* Run on the tight loop: never stops by itself, whatever the fuel; honours cancellation after a whole number of Steps *)
Lemma jr_never_stops cpu : jr_at cpu -> forall j, (1 <= j)%nat -> stops (iter j (Run_enter cpu)) = false.
Proof.
  intros H j _.
  assert (H' : jr_at (Run_enter cpu)).
  { destruct H as [Hwf R]. split; [apply WF_Run_enter; exact Hwf|exact R]. }
  rewrite iter_ok by apply H'.
  destruct (jr_forever impl_unspec j (Run_enter cpu) H' eq_refl) as [[_ [_ [_ [Hb _]]]] [Hh _]].
  unfold stops, bp_hit. rewrite Hb, Hh. reflexivity.
Qed.
Theorem tight_loop_run_never_returns fuel cpu : jr_at cpu -> Run fuel never cpu = None.
Proof. intros H. unfold Run. apply Run_loop_running. intros j Hj. apply jr_never_stops; [exact H|lia]. Qed.
Theorem tight_loop_run_cancel n fuel seen cpu : jr_at cpu -> (n < fuel)%nat ->
  (forall j, (j < n)%nat -> seen j = false) -> seen n = true ->
  Run fuel seen cpu = Some (iter n (Run_enter cpu), RunCtxErr) /\
  g_PC (iter n (Run_enter cpu)) = g_PC cpu /\ g_IR_Lo (iter n (Run_enter cpu)) = ticks n (g_IR_Lo cpu) /\
  djnz_same cpu (iter n (Run_enter cpu)).
Proof.
  intros H Hf Hns Hs. split.
  - apply Run_cancel; try assumption. intros j Hj. apply jr_never_stops; [exact H|lia].
  - assert (H' : jr_at (Run_enter cpu)).
    { destruct H as [Hwf R]. split; [apply WF_Run_enter; exact Hwf|exact R]. }
    rewrite iter_ok by apply H'.
    destruct (jr_forever impl_unspec n (Run_enter cpu) H' eq_refl) as [_ [_ [C [_ [E F]]]]].
    split; [exact E|]. split; [exact F|exact C].
Qed.

Definition jr_demo : CPU := s_W (s_SP (s_PC cpu0 4660) 36864) (mk_World (fun a => if a =? 4660 then 24 else if a =? 4661 then 254 else 0) [] []).
Lemma jr_demo_premises : jr_at jr_demo.
Proof.
  unfold jr_at. split.
  - cbv [WF WF_gpr WF_reg WF_mem WF_irq jr_demo cpu0]; cbv_struct; unfold is8, is16; repeat split; try lia; constructor.
  - repeat split; reflexivity.
Qed.
