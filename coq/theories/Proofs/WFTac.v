(* Proofs/WFTac.v -- tactics for "the instruction keeps the state well formed" (SpecAllWF.v) *)
From Z80V Require Export Proofs.SpecAllTac Proofs.WFDef Proofs.Ranges.

(* instructions as the decoders produce them: bit numbers 0..7, restart addresses 16-bit *)
Definition instr_ok (i : instr) : Prop :=
  match i with
  | SET b _ | RES b _ | BIT b _ => 0 <= b < 8
  | RST t => is16 t
  | _ => True
  end.

Ltac spec_unfold_wf := cbv beta iota zeta delta [exec exec_idxcb rd_opnd get_rm set_rm get_r set_r get_idx set_idx
  get_rp set_rp get_F set_F get_A set_A is_mem ea rd wr rd16 wr16 fetch8 Spec.Exec.fetch16 push16 push16_lowfirst pop16 pop16_plus2
  jump_rel rewind2 block_step block_again mem_get mem_set orb andb cond
  alu8 wreg regw u_scf u_ccf u_bitmem u_blockio io_In io_Out reti_Handle retn_Handle warnf log_ev instr_ok].

#[global] Hint Resolve is8_add8_r is8_add8_f is8_sub8_r is8_sub8_f is8_cp8 is8_and8_f is8_or8_f is8_xor8_f
  is8_inc8_r is8_inc8_f is8_dec8_r is8_dec8_f is8_neg8_r is8_neg8_f is8_cpl8_f is8_daa8_r is8_daa8_f is8_scf8 is8_ccf8
  is8_bit8 is8_res8 is16_add16_r is8_add16_f is16_adc16_r is8_adc16_f is16_sbc16_r is8_sbc16_f is8_ldx is8_cpx
  is8_blockio is8_in_flags is8_ldair is8_rtick is8_mod256 is16_mod65536 is8_and8_r is8_or8_r is8_xor8_r is8_cpl8_r
  is8_rotcb_r is8_rotcb_f is8_rota_r is8_rota_f is8_set8 is16_mk16_r is8_hi_r is8_lo_r is16_with_hi is16_with_lo : ranges.
#[global] Hint Extern 1 (is16 (inc16 _)) => (unfold inc16; apply is16_u16) : ranges.
#[global] Hint Extern 1 (is16 (dec16 _)) => (unfold dec16; apply is16_u16) : ranges.
#[global] Hint Extern 1 (is16 (disp _ _)) => (unfold disp; apply is16_u16) : ranges.
#[global] Hint Extern 1 (_ <= _ < _) => lia : ranges.

Ltac rng := solve [assumption | auto 6 with ranges].

(* a stuck  let '(x, y) := f args in ...  : record what is known about f's results, then name them *)
Ltac pair_facts x :=
  lazymatch x with
  | wget ?w ?m ?a => let H := fresh "R" in assert (H : is8 (snd x)) by (apply wget_byte; assumption)
  | rld8 ?a ?m ?f => let H := fresh "R" in assert (H := rld8_ranges a m f ltac:(rng) ltac:(rng))
  | rrd8 ?a ?m ?f => let H := fresh "R" in assert (H := rrd8_ranges a m f ltac:(rng) ltac:(rng))
  | _ => let H1 := fresh "R" in let H2 := fresh "R" in
         first [ assert (H1 : is8 (fst x)) by rng | assert (H1 : is16 (fst x)) by rng ];
         assert (H2 : is8 (snd x)) by rng
  end.
Ltac pair_step :=
  match goal with |- context [match ?x with pair _ _ => _ end] =>
    lazymatch x with (_, _) => fail | _ => idtac end;
    pair_facts x;
    first [ destruct x as [[? ?] ?] | destruct x as [? ?] ];
    cbn [fst snd] in *
  end.
Ltac wf_norm := spec_unfold_wf; cbv_struct; repeat (pair_step; repeat match goal with H : _ /\ _ |- _ => destruct H end; spec_unfold_wf; cbv_struct).
Ltac wf_ifs := repeat (match goal with |- context [if ?c then _ else _] => destruct c end; wf_norm).
Ltac splits_wf := repeat match goal with |- _ /\ _ => split end.
Ltac wf_close := cbv [WF WF_gpr WF_reg]; cbv_struct; splits_wf; rng.
Ltac wf_open H := cbv [WF WF_gpr WF_reg] in H; cbv_struct_in H; decompose [and] H; clear H.
