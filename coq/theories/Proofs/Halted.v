(* Proofs/Halted.v -- a halted CPU over ANY number of Steps (C14 "on every Step spent halted", C08/C07 "PC still
   addressing the HALT opcode"): with no request pending, a CPU whose PC addresses a HALT opcode (76h) stays exactly where
   it is for every n: every register, flag, flip-flop, the mode, I, bit 7 of R, SP, PC and memory are those of the start,
   the low seven bits of R have advanced by n (mod 128), and the halted indication is set as soon as n >= 1.
   Proved for the specification step; Props/C14.v transports it to the generated Step through iter_ok. *)
From Z80V Require Import Proofs.SpecFacts Proofs.Frame Proofs.Block Proofs.Refresh Proofs.WFStep.
From Coq Require Import Lia.

Lemma dm_halt : decode_main 118 = HALT. Proof. vm_compute. reflexivity. Qed.
Lemma dec_inc16 pc : is16 pc -> dec16 (inc16 pc) = pc.
Proof.
  intros H. unfold dec16, inc16. rewrite u16_sub_u16_l. replace (pc + 1 - 1) with pc by lia. apply u16_id; exact H.
Qed.

(* what a Step spent on a HALT opcode keeps *)
Definition halted_same (a b : CPU) : Prop :=
  g_GPR b = g_GPR a /\ g_Alternate b = g_Alternate a /\ g_IX b = g_IX a /\ g_IY b = g_IY a /\
  g_SP b = g_SP a /\ g_PC b = g_PC a /\ g_IFF1 b = g_IFF1 a /\ g_IFF2 b = g_IFF2 a /\ g_IM b = g_IM a /\
  g_IR_Hi b = g_IR_Hi a /\ g_Memory b = g_Memory a /\ g_Interrupt b = g_Interrupt a /\ ram (g_W b) = ram (g_W a).

Lemma halted_same_refl a : halted_same a a.
Proof. unfold halted_same. repeat split. Qed.
Lemma halted_same_trans a b c : halted_same a b -> halted_same b c -> halted_same a c.
Proof.
  unfold halted_same. intros H1 H2. decompose [and] H1. decompose [and] H2. clear H1 H2.
  repeat split; etransitivity; eassumption.
Qed.

Lemma halt_one_step u cpu : WF cpu -> g_Memory cpu = UserMem -> g_Interrupt cpu = None ->
  u8 (ram (g_W cpu) (g_PC cpu)) = 118 ->
  let cpu' := spec_step u cpu in
  halted_same cpu cpu' /\ g_IR_Lo cpu' = r_tick (g_IR_Lo cpu) /\ g_HALT cpu' = true.
Proof.
  intros Hwf Hm Hi H0 cpu'. remember cpu' as r eqn:E. subst cpu'. open_cpu cpu.
  cbv_struct_in Hm. cbv_struct_in Hi. cbv_struct_in H0. wf_open Hwf. subst mem irq.
  unfold spec_step in E. cbv_struct_in E. unfold step_instr in E.
  cbv beta iota zeta delta [fetch_m1 fetch8 rd mem_get wget w_log inc16] in E. cbv_struct_in E.
  rewrite H0, dm_halt in E. cbv beta iota zeta delta [exec] in E. cbv_struct_in E.
  assert (Epc : dec16 (u16 (pc + 1)) = pc) by (apply (dec_inc16 pc); assumption).
  rewrite Epc in E.
  subst r; unfold halted_same; cbv_struct; repeat split.
Qed.

Theorem halted_steps u n : forall cpu, WF cpu -> g_Memory cpu = UserMem -> g_Interrupt cpu = None ->
  u8 (ram (g_W cpu) (g_PC cpu)) = 118 ->
  let cpu' := spec_iter u n cpu in
  halted_same cpu cpu' /\ g_IR_Lo cpu' = ticks n (g_IR_Lo cpu) /\ ((1 <= n)%nat -> g_HALT cpu' = true).
Proof.
  induction n as [|n IH]; intros cpu Hwf Hm Hi H0.
  - cbn [spec_iter ticks]. split; [apply halted_same_refl|]. split; [reflexivity|]. intros Hn. inversion Hn.
  - cbn [spec_iter ticks].
    destruct (halt_one_step u cpu Hwf Hm Hi H0) as [Hs [Hr Hh]].
    pose proof Hs as Hs'. unfold halted_same in Hs'. decompose [and] Hs'. clear Hs'.
    assert (Hwf1 : WF (spec_step u cpu)) by (apply spec_step_wf; exact Hwf).
    assert (Hm1 : g_Memory (spec_step u cpu) = UserMem) by congruence.
    assert (Hi1 : g_Interrupt (spec_step u cpu) = None) by congruence.
    assert (H01 : u8 (ram (g_W (spec_step u cpu)) (g_PC (spec_step u cpu))) = 118) by congruence.
    destruct (IH (spec_step u cpu) Hwf1 Hm1 Hi1 H01) as [Hs2 [Hr2 Hh2]].
    split; [eapply halted_same_trans; eassumption|]. split; [rewrite Hr2, Hr; reflexivity|].
    intros _. destruct n as [|k]; [exact Hh|]. apply Hh2. lia.
Qed.

(* C05 for the same executions: each halted Step makes exactly one access, the read of the opcode byte at PC; no write, no port access *)
Lemma halt_one_trace u cpu : WF cpu -> g_Memory cpu = UserMem -> g_Interrupt cpu = None ->
  u8 (ram (g_W cpu) (g_PC cpu)) = 118 ->
  trace (g_W (spec_step u cpu)) = EvRd (g_PC cpu) 118 :: trace (g_W cpu) /\ inputs (g_W (spec_step u cpu)) = inputs (g_W cpu).
Proof.
  intros Hwf Hm Hi H0. remember (spec_step u cpu) as r eqn:E. open_cpu cpu.
  cbv_struct_in Hm. cbv_struct_in Hi. cbv_struct_in H0. wf_open Hwf. subst mem irq.
  unfold spec_step in E. cbv_struct_in E. unfold step_instr in E.
  cbv beta iota zeta delta [fetch_m1 fetch8 rd mem_get wget w_log inc16] in E. cbv_struct_in E.
  rewrite H0, dm_halt in E. cbv beta iota zeta delta [exec] in E. cbv_struct_in E.
  subst r; cbv_struct; split; reflexivity.
Qed.
Theorem halted_trace u n : forall cpu, WF cpu -> g_Memory cpu = UserMem -> g_Interrupt cpu = None ->
  u8 (ram (g_W cpu) (g_PC cpu)) = 118 ->
  trace (g_W (spec_iter u n cpu)) = repeat (EvRd (g_PC cpu) 118) n ++ trace (g_W cpu) /\
  inputs (g_W (spec_iter u n cpu)) = inputs (g_W cpu).
Proof.
  induction n as [|n IH]; intros cpu Hwf Hm Hi H0; [split; reflexivity|].
  cbn [spec_iter].
  destruct (halt_one_step u cpu Hwf Hm Hi H0) as [Hs _].
  destruct (halt_one_trace u cpu Hwf Hm Hi H0) as [Ht Hin].
  unfold halted_same in Hs. decompose [and] Hs. clear Hs.
  assert (Hwf1 : WF (spec_step u cpu)) by (apply spec_step_wf; exact Hwf).
  assert (Hm1 : g_Memory (spec_step u cpu) = UserMem) by congruence.
  assert (Hi1 : g_Interrupt (spec_step u cpu) = None) by congruence.
  assert (H01 : u8 (ram (g_W (spec_step u cpu)) (g_PC (spec_step u cpu))) = 118) by congruence.
  destruct (IH (spec_step u cpu) Hwf1 Hm1 Hi1 H01) as [Ht2 Hin2].
  split; [|congruence].
  rewrite Ht2, Ht. replace (g_PC (spec_step u cpu)) with (g_PC cpu) by congruence.
  change (repeat (EvRd (g_PC cpu) 118) (S n)) with (EvRd (g_PC cpu) 118 :: repeat (EvRd (g_PC cpu) 118) n).
  rewrite (repeat_cons n (EvRd (g_PC cpu) 118)). rewrite <- app_assoc. reflexivity.
Qed.

(* the same for the GENERATED Step (iter = n calls of the Step translated from the Go source) *)
From Z80V Require Import Proofs.Iter.
Theorem halted_steps_gen n cpu : WF cpu -> g_Memory cpu = UserMem -> g_Interrupt cpu = None ->
  u8 (ram (g_W cpu) (g_PC cpu)) = 118 ->
  let cpu' := iter n cpu in
  halted_same cpu cpu' /\ g_IR_Lo cpu' = ticks n (g_IR_Lo cpu) /\ ((1 <= n)%nat -> g_HALT cpu' = true).
Proof. intros H Hm Hi H0. cbv zeta. rewrite iter_ok by exact H. exact (halted_steps impl_unspec n cpu H Hm Hi H0). Qed.

(* the premises are satisfiable: HALT at 1234h *)
Definition halt_demo : CPU := s_W (s_SP (s_PC cpu0 4660) 36864) (mk_World (fun a => if a =? 4660 then 118 else 0) [] []).
Lemma halt_demo_premises :
  WF halt_demo /\ g_Memory halt_demo = UserMem /\ g_Interrupt halt_demo = None /\ u8 (ram (g_W halt_demo) (g_PC halt_demo)) = 118.
Proof.
  split.
  - cbv [WF WF_gpr WF_reg WF_mem WF_irq halt_demo cpu0]; cbv_struct; unfold is8, is16; repeat split; try lia; constructor.
  - repeat split; reflexivity.
Qed.
Theorem halted_trace_gen n cpu : WF cpu -> g_Memory cpu = UserMem -> g_Interrupt cpu = None ->
  u8 (ram (g_W cpu) (g_PC cpu)) = 118 ->
  trace (g_W (iter n cpu)) = repeat (EvRd (g_PC cpu) 118) n ++ trace (g_W cpu) /\
  inputs (g_W (iter n cpu)) = inputs (g_W cpu).
Proof. intros H Hm Hi H0. rewrite iter_ok by exact H. exact (halted_trace impl_unspec n cpu H Hm Hi H0). Qed.
