(* Proofs/Deferred.v -- C06/C07: a maskable request that arrives while interrupts are disabled.  With IFF1 = 0, mode 1, a request
   pending and the program about to execute EI: the first Step refuses the request, leaves it pending and runs EI (the program
   continues); the second Step accepts it: the address pushed is the address of the first instruction that has not yet
   executed (the one after EI), high byte at SP-1, low byte at SP-2, control goes to 0038h, both flip-flops are cleared, the
   request is consumed, and no program instruction runs in that Step. *)
From Z80V Require Import Proofs.SpecFacts Proofs.Frame Proofs.Block Proofs.RoundTrip.
From Coq Require Import Lia.

Theorem deferred_im1 u cpu dat : WF cpu -> g_Memory cpu = UserMem ->
  g_Interrupt cpu = Some (mk_Interrupt 1 dat) -> g_IFF1 cpu = false -> g_IM cpu = 1 ->
  u8 (ram (g_W cpu) (g_PC cpu)) = 251 ->
  let next := u16 (g_PC cpu + 1) in
  let sp2 := u16 (g_SP cpu - 2) in let sp1 := u16 (sp2 + 1) in
  let cpu1 := spec_iter u 1 cpu in let cpu2 := spec_iter u 2 cpu in
  (* after the first Step: EI has run, the request is still there, nothing was pushed *)
  (g_Interrupt cpu1 = Some (mk_Interrupt 1 dat) /\ g_IFF1 cpu1 = true /\ g_IFF2 cpu1 = true /\ g_PC cpu1 = next /\
   g_SP cpu1 = g_SP cpu /\ ram (g_W cpu1) = ram (g_W cpu)) /\
  (* after the second: accepted *)
  (g_Interrupt cpu2 = None /\ g_IFF1 cpu2 = false /\ g_IFF2 cpu2 = false /\ g_PC cpu2 = 56 /\ g_SP cpu2 = sp2 /\
   g_GPR cpu2 = g_GPR cpu /\ g_Alternate cpu2 = g_Alternate cpu /\ g_IX cpu2 = g_IX cpu /\ g_IY cpu2 = g_IY cpu /\
   g_IM cpu2 = g_IM cpu /\ g_IR_Hi cpu2 = g_IR_Hi cpu /\ g_IR_Lo cpu2 = r_tick (g_IR_Lo cpu) /\
   ram (g_W cpu2) = upd (upd (ram (g_W cpu)) sp2 (lo next)) sp1 (hi next)).
Proof.
  intros Hwf Hm Hi Hf Him H0 next sp2 sp1 cpu1 cpu2. subst next sp2 sp1.
  remember cpu1 as r1 eqn:E1. remember cpu2 as r2 eqn:E2. subst cpu1 cpu2. open_cpu cpu.
  cbv_struct_in Hm. cbv_struct_in Hi. cbv_struct_in Hf. cbv_struct_in Him. cbv_struct_in H0. wf_open Hwf. subst mem irq iff1 im.
  cbn [spec_iter] in E1, E2.
  (* first Step, in both *)
  unfold spec_step at 1 in E1. cbv_struct_in E1. unfold try_interrupt in E1. cbv_struct_in E1.
  change (1 =? NMI_type) with false in E1. cbv iota in E1. change (negb false) with true in E1. cbv iota in E1.
  unfold step_instr in E1. cbv beta iota zeta delta [fetch_m1 fetch8 rd mem_get wget w_log inc16] in E1. cbv_struct_in E1.
  rewrite H0, dm_ei in E1. cbv beta iota zeta delta [exec] in E1. cbv_struct_in E1.
  unfold spec_step at 2 in E2. cbv_struct_in E2. unfold try_interrupt in E2. cbv_struct_in E2.
  change (1 =? NMI_type) with false in E2. cbv iota in E2. change (negb false) with true in E2. cbv iota in E2.
  unfold step_instr in E2. cbv beta iota zeta delta [fetch_m1 fetch8 rd mem_get wget w_log inc16] in E2. cbv_struct_in E2.
  rewrite H0, dm_ei in E2. cbv beta iota zeta delta [exec] in E2. cbv_struct_in E2.
  (* second Step *)
  unfold spec_step in E2. cbv_struct_in E2. unfold try_interrupt in E2. cbv_struct_in E2.
  change (1 =? NMI_type) with false in E2. cbv iota in E2. change (negb true) with false in E2. cbv iota in E2.
  cbv beta iota zeta delta [accept_im1 disable_both push16_lowfirst wr16 wr mem_set wset inc16] in E2. cbv_struct_in E2.
  split.
  - subst r1; cbv_struct; repeat split.
  - subst r2; cbv_struct; repeat split.
Qed.

(* the same for the GENERATED Step *)
From Z80V Require Import Proofs.Iter.
Theorem deferred_im1_gen cpu dat : WF cpu -> g_Memory cpu = UserMem ->
  g_Interrupt cpu = Some (mk_Interrupt 1 dat) -> g_IFF1 cpu = false -> g_IM cpu = 1 ->
  u8 (ram (g_W cpu) (g_PC cpu)) = 251 ->
  let next := u16 (g_PC cpu + 1) in
  let sp2 := u16 (g_SP cpu - 2) in let sp1 := u16 (sp2 + 1) in
  let cpu1 := iter 1 cpu in let cpu2 := iter 2 cpu in
  (g_Interrupt cpu1 = Some (mk_Interrupt 1 dat) /\ g_IFF1 cpu1 = true /\ g_IFF2 cpu1 = true /\ g_PC cpu1 = next /\
   g_SP cpu1 = g_SP cpu /\ ram (g_W cpu1) = ram (g_W cpu)) /\
  (g_Interrupt cpu2 = None /\ g_IFF1 cpu2 = false /\ g_IFF2 cpu2 = false /\ g_PC cpu2 = 56 /\ g_SP cpu2 = sp2 /\
   g_GPR cpu2 = g_GPR cpu /\ g_Alternate cpu2 = g_Alternate cpu /\ g_IX cpu2 = g_IX cpu /\ g_IY cpu2 = g_IY cpu /\
   g_IM cpu2 = g_IM cpu /\ g_IR_Hi cpu2 = g_IR_Hi cpu /\ g_IR_Lo cpu2 = r_tick (g_IR_Lo cpu) /\
   ram (g_W cpu2) = upd (upd (ram (g_W cpu)) sp2 (lo next)) sp1 (hi next)).
Proof.
  intros H Hm Hi Hf Him H0. cbv zeta. rewrite !iter_ok by exact H.
  exact (deferred_im1 impl_unspec cpu dat H Hm Hi Hf Him H0).
Qed.

(* the premises are satisfiable *)
Definition deferred_demo : CPU :=
  s_IM (s_Interrupt (s_W (s_SP (s_PC cpu0 4660) 36864) (mk_World (fun a => if a =? 4660 then 251 else 0) [] []))
              (Some (mk_Interrupt 1 []))) 1.
Lemma deferred_demo_premises :
  WF deferred_demo /\ g_Memory deferred_demo = UserMem /\ g_Interrupt deferred_demo = Some (mk_Interrupt 1 []) /\
  g_IFF1 deferred_demo = false /\ g_IM deferred_demo = 1 /\ u8 (ram (g_W deferred_demo) (g_PC deferred_demo)) = 251.
Proof.
  split.
  - cbv [WF WF_gpr WF_reg WF_mem WF_irq deferred_demo cpu0]; cbv_struct; unfold is8, is16; repeat split; try lia; constructor.
  - repeat split; reflexivity.
Qed.
