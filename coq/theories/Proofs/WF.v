(* Proofs/WF.v -- the bridge between the generated memory dispatch and the specification's
   (well-formed states: Proofs/WFDef.v) *)
From Z80V Require Export Proofs.Struct Spec.Exec Gen.Names Proofs.WFDef.

(* the generated dispatch (Gen/Mem.v, with im0data.Get/Set translated from cpu.go) is the
   specification's memory access *)
Lemma W_Get_ok w m a : W_Get w m a = wget w m a.
Proof.
  destruct m as [|d]; cbv [W_Get wget im0data_Get user_get_w idx_w]; [reflexivity|].
  destruct_if; [reflexivity|]. destruct_if; reflexivity.
Qed.
Lemma W_Set_ok w m a v : W_Set w m a v = wset w m a v.
Proof.
  destruct m as [|d]; cbv [W_Set wset im0data_Set user_set_w]; [reflexivity|].
  destruct_if; reflexivity.
Qed.
Lemma Mem_Get_ok cpu m a : Mem_Get cpu m a = mem_get cpu m a.
Proof. unfold Mem_Get, mem_get. rewrite W_Get_ok. reflexivity. Qed.
Lemma Mem_Set_ok cpu m a v : Mem_Set cpu m a v = mem_set cpu m a v.
Proof. unfold Mem_Set, mem_set. rewrite W_Set_ok. reflexivity. Qed.

