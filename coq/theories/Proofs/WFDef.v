(* Proofs/WFDef.v -- well-formed machine states: every field within its Go type (no dependency on Gen/) *)
From Z80V Require Export Proofs.SpecTac.

Definition WF_reg (r : Register) := is8 (Register_Hi r) /\ is8 (Register_Lo r).
Definition WF_gpr (g : GPR) := WF_reg (GPR_AF g) /\ WF_reg (GPR_BC g) /\ WF_reg (GPR_DE g) /\ WF_reg (GPR_HL g).
Definition WF_mem (m : MemRef) := match m with UserMem => True | Im0Mem d => Forall is8 (im0data_data d) end.
Definition WF_irq (o : option Interrupt) := match o with None => True | Some i => Forall is8 (Interrupt_Data i) end.
Definition WF (cpu : CPU) :=
  WF_gpr (g_GPR cpu) /\ WF_gpr (g_Alternate cpu) /\ WF_reg (g_IR cpu) /\
  is16 (g_IX cpu) /\ is16 (g_IY cpu) /\ is16 (g_SP cpu) /\ is16 (g_PC cpu) /\
  WF_mem (g_Memory cpu) /\ WF_irq (g_Interrupt cpu).

(* a fixed state used to read off the pure part of a generated helper *)
Definition cpu0 : CPU :=
  mk_CPU (mk_States (mk_GPR (mk_Register 0 0) (mk_Register 0 0) (mk_Register 0 0) (mk_Register 0 0))
           (mk_SPR (mk_Register 0 0) 0 0 0 0)
           (mk_GPR (mk_Register 0 0) (mk_Register 0 0) (mk_Register 0 0) (mk_Register 0 0)) false false 0)
    UserMem false false false None None false (mk_World (fun _ => 0) [] []).
Example cpu0_WF : WF cpu0.
Proof. cbv [WF WF_gpr WF_reg WF_mem WF_irq cpu0]; cbv_struct; unfold is8, is16; repeat split; try lia. Qed.

Ltac destruct_if :=
  match goal with |- context [if ?c then _ else _] => destruct c eqn:? end.
Ltac wf_destruct H :=
  cbv [WF WF_gpr WF_reg] in H; cbv_struct_in H; decompose [and] H; clear H.

(* bytes come out of memory *)
Lemma nth_Z_byte i l : Forall is8 l -> is8 (nth_Z i l).
Proof.
  intros H. unfold nth_Z. destruct (nth_in_or_default (Z.to_nat i) l 0) as [Hin| ->].
  - rewrite Forall_forall in H. apply H, Hin.
  - unfold is8; lia.
Qed.
Lemma wget_byte w m a : WF_mem m -> is8 (snd (wget w m a)).
Proof.
  intros H. destruct m as [|d]; cbv [wget]; cbv_struct; [apply is8_u8|].
  destruct_if; cbv_struct; [apply is8_u8|].
  destruct_if; cbv_struct; [apply nth_Z_byte, H | unfold is8; lia].
Qed.
#[global] Hint Resolve wget_byte nth_Z_byte : ranges.
