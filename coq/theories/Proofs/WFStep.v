(* Proofs/WFStep.v -- the specification's step keeps the state well formed (every field within its Go type):
   lifted from the per-instruction facts of SpecAllWF.v through decoding, fetching, prefixes and interrupts. *)
From Z80V Require Export Proofs.SpecAllWF Proofs.SpecAllEnv.

(* ---- the decoders only produce bit numbers 0..7 and 16-bit restart addresses (all 256 bytes, each table) ---- *)
Definition instr_okb (i : instr) : bool :=
  match i with
  | SET b _ | RES b _ | BIT b _ => (0 <=? b) && (b <? 8)
  | RST t => (0 <=? t) && (t <? 65536)
  | _ => true
  end.
Lemma instr_okb_ok i : instr_okb i = true -> instr_ok i.
Proof. destruct i; cbn [instr_okb instr_ok]; intros H; try exact I; unfold is16; lia. Qed.
Lemma decode_main_ok c : is8 c -> instr_ok (decode_main c).
Proof. intros H. apply instr_okb_ok. revert c H. apply forall_byte. vm_compute. reflexivity. Qed.
Lemma decode_cb_ok c : is8 c -> instr_ok (decode_cb c).
Proof. intros H. apply instr_okb_ok. revert c H. apply forall_byte. vm_compute. reflexivity. Qed.
Lemma decode_ed_ok c : is8 c -> instr_ok (decode_ed c).
Proof. intros H. apply instr_okb_ok. revert c H. apply forall_byte. vm_compute. reflexivity. Qed.
Lemma decode_idx_ok c : is8 c -> instr_ok (decode_idx c).
Proof. intros H. apply instr_okb_ok. revert c H. apply forall_byte. vm_compute. reflexivity. Qed.
Lemma decode_idxcb_ok c : is8 c -> instr_ok (decode_idxcb c).
Proof. intros H. apply instr_okb_ok. revert c H. apply forall_byte. vm_compute. reflexivity. Qed.

(* ---- fetching ---- *)
Lemma fetch8_wf cpu : WF cpu -> WF (fst (fetch8 cpu)) /\ is8 (snd (fetch8 cpu)).
Proof.
  open_cpu cpu. intros H. wf_open H. cbv beta iota zeta delta [fetch8 rd mem_get]. cbv_struct.
  pose proof (wget_byte w mem pc ltac:(assumption)) as Hb. destruct (wget w mem pc) as [w1 v]. cbn [fst snd] in *.
  split; [wf_close | exact Hb].
Qed.
Lemma fetch_m1_wf cpu : WF cpu -> WF (fst (fetch_m1 cpu)) /\ is8 (snd (fetch_m1 cpu)).
Proof.
  open_cpu cpu. intros H. wf_open H. cbv beta iota zeta delta [fetch_m1 fetch8 rd mem_get]. cbv_struct.
  pose proof (wget_byte w mem pc ltac:(assumption)) as Hb. destruct (wget w mem pc) as [w1 v]. cbn [fst snd] in *.
  split; [wf_close | exact Hb].
Qed.

Lemma exec_idx_wf u m c cpu : is8 c -> WF cpu -> WF (exec_idx u m c cpu).
Proof.
  intros Hc H. unfold exec_idx. pose proof (decode_idx_ok c Hc) as Hi.
  destruct (decode_idx c) eqn:E; try (apply exec_wf; assumption).
  destruct (fetch8_wf cpu H) as [H1 Hd]. destruct (fetch8 cpu) as [cpu1 d]. cbn [fst snd] in *.
  destruct (u_cbidx_ticks u).
  - destruct (fetch_m1_wf cpu1 H1) as [H2 Hc3]. destruct (fetch_m1 cpu1) as [cpu2 c3]. cbn [fst snd] in *.
    apply exec_idxcb_wf; [apply decode_idxcb_ok, Hc3 | exact H2].
  - destruct (fetch8_wf cpu1 H1) as [H2 Hc3]. destruct (fetch8 cpu1) as [cpu2 c3]. cbn [fst snd] in *.
    apply exec_idxcb_wf; [apply decode_idxcb_ok, Hc3 | exact H2].
Qed.
Lemma step_idx_wf u m cpu : WF cpu -> WF (step_idx u m cpu).
Proof.
  intros H. unfold step_idx. destruct (fetch_m1_wf cpu H) as [H1 Hc]. destruct (fetch_m1 cpu) as [cpu1 c1]. cbn [fst snd] in *.
  apply exec_idx_wf; assumption.
Qed.
Lemma step_instr_wf u cpu : WF cpu -> WF (step_instr u cpu).
Proof.
  intros H. unfold step_instr. destruct (fetch_m1_wf cpu H) as [H1 Hc]. destruct (fetch_m1 cpu) as [cpu1 c0]. cbn [fst snd] in *.
  pose proof (decode_main_ok c0 Hc) as Hi.
  destruct (decode_main c0) eqn:E; try (apply exec_wf; assumption); try (apply step_idx_wf; assumption).
  - destruct (fetch_m1_wf cpu1 H1) as [H2 Hc1]. destruct (fetch_m1 cpu1) as [cpu2 c1]. cbn [fst snd] in *.
    apply exec_wf; [apply decode_cb_ok, Hc1 | exact H2].
  - destruct (fetch_m1_wf cpu1 H1) as [H2 Hc1]. destruct (fetch_m1 cpu1) as [cpu2 c1]. cbn [fst snd] in *.
    apply exec_wf; [apply decode_ed_ok, Hc1 | exact H2].
Qed.

(* ---- interrupt acceptance ---- *)
Lemma accept_nmi_wf cpu : WF cpu -> WF (accept_nmi cpu).
Proof. open_cpu cpu. intros H. wf_open H. cbv beta iota zeta delta [accept_nmi push16_lowfirst wr16 wr mem_set]. wf_close. Qed.
Lemma accept_im1_wf cpu : WF cpu -> WF (accept_im1 cpu).
Proof. open_cpu cpu. intros H. wf_open H. cbv beta iota zeta delta [accept_im1 disable_both push16_lowfirst wr16 wr mem_set]. wf_close. Qed.
Lemma accept_im2_wf cpu v : WF cpu -> WF (accept_im2 cpu v).
Proof.
  open_cpu cpu. intros H. wf_open H.
  cbv beta iota zeta delta [accept_im2 disable_both push16_lowfirst wr16 rd16 rd wr mem_get mem_set]. cbv_struct.
  repeat match goal with |- context [wget ?w0 ?m0 ?a0] =>
    lazymatch goal with H : is8 (snd (wget w0 m0 a0)) |- _ => fail | _ => idtac end;
    pose proof (wget_byte w0 m0 a0 ltac:(assumption)) end.
  wf_close.
Qed.
Lemma WF_set_memory cpu m : WF cpu -> WF_mem m -> WF (s_Memory cpu m).
Proof. open_cpu cpu. intros H Hm. wf_open H. wf_close. Qed.
Lemma WF_disable_both cpu : WF cpu -> WF (disable_both cpu).
Proof. open_cpu cpu. intros H. wf_open H. unfold disable_both. wf_close. Qed.
Lemma WF_memory_of cpu : WF cpu -> WF_mem (g_Memory cpu).
Proof. open_cpu cpu. intros H. wf_open H. assumption. Qed.
Lemma accept_im0_wf u cpu d : WF cpu -> Forall is8 d -> WF (accept_im0 u cpu d).
Proof.
  intros H Hd. unfold accept_im0. cbv zeta. apply WF_disable_both. apply WF_set_memory; [|apply WF_memory_of, H].
  apply step_instr_wf. apply WF_set_memory; [exact H|]. exact Hd.
Qed.
Lemma WF_clear_request cpu : WF cpu -> WF (s_Interrupt cpu None).
Proof. open_cpu cpu. intros H. wf_open H. cbv [WF WF_gpr WF_reg WF_irq]; cbv_struct; splits_wf; try rng; exact I. Qed.

Theorem spec_step_wf u cpu : WF cpu -> WF (spec_step u cpu).
Proof.
  intros H. unfold spec_step. destruct (g_Interrupt cpu) as [rq|] eqn:Eq; [|apply step_instr_wf, H].
  rename rq into irq0.
  assert (Hd : Forall is8 (Interrupt_Data irq0)).
  { revert Eq. open_cpu cpu. cbv_struct. intros ->. wf_open H. assumption. }
  unfold try_interrupt.
  destruct (Interrupt_Type irq0 =? NMI_type). { apply WF_clear_request, accept_nmi_wf, H. }
  destruct (negb (g_IFF1 cpu)); [apply step_instr_wf, H|].
  destruct (g_IM cpu) as [|p|p]; [ | | apply step_instr_wf, H].
  - apply WF_clear_request. destruct (Interrupt_Data irq0) eqn:Ed; [exact H|]. apply accept_im0_wf; assumption.
  - destruct p as [p|p|]; try (apply step_instr_wf, H).
    + destruct p; try (apply step_instr_wf, H). apply WF_clear_request.
      destruct (Interrupt_Data irq0); [exact H | apply accept_im2_wf, H].
    + apply WF_clear_request, accept_im1_wf, H.
Qed.
Theorem spec_iter_wf u n : forall cpu, WF cpu -> WF (spec_iter u n cpu).
Proof. induction n as [|n IH]; intros cpu H; cbn [spec_iter]; [exact H | apply IH, spec_step_wf, H]. Qed.
