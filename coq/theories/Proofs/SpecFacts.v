(* Proofs/SpecFacts.v -- consequences of the specification (Spec/Exec.v) used to state the properties:
   these are theorems about the hand-written Z80 semantics; Proofs/Interrupt.v ties the generated code to it. *)
From Z80V Require Export Proofs.Interrupt.
From Z80V Require Import Proofs.SpecTac.

(* ---- where the unspecified bits can matter ---- *)
Definition unspec_sensitive (i : instr) : bool :=
  match i with
  | SCF | CCF => true
  | BIT _ MemHL | BIT _ Imm => true
  | BLOCK BIN _ _ | BLOCK BOUT _ _ => true
  | _ => false
  end.
Lemma exec_unspec_confined u u' m i cpu : unspec_sensitive i = false -> exec u m i cpu = exec u' m i cpu.
Proof.
  destruct i; cbn [unspec_sensitive]; intros E; try discriminate; try reflexivity.
  - destruct d; try discriminate; reflexivity.
  - destruct k; try discriminate; reflexivity.
Qed.
(* and then only through bits 5,3 of F (SCF, CCF, BIT on memory) *)
Lemma scf_specified f x x' : is8 f -> is8 x -> is8 x' -> Z.land (scf8 f x) 215 = Z.land (scf8 f x') 215.
Proof. intros Hf Hx Hx'. unfold scf8, f53, FS, FZ, FPV, FC.
  transitivity (Z.land f 196 + 1).
  - enum2 f x.
  - symmetry. enum2 f x'.
Qed.
Lemma ccf_specified f x x' : is8 f -> is8 x -> is8 x' -> Z.land (ccf8 f x) 215 = Z.land (ccf8 f x') 215.
Proof. intros Hf Hx Hx'. unfold ccf8, f53, FS, FZ, FPV, FC, FH, b2z.
  transitivity (Z.land f 196 + (if Z.testbit f 0 then 16 else 0) + (if negb (Z.testbit f 0) then 1 else 0)).
  - enum2 f x.
  - symmetry. enum2 f x'.
Qed.

(* ---- C02: the result of an ALU instruction does not depend on how the operand is encoded ---- *)
Lemma alu_any_operand u m o s cpu :
  exec u m (ALU8 o s) cpu =
  let '(cpu', v) := rd_opnd m (is_mem s) s cpu in
  set_F (set_A cpu' (fst (alu8 o (get_A cpu') v (get_F cpu')))) (snd (alu8 o (get_A cpu') v (get_F cpu'))).
Proof. cbn [exec]. destruct (rd_opnd m (is_mem s) s cpu) as [cpu' v]. destruct (alu8 o _ _ _). reflexivity. Qed.

(* ---- C04: conditions ---- *)
Lemma cond_table f :
  cond NZ f = negb (Z.testbit f 6) /\ cond Z_ f = Z.testbit f 6 /\
  cond NC f = negb (Z.testbit f 0) /\ cond C_ f = Z.testbit f 0 /\
  cond PO f = negb (Z.testbit f 2) /\ cond PE f = Z.testbit f 2 /\
  cond P_ f = negb (Z.testbit f 7) /\ cond M_ f = Z.testbit f 7.
Proof. repeat split. Qed.

(* fetching changes PC and the world only *)
Lemma fetch8_frame cpu : let cpu' := fst (fetch8 cpu) in
  g_GPR cpu' = g_GPR cpu /\ g_Alternate cpu' = g_Alternate cpu /\ g_IR cpu' = g_IR cpu /\
  g_IX cpu' = g_IX cpu /\ g_IY cpu' = g_IY cpu /\ g_SP cpu' = g_SP cpu /\ g_PC cpu' = inc16 (g_PC cpu) /\
  g_IFF1 cpu' = g_IFF1 cpu /\ g_IFF2 cpu' = g_IFF2 cpu /\ g_IM cpu' = g_IM cpu /\ g_HALT cpu' = g_HALT cpu /\
  g_Memory cpu' = g_Memory cpu /\ g_Interrupt cpu' = g_Interrupt cpu.
Proof. cbv beta iota zeta delta [fetch8 rd mem_get]. cbv_struct. repeat split. Qed.
Lemma fetch16_frame cpu : let cpu' := fst (Spec.Exec.fetch16 cpu) in
  g_GPR cpu' = g_GPR cpu /\ g_Alternate cpu' = g_Alternate cpu /\ g_IR cpu' = g_IR cpu /\
  g_IX cpu' = g_IX cpu /\ g_IY cpu' = g_IY cpu /\ g_SP cpu' = g_SP cpu /\ g_PC cpu' = inc16 (inc16 (g_PC cpu)) /\
  g_IFF1 cpu' = g_IFF1 cpu /\ g_IFF2 cpu' = g_IFF2 cpu /\ g_IM cpu' = g_IM cpu /\ g_HALT cpu' = g_HALT cpu /\
  g_Memory cpu' = g_Memory cpu /\ g_Interrupt cpu' = g_Interrupt cpu.
Proof. cbv beta iota zeta delta [Spec.Exec.fetch16 fetch8 rd mem_get]. cbv_struct. repeat split. Qed.

(* conditional control transfer: taken iff the condition holds in the current F; an untaken form only
   consumes its operand bytes (PC advanced, no stack access, no flag change) *)
Lemma jp_cc_spec u m c cpu :
  exec u m (JP_cc c) cpu =
  let cpu1 := fst (Spec.Exec.fetch16 cpu) in let a := snd (Spec.Exec.fetch16 cpu) in
  if cond c (get_F cpu) then s_PC cpu1 a else cpu1.
Proof.
  cbn [exec]. destruct (Spec.Exec.fetch16 cpu) as [cpu1 a] eqn:E. cbn [fst snd].
  replace (get_F cpu1) with (get_F cpu); [reflexivity|].
  pose proof (fetch16_frame cpu) as F. rewrite E in F. cbn [fst] in F. destruct F as (F & _).
  unfold get_F. cbv_struct. cbv_struct_in F. rewrite F. reflexivity.
Qed.
Lemma jr_cc_spec u m c cpu :
  exec u m (JR_cc c) cpu =
  let cpu1 := fst (fetch8 cpu) in let d := snd (fetch8 cpu) in
  if cond c (get_F cpu) then s_PC cpu1 (disp (inc16 (g_PC cpu)) d) else cpu1.
Proof.
  cbn [exec]. destruct (fetch8 cpu) as [cpu1 d] eqn:E. cbn [fst snd].
  pose proof (fetch8_frame cpu) as F. rewrite E in F. cbn [fst] in F. destruct F as (F & _ & _ & _ & _ & _ & P & _).
  replace (get_F cpu1) with (get_F cpu).
  - unfold jump_rel. rewrite P. reflexivity.
  - unfold get_F. cbv_struct. cbv_struct_in F. rewrite F. reflexivity.
Qed.
Lemma call_cc_spec u m c cpu :
  exec u m (CALL_cc c) cpu =
  let cpu1 := fst (Spec.Exec.fetch16 cpu) in let a := snd (Spec.Exec.fetch16 cpu) in
  if cond c (get_F cpu) then s_PC (push16 cpu1 (inc16 (inc16 (g_PC cpu)))) a else cpu1.
Proof.
  cbn [exec]. destruct (Spec.Exec.fetch16 cpu) as [cpu1 a] eqn:E. cbn [fst snd].
  pose proof (fetch16_frame cpu) as F. rewrite E in F. cbn [fst] in F. destruct F as (F & _ & _ & _ & _ & _ & P & _).
  replace (get_F cpu1) with (get_F cpu).
  - rewrite P. reflexivity.
  - unfold get_F. cbv_struct. cbv_struct_in F. rewrite F. reflexivity.
Qed.
Lemma ret_cc_spec u m c cpu :
  exec u m (RET_cc c) cpu = if cond c (get_F cpu) then exec u m RET cpu else cpu.
Proof. reflexivity. Qed.
Lemma djnz_spec u m cpu :
  exec u m DJNZ cpu =
  let cpu1 := fst (fetch8 cpu) in let d := snd (fetch8 cpu) in
  let b' := u8 (g_BC_Hi cpu - 1) in
  if b' =? 0 then s_BC_Hi cpu1 b' else s_PC (s_BC_Hi cpu1 b') (disp (inc16 (g_PC cpu)) d).
Proof.
  cbn [exec]. destruct (fetch8 cpu) as [cpu1 d] eqn:E. cbn [fst snd].
  pose proof (fetch8_frame cpu) as F. rewrite E in F. cbn [fst] in F. destruct F as (F & _ & _ & _ & _ & _ & P & _).
  assert (B : g_BC_Hi cpu1 = g_BC_Hi cpu) by (cbv_struct; cbv_struct_in F; rewrite F; reflexivity).
  rewrite B. destruct (u8 (g_BC_Hi cpu - 1) =? 0); cbn [negb]; [reflexivity|].
  unfold jump_rel. f_equal. cbv_struct. cbv_struct_in P. rewrite P. reflexivity.
Qed.
(* the stack discipline of CALL / RST / PUSH: high byte at SP-1, low byte at SP-2, SP lowered by 2 (mod 65536) *)
Lemma push16_spec cpu w :
  push16 cpu w =
  s_SP (wr (wr cpu (dec16 (g_SP cpu)) (hi w)) (dec16 (dec16 (g_SP cpu))) (lo w)) (dec16 (dec16 (g_SP cpu))).
Proof. cbv beta iota zeta delta [push16 wr mem_set]. cbv_struct. reflexivity. Qed.
Lemma push16_lowfirst_spec cpu w :
  push16_lowfirst cpu w =
  s_SP (wr (wr cpu (u16 (g_SP cpu - 2)) (lo w)) (inc16 (u16 (g_SP cpu - 2))) (hi w)) (u16 (g_SP cpu - 2)).
Proof. cbv beta iota zeta delta [push16_lowfirst wr16 wr mem_set]. cbv_struct. reflexivity. Qed.
Lemma dec16_twice x : dec16 (dec16 x) = u16 (x - 2).
Proof. unfold dec16. rewrite u16_sub_u16_l. f_equal. lia. Qed.
Lemma inc16_dec16 x : is16 x -> inc16 (u16 (x - 2)) = dec16 x.
Proof. intros H. unfold inc16, dec16. rewrite u16_add_u16_l. f_equal. lia. Qed.

(* ---- C05: what one Step does to the user's memory and ports, read off the access log ---- *)
(* the log entries made since w0 (the log grows at the front) *)
Definition new_events (w0 w1 : World) : list event := firstn (length (trace w1) - length (trace w0)) (trace w1).
Lemma new_events_app w0 es tr ra inp : trace w0 = tr -> new_events w0 (mk_World ra (es ++ tr) inp) = es.
Proof.
  intros <-. unfold new_events. cbn [trace]. rewrite app_length.
  replace (length es + length (trace w0) - length (trace w0))%nat with (length es) by lia.
  rewrite firstn_app, Nat.sub_diag, firstn_all. cbn [firstn]. apply app_nil_r.
Qed.
(* with the user's memory installed, a read logs exactly one EvRd with the byte returned, a write exactly one EvWr *)
Lemma wget_user w a : wget w UserMem a = (mk_World (ram w) (EvRd a (u8 (ram w a)) :: trace w) (inputs w), u8 (ram w a)).
Proof. reflexivity. Qed.
Lemma wset_user w a v : wset w UserMem a v = mk_World (upd (ram w) a v) (EvWr a v :: trace w) (inputs w).
Proof. reflexivity. Qed.
Ltac user_mem cpu E := open_cpu cpu; cbv_struct_in E; subst.
Ltac log_norm := spec_unfold; cbv_struct; cbv beta iota zeta delta [wget wset inc8 dec8]; cbv_struct.
(* the instruction bytes: the opcode fetch reads exactly the byte at PC, once *)
Lemma fetch8_log cpu : g_Memory cpu = UserMem ->
  new_events (g_W cpu) (g_W (fst (fetch8 cpu))) = [EvRd (g_PC cpu) (snd (fetch8 cpu))].
Proof. intros E. user_mem cpu E. log_norm. apply (new_events_app _ [EvRd _ _]). reflexivity. Qed.
(* an untaken conditional jump / call touches nothing but its own operand bytes *)
Lemma jp_cc_untaken_log u m c0 cpu : g_Memory cpu = UserMem -> cond c0 (get_F cpu) = false ->
  new_events (g_W cpu) (g_W (exec u m (JP_cc c0) cpu)) =
  [EvRd (inc16 (g_PC cpu)) (u8 (ram (g_W cpu) (inc16 (g_PC cpu)))); EvRd (g_PC cpu) (u8 (ram (g_W cpu) (g_PC cpu)))].
Proof.
  intros E Hc. rewrite jp_cc_spec. cbv zeta. rewrite Hc. user_mem cpu E. log_norm.
  apply (new_events_app _ [EvRd _ _; EvRd _ _]). reflexivity.
Qed.
Lemma call_cc_untaken_log u m c0 cpu : g_Memory cpu = UserMem -> cond c0 (get_F cpu) = false ->
  new_events (g_W cpu) (g_W (exec u m (CALL_cc c0) cpu)) =
  [EvRd (inc16 (g_PC cpu)) (u8 (ram (g_W cpu) (inc16 (g_PC cpu)))); EvRd (g_PC cpu) (u8 (ram (g_W cpu) (g_PC cpu)))].
Proof.
  intros E Hc. rewrite call_cc_spec. cbv zeta. rewrite Hc. user_mem cpu E. log_norm.
  apply (new_events_app _ [EvRd _ _; EvRd _ _]). reflexivity.
Qed.
Lemma ret_cc_untaken_log u m c0 cpu : cond c0 (get_F cpu) = false ->
  new_events (g_W cpu) (g_W (exec u m (RET_cc c0) cpu)) = [].
Proof. intros Hc. rewrite ret_cc_spec, Hc. unfold new_events. rewrite Nat.sub_diag. reflexivity. Qed.
(* read-modify-write: one read, then one write, same address *)
Lemma inc_hl_log u cpu : g_Memory cpu = UserMem ->
  let a := regw (g_HL cpu) in let x := u8 (ram (g_W cpu) a) in
  new_events (g_W cpu) (g_W (exec u MHL (INC8 MemHL) cpu)) = [EvWr a (fst (inc8 x (get_F cpu))); EvRd a x].
Proof. intros E. user_mem cpu E. log_norm. apply (new_events_app _ [EvWr _ _; EvRd _ _]). reflexivity. Qed.
(* 16-bit accesses touch addr and addr+1 modulo 65536 *)
Lemma wr16_log cpu a0 w0 : g_Memory cpu = UserMem ->
  new_events (g_W cpu) (g_W (wr16 cpu a0 w0)) = [EvWr (inc16 a0) (hi w0); EvWr a0 (lo w0)].
Proof. intros E. user_mem cpu E. log_norm. apply (new_events_app _ [EvWr _ _; EvWr _ _]). reflexivity. Qed.
(* ports: register C for IN r,(C) / OUT (C),r; the value the device returns is the value loaded *)
Lemma in_r_c_log u r0 cpu : g_IO cpu = true ->
  let v := u8 (hd 0 (inputs (g_W cpu))) in
  new_events (g_W cpu) (g_W (exec u MHL (IN_r_C r0) cpu)) = [EvIn (g_BC_Lo cpu) v] /\
  (r0 <> rC -> get_r r0 (exec u MHL (IN_r_C r0) cpu) = v).
Proof.
  intros E. user_mem cpu E. split.
  - destruct r0; log_norm; apply (new_events_app _ [EvIn _ _]); reflexivity.
  - intros Hr. destruct r0; try congruence; reflexivity.
Qed.
Lemma out_c_r_log u r0 cpu : g_IO cpu = true ->
  new_events (g_W cpu) (g_W (exec u MHL (OUT_C_r r0) cpu)) = [EvOut (g_BC_Lo cpu) (get_r r0 cpu)].
Proof. intros E. user_mem cpu E. destruct r0; log_norm; apply (new_events_app _ [EvOut _ _]); reflexivity. Qed.
(* INI/IND/INIR/INDR use port C as well; the byte the device returns is the byte stored at (HL) *)
Lemma block_in_log u dec rep cpu : g_IO cpu = true -> g_Memory cpu = UserMem ->
  let v := u8 (hd 0 (inputs (g_W cpu))) in
  new_events (g_W cpu) (g_W (exec u MHL (BLOCK BIN dec rep) cpu)) = [EvWr (regw (g_HL cpu)) v; EvIn (g_BC_Lo cpu) v].
Proof.
  intros E Em. user_mem cpu E. cbv_struct_in Em. subst. destruct dec, rep; log_norm;
    try destruct_ifs; log_norm; apply (new_events_app _ [EvWr _ _; EvIn _ _]); reflexivity.
Qed.
Lemma block_out_log u dec rep cpu : g_IO cpu = true -> g_Memory cpu = UserMem ->
  let v := u8 (ram (g_W cpu) (regw (g_HL cpu))) in
  new_events (g_W cpu) (g_W (exec u MHL (BLOCK BOUT dec rep) cpu)) = [EvOut (g_BC_Lo cpu) v; EvRd (regw (g_HL cpu)) v].
Proof.
  intros E Em. user_mem cpu E. cbv_struct_in Em. subst. destruct dec, rep; log_norm;
    try destruct_ifs; log_norm; apply (new_events_app _ [EvOut _ _; EvRd _ _]); reflexivity.
Qed.
Lemma retn_reti_log u m cpu : g_RETNHandler cpu = true -> g_RETIHandler cpu = true -> g_Memory cpu = UserMem ->
  (exists rest, new_events (g_W cpu) (g_W (exec u m RETN cpu)) = rest ++ [EvRETN] /\ ~ In EvRETN rest /\ ~ In EvRETI rest) /\
  (exists rest, new_events (g_W cpu) (g_W (exec u m RETI cpu)) = rest ++ [EvRETI] /\ ~ In EvRETN rest /\ ~ In EvRETI rest) /\
  g_IFF1 (exec u m RETN cpu) = g_IFF2 cpu.
Proof.
  intros En Ei Em. user_mem cpu En. cbv_struct_in Ei. cbv_struct_in Em. subst. repeat split.
  - eexists [EvRd _ _; EvRd _ _]. split; [|split; intros [H|[H|[]]]; discriminate H].
    log_norm. apply (new_events_app _ [EvRd _ _; EvRd _ _; EvRETN]). reflexivity.
  - eexists [EvRd _ _; EvRd _ _]. split; [|split; intros [H|[H|[]]]; discriminate H].
    log_norm. apply (new_events_app _ [EvRd _ _; EvRd _ _; EvRETI]). reflexivity.
Qed.

(* ---- C09: one element of a block instruction ---- *)
Lemma ld_element u (dec : bool) cpu : g_Memory cpu = UserMem ->
  let step := fun w : Z => if dec then u16 (w - 1) else u16 (w + 1) in
  let hl := regw (g_HL cpu) in let de := regw (g_DE cpu) in let bc := regw (g_BC cpu) in
  let cpu' := block_step u BLD dec cpu in
  g_HL cpu' = wreg (step hl) /\ g_DE cpu' = wreg (step de) /\ g_BC cpu' = wreg (u16 (bc - 1)) /\
  ram (g_W cpu') = upd (ram (g_W cpu)) de (u8 (ram (g_W cpu) hl)) /\ g_PC cpu' = g_PC cpu /\
  get_F cpu' = ldx_flags (get_A cpu) (u8 (ram (g_W cpu) hl)) (u16 (bc - 1)) (get_F cpu).
Proof. intros E. user_mem cpu E. destruct dec; log_norm; repeat split. Qed.
Lemma cp_element u (dec : bool) cpu : g_Memory cpu = UserMem ->
  let step := fun w : Z => if dec then u16 (w - 1) else u16 (w + 1) in
  let hl := regw (g_HL cpu) in let bc := regw (g_BC cpu) in
  let cpu' := block_step u BCP dec cpu in
  g_HL cpu' = wreg (step hl) /\ g_BC cpu' = wreg (u16 (bc - 1)) /\ ram (g_W cpu') = ram (g_W cpu) /\ get_A cpu' = get_A cpu /\
  get_F cpu' = cpx_flags (get_A cpu) (u8 (ram (g_W cpu) hl)) (u16 (bc - 1)) (get_F cpu).
Proof. intros E. user_mem cpu E. destruct dec; log_norm; repeat split. Qed.
Lemma io_element u (dec : bool) cpu : g_IO cpu = true -> g_Memory cpu = UserMem ->
  let step := fun w : Z => if dec then u16 (w - 1) else u16 (w + 1) in
  g_BC_Hi (block_step u BIN dec cpu) = u8 (g_BC_Hi cpu - 1) /\ g_HL (block_step u BIN dec cpu) = wreg (step (regw (g_HL cpu))) /\
  g_BC_Hi (block_step u BOUT dec cpu) = u8 (g_BC_Hi cpu - 1) /\ g_HL (block_step u BOUT dec cpu) = wreg (step (regw (g_HL cpu))).
Proof. intros E Em. user_mem cpu E. cbv_struct_in Em. subst. destruct dec; log_norm; repeat split. Qed.
Lemma block_step_pc u k (dec : bool) cpu : g_PC (block_step u k dec cpu) = g_PC cpu.
Proof. open_cpu cpu. destruct k, dec; log_norm; try reflexivity; destruct_ifs; log_norm; reflexivity. Qed.

(* ---- C12: the only run-time check of Step that could fail is the index into the mode-0 overlay ---- *)
Lemma overlay_index_in_range pc data a : is16 pc -> is16 a -> data <> [] ->
  let d := im0_overlay pc data in
  (a <? im0data_start d) || (a >? im0data_end d) = false ->
  in_range (u16 (a - im0data_start d)) (im0data_data d) = true.
Proof.
  intros Hpc Ha Hne d Hin. unfold d, im0_overlay in *. cbv_struct. cbv_struct_in Hin.
  assert (Hl : 1 <= len_Z data).
  { unfold len_Z. destruct data; [congruence|]. cbn [length]. lia. }
  rewrite !u16_mod in *.
  set (x := (len_Z data - 1) mod 65536) in *.
  assert (Hx : 0 <= x < 65536) by (apply Z.mod_pos_bound; lia).
  assert (Hx2 : x <= len_Z data - 1) by (unfold x; apply Z.mod_le; lia).
  unfold is16 in *. unfold in_range.
  destruct (Z_lt_dec (pc + x) 65536) as [Hs|Hs].
  - rewrite (Z.mod_small (pc + x)) in Hin by lia.
    assert (pc <= a <= pc + x) by lia. rewrite Z.mod_small by lia. lia.
  - assert (E : (pc + x) mod 65536 = pc + x - 65536).
    { symmetry. apply Z.mod_unique with (q := 1); lia. }
    rewrite E in Hin. lia.
Qed.
(* hence reading through the overlay never takes the panic branch *)
Lemma overlay_read_no_panic w pc data a : is16 pc -> is16 a -> data <> [] ->
  trace (fst (wget w (Im0Mem (im0_overlay pc data)) a)) = trace w \/
  exists v, trace (fst (wget w (Im0Mem (im0_overlay pc data)) a)) = EvRd a v :: trace w.
Proof.
  intros Hpc Ha Hne. cbv beta iota zeta delta [wget].
  destruct ((a <? im0data_start (im0_overlay pc data)) || (a >? im0data_end (im0_overlay pc data))) eqn:E.
  - right. eexists. reflexivity.
  - rewrite (overlay_index_in_range pc data a Hpc Ha Hne E). left. reflexivity.
Qed.
(* LD A,I / LD A,R flags: S and Z from the value, H = N = 0, P/V = IFF2, C preserved, bits 5,3 from the value *)
Lemma ldair_bits v (i : bool) f : is8 v -> is8 f ->
  let r := ldair_flags v i f in
  Z.testbit r 7 = Z.testbit v 7 /\ Z.testbit r 6 = (v =? 0) /\ Z.testbit r 5 = Z.testbit v 5 /\ Z.testbit r 4 = false /\
  Z.testbit r 3 = Z.testbit v 3 /\ Z.testbit r 2 = i /\ Z.testbit r 1 = false /\ Z.testbit r 0 = Z.testbit f 0.
Proof.
  intros Hv Hf. destruct i; cbv beta iota zeta delta [ldair_flags b2z FPV FC sz53 FZ]; repeat split; benum2 v f.
Qed.
Lemma fetch_m1_ir cpu : g_IR (fst (fetch_m1 cpu)) = mk_Register (g_IR_Hi cpu) (r_tick (g_IR_Lo cpu)).
Proof. cbv beta iota zeta delta [fetch_m1 fetch8 rd mem_get]. cbv_struct. reflexivity. Qed.
Lemma fetch8_ir cpu : g_IR (fst (fetch8 cpu)) = g_IR cpu.
Proof. cbv beta iota zeta delta [fetch8 rd mem_get]. cbv_struct. reflexivity. Qed.
Lemma r_tick_bits r : is8 r -> Z.testbit (r_tick r) 7 = Z.testbit r 7 /\ Z.land (r_tick r) 127 = (Z.land r 127 + 1) mod 128.
Proof. intros Hr. unfold r_tick. split; [benum1 r | enum1 r]. Qed.

Lemma degenerate_requests u cpu t :
  try_interrupt u (s_IM cpu 0) (mk_Interrupt (Z.pos t) []) = (if g_IFF1 cpu then Some (s_IM cpu 0) else None) /\
  try_interrupt u (s_IM cpu 2) (mk_Interrupt (Z.pos t) []) = (if g_IFF1 cpu then Some (s_IM cpu 2) else None) /\
  try_interrupt u (s_IM cpu (-1)) (mk_Interrupt (Z.pos t) []) = None /\
  try_interrupt u (s_IM cpu 3) (mk_Interrupt (Z.pos t) []) = None.
Proof.
  open_cpu cpu. unfold try_interrupt, NMI_type. cbn [Interrupt_Type Interrupt_Data]. change (Z.pos t =? 0) with false.
  cbv_struct. destruct iff1; cbn [negb]; repeat split; reflexivity.
Qed.
