(* Proofs/Tables.v -- the seven decode tables, assembled from their shards.  Written by tools/gen_tables.py.
   For every opcode byte of every table and every well-formed state, the generated dispatch arm
   equals the specification's execution of the decoded instruction (exact equality of states,
   memory/port access trace included). *)
From Z80V Require Import Proofs.TableTac.
From Z80V Require Import Proofs.Tab_main_000 Proofs.Tab_main_032 Proofs.Tab_main_064 Proofs.Tab_main_096 Proofs.Tab_main_128 Proofs.Tab_main_160 Proofs.Tab_main_192 Proofs.Tab_main_224 Proofs.Tab_cb_000 Proofs.Tab_cb_032 Proofs.Tab_cb_064 Proofs.Tab_cb_096 Proofs.Tab_cb_128 Proofs.Tab_cb_160 Proofs.Tab_cb_192 Proofs.Tab_cb_224 Proofs.Tab_ed_000 Proofs.Tab_ed_032 Proofs.Tab_ed_064 Proofs.Tab_ed_096 Proofs.Tab_ed_128 Proofs.Tab_ed_160 Proofs.Tab_ed_192 Proofs.Tab_ed_224 Proofs.Tab_dd_000 Proofs.Tab_dd_032 Proofs.Tab_dd_064 Proofs.Tab_dd_096 Proofs.Tab_dd_128 Proofs.Tab_dd_160 Proofs.Tab_dd_192 Proofs.Tab_dd_224 Proofs.Tab_fd_000 Proofs.Tab_fd_032 Proofs.Tab_fd_064 Proofs.Tab_fd_096 Proofs.Tab_fd_128 Proofs.Tab_fd_160 Proofs.Tab_fd_192 Proofs.Tab_fd_224 Proofs.Tab_ddcb_000 Proofs.Tab_ddcb_032 Proofs.Tab_ddcb_064 Proofs.Tab_ddcb_096 Proofs.Tab_ddcb_128 Proofs.Tab_ddcb_160 Proofs.Tab_ddcb_192 Proofs.Tab_ddcb_224 Proofs.Tab_fdcb_000 Proofs.Tab_fdcb_032 Proofs.Tab_fdcb_064 Proofs.Tab_fdcb_096 Proofs.Tab_fdcb_128 Proofs.Tab_fdcb_160 Proofs.Tab_fdcb_192 Proofs.Tab_fdcb_224.

Lemma covered (ops excl : list Z) :
  forallb (fun c => inb c excl || inb c ops) (map Z.of_nat (seq 0 256)) = true ->
  forall c, 0 <= c < 256 -> ~ In c excl -> In c ops.
Proof.
  intros H c Hc Hn. rewrite forallb_forall in H.
  assert (Hi : In c (map Z.of_nat (seq 0 256))).
  { apply in_map_iff. exists (Z.to_nat c). split; [lia|]. apply in_seq. lia. }
  specialize (H c Hi). apply orb_prop in H. unfold inb in H. rewrite !existsb_exists in H.
  destruct H as [(x & Hx & E)|(x & Hx & E)]; apply Z.eqb_eq in E; subst x; [contradiction|assumption].
Qed.

Definition ops_tab_main_000 : list Z := [0; 1; 2; 3; 4; 5; 6; 7; 8; 9; 10; 11; 12; 13; 14; 15; 16; 17; 18; 19; 20; 21; 22; 23; 24; 25; 26; 27; 28; 29; 30; 31].
Definition ops_tab_main_032 : list Z := [32; 33; 34; 35; 36; 37; 38; 39; 40; 41; 42; 43; 44; 45; 46; 47; 48; 49; 50; 51; 52; 53; 54; 55; 56; 57; 58; 59; 60; 61; 62; 63].
Definition ops_tab_main_064 : list Z := [64; 65; 66; 67; 68; 69; 70; 71; 72; 73; 74; 75; 76; 77; 78; 79; 80; 81; 82; 83; 84; 85; 86; 87; 88; 89; 90; 91; 92; 93; 94; 95].
Definition ops_tab_main_096 : list Z := [96; 97; 98; 99; 100; 101; 102; 103; 104; 105; 106; 107; 108; 109; 110; 111; 112; 113; 114; 115; 116; 117; 118; 119; 120; 121; 122; 123; 124; 125; 126; 127].
Definition ops_tab_main_128 : list Z := [128; 129; 130; 131; 132; 133; 134; 135; 136; 137; 138; 139; 140; 141; 142; 143; 144; 145; 146; 147; 148; 149; 150; 151; 152; 153; 154; 155; 156; 157; 158; 159].
Definition ops_tab_main_160 : list Z := [160; 161; 162; 163; 164; 165; 166; 167; 168; 169; 170; 171; 172; 173; 174; 175; 176; 177; 178; 179; 180; 181; 182; 183; 184; 185; 186; 187; 188; 189; 190; 191].
Definition ops_tab_main_192 : list Z := [192; 193; 194; 195; 196; 197; 198; 199; 200; 201; 202; 204; 205; 206; 207; 208; 209; 210; 211; 212; 213; 214; 215; 216; 217; 218; 219; 220; 222; 223].
Definition ops_tab_main_224 : list Z := [224; 225; 226; 227; 228; 229; 230; 231; 232; 233; 234; 235; 236; 238; 239; 240; 241; 242; 243; 244; 245; 246; 247; 248; 249; 250; 251; 252; 254; 255].
Theorem main_table : forall c, 0 <= c < 256 -> ~ In c [203; 221; 237; 253] -> forall cpu, WF cpu -> 
  executeOne_main cpu c c = exec impl_unspec MHL (decode_main c) cpu.
Proof.
  intros c Hc Hn. assert (Hin : In c (ops_tab_main_000 ++ ops_tab_main_032 ++ ops_tab_main_064 ++ ops_tab_main_096 ++ ops_tab_main_128 ++ ops_tab_main_160 ++ ops_tab_main_192 ++ ops_tab_main_224)).
  { apply (covered (ops_tab_main_000 ++ ops_tab_main_032 ++ ops_tab_main_064 ++ ops_tab_main_096 ++ ops_tab_main_128 ++ ops_tab_main_160 ++ ops_tab_main_192 ++ ops_tab_main_224) [203; 221; 237; 253]); [vm_compute; reflexivity | exact Hc | exact Hn]. }
  repeat (apply in_app_or in Hin; destruct Hin as [Hin|Hin]);
  [ exact (tab_main_000 c Hin) | exact (tab_main_032 c Hin) | exact (tab_main_064 c Hin) | exact (tab_main_096 c Hin) | exact (tab_main_128 c Hin) | exact (tab_main_160 c Hin) | exact (tab_main_192 c Hin) | exact (tab_main_224 c Hin) ].
Qed.

Definition ops_tab_cb_000 : list Z := [0; 1; 2; 3; 4; 5; 6; 7; 8; 9; 10; 11; 12; 13; 14; 15; 16; 17; 18; 19; 20; 21; 22; 23; 24; 25; 26; 27; 28; 29; 30; 31].
Definition ops_tab_cb_032 : list Z := [32; 33; 34; 35; 36; 37; 38; 39; 40; 41; 42; 43; 44; 45; 46; 47; 48; 49; 50; 51; 52; 53; 54; 55; 56; 57; 58; 59; 60; 61; 62; 63].
Definition ops_tab_cb_064 : list Z := [64; 65; 66; 67; 68; 69; 70; 71; 72; 73; 74; 75; 76; 77; 78; 79; 80; 81; 82; 83; 84; 85; 86; 87; 88; 89; 90; 91; 92; 93; 94; 95].
Definition ops_tab_cb_096 : list Z := [96; 97; 98; 99; 100; 101; 102; 103; 104; 105; 106; 107; 108; 109; 110; 111; 112; 113; 114; 115; 116; 117; 118; 119; 120; 121; 122; 123; 124; 125; 126; 127].
Definition ops_tab_cb_128 : list Z := [128; 129; 130; 131; 132; 133; 134; 135; 136; 137; 138; 139; 140; 141; 142; 143; 144; 145; 146; 147; 148; 149; 150; 151; 152; 153; 154; 155; 156; 157; 158; 159].
Definition ops_tab_cb_160 : list Z := [160; 161; 162; 163; 164; 165; 166; 167; 168; 169; 170; 171; 172; 173; 174; 175; 176; 177; 178; 179; 180; 181; 182; 183; 184; 185; 186; 187; 188; 189; 190; 191].
Definition ops_tab_cb_192 : list Z := [192; 193; 194; 195; 196; 197; 198; 199; 200; 201; 202; 203; 204; 205; 206; 207; 208; 209; 210; 211; 212; 213; 214; 215; 216; 217; 218; 219; 220; 221; 222; 223].
Definition ops_tab_cb_224 : list Z := [224; 225; 226; 227; 228; 229; 230; 231; 232; 233; 234; 235; 236; 237; 238; 239; 240; 241; 242; 243; 244; 245; 246; 247; 248; 249; 250; 251; 252; 253; 254; 255].
Theorem cb_table : forall c, 0 <= c < 256 -> ~ In c [] -> forall cpu, WF cpu -> forall c0, 
  executeOne_cb cpu c0 c c = exec impl_unspec MHL (decode_cb c) cpu.
Proof.
  intros c Hc Hn. assert (Hin : In c (ops_tab_cb_000 ++ ops_tab_cb_032 ++ ops_tab_cb_064 ++ ops_tab_cb_096 ++ ops_tab_cb_128 ++ ops_tab_cb_160 ++ ops_tab_cb_192 ++ ops_tab_cb_224)).
  { apply (covered (ops_tab_cb_000 ++ ops_tab_cb_032 ++ ops_tab_cb_064 ++ ops_tab_cb_096 ++ ops_tab_cb_128 ++ ops_tab_cb_160 ++ ops_tab_cb_192 ++ ops_tab_cb_224) []); [vm_compute; reflexivity | exact Hc | exact Hn]. }
  repeat (apply in_app_or in Hin; destruct Hin as [Hin|Hin]);
  [ exact (tab_cb_000 c Hin) | exact (tab_cb_032 c Hin) | exact (tab_cb_064 c Hin) | exact (tab_cb_096 c Hin) | exact (tab_cb_128 c Hin) | exact (tab_cb_160 c Hin) | exact (tab_cb_192 c Hin) | exact (tab_cb_224 c Hin) ].
Qed.

Definition ops_tab_ed_000 : list Z := [0; 1; 2; 3; 4; 5; 6; 7; 8; 9; 10; 11; 12; 13; 14; 15; 16; 17; 18; 19; 20; 21; 22; 23; 24; 25; 26; 27; 28; 29; 30; 31].
Definition ops_tab_ed_032 : list Z := [32; 33; 34; 35; 36; 37; 38; 39; 40; 41; 42; 43; 44; 45; 46; 47; 48; 49; 50; 51; 52; 53; 54; 55; 56; 57; 58; 59; 60; 61; 62; 63].
Definition ops_tab_ed_064 : list Z := [64; 65; 66; 67; 68; 69; 70; 71; 72; 73; 74; 75; 76; 77; 78; 79; 80; 81; 82; 83; 84; 85; 86; 87; 88; 89; 90; 91; 92; 93; 94; 95].
Definition ops_tab_ed_096 : list Z := [96; 97; 98; 99; 100; 101; 102; 103; 104; 105; 106; 107; 108; 109; 110; 111; 112; 113; 114; 115; 116; 117; 118; 119; 120; 121; 122; 123; 124; 125; 126; 127].
Definition ops_tab_ed_128 : list Z := [128; 129; 130; 131; 132; 133; 134; 135; 136; 137; 138; 139; 140; 141; 142; 143; 144; 145; 146; 147; 148; 149; 150; 151; 152; 153; 154; 155; 156; 157; 158; 159].
Definition ops_tab_ed_160 : list Z := [160; 161; 162; 163; 164; 165; 166; 167; 168; 169; 170; 171; 172; 173; 174; 175; 176; 177; 178; 179; 180; 181; 182; 183; 184; 185; 186; 187; 188; 189; 190; 191].
Definition ops_tab_ed_192 : list Z := [192; 193; 194; 195; 196; 197; 198; 199; 200; 201; 202; 203; 204; 205; 206; 207; 208; 209; 210; 211; 212; 213; 214; 215; 216; 217; 218; 219; 220; 221; 222; 223].
Definition ops_tab_ed_224 : list Z := [224; 225; 226; 227; 228; 229; 230; 231; 232; 233; 234; 235; 236; 237; 238; 239; 240; 241; 242; 243; 244; 245; 246; 247; 248; 249; 250; 251; 252; 253; 254; 255].
Theorem ed_table : forall c, 0 <= c < 256 -> ~ In c [] -> forall cpu, WF cpu -> forall c0, 
  executeOne_ed cpu c0 c c = exec impl_unspec MHL (decode_ed c) cpu.
Proof.
  intros c Hc Hn. assert (Hin : In c (ops_tab_ed_000 ++ ops_tab_ed_032 ++ ops_tab_ed_064 ++ ops_tab_ed_096 ++ ops_tab_ed_128 ++ ops_tab_ed_160 ++ ops_tab_ed_192 ++ ops_tab_ed_224)).
  { apply (covered (ops_tab_ed_000 ++ ops_tab_ed_032 ++ ops_tab_ed_064 ++ ops_tab_ed_096 ++ ops_tab_ed_128 ++ ops_tab_ed_160 ++ ops_tab_ed_192 ++ ops_tab_ed_224) []); [vm_compute; reflexivity | exact Hc | exact Hn]. }
  repeat (apply in_app_or in Hin; destruct Hin as [Hin|Hin]);
  [ exact (tab_ed_000 c Hin) | exact (tab_ed_032 c Hin) | exact (tab_ed_064 c Hin) | exact (tab_ed_096 c Hin) | exact (tab_ed_128 c Hin) | exact (tab_ed_160 c Hin) | exact (tab_ed_192 c Hin) | exact (tab_ed_224 c Hin) ].
Qed.

Definition ops_tab_dd_000 : list Z := [0; 1; 2; 3; 4; 5; 6; 7; 8; 9; 10; 11; 12; 13; 14; 15; 16; 17; 18; 19; 20; 21; 22; 23; 24; 25; 26; 27; 28; 29; 30; 31].
Definition ops_tab_dd_032 : list Z := [32; 33; 34; 35; 36; 37; 38; 39; 40; 41; 42; 43; 44; 45; 46; 47; 48; 49; 50; 51; 52; 53; 54; 55; 56; 57; 58; 59; 60; 61; 62; 63].
Definition ops_tab_dd_064 : list Z := [64; 65; 66; 67; 68; 69; 70; 71; 72; 73; 74; 75; 76; 77; 78; 79; 80; 81; 82; 83; 84; 85; 86; 87; 88; 89; 90; 91; 92; 93; 94; 95].
Definition ops_tab_dd_096 : list Z := [96; 97; 98; 99; 100; 101; 102; 103; 104; 105; 106; 107; 108; 109; 110; 111; 112; 113; 114; 115; 116; 117; 118; 119; 120; 121; 122; 123; 124; 125; 126; 127].
Definition ops_tab_dd_128 : list Z := [128; 129; 130; 131; 132; 133; 134; 135; 136; 137; 138; 139; 140; 141; 142; 143; 144; 145; 146; 147; 148; 149; 150; 151; 152; 153; 154; 155; 156; 157; 158; 159].
Definition ops_tab_dd_160 : list Z := [160; 161; 162; 163; 164; 165; 166; 167; 168; 169; 170; 171; 172; 173; 174; 175; 176; 177; 178; 179; 180; 181; 182; 183; 184; 185; 186; 187; 188; 189; 190; 191].
Definition ops_tab_dd_192 : list Z := [192; 193; 194; 195; 196; 197; 198; 199; 200; 201; 202; 204; 205; 206; 207; 208; 209; 210; 211; 212; 213; 214; 215; 216; 217; 218; 219; 220; 221; 222; 223].
Definition ops_tab_dd_224 : list Z := [224; 225; 226; 227; 228; 229; 230; 231; 232; 233; 234; 235; 236; 237; 238; 239; 240; 241; 242; 243; 244; 245; 246; 247; 248; 249; 250; 251; 252; 253; 254; 255].
Theorem dd_table : forall c, 0 <= c < 256 -> ~ In c [203] -> forall cpu, WF cpu -> forall c0, 
  executeOne_dd cpu c0 c c = exec impl_unspec MIX (decode_idx c) cpu.
Proof.
  intros c Hc Hn. assert (Hin : In c (ops_tab_dd_000 ++ ops_tab_dd_032 ++ ops_tab_dd_064 ++ ops_tab_dd_096 ++ ops_tab_dd_128 ++ ops_tab_dd_160 ++ ops_tab_dd_192 ++ ops_tab_dd_224)).
  { apply (covered (ops_tab_dd_000 ++ ops_tab_dd_032 ++ ops_tab_dd_064 ++ ops_tab_dd_096 ++ ops_tab_dd_128 ++ ops_tab_dd_160 ++ ops_tab_dd_192 ++ ops_tab_dd_224) [203]); [vm_compute; reflexivity | exact Hc | exact Hn]. }
  repeat (apply in_app_or in Hin; destruct Hin as [Hin|Hin]);
  [ exact (tab_dd_000 c Hin) | exact (tab_dd_032 c Hin) | exact (tab_dd_064 c Hin) | exact (tab_dd_096 c Hin) | exact (tab_dd_128 c Hin) | exact (tab_dd_160 c Hin) | exact (tab_dd_192 c Hin) | exact (tab_dd_224 c Hin) ].
Qed.

Definition ops_tab_fd_000 : list Z := [0; 1; 2; 3; 4; 5; 6; 7; 8; 9; 10; 11; 12; 13; 14; 15; 16; 17; 18; 19; 20; 21; 22; 23; 24; 25; 26; 27; 28; 29; 30; 31].
Definition ops_tab_fd_032 : list Z := [32; 33; 34; 35; 36; 37; 38; 39; 40; 41; 42; 43; 44; 45; 46; 47; 48; 49; 50; 51; 52; 53; 54; 55; 56; 57; 58; 59; 60; 61; 62; 63].
Definition ops_tab_fd_064 : list Z := [64; 65; 66; 67; 68; 69; 70; 71; 72; 73; 74; 75; 76; 77; 78; 79; 80; 81; 82; 83; 84; 85; 86; 87; 88; 89; 90; 91; 92; 93; 94; 95].
Definition ops_tab_fd_096 : list Z := [96; 97; 98; 99; 100; 101; 102; 103; 104; 105; 106; 107; 108; 109; 110; 111; 112; 113; 114; 115; 116; 117; 118; 119; 120; 121; 122; 123; 124; 125; 126; 127].
Definition ops_tab_fd_128 : list Z := [128; 129; 130; 131; 132; 133; 134; 135; 136; 137; 138; 139; 140; 141; 142; 143; 144; 145; 146; 147; 148; 149; 150; 151; 152; 153; 154; 155; 156; 157; 158; 159].
Definition ops_tab_fd_160 : list Z := [160; 161; 162; 163; 164; 165; 166; 167; 168; 169; 170; 171; 172; 173; 174; 175; 176; 177; 178; 179; 180; 181; 182; 183; 184; 185; 186; 187; 188; 189; 190; 191].
Definition ops_tab_fd_192 : list Z := [192; 193; 194; 195; 196; 197; 198; 199; 200; 201; 202; 204; 205; 206; 207; 208; 209; 210; 211; 212; 213; 214; 215; 216; 217; 218; 219; 220; 221; 222; 223].
Definition ops_tab_fd_224 : list Z := [224; 225; 226; 227; 228; 229; 230; 231; 232; 233; 234; 235; 236; 237; 238; 239; 240; 241; 242; 243; 244; 245; 246; 247; 248; 249; 250; 251; 252; 253; 254; 255].
Theorem fd_table : forall c, 0 <= c < 256 -> ~ In c [203] -> forall cpu, WF cpu -> forall c0, 
  executeOne_fd cpu c0 c c = exec impl_unspec MIY (decode_idx c) cpu.
Proof.
  intros c Hc Hn. assert (Hin : In c (ops_tab_fd_000 ++ ops_tab_fd_032 ++ ops_tab_fd_064 ++ ops_tab_fd_096 ++ ops_tab_fd_128 ++ ops_tab_fd_160 ++ ops_tab_fd_192 ++ ops_tab_fd_224)).
  { apply (covered (ops_tab_fd_000 ++ ops_tab_fd_032 ++ ops_tab_fd_064 ++ ops_tab_fd_096 ++ ops_tab_fd_128 ++ ops_tab_fd_160 ++ ops_tab_fd_192 ++ ops_tab_fd_224) [203]); [vm_compute; reflexivity | exact Hc | exact Hn]. }
  repeat (apply in_app_or in Hin; destruct Hin as [Hin|Hin]);
  [ exact (tab_fd_000 c Hin) | exact (tab_fd_032 c Hin) | exact (tab_fd_064 c Hin) | exact (tab_fd_096 c Hin) | exact (tab_fd_128 c Hin) | exact (tab_fd_160 c Hin) | exact (tab_fd_192 c Hin) | exact (tab_fd_224 c Hin) ].
Qed.

Definition ops_tab_ddcb_000 : list Z := [0; 1; 2; 3; 4; 5; 6; 7; 8; 9; 10; 11; 12; 13; 14; 15; 16; 17; 18; 19; 20; 21; 22; 23; 24; 25; 26; 27; 28; 29; 30; 31].
Definition ops_tab_ddcb_032 : list Z := [32; 33; 34; 35; 36; 37; 38; 39; 40; 41; 42; 43; 44; 45; 46; 47; 48; 49; 50; 51; 52; 53; 54; 55; 56; 57; 58; 59; 60; 61; 62; 63].
Definition ops_tab_ddcb_064 : list Z := [64; 65; 66; 67; 68; 69; 70; 71; 72; 73; 74; 75; 76; 77; 78; 79; 80; 81; 82; 83; 84; 85; 86; 87; 88; 89; 90; 91; 92; 93; 94; 95].
Definition ops_tab_ddcb_096 : list Z := [96; 97; 98; 99; 100; 101; 102; 103; 104; 105; 106; 107; 108; 109; 110; 111; 112; 113; 114; 115; 116; 117; 118; 119; 120; 121; 122; 123; 124; 125; 126; 127].
Definition ops_tab_ddcb_128 : list Z := [128; 129; 130; 131; 132; 133; 134; 135; 136; 137; 138; 139; 140; 141; 142; 143; 144; 145; 146; 147; 148; 149; 150; 151; 152; 153; 154; 155; 156; 157; 158; 159].
Definition ops_tab_ddcb_160 : list Z := [160; 161; 162; 163; 164; 165; 166; 167; 168; 169; 170; 171; 172; 173; 174; 175; 176; 177; 178; 179; 180; 181; 182; 183; 184; 185; 186; 187; 188; 189; 190; 191].
Definition ops_tab_ddcb_192 : list Z := [192; 193; 194; 195; 196; 197; 198; 199; 200; 201; 202; 203; 204; 205; 206; 207; 208; 209; 210; 211; 212; 213; 214; 215; 216; 217; 218; 219; 220; 221; 222; 223].
Definition ops_tab_ddcb_224 : list Z := [224; 225; 226; 227; 228; 229; 230; 231; 232; 233; 234; 235; 236; 237; 238; 239; 240; 241; 242; 243; 244; 245; 246; 247; 248; 249; 250; 251; 252; 253; 254; 255].
Theorem ddcb_table : forall c, 0 <= c < 256 -> ~ In c [] -> forall cpu, WF cpu -> forall c0 c1 d, is8 d -> 
  executeOne_ddcb cpu c0 c1 d c c = exec_idxcb impl_unspec MIX d (decode_idxcb c) cpu.
Proof.
  intros c Hc Hn. assert (Hin : In c (ops_tab_ddcb_000 ++ ops_tab_ddcb_032 ++ ops_tab_ddcb_064 ++ ops_tab_ddcb_096 ++ ops_tab_ddcb_128 ++ ops_tab_ddcb_160 ++ ops_tab_ddcb_192 ++ ops_tab_ddcb_224)).
  { apply (covered (ops_tab_ddcb_000 ++ ops_tab_ddcb_032 ++ ops_tab_ddcb_064 ++ ops_tab_ddcb_096 ++ ops_tab_ddcb_128 ++ ops_tab_ddcb_160 ++ ops_tab_ddcb_192 ++ ops_tab_ddcb_224) []); [vm_compute; reflexivity | exact Hc | exact Hn]. }
  repeat (apply in_app_or in Hin; destruct Hin as [Hin|Hin]);
  [ exact (tab_ddcb_000 c Hin) | exact (tab_ddcb_032 c Hin) | exact (tab_ddcb_064 c Hin) | exact (tab_ddcb_096 c Hin) | exact (tab_ddcb_128 c Hin) | exact (tab_ddcb_160 c Hin) | exact (tab_ddcb_192 c Hin) | exact (tab_ddcb_224 c Hin) ].
Qed.

Definition ops_tab_fdcb_000 : list Z := [0; 1; 2; 3; 4; 5; 6; 7; 8; 9; 10; 11; 12; 13; 14; 15; 16; 17; 18; 19; 20; 21; 22; 23; 24; 25; 26; 27; 28; 29; 30; 31].
Definition ops_tab_fdcb_032 : list Z := [32; 33; 34; 35; 36; 37; 38; 39; 40; 41; 42; 43; 44; 45; 46; 47; 48; 49; 50; 51; 52; 53; 54; 55; 56; 57; 58; 59; 60; 61; 62; 63].
Definition ops_tab_fdcb_064 : list Z := [64; 65; 66; 67; 68; 69; 70; 71; 72; 73; 74; 75; 76; 77; 78; 79; 80; 81; 82; 83; 84; 85; 86; 87; 88; 89; 90; 91; 92; 93; 94; 95].
Definition ops_tab_fdcb_096 : list Z := [96; 97; 98; 99; 100; 101; 102; 103; 104; 105; 106; 107; 108; 109; 110; 111; 112; 113; 114; 115; 116; 117; 118; 119; 120; 121; 122; 123; 124; 125; 126; 127].
Definition ops_tab_fdcb_128 : list Z := [128; 129; 130; 131; 132; 133; 134; 135; 136; 137; 138; 139; 140; 141; 142; 143; 144; 145; 146; 147; 148; 149; 150; 151; 152; 153; 154; 155; 156; 157; 158; 159].
Definition ops_tab_fdcb_160 : list Z := [160; 161; 162; 163; 164; 165; 166; 167; 168; 169; 170; 171; 172; 173; 174; 175; 176; 177; 178; 179; 180; 181; 182; 183; 184; 185; 186; 187; 188; 189; 190; 191].
Definition ops_tab_fdcb_192 : list Z := [192; 193; 194; 195; 196; 197; 198; 199; 200; 201; 202; 203; 204; 205; 206; 207; 208; 209; 210; 211; 212; 213; 214; 215; 216; 217; 218; 219; 220; 221; 222; 223].
Definition ops_tab_fdcb_224 : list Z := [224; 225; 226; 227; 228; 229; 230; 231; 232; 233; 234; 235; 236; 237; 238; 239; 240; 241; 242; 243; 244; 245; 246; 247; 248; 249; 250; 251; 252; 253; 254; 255].
Theorem fdcb_table : forall c, 0 <= c < 256 -> ~ In c [] -> forall cpu, WF cpu -> forall c0 c1 d, is8 d -> 
  executeOne_fdcb cpu c0 c1 d c c = exec_idxcb impl_unspec MIY d (decode_idxcb c) cpu.
Proof.
  intros c Hc Hn. assert (Hin : In c (ops_tab_fdcb_000 ++ ops_tab_fdcb_032 ++ ops_tab_fdcb_064 ++ ops_tab_fdcb_096 ++ ops_tab_fdcb_128 ++ ops_tab_fdcb_160 ++ ops_tab_fdcb_192 ++ ops_tab_fdcb_224)).
  { apply (covered (ops_tab_fdcb_000 ++ ops_tab_fdcb_032 ++ ops_tab_fdcb_064 ++ ops_tab_fdcb_096 ++ ops_tab_fdcb_128 ++ ops_tab_fdcb_160 ++ ops_tab_fdcb_192 ++ ops_tab_fdcb_224) []); [vm_compute; reflexivity | exact Hc | exact Hn]. }
  repeat (apply in_app_or in Hin; destruct Hin as [Hin|Hin]);
  [ exact (tab_fdcb_000 c Hin) | exact (tab_fdcb_032 c Hin) | exact (tab_fdcb_064 c Hin) | exact (tab_fdcb_096 c Hin) | exact (tab_fdcb_128 c Hin) | exact (tab_fdcb_160 c Hin) | exact (tab_fdcb_192 c Hin) | exact (tab_fdcb_224 c Hin) ].
Qed.
