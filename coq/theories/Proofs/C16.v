(* Proofs/C16.v -- flag and register accessors touch exactly the named bits (flag.go, z80.go) *)
From Z80V Require Export Proofs.HStruct.

Definition F_of (g : GPR) : Z := Register_Lo (GPR_AF g).
Definition A_of (g : GPR) : Z := Register_Hi (GPR_AF g).
Definition bits07 : list Z := [0; 1; 2; 3; 4; 5; 6; 7].
Definition anybit (m f : Z) : bool := existsb (fun k => Z.testbit m k && Z.testbit f k) bits07.

(* frame: the accessors rebuild the GPR with only F replaced *)
Lemma SetFlag_shape g m : GPR_SetFlag g m = set_GPR_AF g (mk_Register (A_of g) (Z.lor (F_of g) m)).
Proof. reflexivity. Qed.
Lemma ResetFlag_shape g m : GPR_ResetFlag g m = set_GPR_AF g (mk_Register (A_of g) (Z.land (F_of g) (u8 (Z.lnot m)))).
Proof. reflexivity. Qed.
Lemma reset_mask f m : is8 f -> is8 m -> Z.land f (u8 (Z.lnot m)) = Z.ldiff f m.
Proof. intros Hf Hm. enum2 f m. Qed.

Lemma GetFlag_any g m : is8 (F_of g) -> is8 m -> GPR_GetFlag g m = anybit m (F_of g).
Proof.
  intros Hf Hm. change (GPR_GetFlag g m) with (negb (Z.land (F_of g) m =? 0)).
  generalize dependent (F_of g). intros f Hf. unfold anybit, bits07. cbv [existsb]. benum2 f m.
Qed.
Lemma anybit_spec m f : anybit m f = true <-> exists k, 0 <= k < 8 /\ Z.testbit m k = true /\ Z.testbit f k = true.
Proof.
  unfold anybit. rewrite existsb_exists. split.
  - intros (k & Hin & Hb). apply andb_prop in Hb. exists k. split; [|exact Hb].
    unfold bits07 in Hin. cbn [In] in Hin. lia.
  - intros (k & Hk & H1 & H2). exists k. split; [|rewrite H1, H2; reflexivity].
    unfold bits07. cbn [In]. lia.
Qed.

Theorem GetFlag_correct g m : is8 (F_of g) -> is8 m ->
  (GPR_GetFlag g m = true <-> exists k, 0 <= k < 8 /\ Z.testbit m k = true /\ Z.testbit (F_of g) k = true).
Proof. intros Hf Hm. rewrite (GetFlag_any g m Hf Hm). apply anybit_spec. Qed.

Lemma frame_AF g a f :
  let g' := set_GPR_AF g (mk_Register a f) in
  F_of g' = f /\ A_of g' = a /\ GPR_BC g' = GPR_BC g /\ GPR_DE g' = GPR_DE g /\ GPR_HL g' = GPR_HL g.
Proof. repeat split. Qed.

(* SetFlag: exactly the named bits become 1; A, every other bit of F and every other register unchanged *)
Theorem SetFlag_correct g m : is8 (F_of g) -> is8 m ->
  let g' := GPR_SetFlag g m in
  (forall k, Z.testbit (F_of g') k = Z.testbit (F_of g) k || Z.testbit m k) /\ is8 (F_of g') /\
  A_of g' = A_of g /\ GPR_BC g' = GPR_BC g /\ GPR_DE g' = GPR_DE g /\ GPR_HL g' = GPR_HL g.
Proof.
  intros Hf Hm g'. subst g'. rewrite SetFlag_shape.
  destruct (frame_AF g (A_of g) (Z.lor (F_of g) m)) as (-> & -> & -> & -> & ->).
  split; [intros k; apply Z.lor_spec|]. split; [apply is8_lor; assumption|]. repeat split.
Qed.
(* ResetFlag: exactly the named bits become 0 *)
Theorem ResetFlag_correct g m : is8 (F_of g) -> is8 m ->
  let g' := GPR_ResetFlag g m in
  (forall k, Z.testbit (F_of g') k = Z.testbit (F_of g) k && negb (Z.testbit m k)) /\ is8 (F_of g') /\
  A_of g' = A_of g /\ GPR_BC g' = GPR_BC g /\ GPR_DE g' = GPR_DE g /\ GPR_HL g' = GPR_HL g.
Proof.
  intros Hf Hm g'. subst g'. rewrite ResetFlag_shape.
  destruct (frame_AF g (A_of g) (Z.land (F_of g) (u8 (Z.lnot m)))) as (-> & -> & -> & -> & ->).
  split; [intros k; rewrite (reset_mask _ m Hf Hm); apply Z.ldiff_spec|].
  split; [apply is8_land_r, is8_u8 | repeat split].
Qed.

Theorem flag_constants :
  (const_FlagC, const_FlagN, const_FlagPV, const_Flag3, const_FlagH, const_Flag5, const_FlagZ, const_FlagS)
  = (1, 2, 4, 8, 16, 32, 64, 128).
Proof. reflexivity. Qed.

(* Register.SetU16 followed by U16 is the identity on all 65536 values; Hi/Lo are the high/low byte *)
Theorem SetU16_U16 r v : is16 v ->
  let r' := Register_SetU16 r v in
  Register_U16 r' = v /\ Register_Hi r' = v / 256 /\ Register_Lo r' = v mod 256.
Proof.
  intros Hv r'. subst r'. rewrite Register_SetU16_ok, Register_U16_ok.
  split; [apply regw_wreg, Hv|]. cbv [wreg]; cbv_struct. split; [apply hi_div, Hv | apply lo_mod].
Qed.

(* non-vacuity: concrete instances *)
Example c16_examples :
  let g := mk_GPR (mk_Register 0x12 0x55) (mk_Register 1 2) (mk_Register 3 4) (mk_Register 5 6) in
  GPR_GetFlag g 0x41 = true /\ GPR_GetFlag g 0xAA = false /\
  GPR_SetFlag g 0x82 = mk_GPR (mk_Register 0x12 0xD7) (mk_Register 1 2) (mk_Register 3 4) (mk_Register 5 6) /\
  GPR_ResetFlag g 0x11 = mk_GPR (mk_Register 0x12 0x44) (mk_Register 1 2) (mk_Register 3 4) (mk_Register 5 6) /\
  Register_U16 (Register_SetU16 (mk_Register 9 9) 0xFFFE) = 0xFFFE.
Proof. vm_compute. repeat split. Qed.
