(* Proofs/Refresh.v -- C14 at the level of a whole instruction step: which instruction a step executes and how many
   opcode (M1) fetches it makes; R advances by exactly that many ticks, I and bit 7 of R are untouched unless the
   instruction is LD I,A / LD R,A. *)
From Z80V Require Export Proofs.SpecFacts Proofs.SpecAll Proofs.Ranges.
From Coq Require Import Lia.

(* the instruction executed by a step from cpu, and its number of opcode fetches: 1 unprefixed, 2 for CB / ED / DD / FD,
   2 or 3 for DDCB / FDCB (u_cbidx_ticks: this project fetches the last byte as an opcode too) *)
Definition fetched (u : Unspec) (cpu : CPU) : instr * nat :=
  let '(c1, o0) := fetch_m1 cpu in
  match decode_main o0 with
  | PREFIX_CB => let '(_, o1) := fetch_m1 c1 in (decode_cb o1, 2%nat)
  | PREFIX_ED => let '(_, o1) := fetch_m1 c1 in (decode_ed o1, 2%nat)
  | PREFIX_DD | PREFIX_FD =>
    let '(c2, o1) := fetch_m1 c1 in
    match decode_idx o1 with
    | PREFIX_CB =>
      let '(c3, _) := fetch8 c2 in
      if u_cbidx_ticks u then (decode_idxcb (snd (fetch_m1 c3)), 3%nat) else (decode_idxcb (snd (fetch8 c3)), 2%nat)
    | i => (i, 2%nat)
    end
  | i => (i, 1%nat)
  end.
Fixpoint ticks (n : nat) (r : Z) : Z := match n with O => r | S k => ticks k (r_tick r) end.

Lemma ir_of cpu : g_IR cpu = mk_Register (g_IR_Hi cpu) (g_IR_Lo cpu).
Proof. reflexivity. Qed.
Lemma ir_split a b : g_IR a = g_IR b -> g_IR_Hi a = g_IR_Hi b /\ g_IR_Lo a = g_IR_Lo b.
Proof. intros H. change (g_IR_Hi a) with (Register_Hi (g_IR a)). change (g_IR_Lo a) with (Register_Lo (g_IR a)). rewrite H. split; reflexivity. Qed.
Lemma fetch_m1_ir2 cpu : g_IR_Hi (fst (fetch_m1 cpu)) = g_IR_Hi cpu /\ g_IR_Lo (fst (fetch_m1 cpu)) = r_tick (g_IR_Lo cpu).
Proof.
  pose proof (fetch_m1_ir cpu) as H.
  change (g_IR_Hi (fst (fetch_m1 cpu))) with (Register_Hi (g_IR (fst (fetch_m1 cpu)))).
  change (g_IR_Lo (fst (fetch_m1 cpu))) with (Register_Lo (g_IR (fst (fetch_m1 cpu)))). rewrite H. split; reflexivity.
Qed.
Lemma fetch8_ir2 cpu : g_IR_Hi (fst (fetch8 cpu)) = g_IR_Hi cpu /\ g_IR_Lo (fst (fetch8 cpu)) = g_IR_Lo cpu.
Proof. apply ir_split, fetch8_ir. Qed.
Lemma exec_ir2 u m i cpu : writes_ir i = false -> g_IR_Hi (exec u m i cpu) = g_IR_Hi cpu /\ g_IR_Lo (exec u m i cpu) = g_IR_Lo cpu.
Proof. intros H. apply ir_split, exec_keeps_ir, H. Qed.
Lemma exec_idxcb_ir2 u m d i cpu : g_IR_Hi (exec_idxcb u m d i cpu) = g_IR_Hi cpu /\ g_IR_Lo (exec_idxcb u m d i cpu) = g_IR_Lo cpu.
Proof. apply ir_split, exec_idxcb_keeps_ir. Qed.

Lemma decode_idx_no_ir c : writes_ir (decode_idx c) = false.
Proof.
  unfold decode_idx. destruct (implemented_idx c); [|reflexivity].
  unfold decode_main. repeat match goal with |- context [match ?x with _ => _ end] => destruct x; try reflexivity end.
Qed.

Theorem step_instr_refresh u cpu :
  writes_ir (fst (fetched u cpu)) = false ->
  g_IR_Hi (step_instr u cpu) = g_IR_Hi cpu /\ g_IR_Lo (step_instr u cpu) = ticks (snd (fetched u cpu)) (g_IR_Lo cpu).
Proof.
  unfold step_instr, fetched.
  destruct (fetch_m1_ir2 cpu) as [A1 B1]. destruct (fetch_m1 cpu) as [c1 o0]. cbn [fst snd] in *.
  destruct (decode_main o0) eqn:E0; cbn [fst snd ticks];
    try (intros Hw; destruct (exec_ir2 u MHL _ c1 Hw) as [A2 B2]; rewrite A2, B2, A1, B1; split; reflexivity).
  - (* CB *) destruct (fetch_m1_ir2 c1) as [A2 B2]. destruct (fetch_m1 c1) as [c2 o1]. cbn [fst snd ticks] in *.
    intros Hw. destruct (exec_ir2 u MHL _ c2 Hw) as [A3 B3]. rewrite A3, B3, A2, B2, A1, B1. split; reflexivity.
  - (* ED *) destruct (fetch_m1_ir2 c1) as [A2 B2]. destruct (fetch_m1 c1) as [c2 o1]. cbn [fst snd ticks] in *.
    intros Hw. destruct (exec_ir2 u MHL _ c2 Hw) as [A3 B3]. rewrite A3, B3, A2, B2, A1, B1. split; reflexivity.
  - (* DD *) unfold step_idx, exec_idx.
    destruct (fetch_m1_ir2 c1) as [A2 B2]. destruct (fetch_m1 c1) as [c2 o1]. cbn [fst snd] in *.
    pose proof (decode_idx_no_ir o1) as Hn.
    destruct (decode_idx o1) eqn:E1; cbn [fst snd ticks];
      try (intros _; destruct (exec_ir2 u MIX _ c2 Hn) as [A3 B3]; rewrite A3, B3, A2, B2, A1, B1; split; reflexivity).
    destruct (fetch8_ir2 c2) as [A3 B3]. destruct (fetch8 c2) as [c3 d]. cbn [fst snd] in *.
    destruct (u_cbidx_ticks u); cbn [fst snd ticks]; intros _.
    + destruct (fetch_m1_ir2 c3) as [A4 B4]. destruct (fetch_m1 c3) as [c4 o3]. cbn [fst snd] in *.
      destruct (exec_idxcb_ir2 u MIX d (decode_idxcb o3) c4) as [A5 B5]. rewrite A5, B5, A4, B4, A3, B3, A2, B2, A1, B1. split; reflexivity.
    + destruct (fetch8_ir2 c3) as [A4 B4]. destruct (fetch8 c3) as [c4 o3]. cbn [fst snd] in *.
      destruct (exec_idxcb_ir2 u MIX d (decode_idxcb o3) c4) as [A5 B5]. rewrite A5, B5, A4, B4, A3, B3, A2, B2, A1, B1. split; reflexivity.
  - (* FD *) unfold step_idx, exec_idx.
    destruct (fetch_m1_ir2 c1) as [A2 B2]. destruct (fetch_m1 c1) as [c2 o1]. cbn [fst snd] in *.
    pose proof (decode_idx_no_ir o1) as Hn.
    destruct (decode_idx o1) eqn:E1; cbn [fst snd ticks];
      try (intros _; destruct (exec_ir2 u MIY _ c2 Hn) as [A3 B3]; rewrite A3, B3, A2, B2, A1, B1; split; reflexivity).
    destruct (fetch8_ir2 c2) as [A3 B3]. destruct (fetch8 c2) as [c3 d]. cbn [fst snd] in *.
    destruct (u_cbidx_ticks u); cbn [fst snd ticks]; intros _.
    + destruct (fetch_m1_ir2 c3) as [A4 B4]. destruct (fetch_m1 c3) as [c4 o3]. cbn [fst snd] in *.
      destruct (exec_idxcb_ir2 u MIY d (decode_idxcb o3) c4) as [A5 B5]. rewrite A5, B5, A4, B4, A3, B3, A2, B2, A1, B1. split; reflexivity.
    + destruct (fetch8_ir2 c3) as [A4 B4]. destruct (fetch8 c3) as [c4 o3]. cbn [fst snd] in *.
      destruct (exec_idxcb_ir2 u MIY d (decode_idxcb o3) c4) as [A5 B5]. rewrite A5, B5, A4, B4, A3, B3, A2, B2, A1, B1. split; reflexivity.
Qed.

(* n ticks: bit 7 kept, the low seven bits count modulo 128 *)
Lemma ticks_bits n : forall r, is8 r ->
  Z.testbit (ticks n r) 7 = Z.testbit r 7 /\ Z.land (ticks n r) 127 = (Z.land r 127 + Z.of_nat n) mod 128.
Proof.
  induction n as [|n IH]; intros r Hr; cbn [ticks].
  - split; [reflexivity|]. change (Z.of_nat 0) with 0. rewrite Z.add_0_r. symmetry. apply Z.mod_small.
    change 127 with (Z.ones 7). rewrite Z.land_ones by lia. apply Z.mod_pos_bound. lia.
  - destruct (r_tick_bits r Hr) as [T1 T2]. destruct (IH (r_tick r) (is8_rtick r)) as [I1 I2].
    split; [congruence|]. rewrite I2, T2. rewrite Zplus_mod_idemp_l. f_equal. lia.
Qed.
