(* Proofs/Step.v -- one whole instruction: the generated executeOne (opcode fetch, prefixes,
   dispatch) is the specification's step_instr, for every well-formed state. *)
From Z80V Require Export Proofs.TableTac.
From Z80V Require Import Proofs.Tables.

Ltac pick_only f := cbv beta iota delta [f byte_of_Z Byte.of_N Z.to_N].
Ltac splits := repeat match goal with |- _ /\ _ => split end.
Lemma r_tick_ok r : is8 r -> Z.lor (Z.land r 128) (Z.land (u8 (r + 1)) 127) = r_tick r.
Proof. intros Hr. unfold r_tick. enum1 r. Qed.
Lemma is8_r_tick r : is8 r -> is8 (r_tick r).
Proof. intros Hr. rewrite <- r_tick_ok by exact Hr. range. Qed.

Lemma fetchM1_ok cpu : is8 (g_IR_Lo cpu) -> fetchM1 cpu = fetch_m1 cpu.
Proof.
  intros HR. cbv beta iota zeta delta [fetchM1 fetch_m1 fetch8 rd Mem_Get mem_get inc16]. rewrite W_Get_ok.
  cbv_struct. cbv_struct_in HR. rewrite (r_tick_ok _ HR). reflexivity.
Qed.
Lemma fetch_ok cpu : fetch cpu = fetch8 cpu.
Proof. cbv beta iota zeta delta [fetch fetch8 rd Mem_Get mem_get inc16]. rewrite W_Get_ok. cbv_struct. reflexivity. Qed.

(* fetching keeps the state well formed and yields a byte *)
Lemma WF_fetch8 cpu : WF cpu -> WF (fst (fetch8 cpu)) /\ is8 (snd (fetch8 cpu)).
Proof.
  intros H. wf_destruct H. cbv beta iota zeta delta [fetch8 rd mem_get inc16 WF WF_gpr WF_reg]. cbv_struct.
  splits; try assumption; range.
Qed.
Lemma WF_fetch_m1 cpu : WF cpu -> WF (fst (fetch_m1 cpu)) /\ is8 (snd (fetch_m1 cpu)).
Proof.
  intros H. wf_destruct H. cbv beta iota zeta delta [fetch_m1 fetch8 rd mem_get inc16 WF WF_gpr WF_reg]. cbv_struct.
  splits; try assumption; try range. apply is8_r_tick. assumption.
Qed.

Definition prefixes : list Z := [203; 221; 237; 253].
Definition is_prefix (i : instr) : bool :=
  match i with PREFIX_CB | PREFIX_DD | PREFIX_ED | PREFIX_FD => true | _ => false end.
Lemma decode_main_prefix c : is8 c -> is_prefix (decode_main c) = inb c prefixes.
Proof. intros Hc. benum1 c. Qed.
Lemma decode_idx_prefix c : is8 c -> decode_idx c = PREFIX_CB <-> c = 203.
Proof.
  intros Hc. assert (E : (match decode_idx c with PREFIX_CB => true | _ => false end) = (c =? 203)) by benum1 c.
  destruct (Z.eqb_spec c 203) as [->|Hn]; split; intros H; try reflexivity; try congruence.
  rewrite H in E. discriminate.
Qed.

(* the DD / FD second-level dispatch, including the DDCB / FDCB third level *)
Lemma dd_dispatch cpu c0 c : is8 c -> WF cpu -> executeOne_dd cpu c0 c c = exec_idx impl_unspec MIX c cpu.
Proof.
  intros Hc H. unfold exec_idx. destruct (Z.eq_dec c 203) as [->|Hn].
  - change (decode_idx 203) with PREFIX_CB. pick_only executeOne_dd. cbv beta iota zeta.
    rewrite fetch_ok. destruct (WF_fetch8 cpu H) as [H1 Hd]. destruct (fetch8 cpu) as [cpu1 d]. cbn [fst snd] in *.
    rewrite impl_ticks. assert (HR : is8 (g_IR_Lo cpu1)) by (wf_destruct H1; cbv_struct; assumption).
    rewrite (fetchM1_ok cpu1 HR). destruct (WF_fetch_m1 cpu1 H1) as [H2 Hc3].
    destruct (fetch_m1 cpu1) as [cpu2 c3]. cbn [fst snd] in *.
    apply ddcb_table; try assumption; try (intros []).
  - rewrite (dd_table c Hc ltac:(intros [E|[]]; congruence) cpu H c0).
    destruct (decode_idx c) eqn:E; try reflexivity. apply decode_idx_prefix in E; [congruence|exact Hc].
Qed.
Lemma fd_dispatch cpu c0 c : is8 c -> WF cpu -> executeOne_fd cpu c0 c c = exec_idx impl_unspec MIY c cpu.
Proof.
  intros Hc H. unfold exec_idx. destruct (Z.eq_dec c 203) as [->|Hn].
  - change (decode_idx 203) with PREFIX_CB. pick_only executeOne_fd. cbv beta iota zeta.
    rewrite fetch_ok. destruct (WF_fetch8 cpu H) as [H1 Hd]. destruct (fetch8 cpu) as [cpu1 d]. cbn [fst snd] in *.
    rewrite impl_ticks. assert (HR : is8 (g_IR_Lo cpu1)) by (wf_destruct H1; cbv_struct; assumption).
    rewrite (fetchM1_ok cpu1 HR). destruct (WF_fetch_m1 cpu1 H1) as [H2 Hc3].
    destruct (fetch_m1 cpu1) as [cpu2 c3]. cbn [fst snd] in *.
    apply fdcb_table; try assumption; try (intros []).
  - rewrite (fd_table c Hc ltac:(intros [E|[]]; congruence) cpu H c0).
    destruct (decode_idx c) eqn:E; try reflexivity. apply decode_idx_prefix in E; [congruence|exact Hc].
Qed.

Lemma main_dispatch cpu c : is8 c -> WF cpu ->
  executeOne_main cpu c c =
  match decode_main c with
  | PREFIX_CB => let '(cpu, c1) := fetch_m1 cpu in exec impl_unspec MHL (decode_cb c1) cpu
  | PREFIX_ED => let '(cpu, c1) := fetch_m1 cpu in exec impl_unspec MHL (decode_ed c1) cpu
  | PREFIX_DD => step_idx impl_unspec MIX cpu
  | PREFIX_FD => step_idx impl_unspec MIY cpu
  | i => exec impl_unspec MHL i cpu
  end.
Proof.
  intros Hc H.
  assert (HR : is8 (g_IR_Lo cpu)) by (pose proof H as H'; wf_destruct H'; cbv_struct; assumption).
  destruct (in_dec Z.eq_dec c prefixes) as [Hin|Hn].
  - unfold prefixes in Hin. cbn [In] in Hin.
    destruct Hin as [<-|[<-|[<-|[<-|[]]]]]; compute_decode; pick_only executeOne_main; cbv beta iota zeta; unfold step_idx;
      rewrite (fetchM1_ok cpu HR); destruct (WF_fetch_m1 cpu H) as [H1 Hc1];
      destruct (fetch_m1 cpu) as [cpu1 c1]; cbn [fst snd] in *.
    + apply cb_table; try assumption; intros [].
    + apply dd_dispatch; assumption.
    + apply ed_table; try assumption; intros [].
    + apply fd_dispatch; assumption.
  - rewrite (main_table c Hc Hn cpu H).
    pose proof (decode_main_prefix c Hc) as E.
    assert (inb c prefixes = false) as E2.
    { unfold inb. apply Bool.not_true_is_false. intros T. apply existsb_exists in T.
      destruct T as (x & Hx & Ex). apply Z.eqb_eq in Ex. subst x. contradiction. }
    rewrite E2 in E. destruct (decode_main c); try reflexivity; discriminate.
Qed.

Theorem executeOne_ok cpu : WF cpu -> executeOne cpu = step_instr impl_unspec cpu.
Proof.
  intros H. unfold executeOne, step_instr.
  assert (HR : is8 (g_IR_Lo cpu)) by (pose proof H as H'; wf_destruct H'; cbv_struct; assumption).
  rewrite (fetchM1_ok cpu HR). destruct (WF_fetch_m1 cpu H) as [H1 Hc].
  destruct (fetch_m1 cpu) as [cpu1 c]. cbn [fst snd] in *.
  apply main_dispatch; assumption.
Qed.
