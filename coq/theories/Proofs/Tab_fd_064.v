(* one shard of the fd decode table: generated handler = specification, opcode by opcode.
   Written by tools/gen_tables.py. *)
From Z80V Require Import Proofs.TableTac.
Lemma tab_fd_064 : forall c, In c [64; 65; 66; 67; 68; 69; 70; 71; 72; 73; 74; 75; 76; 77; 78; 79; 80; 81; 82; 83; 84; 85; 86; 87; 88; 89; 90; 91; 92; 93; 94; 95] -> forall cpu, WF cpu -> forall c0, 
  executeOne_fd cpu c0 c c = exec impl_unspec MIY (decode_idx c) cpu.
Proof. intros c Hc cpu H c0. table_tac Hc H. Qed.
