(* facts about every instruction of the specification (see SpecAllTac.v) *)
From Z80V Require Export Proofs.SpecAllIy.

Lemma exec_keeps_env u m i cpu :
  let cpu' := exec u m i cpu in
  g_Interrupt cpu' = g_Interrupt cpu /\ g_Memory cpu' = g_Memory cpu /\ g_IO cpu' = g_IO cpu /\
  g_RETIHandler cpu' = g_RETIHandler cpu /\ g_RETNHandler cpu' = g_RETNHandler cpu /\ g_BreakPoints cpu' = g_BreakPoints cpu.
Proof.
  open_cpu cpu. destruct m; all_cases i;
    abstract (spec_norm; first [ solve [repeat split] | solve [destruct_ifs; spec_norm; repeat split] ]).
Qed.
