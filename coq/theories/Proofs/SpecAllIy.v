(* facts about every instruction of the specification (see SpecAllTac.v) *)
From Z80V Require Export Proofs.SpecAllIx.

Lemma exec_iy_ignores_ix u i cpu v : exec u MIY i (s_IX cpu v) = s_IX (exec u MIY i cpu) v.
Proof. open_cpu cpu. all_cases i; abstract (spec_norm; close_case). Qed.

Lemma exec_idxcb_iy_ignores_ix u dd i cpu v : exec_idxcb u MIY dd i (s_IX cpu v) = s_IX (exec_idxcb u MIY dd i cpu) v.
Proof. open_cpu cpu. all_cases i; abstract (spec_norm; close_case). Qed.
