(* Proofs/DjnzLoop.v -- C04 over a whole loop: the delay idiom  L: DJNZ L  (10 FE).  From any B it takes exactly B Steps
   (256 when B = 0): while the decremented B is non-zero control goes back to the instruction itself (target measured
   from the end of the instruction with the signed displacement -2, also across the FFFFh wrap), the Step that brings B to
   zero falls through to the next instruction; nothing but B, PC and the refresh counter changes. *)
From Z80V Require Import Proofs.SpecFacts Proofs.Frame Proofs.Block Proofs.Refresh Proofs.WFStep.
From Coq Require Import Lia.

Lemma dm_djnz : decode_main 16 = DJNZ. Proof. vm_compute. reflexivity. Qed.
Lemma pc_back pc : is16 pc -> u16 (u16 (u16 (pc + 1) + 1) + s8 254) = pc.
Proof.
  intros H. change (s8 254) with (-2). replace (u16 (u16 (pc + 1) + 1) + -2) with (u16 (u16 (pc + 1) + 1) - 2) by lia.
  rewrite u16_add_u16_l, !u16_sub_u16_l. replace (pc + 1 + 1 - 2) with pc by lia. apply u16_id; exact H.
Qed.

(* what the loop keeps *)
Definition djnz_same (a b : CPU) : Prop :=
  g_AF b = g_AF a /\ g_BC_Lo b = g_BC_Lo a /\ g_DE b = g_DE a /\ g_HL b = g_HL a /\
  g_Alternate b = g_Alternate a /\ g_IX b = g_IX a /\ g_IY b = g_IY a /\
  g_SP b = g_SP a /\ g_IFF1 b = g_IFF1 a /\ g_IFF2 b = g_IFF2 a /\ g_IM b = g_IM a /\
  g_IR_Hi b = g_IR_Hi a /\ g_Memory b = g_Memory a /\ g_Interrupt b = g_Interrupt a /\ ram (g_W b) = ram (g_W a).
Lemma djnz_same_refl a : djnz_same a a.
Proof. unfold djnz_same. repeat split. Qed.
Lemma djnz_same_trans a b c : djnz_same a b -> djnz_same b c -> djnz_same a c.
Proof.
  unfold djnz_same. intros H1 H2. decompose [and] H1. decompose [and] H2. clear H1 H2.
  repeat split; etransitivity; eassumption.
Qed.

Definition djnz_at (cpu : CPU) : Prop :=
  WF cpu /\ g_Memory cpu = UserMem /\ g_Interrupt cpu = None /\
  u8 (ram (g_W cpu) (g_PC cpu)) = 16 /\ u8 (ram (g_W cpu) (u16 (g_PC cpu + 1))) = 254.

Lemma djnz_one_step u cpu : djnz_at cpu ->
  let cpu' := spec_step u cpu in
  djnz_same cpu cpu' /\ g_IR_Lo cpu' = r_tick (g_IR_Lo cpu) /\ g_BC_Hi cpu' = u8 (g_BC_Hi cpu - 1) /\
  g_PC cpu' = (if u8 (g_BC_Hi cpu - 1) =? 0 then u16 (u16 (g_PC cpu + 1) + 1) else g_PC cpu).
Proof.
  intros [Hwf [Hm [Hi [H0 H1]]]] cpu'. remember cpu' as r eqn:E. subst cpu'. open_cpu cpu.
  cbv_struct_in Hm. cbv_struct_in Hi. cbv_struct_in H0. cbv_struct_in H1. wf_open Hwf. subst mem irq.
  unfold spec_step in E. cbv_struct_in E. unfold step_instr in E.
  cbv beta iota zeta delta [fetch_m1 fetch8 rd mem_get wget w_log inc16] in E. cbv_struct_in E.
  rewrite H0, dm_djnz in E.
  cbv beta iota zeta delta [exec fetch8 jump_rel disp rd mem_get wget w_log inc16] in E. cbv_struct_in E.
  rewrite H1 in E.
  assert (Epc : u16 (u16 (u16 (pc + 1) + 1) + s8 254) = pc) by (apply pc_back; assumption).
  cbv_struct.
  destruct (u8 (b - 1) =? 0) eqn:Eb; cbv beta iota zeta delta [negb] in E; cbv_struct_in E;
  try rewrite Epc in E; subst r; unfold djnz_same; cbv_struct; repeat split.
Qed.

Lemma djnz_at_next u cpu : djnz_at cpu -> u8 (g_BC_Hi cpu - 1) =? 0 = false -> djnz_at (spec_step u cpu).
Proof.
  intros H Hb. destruct (djnz_one_step u cpu H) as [Hs [_ [_ Hpc]]]. rewrite Hb in Hpc.
  destruct H as [Hwf [Hm [Hi [H0 H1]]]]. unfold djnz_same in Hs. decompose [and] Hs. clear Hs.
  unfold djnz_at. repeat split; try congruence. all: try (apply spec_step_wf; exact Hwf). 
Qed.

(* B = k+1 (1..255): k+1 Steps *)
Theorem djnz_loop u k : forall cpu, djnz_at cpu -> g_BC_Hi cpu = Z.of_nat k + 1 -> Z.of_nat k <= 254 ->
  let cpu' := spec_iter u (S k) cpu in
  djnz_same cpu cpu' /\ g_BC_Hi cpu' = 0 /\ g_PC cpu' = u16 (u16 (g_PC cpu + 1) + 1) /\
  g_IR_Lo cpu' = ticks (S k) (g_IR_Lo cpu).
Proof.
  induction k as [|k IH]; intros cpu H HB Hk.
  - cbn [spec_iter ticks]. destruct (djnz_one_step u cpu H) as [Hs [Hr [Hb Hpc]]].
    rewrite HB in Hb, Hpc. change (u8 (Z.of_nat 0 + 1 - 1)) with 0 in Hb, Hpc. cbn [Z.eqb] in Hpc.
    split; [exact Hs|]. split; [exact Hb|]. split; [exact Hpc|exact Hr].
  - cbn [spec_iter ticks].
    assert (Eb : u8 (g_BC_Hi cpu - 1) = Z.of_nat k + 1).
    { rewrite HB. replace (Z.of_nat (S k) + 1 - 1) with (Z.of_nat k + 1) by lia. apply u8_id. lia. }
    assert (Ebz : (u8 (g_BC_Hi cpu - 1) =? 0) = false) by (rewrite Eb; apply Z.eqb_neq; lia).
    destruct (djnz_one_step u cpu H) as [Hs [Hr [Hb Hpc]]]. rewrite Ebz in Hpc. rewrite Eb in Hb.
    pose proof (djnz_at_next u cpu H Ebz) as H'.
    destruct (IH (spec_step u cpu) H' Hb ltac:(lia)) as [Hs2 [Hb2 [Hpc2 Hr2]]].
    cbn [spec_iter] in Hs2, Hb2, Hpc2, Hr2.
    split; [eapply djnz_same_trans; eassumption|]. split; [exact Hb2|].
    split; [rewrite Hpc2, Hpc; reflexivity|]. rewrite Hr2, Hr. reflexivity.
Qed.

Lemma spec_iter_S u n cpu : spec_iter u (S n) cpu = spec_iter u n (spec_step u cpu). Proof. reflexivity. Qed.
Lemma ticks_S n r : ticks (S n) r = ticks n (r_tick r). Proof. reflexivity. Qed.
(* B = 0: 256 Steps *)
Theorem djnz_loop_256 u cpu : djnz_at cpu -> g_BC_Hi cpu = 0 ->
  let cpu' := spec_iter u 256 cpu in
  djnz_same cpu cpu' /\ g_BC_Hi cpu' = 0 /\ g_PC cpu' = u16 (u16 (g_PC cpu + 1) + 1) /\
  g_IR_Lo cpu' = ticks 256 (g_IR_Lo cpu).
Proof.
  intros H HB. cbv zeta.
  rewrite (spec_iter_S u 255 cpu), (ticks_S 255 (g_IR_Lo cpu)).
  assert (Eb : u8 (g_BC_Hi cpu - 1) = 255) by (rewrite HB; reflexivity).
  assert (Ebz : (u8 (g_BC_Hi cpu - 1) =? 0) = false) by (rewrite Eb; reflexivity).
  destruct (djnz_one_step u cpu H) as [Hs [Hr [Hb Hpc]]]. rewrite Ebz in Hpc. rewrite Eb in Hb.
  pose proof (djnz_at_next u cpu H Ebz) as H'.
  pose proof (djnz_loop u 254 (spec_step u cpu) H' Hb ltac:(lia)) as L. cbv zeta in L.
  destruct L as [Hs2 [Hb2 [Hpc2 Hr2]]].
  split; [eapply djnz_same_trans; eassumption|]. split; [exact Hb2|].
  split; [rewrite Hpc2, Hpc; reflexivity|]. rewrite Hr2, Hr. reflexivity.
Qed.

(* the same for the GENERATED Step *)
From Z80V Require Import Proofs.Iter.
Theorem djnz_loop_gen k cpu : djnz_at cpu -> g_BC_Hi cpu = Z.of_nat k + 1 -> Z.of_nat k <= 254 ->
  let cpu' := iter (S k) cpu in
  djnz_same cpu cpu' /\ g_BC_Hi cpu' = 0 /\ g_PC cpu' = u16 (u16 (g_PC cpu + 1) + 1) /\
  g_IR_Lo cpu' = ticks (S k) (g_IR_Lo cpu).
Proof. intros H HB Hk. cbv zeta. rewrite iter_ok by (apply H). exact (djnz_loop impl_unspec k cpu H HB Hk). Qed.
Theorem djnz_loop_256_gen cpu : djnz_at cpu -> g_BC_Hi cpu = 0 ->
  let cpu' := iter 256 cpu in
  djnz_same cpu cpu' /\ g_BC_Hi cpu' = 0 /\ g_PC cpu' = u16 (u16 (g_PC cpu + 1) + 1) /\
  g_IR_Lo cpu' = ticks 256 (g_IR_Lo cpu).
Proof. intros H HB. cbv zeta. rewrite iter_ok by (apply H). exact (djnz_loop_256 impl_unspec cpu H HB). Qed.

(* the premises are satisfiable: the loop at FFFFh/0000h (the displacement byte wraps), B = 3 *)
Definition djnz_demo : CPU :=
  s_BC_Hi (s_W (s_SP (s_PC cpu0 65535) 36864) (mk_World (fun a => if a =? 65535 then 16 else if a =? 0 then 254 else 0) [] [])) 3.
Lemma djnz_demo_premises : djnz_at djnz_demo /\ g_BC_Hi djnz_demo = Z.of_nat 2 + 1.
Proof.
  split; [|reflexivity]. unfold djnz_at. split.
  - cbv [WF WF_gpr WF_reg WF_mem WF_irq djnz_demo cpu0]; cbv_struct; unfold is8, is16; repeat split; try lia; constructor.
  - repeat split; reflexivity.
Qed.
