(* Proofs/Interrupt.v -- Step (cpu.go): interrupt acceptance / refusal, then executeOne;
   the generated Step is the specification's spec_step for every well-formed state. *)
From Z80V Require Export Proofs.Step.

Lemma writeU16_ok cpu a v : writeU16 cpu a v = wr16 cpu a v.
Proof.
  cbv beta iota zeta delta [writeU16 wr16 wr]. rewrite fromU16_ok. cbv beta iota zeta.
  rewrite !Mem_Set_ok. cbv beta iota zeta delta [mem_set inc16]. cbv_struct. reflexivity.
Qed.
Lemma readU16_ok cpu a : readU16 cpu a = rd16 cpu a.
Proof.
  cbv beta iota zeta delta [readU16 rd16 rd Mem_Get mem_get inc16]. rewrite !W_Get_ok. cbv_struct.
  rewrite toU16_ok. reflexivity.
Qed.

Lemma WF_with_overlay cpu d : WF cpu -> Forall is8 d -> WF (s_Memory cpu (Im0Mem (im0_overlay (g_PC cpu) d))).
Proof.
  intros H Hd. pose proof H as H'. wf_destruct H'. cbv [WF WF_gpr WF_reg WF_mem im0_overlay]. cbv_struct.
  splits; try assumption.
Qed.

Lemma im_cases (P : Z -> Prop) : P 0 -> P 1 -> P 2 -> (forall n, n <> 0 -> n <> 1 -> n <> 2 -> P n) -> forall n, P n.
Proof.
  intros H0 H1 H2 Hn n. destruct (Z.eq_dec n 0) as [->|]; [exact H0|].
  destruct (Z.eq_dec n 1) as [->|]; [exact H1|]. destruct (Z.eq_dec n 2) as [->|]; [exact H2|]. apply Hn; assumption.
Qed.
Lemma other_im n : n <> 0 -> n <> 1 -> n <> 2 -> (n =? 0) = false /\ (n =? 1) = false /\ (n =? 2) = false.
Proof. intros. repeat split; apply Z.eqb_neq; assumption. Qed.

Theorem Step_ok cpu : WF cpu -> Step cpu = spec_step impl_unspec cpu.
Proof.
  intros H. unfold Step, spec_step.
  destruct (g_Interrupt cpu) as [irq|] eqn:Eirq; cbn [isSome]; [|apply executeOne_ok, H].
  assert (Hd : Forall is8 (Interrupt_Data irq)).
  { pose proof H as H'. wf_destruct H'. cbv_struct_in Eirq.
    match goal with X : WF_irq _ |- _ => rewrite Eirq in X; exact X end. }
  assert (Eo : forall c, g_Interrupt c = g_Interrupt cpu -> deref_Interrupt c (g_Interrupt c) = (c, irq)).
  { intros c E. rewrite E, Eirq. reflexivity. }
  unfold processInterrupt, try_interrupt, NMI_type.
  rewrite (Eo cpu eq_refl). cbv beta iota zeta.
  destruct (Interrupt_Type irq =? 0) eqn:Ety.
  - (* NMI *) rewrite writeU16_ok. cbv beta iota zeta delta [accept_nmi push16_lowfirst]. cbv_struct. reflexivity.
  - destruct (g_IFF1 cpu) eqn:Eiff; cbn [negb]; [|apply executeOne_ok, H].
    pattern (g_IM cpu). apply im_cases.
    + (* mode 0 *) change (0 =? 0) with true. cbv beta iota zeta.
      rewrite (Eo cpu eq_refl). cbv beta iota zeta.
      destruct (Interrupt_Data irq) as [|d0 ds] eqn:Ed.
      * reflexivity.
      * replace (len_Z (d0 :: ds) >? 0) with true by (unfold len_Z; cbn [length]; lia).
        rewrite (Eo cpu eq_refl). cbv beta iota zeta. rewrite Ed.
        cbv beta iota zeta delta [accept_im0 newIm0data im0_overlay disable_both].
        rewrite executeOne_ok.
        -- cbv_struct. reflexivity.
        -- exact (WF_with_overlay cpu (d0 :: ds) H Hd).
    + (* mode 1 *) change (1 =? 0) with false. change (1 =? 1) with true. cbv beta iota zeta.
      rewrite writeU16_ok. cbv beta iota zeta delta [accept_im1 push16_lowfirst disable_both]. cbv_struct. reflexivity.
    + (* mode 2 *) change (2 =? 0) with false. change (2 =? 1) with false. change (2 =? 2) with true. cbv beta iota zeta.
      rewrite (Eo cpu eq_refl). cbv beta iota zeta.
      destruct (Interrupt_Data irq) as [|d0 ds] eqn:Ed.
      * reflexivity.
      * replace (len_Z (d0 :: ds) >? 0) with true by (unfold len_Z; cbn [length]; lia).
        rewrite writeU16_ok.
        rewrite (Eo (wr16 _ _ _)) by (cbv beta iota zeta delta [wr16 wr mem_set]; cbv_struct; reflexivity).
        cbv beta iota zeta. rewrite Ed.
        cbv beta iota zeta delta [idx idx_w in_range len_Z length nth_Z nth Z.to_nat].
        replace ((0 <=? 0) && (0 <? Z.of_nat (S (length ds)))) with true by lia.
        cbv beta iota zeta. cbv_struct. rewrite readU16_ok, toU16_ok.
        cbv beta iota zeta delta [accept_im2 push16_lowfirst disable_both wr16 wr mem_set rd16 rd mem_get inc16]. cbv_struct.
        reflexivity.
    + (* any other mode value: refused *) intros n N0 N1 N2. destruct (other_im n N0 N1 N2) as (-> & -> & ->).
      cbv beta iota zeta.
      destruct n as [|p|p]; try congruence; try (apply executeOne_ok, H).
      destruct p as [p|p|]; try congruence; try (apply executeOne_ok, H);
      destruct p; try congruence; apply executeOne_ok, H.
Qed.
