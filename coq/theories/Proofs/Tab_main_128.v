(* one shard of the main decode table: generated handler = specification, opcode by opcode.
   Written by tools/gen_tables.py. *)
From Z80V Require Import Proofs.TableTac.
Lemma tab_main_128 : forall c, In c [128; 129; 130; 131; 132; 133; 134; 135; 136; 137; 138; 139; 140; 141; 142; 143; 144; 145; 146; 147; 148; 149; 150; 151; 152; 153; 154; 155; 156; 157; 158; 159] -> forall cpu, WF cpu -> 
  executeOne_main cpu c c = exec impl_unspec MHL (decode_main c) cpu.
Proof. intros c Hc cpu H. table_tac Hc H. Qed.
