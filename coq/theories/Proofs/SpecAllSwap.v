(* facts about every instruction of the specification (see SpecAllTac.v) *)
From Z80V Require Export Proofs.SpecAllTac.

Lemma exec_swap u i cpu : exec u MIY i (swapXY cpu) = swapXY (exec u MIX i cpu).
Proof. open_cpu cpu. all_cases i; abstract (unfold swapXY; spec_norm; close_case). Qed.

Lemma exec_idxcb_swap u dd i cpu : exec_idxcb u MIY dd i (swapXY cpu) = swapXY (exec_idxcb u MIX dd i cpu).
Proof. open_cpu cpu. all_cases i; abstract (unfold swapXY; spec_norm; close_case). Qed.
