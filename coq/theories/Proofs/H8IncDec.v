(* INC/DEC helpers *)
From Z80V Require Export Proofs.H8Tac.

(* ---------------- one operand: enumerate operand x F completely (2^16) ---------------- *)
Ltac shape1 := intros; cbv delta [pF1 pR1 cpu0]; unf; reflexivity.
Ltac pure1 a f := cbv delta [pF1 pR1 cpu0]; unf; unfF; enum2 a f.

Lemma incU8_shape cpu a : incU8 cpu a = (s_AF_Lo cpu (pF1 incU8 a (g_AF_Lo cpu)), pR1 incU8 a (g_AF_Lo cpu)).
Proof. shape1. Qed.
Lemma decU8_shape cpu a : decU8 cpu a = (s_AF_Lo cpu (pF1 decU8 a (g_AF_Lo cpu)), pR1 decU8 a (g_AF_Lo cpu)).
Proof. shape1. Qed.
Lemma incU8_pure a f : is8 a -> is8 f -> (pR1 incU8 a f, pF1 incU8 a f) = inc8 a f.
Proof. intros Ha Hf. both; pure1 a f. Qed.
Lemma decU8_pure a f : is8 a -> is8 f -> (pR1 decU8 a f, pF1 decU8 a f) = dec8 a f.
Proof. intros Ha Hf. both; pure1 a f. Qed.

