(* one shard of the main decode table: generated handler = specification, opcode by opcode.
   Written by tools/gen_tables.py. *)
From Z80V Require Import Proofs.TableTac.
Lemma tab_main_224 : forall c, In c [224; 225; 226; 227; 228; 229; 230; 231; 232; 233; 234; 235; 236; 238; 239; 240; 241; 242; 243; 244; 245; 246; 247; 248; 249; 250; 251; 252; 254; 255] -> forall cpu, WF cpu -> 
  executeOne_main cpu c c = exec impl_unspec MHL (decode_main c) cpu.
Proof. intros c Hc cpu H. table_tac Hc H. Qed.
