(* Proofs/RoundTrip.v -- C07 for the canonical handlers, as theorems over whole Step sequences:
   an NMI taken at a boundary and returned from by RETN (handler at 0066h: ED 45), and a mode-1 interrupt returned from
   by EI ; RETI (handler at 0038h: FB ED 4D), give back every register, flag, index register, SP and PC of the
   interrupted program; the only traces are the two bytes below SP, the refresh counter and the flip-flops as the
   Z80 defines them (after RETN: IFF1 = the IFF1 before the NMI). *)
From Z80V Require Import Proofs.SpecFacts Proofs.Frame Proofs.Block.
From Coq Require Import Lia.
Lemma de_retn : decode_ed 69 = RETN. Proof. vm_compute. reflexivity. Qed.
Lemma upd_same (f : Z -> Z) a v : upd f a v a = v.
Proof. unfold upd. rewrite Z.eqb_refl. reflexivity. Qed.
Lemma u16_succ_ne x : u16 (u16 x + 1) <> u16 x.
Proof. rewrite !u16_mod. pose proof (Z.mod_pos_bound x 65536 ltac:(lia)). 
  intro E. destruct (Z.eq_dec (x mod 65536) 65535) as [E1|E1].
  - rewrite E1 in E. vm_compute in E. discriminate.
  - rewrite Z.mod_small in E by lia. lia. Qed.

Theorem nmi_round_trip u cpu dat : WF cpu -> g_Memory cpu = UserMem ->
  g_Interrupt cpu = Some (mk_Interrupt 0 dat) ->
  let sp2 := u16 (g_SP cpu - 2) in let sp1 := u16 (sp2 + 1) in
  u8 (ram (g_W cpu) 102) = 237 -> u8 (ram (g_W cpu) 103) = 69 ->
  sp2 <> 102 -> sp2 <> 103 -> sp1 <> 102 -> sp1 <> 103 ->
  let cpu' := spec_iter u 2 cpu in
  g_GPR cpu' = g_GPR cpu /\ g_Alternate cpu' = g_Alternate cpu /\ g_IX cpu' = g_IX cpu /\ g_IY cpu' = g_IY cpu /\
  g_SP cpu' = g_SP cpu /\ g_PC cpu' = g_PC cpu /\ g_IFF1 cpu' = g_IFF1 cpu /\ g_IFF2 cpu' = g_IFF1 cpu /\
  g_IM cpu' = g_IM cpu /\ g_IR_Hi cpu' = g_IR_Hi cpu /\ g_IR_Lo cpu' = r_tick (r_tick (g_IR_Lo cpu)) /\
  g_Interrupt cpu' = None /\
  ram (g_W cpu') = upd (upd (ram (g_W cpu)) sp2 (lo (g_PC cpu))) sp1 (hi (g_PC cpu)).
Proof.
  intros Hwf Hm Hi sp2 sp1 H0 H1 N1 N2 N3 N4 cpu'. subst sp2 sp1. remember cpu' as r eqn:E. subst cpu'. open_cpu cpu.
  cbv_struct_in Hm. cbv_struct_in Hi. cbv_struct_in H0. cbv_struct_in H1.
  cbv_struct_in N1. cbv_struct_in N2. cbv_struct_in N3. cbv_struct_in N4. wf_open Hwf. subst mem irq.
  cbn [spec_iter] in E. unfold spec_step at 2 in E. cbv_struct_in E. unfold try_interrupt in E. cbv_struct_in E.
  change (0 =? NMI_type) with true in E. cbv iota in E.
  cbv beta iota zeta delta [accept_nmi push16_lowfirst wr16 wr mem_set wset inc16] in E. cbv_struct_in E.
  unfold spec_step in E. cbv_struct_in E. unfold step_instr in E.
  cbv beta iota zeta delta [fetch_m1 fetch8 rd mem_get wget w_log inc16] in E. cbv_struct_in E.
  rewrite !upd_other in E by congruence. rewrite H0, dm_ed in E. cbv_struct_in E.
  change (u16 (102 + 1)) with 103 in E. rewrite !upd_other in E by congruence. rewrite H1, de_retn in E.
  pose proof (u16_succ_ne (sp - 2)) as Nsp.
  assert (Esp : u16 (u16 (sp - 2) + 2) = sp).
  { rewrite u16_add_u16_l. replace (sp - 2 + 2) with sp by lia. apply u16_id. assumption. }
  assert (Epc : mk16 (hi pc) (lo pc) = pc) by (apply mk16_hi_lo; assumption).
  destruct rn;
  cbv beta iota zeta delta [exec pop16_plus2 rd16 rd mem_get wget w_log inc16 retn_Handle log_ev] in E; cbv_struct_in E;
  rewrite upd_same in E; rewrite (upd_other _ _ _ (u16 (sp - 2))) in E by congruence; rewrite upd_same in E;
  rewrite (u8_id (lo pc)), (u8_id (hi pc)), Epc, Esp in E by (apply is8_u8);
  subst r; cbv_struct; repeat split.
Qed.

Lemma dm_ei : decode_main 251 = EI. Proof. vm_compute. reflexivity. Qed.
Lemma de_reti : decode_ed 77 = RETI. Proof. vm_compute. reflexivity. Qed.
Theorem im1_round_trip u cpu dat : WF cpu -> g_Memory cpu = UserMem ->
  g_Interrupt cpu = Some (mk_Interrupt 1 dat) -> g_IFF1 cpu = true -> g_IM cpu = 1 ->
  let sp2 := u16 (g_SP cpu - 2) in let sp1 := u16 (sp2 + 1) in
  u8 (ram (g_W cpu) 56) = 251 -> u8 (ram (g_W cpu) 57) = 237 -> u8 (ram (g_W cpu) 58) = 77 ->
  sp2 <> 56 -> sp2 <> 57 -> sp2 <> 58 -> sp1 <> 56 -> sp1 <> 57 -> sp1 <> 58 ->
  let cpu' := spec_iter u 3 cpu in
  g_GPR cpu' = g_GPR cpu /\ g_Alternate cpu' = g_Alternate cpu /\ g_IX cpu' = g_IX cpu /\ g_IY cpu' = g_IY cpu /\
  g_SP cpu' = g_SP cpu /\ g_PC cpu' = g_PC cpu /\ g_IFF1 cpu' = true /\ g_IFF2 cpu' = true /\
  g_IM cpu' = g_IM cpu /\ g_IR_Hi cpu' = g_IR_Hi cpu /\ g_IR_Lo cpu' = r_tick (r_tick (r_tick (g_IR_Lo cpu))) /\
  g_Interrupt cpu' = None /\
  ram (g_W cpu') = upd (upd (ram (g_W cpu)) sp2 (lo (g_PC cpu))) sp1 (hi (g_PC cpu)).
Proof.
  intros Hwf Hm Hi Hf Him sp2 sp1 H0 H1 H2 N1 N2 N3 N4 N5 N6 cpu'. subst sp2 sp1. remember cpu' as r eqn:E. subst cpu'. open_cpu cpu.
  cbv_struct_in Hm. cbv_struct_in Hi. cbv_struct_in Hf. cbv_struct_in Him. cbv_struct_in H0. cbv_struct_in H1. cbv_struct_in H2.
  cbv_struct_in N1. cbv_struct_in N2. cbv_struct_in N3. cbv_struct_in N4. cbv_struct_in N5. cbv_struct_in N6. wf_open Hwf. subst mem irq iff1 im.
  cbn [spec_iter] in E. unfold spec_step at 3 in E. cbv_struct_in E. unfold try_interrupt in E. cbv_struct_in E.
  change (1 =? NMI_type) with false in E. cbv iota in E. change (negb true) with false in E. cbv iota in E.
  cbv beta iota zeta delta [accept_im1 disable_both push16_lowfirst wr16 wr mem_set wset inc16] in E. cbv_struct_in E.
  unfold spec_step at 2 in E. cbv_struct_in E. unfold step_instr in E.
  cbv beta iota zeta delta [fetch_m1 fetch8 rd mem_get wget w_log inc16] in E. cbv_struct_in E.
  rewrite !upd_other in E by congruence. rewrite H0, dm_ei in E. cbv beta iota zeta delta [exec] in E. cbv_struct_in E.
  unfold spec_step in E. cbv_struct_in E. unfold step_instr in E.
  cbv beta iota zeta delta [fetch_m1 fetch8 rd mem_get wget w_log inc16] in E. cbv_struct_in E.
  change (u16 (56 + 1)) with 57 in E. rewrite !upd_other in E by congruence. rewrite H1, dm_ed in E. cbv_struct_in E.
  change (u16 (57 + 1)) with 58 in E. rewrite !upd_other in E by congruence. rewrite H2, de_reti in E.
  pose proof (u16_succ_ne (sp - 2)) as Nsp.
  assert (Esp : u16 (u16 (sp - 2) + 2) = sp).
  { rewrite u16_add_u16_l. replace (sp - 2 + 2) with sp by lia. apply u16_id. assumption. }
  assert (Epc : mk16 (hi pc) (lo pc) = pc) by (apply mk16_hi_lo; assumption).
  destruct ri;
  cbv beta iota zeta delta [exec pop16_plus2 rd16 rd mem_get wget w_log inc16 reti_Handle log_ev] in E; cbv_struct_in E;
  rewrite upd_same in E; rewrite (upd_other _ _ _ (u16 (sp - 2))) in E by congruence; rewrite upd_same in E;
  rewrite (u8_id (lo pc)), (u8_id (hi pc)), Epc, Esp in E by (apply is8_u8);
  subst r; cbv_struct; repeat split.
Qed.

(* ---- C04: CALL nn ... RET: a subroutine that returns at once gives control back to the instruction after the CALL
   with SP restored and every register intact; the return address is on the stack, high byte at SP-1, low byte at SP-2 ---- *)
Lemma dm_call : decode_main 205 = CALL. Proof. vm_compute. reflexivity. Qed.
Lemma dm_ret : decode_main 201 = RET. Proof. vm_compute. reflexivity. Qed.
Lemma u16_pred_ne x : u16 (u16 x - 1) <> u16 x.
Proof.
  rewrite !u16_mod. pose proof (Z.mod_pos_bound x 65536 ltac:(lia)).
  intro E. destruct (Z.eq_dec (x mod 65536) 0) as [E1|E1].
  - rewrite E1 in E. vm_compute in E. discriminate.
  - rewrite Z.mod_small in E by lia. lia.
Qed.
Theorem call_ret_round_trip u cpu : WF cpu -> g_Memory cpu = UserMem -> g_Interrupt cpu = None ->
  let pc := g_PC cpu in let nn := mk16 (u8 (ram (g_W cpu) (u16 (u16 (pc + 1) + 1)))) (u8 (ram (g_W cpu) (u16 (pc + 1)))) in
  let sp1 := u16 (g_SP cpu - 1) in let sp2 := u16 (sp1 - 1) in
  u8 (ram (g_W cpu) pc) = 205 -> u8 (ram (g_W cpu) nn) = 201 -> sp1 <> nn -> sp2 <> nn ->
  let cpu' := spec_iter u 2 cpu in
  g_GPR cpu' = g_GPR cpu /\ g_Alternate cpu' = g_Alternate cpu /\ g_IX cpu' = g_IX cpu /\ g_IY cpu' = g_IY cpu /\
  g_SP cpu' = g_SP cpu /\ g_PC cpu' = u16 (u16 (u16 (pc + 1) + 1) + 1) /\
  g_IFF1 cpu' = g_IFF1 cpu /\ g_IFF2 cpu' = g_IFF2 cpu /\
  ram (g_W cpu') = upd (upd (ram (g_W cpu)) sp1 (hi (u16 (u16 (u16 (pc + 1) + 1) + 1)))) sp2 (lo (u16 (u16 (u16 (pc + 1) + 1) + 1))).
Proof.
  intros Hwf Hm Hi pc0 nn sp1 sp2 H0 H1 N1 N2 cpu'. subst pc0 nn sp1 sp2. remember cpu' as r eqn:E. subst cpu'. open_cpu cpu.
  cbv_struct_in Hm. cbv_struct_in Hi. cbv_struct_in H0. cbv_struct_in H1. cbv_struct_in N1. cbv_struct_in N2. wf_open Hwf. subst mem irq.
  cbn [spec_iter] in E. unfold spec_step at 2 in E. cbv_struct_in E. unfold step_instr in E.
  cbv beta iota zeta delta [fetch_m1 fetch8 rd mem_get wget w_log inc16] in E. cbv_struct_in E.
  rewrite H0, dm_call in E.
  cbv beta iota zeta delta [exec Spec.Exec.fetch16 fetch8 push16 dec16 rd wr mem_get mem_set wget wset w_log inc16] in E. cbv_struct_in E.
  unfold spec_step in E. cbv_struct_in E. unfold step_instr in E.
  cbv beta iota zeta delta [fetch_m1 fetch8 rd mem_get wget w_log inc16] in E. cbv_struct_in E.
  rewrite !upd_other in E by congruence. rewrite H1, dm_ret in E.
  pose proof (u16_pred_ne (sp - 1)) as Nsp.
  assert (Esp1 : u16 (u16 (u16 (sp - 1) - 1) + 1) = u16 (sp - 1)).
  { rewrite u16_sub_u16_l, u16_add_u16_l. f_equal. lia. }
  assert (Esp : u16 (u16 (sp - 1) + 1) = sp).
  { rewrite u16_add_u16_l. replace (sp - 1 + 1) with sp by lia. apply u16_id. assumption. }
  set (ret := u16 (u16 (u16 (pc + 1) + 1) + 1)) in *.
  assert (Epc : mk16 (hi ret) (lo ret) = ret) by (apply mk16_hi_lo; apply is16_u16).
  cbv beta iota zeta delta [exec pop16 rd mem_get wget w_log inc16] in E; cbv_struct_in E.
  rewrite Esp1 in E. rewrite upd_same in E. rewrite (upd_other _ _ _ (u16 (sp - 1))) in E by congruence. rewrite upd_same in E.
  rewrite (u8_id (lo ret)), (u8_id (hi ret)), Epc, Esp in E by (apply is8_u8).
  subst r; cbv_struct; repeat split.
Qed.

(* ---- mode 2: the handler address is the word stored at I*256 + (vector with bit 0 cleared); handler EI ; RETI ---- *)
Theorem im2_round_trip u cpu v dat : WF cpu -> g_Memory cpu = UserMem ->
  g_Interrupt cpu = Some (mk_Interrupt 1 (v :: dat)) -> g_IFF1 cpu = true -> g_IM cpu = 2 ->
  let sp2 := u16 (g_SP cpu - 2) in let sp1 := u16 (sp2 + 1) in
  let t := mk16 (g_IR_Hi cpu) (Z.land v 254) in
  let h := mk16 (u8 (ram (g_W cpu) (u16 (t + 1)))) (u8 (ram (g_W cpu) t)) in
  sp2 <> t -> sp2 <> u16 (t + 1) -> sp1 <> t -> sp1 <> u16 (t + 1) ->
  u8 (ram (g_W cpu) h) = 251 -> u8 (ram (g_W cpu) (u16 (h + 1))) = 237 -> u8 (ram (g_W cpu) (u16 (u16 (h + 1) + 1))) = 77 ->
  sp2 <> h -> sp2 <> u16 (h + 1) -> sp2 <> u16 (u16 (h + 1) + 1) -> sp1 <> h -> sp1 <> u16 (h + 1) -> sp1 <> u16 (u16 (h + 1) + 1) ->
  let cpu' := spec_iter u 3 cpu in
  g_GPR cpu' = g_GPR cpu /\ g_Alternate cpu' = g_Alternate cpu /\ g_IX cpu' = g_IX cpu /\ g_IY cpu' = g_IY cpu /\
  g_SP cpu' = g_SP cpu /\ g_PC cpu' = g_PC cpu /\ g_IFF1 cpu' = true /\ g_IFF2 cpu' = true /\
  g_IM cpu' = g_IM cpu /\ g_IR_Hi cpu' = g_IR_Hi cpu /\ g_IR_Lo cpu' = r_tick (r_tick (r_tick (g_IR_Lo cpu))) /\
  g_Interrupt cpu' = None /\
  ram (g_W cpu') = upd (upd (ram (g_W cpu)) sp2 (lo (g_PC cpu))) sp1 (hi (g_PC cpu)).
Proof.
  intros Hwf Hm Hi Hf Him sp2 sp1 t h T1 T2 T3 T4 H0 H1 H2 N1 N2 N3 N4 N5 N6 cpu'. subst sp2 sp1 t h.
  remember cpu' as r eqn:E. subst cpu'. open_cpu cpu.
  cbv_struct_in Hm. cbv_struct_in Hi. cbv_struct_in Hf. cbv_struct_in Him. cbv_struct_in H0. cbv_struct_in H1. cbv_struct_in H2.
  cbv_struct_in T1. cbv_struct_in T2. cbv_struct_in T3. cbv_struct_in T4.
  cbv_struct_in N1. cbv_struct_in N2. cbv_struct_in N3. cbv_struct_in N4. cbv_struct_in N5. cbv_struct_in N6. wf_open Hwf. subst mem irq iff1 im.
  set (t := mk16 ri_ (Z.land v 254)) in *.
  set (h0 := mk16 (u8 (ram w (u16 (t + 1)))) (u8 (ram w t))) in *.
  cbn [spec_iter] in E. unfold spec_step at 3 in E. cbv_struct_in E. unfold try_interrupt in E. cbv_struct_in E.
  change (1 =? NMI_type) with false in E. cbv iota in E. change (negb true) with false in E. cbv iota in E.
  cbv beta iota zeta delta [accept_im2 disable_both push16_lowfirst wr16 rd16 rd wr mem_get mem_set wget wset w_log inc16] in E. cbv_struct_in E.
  fold t in E. repeat (rewrite upd_other in E by congruence). fold h0 in E.
  unfold spec_step at 2 in E. cbv_struct_in E. unfold step_instr in E.
  cbv beta iota zeta delta [fetch_m1 fetch8 rd mem_get wget w_log inc16] in E. cbv_struct_in E.
  repeat (rewrite upd_other in E by congruence). rewrite H0, dm_ei in E. cbv beta iota zeta delta [exec] in E. cbv_struct_in E.
  unfold spec_step in E. cbv_struct_in E. unfold step_instr in E.
  cbv beta iota zeta delta [fetch_m1 fetch8 rd mem_get wget w_log inc16] in E. cbv_struct_in E.
  repeat (rewrite upd_other in E by congruence). rewrite H1, dm_ed in E. cbv_struct_in E.
  repeat (rewrite upd_other in E by congruence). rewrite H2, de_reti in E.
  pose proof (u16_succ_ne (sp - 2)) as Nsp.
  assert (Esp : u16 (u16 (sp - 2) + 2) = sp).
  { rewrite u16_add_u16_l. replace (sp - 2 + 2) with sp by lia. apply u16_id. assumption. }
  assert (Epc : mk16 (hi pc) (lo pc) = pc) by (apply mk16_hi_lo; assumption).
  destruct ri;
  cbv beta iota zeta delta [exec pop16_plus2 rd16 rd mem_get wget w_log inc16 reti_Handle log_ev] in E; cbv_struct_in E;
  rewrite upd_same in E; rewrite (upd_other _ _ _ (u16 (sp - 2))) in E by congruence; rewrite upd_same in E;
  rewrite (u8_id (lo pc)), (u8_id (hi pc)), Epc, Esp in E by (apply is8_u8);
  subst r; cbv_struct; repeat split.
Qed.
