(* DAA CPL NEG SCF CCF RLCA RRCA RLA RRA *)
From Z80V Require Export Proofs.H8Tac.

(* ---------------- handlers acting on A and F only ---------------- *)
Ltac shapeA := intros; cbv delta [pA pFa cpu0]; unf; reflexivity.
Ltac pureA a f := cbv delta [pA pFa cpu0]; unf; unfF; enum2 a f.
Lemma oopDAA_shape cpu : oopDAA cpu = s_AF cpu (mk_Register (pA oopDAA (g_AF_Hi cpu) (g_AF_Lo cpu)) (pFa oopDAA (g_AF_Hi cpu) (g_AF_Lo cpu))).
Proof. shapeA. Qed.
Lemma oopCPL_shape cpu : oopCPL cpu = s_AF cpu (mk_Register (pA oopCPL (g_AF_Hi cpu) (g_AF_Lo cpu)) (pFa oopCPL (g_AF_Hi cpu) (g_AF_Lo cpu))).
Proof. shapeA. Qed.
Lemma oopNEG_shape cpu : oopNEG cpu = s_AF cpu (mk_Register (pA oopNEG (g_AF_Hi cpu) (g_AF_Lo cpu)) (pFa oopNEG (g_AF_Hi cpu) (g_AF_Lo cpu))).
Proof. shapeA. Qed.
Lemma oopSCF_shape cpu : oopSCF cpu = s_AF cpu (mk_Register (pA oopSCF (g_AF_Hi cpu) (g_AF_Lo cpu)) (pFa oopSCF (g_AF_Hi cpu) (g_AF_Lo cpu))).
Proof. shapeA. Qed.
Lemma oopCCF_shape cpu : oopCCF cpu = s_AF cpu (mk_Register (pA oopCCF (g_AF_Hi cpu) (g_AF_Lo cpu)) (pFa oopCCF (g_AF_Hi cpu) (g_AF_Lo cpu))).
Proof. shapeA. Qed.
Lemma oopRLCA_shape cpu : oopRLCA cpu = s_AF cpu (mk_Register (pA oopRLCA (g_AF_Hi cpu) (g_AF_Lo cpu)) (pFa oopRLCA (g_AF_Hi cpu) (g_AF_Lo cpu))).
Proof. shapeA. Qed.
Lemma oopRRCA_shape cpu : oopRRCA cpu = s_AF cpu (mk_Register (pA oopRRCA (g_AF_Hi cpu) (g_AF_Lo cpu)) (pFa oopRRCA (g_AF_Hi cpu) (g_AF_Lo cpu))).
Proof. shapeA. Qed.
Lemma oopRLA_shape cpu : oopRLA cpu = s_AF cpu (mk_Register (pA oopRLA (g_AF_Hi cpu) (g_AF_Lo cpu)) (pFa oopRLA (g_AF_Hi cpu) (g_AF_Lo cpu))).
Proof. shapeA. Qed.
Lemma oopRRA_shape cpu : oopRRA cpu = s_AF cpu (mk_Register (pA oopRRA (g_AF_Hi cpu) (g_AF_Lo cpu)) (pFa oopRRA (g_AF_Hi cpu) (g_AF_Lo cpu))).
Proof. shapeA. Qed.

Lemma oopDAA_pure a f : is8 a -> is8 f -> (pA oopDAA a f, pFa oopDAA a f) = daa8 a f.
Proof. intros Ha Hf. both; pureA a f. Qed.
Lemma oopCPL_pure a f : is8 a -> is8 f -> (pA oopCPL a f, pFa oopCPL a f) = cpl8 a f.
Proof. intros Ha Hf. both; pureA a f. Qed.
Lemma oopNEG_pure a f : is8 a -> is8 f -> (pA oopNEG a f, pFa oopNEG a f) = neg8 a.
Proof. intros Ha Hf. both; pureA a f. Qed.
Ltac rotapure a f := cbv delta [pA pFa cpu0]; unf; unfF; cbv beta iota zeta delta [rota rot8 FC FS FZ FPV f53]; enum2 a f.
Lemma oopRLCA_pure a f : is8 a -> is8 f -> (pA oopRLCA a f, pFa oopRLCA a f) = rota RLC a f.
Proof. intros Ha Hf. both; rotapure a f. Qed.
Lemma oopRRCA_pure a f : is8 a -> is8 f -> (pA oopRRCA a f, pFa oopRRCA a f) = rota RRC a f.
Proof. intros Ha Hf. both; rotapure a f. Qed.
Lemma oopRLA_pure a f : is8 a -> is8 f -> (pA oopRLA a f, pFa oopRLA a f) = rota RL a f.
Proof. intros Ha Hf. both; rotapure a f. Qed.
Lemma oopRRA_pure a f : is8 a -> is8 f -> (pA oopRRA a f, pFa oopRRA a f) = rota RR a f.
Proof. intros Ha Hf. both; rotapure a f. Qed.
(* SCF / CCF: A unchanged; every specified bit as specified, whatever bits 5 and 3 are *)
Lemma oopSCF_pure a f : is8 a -> is8 f ->
  pA oopSCF a f = a /\ pFa oopSCF a f = scf8 f (pFa oopSCF a f).
Proof. intros Ha Hf. split; pureA a f. Qed.
Lemma oopCCF_pure a f : is8 a -> is8 f ->
  pA oopCCF a f = a /\ pFa oopCCF a f = ccf8 f (pFa oopCCF a f).
Proof. intros Ha Hf. split; pureA a f. Qed.
