(* 8-bit ALU helpers = Spec/Flags.v (see H8Tac.v for the method) *)
From Z80V Require Export Proofs.H8Tac.

(* ---------------- two operands, all of F replaced ---------------- *)

Ltac shape2 := intros; cbv delta [pF pR cpu0]; unf; reflexivity.

Lemma addU8_shape cpu a b : addU8 cpu a b = (s_AF_Lo cpu (pF addU8 a b (g_AF_Lo cpu)), pR addU8 a b (g_AF_Lo cpu)).
Proof. shape2. Qed.
Lemma adcU8_shape cpu a b : adcU8 cpu a b = (s_AF_Lo cpu (pF adcU8 a b (g_AF_Lo cpu)), pR adcU8 a b (g_AF_Lo cpu)).
Proof. shape2. Qed.
Lemma subU8_shape cpu a b : subU8 cpu a b = (s_AF_Lo cpu (pF subU8 a b (g_AF_Lo cpu)), pR subU8 a b (g_AF_Lo cpu)).
Proof. shape2. Qed.
Lemma sbcU8_shape cpu a b : sbcU8 cpu a b = (s_AF_Lo cpu (pF sbcU8 a b (g_AF_Lo cpu)), pR sbcU8 a b (g_AF_Lo cpu)).
Proof. shape2. Qed.
Lemma cpU8_shape cpu a b : cpU8 cpu a b = (s_AF_Lo cpu (pF cpU8 a b (g_AF_Lo cpu)), pR cpU8 a b (g_AF_Lo cpu)).
Proof. shape2. Qed.
Lemma andU8_shape cpu a b : andU8 cpu a b = (s_AF_Lo cpu (pF andU8 a b (g_AF_Lo cpu)), pR andU8 a b (g_AF_Lo cpu)).
Proof. shape2. Qed.
Lemma orU8_shape cpu a b : orU8 cpu a b = (s_AF_Lo cpu (pF orU8 a b (g_AF_Lo cpu)), pR orU8 a b (g_AF_Lo cpu)).
Proof. shape2. Qed.
Lemma xorU8_shape cpu a b : xorU8 cpu a b = (s_AF_Lo cpu (pF xorU8 a b (g_AF_Lo cpu)), pR xorU8 a b (g_AF_Lo cpu)).
Proof. shape2. Qed.

Ltac pure2 a b f Ha Hb Hf :=
  cbv delta [pF pR cpu0]; unf; unfF; kill_ldiff f Hf;
  first [ let c := fresh "c" in let Hc := fresh "Hc" in
          (progress (gen_carry f c Hc)); enum2b a b c
        | enum2 a b ].

Lemma addU8_pure a b f : is8 a -> is8 b -> is8 f ->
  (pR addU8 a b f, pF addU8 a b f) = alu8 ADD a b f.
Proof. intros Ha Hb Hf. apply injective_projections; cbn [fst snd]; pure2 a b f Ha Hb Hf. Qed.
Lemma adcU8_pure a b f : is8 a -> is8 b -> is8 f ->
  (pR adcU8 a b f, pF adcU8 a b f) = alu8 ADC a b f.
Proof. intros Ha Hb Hf. apply injective_projections; cbn [fst snd]; pure2 a b f Ha Hb Hf. Qed.
Lemma subU8_pure a b f : is8 a -> is8 b -> is8 f ->
  (pR subU8 a b f, pF subU8 a b f) = alu8 SUB a b f.
Proof. intros Ha Hb Hf. apply injective_projections; cbn [fst snd]; pure2 a b f Ha Hb Hf. Qed.
Lemma sbcU8_pure a b f : is8 a -> is8 b -> is8 f ->
  (pR sbcU8 a b f, pF sbcU8 a b f) = alu8 SBC a b f.
Proof. intros Ha Hb Hf. apply injective_projections; cbn [fst snd]; pure2 a b f Ha Hb Hf. Qed.
Lemma andU8_pure a b f : is8 a -> is8 b -> is8 f ->
  (pR andU8 a b f, pF andU8 a b f) = alu8 AND a b f.
Proof. intros Ha Hb Hf. apply injective_projections; cbn [fst snd]; pure2 a b f Ha Hb Hf. Qed.
Lemma orU8_pure a b f : is8 a -> is8 b -> is8 f ->
  (pR orU8 a b f, pF orU8 a b f) = alu8 OR a b f.
Proof. intros Ha Hb Hf. apply injective_projections; cbn [fst snd]; pure2 a b f Ha Hb Hf. Qed.
Lemma xorU8_pure a b f : is8 a -> is8 b -> is8 f ->
  (pR xorU8 a b f, pF xorU8 a b f) = alu8 XOR a b f.
Proof. intros Ha Hb Hf. apply injective_projections; cbn [fst snd]; pure2 a b f Ha Hb Hf. Qed.
(* CP: the Go helper returns the difference (unused by its callers); flags as specified *)
Lemma cpU8_pure a b f : is8 a -> is8 b -> is8 f -> pF cpU8 a b f = snd (alu8 CP a b f).
Proof. intros Ha Hb Hf. cbn [fst snd]; pure2 a b f Ha Hb Hf. Qed.

