(* Proofs/BlockFacts.v -- what the sequential copy of LDIR (Block.copy false) computes, in closed form:
   * outside the destination range nothing changes;
   * when the destination does not lie inside (source, source+n) -- no overlap, or destination below the source --
     the destination receives the ORIGINAL source bytes (an ordinary block move);
   * with DE = HL+1 the first byte is replicated n times (the classic fill idiom), which is what distinguishes the
     byte-by-byte semantics from a block move.
   No wrap-around in these corollaries (the general statement is C09_ldir_lddr_whole_operation itself). *)
From Z80V Require Export Proofs.Block.
From Coq Require Import Lia.

Lemma upd_eq (f : Z -> Z) a v : upd f a v a = v.
Proof. unfold upd. rewrite Z.eqb_refl. reflexivity. Qed.
Lemma u8_u8 x : u8 (u8 x) = u8 x.
Proof. apply u8_id. apply u8_range. Qed.

(* forward pointers without wrap *)
Lemma bstep_fwd w : 0 <= w < 65535 -> bstep false w = w + 1.
Proof. intros H. unfold bstep. apply u16_id. lia. Qed.

Lemma copy_outside : forall n r hl de x, 0 <= de -> de + Z.of_nat n <= 65536 -> 0 <= hl -> hl + Z.of_nat n <= 65536 ->
  (x < de \/ de + Z.of_nat n <= x) -> copy false n r hl de x = r x.
Proof.
  induction n as [|n IH]; intros r hl de x Hde Hd Hhl Hh Hx; cbn [copy]; [reflexivity|].
  destruct n as [|n']; [cbn [copy]; apply upd_other; lia|].
  rewrite !bstep_fwd by lia. rewrite IH by lia. apply upd_other. lia.
Qed.

(* block move: destination at or below the source, or beyond its end *)
Lemma copy_move : forall n r hl de k, 0 <= de -> de + Z.of_nat n <= 65536 -> 0 <= hl -> hl + Z.of_nat n <= 65536 ->
  (de <= hl \/ hl + Z.of_nat n <= de) -> 0 <= k < Z.of_nat n ->
  copy false n r hl de (de + k) = u8 (r (hl + k)).
Proof.
  induction n as [|n IH]; intros r hl de k Hde Hd Hhl Hh Hov Hk; [lia|]. cbn [copy].
  destruct n as [|n']; [assert (k = 0) by lia; subst k; cbn [copy]; rewrite !Z.add_0_r; apply upd_eq|].
  rewrite !bstep_fwd by lia.
  destruct (Z.eq_dec k 0) as [->|Hk0].
  - rewrite !Z.add_0_r. rewrite copy_outside by lia. apply upd_eq.
  - replace (de + k) with (de + 1 + (k - 1)) by lia. rewrite IH by lia.
    replace (hl + 1 + (k - 1)) with (hl + k) by lia. f_equal. apply upd_other. lia.
Qed.

(* fill: DE = HL + 1 *)
Lemma copy_fill : forall n r hl k, 0 <= hl -> hl + 1 + Z.of_nat n <= 65536 -> 0 <= k < Z.of_nat n ->
  copy false n r hl (hl + 1) (hl + 1 + k) = u8 (r hl).
Proof.
  induction n as [|n IH]; intros r hl k Hhl Hh Hk; [lia|]. cbn [copy].
  destruct n as [|n']; [assert (k = 0) by lia; subst k; cbn [copy]; rewrite Z.add_0_r; apply upd_eq|].
  rewrite !bstep_fwd by lia.
  destruct (Z.eq_dec k 0) as [->|Hk0].
  - rewrite Z.add_0_r. rewrite copy_outside by lia. apply upd_eq.
  - replace (hl + 1 + k) with (hl + 1 + 1 + (k - 1)) by lia. rewrite IH by lia.
    rewrite upd_eq. apply u8_u8.
Qed.
