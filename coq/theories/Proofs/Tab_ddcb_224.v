(* one shard of the ddcb decode table: generated handler = specification, opcode by opcode.
   Written by tools/gen_tables.py. *)
From Z80V Require Import Proofs.TableTac.
Lemma tab_ddcb_224 : forall c, In c [224; 225; 226; 227; 228; 229; 230; 231; 232; 233; 234; 235; 236; 237; 238; 239; 240; 241; 242; 243; 244; 245; 246; 247; 248; 249; 250; 251; 252; 253; 254; 255] -> forall cpu, WF cpu -> forall c0 c1 d, is8 d -> 
  executeOne_ddcb cpu c0 c1 d c c = exec_idxcb impl_unspec MIX d (decode_idxcb c) cpu.
Proof. intros c Hc cpu H c0 c1 d Hd. table_tac Hc H. Qed.
