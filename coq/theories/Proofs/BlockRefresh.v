(* Proofs/BlockRefresh.v -- C14 "again on every repetition of a block instruction": every Step spent on LDIR/LDDR (one
   repetition; PC stays on the instruction while BC <> 0, C09) fetches its two opcode bytes again: R makes exactly two ticks, I is kept *)
From Z80V Require Import Proofs.SpecFacts Proofs.Frame Proofs.Block Proofs.Refresh Proofs.Iter.

Theorem ldxr_repetition_ticks_twice u dec cpu : on_ldxr dec cpu ->
  g_IR_Hi (spec_step u cpu) = g_IR_Hi cpu /\ g_IR_Lo (spec_step u cpu) = r_tick (r_tick (g_IR_Lo cpu)).
Proof.
  intros Hon. rewrite (step_at_ldxr u dec cpu Hon).
  destruct (exec_ir2 u MHL (BLOCK BLD dec true) (fst (fetch_m1 (fst (fetch_m1 cpu)))) eq_refl) as [A B].
  destruct (fetch_m1_ir2 (fst (fetch_m1 cpu))) as [C D]. destruct (fetch_m1_ir2 cpu) as [E F].
  split; congruence.
Qed.
Theorem ldxr_repetition_ticks_twice_gen dec cpu : WF cpu -> on_ldxr dec cpu ->
  g_IR_Hi (Step cpu) = g_IR_Hi cpu /\ g_IR_Lo (Step cpu) = r_tick (r_tick (g_IR_Lo cpu)).
Proof. intros H Hon. rewrite Step_ok by exact H. exact (ldxr_repetition_ticks_twice impl_unspec dec cpu Hon). Qed.
