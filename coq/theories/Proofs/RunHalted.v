(* Proofs/RunHalted.v -- C08: calling Run again on a halted CPU.  With the CPU parked on a HALT opcode (what a Run that ended
   with nil leaves behind) and no request pending, another Run -- whatever the stale halted indication says -- executes exactly
   one Step and returns, halted again at the same address, with every register, flag, flip-flop, I, SP, PC and memory
   unchanged (R one tick further); the result is nil, or ErrBreakPoint if that address is a break point (the break point wins). *)
From Z80V Require Import Proofs.SpecFacts Proofs.Frame Proofs.Block Proofs.Refresh Proofs.WFStep Proofs.Halted Proofs.Iter.
From Coq Require Import Lia.

Lemma halt_one_bp u cpu : WF cpu -> g_Memory cpu = UserMem -> g_Interrupt cpu = None ->
  u8 (ram (g_W cpu) (g_PC cpu)) = 118 -> g_BreakPoints (spec_step u cpu) = g_BreakPoints cpu.
Proof.
  intros Hwf Hm Hi H0. remember (spec_step u cpu) as r eqn:E. open_cpu cpu.
  cbv_struct_in Hm. cbv_struct_in Hi. cbv_struct_in H0. wf_open Hwf. subst mem irq.
  unfold spec_step in E. cbv_struct_in E. unfold step_instr in E.
  cbv beta iota zeta delta [fetch_m1 fetch8 rd mem_get wget w_log inc16] in E. cbv_struct_in E.
  rewrite H0, dm_halt in E. cbv beta iota zeta delta [exec] in E. cbv_struct_in E.
  subst r; cbv_struct; reflexivity.
Qed.
Lemma WF_Run_enter cpu : WF cpu -> WF (Run_enter cpu).
Proof. open_cpu cpu. intros H. wf_open H. unfold Run_enter. wf_close. Qed.

Theorem Run_again_on_halted fuel cpu : (1 <= fuel)%nat -> WF cpu -> g_Memory cpu = UserMem -> g_Interrupt cpu = None ->
  u8 (ram (g_W cpu) (g_PC cpu)) = 118 ->
  let cpu' := Step (Run_enter cpu) in
  Run fuel never cpu = Some (cpu', if bp_hit cpu then RunErrBreakPoint else RunNil) /\
  halted_same cpu cpu' /\ g_HALT cpu' = true /\ g_IR_Lo cpu' = r_tick (g_IR_Lo cpu).
Proof.
  intros Hf Hwf Hm Hi H0 cpu'.
  pose proof (WF_Run_enter cpu Hwf) as Hwf'.
  assert (E : cpu' = spec_step impl_unspec (Run_enter cpu)) by (subst cpu'; apply Step_ok; exact Hwf').
  destruct (halt_one_step impl_unspec (Run_enter cpu) Hwf' Hm Hi H0) as [Hs [Hr Hh]].
  pose proof (halt_one_bp impl_unspec (Run_enter cpu) Hwf' Hm Hi H0) as Hb.
  rewrite <- E in Hs, Hr, Hh, Hb.
  assert (Hst : stops cpu' = true) by (unfold stops; rewrite Hh; apply Bool.orb_true_r).
  assert (Hbp : bp_hit cpu' = bp_hit cpu).
  { unfold bp_hit. rewrite Hb. unfold halted_same in Hs. decompose [and] Hs.
    replace (g_PC cpu') with (g_PC cpu) by (symmetry; assumption). reflexivity. }
  split.
  - rewrite (Run_is_repeated_Step 0 fuel cpu Hf); [| intros j Hj; lia | exact Hst].
    cbn [iter]. fold cpu'. unfold result_of. rewrite Hbp. reflexivity.
  - split; [exact Hs|]. split; [exact Hh|exact Hr].
Qed.
