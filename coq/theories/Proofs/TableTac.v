(* Proofs/TableTac.v -- the tactic that proves one dispatch arm:
   generated handler (unfolded) = specification (unfolded), for every well-formed state. *)
From Z80V Require Export Proofs.HelpersOk.

Ltac split_in H := cbv [In] in H; repeat (destruct H as [<-|H]); [.. | contradiction].
Ltac pick_arm := cbv beta iota delta [executeOne_main executeOne_cb executeOne_ed executeOne_dd executeOne_fd
  executeOne_ddcb executeOne_fdcb byte_of_Z Byte.of_N Z.to_N].
Ltac compute_decode :=
  repeat match goal with
  | |- context [decode_main ?n] => let d := eval vm_compute in (decode_main n) in change (decode_main n) with d
  | |- context [decode_cb ?n] => let d := eval vm_compute in (decode_cb n) in change (decode_cb n) with d
  | |- context [decode_ed ?n] => let d := eval vm_compute in (decode_ed n) in change (decode_ed n) with d
  | |- context [decode_idx ?n] => let d := eval vm_compute in (decode_idx n) in change (decode_idx n) with d
  | |- context [decode_idxcb ?n] => let d := eval vm_compute in (decode_idxcb n) in change (decode_idxcb n) with d
  end.

Ltac side := cbv_struct; range.
Ltac spec_unfold := cbv beta iota zeta delta [exec exec_idxcb rd_opnd get_rm set_rm get_r set_r get_idx set_idx
  get_rp set_rp get_F set_F get_A set_A is_mem ea rd wr rd16 wr16 fetch8 Spec.Exec.fetch16 push16 push16_lowfirst pop16 pop16_plus2
  jump_rel rewind2 block_step block_again mem_get mem_set orb andb cond inc16 dec16
  alu8 and8 or8 xor8 rld8 rrd8 wreg regw impl_unspec u_scf u_ccf u_bitmem u_blockio io_In io_Out reti_Handle retn_Handle warnf log_ev w_log Mem_Get Mem_Set].
Ltac negb_consts :=
  repeat match goal with
  | |- context [negb true] => change (negb true) with false
  | |- context [negb false] => change (negb false) with true
  end.
Ltac norm := cbv_struct; spec_unfold; negb_consts.

Ltac rw_af :=
  repeat first
  [ rewrite oopDAA_ok by side | rewrite oopCPL_ok by side | rewrite oopNEG_ok by side
  | rewrite oopSCF_ok by side | rewrite oopCCF_ok by side
  | rewrite oopRLCA_ok by side | rewrite oopRRCA_ok by side | rewrite oopRLA_ok by side | rewrite oopRRA_ok by side ].
Ltac fold_pure :=
  repeat match goal with
  | |- context [Register_U16 ?r] => change (Register_U16 r) with (regw r)
  | |- context [toU16 ?l ?h] => change (toU16 l h) with (mk16 h l)
  | |- context [incU16 ?c ?a] => change (incU16 c a) with (u16 (a + 1))
  | |- context [decU16 ?c ?a] => change (decU16 c a) with (u16 (a - 1))
  end.
Ltac rw_helpers :=
  repeat first
  [ rewrite W_Get_ok | rewrite W_Set_ok
  | progress fold_pure | rewrite Register_SetU16_ok | rewrite fromU16_ok
  | rewrite addrOff_ok
  | rewrite hi_mk16 by side | rewrite lo_mk16 by side | rewrite mk16_hi_lo by side
  | rewrite mask1 by side | rewrite mask4 by side | rewrite mask64 by side | rewrite mask128 by side
  | rewrite ldx_pv by side | rewrite cpx_pv by side
  | rewrite Bool.negb_involutive
  | rewrite addU8_ok by side | rewrite adcU8_ok by side | rewrite subU8_ok by side | rewrite sbcU8_ok by side
  | rewrite andU8_ok by side | rewrite orU8_ok by side | rewrite xorU8_ok by side | rewrite cpU8_ok by side
  | rewrite incU8_ok by side | rewrite decU8_ok by side | rewrite updateFlagLogic8_ok by side
  | rewrite with_hi_hi by side | rewrite with_lo_lo by side
  | rewrite addU16_ok by side | rewrite adcU16_ok by side | rewrite sbcU16_ok by side
  | rewrite rlcU8_ok by side | rewrite rrcU8_ok by side | rewrite rlU8_ok by side | rewrite rrU8_ok by side
  | rewrite slaU8_ok by side | rewrite sraU8_ok by side | rewrite sl1U8_ok by side | rewrite srlU8_ok by side
  | rewrite bitchk8_ok by (side || lia) | rewrite bitchk8b_ok by (side || lia)
  | rewrite bitset8_ok by lia | rewrite bitres8_ok by (side || lia)
  | rewrite updateIOIn_ok by side | rewrite updateFlagRxD_ok by side | rewrite updateFlagIR_ok by side
  | rewrite updateFlagIObZ_ok by side | rewrite updateFlagLDID_ok by side | rewrite updateFlagCPx_ok by side
  | rewrite decP8_BC_Hi by side | rewrite decP8_BC_Lo by side | rewrite decP8_DE_Hi by side | rewrite decP8_DE_Lo by side
  | rewrite decP8_HL_Hi by side | rewrite decP8_HL_Lo by side | rewrite decP8_AF_Hi by side
  | rewrite rld_a by side | rewrite rld_m by side | rewrite rrd_a by side | rewrite rrd_m by side ].

Ltac syn_refl := lazymatch goal with |- ?x = ?x => reflexivity end.
(* a boolean field of the state (IO present, handlers present, IFF) *)
Ltac is_proj_of_var b :=
  lazymatch b with
  | CPU_IO ?c => is_var c | CPU_RETIHandler ?c => is_var c | CPU_RETNHandler ?c => is_var c
  | States_IFF1 (CPU_States ?c) => is_var c | States_IFF2 (CPU_States ?c) => is_var c
  end.
Ltac destruct_stuck :=
  match goal with
  | |- context [match (if negb ?b then _ else _) with pair _ _ => _ end] => destruct b eqn:?
  | |- context [match (if ?b then _ else _) with pair _ _ => _ end] => destruct b eqn:?
  | |- context [if negb ?b then _ else _] => is_proj_of_var b; destruct b eqn:?
  | |- context [if ?b then _ else _] => is_proj_of_var b; destruct b eqn:?
  end.
Ltac arm_core :=
  rw_af; unfold_handlers; spec_unfold;
  repeat (progress (rw_helpers; norm));
  repeat (destruct_stuck; repeat (progress (rw_helpers; norm))).
Ltac destruct_ifs := repeat match goal with |- context [if ?c then _ else _] => destruct c end.
Ltac leaf := first [ syn_refl | reflexivity ].
Ltac unfold_words := cbv beta delta [hi lo with_hi with_lo mk16 disp s8 sext8].
Ltac split_regs := repeat first [ rewrite reg_inc16' by side | rewrite reg_dec16' by side ].
Ltac finish :=
  first [ syn_refl
        | solve [split_regs; cbv_struct; destruct_ifs; repeat f_equal; leaf]
        | solve [repeat f_equal; leaf]
        | solve [unfold_words; repeat f_equal; leaf]
        | solve [destruct_ifs; repeat f_equal; leaf]
        | solve [unfold_words; destruct_ifs; repeat f_equal; leaf] ].
Ltac arm := arm_core; finish.
Ltac table_tac Hc H := wf_destruct H; split_in Hc; (pick_arm; compute_decode; arm).
