(* one shard of the ed decode table: generated handler = specification, opcode by opcode.
   Written by tools/gen_tables.py. *)
From Z80V Require Import Proofs.TableTac.
Lemma tab_ed_000 : forall c, In c [0; 1; 2; 3; 4; 5; 6; 7; 8; 9; 10; 11; 12; 13; 14; 15; 16; 17; 18; 19; 20; 21; 22; 23; 24; 25; 26; 27; 28; 29; 30; 31] -> forall cpu, WF cpu -> forall c0, 
  executeOne_ed cpu c0 c c = exec impl_unspec MHL (decode_ed c) cpu.
Proof. intros c Hc cpu H c0. table_tac Hc H. Qed.
