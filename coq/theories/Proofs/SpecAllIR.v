(* facts about every instruction of the specification (see SpecAllTac.v) *)
From Z80V Require Export Proofs.SpecAllEnv.

Lemma exec_keeps_ir u m i cpu : writes_ir i = false -> g_IR (exec u m i cpu) = g_IR cpu.
Proof.
  intros E. open_cpu cpu. destruct m; all_cases i; try discriminate E;
    abstract (spec_norm; first [ syn_refl | solve [destruct_ifs; spec_norm; syn_refl] ]).
Qed.

Lemma exec_idxcb_keeps_ir u m dd i cpu : g_IR (exec_idxcb u m dd i cpu) = g_IR cpu.
Proof. open_cpu cpu. destruct m; all_cases i; abstract (spec_norm; first [ syn_refl | solve [destruct_ifs; spec_norm; syn_refl] ]). Qed.
