(* Proofs/SpecTac.v -- tactics for reasoning about the specification alone (no dependency on Gen/) *)
From Z80V Require Export Proofs.Struct Spec.Exec.
Ltac syn_refl := lazymatch goal with |- ?x = ?x => reflexivity end.
Ltac destruct_ifs := repeat match goal with |- context [if ?c then _ else _] => destruct c end.
Ltac spec_unfold := cbv beta iota zeta delta [exec exec_idxcb rd_opnd get_rm set_rm get_r set_r get_idx set_idx
  get_rp set_rp get_F set_F get_A set_A is_mem ea rd wr rd16 wr16 fetch8 Spec.Exec.fetch16 push16 push16_lowfirst pop16 pop16_plus2
  jump_rel rewind2 block_step block_again mem_get mem_set orb andb cond inc16 dec16
  alu8 and8 or8 xor8 rld8 rrd8 wreg regw  u_scf u_ccf u_bitmem u_blockio io_In io_Out reti_Handle retn_Handle warnf log_ev w_log ].
Ltac open_cpu cpu :=
  destruct cpu as [[[[a f] [b c] [d e] [h l]] [[ri_ rr_] ix iy sp pc] [[a' f'] [b' c'] [d' e'] [h' l']] iff1 iff2 im] mem io rn ri irq bp halt w].
