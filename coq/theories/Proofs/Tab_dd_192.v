(* one shard of the dd decode table: generated handler = specification, opcode by opcode.
   Written by tools/gen_tables.py. *)
From Z80V Require Import Proofs.TableTac.
Lemma tab_dd_192 : forall c, In c [192; 193; 194; 195; 196; 197; 198; 199; 200; 201; 202; 204; 205; 206; 207; 208; 209; 210; 211; 212; 213; 214; 215; 216; 217; 218; 219; 220; 221; 222; 223] -> forall cpu, WF cpu -> forall c0, 
  executeOne_dd cpu c0 c c = exec impl_unspec MIX (decode_idx c) cpu.
Proof. intros c Hc cpu H c0. table_tac Hc H. Qed.
