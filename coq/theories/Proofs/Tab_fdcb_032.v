(* one shard of the fdcb decode table: generated handler = specification, opcode by opcode.
   Written by tools/gen_tables.py. *)
From Z80V Require Import Proofs.TableTac.
Lemma tab_fdcb_032 : forall c, In c [32; 33; 34; 35; 36; 37; 38; 39; 40; 41; 42; 43; 44; 45; 46; 47; 48; 49; 50; 51; 52; 53; 54; 55; 56; 57; 58; 59; 60; 61; 62; 63] -> forall cpu, WF cpu -> forall c0 c1 d, is8 d -> 
  executeOne_fdcb cpu c0 c1 d c c = exec_idxcb impl_unspec MIY d (decode_idxcb c) cpu.
Proof. intros c Hc cpu H c0 c1 d Hd. table_tac Hc H. Qed.
