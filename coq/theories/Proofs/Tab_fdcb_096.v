(* one shard of the fdcb decode table: generated handler = specification, opcode by opcode.
   Written by tools/gen_tables.py. *)
From Z80V Require Import Proofs.TableTac.
Lemma tab_fdcb_096 : forall c, In c [96; 97; 98; 99; 100; 101; 102; 103; 104; 105; 106; 107; 108; 109; 110; 111; 112; 113; 114; 115; 116; 117; 118; 119; 120; 121; 122; 123; 124; 125; 126; 127] -> forall cpu, WF cpu -> forall c0 c1 d, is8 d -> 
  executeOne_fdcb cpu c0 c1 d c c = exec_idxcb impl_unspec MIY d (decode_idxcb c) cpu.
Proof. intros c Hc cpu H c0 c1 d Hd. table_tac Hc H. Qed.
