(* one shard of the ddcb decode table: generated handler = specification, opcode by opcode.
   Written by tools/gen_tables.py. *)
From Z80V Require Import Proofs.TableTac.
Lemma tab_ddcb_192 : forall c, In c [192; 193; 194; 195; 196; 197; 198; 199; 200; 201; 202; 203; 204; 205; 206; 207; 208; 209; 210; 211; 212; 213; 214; 215; 216; 217; 218; 219; 220; 221; 222; 223] -> forall cpu, WF cpu -> forall c0 c1 d, is8 d -> 
  executeOne_ddcb cpu c0 c1 d c c = exec_idxcb impl_unspec MIX d (decode_idxcb c) cpu.
Proof. intros c Hc cpu H c0 c1 d Hd. table_tac Hc H. Qed.
