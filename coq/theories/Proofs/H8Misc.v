(* BIT/SET/RES, IN flags, LD A,I/R flags, block-instruction flags, RLD/RRD flags, DEC r via pointer *)
From Z80V Require Export Proofs.H8Tac.

(* ---- BIT b,v ---- *)
Definition pBit (h : CPU -> Z -> Z -> CPU) b v f := g_AF_Lo (h (s_AF_Lo cpu0 f) b v).
Lemma bitchk8_shape cpu b v : bitchk8 cpu b v = s_AF_Lo cpu (pBit bitchk8 b v (g_AF_Lo cpu)).
Proof. cbv delta [pBit cpu0]; unf; reflexivity. Qed.
Lemma bitchk8b_shape cpu b v : bitchk8b cpu b v = s_AF_Lo cpu (pBit bitchk8b b v (g_AF_Lo cpu)).
Proof. cbv delta [pBit cpu0]; unf; reflexivity. Qed.
(* register operand: bits 5 and 3 from the tested value *)
Lemma bitchk8_pure b v f : 0 <= b < 8 -> is8 v -> is8 f -> pBit bitchk8 b v f = bit8 b v f v.
Proof.
  intros Hb Hv Hf. revert b Hb. apply bits8;
    (cbv delta [pBit cpu0]; unf; unfF; cbv beta iota zeta delta [bit8 f53 FZ FPV FS FH FC]; enum2 v f).
Qed.
(* memory operand: every specified bit as specified, whatever bits 5 and 3 are *)
Lemma bitchk8b_pure b v f : 0 <= b < 8 -> is8 v -> is8 f ->
  pBit bitchk8b b v f = bit8 b v f (pBit bitchk8b b v f).
Proof.
  intros Hb Hv Hf. revert b Hb. apply bits8;
    (cbv delta [pBit cpu0]; unf; unfF; cbv beta iota zeta delta [bit8 f53 FZ FPV FS FH FC]; enum2 v f).
Qed.
Lemma bitset8_ok cpu b v : 0 <= b < 8 -> bitset8 cpu b v = set8 b v.
Proof. intros Hb. revert b Hb. apply bits8; reflexivity. Qed.
Lemma bitres8_ok cpu b v : 0 <= b < 8 -> is8 v -> bitres8 cpu b v = res8 b v.
Proof. intros Hb Hv. revert b Hb. apply bits8; (cbv delta [bitres8 res8]; cbv beta; enum1 v). Qed.

(* ---- IN r,(C) ---- *)
Definition pV (h : CPU -> Z -> CPU) v f := g_AF_Lo (h (s_AF_Lo cpu0 f) v).
Lemma updateIOIn_shape cpu r : updateIOIn cpu r = s_AF_Lo cpu (pV updateIOIn r (g_AF_Lo cpu)).
Proof. cbv delta [pV cpu0]; unf; reflexivity. Qed.
Lemma updateIOIn_pure r f : is8 r -> is8 f -> pV updateIOIn r f = in_flags r f.
Proof. intros Hr Hf. cbv delta [pV cpu0]; unf; unfF; cbv beta iota zeta delta [in_flags FC]; enum2 r f. Qed.
(* ---- RLD / RRD flags ---- *)
Lemma updateFlagRxD_shape cpu r : updateFlagRxD cpu r = s_AF_Lo cpu (pV updateFlagRxD r (g_AF_Lo cpu)).
Proof. cbv delta [pV cpu0]; unf; reflexivity. Qed.
Lemma updateFlagRxD_pure r f : is8 r -> is8 f -> pV updateFlagRxD r f = sz53 r + parity r + Z.land f FC.
Proof. intros Hr Hf. cbv delta [pV cpu0]; unf; unfF; enum2 r f. Qed.
Lemma rld_a a m : is8 a -> is8 m -> Z.lor (Z.land a 240) (Z.shiftr m 4) = (a / 16) * 16 + m / 16.
Proof. intros. enum2 a m. Qed.
Lemma rld_m a m : is8 a -> is8 m -> Z.lor (u8 (Z.shiftl m 4)) (Z.land a 15) = (m mod 16) * 16 + a mod 16.
Proof. intros. enum2 a m. Qed.
Lemma rrd_a a m : is8 a -> is8 m -> Z.lor (Z.land a 240) (Z.land m 15) = (a / 16) * 16 + m mod 16.
Proof. intros. enum2 a m. Qed.
Lemma rrd_m a m : is8 a -> is8 m -> Z.lor (u8 (Z.shiftl a 4)) (Z.shiftr m 4) = (a mod 16) * 16 + m / 16.
Proof. intros. enum2 a m. Qed.

(* ---- LD A,I / LD A,R ---- *)
Definition pIR d (i : bool) f := g_AF_Lo (updateFlagIR (s_IFF2 (s_AF_Lo cpu0 f) i) d).
Lemma updateFlagIR_shape cpu d : updateFlagIR cpu d = s_AF_Lo cpu (pIR d (g_IFF2 cpu) (g_AF_Lo cpu)).
Proof. cbv delta [pIR cpu0]; unf; reflexivity. Qed.
Lemma updateFlagIR_pure d i f : is8 d -> is8 f -> pIR d i f = ldair_flags d i f.
Proof. intros Hd Hf. destruct i; cbv delta [pIR cpu0]; unf; unfF; cbv beta iota zeta delta [ldair_flags b2z FPV FC]; enum2 d f. Qed.

(* ---- INI/IND/OUTI/OUTD: Z from the new B, N set, C (and everything else) kept ---- *)
Definition pIOZ b f := g_AF_Lo (updateFlagIObZ (s_BC_Hi (s_AF_Lo cpu0 f) b)).
Lemma updateFlagIObZ_shape cpu : updateFlagIObZ cpu = s_AF_Lo cpu (pIOZ (g_BC_Hi cpu) (g_AF_Lo cpu)).
Proof. cbv delta [pIOZ cpu0]; unf; reflexivity. Qed.
Lemma updateFlagIObZ_pure b f : is8 b -> is8 f -> pIOZ b f = blockio_flags b f (pIOZ b f).
Proof. intros Hb Hf. cbv delta [pIOZ cpu0]; unf; unfF; cbv beta iota zeta delta [blockio_flags FZ FN FC FS F5 FH F3 FPV]; enum2 b f. Qed.

(* ---- LDI/LDD ---- *)
Lemma bc_nonzero h l : is8 h -> is8 l -> orb (negb (l =? 0)) (negb (h =? 0)) = negb (mk16 h l =? 0).
Proof. intros Hh Hl. cbv delta [mk16]; cbv beta. benum2 h l. Qed.
Definition pLDID v a bh bl f := g_AF_Lo (updateFlagLDID (s_BC (s_AF cpu0 (mk_Register a f)) (mk_Register bh bl)) v).
Lemma updateFlagLDID_shape cpu v :
  updateFlagLDID cpu v = s_AF_Lo cpu (pLDID v (g_AF_Hi cpu) (g_BC_Hi cpu) (g_BC_Lo cpu) (g_AF_Lo cpu)).
Proof. cbv delta [pLDID cpu0]; unf; reflexivity. Qed.
Lemma updateFlagLDID_pure v a bh bl f : is8 v -> is8 a -> is8 bh -> is8 bl -> is8 f ->
  pLDID v a bh bl f = ldx_flags a v (mk16 bh bl) f.
Proof.
  intros Hv Ha Hh Hl Hf. cbv delta [pLDID cpu0]; unf; unfF.
  cbv beta iota zeta delta [ldx_flags FS FZ FC FPV F3 F5].
  rewrite (bc_nonzero bh bl Hh Hl). rewrite (Z.add_comm v a).
  generalize (is8_u8 (a + v)). generalize (u8 (a + v)). intros n Hn.
  destruct (mk16 bh bl =? 0); cbv beta iota delta [negb b2z]; enum2 n f.
Qed.

(* ---- CPI/CPD ---- *)
Definition pCPx a x bh bl f :=
  g_AF_Lo (updateFlagCPx (s_BC (s_AF_Lo cpu0 f) (mk_Register bh bl)) (u8 (a - x)) a x).
Lemma updateFlagCPx_shape cpu a x :
  updateFlagCPx cpu (u8 (a - x)) a x = s_AF_Lo cpu (pCPx a x (g_BC_Hi cpu) (g_BC_Lo cpu) (g_AF_Lo cpu)).
Proof. cbv delta [pCPx cpu0]; unf; reflexivity. Qed.
Lemma updateFlagCPx_pure a x bh bl f : is8 a -> is8 x -> is8 bh -> is8 bl -> is8 f ->
  pCPx a x bh bl f = cpx_flags a x (mk16 bh bl) f.
Proof.
  intros Ha Hx Hh Hl Hf. cbv delta [pCPx cpu0]; unf; unfF.
  cbv beta iota zeta delta [cpx_flags s_z FS FZ FC FPV F3 F5 FH FN].
  rewrite (bc_nonzero bh bl Hh Hl). kill_ldiff f Hf. change (255 - 254) with 1.
  gen_carry f c Hc.
  destruct (mk16 bh bl =? 0); cbv beta iota delta [negb b2z]; enum2b a x c.
Qed.

(* ---- DEC r through a pointer into the CPU ---- *)
Definition pDecF b f := g_AF_Lo (decP8 (s_BC_Hi (s_AF_Lo cpu0 f) b) lens_BC_Hi).
Lemma decP8_pure b f : is8 b -> is8 f -> (u8 (b - 1), pDecF b f) = dec8 b f.
Proof. intros Hb Hf. both; cbv delta [pDecF cpu0]; unf; unfF; enum2 b f. Qed.
Lemma decP8_BC_Hi cpu : is8 (g_BC_Hi cpu) -> is8 (g_AF_Lo cpu) ->
  decP8 cpu lens_BC_Hi = s_AF_Lo (s_BC_Hi cpu (fst (dec8 (g_BC_Hi cpu) (g_AF_Lo cpu)))) (snd (dec8 (g_BC_Hi cpu) (g_AF_Lo cpu))).
Proof. intros Hb Hf. rewrite <- (decP8_pure _ _ Hb Hf). cbv delta [pDecF cpu0]; unf; reflexivity. Qed.
Lemma decP8_BC_Lo cpu : is8 (g_BC_Lo cpu) -> is8 (g_AF_Lo cpu) ->
  decP8 cpu lens_BC_Lo = s_AF_Lo (s_BC_Lo cpu (fst (dec8 (g_BC_Lo cpu) (g_AF_Lo cpu)))) (snd (dec8 (g_BC_Lo cpu) (g_AF_Lo cpu))).
Proof. intros Hb Hf. rewrite <- (decP8_pure _ _ Hb Hf). cbv delta [pDecF cpu0]; unf; reflexivity. Qed.
Lemma decP8_DE_Hi cpu : is8 (g_DE_Hi cpu) -> is8 (g_AF_Lo cpu) ->
  decP8 cpu lens_DE_Hi = s_AF_Lo (s_DE_Hi cpu (fst (dec8 (g_DE_Hi cpu) (g_AF_Lo cpu)))) (snd (dec8 (g_DE_Hi cpu) (g_AF_Lo cpu))).
Proof. intros Hb Hf. rewrite <- (decP8_pure _ _ Hb Hf). cbv delta [pDecF cpu0]; unf; reflexivity. Qed.
Lemma decP8_DE_Lo cpu : is8 (g_DE_Lo cpu) -> is8 (g_AF_Lo cpu) ->
  decP8 cpu lens_DE_Lo = s_AF_Lo (s_DE_Lo cpu (fst (dec8 (g_DE_Lo cpu) (g_AF_Lo cpu)))) (snd (dec8 (g_DE_Lo cpu) (g_AF_Lo cpu))).
Proof. intros Hb Hf. rewrite <- (decP8_pure _ _ Hb Hf). cbv delta [pDecF cpu0]; unf; reflexivity. Qed.
Lemma decP8_HL_Hi cpu : is8 (g_HL_Hi cpu) -> is8 (g_AF_Lo cpu) ->
  decP8 cpu lens_HL_Hi = s_AF_Lo (s_HL_Hi cpu (fst (dec8 (g_HL_Hi cpu) (g_AF_Lo cpu)))) (snd (dec8 (g_HL_Hi cpu) (g_AF_Lo cpu))).
Proof. intros Hb Hf. rewrite <- (decP8_pure _ _ Hb Hf). cbv delta [pDecF cpu0]; unf; reflexivity. Qed.
Lemma decP8_HL_Lo cpu : is8 (g_HL_Lo cpu) -> is8 (g_AF_Lo cpu) ->
  decP8 cpu lens_HL_Lo = s_AF_Lo (s_HL_Lo cpu (fst (dec8 (g_HL_Lo cpu) (g_AF_Lo cpu)))) (snd (dec8 (g_HL_Lo cpu) (g_AF_Lo cpu))).
Proof. intros Hb Hf. rewrite <- (decP8_pure _ _ Hb Hf). cbv delta [pDecF cpu0]; unf; reflexivity. Qed.
Lemma decP8_AF_Hi cpu : is8 (g_AF_Hi cpu) -> is8 (g_AF_Lo cpu) ->
  decP8 cpu lens_AF_Hi = s_AF_Lo (s_AF_Hi cpu (fst (dec8 (g_AF_Hi cpu) (g_AF_Lo cpu)))) (snd (dec8 (g_AF_Hi cpu) (g_AF_Lo cpu))).
Proof. intros Hb Hf. rewrite <- (decP8_pure _ _ Hb Hf). cbv delta [pDecF cpu0]; unf; reflexivity. Qed.

(* ---- AND/OR/XOR flags called directly by the register forms ---- *)
Definition pLogic r (b : bool) f := g_AF_Lo (updateFlagLogic8 (s_AF_Lo cpu0 f) r b).
Lemma updateFlagLogic8_shape cpu r b : updateFlagLogic8 cpu r b = s_AF_Lo cpu (pLogic r b (g_AF_Lo cpu)).
Proof. cbv delta [pLogic cpu0]; unf; reflexivity. Qed.
Lemma updateFlagLogic8_pure r b f : is8 r -> is8 f ->
  pLogic r b f = if b then sz53 r + FH + parity r else sz53 r + parity r.
Proof. intros Hr Hf. destruct b; cbv delta [pLogic cpu0]; unf; unfF; enum2 r f. Qed.

(* ---- the repeat tests of LDIR/CPIR read P/V of the flags just computed ---- *)
Lemma is8_ldx_flags a v bc f : is8 f -> is8 (ldx_flags a v bc f).
Proof.
  intros Hf. unfold ldx_flags. generalize (is8_u8 (a + v)). generalize (u8 (a + v)). intros n Hn.
  cbv beta iota zeta delta [FS FZ FC FPV F3 F5].
  assert (E : forall z : bool, is8 (Z.land f (128 + 64 + 1) + b2z z 4 + Z.land n 8 + b2z (Z.testbit n 1) 32)).
  { intros z. enough (all_below 256 (fun n => all_below 256 (fun f =>
       (0 <=? Z.land f (128 + 64 + 1) + b2z z 4 + Z.land n 8 + b2z (Z.testbit n 1) 32) &&
       (Z.land f (128 + 64 + 1) + b2z z 4 + Z.land n 8 + b2z (Z.testbit n 1) 32 <? 256))) = true) as H.
    { pose proof (forall_byte2 _ H n f Hn Hf) as B. unfold is8. lia. }
    destruct z; vm_compute; reflexivity. }
  apply E.
Qed.
Lemma ldx_pv a v bc f : is8 f -> Z.testbit (ldx_flags a v bc f) 2 = negb (bc =? 0).
Proof.
  intros Hf. unfold ldx_flags. generalize (is8_u8 (a + v)). generalize (u8 (a + v)). intros n Hn.
  cbv beta iota zeta delta [FS FZ FC FPV F3 F5]. destruct (bc =? 0); cbv beta iota delta [negb b2z]; benum2 n f.
Qed.
Lemma is8_cpx_flags a v bc f : is8 a -> is8 v -> is8 f -> is8 (cpx_flags a v bc f).
Proof.
  intros Ha Hv Hf. pose proof (is1_land1 f) as Hc. unfold cpx_flags.
  cbv beta iota zeta delta [s_z FS FZ FC FPV F3 F5 FH FN]. revert Hc. generalize (Z.land f 1). intros c Hc.
  assert (E : forall z : bool, is8 (Z.land ((a - v) mod 256) 128 + b2z ((a - v) mod 256 =? 0) 64 + b2z (a mod 16 <? v mod 16) 16 + b2z z 4 + 2 + c +
     Z.land (((a - v) mod 256 - b2z (a mod 16 <? v mod 16) 1) mod 256) 8 + b2z (Z.testbit (((a - v) mod 256 - b2z (a mod 16 <? v mod 16) 1) mod 256) 1) 32)).
  { intros z.
    enough (H : forall a v c, is8 a -> is8 v -> is1 c -> ((0 <=? Z.land ((a - v) mod 256) 128 + b2z ((a - v) mod 256 =? 0) 64 + b2z (a mod 16 <? v mod 16) 16 + b2z z 4 + 2 + c +
     Z.land (((a - v) mod 256 - b2z (a mod 16 <? v mod 16) 1) mod 256) 8 + b2z (Z.testbit (((a - v) mod 256 - b2z (a mod 16 <? v mod 16) 1) mod 256) 1) 32) &&
     (Z.land ((a - v) mod 256) 128 + b2z ((a - v) mod 256 =? 0) 64 + b2z (a mod 16 <? v mod 16) 16 + b2z z 4 + 2 + c +
     Z.land (((a - v) mod 256 - b2z (a mod 16 <? v mod 16) 1) mod 256) 8 + b2z (Z.testbit (((a - v) mod 256 - b2z (a mod 16 <? v mod 16) 1) mod 256) 1) 32 <? 256)) = true).
    { pose proof (H a v c Ha Hv Hc) as B. unfold is8. lia. }
    apply forall_byte2_bit. destruct z; vm_compute; reflexivity. }
  apply E.
Qed.
Lemma cpx_pv a v bc f : is8 a -> is8 v -> is8 f -> Z.testbit (cpx_flags a v bc f) 2 = negb (bc =? 0).
Proof.
  intros Ha Hv Hf. pose proof (is1_land1 f) as Hc. unfold cpx_flags.
  cbv beta iota zeta delta [s_z FS FZ FC FPV F3 F5 FH FN]. revert Hc. generalize (Z.land f 1). intros c Hc.
  enough (H : forall z : bool, Z.testbit (Z.land ((a - v) mod 256) 128 + b2z ((a - v) mod 256 =? 0) 64 + b2z (a mod 16 <? v mod 16) 16 + b2z z 4 + 2 + c +
     Z.land (((a - v) mod 256 - b2z (a mod 16 <? v mod 16) 1) mod 256) 8 + b2z (Z.testbit (((a - v) mod 256 - b2z (a mod 16 <? v mod 16) 1) mod 256) 1) 32) 2 = z).
  { apply H. }
  intros z. apply Bool.eqb_prop.
  exact (forall_byte2_bit (fun a v c => Bool.eqb (Z.testbit (Z.land ((a - v) mod 256) 128 + b2z ((a - v) mod 256 =? 0) 64 + b2z (a mod 16 <? v mod 16) 16 + b2z z 4 + 2 + c +
     Z.land (((a - v) mod 256 - b2z (a mod 16 <? v mod 16) 1) mod 256) 8 + b2z (Z.testbit (((a - v) mod 256 - b2z (a mod 16 <? v mod 16) 1) mod 256) 1) 32) 2) z)
     ltac:(destruct z; vm_compute; reflexivity) a v c Ha Hv Hc).
Qed.
#[global] Hint Resolve is8_ldx_flags is8_cpx_flags : ranges.
