(* facts about every instruction of the specification (see SpecAllTac.v) *)
From Z80V Require Export Proofs.SpecAllSwap.

Lemma exec_ix_ignores_iy u i cpu v : exec u MIX i (s_IY cpu v) = s_IY (exec u MIX i cpu) v.
Proof. open_cpu cpu. all_cases i; abstract (spec_norm; close_case). Qed.

Lemma exec_idxcb_ix_ignores_iy u dd i cpu v : exec_idxcb u MIX dd i (s_IY cpu v) = s_IY (exec_idxcb u MIX dd i cpu) v.
Proof. open_cpu cpu. all_cases i; abstract (spec_norm; close_case). Qed.
