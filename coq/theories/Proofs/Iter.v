(* Proofs/Iter.v -- from one Step to any number of Steps of the GENERATED code:
   Step keeps the state well formed, hence n Steps of the generated code are n steps of the specification. *)
From Z80V Require Export Proofs.Frame Proofs.RunProofs.

Theorem Step_WF cpu : WF cpu -> WF (Step cpu).
Proof. intros H. rewrite Step_ok by exact H. apply spec_step_wf, H. Qed.
Theorem iter_WF n : forall cpu, WF cpu -> WF (iter n cpu).
Proof. induction n as [|n IH]; intros cpu H; cbn [iter]; [exact H | apply IH, Step_WF, H]. Qed.
Theorem iter_ok n : forall cpu, WF cpu -> iter n cpu = spec_iter impl_unspec n cpu.
Proof.
  induction n as [|n IH]; intros cpu H; cbn [iter spec_iter]; [reflexivity|].
  rewrite IH by (apply Step_WF, H). rewrite Step_ok by exact H. reflexivity.
Qed.

Lemma WF_erase cpu : WF cpu -> WF (erase cpu).
Proof. open_cpu cpu. intros H. wf_open H. unfold erase. wf_close. Qed.
(* the hidden fields (HALT indication, break points) never influence execution, over any number of Steps *)
Theorem iter_erase n cpu : WF cpu -> erase (iter n (erase cpu)) = erase (iter n cpu).
Proof. intros H. rewrite !iter_ok by (try apply WF_erase; exact H). apply spec_iter_erase. Qed.
(* no Go run-time panic in any number of Steps *)
Theorem iter_no_panic n cpu : WF cpu -> g_Memory cpu = UserMem ->
  npanics (trace (g_W (iter n cpu))) = npanics (trace (g_W cpu)).
Proof. intros H Hm. rewrite iter_ok by exact H. apply (spec_iter_no_panic impl_unspec n cpu H Hm). Qed.
