(* Proofs/H16.v -- 16-bit arithmetic (addU16, adcU16, sbcU16 of accum.go) against Spec/Flags.v.
   2^33 operand/carry combinations cannot be enumerated: the proof splits every word into its bytes,
   shows symbolically that both the generated flag expression and the specification depend only on
   the high bytes and the carry/borrow out of the low bytes, and enumerates that space (2^17). *)
From Z80V Require Export Proofs.H8Tac Proofs.HStruct.
From Coq Require Import ZifyBool.

Definition pF16 (h : CPU -> Z -> Z -> CPU * Z) a b f := g_AF_Lo (fst (h (s_AF_Lo cpu0 f) a b)).
Definition pR16 (h : CPU -> Z -> Z -> CPU * Z) a b f := snd (h (s_AF_Lo cpu0 f) a b).
Lemma addU16_shape cpu a b : addU16 cpu a b = (s_AF_Lo cpu (pF16 addU16 a b (g_AF_Lo cpu)), pR16 addU16 a b (g_AF_Lo cpu)).
Proof. cbv delta [pF16 pR16 cpu0]; unf; reflexivity. Qed.
Lemma adcU16_shape cpu a b : adcU16 cpu a b = (s_AF_Lo cpu (pF16 adcU16 a b (g_AF_Lo cpu)), pR16 adcU16 a b (g_AF_Lo cpu)).
Proof. cbv delta [pF16 pR16 cpu0]; unf; reflexivity. Qed.
Lemma sbcU16_shape cpu a b : sbcU16 cpu a b = (s_AF_Lo cpu (pF16 sbcU16 a b (g_AF_Lo cpu)), pR16 sbcU16 a b (g_AF_Lo cpu)).
Proof. cbv delta [pF16 pR16 cpu0]; unf; reflexivity. Qed.

(* ---- bit-level facts, for all integers ---- *)
Lemma u8_bits x i : 0 <= i -> Z.testbit (u8 x) i = (i <? 8) && Z.testbit x i.
Proof.
  intros Hi. unfold u8. change 255 with (Z.ones 8). rewrite Z.land_spec.
  destruct (Z.ltb_spec i 8).
  - rewrite Z.ones_spec_low by lia. rewrite andb_true_r. reflexivity.
  - rewrite Z.ones_spec_high by lia. rewrite andb_false_r. reflexivity.
Qed.
Lemma u32_bits x i : 0 <= i -> Z.testbit (u32 x) i = (i <? 32) && Z.testbit x i.
Proof.
  intros Hi. unfold u32. change 4294967295 with (Z.ones 32). rewrite Z.land_spec.
  destruct (Z.ltb_spec i 32).
  - rewrite Z.ones_spec_low by lia. rewrite andb_true_r. reflexivity.
  - rewrite Z.ones_spec_high by lia. rewrite andb_false_r. reflexivity.
Qed.
Lemma u8_shiftr_u32 x k : 0 <= k <= 24 -> u8 (Z.shiftr (u32 x) k) = u8 (Z.shiftr x k).
Proof.
  intros Hk. apply Z.bits_inj'. intros i Hi. rewrite !u8_bits by lia.
  destruct (Z.ltb_spec i 8); [|reflexivity]. cbn [andb].
  rewrite !Z.shiftr_spec by lia. rewrite u32_bits by lia.
  replace (i + k <? 32) with true by lia. reflexivity.
Qed.
Lemma u8_lxor p q : u8 (Z.lxor p q) = Z.lxor (u8 p) (u8 q).
Proof.
  apply Z.bits_inj'. intros i Hi. rewrite Z.lxor_spec, !u8_bits, Z.lxor_spec by lia.
  destruct (i <? 8); cbn [andb]; reflexivity.
Qed.
Lemma u16_u32 x : u16 (u32 x) = u16 x.
Proof. unfold u16, u32. rewrite <- Z.land_assoc. reflexivity. Qed.
Lemma shiftr8_bytes h l : 0 <= l < 256 -> Z.shiftr (h * 256 + l) 8 = h.
Proof.
  intros Hl. rewrite Z.shiftr_div_pow2 by lia. change (2 ^ 8) with 256.
  rewrite Z.div_add_l by lia. rewrite Z.div_small by lia. lia.
Qed.
Lemma u8_small x : 0 <= x < 256 -> u8 x = x. Proof. apply u8_id. Qed.

(* the flag bits of the three operations, as functions of
   s = (the full sum or difference) / 256, the two high bytes, and whether the 16-bit result is zero *)
Definition k_x s ah bh := Z.lxor (Z.lxor (u8 s) ah) bh.
Definition k_add s ah bh f :=
  Z.lor (Z.ldiff f 59)
    (Z.lor (Z.lor (Z.lor 0 (Z.land (u8 s) 40)) (Z.land (k_x s ah bh) 16)) (Z.land (u8 (Z.shiftr s 8)) 1)).
Definition k_v s ah bh :=
  Z.lxor (Z.lxor (Z.lxor (u8 (Z.shiftr s 6)) (Z.shiftr ah 6)) (Z.shiftr bh 6))
         (Z.lxor (Z.lxor (u8 (Z.shiftr s 5)) (Z.shiftr ah 5)) (Z.shiftr bh 5)).
Definition k_adc s ah bh (z : bool) (n : Z) :=
  Z.lor (Z.lor (Z.lor (Z.lor (Z.lor 0 (Z.land (u8 s) 168)) (if z then 64 else 0))
           (Z.land (k_x s ah bh) 16)) (Z.land (k_v s ah bh) 4) + 0 * n) 0.

Section Decomp.
Variables ah al bh bl : Z.
Hypotheses (Hah : is8 ah) (Hal : is8 al) (Hbh : is8 bh) (Hbl : is8 bl).
Let a := ah * 256 + al.
Let b := bh * 256 + bl.

Lemma gen_x x :
  u8 (Z.shiftr (Z.lxor (Z.lxor (u32 x) a) b) 8) = k_x (Z.shiftr x 8) ah bh.
Proof.
  unfold k_x. rewrite !Z.shiftr_lxor, !u8_lxor. rewrite u8_shiftr_u32 by lia.
  unfold a, b. rewrite !shiftr8_bytes by (unfold is8 in *; lia).
  rewrite (u8_small ah), (u8_small bh) by (unfold is8 in *; lia). reflexivity.
Qed.
End Decomp.

(* the carry out of the low bytes *)
Lemma low_sum al bl c : is8 al -> is8 bl -> is1 c ->
  exists cl rl, al + bl + c = 256 * cl + rl /\ is1 cl /\ 0 <= rl < 256 /\ cl = (al + bl + c) / 256.
Proof.
  intros Ha Hb Hc. exists ((al + bl + c) / 256), ((al + bl + c) mod 256).
  pose proof (Z.div_mod (al + bl + c) 256 ltac:(lia)) as E.
  pose proof (Z.mod_pos_bound (al + bl + c) 256 ltac:(lia)) as M.
  unfold is8, is1 in *. repeat split; try lia.
  all: try (apply Z.div_pos; lia); try (apply Z.div_lt_upper_bound; lia).
Qed.
Lemma mod4096_bytes h l : is8 h -> is8 l -> (h * 256 + l) mod 4096 = (h mod 16) * 256 + l.
Proof.
  intros Hh Hl. pose proof (Z.div_mod h 16 ltac:(lia)) as E. pose proof (Z.mod_pos_bound h 16 ltac:(lia)) as M.
  symmetry. apply Z.mod_unique with (q := h / 16); unfold is8 in *; lia.
Qed.
Lemma high_of_sum x s r : x = 256 * s + r -> 0 <= r < 256 -> Z.shiftr x 8 = s /\ (x mod 65536) / 256 = s mod 256.
Proof.
  intros -> Hr. split.
  - rewrite Z.shiftr_div_pow2 by lia. change (2 ^ 8) with 256. symmetry. apply Z.div_unique with (r := r); lia.
  - pose proof (Z.div_mod s 256 ltac:(lia)) as E. pose proof (Z.mod_pos_bound s 256 ltac:(lia)) as M.
    assert (X : (256 * s + r) mod 65536 = 256 * (s mod 256) + r).
    { symmetry. apply Z.mod_unique with (q := s / 256); lia. }
    rewrite X. symmetry. apply Z.div_unique with (r := r); lia.
Qed.

Definition submasks (m : Z) : list Z := filter (fun k => Z.land k m =? k) (map Z.of_nat (seq 0 256)).
Lemma land_cases f m : is8 f -> In (Z.land f m) (submasks m).
Proof.
  intros Hf. pose proof (is8_land_l m f Hf) as B. unfold is8 in B.
  unfold submasks. apply filter_In. split.
  - apply in_map_iff. exists (Z.to_nat (Z.land f m)). split; [apply Z2Nat.id; lia|].
    apply in_seq. lia.
  - rewrite <- Z.land_assoc, Z.land_diag. apply Z.eqb_refl.
Qed.
Lemma addU16_F_bytes ah al bh bl f : is8 ah -> is8 al -> is8 bh -> is8 bl -> is8 f ->
  pF16 addU16 (ah*256+al) (bh*256+bl) f = snd (add16 (ah*256+al) (bh*256+bl) f).
Proof.
  intros Hah Hal Hbh Hbl Hf.
  cbv delta [pF16 cpu0]; unf.
  rewrite (gen_x ah al bh bl Hah Hal Hbh Hbl).
  rewrite !u8_shiftr_u32 by lia.
  set (x := ah * 256 + al + (bh * 256 + bl)).
  replace (Z.shiftr x 16) with (Z.shiftr (Z.shiftr x 8) 8) by (rewrite Z.shiftr_shiftr by lia; reflexivity).
  destruct (low_sum al bl 0 Hal Hbl ltac:(unfold is1; lia)) as (cl & rl & E & Hcl & Hrl & _).
  assert (Ex : x = 256 * (ah + bh + cl) + rl) by (unfold x; lia).
  destruct (high_of_sum x _ _ Ex Hrl) as [E8 Espec]. rewrite E8.
  cbv beta iota zeta delta [add16 snd f53 FS FZ FPV FH FC]. fold x. rewrite Espec.
  rewrite !mod4096_bytes by assumption.
  replace (4096 <=? ah mod 16 * 256 + al + (bh mod 16 * 256 + bl)) with (16 <=? ah mod 16 + bh mod 16 + cl) by lia.
  replace (65536 <=? x) with (256 <=? ah + bh + cl) by lia.
  clear E Ex E8 Espec x. clear rl Hrl.
  rewrite (ldiff_byte f 59 Hf) by (unfold is8; lia). change (255 - 59) with 196. change (128 + 64 + 4) with 196.
  pose proof (land_cases f 196 Hf) as Hk. revert Hk. generalize (Z.land f 196). intros k Hk.
  vm_compute in Hk. cbv delta [k_x]; cbv beta.
  repeat (destruct Hk as [<-|Hk]; [enum2b ah bh cl|]). contradiction.
Qed.

(* ---- ADC HL / SBC HL ---- *)
Lemma u32_add_l x y : u32 (u32 x + y) = u32 (x + y).
Proof. rewrite !u32_mod. rewrite Zplus_mod_idemp_l. reflexivity. Qed.
Lemma u32_sub_l x y : u32 (u32 x - y) = u32 (x - y).
Proof. rewrite !u32_mod. rewrite Zminus_mod_idemp_l. reflexivity. Qed.
Lemma shiftr_more x k : 0 <= k -> Z.shiftr x (8 + k) = Z.shiftr (Z.shiftr x 8) k.
Proof. intros. rewrite Z.shiftr_shiftr by lia. reflexivity. Qed.
Lemma small_shiftr h k : is8 h -> 0 <= k -> u8 (Z.shiftr h k) = Z.shiftr h k.
Proof. intros Hh Hk. apply u8_id. apply (is8_shiftr h k Hk Hh). Qed.

Lemma gen_v ah al bh bl x : is8 ah -> is8 al -> is8 bh -> is8 bl ->
  let a := ah * 256 + al in let b := bh * 256 + bl in
  u8 (Z.lxor (Z.shiftr (Z.lxor (Z.lxor (u32 x) a) b) 14) (Z.shiftr (Z.lxor (Z.lxor (u32 x) a) b) 13))
  = k_v (Z.shiftr x 8) ah bh.
Proof.
  intros Hah Hal Hbh Hbl a b. unfold k_v.
  rewrite !Z.shiftr_lxor, !u8_lxor. rewrite !u8_shiftr_u32 by lia.
  change 14 with (8 + 6). change 13 with (8 + 5). rewrite !shiftr_more by lia.
  unfold a, b. rewrite !shiftr8_bytes by (unfold is8 in *; lia).
  rewrite (small_shiftr ah 6), (small_shiftr bh 6), (small_shiftr ah 5), (small_shiftr bh 5) by (assumption || lia).
  reflexivity.
Qed.

Lemma s16_bytes h l : is8 h -> is8 l -> s16 (h * 256 + l) = s8 h * 256 + l.
Proof. intros Hh Hl. unfold s16, s8, is8 in *. destruct (Z.ltb_spec h 128); destruct (Z.ltb_spec (h * 256 + l) 32768); lia. Qed.
Lemma out16_8 t r : 0 <= r < 256 -> out_of_s16 (256 * t + r) = out_of_s8 t.
Proof. intros Hr. unfold out_of_s16, out_of_s8. lia. Qed.

Lemma adcU16_F_bytes ah al bh bl f : is8 ah -> is8 al -> is8 bh -> is8 bl -> is8 f ->
  pF16 adcU16 (ah*256+al) (bh*256+bl) f = snd (adc16 (ah*256+al) (bh*256+bl) (Z.land f 1)).
Proof.
  intros Hah Hal Hbh Hbl Hf.
  cbv delta [pF16 cpu0]; unf. rewrite (ldiff_255 f Hf).
  pose proof (is1_land1 f) as Hc. revert Hc. generalize (Z.land f 1). intros c Hc.
  rewrite !u32_add_l.
  set (x := ah * 256 + al + (bh * 256 + bl) + c).
  rewrite (gen_x ah al bh bl Hah Hal Hbh Hbl). rewrite (gen_v ah al bh bl x Hah Hal Hbh Hbl).
  rewrite !u8_shiftr_u32 by lia. rewrite u16_u32, u16_mod.
  change 16 with (8 + 8) at 2. rewrite shiftr_more by lia.
  destruct (low_sum al bl c Hal Hbl Hc) as (cl & rl & E & Hcl & Hrl & _).
  assert (Ex : x = 256 * (ah + bh + cl) + rl) by (unfold x; lia).
  destruct (high_of_sum x _ _ Ex Hrl) as [E8 Espec]. rewrite !E8.
  cbv beta iota zeta delta [adc16 snd FS FZ FPV FH FC]. fold x. rewrite Espec.
  rewrite !mod4096_bytes by assumption. rewrite !s16_bytes by assumption.
  replace (4096 <=? ah mod 16 * 256 + al + (bh mod 16 * 256 + bl) + c) with (16 <=? ah mod 16 + bh mod 16 + cl) by lia.
  replace (65536 <=? x) with (256 <=? ah + bh + cl) by lia.
  replace (s8 ah * 256 + al + (s8 bh * 256 + bl) + c) with (256 * (s8 ah + s8 bh + cl) + rl) by lia.
  rewrite (out16_8 _ rl Hrl).
  generalize (x mod 65536 =? 0). intros z.
  clear E Ex E8 Espec x. clear rl Hrl. cbv delta [k_x k_v]; cbv beta.
  destruct z; cbv beta iota delta [b2z]; enum2b ah bh cl.
Qed.

(* the borrow out of the low bytes *)
Lemma low_diff al bl c : is8 al -> is8 bl -> is1 c ->
  exists bo rl, al - bl - c = 256 * (- bo) + rl /\ is1 bo /\ 0 <= rl < 256.
Proof.
  intros Ha Hb Hc. exists (- ((al - bl - c) / 256)), ((al - bl - c) mod 256).
  pose proof (Z.div_mod (al - bl - c) 256 ltac:(lia)) as E.
  pose proof (Z.mod_pos_bound (al - bl - c) 256 ltac:(lia)) as M.
  unfold is8, is1 in *. repeat split; try lia.
Qed.

Lemma sbcU16_F_bytes ah al bh bl f : is8 ah -> is8 al -> is8 bh -> is8 bl -> is8 f ->
  pF16 sbcU16 (ah*256+al) (bh*256+bl) f = snd (sbc16 (ah*256+al) (bh*256+bl) (Z.land f 1)).
Proof.
  intros Hah Hal Hbh Hbl Hf.
  cbv delta [pF16 cpu0]; unf. rewrite (ldiff_255 f Hf).
  pose proof (is1_land1 f) as Hc. revert Hc. generalize (Z.land f 1). intros c Hc.
  rewrite !u32_sub_l.
  set (x := ah * 256 + al - (bh * 256 + bl) - c).
  rewrite (gen_x ah al bh bl Hah Hal Hbh Hbl). rewrite (gen_v ah al bh bl x Hah Hal Hbh Hbl).
  rewrite !u8_shiftr_u32 by lia. rewrite u16_u32, u16_mod.
  change 16 with (8 + 8) at 2. rewrite shiftr_more by lia.
  destruct (low_diff al bl c Hal Hbl Hc) as (bo & rl & E & Hbo & Hrl).
  assert (Ex : x = 256 * (ah - bh - bo) + rl) by (unfold x; lia).
  destruct (high_of_sum x _ _ Ex Hrl) as [E8 Espec]. rewrite !E8.
  cbv beta iota zeta delta [sbc16 snd FS FZ FPV FH FC FN]. fold x. rewrite Espec.
  rewrite !mod4096_bytes by assumption. rewrite !s16_bytes by assumption.
  replace (ah mod 16 * 256 + al <? bh mod 16 * 256 + bl + c) with (ah mod 16 <? bh mod 16 + bo) by lia.
  replace (x <? 0) with (ah - bh - bo <? 0) by lia.
  replace (s8 ah * 256 + al - (s8 bh * 256 + bl) - c) with (256 * (s8 ah - s8 bh - bo) + rl) by lia.
  rewrite (out16_8 _ rl Hrl).
  generalize (x mod 65536 =? 0). intros z.
  clear E Ex E8 Espec x. clear rl Hrl. cbv delta [k_x k_v]; cbv beta.
  destruct z; cbv beta iota delta [b2z]; enum2b ah bh bo.
Qed.

(* ---- lifted to words, in the form used by the table proofs ---- *)
Lemma word_bytes a : is16 a -> exists h l, is8 h /\ is8 l /\ a = h * 256 + l.
Proof.
  intros Ha. exists (a / 256), (a mod 256). pose proof (Z.div_mod a 256 ltac:(lia)).
  pose proof (Z.mod_pos_bound a 256 ltac:(lia)). unfold is16, is8 in *. repeat split; try lia.
  all: try (apply Z.div_pos; lia); try (apply Z.div_lt_upper_bound; lia).
Qed.
Lemma addU16_ok cpu a b : is16 a -> is16 b -> is8 (g_AF_Lo cpu) ->
  addU16 cpu a b = (s_AF_Lo cpu (snd (add16 a b (g_AF_Lo cpu))), fst (add16 a b (g_AF_Lo cpu))).
Proof.
  intros Ha Hb Hf. rewrite addU16_shape. f_equal; [f_equal|].
  - destruct (word_bytes a Ha) as (ah & al & ? & ? & ->). destruct (word_bytes b Hb) as (bh & bl & ? & ? & ->).
    apply addU16_F_bytes; assumption.
  - cbv delta [pR16 cpu0]; unf. cbv [add16 fst]. rewrite u16_u32, u16_mod. reflexivity.
Qed.
Lemma adcU16_ok cpu a b : is16 a -> is16 b -> is8 (g_AF_Lo cpu) ->
  adcU16 cpu a b = (s_AF_Lo cpu (snd (adc16 a b (Z.land (g_AF_Lo cpu) FC))), fst (adc16 a b (Z.land (g_AF_Lo cpu) FC))).
Proof.
  intros Ha Hb Hf. rewrite adcU16_shape. f_equal; [f_equal|].
  - destruct (word_bytes a Ha) as (ah & al & ? & ? & ->). destruct (word_bytes b Hb) as (bh & bl & ? & ? & ->).
    apply adcU16_F_bytes; assumption.
  - cbv delta [pR16 cpu0]; unf. cbv [adc16 fst FC]. rewrite u32_add_l, u16_u32, u16_mod. reflexivity.
Qed.
Lemma sbcU16_ok cpu a b : is16 a -> is16 b -> is8 (g_AF_Lo cpu) ->
  sbcU16 cpu a b = (s_AF_Lo cpu (snd (sbc16 a b (Z.land (g_AF_Lo cpu) FC))), fst (sbc16 a b (Z.land (g_AF_Lo cpu) FC))).
Proof.
  intros Ha Hb Hf. rewrite sbcU16_shape. f_equal; [f_equal|].
  - destruct (word_bytes a Ha) as (ah & al & ? & ? & ->). destruct (word_bytes b Hb) as (bh & bl & ? & ? & ->).
    apply sbcU16_F_bytes; assumption.
  - cbv delta [pR16 cpu0]; unf. cbv [sbc16 fst FC]. rewrite u32_sub_l, u16_u32, u16_mod. reflexivity.
Qed.
(* results stay words *)
Lemma is16_mod x : is16 (x mod 65536).
Proof. unfold is16. apply Z.mod_pos_bound. lia. Qed.
#[global] Hint Resolve is16_mod : ranges.
