(* CB rotate/shift helpers *)
From Z80V Require Export Proofs.H8Tac.

Ltac shape1 := intros; cbv delta [pF1 pR1 cpu0]; unf; reflexivity.
Ltac pure1 a f := cbv delta [pF1 pR1 cpu0]; unf; unfF; enum2 a f.

Lemma rlcU8_shape cpu a : rlcU8 cpu a = (s_AF_Lo cpu (pF1 rlcU8 a (g_AF_Lo cpu)), pR1 rlcU8 a (g_AF_Lo cpu)).
Proof. shape1. Qed.
Lemma rrcU8_shape cpu a : rrcU8 cpu a = (s_AF_Lo cpu (pF1 rrcU8 a (g_AF_Lo cpu)), pR1 rrcU8 a (g_AF_Lo cpu)).
Proof. shape1. Qed.
Lemma rlU8_shape cpu a : rlU8 cpu a = (s_AF_Lo cpu (pF1 rlU8 a (g_AF_Lo cpu)), pR1 rlU8 a (g_AF_Lo cpu)).
Proof. shape1. Qed.
Lemma rrU8_shape cpu a : rrU8 cpu a = (s_AF_Lo cpu (pF1 rrU8 a (g_AF_Lo cpu)), pR1 rrU8 a (g_AF_Lo cpu)).
Proof. shape1. Qed.
Lemma slaU8_shape cpu a : slaU8 cpu a = (s_AF_Lo cpu (pF1 slaU8 a (g_AF_Lo cpu)), pR1 slaU8 a (g_AF_Lo cpu)).
Proof. shape1. Qed.
Lemma sraU8_shape cpu a : sraU8 cpu a = (s_AF_Lo cpu (pF1 sraU8 a (g_AF_Lo cpu)), pR1 sraU8 a (g_AF_Lo cpu)).
Proof. shape1. Qed.
Lemma sl1U8_shape cpu a : sl1U8 cpu a = (s_AF_Lo cpu (pF1 sl1U8 a (g_AF_Lo cpu)), pR1 sl1U8 a (g_AF_Lo cpu)).
Proof. shape1. Qed.
Lemma srlU8_shape cpu a : srlU8 cpu a = (s_AF_Lo cpu (pF1 srlU8 a (g_AF_Lo cpu)), pR1 srlU8 a (g_AF_Lo cpu)).
Proof. shape1. Qed.
Ltac rotpure a f := cbv delta [pF1 pR1 cpu0]; unf; unfF; cbv beta iota zeta delta [rotcb rot8 FC]; enum2 a f.
Lemma rlcU8_pure a f : is8 a -> is8 f -> (pR1 rlcU8 a f, pF1 rlcU8 a f) = rotcb RLC a f.
Proof. intros Ha Hf. both; rotpure a f. Qed.
Lemma rrcU8_pure a f : is8 a -> is8 f -> (pR1 rrcU8 a f, pF1 rrcU8 a f) = rotcb RRC a f.
Proof. intros Ha Hf. both; rotpure a f. Qed.
Lemma rlU8_pure a f : is8 a -> is8 f -> (pR1 rlU8 a f, pF1 rlU8 a f) = rotcb RL a f.
Proof. intros Ha Hf. both; rotpure a f. Qed.
Lemma rrU8_pure a f : is8 a -> is8 f -> (pR1 rrU8 a f, pF1 rrU8 a f) = rotcb RR a f.
Proof. intros Ha Hf. both; rotpure a f. Qed.
Lemma slaU8_pure a f : is8 a -> is8 f -> (pR1 slaU8 a f, pF1 slaU8 a f) = rotcb SLA a f.
Proof. intros Ha Hf. both; rotpure a f. Qed.
Lemma sraU8_pure a f : is8 a -> is8 f -> (pR1 sraU8 a f, pF1 sraU8 a f) = rotcb SRA a f.
Proof. intros Ha Hf. both; rotpure a f. Qed.
Lemma sl1U8_pure a f : is8 a -> is8 f -> (pR1 sl1U8 a f, pF1 sl1U8 a f) = rotcb SLL a f.
Proof. intros Ha Hf. both; rotpure a f. Qed.
Lemma srlU8_pure a f : is8 a -> is8 f -> (pR1 srlU8 a f, pF1 srlU8 a f) = rotcb SRL a f.
Proof. intros Ha Hf. both; rotpure a f. Qed.

