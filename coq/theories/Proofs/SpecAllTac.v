(* Proofs/SpecAllTac.v (tactics for the SpecAll*.v files) -- facts that hold for EVERY instruction of the specification, proved by
   case analysis over the instruction syntax (all operand descriptors, pairs, conditions) on a
   fully symbolic machine state. *)
From Z80V Require Export Proofs.SpecTac.

Ltac all_cases i :=
  destruct i; repeat match goal with
  | x : opnd |- _ => destruct x | x : rp |- _ => destruct x | x : r8 |- _ => destruct x
  | x : alu |- _ => destruct x | x : rot |- _ => destruct x | x : blk |- _ => destruct x | x : cc |- _ => destruct x
  | x : bool |- _ => destruct x end.
Ltac spec_norm := spec_unfold; cbv_struct;
  cbv beta iota zeta delta [add8 sub8 and8 or8 xor8 inc8 dec8 neg8 cpl8 daa8 rotcb rota rot8 rld8 rrd8 add16 adc16 sbc16]; cbv_struct.
Ltac destruct_var_ifs := repeat match goal with |- context [if ?c then _ else _] => is_var c; destruct c end.
Ltac split_ifs := repeat (progress destruct_var_ifs; spec_norm); repeat (progress destruct_ifs; spec_norm).
Ltac close_case := first [syn_refl | solve [repeat f_equal; syn_refl]
                          | solve [split_ifs; first [syn_refl | repeat f_equal; syn_refl]]].

Definition swapXY (cpu : CPU) : CPU := s_IY (s_IX cpu (g_IY cpu)) (g_IX cpu).
Definition writes_ir (i : instr) : bool := match i with LD_I_A | LD_R_A => true | _ => false end.
