(* Proofs/SpecAllTac.v (tactics for the SpecAll*.v files) -- facts that hold for EVERY instruction of the specification, proved by
   case analysis over the instruction syntax (all operand descriptors, pairs, conditions) on a
   fully symbolic machine state. *)
From Z80V Require Export Proofs.SpecTac.

Ltac all_cases i :=
  destruct i; repeat match goal with
  | x : opnd |- _ => destruct x | x : rp |- _ => destruct x | x : r8 |- _ => destruct x
  | x : alu |- _ => destruct x | x : rot |- _ => destruct x | x : blk |- _ => destruct x | x : cc |- _ => destruct x
  | x : bool |- _ => destruct x end.
Ltac spec_norm := spec_unfold; cbv_struct;
  cbv beta iota zeta delta [add8 sub8 and8 or8 xor8 inc8 dec8 neg8 cpl8 daa8 rotcb rota rot8 rld8 rrd8 add16 adc16 sbc16]; cbv_struct.
Ltac destruct_var_ifs := repeat match goal with |- context [if ?c then _ else _] => is_var c; destruct c end.
Ltac split_ifs := repeat (progress destruct_var_ifs; spec_norm); repeat (progress destruct_ifs; spec_norm).
Ltac close_case := first [syn_refl | solve [repeat f_equal; syn_refl]
                          | solve [split_ifs; first [syn_refl | repeat f_equal; syn_refl]]].

Definition swapXY (cpu : CPU) : CPU := s_IY (s_IX cpu (g_IY cpu)) (g_IX cpu).
Definition writes_ir (i : instr) : bool := match i with LD_I_A | LD_R_A => true | _ => false end.

(* C10: the fields of the CPU record that are not machine state proper *)
Definition erase (cpu : CPU) : CPU := s_HALT (s_BreakPoints cpu None) false.

(* C12: Go run-time panics are EvPanic events; a memory is safe when reading through it never logs one *)
Definition is_panic (e : event) : bool := match e with EvPanic => true | _ => false end.
Definition npanics (l : list event) : nat := length (filter is_panic l).
Definition mem_safe (m : MemRef) : Prop := forall w a, npanics (trace (fst (wget w m a))) = npanics (trace w).
Lemma wset_safe m w a v : npanics (trace (wset w m a v)) = npanics (trace w).
Proof. destruct m as [|d]; unfold wset; cbv_struct; [reflexivity|]. destruct (_ && _); reflexivity. Qed.
Lemma user_safe : mem_safe UserMem.
Proof. intros w a. reflexivity. Qed.
Lemma npanics_cons e l : npanics (e :: l) = if is_panic e then S (npanics l) else npanics l.
Proof. unfold npanics. cbn [filter]. destruct (is_panic e); reflexivity. Qed.
Ltac panic_close Hs :=
  cbv_struct;
  repeat first [ rewrite Hs | rewrite wset_safe | rewrite npanics_cons; cbn [is_panic] ];
  reflexivity.

(* n steps of the specification *)
Fixpoint spec_iter u (n : nat) (cpu : CPU) : CPU := match n with O => cpu | S k => spec_iter u k (spec_step u cpu) end.
