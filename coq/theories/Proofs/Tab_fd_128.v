(* one shard of the fd decode table: generated handler = specification, opcode by opcode.
   Written by tools/gen_tables.py. *)
From Z80V Require Import Proofs.TableTac.
Lemma tab_fd_128 : forall c, In c [128; 129; 130; 131; 132; 133; 134; 135; 136; 137; 138; 139; 140; 141; 142; 143; 144; 145; 146; 147; 148; 149; 150; 151; 152; 153; 154; 155; 156; 157; 158; 159] -> forall cpu, WF cpu -> forall c0, 
  executeOne_fd cpu c0 c c = exec impl_unspec MIY (decode_idx c) cpu.
Proof. intros c Hc cpu H c0. table_tac Hc H. Qed.
