(* Proofs/H8Tac.v (tactics shared by the H8*.v files) -- the generated 8-bit flag helpers (accum.go etc.) compute exactly the
   arithmetic specification of Spec/Flags.v, for every operand and every incoming F.
   Method: (1) shape: the helper changes nothing but F (and returns a value) -- by unfolding,
   for every CPU state; (2) the pure flag/result functions agree with the specification on the
   whole finite operand space -- enumerated by the kernel (vm_compute). *)
From Z80V Require Export Proofs.WF.

Ltac unf := unfold_gen_in_goal; cbv_struct.
Ltac unfF := cbv beta iota zeta delta [FC FN FPV F3 FH F5 FZ FS alu8 fst snd].
(* after unfolding: replace the cleared flag byte, abstract the carry-in, enumerate *)
Ltac kill_ldiff f Hf :=
  repeat match goal with |- context [Z.ldiff f ?n] =>
    first [ constr_eq n 255; rewrite (ldiff_255 f Hf)
          | rewrite (ldiff_byte f n Hf) by (unfold is8; lia) ] end.
Ltac gen_carry f c Hc :=
  generalize (is1_land1 f); generalize (Z.land f 1); intros c Hc.


Definition pF (h : CPU -> Z -> Z -> CPU * Z) a b f := g_AF_Lo (fst (h (s_AF_Lo cpu0 f) a b)).
Definition pR (h : CPU -> Z -> Z -> CPU * Z) a b f := snd (h (s_AF_Lo cpu0 f) a b).
Definition pF1 (h : CPU -> Z -> CPU * Z) a f := g_AF_Lo (fst (h (s_AF_Lo cpu0 f) a)).
Definition pR1 (h : CPU -> Z -> CPU * Z) a f := snd (h (s_AF_Lo cpu0 f) a).
Definition pA (h : CPU -> CPU) a f := g_AF_Hi (h (s_AF cpu0 (mk_Register a f))).
Definition pFa (h : CPU -> CPU) a f := g_AF_Lo (h (s_AF cpu0 (mk_Register a f))).
Ltac both := apply injective_projections; cbn [fst snd].
