(* Proofs/Frame.v -- two facts about the WHOLE step of the specification, lifted from the per-instruction facts of
   SpecAllErase.v / SpecAllPanic.v through fetching, prefixes and interrupt acceptance:
   * C10: the step does not depend on the fields of the record that are not machine state (HALT, BreakPoints)
   * C12: the step never logs EvPanic (a Go run-time panic), for the user's memory and under the mode-0 overlay *)
From Z80V Require Export Proofs.SpecFacts Proofs.SpecAll Proofs.SpecAllErase Proofs.SpecAllPanic Proofs.WFStep.

(* ------------------------------------------------------------------ erase *)
Lemma erase_idem cpu : erase (erase cpu) = erase cpu.
Proof. reflexivity. Qed.
Lemma fetch8_erase cpu : fetch8 (erase cpu) = (erase (fst (fetch8 cpu)), snd (fetch8 cpu)).
Proof. cbv beta iota zeta delta [fetch8 rd mem_get erase]. cbv_struct. reflexivity. Qed.
Lemma fetch_m1_erase cpu : fetch_m1 (erase cpu) = (erase (fst (fetch_m1 cpu)), snd (fetch_m1 cpu)).
Proof. cbv beta iota zeta delta [fetch_m1 fetch8 rd mem_get erase]. cbv_struct. reflexivity. Qed.

Lemma exec_idx_erase u m c cpu : erase (exec_idx u m c (erase cpu)) = erase (exec_idx u m c cpu).
Proof.
  unfold exec_idx. destruct (decode_idx c) eqn:E; try apply exec_erase.
  rewrite fetch8_erase. destruct (fetch8 cpu) as [cpu1 d]. cbn [fst snd].
  destruct (u_cbidx_ticks u).
  - rewrite fetch_m1_erase. destruct (fetch_m1 cpu1) as [cpu2 c3]. cbn [fst snd]. apply exec_idxcb_erase.
  - rewrite fetch8_erase. destruct (fetch8 cpu1) as [cpu2 c3]. cbn [fst snd]. apply exec_idxcb_erase.
Qed.
Lemma step_idx_erase u m cpu : erase (step_idx u m (erase cpu)) = erase (step_idx u m cpu).
Proof. unfold step_idx. rewrite fetch_m1_erase. destruct (fetch_m1 cpu) as [cpu1 c1]. cbn [fst snd]. apply exec_idx_erase. Qed.
Lemma step_instr_erase u cpu : erase (step_instr u (erase cpu)) = erase (step_instr u cpu).
Proof.
  unfold step_instr. rewrite fetch_m1_erase. destruct (fetch_m1 cpu) as [cpu1 c0]. cbn [fst snd].
  destruct (decode_main c0) eqn:E; try apply exec_erase; try apply step_idx_erase.
  - rewrite fetch_m1_erase. destruct (fetch_m1 cpu1) as [cpu2 c1]. cbn [fst snd]. apply exec_erase.
  - rewrite fetch_m1_erase. destruct (fetch_m1 cpu1) as [cpu2 c1]. cbn [fst snd]. apply exec_erase.
Qed.

Lemma accept_nmi_erase cpu : accept_nmi (erase cpu) = erase (accept_nmi cpu).
Proof. cbv beta iota zeta delta [accept_nmi push16_lowfirst wr16 wr mem_set erase]. cbv_struct. reflexivity. Qed.
Lemma accept_im1_erase cpu : accept_im1 (erase cpu) = erase (accept_im1 cpu).
Proof. cbv beta iota zeta delta [accept_im1 disable_both push16_lowfirst wr16 wr mem_set erase]. cbv_struct. reflexivity. Qed.
Lemma accept_im2_erase cpu v : accept_im2 (erase cpu) v = erase (accept_im2 cpu v).
Proof. cbv beta iota zeta delta [accept_im2 disable_both push16_lowfirst wr16 rd16 rd wr mem_get mem_set erase]. cbv_struct. reflexivity. Qed.
Lemma s_Memory_erase cpu m : s_Memory (erase cpu) m = erase (s_Memory cpu m).
Proof. reflexivity. Qed.
Lemma erase_s_Memory cpu m : erase (s_Memory cpu m) = s_Memory (erase cpu) m.
Proof. reflexivity. Qed.
Lemma erase_disable_both cpu : erase (disable_both cpu) = disable_both (erase cpu).
Proof. reflexivity. Qed.
Lemma erase_s_Interrupt cpu q : erase (s_Interrupt cpu q) = s_Interrupt (erase cpu) q.
Proof. reflexivity. Qed.
Lemma accept_im0_erase u cpu d : erase (accept_im0 u (erase cpu) d) = erase (accept_im0 u cpu d).
Proof.
  unfold accept_im0. cbv zeta.
  change (g_Memory (erase cpu)) with (g_Memory cpu). change (g_PC (erase cpu)) with (g_PC cpu).
  rewrite !erase_disable_both, !erase_s_Memory. rewrite (s_Memory_erase cpu). rewrite step_instr_erase. reflexivity.
Qed.

Lemma try_interrupt_erase u cpu irq :
  option_map erase (try_interrupt u (erase cpu) irq) = option_map erase (try_interrupt u cpu irq).
Proof.
  unfold try_interrupt.
  change (g_IFF1 (erase cpu)) with (g_IFF1 cpu). change (g_IM (erase cpu)) with (g_IM cpu).
  destruct (Interrupt_Type irq =? NMI_type).
  { cbn [option_map]. rewrite accept_nmi_erase. reflexivity. }
  destruct (negb (g_IFF1 cpu)); [reflexivity|].
  destruct (g_IM cpu) as [|p|p]; [ | | reflexivity].
  - cbn [option_map]. f_equal. destruct (Interrupt_Data irq); [reflexivity | apply accept_im0_erase].
  - destruct p as [p|p|]; try reflexivity.
    + destruct p; try reflexivity. cbn [option_map]. f_equal.
      destruct (Interrupt_Data irq); [reflexivity|]. rewrite accept_im2_erase. reflexivity.
Qed.

(* the step reads neither HALT nor BreakPoints: erasing them before the step changes nothing but those two fields *)
Theorem spec_step_erase u cpu : erase (spec_step u (erase cpu)) = erase (spec_step u cpu).
Proof.
  unfold spec_step. change (g_Interrupt (erase cpu)) with (g_Interrupt cpu).
  destruct (g_Interrupt cpu) as [irq|]; [|apply step_instr_erase].
  pose proof (try_interrupt_erase u cpu irq) as H.
  destruct (try_interrupt u (erase cpu) irq) as [c1|], (try_interrupt u cpu irq) as [c2|]; cbn [option_map] in H; try discriminate H.
  - rewrite !erase_s_Interrupt. congruence.
  - apply step_instr_erase.
Qed.
Theorem spec_iter_erase u n : forall cpu, erase (spec_iter u n (erase cpu)) = erase (spec_iter u n cpu).
Proof.
  induction n as [|n IH]; intros cpu; cbn [spec_iter]; [reflexivity|].
  rewrite <- (IH (spec_step u (erase cpu))), <- (IH (spec_step u cpu)). rewrite spec_step_erase. reflexivity.
Qed.

(* ------------------------------------------------------------------ no panic *)
Definition np (cpu : CPU) : nat := npanics (trace (g_W cpu)).
Lemma fetch8_np cpu : mem_safe (g_Memory cpu) -> np (fst (fetch8 cpu)) = np cpu /\ g_Memory (fst (fetch8 cpu)) = g_Memory cpu.
Proof.
  intros Hs. unfold mem_safe in Hs. cbv beta iota zeta delta [np fetch8 rd mem_get]. cbv_struct. cbv_struct_in Hs.
  split; [apply Hs | reflexivity].
Qed.
Lemma fetch_m1_np cpu : mem_safe (g_Memory cpu) -> np (fst (fetch_m1 cpu)) = np cpu /\ g_Memory (fst (fetch_m1 cpu)) = g_Memory cpu.
Proof.
  intros Hs. unfold mem_safe in Hs. cbv beta iota zeta delta [np fetch_m1 fetch8 rd mem_get]. cbv_struct. cbv_struct_in Hs.
  split; [apply Hs | reflexivity].
Qed.
Lemma exec_np u m i cpu : mem_safe (g_Memory cpu) -> np (exec u m i cpu) = np cpu.
Proof. apply exec_no_panic. Qed.
Lemma exec_idxcb_np u m d i cpu : mem_safe (g_Memory cpu) -> np (exec_idxcb u m d i cpu) = np cpu.
Proof. apply exec_idxcb_no_panic. Qed.

Ltac fetch_step f cpu Hs c v :=
  let H1 := fresh "Hn" in let H2 := fresh "Hm" in
  destruct (f cpu Hs) as [H1 H2]; destruct (_ cpu) as [c v] in *; cbn [fst snd] in *.

Lemma exec_idx_np u m c cpu : mem_safe (g_Memory cpu) -> np (exec_idx u m c cpu) = np cpu.
Proof.
  intros Hs. unfold exec_idx. destruct (decode_idx c) eqn:E; try (apply exec_np; exact Hs).
  destruct (fetch8_np cpu Hs) as [Hn1 Hm1]. destruct (fetch8 cpu) as [cpu1 d]. cbn [fst snd] in *.
  assert (Hs1 : mem_safe (g_Memory cpu1)) by (rewrite Hm1; exact Hs).
  destruct (u_cbidx_ticks u).
  - destruct (fetch_m1_np cpu1 Hs1) as [Hn2 Hm2]. destruct (fetch_m1 cpu1) as [cpu2 c3]. cbn [fst snd] in *.
    rewrite exec_idxcb_np by (rewrite Hm2; exact Hs1). congruence.
  - destruct (fetch8_np cpu1 Hs1) as [Hn2 Hm2]. destruct (fetch8 cpu1) as [cpu2 c3]. cbn [fst snd] in *.
    rewrite exec_idxcb_np by (rewrite Hm2; exact Hs1). congruence.
Qed.
Lemma step_idx_np u m cpu : mem_safe (g_Memory cpu) -> np (step_idx u m cpu) = np cpu.
Proof.
  intros Hs. unfold step_idx.
  destruct (fetch_m1_np cpu Hs) as [Hn1 Hm1]. destruct (fetch_m1 cpu) as [cpu1 c1]. cbn [fst snd] in *.
  rewrite exec_idx_np by (rewrite Hm1; exact Hs). exact Hn1.
Qed.
Lemma step_instr_np u cpu : mem_safe (g_Memory cpu) -> np (step_instr u cpu) = np cpu.
Proof.
  intros Hs. unfold step_instr.
  destruct (fetch_m1_np cpu Hs) as [Hn1 Hm1]. destruct (fetch_m1 cpu) as [cpu1 c0]. cbn [fst snd] in *.
  assert (Hs1 : mem_safe (g_Memory cpu1)) by (rewrite Hm1; exact Hs).
  destruct (decode_main c0) eqn:E;
    try (rewrite exec_np by exact Hs1; exact Hn1); try (rewrite step_idx_np by exact Hs1; exact Hn1).
  - destruct (fetch_m1_np cpu1 Hs1) as [Hn2 Hm2]. destruct (fetch_m1 cpu1) as [cpu2 c1]. cbn [fst snd] in *.
    rewrite exec_np by (rewrite Hm2; exact Hs1). congruence.
  - destruct (fetch_m1_np cpu1 Hs1) as [Hn2 Hm2]. destruct (fetch_m1 cpu1) as [cpu2 c1]. cbn [fst snd] in *.
    rewrite exec_np by (rewrite Hm2; exact Hs1). congruence.
Qed.

(* the mode-0 overlay is a safe memory, for every PC (incl. a range that wraps past 0xFFFF) and every non-empty data:
   an address inside the window lies between two 16-bit values, so the index computed from it is in range *)
Lemma overlay_safe pc data : is16 pc -> data <> [] -> mem_safe (Im0Mem (im0_overlay pc data)).
Proof.
  intros Hpc Hne w a. cbv beta iota zeta delta [wget].
  destruct ((a <? im0data_start (im0_overlay pc data)) || (a >? im0data_end (im0_overlay pc data))) eqn:E.
  - cbn [fst]. unfold w_log. cbv_struct. rewrite npanics_cons. reflexivity.
  - assert (Ha : is16 a).
    { pose proof E as E'. unfold im0_overlay in E'. cbv_struct_in E'.
      assert (0 <= u16 (pc + u16 (len_Z data - 1)) < 65536) by (rewrite u16_mod; apply Z.mod_pos_bound; lia).
      unfold is16 in *. lia. }
    rewrite (overlay_index_in_range pc data a Hpc Ha Hne E). reflexivity.
Qed.

Lemma accept_nmi_np cpu : np (accept_nmi cpu) = np cpu.
Proof. cbv beta iota zeta delta [np accept_nmi push16_lowfirst wr16 wr mem_set]. cbv_struct. rewrite !wset_safe. reflexivity. Qed.
Lemma accept_im1_np cpu : np (accept_im1 cpu) = np cpu.
Proof. cbv beta iota zeta delta [np accept_im1 disable_both push16_lowfirst wr16 wr mem_set]. cbv_struct. rewrite !wset_safe. reflexivity. Qed.
Lemma accept_im2_np cpu v : mem_safe (g_Memory cpu) -> np (accept_im2 cpu v) = np cpu.
Proof.
  intros Hs. unfold mem_safe in Hs. cbv beta iota zeta delta [np accept_im2 disable_both push16_lowfirst wr16 rd16 rd wr mem_get mem_set]. cbv_struct.
  cbv_struct_in Hs. rewrite !Hs, !wset_safe. reflexivity.
Qed.
Lemma accept_im0_np u cpu d : is16 (g_PC cpu) -> d <> [] -> np (accept_im0 u cpu d) = np cpu.
Proof.
  intros Hpc Hd. unfold accept_im0. cbv zeta.
  change (np (disable_both (s_Memory ?c ?m))) with (np c).
  rewrite step_instr_np; [reflexivity|]. change (g_Memory (s_Memory ?c ?m)) with m. apply overlay_safe; assumption.
Qed.

(* Step never takes a Go run-time panic: for every state whose memory is the user's (or any safe memory) *)
Theorem spec_step_no_panic u cpu : is16 (g_PC cpu) -> mem_safe (g_Memory cpu) -> np (spec_step u cpu) = np cpu.
Proof.
  intros Hpc Hs. unfold spec_step. destruct (g_Interrupt cpu) as [irq|]; [|apply step_instr_np; exact Hs].
  unfold try_interrupt.
  destruct (Interrupt_Type irq =? NMI_type). { change (np (s_Interrupt ?c ?q)) with (np c). apply accept_nmi_np. }
  destruct (negb (g_IFF1 cpu)); [apply step_instr_np; exact Hs|].
  destruct (g_IM cpu) as [|p|p]; [ | | apply step_instr_np; exact Hs].
  - change (np (s_Interrupt ?c ?q)) with (np c). destruct (Interrupt_Data irq) eqn:Ed; [reflexivity|].
    apply accept_im0_np; [exact Hpc | discriminate].
  - destruct p as [p|p|]; try (apply step_instr_np; exact Hs).
    + destruct p; try (apply step_instr_np; exact Hs). change (np (s_Interrupt ?c ?q)) with (np c).
      destruct (Interrupt_Data irq); [reflexivity | apply accept_im2_np; exact Hs].
    + change (np (s_Interrupt ?c ?q)) with (np c). apply accept_im1_np.
Qed.

(* ------------------------------------------------------------------ the memory object is never replaced *)
Lemma exec_mem u m i cpu : g_Memory (exec u m i cpu) = g_Memory cpu.
Proof. exact (proj1 (proj2 (exec_keeps_env u m i cpu))). Qed.
Lemma exec_idxcb_mem u m d i cpu : g_Memory (exec_idxcb u m d i cpu) = g_Memory cpu.
Proof. exact (proj1 (proj2 (exec_idxcb_keeps_env u m d i cpu))). Qed.
Lemma fetch8_mem cpu : g_Memory (fst (fetch8 cpu)) = g_Memory cpu.
Proof. cbv beta iota zeta delta [fetch8 rd mem_get]. cbv_struct. reflexivity. Qed.
Lemma fetch_m1_mem cpu : g_Memory (fst (fetch_m1 cpu)) = g_Memory cpu.
Proof. cbv beta iota zeta delta [fetch_m1 fetch8 rd mem_get]. cbv_struct. reflexivity. Qed.
Lemma exec_idx_mem u m c cpu : g_Memory (exec_idx u m c cpu) = g_Memory cpu.
Proof.
  unfold exec_idx. destruct (decode_idx c) eqn:E; try apply exec_mem.
  pose proof (fetch8_mem cpu) as M1. destruct (fetch8 cpu) as [cpu1 d]. cbn [fst snd] in *.
  destruct (u_cbidx_ticks u).
  - pose proof (fetch_m1_mem cpu1) as M2. destruct (fetch_m1 cpu1) as [cpu2 c3]. cbn [fst snd] in *. rewrite exec_idxcb_mem. congruence.
  - pose proof (fetch8_mem cpu1) as M2. destruct (fetch8 cpu1) as [cpu2 c3]. cbn [fst snd] in *. rewrite exec_idxcb_mem. congruence.
Qed.
Lemma step_idx_mem u m cpu : g_Memory (step_idx u m cpu) = g_Memory cpu.
Proof.
  unfold step_idx. pose proof (fetch_m1_mem cpu) as M1. destruct (fetch_m1 cpu) as [cpu1 c1]. cbn [fst snd] in *.
  rewrite exec_idx_mem. exact M1.
Qed.
Lemma step_instr_mem u cpu : g_Memory (step_instr u cpu) = g_Memory cpu.
Proof.
  unfold step_instr. pose proof (fetch_m1_mem cpu) as M1. destruct (fetch_m1 cpu) as [cpu1 c0]. cbn [fst snd] in *.
  destruct (decode_main c0) eqn:E; try (rewrite exec_mem; exact M1); try (rewrite step_idx_mem; exact M1).
  - pose proof (fetch_m1_mem cpu1) as M2. destruct (fetch_m1 cpu1) as [cpu2 c1]. cbn [fst snd] in *. rewrite exec_mem. congruence.
  - pose proof (fetch_m1_mem cpu1) as M2. destruct (fetch_m1 cpu1) as [cpu2 c1]. cbn [fst snd] in *. rewrite exec_mem. congruence.
Qed.
Theorem spec_step_mem u cpu : g_Memory (spec_step u cpu) = g_Memory cpu.
Proof.
  unfold spec_step. destruct (g_Interrupt cpu) as [irq|]; [|apply step_instr_mem].
  unfold try_interrupt.
  destruct (Interrupt_Type irq =? NMI_type).
  { cbv beta iota zeta delta [accept_nmi push16_lowfirst wr16 wr mem_set]. cbv_struct. reflexivity. }
  destruct (negb (g_IFF1 cpu)); [apply step_instr_mem|].
  destruct (g_IM cpu) as [|p|p]; [ | | apply step_instr_mem].
  - destruct (Interrupt_Data irq); reflexivity.
  - destruct p as [p|p|]; try apply step_instr_mem.
    + destruct p; try apply step_instr_mem. destruct (Interrupt_Data irq); [reflexivity|].
      cbv beta iota zeta delta [accept_im2 disable_both push16_lowfirst wr16 rd16 rd wr mem_get mem_set]. cbv_struct. reflexivity.
    + cbv beta iota zeta delta [accept_im1 disable_both push16_lowfirst wr16 wr mem_set]. cbv_struct. reflexivity.
Qed.
Lemma spec_step_pc16 u cpu : WF cpu -> is16 (g_PC (spec_step u cpu)).
Proof. intros H. pose proof (spec_step_wf u cpu H) as H'. wf_open H'. assumption. Qed.

(* any number of steps from a state that uses the user's memory: no panic, ever *)
Theorem spec_iter_no_panic u n : forall cpu, WF cpu -> g_Memory cpu = UserMem -> np (spec_iter u n cpu) = np cpu.
Proof.
  induction n as [|n IH]; intros cpu H Hm; cbn [spec_iter]; [reflexivity|].
  rewrite IH; [| apply spec_step_wf, H | rewrite spec_step_mem; exact Hm].
  apply spec_step_no_panic; [wf_open H; assumption | rewrite Hm; apply user_safe].
Qed.

(* ------------------------------------------------------------------ a pending request is neither lost nor invented by an instruction *)
Lemma exec_irq u m i cpu : g_Interrupt (exec u m i cpu) = g_Interrupt cpu.
Proof. exact (proj1 (exec_keeps_env u m i cpu)). Qed.
Lemma exec_idxcb_irq u m d i cpu : g_Interrupt (exec_idxcb u m d i cpu) = g_Interrupt cpu.
Proof. exact (proj1 (exec_idxcb_keeps_env u m d i cpu)). Qed.
Lemma fetch8_irq cpu : g_Interrupt (fst (fetch8 cpu)) = g_Interrupt cpu.
Proof. cbv beta iota zeta delta [fetch8 rd mem_get]. cbv_struct. reflexivity. Qed.
Lemma fetch_m1_irq cpu : g_Interrupt (fst (fetch_m1 cpu)) = g_Interrupt cpu.
Proof. cbv beta iota zeta delta [fetch_m1 fetch8 rd mem_get]. cbv_struct. reflexivity. Qed.
Lemma exec_idx_irq u m c cpu : g_Interrupt (exec_idx u m c cpu) = g_Interrupt cpu.
Proof.
  unfold exec_idx. destruct (decode_idx c) eqn:E; try apply exec_irq.
  pose proof (fetch8_irq cpu) as M1. destruct (fetch8 cpu) as [cpu1 d]. cbn [fst snd] in *.
  destruct (u_cbidx_ticks u).
  - pose proof (fetch_m1_irq cpu1) as M2. destruct (fetch_m1 cpu1) as [cpu2 c3]. cbn [fst snd] in *. rewrite exec_idxcb_irq. congruence.
  - pose proof (fetch8_irq cpu1) as M2. destruct (fetch8 cpu1) as [cpu2 c3]. cbn [fst snd] in *. rewrite exec_idxcb_irq. congruence.
Qed.
Lemma step_idx_irq u m cpu : g_Interrupt (step_idx u m cpu) = g_Interrupt cpu.
Proof.
  unfold step_idx. pose proof (fetch_m1_irq cpu) as M1. destruct (fetch_m1 cpu) as [cpu1 c1]. cbn [fst snd] in *.
  rewrite exec_idx_irq. exact M1.
Qed.
Theorem step_instr_irq u cpu : g_Interrupt (step_instr u cpu) = g_Interrupt cpu.
Proof.
  unfold step_instr. pose proof (fetch_m1_irq cpu) as M1. destruct (fetch_m1 cpu) as [cpu1 c0]. cbn [fst snd] in *.
  destruct (decode_main c0) eqn:E; try (rewrite exec_irq; exact M1); try (rewrite step_idx_irq; exact M1).
  - pose proof (fetch_m1_irq cpu1) as M2. destruct (fetch_m1 cpu1) as [cpu2 c1]. cbn [fst snd] in *. rewrite exec_irq. congruence.
  - pose proof (fetch_m1_irq cpu1) as M2. destruct (fetch_m1 cpu1) as [cpu2 c1]. cbn [fst snd] in *. rewrite exec_irq. congruence.
Qed.
(* a maskable request that is refused (IFF1 clear) is still pending after the Step, unchanged; with no request pending none appears *)
Theorem refused_request_stays u cpu irq : g_Interrupt cpu = Some irq -> Interrupt_Type irq <> 0 -> g_IFF1 cpu = false ->
  spec_step u cpu = step_instr u cpu /\ g_Interrupt (spec_step u cpu) = Some irq.
Proof.
  intros Hi Ht Hf. assert (E : spec_step u cpu = step_instr u cpu).
  { unfold spec_step. rewrite Hi. unfold try_interrupt. destruct (Z.eqb_spec (Interrupt_Type irq) NMI_type) as [Hx|_]; [contradiction|].
    rewrite Hf. reflexivity. }
  split; [exact E|]. rewrite E, step_instr_irq. exact Hi.
Qed.
Theorem no_request_appears u cpu : g_Interrupt cpu = None -> g_Interrupt (spec_step u cpu) = None.
Proof. intros Hi. unfold spec_step. rewrite Hi. rewrite step_instr_irq. exact Hi. Qed.
(* an accepted or consumed request is retired: whenever the Step is not the plain instruction step, nothing is pending afterwards *)
Theorem accepted_request_retired u cpu irq : g_Interrupt cpu = Some irq ->
  (Interrupt_Type irq = 0 \/ (g_IFF1 cpu = true /\ (g_IM cpu = 0 \/ g_IM cpu = 1 \/ g_IM cpu = 2))) ->
  g_Interrupt (spec_step u cpu) = None.
Proof.
  intros Hi Hc. unfold spec_step. rewrite Hi. unfold try_interrupt.
  destruct Hc as [Ht | (Hf & Hm)].
  - rewrite Ht. reflexivity.
  - destruct (Interrupt_Type irq =? NMI_type); [reflexivity|]. rewrite Hf. cbn [negb].
    destruct Hm as [-> | [-> | ->]]; reflexivity.
Qed.
