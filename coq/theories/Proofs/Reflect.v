(* Proofs/Reflect.v -- finite enumeration closed by kernel computation, and range facts. *)
From Z80V Require Export Prelude.Env.
From Coq Require Import ZifyBool.

Definition is8 (x : Z) : Prop := 0 <= x < 256.
Definition is16 (x : Z) : Prop := 0 <= x < 65536.
Definition is1 (x : Z) : Prop := 0 <= x < 2.
Ltac is_const_Z c := lazymatch c with Z0 => idtac | Zpos _ => idtac | Zneg _ => idtac end.

Fixpoint all_below (n : nat) (p : Z -> bool) : bool :=
  match n with O => true | S k => p (Z.of_nat k) && all_below k p end.
Lemma all_below_spec n p : all_below n p = true -> forall x, 0 <= x < Z.of_nat n -> p x = true.
Proof.
  induction n as [|k IH]; intros H x Hx; [lia|].
  cbn [all_below] in H. apply andb_prop in H. destruct H as [H1 H2].
  destruct (Z.eq_dec x (Z.of_nat k)) as [->|Hne]; [exact H1|]. apply IH; [exact H2|lia].
Qed.

Lemma forall_byte (p : Z -> bool) : all_below 256 p = true -> forall a, is8 a -> p a = true.
Proof. intros H a Ha. apply (all_below_spec 256 p H). exact Ha. Qed.
Lemma forall_byte2 (p : Z -> Z -> bool) :
  all_below 256 (fun a => all_below 256 (p a)) = true -> forall a b, is8 a -> is8 b -> p a b = true.
Proof. intros H a b Ha Hb. apply (forall_byte _ (forall_byte _ H a Ha) b Hb). Qed.
Lemma forall_byte2_bit (p : Z -> Z -> Z -> bool) :
  all_below 256 (fun a => all_below 256 (fun b => p a b 0 && p a b 1)) = true ->
  forall a b c, is8 a -> is8 b -> is1 c -> p a b c = true.
Proof.
  intros H a b c Ha Hb Hc. pose proof (forall_byte2 _ H a b Ha Hb) as E.
  apply andb_prop in E. destruct E as [E0 E1].
  assert (c = 0 \/ c = 1) as [->| ->] by (unfold is1 in Hc; lia); assumption.
Qed.
Lemma forall_byte_bit (p : Z -> Z -> bool) :
  all_below 256 (fun a => p a 0 && p a 1) = true -> forall a c, is8 a -> is1 c -> p a c = true.
Proof.
  intros H a c Ha Hc. pose proof (forall_byte _ H a Ha) as E. apply andb_prop in E. destruct E as [E0 E1].
  assert (c = 0 \/ c = 1) as [->| ->] by (unfold is1 in Hc; lia); assumption.
Qed.
Lemma forall_word (p : Z -> bool) : all_below (Z.to_nat 65536) p = true -> forall a, is16 a -> p a = true.
Proof. intros H a Ha. apply (all_below_spec _ p H). rewrite Z2Nat.id by lia. exact Ha. Qed.

(* ---- ranges ---- *)
Lemma is8_u8 x : is8 (u8 x). Proof. apply u8_range. Qed.
Lemma is16_u16 x : is16 (u16 x). Proof. apply u16_range. Qed.
Lemma lt_pow_land c k : 0 <= k -> 0 <= c < 2 ^ k -> forall x, 0 <= Z.land x c < 2 ^ k.
Proof.
  intros Hk Hc x.
  assert (E : Z.land x c = (Z.land x c) mod 2 ^ k).
  { rewrite <- Z.land_ones by exact Hk. rewrite <- Z.land_assoc.
    rewrite (Z.land_ones c k Hk). rewrite (Z.mod_small c) by exact Hc. reflexivity. }
  rewrite E. apply Z.mod_pos_bound. apply Z.pow_pos_nonneg; lia.
Qed.
Lemma lt_pow_lor a b k : 0 <= k -> 0 <= a < 2 ^ k -> 0 <= b < 2 ^ k -> 0 <= Z.lor a b < 2 ^ k.
Proof.
  intros Hk Ha Hb.
  assert (E : Z.lor a b = (Z.lor a b) mod 2 ^ k).
  { rewrite <- Z.land_ones by exact Hk. rewrite Z.land_lor_distr_l.
    rewrite !Z.land_ones by exact Hk. rewrite !Z.mod_small by assumption. reflexivity. }
  rewrite E. apply Z.mod_pos_bound. apply Z.pow_pos_nonneg; lia.
Qed.
Lemma lt_pow_lxor a b k : 0 <= k -> 0 <= a < 2 ^ k -> 0 <= b < 2 ^ k -> 0 <= Z.lxor a b < 2 ^ k.
Proof.
  intros Hk Ha Hb.
  assert (E : Z.lxor a b = (Z.lxor a b) mod 2 ^ k).
  { rewrite <- Z.land_ones by exact Hk. apply Z.bits_inj'. intros n Hn.
    rewrite Z.land_spec, Z.lxor_spec. destruct (Z.ltb_spec n k) as [Hlt|Hge].
    - rewrite Z.ones_spec_low by lia. now rewrite andb_true_r.
    - rewrite Z.ones_spec_high by lia. rewrite andb_false_r.
      rewrite <- (Z.mod_small a (2 ^ k)) by exact Ha. rewrite <- (Z.mod_small b (2 ^ k)) by exact Hb.
      rewrite !Z.mod_pow2_bits_high by lia. reflexivity. }
  rewrite E. apply Z.mod_pos_bound. apply Z.pow_pos_nonneg; lia.
Qed.
Lemma lt_pow_shiftr a n k : 0 <= n -> 0 <= a < 2 ^ k -> 0 <= Z.shiftr a n < 2 ^ k.
Proof.
  intros Hn Ha. rewrite Z.shiftr_div_pow2 by exact Hn.
  assert (0 < 2 ^ n) by (apply Z.pow_pos_nonneg; lia).
  split; [apply Z.div_pos; lia|].
  apply Z.le_lt_trans with a; [|lia]. apply Z.div_le_upper_bound; nia.
Qed.

Lemma is8_land_r x c : is8 c -> is8 (Z.land x c).
Proof. intros H. apply (lt_pow_land c 8); [lia|exact H]. Qed.
Lemma is8_land_l x c : is8 c -> is8 (Z.land c x).
Proof. intros H. rewrite Z.land_comm. apply is8_land_r, H. Qed.
Lemma is16_land_r x c : is16 c -> is16 (Z.land x c).
Proof. intros H. apply (lt_pow_land c 16); [lia|exact H]. Qed.
Lemma is16_land_l x c : is16 c -> is16 (Z.land c x).
Proof. intros H. rewrite Z.land_comm. apply is16_land_r, H. Qed.
Lemma is8_lor a b : is8 a -> is8 b -> is8 (Z.lor a b).
Proof. apply (lt_pow_lor a b 8); lia. Qed.
Lemma is16_lor a b : is16 a -> is16 b -> is16 (Z.lor a b).
Proof. apply (lt_pow_lor a b 16); lia. Qed.
Lemma is8_lxor a b : is8 a -> is8 b -> is8 (Z.lxor a b).
Proof. apply (lt_pow_lxor a b 8); lia. Qed.
Lemma is8_shiftr a n : 0 <= n -> is8 a -> is8 (Z.shiftr a n).
Proof. intros; apply (lt_pow_shiftr a n 8); assumption. Qed.
Lemma is16_shiftr a n : 0 <= n -> is16 a -> is16 (Z.shiftr a n).
Proof. intros; apply (lt_pow_shiftr a n 16); assumption. Qed.
Lemma is8_is16 a : is8 a -> is16 a. Proof. unfold is8, is16; lia. Qed.
Lemma is1_land1 x : is1 (Z.land x 1).
Proof. apply (lt_pow_land 1 1); lia. Qed.
Lemma is1_is8 x : is1 x -> is8 x. Proof. unfold is1, is8; lia. Qed.
Lemma is8_if (c : bool) a b : is8 a -> is8 b -> is8 (if c then a else b).
Proof. destruct c; auto. Qed.
Lemma is16_if (c : bool) a b : is16 a -> is16 b -> is16 (if c then a else b).
Proof. destruct c; auto. Qed.

Create HintDb ranges discriminated.
#[global] Hint Resolve is8_u8 is16_u16 is8_land_r is8_land_l is16_land_r is16_land_l is8_lor is16_lor
  is8_lxor is8_shiftr is16_shiftr is1_land1 is8_if is16_if : ranges.
#[global] Hint Extern 1 (is8 ?c) => (is_const_Z c; unfold is8; lia) : ranges.
#[global] Hint Extern 1 (is16 ?c) => (unfold is16; lia) : ranges.
#[global] Hint Extern 1 (0 <= ?c) => lia : ranges.
#[global] Hint Extern 5 (is16 _) => (apply is8_is16) : ranges.
#[global] Hint Extern 5 (is8 _) => (apply is1_is8) : ranges.
Ltac range := solve [auto 8 with ranges].

(* ---- equalities over finite operand spaces, closed by vm_compute ---- *)
Lemma eq_by_bytes1 (F G : Z -> Z) :
  all_below 256 (fun a => F a =? G a) = true -> forall a, is8 a -> F a = G a.
Proof. intros H a Ha. apply Z.eqb_eq. exact (forall_byte _ H a Ha). Qed.
Lemma eq_by_bytes2 (F G : Z -> Z -> Z) :
  all_below 256 (fun a => all_below 256 (fun b => F a b =? G a b)) = true ->
  forall a b, is8 a -> is8 b -> F a b = G a b.
Proof. intros H a b Ha Hb. apply Z.eqb_eq. exact (forall_byte2 _ H a b Ha Hb). Qed.
Lemma eq_by_bytes2_bit (F G : Z -> Z -> Z -> Z) :
  all_below 256 (fun a => all_below 256 (fun b => (F a b 0 =? G a b 0) && (F a b 1 =? G a b 1))) = true ->
  forall a b c, is8 a -> is8 b -> is1 c -> F a b c = G a b c.
Proof. intros H a b c Ha Hb Hc. apply Z.eqb_eq. exact (forall_byte2_bit (fun a b c => F a b c =? G a b c) H a b c Ha Hb Hc). Qed.
Lemma eq_by_byte_bit (F G : Z -> Z -> Z) :
  all_below 256 (fun a => (F a 0 =? G a 0) && (F a 1 =? G a 1)) = true ->
  forall a c, is8 a -> is1 c -> F a c = G a c.
Proof. intros H a c Ha Hc. apply Z.eqb_eq. exact (forall_byte_bit (fun a c => F a c =? G a c) H a c Ha Hc). Qed.

(* goal  L = R  mentioning a (and b, c) with hypotheses is8 a, is8 b, is1 c in the context *)
Ltac enum1 a :=
  lazymatch goal with |- ?L = ?R =>
    let F := lazymatch (eval pattern a in L) with ?f _ => f end in
    let G := lazymatch (eval pattern a in R) with ?f _ => f end in
    exact (eq_by_bytes1 F G ltac:(vm_compute; reflexivity) a ltac:(assumption)) end.
Ltac enum2 a b :=
  lazymatch goal with |- ?L = ?R =>
    let F := lazymatch (eval pattern a, b in L) with ?f _ _ => f end in
    let G := lazymatch (eval pattern a, b in R) with ?f _ _ => f end in
    exact (eq_by_bytes2 F G ltac:(vm_compute; reflexivity) a b ltac:(assumption) ltac:(assumption)) end.
Ltac enum2b a b c :=
  lazymatch goal with |- ?L = ?R =>
    let F := lazymatch (eval pattern a, b, c in L) with ?f _ _ _ => f end in
    let G := lazymatch (eval pattern a, b, c in R) with ?f _ _ _ => f end in
    exact (eq_by_bytes2_bit F G ltac:(vm_compute; reflexivity) a b c ltac:(assumption) ltac:(assumption) ltac:(assumption)) end.
Ltac enum1b a c :=
  lazymatch goal with |- ?L = ?R =>
    let F := lazymatch (eval pattern a, c in L) with ?f _ _ => f end in
    let G := lazymatch (eval pattern a, c in R) with ?f _ _ => f end in
    exact (eq_by_byte_bit F G ltac:(vm_compute; reflexivity) a c ltac:(assumption) ltac:(assumption)) end.

Lemma ldiff_byte f n : is8 f -> is8 n -> Z.ldiff f n = Z.land f (255 - n).
Proof. intros Hf Hn. enum2 f n. Qed.
Lemma ldiff_255 f : is8 f -> Z.ldiff f 255 = 0.
Proof. intros Hf. enum1 f. Qed.

(* boolean-valued versions *)
Lemma eqb_by_bytes1 (F G : Z -> bool) :
  all_below 256 (fun a => Bool.eqb (F a) (G a)) = true -> forall a, is8 a -> F a = G a.
Proof. intros H a Ha. apply Bool.eqb_prop. exact (forall_byte _ H a Ha). Qed.
Lemma eqb_by_bytes2 (F G : Z -> Z -> bool) :
  all_below 256 (fun a => all_below 256 (fun b => Bool.eqb (F a b) (G a b))) = true ->
  forall a b, is8 a -> is8 b -> F a b = G a b.
Proof. intros H a b Ha Hb. apply Bool.eqb_prop. exact (forall_byte2 _ H a b Ha Hb). Qed.
Ltac benum1 a :=
  lazymatch goal with |- ?L = ?R =>
    let F := lazymatch (eval pattern a in L) with ?f _ => f end in
    let G := lazymatch (eval pattern a in R) with ?f _ => f end in
    exact (eqb_by_bytes1 F G ltac:(vm_compute; reflexivity) a ltac:(assumption)) end.
Ltac benum2 a b :=
  lazymatch goal with |- ?L = ?R =>
    let F := lazymatch (eval pattern a, b in L) with ?f _ _ => f end in
    let G := lazymatch (eval pattern a, b in R) with ?f _ _ => f end in
    exact (eqb_by_bytes2 F G ltac:(vm_compute; reflexivity) a b ltac:(assumption) ltac:(assumption)) end.
(* bit numbers 0..7 *)
Lemma bits8 (P : Z -> Prop) : P 0 -> P 1 -> P 2 -> P 3 -> P 4 -> P 5 -> P 6 -> P 7 -> forall b, 0 <= b < 8 -> P b.
Proof. intros. assert (b = 0 \/ b = 1 \/ b = 2 \/ b = 3 \/ b = 4 \/ b = 5 \/ b = 6 \/ b = 7) as E by lia.
  repeat (destruct E as [->|E]; [assumption|]). subst; assumption. Qed.
