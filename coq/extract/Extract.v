(* extraction of the executable definitions (generated model and specification) to OCaml.
   Only ExtrOcamlBasic's directives are used; Z, positive, N, nat, byte stay inductive. *)
Require Extraction.
Require Import ExtrOcamlBasic.
From Z80V Require Import Gen.Exec Gen.Run Spec.Exec.
Extraction "model.ml" Gen.Exec.Step Gen.Run.Run_iter Gen.Run.Run_enter Spec.Exec.step_instr Spec.Exec.spec_step GPR_GetFlag GPR_SetFlag GPR_ResetFlag Register_SetU16 Register_U16 mk_Unspec.
