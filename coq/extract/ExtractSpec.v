(* extraction of the specification alone (used by the failing-input search when the generated
   model cannot be built) *)
Require Extraction.
Require Import ExtrOcamlBasic.
From Z80V Require Import Spec.Exec.
Extraction "model.ml" Spec.Exec.step_instr Spec.Exec.spec_step mk_Unspec set_Register_Hi set_CPU_HALT.
