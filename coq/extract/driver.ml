(* driver.ml -- runs the extracted Coq definitions (generated model "gen" and specification "spec")
   on case lines and prints observations in the same format as the Go harness.
   Trusted for the correspondence check and the failing-input search only. *)
open Model

(* ---- Z <-> int ---- *)
let rec pos_of_int n = if n = 1 then XH else if n land 1 = 0 then XO (pos_of_int (n lsr 1)) else XI (pos_of_int (n lsr 1))
let z_of_int n = if n = 0 then Z0 else if n > 0 then Zpos (pos_of_int n) else Zneg (pos_of_int (-n))
let rec int_of_pos = function XH -> 1 | XO p -> 2 * int_of_pos p | XI p -> 2 * int_of_pos p + 1
let int_of_z = function Z0 -> 0 | Zpos p -> int_of_pos p | Zneg p -> - (int_of_pos p)
let ztab = Array.init 65536 z_of_int
let zi n = if n >= 0 && n < 65536 then ztab.(n) else z_of_int n

(* ---- token reader ---- *)
let toks = ref [||]
let pos = ref 0
let next () = let t = !toks.(!pos) in incr pos; t
let nexti () = int_of_string (next ())

let reg h l = { register_Hi = zi h; register_Lo = zi l }
let b2i b = if b then 1 else 0

(* two resolutions of the unspecified bits, used to find out which bits/fields the
   specification leaves open for a given step *)
let unspec_a = { u_scf = (fun a _ -> a); u_ccf = (fun a _ -> a); u_bitmem = (fun _ _ _ -> Z0);
                 u_blockio = (fun _ _ f -> f); u_cbidx_ticks = true }
let unspec_b = { u_scf = (fun a _ -> zi (255 - int_of_z a)); u_ccf = (fun a _ -> zi (255 - int_of_z a));
                 u_bitmem = (fun _ _ _ -> zi 255); u_blockio = (fun _ _ f -> zi (255 - int_of_z f));
                 u_cbidx_ticks = false }

let mem = Array.make 65536 0
let ramf = fun z -> ztab.((int_of_z z) land 65535)  (* reads the current array; addresses are words *)
let ram_closure () = fun z -> zi mem.((int_of_z z) land 65535)

let ev_code = function
  | EvRd (a, v) -> (0, int_of_z a, int_of_z v) | EvWr (a, v) -> (1, int_of_z a, int_of_z v)
  | EvIn (a, v) -> (2, int_of_z a, int_of_z v) | EvOut (a, v) -> (3, int_of_z a, int_of_z v)
  | EvRETI -> (4, 0, 0) | EvRETN -> (5, 0, 0) | EvWarn -> (6, 0, 0) | EvPanic -> (7, 0, 0)

let hmod = 1000000007
type case = { id : string; nsteps : int; tracemode : int; mutable cpu : cPU; sched : (int * int * z list) array;
              evs : Buffer.t; mutable ntrace : int; mutable h : int; mutable nio : int }

let parse_case () =
  let id = next () in
  let _m = nexti () in
  let nsteps = nexti () in
  let tracemode = nexti () in
  let r = Array.init 26 (fun _ -> nexti ()) in
  let iff1 = nexti () <> 0 in let iff2 = nexti () <> 0 in
  let im = nexti () in let halt = nexti () <> 0 in
  let io = nexti () <> 0 in let reti = nexti () <> 0 in let retn = nexti () <> 0 in
  let nsched = nexti () in
  let sched = Array.init nsched (fun _ ->
    let at = nexti () in let kind = nexti () in let nd = nexti () in
    let data = List.init nd (fun _ -> zi (nexti ())) in (at, kind, data)) in
  let fill = nexti () in
  Array.fill mem 0 65536 fill;
  let nmem = nexti () in
  for _ = 1 to nmem do let a = nexti () in let v = nexti () in mem.(a land 65535) <- v done;
  let ninp = nexti () in
  let inputs = List.init ninp (fun _ -> zi (nexti ())) in
  let gpr = { gPR_AF = reg r.(0) r.(1); gPR_BC = reg r.(2) r.(3); gPR_DE = reg r.(4) r.(5); gPR_HL = reg r.(6) r.(7) } in
  let alt = { gPR_AF = reg r.(8) r.(9); gPR_BC = reg r.(10) r.(11); gPR_DE = reg r.(12) r.(13); gPR_HL = reg r.(14) r.(15) } in
  let spr = { sPR_IR = reg r.(16) r.(17); sPR_IX = zi r.(18); sPR_IY = zi r.(19); sPR_SP = zi r.(20); sPR_PC = zi r.(21) } in
  let st = { states_GPR = gpr; states_SPR = spr; states_Alternate = alt; states_IFF1 = iff1; states_IFF2 = iff2; states_IM = z_of_int im } in
  let cpu = { cPU_States = st; cPU_Memory = UserMem; cPU_IO = io; cPU_RETNHandler = retn; cPU_RETIHandler = reti;
              cPU_Interrupt = None; cPU_BreakPoints = None; cPU_HALT = halt;
              cPU_W = { ram = ram_closure (); trace = []; inputs = inputs } } in
  { id; nsteps; tracemode; cpu; sched; evs = Buffer.create 256; ntrace = 0; h = 7; nio = 0 }

(* move the new events of a Step out of the state, apply the writes to the array, rebuild the ram closure *)
let drain cs (c : cPU) =
  let newev = List.rev c.cPU_W.trace in
  List.iter (fun e ->
    let (kd, a, v) = ev_code e in
    cs.ntrace <- cs.ntrace + 1;
    cs.h <- (((cs.h * 31 + kd) mod hmod * 31 + a) mod hmod * 31 + v) mod hmod;
    if kd = 2 || kd = 3 then cs.nio <- cs.nio + 1;
    if cs.tracemode = 0 then Buffer.add_string cs.evs (Printf.sprintf " %d %d %d" kd a v);
    if kd = 1 then mem.(a land 65535) <- v land 255) newev;
  cs.cpu <- { c with cPU_W = { ram = ram_closure (); trace = []; inputs = c.cPU_W.inputs } }

let print_state id cs =
  let c = cs.cpu in let s = c.cPU_States in
  let g = s.states_GPR and a = s.states_Alternate and p = s.states_SPR in
  let iz = int_of_z in
  let rr x = Printf.sprintf "%d %d" (iz x.register_Hi) (iz x.register_Lo) in
  Printf.printf "%s %s %s %s %s %s %s %s %s %s %d %d %d %d %d %d %d %d %d %d %d%s\n" id
    (rr g.gPR_AF) (rr g.gPR_BC) (rr g.gPR_DE) (rr g.gPR_HL) (rr a.gPR_AF) (rr a.gPR_BC) (rr a.gPR_DE) (rr a.gPR_HL)
    (rr p.sPR_IR) (iz p.sPR_IX) (iz p.sPR_IY) (iz p.sPR_SP) (iz p.sPR_PC)
    (b2i s.states_IFF1) (b2i s.states_IFF2) (iz s.states_IM) (b2i c.cPU_HALT)
    (b2i (c.cPU_Interrupt <> None)) cs.ntrace cs.h (Buffer.contents cs.evs)

let run_step model stepf =
  ignore model;
  let cs = parse_case () in
  for k = 0 to cs.nsteps - 1 do
    Array.iter (fun (at, kind, data) ->
      if at = k then cs.cpu <- { cs.cpu with cPU_Interrupt = Some { interrupt_Type = zi kind; interrupt_Data = data } }) cs.sched;
    drain cs (stepf cs.cpu)
  done;
  print_state cs.id cs

(* CPU.Run: Run_enter, then Run_iter (generated model of the loop body) until it yields a result;
   the port trigger raises a request when the n-th port access has happened (visible at the next boundary) *)
let run_run stepf =
  let cs = parse_case () in
  let nbp = nexti () in
  let bps = if nbp < 0 then None else Some (List.init nbp (fun _ -> zi (nexti ()))) in
  let cancelmode = nexti () in let _ms = nexti () in let nruns = nexti () in
  let trign = nexti () in let trigkind = nexti () in let trignd = nexti () in
  let data = List.init trignd (fun _ -> zi (nexti ())) in
  cs.cpu <- { cs.cpu with cPU_BreakPoints = bps };
  Array.iter (fun (at, kind, data) ->
    if at = 0 then cs.cpu <- { cs.cpu with cPU_Interrupt = Some { interrupt_Type = zi kind; interrupt_Data = data } }) cs.sched;
  let fired = ref false in
  for r = 0 to nruns - 1 do
    (* in run mode a scheduled request with at = r >= 1 is raised between Run number r-1 and Run number r *)
    if r > 0 then Array.iter (fun (at, kind, data) ->
      if at = r then cs.cpu <- { cs.cpu with cPU_Interrupt = Some { interrupt_Type = zi kind; interrupt_Data = data } }) cs.sched;
    let code =
      if cancelmode = 1 then 2 (* the real code may run any whole number of Steps first; handled by runto *)
      else begin
        cs.cpu <- run_enter cs.cpu;
        let res = ref (-1) in
        let k = ref 0 in
        while !res < 0 do
          let c1 = stepf cs.cpu in
          drain cs c1;
          if trign > 0 && not !fired && cs.nio >= trign then begin
            fired := true;
            cs.cpu <- { cs.cpu with cPU_Interrupt = Some { interrupt_Type = zi trigkind; interrupt_Data = data } } end;
          let c = cs.cpu in
          let hit = match c.cPU_BreakPoints with Some l -> List.exists (fun x -> int_of_z x = int_of_z c.cPU_States.states_SPR.sPR_PC) l | None -> false in
          if hit then res := 1 else if c.cPU_HALT then res := 0;
          incr k;
          if !res < 0 && !k >= cs.nsteps then res := 3
        done;
        !res
      end in
    Printf.printf "%s.%d.res %d 0\n" cs.id r code;
    print_state (Printf.sprintf "%s.%d" cs.id r) cs
  done

(* advance by whole Steps until the access count reaches the target; print the state there *)
let run_to stepf =
  let cs = parse_case () in
  let target = nexti () in
  Array.iter (fun (at, kind, data) ->
    if at = 0 then cs.cpu <- { cs.cpu with cPU_Interrupt = Some { interrupt_Type = zi kind; interrupt_Data = data } }) cs.sched;
  cs.cpu <- run_enter cs.cpu;
  let k = ref 0 in
  while cs.ntrace < target && !k < 50000000 do drain cs (stepf cs.cpu); incr k done;
  print_state cs.id cs

let mkgpr a f = { gPR_AF = reg a f; gPR_BC = reg 1 2; gPR_DE = reg 3 4; gPR_HL = reg 5 6 }
let pr_gpr id g =
  let iz = int_of_z in
  Printf.printf "%s %d %d %d %d %d %d %d %d\n" id (iz g.gPR_AF.register_Hi) (iz g.gPR_AF.register_Lo)
    (iz g.gPR_BC.register_Hi) (iz g.gPR_BC.register_Lo) (iz g.gPR_DE.register_Hi) (iz g.gPR_DE.register_Lo)
    (iz g.gPR_HL.register_Hi) (iz g.gPR_HL.register_Lo)

let () =
  let specvariant = ref unspec_a in
  (try while true do
    let line = input_line stdin in
    let ts = Array.of_list (List.filter (fun s -> s <> "") (String.split_on_char ' ' line)) in
    if Array.length ts > 0 then begin
      toks := ts; pos := 0;
      match next () with
      | "step" ->
        (* the model field: 0 = generated model, 1 = specification (variant a), 2 = specification (variant b) *)
        let m = int_of_string ts.(2) in
        let f = match m with
          | 0 -> Model.step
          | 1 -> Model.spec_step unspec_a
          | _ -> Model.spec_step unspec_b in
        ignore !specvariant;
        run_step m f
      | "run" ->
        let m = int_of_string ts.(2) in
        run_run (match m with 0 -> Model.step | 1 -> Model.spec_step unspec_a | _ -> Model.spec_step unspec_b)
      | "runto" ->
        let m = int_of_string ts.(2) in
        run_to (match m with 0 -> Model.step | 1 -> Model.spec_step unspec_a | _ -> Model.spec_step unspec_b)
      | "getflag" -> let id = next () in let a = nexti () in let f = nexti () in let m = nexti () in
        Printf.printf "%s %d\n" id (b2i (gPR_GetFlag (mkgpr a f) (zi m)))
      | "setflag" -> let id = next () in let a = nexti () in let f = nexti () in let m = nexti () in
        pr_gpr id (gPR_SetFlag (mkgpr a f) (zi m))
      | "resetflag" -> let id = next () in let a = nexti () in let f = nexti () in let m = nexti () in
        pr_gpr id (gPR_ResetFlag (mkgpr a f) (zi m))
      | "setu16" -> let id = next () in let h = nexti () in let l = nexti () in let v = nexti () in
        let r = register_SetU16 (reg h l) (zi v) in
        Printf.printf "%s %d %d %d\n" id (int_of_z r.register_Hi) (int_of_z r.register_Lo) (int_of_z (register_U16 r))
      | "#" -> ()
      | s -> failwith ("unknown case kind " ^ s)
    end
  done with End_of_file -> ());
  flush stdout
