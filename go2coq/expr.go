package main

import (
	"fmt"
	"go/ast"
	"go/constant"
	"go/token"
	"go/types"
	"regexp"
	"strings"
)

// fctx is the per-function translation context.
type fctx struct {
	t        *Tr
	fn       *Fn
	pre      []string // pending let-bindings of the statement being translated
	tmp      *int
	scope    []scopeVar // locals declared so far (for lifted switches)
	names    map[*types.Var]string
	casePath []string // enclosing single-value switch cases (names the lifted tables)
}

type scopeVar struct {
	name string
	typ  string
}

func (c *fctx) fresh() string {
	*c.tmp++
	return fmt.Sprintf("t%d", *c.tmp)
}

func (c *fctx) bind(pat, rhs string) {
	c.pre = append(c.pre, fmt.Sprintf("let %s := %s in", pat, rhs))
}

func (c *fctx) errorf(pos token.Pos, f string, a ...interface{}) {
	c.t.errorf(pos, c.fn.name+": "+f, a...)
}

func (c *fctx) varName(v *types.Var) string {
	if v == c.fn.cpuVar {
		return "cpu"
	}
	if n, ok := c.names[v]; ok {
		return n
	}
	n := ident(v.Name())
	if n == "cpu" || regexp.MustCompile(`^t[0-9]+$`).MatchString(n) {
		n = n + "_"
	}
	c.names[v] = n
	return n
}

// ---------------------------------------------------------------- l-values

type lvKind int

const (
	lvCPU lvKind = iota
	lvLens
	lvLocal
	lvValue
)

type LV struct {
	kind  lvKind
	name  string // lens / local name, or value atom
	idx   []int  // cpu path
	projs []string
	sets  []string
	typ   types.Type
}

func deref(ty types.Type) types.Type {
	if p, ok := ty.(*types.Pointer); ok {
		return p.Elem()
	}
	return ty
}

func (c *fctx) lv(e ast.Expr) *LV {
	switch x := e.(type) {
	case *ast.ParenExpr:
		return c.lv(x.X)
	case *ast.Ident:
		v, _ := c.t.info.Uses[x].(*types.Var)
		if v == nil {
			v, _ = c.t.info.Defs[x].(*types.Var)
		}
		if v == nil {
			c.errorf(x.Pos(), "not a variable: %s", x.Name)
			return &LV{kind: lvValue, name: "ERR"}
		}
		if v.Parent() == c.t.pkg.Scope() {
			c.errorf(x.Pos(), "use of package-level variable %s", x.Name)
		}
		switch {
		case v == c.fn.cpuVar:
			return &LV{kind: lvCPU, typ: c.t.cpuT}
		case c.fn.lensPar[v]:
			return &LV{kind: lvLens, name: c.varName(v), typ: deref(v.Type())}
		}
		return &LV{kind: lvLocal, name: c.varName(v), typ: deref(v.Type())}
	case *ast.StarExpr:
		l := c.lv(x.X)
		if l.kind != lvLens || len(l.projs) > 0 {
			c.errorf(x.Pos(), "dereference of something that is not a pointer parameter")
		}
		return l
	case *ast.SelectorExpr:
		s := c.t.info.Selections[x]
		if s == nil || s.Kind() != types.FieldVal {
			c.errorf(x.Pos(), "unsupported selector")
			return &LV{kind: lvValue, name: "ERR"}
		}
		l := c.lv(x.X)
		cur := deref(l.typ)
		for _, i := range s.Index() {
			// a *Interrupt in the middle of a path: nil check is modelled
			if n, ok := cur.(*types.Named); ok && n.Obj().Name() == "Interrupt" && isPtr(l.typ) && len(l.projs) == 0 {
				tn := c.fresh()
				c.bind("'(cpu, "+tn+")", "deref_Interrupt cpu "+paren(c.readLV(l)))
				l = &LV{kind: lvValue, name: tn, typ: cur}
			}
			st, ok := cur.Underlying().(*types.Struct)
			if !ok {
				c.errorf(x.Pos(), "selection through non-struct %s", cur)
				return l
			}
			f := st.Field(i)
			owner := cur.(*types.Named).Obj().Name()
			if _, drop := droppedFields[owner+"."+f.Name()]; drop {
				return &LV{kind: lvValue, name: "DROPPED:" + owner + "." + f.Name(), typ: f.Type()}
			}
			nl := &LV{kind: l.kind, name: l.name, typ: f.Type()}
			if l.kind == lvCPU {
				nl.idx = append(append([]int{}, l.idx...), i)
			} else {
				nl.projs = append(append([]string{}, l.projs...), owner+"_"+f.Name())
				nl.sets = append(append([]string{}, l.sets...), "set_"+owner+"_"+f.Name())
			}
			l = nl
			cur = deref(f.Type())
		}
		return l
	}
	c.errorf(e.Pos(), "unsupported l-value %T", e)
	return &LV{kind: lvValue, name: "ERR"}
}

func (c *fctx) cpuPath(l *LV, pos token.Pos) *Path {
	p := c.t.paths[idxKey(l.idx)]
	if p == nil {
		c.errorf(pos, "unknown CPU path %v", l.idx)
		return &Path{name: "ERR"}
	}
	return p
}

func (c *fctx) readLV(l *LV) string {
	var base string
	switch l.kind {
	case lvCPU:
		if len(l.idx) == 0 {
			return "cpu"
		}
		return "g_" + c.cpuPath(l, token.NoPos).name + " cpu"
	case lvLens:
		base = "lget " + l.name + " cpu"
	default:
		base = l.name
	}
	for _, p := range l.projs {
		base = p + " " + paren(base)
	}
	return base
}

// nestedSet rebuilds base with the field path l.projs replaced by v.
func nestedSet(l *LV, base, v string) string {
	inner := v
	for k := len(l.projs) - 1; k >= 0; k-- {
		recv := base
		for _, p := range l.projs[:k] {
			recv = p + " " + paren(recv)
		}
		inner = l.sets[k] + " " + paren(recv) + " " + paren(inner)
	}
	return inner
}

func (c *fctx) writeLV(l *LV, v string, pos token.Pos) {
	switch l.kind {
	case lvCPU:
		if len(l.idx) == 0 {
			c.errorf(pos, "assignment to the CPU pointer itself")
			return
		}
		c.bind("cpu", "s_"+c.cpuPath(l, pos).name+" cpu "+paren(v))
	case lvLens:
		c.bind("cpu", "lset "+l.name+" cpu "+paren(nestedSet(l, "lget "+l.name+" cpu", v)))
	case lvLocal:
		c.bind(l.name, nestedSet(l, l.name, v))
	default:
		c.errorf(pos, "assignment to a non-assignable value")
	}
}

// ---------------------------------------------------------------- expressions

func basicKind(ty types.Type) types.BasicKind {
	if b, ok := ty.Underlying().(*types.Basic); ok {
		return b.Kind()
	}
	return types.Invalid
}

func (c *fctx) wrap(ty types.Type, s string, pos token.Pos) string {
	switch basicKind(ty) {
	case types.Uint8:
		return "u8 " + paren(s)
	case types.Uint16:
		return "u16 " + paren(s)
	case types.Uint32:
		return "u32 " + paren(s)
	case types.Int, types.UntypedInt:
		return s
	}
	c.errorf(pos, "arithmetic on unsupported type %s", ty)
	return s
}

func width(k types.BasicKind) (bits int, signed bool, ok bool) {
	switch k {
	case types.Uint8:
		return 8, false, true
	case types.Uint16:
		return 16, false, true
	case types.Uint32:
		return 32, false, true
	case types.Int8:
		return 8, true, true
	case types.Int16:
		return 16, true, true
	case types.Int, types.Int64, types.UntypedInt:
		return 64, true, true
	case types.Uint, types.Uint64:
		return 64, false, true
	}
	return 0, false, false
}

func constLit(v constant.Value, pos token.Pos, c *fctx) string {
	switch v.Kind() {
	case constant.Bool:
		if constant.BoolVal(v) {
			return "true"
		}
		return "false"
	case constant.Int:
		s := v.ExactString()
		if strings.HasPrefix(s, "-") {
			return "(" + s + ")"
		}
		return s
	}
	c.errorf(pos, "unsupported constant kind %v", v.Kind())
	return "0"
}

var stateRe = regexp.MustCompile(`\bcpu\b`)

// evalList evaluates operands left to right; a pure operand that reads the
// state is frozen into a temporary when a later operand has effects.
func (c *fctx) evalList(es []ast.Expr) []string {
	atoms := make([]string, len(es))
	for i, e := range es {
		start := len(c.pre)
		a := c.expr(e)
		if len(c.pre) > start {
			var freeze []string
			for j := 0; j < i; j++ {
				if stateRe.MatchString(atoms[j]) || c.mentionsSelf(atoms[j]) {
					tn := c.fresh()
					freeze = append(freeze, fmt.Sprintf("let %s := %s in", tn, atoms[j]))
					atoms[j] = tn
				}
			}
			if len(freeze) > 0 {
				rest := append([]string{}, c.pre[start:]...)
				c.pre = append(append(c.pre[:start:start], freeze...), rest...)
			}
		}
		atoms[i] = a
	}
	return atoms
}

func (c *fctx) mentionsSelf(s string) bool {
	if c.fn.selfVar == nil || !c.fn.wrSelf {
		return false
	}
	return regexp.MustCompile(`\b` + regexp.QuoteMeta(c.varName(c.fn.selfVar)) + `\b`).MatchString(s)
}

func (c *fctx) expr(e ast.Expr) string {
	tv := c.t.info.Types[e]
	if tv.Value != nil {
		return constLit(tv.Value, e.Pos(), c)
	}
	switch x := e.(type) {
	case *ast.ParenExpr:
		return c.expr(x.X)
	case *ast.Ident:
		if x.Name == "true" || x.Name == "false" {
			return x.Name
		}
		if c.isNil(x) {
			return "None"
		}
		return c.readLV(c.lv(x))
	case *ast.SelectorExpr:
		l := c.lv(x)
		if l.kind == lvValue && strings.HasPrefix(l.name, "DROPPED:") {
			c.errorf(x.Pos(), "read of unmodelled field %s", l.name[8:])
		}
		return c.readLV(l)
	case *ast.StarExpr:
		return c.readLV(c.lv(x))
	case *ast.UnaryExpr:
		switch x.Op {
		case token.NOT:
			return "negb " + paren(c.expr(x.X))
		case token.XOR:
			return c.wrap(tv.Type, "Z.lnot "+paren(c.expr(x.X)), x.Pos())
		case token.SUB:
			return c.wrap(tv.Type, "- "+paren(c.expr(x.X)), x.Pos())
		case token.AND:
			if cl, ok := x.X.(*ast.CompositeLit); ok {
				return c.composite(cl)
			}
			l := c.lv(x.X)
			if l.kind != lvCPU || len(l.idx) == 0 {
				c.errorf(x.Pos(), "address-of something outside the CPU record")
				return "ERR"
			}
			return "lens_" + c.cpuPath(l, x.Pos()).name
		}
	case *ast.CompositeLit:
		return c.composite(x)
	case *ast.BinaryExpr:
		return c.binary(x, tv.Type)
	case *ast.CallExpr:
		rs := c.call(x)
		if len(rs) != 1 {
			c.errorf(x.Pos(), "call used as a value has %d results", len(rs))
			return "ERR"
		}
		return rs[0]
	case *ast.IndexExpr:
		as := c.evalList([]ast.Expr{x.X, x.Index})
		tn := c.fresh()
		c.bind("'(cpu, "+tn+")", fmt.Sprintf("idx cpu %s %s", paren(as[0]), paren(as[1])))
		return tn
	}
	c.errorf(e.Pos(), "unsupported expression %T", e)
	return "ERR"
}

func (c *fctx) composite(x *ast.CompositeLit) string {
	ty := c.t.info.Types[x].Type
	n, ok := ty.(*types.Named)
	if !ok {
		c.errorf(x.Pos(), "composite literal of unnamed type")
		return "ERR"
	}
	st, ok := n.Underlying().(*types.Struct)
	if !ok {
		c.errorf(x.Pos(), "composite literal of non-struct type")
		return "ERR"
	}
	vals := make([]ast.Expr, st.NumFields())
	for i, e := range x.Elts {
		if kv, ok := e.(*ast.KeyValueExpr); ok {
			for j := 0; j < st.NumFields(); j++ {
				if st.Field(j).Name() == kv.Key.(*ast.Ident).Name {
					vals[j] = kv.Value
				}
			}
		} else {
			vals[i] = e
		}
	}
	var es []ast.Expr
	var zero []int
	for j := 0; j < st.NumFields(); j++ {
		if _, drop := droppedFields[n.Obj().Name()+"."+st.Field(j).Name()]; drop {
			continue
		}
		if vals[j] == nil {
			zero = append(zero, len(es))
			c.errorf(x.Pos(), "composite literal leaves field %s to its zero value", st.Field(j).Name())
			continue
		}
		es = append(es, vals[j])
	}
	as := c.evalList(es)
	for i := range as {
		as[i] = paren(as[i])
	}
	return "mk_" + n.Obj().Name() + " " + strings.Join(as, " ")
}

func (c *fctx) isNil(e ast.Expr) bool {
	id, ok := e.(*ast.Ident)
	if !ok {
		return false
	}
	_, isNil := c.t.info.Uses[id].(*types.Nil)
	return isNil
}

func (c *fctx) binary(x *ast.BinaryExpr, ty types.Type) string {
	// comparisons with nil
	if x.Op == token.EQL || x.Op == token.NEQ {
		var other ast.Expr
		if c.isNil(x.Y) {
			other = x.X
		} else if c.isNil(x.X) {
			other = x.Y
		}
		if other != nil {
			ct := c.t.coqType(c.t.info.Types[other].Type)
			a := c.expr(other)
			var nonnil string
			switch {
			case ct == "bool":
				nonnil = a
			case strings.HasPrefix(ct, "option"):
				nonnil = "isSome " + paren(a)
			default:
				c.errorf(x.Pos(), "nil comparison on %s", ct)
			}
			if x.Op == token.EQL {
				return "negb " + paren(nonnil)
			}
			return nonnil
		}
	}
	if x.Op == token.LAND || x.Op == token.LOR {
		a := c.expr(x.X)
		save := c.pre
		c.pre = nil
		b := c.expr(x.Y)
		inner := c.pre
		c.pre = save
		if len(inner) == 0 {
			if x.Op == token.LAND {
				return fmt.Sprintf("andb %s %s", paren(a), paren(b))
			}
			return fmt.Sprintf("orb %s %s", paren(a), paren(b))
		}
		// short circuit with an effectful right operand
		tn := c.fresh()
		body := strings.Join(inner, " ") + " (cpu, " + b + ")"
		if x.Op == token.LAND {
			c.bind("'(cpu, "+tn+")", fmt.Sprintf("if %s then (%s) else (cpu, false)", a, body))
		} else {
			c.bind("'(cpu, "+tn+")", fmt.Sprintf("if %s then (cpu, true) else (%s)", a, body))
		}
		return tn
	}
	as := c.evalList([]ast.Expr{x.X, x.Y})
	a, b := paren(as[0]), paren(as[1])
	opT := c.t.info.Types[x.X].Type
	isBool := basicKind(opT) == types.Bool || basicKind(opT) == types.UntypedBool
	switch x.Op {
	case token.ADD:
		return c.wrap(ty, a+" + "+b, x.Pos())
	case token.SUB:
		return c.wrap(ty, a+" - "+b, x.Pos())
	case token.MUL:
		return c.wrap(ty, a+" * "+b, x.Pos())
	case token.REM:
		if k := basicKind(ty); k != types.Int && k != types.UntypedInt {
			c.errorf(x.Pos(), "%% on %s", ty)
		}
		return "Z.rem " + a + " " + b
	case token.SHL:
		return c.wrap(ty, "Z.shiftl "+a+" "+b, x.Pos())
	case token.SHR:
		if _, signed, _ := width(basicKind(ty)); signed && basicKind(ty) != types.UntypedInt {
			c.errorf(x.Pos(), ">> on signed type %s", ty)
		}
		return "Z.shiftr " + a + " " + b
	case token.AND:
		return "Z.land " + a + " " + b
	case token.OR:
		return "Z.lor " + a + " " + b
	case token.XOR:
		return "Z.lxor " + a + " " + b
	case token.AND_NOT:
		return "Z.ldiff " + a + " " + b
	case token.EQL:
		if isBool {
			return "Bool.eqb " + a + " " + b
		}
		return a + " =? " + b
	case token.NEQ:
		if isBool {
			return "negb (Bool.eqb " + a + " " + b + ")"
		}
		return "negb (" + a + " =? " + b + ")"
	case token.LSS:
		return a + " <? " + b
	case token.LEQ:
		return a + " <=? " + b
	case token.GTR:
		return a + " >? " + b
	case token.GEQ:
		return a + " >=? " + b
	}
	c.errorf(x.Pos(), "unsupported operator %s", x.Op)
	return "ERR"
}

func (c *fctx) conversion(x *ast.CallExpr, dst types.Type) string {
	src := c.t.info.Types[x.Args[0]].Type
	a := c.expr(x.Args[0])
	db, dsigned, ok1 := width(basicKind(dst))
	sb, ssigned, ok2 := width(basicKind(src))
	if !ok1 || !ok2 {
		c.errorf(x.Pos(), "unsupported conversion %s -> %s", src, dst)
		return a
	}
	switch {
	case !dsigned && !ssigned && sb <= db:
		return a
	case !dsigned && db < 64:
		return c.wrap(dst, a, x.Pos())
	case dsigned && db == 64:
		return a
	case dsigned && ssigned && sb <= db:
		return a
	case dsigned && !ssigned && sb == db && db == 8:
		return "sext8 " + paren(a)
	case dsigned && !ssigned && sb == db && db == 16:
		return "sext16 " + paren(a)
	case dsigned && !ssigned && sb < db:
		return a
	}
	c.errorf(x.Pos(), "unsupported conversion %s -> %s", src, dst)
	return a
}

// call translates a call and returns the atoms of its results.
func (c *fctx) call(x *ast.CallExpr) []string {
	t := c.t
	if tv := t.info.Types[x.Fun]; tv.IsType() {
		return []string{c.conversion(x, tv.Type)}
	}
	if id, ok := x.Fun.(*ast.Ident); ok {
		if b, ok := t.info.Uses[id].(*types.Builtin); ok {
			if b.Name() == "len" {
				return []string{"len_Z " + paren(c.expr(x.Args[0]))}
			}
			c.errorf(x.Pos(), "unsupported builtin %s", b.Name())
			return []string{"ERR"}
		}
	}
	if sel, ok := x.Fun.(*ast.SelectorExpr); ok {
		if f, ok := t.info.Uses[sel.Sel].(*types.Func); ok && f.Pkg() != nil && f.Pkg().Path() == "math/bits" && f.Name() == "OnesCount8" {
			return []string{"popcount8 " + paren(c.expr(x.Args[0]))}
		}
	}
	if name, ext := t.externalCall(x); ext {
		return c.external(name, x)
	}
	f := t.calleeOf(x)
	fn := t.fns[f]
	if fn == nil {
		c.errorf(x.Pos(), "call of a function outside the translated set")
		return []string{"ERR"}
	}
	sig := f.Type().(*types.Signature)
	// receiver
	var selfLV *LV
	var args []string
	argExprs := append([]ast.Expr{}, x.Args...)
	if sel, ok := x.Fun.(*ast.SelectorExpr); ok && sig.Recv() != nil {
		if fn.selfVar != nil {
			selfLV = c.lv(sel.X)
		} else if l := c.lv(sel.X); l.kind != lvCPU || len(l.idx) != 0 {
			c.errorf(x.Pos(), "CPU method called on something other than the CPU pointer")
		}
	}
	// explicit cpu argument: drop it from the evaluated list
	var rest []ast.Expr
	for i, a := range argExprs {
		if i < sig.Params().Len() && t.isCPUPtr(sig.Params().At(i).Type()) {
			if l := c.lv(a); l.kind != lvCPU || len(l.idx) != 0 {
				c.errorf(a.Pos(), "CPU argument is not the CPU pointer")
			}
			continue
		}
		rest = append(rest, a)
	}
	atoms := c.evalList(rest)
	if sig.Variadic() {
		n := len(fn.params) - 1
		fixed, extra := atoms[:n], atoms[n:]
		atoms = append(append([]string{}, fixed...), "["+strings.Join(extra, "; ")+"]")
	}
	if fn.needCPU {
		args = append(args, "cpu")
	}
	if selfLV != nil {
		args = append(args, paren(c.readLV(selfLV)))
	}
	for _, a := range atoms {
		args = append(args, paren(a))
	}
	app := fn.name + " " + strings.Join(args, " ")
	nres := len(fn.results)
	var pats []string
	if fn.wrCPU {
		pats = append(pats, "cpu")
	}
	selfTmp := ""
	if fn.wrSelf {
		selfTmp = c.fresh()
		pats = append(pats, selfTmp)
	}
	var res []string
	for i := 0; i < nres; i++ {
		res = append(res, c.fresh())
	}
	pats = append(pats, res...)
	switch {
	case len(pats) == 0:
		c.errorf(x.Pos(), "call of %s has no result and no effect", fn.name)
	case !fn.wrCPU && !fn.wrSelf && nres == 1:
		return []string{app} // pure, single result: stays an expression
	case len(pats) == 1:
		c.bind(pats[0], app)
	default:
		c.bind("'("+strings.Join(pats, ", ")+")", app)
	}
	if fn.wrSelf {
		c.writeLV(selfLV, selfTmp, x.Pos())
	}
	return res
}

func (c *fctx) external(name string, x *ast.CallExpr) []string {
	sel := x.Fun.(*ast.SelectorExpr)
	if name == "warnf" {
		c.bind("cpu", "warnf cpu")
		return nil
	}
	atoms := c.evalList(x.Args)
	pa := make([]string, len(atoms))
	for i, a := range atoms {
		pa[i] = paren(a)
	}
	memTarget := func() (get, set string) {
		l := c.lv(sel.X)
		if l.kind == lvValue && l.name == "DROPPED:im0data.base" {
			return "user_get cpu", "user_set cpu"
		}
		if l.kind == lvCPU && len(l.idx) > 0 && c.cpuPath(l, x.Pos()).name == "Memory" {
			return "Mem_Get cpu (g_Memory cpu)", "Mem_Set cpu (g_Memory cpu)"
		}
		c.errorf(x.Pos(), "Memory method on an unsupported receiver")
		return "ERR", "ERR"
	}
	onCPUField := func(field string) {
		l := c.lv(sel.X)
		if l.kind != lvCPU || len(l.idx) == 0 || c.cpuPath(l, x.Pos()).name != field {
			c.errorf(x.Pos(), "%s method on an unsupported receiver", field)
		}
	}
	switch name {
	case "Memory.Get":
		g, _ := memTarget()
		tn := c.fresh()
		c.bind("'(cpu, "+tn+")", g+" "+pa[0])
		return []string{tn}
	case "Memory.Set":
		_, s := memTarget()
		c.bind("cpu", s+" "+pa[0]+" "+pa[1])
		return nil
	case "IO.In":
		onCPUField("IO")
		tn := c.fresh()
		c.bind("'(cpu, "+tn+")", "io_In cpu "+pa[0])
		return []string{tn}
	case "IO.Out":
		onCPUField("IO")
		c.bind("cpu", "io_Out cpu "+pa[0]+" "+pa[1])
		return nil
	case "RETIHandler.RETIHandle":
		onCPUField("RETIHandler")
		c.bind("cpu", "reti_Handle cpu")
		return nil
	case "RETNHandler.RETNHandle":
		onCPUField("RETNHandler")
		c.bind("cpu", "retn_Handle cpu")
		return nil
	case "warnf":
		c.bind("cpu", "warnf cpu")
		return nil
	}
	c.errorf(x.Pos(), "unsupported external call %s", name)
	return nil
}
