package main

import (
	"fmt"
	"go/ast"
	"go/token"
	"go/types"
	"sort"
	"strings"
)

func (c *fctx) flush() string {
	s := strings.Join(c.pre, "\n")
	c.pre = nil
	if s != "" {
		s += "\n"
	}
	return s
}

// stateTuple is what a function yields when it falls off its end.
func (c *fctx) stateParts() []string {
	var ps []string
	if c.fn.wrCPU {
		ps = append(ps, "cpu")
	}
	if c.fn.wrSelf {
		ps = append(ps, c.varName(c.fn.selfVar))
	}
	return ps
}

func tuple(ps []string) string {
	if len(ps) == 1 {
		return ps[0]
	}
	return "(" + strings.Join(ps, ", ") + ")"
}

func terminates(s ast.Stmt) bool {
	switch x := s.(type) {
	case *ast.ReturnStmt:
		return true
	case *ast.BlockStmt:
		return len(x.List) > 0 && terminates(x.List[len(x.List)-1])
	case *ast.IfStmt:
		return x.Else != nil && terminates(x.Body) && terminates(x.Else)
	case *ast.SwitchStmt:
		hasDefault := false
		for _, cc := range x.Body.List {
			cl := cc.(*ast.CaseClause)
			if cl.List == nil {
				hasDefault = true
			}
			if len(cl.Body) == 0 || !terminates(cl.Body[len(cl.Body)-1]) {
				return false
			}
		}
		return hasDefault
	}
	return false
}

// assigned returns the Coq names of the variables (declared outside node)
// that node may assign, "cpu" first.
func (c *fctx) assigned(node ast.Node) []string {
	set := map[string]bool{}
	note := func(e ast.Expr) {
		if id, ok := e.(*ast.Ident); ok && id.Name == "_" {
			return
		}
		v := c.t.rootVar(e)
		if v == nil {
			return
		}
		switch {
		case v == c.fn.cpuVar:
			set["cpu"] = true
		case c.fn.lensPar[v]:
			set["cpu"] = true
		default:
			if v.Pos() < node.Pos() || v.Pos() > node.End() {
				set[c.varName(v)] = true
			}
		}
	}
	ast.Inspect(node, func(n ast.Node) bool {
		switch x := n.(type) {
		case *ast.AssignStmt:
			for _, l := range x.Lhs {
				if x.Tok == token.DEFINE {
					if id, ok := l.(*ast.Ident); ok && c.t.info.Defs[id] != nil {
						continue
					}
				}
				note(l)
			}
		case *ast.IncDecStmt:
			note(x.X)
		case *ast.IndexExpr:
			set["cpu"] = true
		case *ast.CallExpr:
			if _, ext := c.t.externalCall(x); ext {
				set["cpu"] = true
			} else if f := c.t.calleeOf(x); f != nil {
				if fn := c.t.fns[f]; fn != nil {
					if fn.wrCPU {
						set["cpu"] = true
					}
					if fn.wrSelf {
						if sel, ok := x.Fun.(*ast.SelectorExpr); ok {
							note(sel.X)
						}
					}
				}
			}
		}
		return true
	})
	var out []string
	for n := range set {
		if n != "cpu" {
			out = append(out, n)
		}
	}
	sort.Strings(out)
	if set["cpu"] {
		out = append([]string{"cpu"}, out...)
	}
	return out
}

// stmts translates a statement list followed by `tail` (the value of falling
// off the end).
func (c *fctx) stmts(list []ast.Stmt, tail string) string {
	if len(list) == 0 {
		return tail
	}
	s, rest := list[0], list[1:]
	switch x := s.(type) {
	case *ast.EmptyStmt:
		return c.stmts(rest, tail)
	case *ast.BlockStmt:
		return c.stmts(append(append([]ast.Stmt{}, x.List...), rest...), tail)
	case *ast.DeclStmt:
		gd := x.Decl.(*ast.GenDecl)
		if gd.Tok != token.VAR {
			c.errorf(x.Pos(), "unsupported declaration")
			return tail
		}
		for _, sp := range gd.Specs {
			vs := sp.(*ast.ValueSpec)
			for i, n := range vs.Names {
				v := c.t.info.Defs[n].(*types.Var)
				var val string
				if i < len(vs.Values) {
					val = c.expr(vs.Values[i])
				} else {
					val = zeroOf(c.t.coqType(v.Type()))
				}
				c.bind(c.varName(v), val)
				c.scope = append(c.scope, scopeVar{c.varName(v), c.t.coqType(v.Type())})
			}
		}
		return c.flush() + c.stmts(rest, tail)
	case *ast.ExprStmt:
		call, ok := x.X.(*ast.CallExpr)
		if !ok {
			c.errorf(x.Pos(), "expression statement that is not a call")
			return tail
		}
		c.call(call)
		return c.flush() + c.stmts(rest, tail)
	case *ast.IncDecStmt:
		l := c.lv(x.X)
		ty := c.t.info.Types[x.X].Type
		op := " + 1"
		if x.Tok == token.DEC {
			op = " - 1"
		}
		c.writeLV(l, c.wrap(ty, paren(c.readLV(l))+op, x.Pos()), x.Pos())
		return c.flush() + c.stmts(rest, tail)
	case *ast.AssignStmt:
		c.assign(x)
		return c.flush() + c.stmts(rest, tail)
	case *ast.ReturnStmt:
		if len(rest) > 0 {
			c.errorf(x.Pos(), "statements after return")
		}
		var rs []string
		if len(x.Results) == 0 {
			for _, r := range c.fn.results {
				rs = append(rs, c.varName(r))
			}
		} else if len(x.Results) == 1 && len(c.fn.results) > 1 {
			rs = c.call(x.Results[0].(*ast.CallExpr))
		} else {
			rs = c.evalList(x.Results)
		}
		return c.flush() + tuple(append(c.stateParts(), rs...))
	case *ast.IfStmt:
		return c.ifStmt(x, rest, tail)
	case *ast.SwitchStmt:
		if len(rest) > 0 && !terminates(x) {
			c.errorf(x.Pos(), "switch that is not in tail position")
		}
		return c.switchStmt(x, tail)
	}
	c.errorf(s.Pos(), "unsupported statement %T", s)
	return tail
}

func zeroOf(ct string) string {
	switch ct {
	case "Z":
		return "0"
	case "bool":
		return "false"
	}
	return "ERR_zero_" + ct
}

func (c *fctx) sub() *fctx {
	return &fctx{t: c.t, fn: c.fn, tmp: c.tmp, scope: append([]scopeVar{}, c.scope...), names: c.names, casePath: c.casePath}
}

func (c *fctx) ifStmt(x *ast.IfStmt, rest []ast.Stmt, tail string) string {
	pre := ""
	if x.Init != nil {
		c.errorf(x.Pos(), "if with init statement")
	}
	cond := c.expr(x.Cond)
	pre = c.flush()
	var elseList []ast.Stmt
	if x.Else != nil {
		elseList = []ast.Stmt{x.Else}
	}
	thenT := terminates(x.Body)
	elseT := x.Else != nil && terminates(x.Else)
	switch {
	case thenT && elseT:
		if len(rest) > 0 {
			c.errorf(x.Pos(), "unreachable statements after if")
		}
		return pre + fmt.Sprintf("if %s then (\n%s\n) else (\n%s\n)", cond,
			c.sub().stmts(x.Body.List, tail), c.sub().stmts(elseList, tail))
	case thenT:
		return pre + fmt.Sprintf("if %s then (\n%s\n) else (\n%s\n)", cond,
			c.sub().stmts(x.Body.List, tail), c.sub().stmts(append(elseList, rest...), tail))
	case elseT:
		return pre + fmt.Sprintf("if %s then (\n%s\n) else (\n%s\n)", cond,
			c.sub().stmts(append(append([]ast.Stmt{}, x.Body.List...), rest...), tail), c.sub().stmts(elseList, tail))
	}
	w := c.assigned(x)
	if len(w) == 0 {
		return pre + c.stmts(rest, tail)
	}
	wt := tuple(w)
	pat := wt
	if len(w) > 1 {
		pat = "'" + wt
	}
	return pre + fmt.Sprintf("let %s := if %s then (\n%s\n) else (\n%s\n) in\n", pat, cond,
		c.sub().stmts(x.Body.List, wt), c.sub().stmts(elseList, wt)) + c.stmts(rest, tail)
}

func (c *fctx) assign(x *ast.AssignStmt) {
	if x.Tok != token.ASSIGN && x.Tok != token.DEFINE {
		// op=
		var op token.Token
		switch x.Tok {
		case token.ADD_ASSIGN:
			op = token.ADD
		case token.SUB_ASSIGN:
			op = token.SUB
		case token.OR_ASSIGN:
			op = token.OR
		case token.AND_ASSIGN:
			op = token.AND
		case token.XOR_ASSIGN:
			op = token.XOR
		case token.AND_NOT_ASSIGN:
			op = token.AND_NOT
		case token.SHL_ASSIGN:
			op = token.SHL
		case token.SHR_ASSIGN:
			op = token.SHR
		default:
			c.errorf(x.Pos(), "unsupported assignment operator %s", x.Tok)
			return
		}
		be := &ast.BinaryExpr{X: x.Lhs[0], Op: op, Y: x.Rhs[0], OpPos: x.TokPos}
		ty := c.t.info.Types[x.Lhs[0]].Type
		// evaluate as lhs op rhs with the type of lhs
		c.t.info.Types[be] = types.TypeAndValue{Type: ty}
		v := c.binary(be, ty)
		c.writeLV(c.lv(x.Lhs[0]), v, x.Pos())
		return
	}
	var vals []string
	if len(x.Rhs) == 1 && len(x.Lhs) > 1 {
		call, ok := x.Rhs[0].(*ast.CallExpr)
		if !ok {
			c.errorf(x.Pos(), "multi-value assignment from a non-call")
			return
		}
		vals = c.call(call)
	} else {
		vals = c.evalList(x.Rhs)
		if len(vals) > 1 {
			// parallel assignment: all right-hand sides are evaluated first
			for i, v := range vals {
				tn := c.fresh()
				c.bind(tn, v)
				vals[i] = tn
			}
		}
	}
	if len(vals) != len(x.Lhs) {
		c.errorf(x.Pos(), "assignment count mismatch")
		return
	}
	for i, l := range x.Lhs {
		if id, ok := l.(*ast.Ident); ok {
			if id.Name == "_" {
				continue
			}
			if v, ok := c.t.info.Defs[id].(*types.Var); ok && x.Tok == token.DEFINE {
				ct := c.t.coqType(v.Type())
				val := vals[i]
				// storing a *im0data into a Memory-typed variable
				c.bind(c.varName(v), val)
				c.scope = append(c.scope, scopeVar{c.varName(v), ct})
				continue
			}
		}
		lv := c.lv(l)
		val := vals[i]
		if c.t.coqType(lv.typ) == "MemRef" && c.t.coqType(c.t.info.Types[x.Rhs[minInt(i, len(x.Rhs)-1)]].Type) == "im0data" {
			val = "Im0Mem " + paren(val)
		}
		c.writeLV(lv, val, x.Pos())
	}
}

func minInt(a, b int) int {
	if a < b {
		return a
	}
	return b
}

func (c *fctx) switchStmt(x *ast.SwitchStmt, tail string) string {
	pre := ""
	if x.Init != nil {
		as, ok := x.Init.(*ast.AssignStmt)
		if !ok {
			c.errorf(x.Pos(), "unsupported switch init")
			return tail
		}
		c.assign(as)
		pre = c.flush()
	}
	if x.Tag == nil {
		c.errorf(x.Pos(), "tagless switch")
		return tail
	}
	tag := c.expr(x.Tag)
	pre += c.flush()
	tagT := c.t.info.Types[x.Tag].Type
	type arm struct {
		vals []string
		body string
	}
	var arms []arm
	def := tail
	ncase := 0
	for _, cc := range x.Body.List {
		cl := cc.(*ast.CaseClause)
		for _, s := range cl.Body {
			if b, ok := s.(*ast.BranchStmt); ok {
				c.errorf(b.Pos(), "branch statement (%s) in switch", b.Tok)
			}
		}
		sc := c.sub()
		if len(cl.List) == 1 {
			if tv := c.t.info.Types[cl.List[0]]; tv.Value != nil {
				var n int
				fmt.Sscan(tv.Value.ExactString(), &n)
				sc.casePath = append(append([]string{}, c.casePath...), fmt.Sprintf("%02x", n))
			}
		}
		body := sc.stmts(cl.Body, tail)
		if cl.List == nil {
			def = body
			continue
		}
		var vs []string
		for _, e := range cl.List {
			tv := c.t.info.Types[e]
			if tv.Value == nil {
				c.errorf(e.Pos(), "non-constant case")
				continue
			}
			vs = append(vs, tv.Value.ExactString())
			ncase++
		}
		arms = append(arms, arm{vs, body})
	}
	if basicKind(tagT) == types.Uint8 && ncase > 8 {
		// lifted 256-way dispatch
		c.t.nsw++
		name := c.fn.name + "_main"
		if len(c.casePath) > 0 {
			name = c.fn.name + "_" + strings.Join(c.casePath, "")
		}
		var ps, as []string
		if c.fn.needCPU {
			ps = append(ps, "(cpu : CPU)")
			as = append(as, "cpu")
		}
		for _, sv := range c.scope {
			ps = append(ps, fmt.Sprintf("(%s : %s)", sv.name, sv.typ))
			as = append(as, sv.name)
		}
		var b strings.Builder
		fmt.Fprintf(&b, "Definition %s %s (tag_ : Z) :=\n  match byte_of_Z tag_ with\n", name, strings.Join(ps, " "))
		seen := map[string]bool{}
		for _, a := range arms {
			var pats []string
			for _, v := range a.vals {
				var n int
				fmt.Sscan(v, &n)
				p := fmt.Sprintf("x%02x", n)
				if seen[p] {
					c.errorf(x.Pos(), "duplicate case %s", p)
				}
				seen[p] = true
				pats = append(pats, p)
			}
			fmt.Fprintf(&b, "  | %s =>\n%s\n", strings.Join(pats, " | "), indent(a.body, "      "))
		}
		if len(seen) < 256 {
			fmt.Fprintf(&b, "  | _ =>\n%s\n", indent(def, "      "))
		}
		b.WriteString("  end.\n")
		c.t.lifted = append(c.t.lifted, b.String())
		c.t.swNames = append(c.t.swNames, name)
		return pre + fmt.Sprintf("%s %s %s", name, strings.Join(as, " "), paren(tag))
	}
	// small switch: if-chain
	out := def
	for i := len(arms) - 1; i >= 0; i-- {
		var conds []string
		for _, v := range arms[i].vals {
			conds = append(conds, fmt.Sprintf("(%s =? %s)", paren(tag), v))
		}
		out = fmt.Sprintf("if %s then (\n%s\n) else (\n%s\n)", strings.Join(conds, " || "), arms[i].body, out)
	}
	return pre + out
}

func indent(s, pad string) string {
	lines := strings.Split(s, "\n")
	for i := range lines {
		if lines[i] != "" {
			lines[i] = pad + lines[i]
		}
	}
	return strings.Join(lines, "\n")
}
