package main

import (
	"go/ast"
	"go/token"
	"go/types"
	"path/filepath"
	"sort"
	"strings"
)

type Fn struct {
	obj  *types.Func
	decl *ast.FuncDecl
	name string
	file string

	cpuVar   *types.Var // the *CPU receiver/parameter, if any
	selfVar  *types.Var // receiver of a non-CPU struct type
	selfPtr  bool
	selfType string
	params   []*types.Var // remaining parameters, in order
	lensPar  map[*types.Var]bool
	results  []*types.Var

	callees map[*types.Func]bool
	world   bool // touches the modelled world (memory, IO, handlers, log, panics)
	wrCPU   bool // returns an updated CPU
	wrSelf  bool // returns an updated receiver value
	needCPU bool // takes a CPU argument (explicit or implicit)
	done    bool
	visited bool
}

func (t *Tr) isCPUPtr(ty types.Type) bool {
	p, ok := ty.(*types.Pointer)
	if !ok {
		return false
	}
	n, ok := p.Elem().(*types.Named)
	return ok && n.Obj() == t.cpuT.Obj()
}

func isPtr(ty types.Type) bool { _, ok := ty.(*types.Pointer); return ok }

func (t *Tr) collectFuncs() {
	for _, f := range t.files {
		fname := filepath.Base(t.fset.Position(f.Pos()).Filename)
		if _, skip := skipFiles[fname]; skip {
			continue
		}
		for _, d := range f.Decls {
			fd, ok := d.(*ast.FuncDecl)
			if !ok || fd.Body == nil {
				continue
			}
			if _, skip := skipFuncs[fd.Name.Name]; skip {
				continue
			}
			obj := t.info.Defs[fd.Name].(*types.Func)
			sig := obj.Type().(*types.Signature)
			fn := &Fn{obj: obj, decl: fd, file: fname, lensPar: map[*types.Var]bool{}, callees: map[*types.Func]bool{}}
			fn.name = fd.Name.Name
			if r := sig.Recv(); r != nil {
				if t.isCPUPtr(r.Type()) {
					fn.cpuVar = r
				} else {
					fn.selfVar = r
					rt := r.Type()
					if p, ok := rt.(*types.Pointer); ok {
						fn.selfPtr = true
						rt = p.Elem()
					}
					fn.selfType = rt.(*types.Named).Obj().Name()
					fn.name = fn.selfType + "_" + fd.Name.Name
				}
			}
			for i := 0; i < sig.Params().Len(); i++ {
				p := sig.Params().At(i)
				if t.isCPUPtr(p.Type()) {
					if fn.cpuVar != nil {
						t.errorf(fd.Pos(), "%s: two CPU pointers", fn.name)
					}
					fn.cpuVar = p
					continue
				}
				if isPtr(p.Type()) {
					fn.lensPar[p] = true
				}
				fn.params = append(fn.params, p)
			}
			for i := 0; i < sig.Results().Len(); i++ {
				fn.results = append(fn.results, sig.Results().At(i))
			}
			fn.name = ident(fn.name)
			t.fns[obj] = fn
		}
	}
}

// external effects: calls that reach the user's Memory / IO / handlers / log
func (t *Tr) externalCall(call *ast.CallExpr) (string, bool) {
	sel, ok := call.Fun.(*ast.SelectorExpr)
	if !ok {
		return "", false
	}
	s := t.info.Selections[sel]
	if s == nil {
		return "", false
	}
	recvT := s.Recv()
	if n, ok := recvT.(*types.Named); ok {
		if _, isIface := n.Underlying().(*types.Interface); isIface {
			return n.Obj().Name() + "." + sel.Sel.Name, true
		}
	}
	if f, ok := s.Obj().(*types.Func); ok && f.Name() == "warnf" {
		return "warnf", true
	}
	return "", false
}

func (t *Tr) analyse() {
	// direct facts
	for _, fn := range t.fns {
		fn := fn
		ast.Inspect(fn.decl.Body, func(n ast.Node) bool {
			switch x := n.(type) {
			case *ast.CallExpr:
				if _, ext := t.externalCall(x); ext {
					fn.world = true
					return true
				}
				if f := t.calleeOf(x); f != nil {
					fn.callees[f] = true
				}
			case *ast.IndexExpr:
				fn.world = true // bounds check may panic: logged in the world
			case *ast.AssignStmt:
				for _, l := range x.Lhs {
					t.noteWrite(fn, l)
				}
			case *ast.IncDecStmt:
				t.noteWrite(fn, x.X)
			case *ast.StarExpr:
			case *ast.ForStmt, *ast.RangeStmt, *ast.GoStmt, *ast.DeferStmt, *ast.SelectStmt, *ast.FuncLit, *ast.SendStmt, *ast.LabeledStmt:
				t.errorf(n.Pos(), "%s: construct outside the translated subset (%T)", fn.name, n)
			}
			return true
		})
		// dereference of cpu.Interrupt may panic
		ast.Inspect(fn.decl.Body, func(n ast.Node) bool {
			if se, ok := n.(*ast.SelectorExpr); ok {
				if tv, ok := t.info.Types[se.X]; ok {
					if p, ok := tv.Type.(*types.Pointer); ok {
						if nn, ok := p.Elem().(*types.Named); ok && nn.Obj().Name() == "Interrupt" {
							fn.world = true
						}
					}
				}
			}
			return true
		})
	}
	for _, fn := range t.fns {
		if fn.cpuVar != nil && len(fn.results) == 0 {
			fn.wrCPU = true // a procedure on the CPU is a CPU transformer, even when it does nothing
		}
	}
	// fixed point over the call graph
	for changed := true; changed; {
		changed = false
		for _, fn := range t.fns {
			for c := range fn.callees {
				cf := t.fns[c]
				if cf == nil {
					continue
				}
				if cf.world && !fn.world {
					fn.world, changed = true, true
				}
				if cf.wrCPU && !fn.wrCPU {
					fn.wrCPU, changed = true, true
				}
			}
			if fn.world && !fn.wrCPU {
				fn.wrCPU, changed = true, true
			}
		}
	}
	for _, fn := range t.fns {
		fn.needCPU = fn.cpuVar != nil || fn.wrCPU
	}
	// topological order, deterministic
	var names []*Fn
	for _, fn := range t.fns {
		names = append(names, fn)
	}
	sort.Slice(names, func(i, j int) bool {
		if names[i].file != names[j].file {
			return names[i].file < names[j].file
		}
		return names[i].decl.Pos() < names[j].decl.Pos()
	})
	var visit func(fn *Fn, stack []string)
	visit = func(fn *Fn, stack []string) {
		if fn.done {
			return
		}
		if fn.visited {
			t.errorf(fn.decl.Pos(), "recursion: %s", strings.Join(append(stack, fn.name), " -> "))
			return
		}
		fn.visited = true
		var cs []*Fn
		for c := range fn.callees {
			if cf := t.fns[c]; cf != nil {
				cs = append(cs, cf)
			}
		}
		sort.Slice(cs, func(i, j int) bool { return cs[i].name < cs[j].name })
		for _, c := range cs {
			visit(c, append(stack, fn.name))
		}
		fn.done = true
		t.order = append(t.order, fn)
	}
	for _, fn := range names {
		visit(fn, nil)
	}
}

func (t *Tr) calleeOf(call *ast.CallExpr) *types.Func {
	var id *ast.Ident
	switch f := call.Fun.(type) {
	case *ast.Ident:
		id = f
	case *ast.SelectorExpr:
		id = f.Sel
	default:
		return nil
	}
	if f, ok := t.info.Uses[id].(*types.Func); ok && f.Pkg() == t.pkg {
		return f
	}
	return nil
}

// rootVar returns the variable at the root of an lvalue/selector chain
// (through *p and field selections).
func (t *Tr) rootVar(e ast.Expr) *types.Var {
	for {
		switch x := e.(type) {
		case *ast.Ident:
			v, _ := t.info.Uses[x].(*types.Var)
			if v == nil {
				v, _ = t.info.Defs[x].(*types.Var)
			}
			return v
		case *ast.SelectorExpr:
			e = x.X
		case *ast.StarExpr:
			e = x.X
		case *ast.ParenExpr:
			e = x.X
		case *ast.IndexExpr:
			e = x.X
		default:
			return nil
		}
	}
}

func (t *Tr) noteWrite(fn *Fn, lhs ast.Expr) {
	if id, ok := lhs.(*ast.Ident); ok && (id.Name == "_" || t.info.Defs[id] != nil) {
		return
	}
	v := t.rootVar(lhs)
	if v == nil {
		t.errorf(lhs.Pos(), "%s: cannot find the root of assignment target", fn.name)
		return
	}
	switch {
	case v == fn.cpuVar:
		fn.wrCPU = true
	case fn.lensPar[v]:
		if _, plain := lhs.(*ast.Ident); !plain {
			fn.wrCPU = true
		}
	case v == fn.selfVar && fn.selfPtr:
		if _, plain := lhs.(*ast.Ident); !plain {
			fn.wrSelf = true
		}
	case v.Parent() == t.pkg.Scope():
		t.errorf(lhs.Pos(), "%s: write to package-level variable %s", fn.name, v.Name())
	}
}

var _ = token.NoPos
