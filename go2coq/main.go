// go2coq translates the loop-free core of github.com/koron-go/z80 into Gallina
// (a shallow, state-passing embedding).  See /verif/DESIGN.md section 3.
//
// usage: go2coq -repo /repo -out /verif/coq/theories/Gen
package main

import (
	"flag"
	"fmt"
	"go/ast"
	"go/importer"
	"go/parser"
	"go/token"
	"go/types"
	"os"
	"path/filepath"
	"sort"
	"strings"
)

type Tr struct {
	fset  *token.FileSet
	info  *types.Info
	pkg   *types.Package
	files []*ast.File
	fns   map[*types.Func]*Fn
	order []*Fn // call-graph order (callees first)
	cpuT  *types.Named
	// CPU-rooted paths, keyed by dotted field-index path
	paths map[string]*Path
	// lifted switch definitions, in emission order
	lifted  []string
	swNames []string
	nsw     int
	errs    []string
}

func (t *Tr) errorf(pos token.Pos, format string, a ...interface{}) {
	t.errs = append(t.errs, fmt.Sprintf("%s: %s", t.fset.Position(pos), fmt.Sprintf(format, a...)))
}

// functions that are deliberately not translated (reason given); anything else
// that cannot be translated is an error.
var skipFuncs = map[string]string{
	"Run":          "loop + goroutine: matched against a fixed pattern, see run.go",
	"warnf":        "external effect (log.Printf): primitive warnf",
	"NMIInterrupt": "constructor (allocation), not reachable from Step",
	"IM0Interrupt": "constructor (allocation), not reachable from Step",
	"IM1Interrupt": "constructor (allocation), not reachable from Step",
	"IM2Interrupt": "constructor (allocation), not reachable from Step",
}

// source files whose declarations are outside the translated set
var skipFiles = map[string]string{
	"memio.go": "slices/maps/reflect: hand model (C15)",
}

func main() {
	repo := flag.String("repo", "/repo", "repository root")
	out := flag.String("out", "", "output directory")
	flag.Parse()
	t := &Tr{fset: token.NewFileSet(), fns: map[*types.Func]*Fn{}, paths: map[string]*Path{}}
	pkgs, err := parser.ParseDir(t.fset, *repo, func(fi os.FileInfo) bool {
		return !strings.HasSuffix(fi.Name(), "_test.go")
	}, parser.ParseComments)
	if err != nil {
		fatal("parse: %v", err)
	}
	p, ok := pkgs["z80"]
	if !ok {
		fatal("package z80 not found in %s", *repo)
	}
	var names []string
	for n := range p.Files {
		names = append(names, n)
	}
	sort.Strings(names)
	for _, n := range names {
		t.files = append(t.files, p.Files[n])
	}
	t.info = &types.Info{
		Types: map[ast.Expr]types.TypeAndValue{}, Defs: map[*ast.Ident]types.Object{},
		Uses: map[*ast.Ident]types.Object{}, Selections: map[*ast.SelectorExpr]*types.Selection{},
		Implicits: map[ast.Node]types.Object{},
	}
	conf := types.Config{Importer: importer.ForCompiler(t.fset, "source", nil)}
	t.pkg, err = conf.Check("github.com/koron-go/z80", t.fset, t.files, t.info)
	if err != nil {
		fatal("typecheck: %v", err)
	}
	t.checkGlobals()
	typesV := t.genTypes()
	t.collectFuncs()
	t.analyse()
	memV, funcsV, execV := t.genFuncs()
	runV := t.genRun()
	if len(t.errs) > 0 {
		for _, e := range t.errs {
			fmt.Fprintln(os.Stderr, "go2coq:", e)
		}
		os.Exit(1)
	}
	write := func(name, body string) {
		path := filepath.Join(*out, name)
		old, err := os.ReadFile(path)
		if err == nil && string(old) == body {
			return
		}
		if err := os.WriteFile(path, []byte(body), 0o644); err != nil {
			fatal("%v", err)
		}
	}
	if *out == "" {
		fmt.Print(typesV, memV, funcsV, execV, runV)
		return
	}
	os.MkdirAll(*out, 0o755)
	write("Types.generated", typesV)
	write("Mem.v", memV)
	write("Funcs.v", funcsV)
	write("Exec.v", execV)
	write("Run.v", runV)
	write("Names.v", t.genNames())
}

func fatal(format string, a ...interface{}) {
	fmt.Fprintf(os.Stderr, "go2coq: "+format+"\n", a...)
	os.Exit(1)
}

// package-level mutable state would make Step depend on more than the CPU
// record: refuse it (C10).  Allowed: ErrBreakPoint and blank interface checks.
func (t *Tr) checkGlobals() {
	for _, f := range t.files {
		fname := filepath.Base(t.fset.Position(f.Pos()).Filename)
		for _, d := range f.Decls {
			gd, ok := d.(*ast.GenDecl)
			if !ok || gd.Tok != token.VAR {
				continue
			}
			for _, s := range gd.Specs {
				vs := s.(*ast.ValueSpec)
				for _, n := range vs.Names {
					if n.Name == "_" || n.Name == "ErrBreakPoint" {
						continue
					}
					if _, skip := skipFiles[fname]; skip {
						continue
					}
					t.errorf(n.Pos(), "package-level variable %s: execution would depend on state outside the CPU record", n.Name)
				}
			}
		}
	}
}

var reserved = map[string]bool{"as": true, "at": true, "cofix": true, "else": true, "end": true, "exists": true,
	"exists2": true, "fix": true, "for": true, "forall": true, "fun": true, "if": true, "IF": true, "in": true,
	"let": true, "match": true, "mod": true, "Prop": true, "return": true, "Set": true, "then": true, "Type": true,
	"using": true, "where": true, "with": true, "or": true, "and": true, "not": true, "nat": true, "bool": true,
	"list": true, "true": true, "false": true, "fst": true, "snd": true, "bit": true, "byte": true, "cpu": false}

func ident(s string) string {
	if reserved[s] {
		return s + "_"
	}
	return s
}
