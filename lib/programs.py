"""Generated Z80 programs for the multi-step checks (C07-C10, C13)."""
from .pipeline import step_line

ORG = 0x0100


def gen_program(rng, n=18, io=True, blocks=True, calls=True, eidi=True):
    """a terminating program: straight-line code, bounded loops, calls, block instructions, final HALT.
    returns (mem dict, halt_addr, multibyte_addrs)"""
    code = []
    multi = []
    subs = []
    def emit(bs):
        if len(bs) > 1:
            multi.append(ORG + len(code))
        code.extend(bs)
    emit([0x31, 0x00, 0xF0])  # LD SP,F000
    for _ in range(n):
        k = rng.below(17)
        if k == 0:
            emit([rng.choice([0x06, 0x0E, 0x16, 0x1E, 0x26, 0x2E, 0x3E]), rng.below(256)])
        elif k == 1:
            emit([rng.choice([0x01, 0x11, 0x21]), rng.below(256), rng.below(0x40) + 0x40])
        elif k == 2:
            emit([0x80 + rng.below(64)])
        elif k == 3:
            emit([rng.choice([0x04, 0x0C, 0x14, 0x1C, 0x24, 0x2C, 0x3C, 0x05, 0x0D, 0x15, 0x1D, 0x25, 0x2D, 0x3D])])
        elif k == 4:
            p = rng.choice([0xC5, 0xD5, 0xE5, 0xF5])
            emit([p]); emit([rng.choice([0x3C, 0x04, 0x23, 0x00])]); emit([p - 4])
        elif k == 5 and calls:
            a = 0x0800 + 16 * len(subs)
            subs.append((a, [rng.choice([0x3C, 0x04, 0x2F, 0x00]), rng.choice([0x00, 0x0C]), 0xC9]))
            emit([0xCD, a & 255, a >> 8])
        elif k == 6:
            cnt = rng.below(5) + 1
            emit([0x06, cnt]); emit([0x3C]); emit([0x10, 0xFD])  # LD B,n ; loop: INC A ; DJNZ loop
        elif k == 7 and blocks:
            cnt = rng.below(6) + 1
            emit([0x21, 0x00, 0x40]); emit([0x11, rng.choice([0x01, 0x10, 0x00]), 0x40 + rng.below(2)]); emit([0x01, cnt, 0x00])
            emit([0xED, rng.choice([0xB0, 0xB8, 0xA0, 0xA8])])
        elif k == 8 and blocks:
            emit([0x21, 0x00, 0x40]); emit([0x01, rng.below(6) + 1, 0x00]); emit([0x3E, rng.below(4)]); emit([0xED, rng.choice([0xB1, 0xB9, 0xA1])])
        elif k == 9 and io:
            emit([0xD3, rng.below(256)] if rng.chance(1, 2) else [0xDB, rng.below(256)])
        elif k == 10 and io and blocks:
            emit([0x21, 0x00, 0x41]); emit([0x01, rng.below(256), rng.below(4) + 1]); emit([0xED, rng.choice([0xB3, 0xBB, 0xB2, 0xBA, 0xA3])])
        elif k == 11 and eidi:
            emit([rng.choice([0xFB, 0xF3])])
        elif k == 12:
            emit([0xCB, rng.below(256)])
        elif k == 13:
            emit([rng.choice([0xDD, 0xFD]), rng.choice([0x23, 0x2B, 0x24, 0x2C, 0x7C, 0x65])])
        elif k == 14:
            emit([0x18, 0x01]); emit([0x76])  # JR +1 over a HALT
        elif k == 16:
            # BIT n,(IX+d) / BIT n,(IY+d) / BIT n,(HL): read-only, but they exercise whatever the CPU remembers between them
            if rng.chance(1, 2):
                emit([rng.choice([0xDD, 0xFD]), 0xCB, rng.below(256), 0x46 + 8 * rng.below(8)])
            else:
                emit([0xCB, 0x46 + 8 * rng.below(8)])
        else:
            emit([rng.choice([0x00, 0x07, 0x0F, 0x17, 0x1F, 0x27, 0x2F, 0x37, 0x3F, 0x08, 0xD9, 0xEB])])
    halt = ORG + len(code)
    code.append(0x76)
    mem = {ORG + i: b for i, b in enumerate(code)}
    for a, bs in subs:
        for i, b in enumerate(bs):
            mem[a + i] = b
    for i in range(16):
        mem[0x4000 + i] = rng.below(256)
    return mem, halt, multi


def handlers(mem, rng):
    """interrupt handlers that preserve registers: IM1 at 0x38, NMI at 0x66, IM2 vector table at I=0x40.."""
    mem.update({0x38: 0xFB, 0x39: 0xED, 0x3A: 0x4D})           # EI ; RETI
    mem.update({0x66: 0xED, 0x67: 0x45})                       # RETN
    mem.update({0x3F10: 0x00, 0x3F11: 0x30, 0x3000: 0xF5, 0x3001: 0xF1, 0x3002: 0xFB, 0x3003: 0xED, 0x3004: 0x4D})  # PUSH AF; POP AF; EI; RETI
    return mem


def start_state(rng, iff=0, im=1):
    st = {k: rng.below(256) for k in ["A", "F", "B", "C", "D", "E", "H", "L", "A'", "F'", "B'", "C'", "D'", "E'", "H'", "L'", "R"]}
    st.update(I=0x3F, IX=rng.below(65536), IY=rng.below(65536), SP=0xF000, PC=ORG, IFF1=iff, IFF2=iff, IM=im, HALT=0)
    return st


def run_line(cid, st, mem, maxsteps=200000, bps=None, cancel=0, ms=0, nruns=1, trig=(0, 0, []), inputs=(), sched=(), tracemode=1, fill=0x76):
    base = step_line(cid, st, mem=sorted(mem.items()), fill=fill, nsteps=maxsteps, inputs=inputs, sched=sched, tracemode=tracemode)
    t = ["run"] + base.split()[1:]
    if bps is None:
        t.append("-1")
    else:
        t.append(str(len(bps)))
        t += [str(b) for b in bps]
    t += [str(cancel), str(ms), str(nruns), str(trig[0]), str(trig[1]), str(len(trig[2]))] + [str(x) for x in trig[2]]
    return " ".join(t)
