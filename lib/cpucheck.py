"""The check flow shared by the CPU properties (C01-C14):
proof stage (regenerate Gen/, build Props/<id>.vo) -> correspondence Gen-vs-Go -> on any break:
search Go-vs-Spec for a failing input in the property's own domain -> VIOLATION / evidence."""
import json
import os
import time

from . import common, pipeline, cases
from .pipeline import FIELDS


# ---------------------------------------------------------------- opcode families (for generators)
def family(table, c):
    x, y, z = c >> 6, (c >> 3) & 7, c & 7
    p, q = y >> 1, y & 1
    if table in ("main", "dd", "fd"):
        if table != "main":
            impl = (0x40 <= c <= 0xBF and c != 0x76) or c in (0x09, 0x19, 0x29, 0x39, 0x21, 0x22, 0x23, 0x24, 0x25, 0x26,
                                                             0x2A, 0x2B, 0x2C, 0x2D, 0x2E, 0x34, 0x35, 0x36, 0xE1, 0xE3, 0xE5, 0xE9, 0xF9)
            if not impl:
                return "invalid"
        if x == 0:
            if z == 0:
                return "misc" if y < 2 else "jump"
            if z == 1:
                return "ld16" if q == 0 else "arith16"
            if z == 2:
                return "ld16" if p == 2 else "ld8"
            if z == 3:
                return "incdec16"
            if z in (4, 5):
                return "incdec8"
            if z == 6:
                return "ld8"
            return "alu8"  # RLCA.. DAA CPL SCF CCF
        if x == 1:
            return "misc" if c == 0x76 else "ld8"
        if x == 2:
            return "alu8"
        if z == 0:
            return "ret"
        if z == 1:
            return "pop" if q == 0 else ("ret" if p == 0 else "ex" if p == 1 else "jump" if p == 2 else "ld16")
        if z == 2:
            return "jump"
        if z == 3:
            return ["jump", "prefix", "io", "io", "ex", "ex", "misc", "misc"][y]
        if z == 4:
            return "call"
        if z == 5:
            return "push" if q == 0 else ("call" if p == 0 else "prefix")
        if z == 6:
            return "alu8"
        return "call"  # RST
    if table == "cb":
        return "rot" if x == 0 else "bit"
    if table in ("ddcb", "fdcb"):
        if z != 6:
            return "invalid"
        return "rot" if x == 0 else "bit"
    if table == "ed":
        if x == 1:
            if z in (0, 1):
                return "io" if y != 6 else "invalid"
            if z == 2:
                return "arith16"
            if z == 3:
                return "ld16"
            if z == 4:
                return "alu8" if y == 0 else "invalid"
            if z == 5:
                return "ret" if y in (0, 1) else "invalid"
            if z == 6:
                return "misc" if y in (0, 2, 3) else "invalid"
            return ["ld8", "ld8", "ld8", "ld8", "alu8", "alu8", "invalid", "invalid"][y]
        if x == 2 and y >= 4 and z <= 3:
            return "block"
        return "invalid"
    return "invalid"


def encodings_of(fams):
    return [e for e in cases.encodings() if family(e[0], e[1]) in fams]


# ---------------------------------------------------------------- projections
def project(diffs, keep):
    """keep: None = everything, else a predicate on the field name."""
    if keep is None:
        return diffs
    return [d for d in diffs if keep(d[0])]


def fields(*names):
    s = set(names)
    return lambda n: n.split("&")[0] in s or (n.startswith("event") and "event" in s) or (n.startswith("accesses") and "accesses" in s)


# ---------------------------------------------------------------- the flow
def run(prop, tier, seed, gen_lines, keep=None, rule="", assumptions=(), search_lines=None, extra_evidence=None,
        findings_check=None, corr_keep=None):
    t0 = time.time()
    rng = common.Rng(seed)
    pr = pipeline.proof_stage(prop)
    try:
        go_bin = pipeline.build_stepper()
    except common.GoBuildError as e:
        common.violation(prop, {"property": prop, "broken": "the Go harness no longer builds against the repository",
                                "detail": str(e)[-1500:], "input": None}, found_input=False)
        return 1
    lines, meta = gen_lines(rng, tier)
    broken, detail = pr["broken"], pr["detail"]
    corr = []
    if not broken:
        drv = pipeline.build_driver()
        corr, _ = pipeline.compare(lines, go_bin, drv, model=0)
        if corr_keep is not None:
            corr = [(i, l, project(d, corr_keep)) for (i, l, d) in corr]
            corr = [c for c in corr if c[2]]
        if corr:
            broken = "correspondence: the generated model and the real code differ on %d of %d cases" % (len(corr), len(lines))
            detail = "%s: %s" % (meta.get(corr[0][0], ""), corr[0][2][:4])
    # listed findings are replayed and reported, never suppress anything else
    known = []
    if findings_check:
        known = findings_check(go_bin)
    for f in common.load_findings(prop):
        if f.get("status") == "open" and not findings_check:
            common.known_finding_line(prop, f.get("text", f.get("id")))
    if broken:
        sdrv = pipeline.build_spec_driver()
        pool = list(lines)
        if search_lines:
            more, m2 = search_lines(rng, tier)
            # ids of the search pool must not collide with those of the correspondence cases
            for l in more:
                t = l.split(" ", 2)
                pool.append(t[0] + " S" + t[1] + " " + t[2])
            meta.update({"S" + k: v for k, v in m2.items()})
        found = None
        for k in range(0, len(pool), 4000):
            chunk = pool[k:k + 4000]
            mism, _ = pipeline.compare(chunk, go_bin, sdrv, spec_masks=True)
            for (i, l, d) in mism:
                dd = project(d, keep)
                if dd and not is_known(prop, l, dd, known):
                    found = (i, l, dd)
                    break
            if found:
                break
        rep = {"property": prop, "broken": broken, "detail": detail, "tier": tier, "seed": seed,
               "repo": common.repo_describe()}
        if found:
            i, l, dd = found
            l = minimise(l, go_bin, sdrv, keep)
            mism, go = pipeline.compare([l], go_bin, sdrv, spec_masks=True)
            dd = project(mism[0][2], keep) if mism else dd
            rep["input"] = {"case": l, "about": str(meta.get(i, "")),
                            "differs": [{"field": a, "real_code": b, "specification": c} for a, b, c in dd],
                            "format": "see lib/pipeline.py step_line: step id model n trace 26 regs iff1 iff2 im halt io reti retn nsched.. fill nmem (addr val)* ninputs vals"}
            common.violation(prop, rep)
        else:
            rep["input"] = None
            rep["searched"] = {"cases": len(pool), "oracle": "extracted specification (Spec/Exec.v), property-relevant projection"}
            common.violation(prop, rep, found_input=False)
        return 1
    fam = {}
    for i in meta:
        k = str(meta[i])[:40]
    dist = {}
    for i, m in meta.items():
        key = m[0] if isinstance(m, (tuple, list)) else str(m)
        dist[key] = dist.get(key, 0) + 1
    distinct = len(set(" ".join(l.split()[2:]) for l in lines))
    cov = {
        "obligations": pr["obligations"], "discharged": pr["obligations"],
        "checker_cmd": "go2coq (regenerate Gen/) ; make theories/Props/%s.vo (coqc, full .vo) ; coqc theories/Props/%s.v (Print Assumptions)" % (prop, prop),
        "trusted_base": pipeline.TRUSTED_BASE,
        "theorems_closed_under_global_context": pr["closed"], "axioms": pr["axioms"],
        "evaluations": len(lines), "distinct_nontrivial": distinct,
        "rule": rule or "single Steps of the real code vs the extracted generated model on structured random states; "
                        "distinct = distinct (state, memory, inputs) lines; every case executes at least one instruction",
        "distribution": dist, "samples": lines[:2] + lines[-1:],
        "proof_files": len(pr["files"]), "known_findings_reported": known,
    }
    if extra_evidence:
        cov.update(extra_evidence)
    common.write_evidence(prop, tier, seed, "proof", cov, list(assumptions) or [
        "machine states are well formed (every field within its Go type)",
        "memory is a plain byte store; the device is a deterministic input stream"], time.time() - t0)
    return 0


def is_known(prop, line, diffs, known):
    return False


def minimise(line, go_bin, sdrv, keep):
    """greedy: zero registers / drop memory bytes while the relevant mismatch persists."""
    def bad(l):
        try:
            mism, _ = pipeline.compare([l], go_bin, sdrv, spec_masks=True)
        except Exception:
            return False
        return bool(mism and project(mism[0][2], keep))
    t = line.split()
    if t[0] != "step" or not bad(line):
        return line
    base = 5
    for k in range(base, base + 22):  # registers
        if t[k] != "0":
            old = t[k]
            t[k] = "0"
            if not bad(" ".join(t)):
                t[k] = old
    return " ".join(t)


def replay(prop, path, keep=None):
    rep = json.load(open(path))
    if not rep.get("input"):
        print("no concrete input stored; broken:", rep.get("broken"))
        return 1
    go_bin = pipeline.build_stepper()
    sdrv = pipeline.build_spec_driver()
    l = rep["input"]["case"]
    mism, go = pipeline.compare([l], go_bin, sdrv, spec_masks=True)
    dd = project(mism[0][2], keep) if mism else []
    print("case:", l)
    for a, b, c in dd:
        print("  %s: real code %s, specification %s" % (a, b, c))
    print("still failing" if dd else "passes now")
    return 1 if dd else 0


def std_gen(fams, per_quick=3, per_thorough=60, **kw):
    """generator: every encoding of the given families x N structured random states."""
    def gen(rng, tier):
        encs = encodings_of(fams) if fams else cases.encodings()
        n = per_thorough if tier == "thorough" else per_quick
        lines, meta = [], {}
        k = 0
        for e in encs:
            for _ in range(n):
                cid = "c%d" % k
                k += 1
                lines.append(cases.make_case(rng, cid, e, **kw))
                meta[cid] = (e[0], "%02X" % e[1])
        return lines, meta
    return gen


def sweep_gen(fams=None, coins=(-2, -1, 0, 1, 2, 3, 4, 5), nodev=True):
    """deterministic additions to a search pool: every encoding with all pointers at PC+k (k in coins), and every encoding once
    with no device attached."""
    def gen(rng, tier):
        encs = encodings_of(fams) if fams else cases.encodings()
        lines, meta, k = [], {}, 0
        for e in encs:
            for c in coins:
                cid = "w%d" % k; k += 1
                lines.append(cases.make_case(rng, cid, e, coin=c)); meta[cid] = (e[0], "%02X coin=%d" % (e[1], c))
            if nodev:
                cid = "w%d" % k; k += 1
                lines.append(cases.make_case(rng, cid, e, io=0)); meta[cid] = (e[0], "%02X nodev" % e[1])
        return lines, meta
    return gen


def join_gens(*gens):
    def gen(rng, tier):
        lines, meta = [], {}
        for j, g in enumerate(gens):
            l, m = g(rng, tier)
            for x in l:
                t = x.split(" ", 2)
                lines.append(t[0] + " G%d" % j + t[1] + " " + t[2])
            meta.update({"G%d" % j + kk: v for kk, v in m.items()})
        return lines, meta
    return gen
