"""Generators of step cases: every opcode encoding of the seven tables, structured random states."""
from . import pipeline
from .pipeline import step_line, rand_state, EDGE16, EDGE8

TABLES = ["main", "cb", "ed", "dd", "fd", "ddcb", "fdcb"]


def encodings():
    """all 7 x 256 dispatch cases as (table, opcode, byte-template); None in a template = displacement/operand."""
    encs = []
    for c in range(256):
        if c not in (0xCB, 0xDD, 0xED, 0xFD):
            encs.append(("main", c, [c]))
        encs.append(("cb", c, [0xCB, c]))
        encs.append(("ed", c, [0xED, c]))
        if c != 0xCB:
            encs.append(("dd", c, [0xDD, c]))
            encs.append(("fd", c, [0xFD, c]))
        encs.append(("ddcb", c, [0xDD, 0xCB, None, c]))
        encs.append(("fdcb", c, [0xFD, 0xCB, None, c]))
    return encs


def make_case(rng, cid, enc, nsteps=1, tracemode=0, io=None, coin=None):
    table, op, tmpl = enc
    st = rand_state(rng)
    # the halted indication of an earlier HALT / Run is not machine state: Step must behave the same with it set
    st["HALT"] = 1 if rng.chance(1, 8) else 0
    mem = {}
    # pointer registers sometimes aim at / around the instruction itself or each other (operand or stack overlapping the
    # instruction bytes: what is read first, what is written first)
    if rng.chance(1, 4):
        for k in ("SP", "IX", "IY"):
            if rng.chance(1, 2):
                st[k] = (st["PC"] + rng.below(9) - 3) & 0xFFFF
        if rng.chance(1, 2):
            hl = (st["PC"] + rng.below(9) - 3) & 0xFFFF
            st["H"], st["L"] = hl >> 8, hl & 0xFF
        if rng.chance(1, 3):
            de = (st["PC"] + rng.below(9) - 3) & 0xFFFF
            st["D"], st["E"] = de >> 8, de & 0xFF
    if coin is not None:
        # deterministic coincidence: the stack pointer and every pointer register at PC + coin (two roles at one address)
        a = (st["PC"] + coin) & 0xFFFF
        st["SP"], st["IX"], st["IY"] = a, a, a
        for hi, lo in (("H", "L"), ("D", "E"), ("B", "C")):
            st[hi], st[lo] = a >> 8, a & 0xFF
    # 16-bit INC/DEC: the carry / borrow between the halves (low byte 00h / FFh), for every pair incl. SP, IX, IY
    if table in ("main", "dd", "fd") and op in (0x03, 0x0B, 0x13, 0x1B, 0x23, 0x2B, 0x33, 0x3B) and rng.chance(1, 2):
        lo = rng.choice([0x00, 0xFF])
        for r8 in ("C", "E", "L"):
            st[r8] = lo
        for r16 in ("SP", "IX", "IY"):
            st[r16] = (st[r16] & 0xFF00) | lo
    # DJNZ: B at 0, 1, 2 with C all zeros / all ones (the counter is B alone)
    if table == "main" and op == 0x10 and rng.chance(1, 2):
        st["B"], st["C"] = rng.choice([0x01, 0x01, 0x00, 0x02, 0xFF]), rng.choice([0xFF, 0xFF, 0x00, 0x01])
    # counters of the block instructions and DJNZ at their corner values
    if table == "ed" and 0xA0 <= op <= 0xBB and rng.chance(1, 2):
        bc = rng.choice([0x0000, 0x0001, 0x0002, 0x0100, 0x0101, 0x00FF, 0xFF00, 0xFFFF])
        st["B"], st["C"] = bc >> 8, bc & 0xFF
    fill = rng.choice([0, 0xFF, 0x76, rng.below(256)])
    pc = st["PC"]
    bs = [(b if b is not None else rng.choice([0, 1, 0x7F, 0x80, 0xFF, rng.below(256)])) for b in tmpl]
    bs += [rng.choice(EDGE8) if rng.chance(1, 3) else rng.below(256) for _ in range(3)]
    if rng.chance(1, 4) and len(tmpl) < len(bs):
        bs[len(tmpl)] = 0xFF          # a 16-bit address operand ending in FFh: the word access crosses a page (or wraps)
    for i, b in enumerate(bs):
        mem[(pc + i) & 0xFFFF] = b
    # a few random data bytes where the instruction may look
    for r in ("SP", "IX", "IY"):
        for off in (-2, -1, 0, 1, 2):
            a = (st[r] + off) & 0xFFFF
            mem.setdefault(a, rng.below(256))
    for hi, lo in (("H", "L"), ("D", "E"), ("B", "C")):
        a = (st[hi] << 8) | st[lo]
        for off in (-1, 0, 1):
            mem.setdefault((a + off) & 0xFFFF, rng.below(256))
    inputs = [rng.below(256) for _ in range(2)]
    ioflag = io if io is not None else (0 if rng.chance(1, 12) else 1)
    return step_line(cid, st, mem=sorted(mem.items()), fill=fill, nsteps=nsteps, inputs=inputs,
                     tracemode=tracemode, io=ioflag, reti=rng.below(2), retn=rng.below(2))


def patch_state(line, **kv):
    """set named state fields (FIELDS names, IFF1 IFF2 IM HALT) in a step line."""
    t = line.split()
    base = 5
    names = pipeline.FIELDS[:22]
    for k, v in kv.items():
        if k in names:
            t[base + names.index(k)] = str(v)
        else:
            t[base + 26 + ["IFF1", "IFF2", "IM", "HALT"].index(k)] = str(v)
    return " ".join(t)


def with_irq(line, kind, data, at=0):
    """add one scheduled interrupt request (kind 0 = NMI, 1 = maskable) before step `at`."""
    t = line.split()
    pos = 5 + 26 + 7
    n = int(t[pos])
    # skip existing entries
    p = pos + 1
    for _ in range(n):
        nd = int(t[p + 2])
        p += 3 + nd
    t[pos] = str(n + 1)
    t[p:p] = [str(at), str(kind), str(len(data))] + [str(x) for x in data]
    return " ".join(t)


def set_steps(line, n, tracemode=None):
    t = line.split()
    t[3] = str(n)
    if tracemode is not None:
        t[4] = str(tracemode)
    return " ".join(t)
