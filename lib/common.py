"""Shared machinery for the /verif checks (python3, stdlib only).

Every check module in checks/cNN.py exposes  run(tier: str, seed: int) -> int
and uses the helpers below for: building Coq, building/running Go against the
*current working tree* of the repository, evidence files, VIOLATION lines,
known findings.
"""
import contextlib
import fcntl
import hashlib
import json
import os
import re
import shutil
import subprocess
import sys
import tempfile
import time

VERIF = os.path.dirname(os.path.dirname(os.path.abspath(__file__)))
REPO = os.environ.get("VERIF_REPO", "/repo")
COQ = os.path.join(VERIF, "coq")
BUILD = os.path.join(VERIF, "build")
EVID = os.path.join(VERIF, "evidence")
REPLAYS = os.path.join(VERIF, "replays")
NCPU = os.cpu_count() or 4

GOENV = dict(os.environ, GOFLAGS="-mod=mod", GOPROXY="off", GOSUMDB="off",
             GOTOOLCHAIN="local", CGO_ENABLED="0")
GOENV.setdefault("GOCACHE", os.path.join(BUILD, "gocache"))


def log(*a):
    print(*a, file=sys.stderr, flush=True)


# --------------------------------------------------------------------------
# deterministic PRNG (splitmix64): every random choice of a check derives
# from one state seeded by VERIF_SEED
class Rng:
    def __init__(self, seed):
        self.s = seed & 0xFFFFFFFFFFFFFFFF

    def next(self):
        self.s = (self.s + 0x9E3779B97F4A7C15) & 0xFFFFFFFFFFFFFFFF
        z = self.s
        z = ((z ^ (z >> 30)) * 0xBF58476D1CE4E5B9) & 0xFFFFFFFFFFFFFFFF
        z = ((z ^ (z >> 27)) * 0x94D049BB133111EB) & 0xFFFFFFFFFFFFFFFF
        return z ^ (z >> 31)

    def below(self, n):
        return self.next() % n

    def choice(self, xs):
        return xs[self.below(len(xs))]

    def chance(self, num, den):
        return self.below(den) < num


# --------------------------------------------------------------------------
@contextlib.contextmanager
def locked(name):
    os.makedirs(BUILD, exist_ok=True)
    f = open(os.path.join(BUILD, name + ".lock"), "w")
    fcntl.flock(f, fcntl.LOCK_EX)
    try:
        yield
    finally:
        fcntl.flock(f, fcntl.LOCK_UN)
        f.close()


def sh(cmd, cwd=None, env=None, timeout=None, inp=None):
    """run, return (rc, stdout+stderr); on timeout the whole process group is killed."""
    import signal
    p = subprocess.Popen(cmd, cwd=cwd, env=env, stdin=subprocess.PIPE if inp is not None else None,
                         stdout=subprocess.PIPE, stderr=subprocess.STDOUT, shell=isinstance(cmd, str), text=True,
                         start_new_session=True)
    try:
        out, _ = p.communicate(inp, timeout=timeout)
        return p.returncode, out
    except subprocess.TimeoutExpired:
        try:
            os.killpg(p.pid, signal.SIGKILL)
        except ProcessLookupError:
            pass
        out, _ = p.communicate()
        return 124, (out or "") + "\n[timeout after %ss]" % timeout


# --------------------------------------------------------------------------
# Coq
FORBIDDEN = re.compile(
    r"\b(Admitted|admit|Axiom|Axioms|Parameter|Parameters|Conjecture|Conjectures|"
    r"Unset\s+Guard|bypass_check|Admit\s+Obligations|Unset\s+Positivity|"
    r"Unset\s+Universe\s+Checking|native_compute|exact_no_check|vm_cast_no_check|native_cast_no_check|Abort)\b|type-in-type|impredicative-set")


def _strip_comments(src):
    out, depth, i = [], 0, 0
    while i < len(src):
        if src.startswith("(*", i):
            depth += 1
            i += 2
        elif src.startswith("*)", i) and depth:
            depth -= 1
            i += 2
        else:
            if not depth:
                out.append(src[i])
            i += 1
    return "".join(out)


def coq_sources():
    res = []
    for d, _, fs in os.walk(os.path.join(COQ, "theories")):
        for f in fs:
            if f.endswith(".v"):
                res.append(os.path.relpath(os.path.join(d, f), COQ))
    return sorted(res)


def hygiene():
    """returns list of 'file: offending text' (must be empty)."""
    bad = []
    for rel in coq_sources():
        src = _strip_comments(open(os.path.join(COQ, rel)).read())
        for m in FORBIDDEN.finditer(src):
            bad.append("%s: %s" % (rel, m.group(0)))
    # a Variable/Hypothesis outside a Section declares an axiom
    for rel in coq_sources():
        depth = 0
        for line in _strip_comments(open(os.path.join(COQ, rel)).read()).splitlines():
            s = line.strip()
            if re.match(r"(Section|Module)\b", s):
                depth += 1
            elif re.match(r"End\b", s):
                depth -= 1
            elif depth <= 0 and re.match(r"(Variable|Variables|Hypothesis|Hypotheses|Context)\b", s):
                bad.append("%s: %s outside a Section" % (rel, s.split()[0]))
    return bad


def coq_project():
    """(re)write _CoqProject and Makefile when the file list changed."""
    srcs = coq_sources()
    text = "-Q theories Z80V\n-arg -w -arg -notation-overridden,-deprecated-hint-without-locality,-deprecated-instance-without-locality\n" + "\n".join(srcs) + "\n"
    p = os.path.join(COQ, "_CoqProject")
    old = open(p).read() if os.path.exists(p) else None
    if old != text or not os.path.exists(os.path.join(COQ, "Makefile")):
        open(p, "w").write(text)
        rc, out = sh(["coq_makefile", "-f", "_CoqProject", "-o", "Makefile"], cwd=COQ)
        if rc:
            raise RuntimeError("coq_makefile failed:\n" + out)


def coq_make(targets, timeout=3000, jobs=None):
    """make the given .vo targets (paths relative to coq/).  Returns (ok, log)."""
    with locked("coq"):
        coq_project()
        cmd = ["make", "-j%d" % (jobs or NCPU)] + list(targets)
        t0 = time.time()
        rc, out = sh(cmd, cwd=COQ, timeout=timeout)
        log("[coq] make %s: rc=%d in %.1fs" % (" ".join(targets)[:200], rc, time.time() - t0))
        return rc == 0, out


def coq_failed_files(out):
    """names of .v files whose compilation failed, from a make log."""
    res = []
    for m in re.finditer(r'File "\./([^"]+\.v)", line (\d+)', out):
        res.append(m.group(1) + ":" + m.group(2))
    for m in re.finditer(r"make.*\*\*\* \[[^\]]*?([\w/]+\.vo)\]", out):
        res.append(m.group(1))
    return sorted(set(res))


def coq_dep_closure(vfile):
    """all .v files (relative to coq/) that vfile transitively depends on, incl. itself."""
    rc, out = sh(["coqdep", "-Q", "theories", "Z80V"] + coq_sources(), cwd=COQ)
    deps = {}
    for line in out.splitlines():
        if ":" not in line:
            continue
        lhs, rhs = line.split(":", 1)
        tg = [t for t in lhs.split() if t.endswith(".vo")]
        if not tg:
            continue
        src = tg[0][:-1]
        deps[src] = [d[:-1] for d in rhs.split() if d.endswith(".vo")]
    seen, todo = set(), [vfile]
    while todo:
        f = todo.pop()
        if f in seen:
            continue
        seen.add(f)
        todo += deps.get(f, [])
    return sorted(seen)


def count_obligations(vfiles):
    """number of Qed/Defined-closed statements in the given .v files."""
    n = 0
    for rel in vfiles:
        src = _strip_comments(open(os.path.join(COQ, rel)).read())
        n += len(re.findall(r"\b(Qed|Defined)\s*\.", src))
    return n


def print_assumptions(vfile):
    """compile-time output of `Print Assumptions` is in the make log only when the
    file is rebuilt; to have it on every run we re-run coqc on the (small) Props
    file.  Returns list of (theorem-ish, text)."""
    with locked("coq"):
        rc, out = sh(["coqc", "-Q", "theories", "Z80V", "-w", "none", vfile], cwd=COQ, timeout=3000)
    blocks = []
    if rc:
        return None, out
    closed = len(re.findall(r"Closed under the global context", out))
    axioms = re.findall(r"^Axioms:\n((?:.+\n)+)", out, re.M)
    return {"closed": closed, "axioms": axioms, "raw": out}, out


# --------------------------------------------------------------------------
# Go: build a main package that lives in /verif against the CURRENT working
# tree of the repository.  The program's files are added to the repository
# build virtually with `go build -overlay`, at <repo>/<pkgdir>/, so that they
# can reach internal packages (and, when pkgdir is ".", unexported names of
# package z80) although nothing under /repo is touched.
def go_build_overlay(name, files, pkgdir, tags=None, race=False, extra_replace=None):
    """files: {basename: path under /verif}; returns path of the binary."""
    os.makedirs(BUILD, exist_ok=True)
    ov = {"Replace": {}}
    for base, src in files.items():
        ov["Replace"][os.path.join(REPO, pkgdir, base)] = os.path.abspath(src)
    if extra_replace:
        ov["Replace"].update(extra_replace)
    ovp = os.path.join(BUILD, "%s.%d.overlay.json" % (name, os.getpid()))
    json.dump(ov, open(ovp, "w"))
    out = os.path.join(BUILD, name + (".race" if race else "") + ".bin")
    tmp = "%s.%d.tmp" % (out, os.getpid())
    cmd = ["go", "build", "-overlay", ovp, "-o", tmp]
    if race:
        cmd.append("-race")
    if tags:
        cmd += ["-tags", tags]
    cmd.append("./" + pkgdir if pkgdir != "." else ".")
    env = dict(GOENV)
    if race:
        env["CGO_ENABLED"] = "1"
    rc, o = sh(cmd, cwd=REPO, env=env, timeout=900)
    try:
        os.remove(ovp)
    except OSError:
        pass
    if rc:
        raise GoBuildError(o)
    os.replace(tmp, out)   # atomic: a check that is still running the previous binary keeps its own copy
    return out


class GoBuildError(Exception):
    pass


def repo_describe():
    rc, o = sh("git -C %s rev-parse --short HEAD; git -C %s status --porcelain | wc -l" % (REPO, REPO))
    return " ".join(o.split())


# --------------------------------------------------------------------------
# evidence, violations, findings
def write_evidence(prop, tier, seed, level, coverage, assumptions, wall_s, violations=0):
    os.makedirs(EVID, exist_ok=True)
    ev = {"property_id": prop, "tier": tier, "seed": int(seed), "level": level,
          "coverage": coverage, "assumptions": assumptions,
          "wall_s": round(wall_s, 2), "violations": int(violations),
          "repo": repo_describe()}
    p = os.path.join(EVID, prop + ".json")
    json.dump(ev, open(p, "w"), indent=1, sort_keys=True)
    return p


def violation(prop, replay, found_input=True):
    """write the replay file and print the VIOLATION line. returns the path."""
    os.makedirs(REPLAYS, exist_ok=True)
    blob = json.dumps(replay, sort_keys=True, indent=1)
    h = hashlib.sha256(blob.encode()).hexdigest()[:12]
    p = os.path.join(REPLAYS, "%s-%s.json" % (prop, h))
    open(p, "w").write(blob)
    line = "VIOLATION property=%s replay=%s" % (prop, p)
    if not found_input:
        line += " no-failing-input-found"
    print(line, flush=True)
    return p


def load_findings(prop=None):
    p = os.path.join(VERIF, "known_findings.json")
    if not os.path.exists(p):
        return []
    fs = json.load(open(p))
    return [f for f in fs if prop is None or prop in f.get("properties", [f.get("property")])]


def known_finding_line(prop, text):
    print("KNOWN-FINDING: property=%s %s" % (prop, text), flush=True)


def tier_seed(argv_tier=None):
    tier = argv_tier or os.environ.get("VERIF_TIER", "quick")
    seed = int(os.environ.get("VERIF_SEED", "1") or "1")
    return tier, seed


@contextlib.contextmanager
def scratch(prefix="verif-"):
    d = tempfile.mkdtemp(prefix=prefix, dir=os.environ.get("VERIF_TMP", "/tmp"))
    try:
        yield d
    finally:
        shutil.rmtree(d, ignore_errors=True)
