"""The shared pipeline for the CPU properties: regenerate the Gallina model from the
current Go source (go2coq), build proofs, build the extracted model + the Go stepper,
run cases through both and compare."""
import hashlib
import os
import sys
import re
import subprocess
import time

from . import common
from .common import VERIF, COQ, BUILD, REPO, log, sh

GEN = os.path.join(COQ, "theories", "Gen")
GO2COQ = os.path.join(BUILD, "go2coq")
DRIVER = os.path.join(BUILD, "extract", "driver")

FIELDS = ["A", "F", "B", "C", "D", "E", "H", "L", "A'", "F'", "B'", "C'", "D'", "E'", "H'", "L'",
          "I", "R", "IX", "IY", "SP", "PC", "IFF1", "IFF2", "IM", "HALT", "IRQ_PENDING", "NTRACE", "TRACEHASH"]
EVK = ["rd", "wr", "in", "out", "reti", "retn", "warn", "panic"]


class TranslationError(Exception):
    pass


def build_go2coq():
    os.makedirs(BUILD, exist_ok=True)
    rc, out = sh(["go", "build", "-o", GO2COQ, "."], cwd=os.path.join(VERIF, "go2coq"), env=common.GOENV, timeout=600)
    if rc:
        raise RuntimeError("building go2coq failed:\n" + out)


def regen():
    """translate the current working tree; raises TranslationError when the source is outside
    the translated subset or the struct types changed."""
    if not os.path.exists(GO2COQ):
        build_go2coq()
    with common.locked("coq"):
        rc, out = sh([GO2COQ, "-repo", REPO, "-out", GEN], timeout=300)
    if rc:
        raise TranslationError(out.strip())
    gen = open(os.path.join(GEN, "Types.generated")).read()
    pin = open(os.path.join(COQ, "theories", "Prelude", "Types.v")).read()
    strip = lambda s: s[s.index("From Z80V Require Export Prelude.Base."):]
    if strip(gen) != strip(pin):
        raise TranslationError("the Go struct types no longer match the pinned Prelude/Types.v "
                               "(diff %s/Types.generated against it)" % GEN)
    return out


def build_driver(timeout=900):
    """extract Gen + Spec to OCaml and link the driver. Returns path or raises."""
    d = os.path.join(BUILD, "extract")
    os.makedirs(d, exist_ok=True)
    with common.locked("extract"):
        ok, out = common.coq_make(["theories/Gen/Run.vo", "theories/Spec/Exec.vo"], timeout=timeout)
        if not ok:
            raise RuntimeError("building Gen/Spec failed:\n" + out[-3000:])
        # stamp: rebuild only when inputs changed
        hsh = hashlib.sha256()
        for f in ["theories/Gen/Exec.vo", "theories/Gen/Run.vo", "theories/Gen/Funcs.vo", "theories/Gen/Mem.vo", "theories/Spec/Exec.vo",
                  "theories/Spec/Flags.vo", "theories/Spec/Instr.vo", "extract/Extract.v", "extract/driver.ml"]:
            hsh.update(open(os.path.join(COQ, f), "rb").read())
        stamp = os.path.join(d, "stamp")
        if os.path.exists(DRIVER) and os.path.exists(stamp) and open(stamp).read() == hsh.hexdigest():
            return DRIVER
        rc, out = sh(["coqc", "-Q", os.path.join(COQ, "theories"), "Z80V", os.path.join(COQ, "extract", "Extract.v")],
                     cwd=d, timeout=timeout)
        if rc:
            raise RuntimeError("extraction failed:\n" + out[-3000:])
        import shutil
        shutil.copy(os.path.join(COQ, "extract", "driver.ml"), os.path.join(d, "driver.ml"))
        rc, out = sh("ocamlfind ocamlopt -O3 -w -a -o driver model.mli model.ml driver.ml 2>&1 || "
                     "ocamlfind ocamlopt -w -a -o driver model.mli model.ml driver.ml", cwd=d, timeout=timeout)
        if rc:
            raise RuntimeError("ocamlopt failed:\n" + out[-3000:])
        open(stamp, "w").write(hsh.hexdigest())
    return DRIVER


SPEC_DRIVER = os.path.join(BUILD, "extract_spec", "driver")
SPEC_STUBS = """
(* stubs: the generated model is not part of this build *)
let step (c : cPU) : cPU = failwith "generated model not available"
let gPR_GetFlag (_ : gPR) (_ : z) : bool = failwith "gen"
let gPR_SetFlag (g : gPR) (_ : z) : gPR = failwith "gen"
let gPR_ResetFlag (g : gPR) (_ : z) : gPR = failwith "gen"
let register_SetU16 (r : register) (_ : z) : register = failwith "gen"
let register_U16 (_ : register) : z = failwith "gen"
let run_enter (c : cPU) : cPU = set_CPU_HALT c false
"""


def build_spec_driver(timeout=900):
    """the specification alone (no dependency on Gen/): for the failing-input search."""
    d = os.path.join(BUILD, "extract_spec")
    os.makedirs(d, exist_ok=True)
    with common.locked("extract"):
        ok, out = common.coq_make(["theories/Spec/Exec.vo"], timeout=timeout)
        if not ok:
            raise RuntimeError("building Spec failed:\n" + out[-3000:])
        hsh = hashlib.sha256()
        for f in ["theories/Spec/Exec.vo", "theories/Spec/Flags.vo", "theories/Spec/Instr.vo", "theories/Prelude/Env.vo",
                  "extract/ExtractSpec.v", "extract/driver.ml"]:
            hsh.update(open(os.path.join(COQ, f), "rb").read())
        stamp = os.path.join(d, "stamp")
        if os.path.exists(SPEC_DRIVER) and os.path.exists(stamp) and open(stamp).read() == hsh.hexdigest():
            return SPEC_DRIVER
        rc, out = sh(["coqc", "-Q", os.path.join(COQ, "theories"), "Z80V", os.path.join(COQ, "extract", "ExtractSpec.v")],
                     cwd=d, timeout=timeout)
        if rc:
            raise RuntimeError("extraction failed:\n" + out[-3000:])
        open(os.path.join(d, "model.ml"), "a").write(SPEC_STUBS)
        mli = open(os.path.join(d, "model.mli")).read()
        os.remove(os.path.join(d, "model.mli"))
        import shutil
        shutil.copy(os.path.join(COQ, "extract", "driver.ml"), os.path.join(d, "driver.ml"))
        rc, out = sh("ocamlfind ocamlopt -O3 -w -a -o driver model.ml driver.ml 2>&1 || "
                     "ocamlfind ocamlopt -w -a -o driver model.ml driver.ml", cwd=d, timeout=timeout)
        if rc:
            raise RuntimeError("ocamlopt failed:\n" + out[-3000:])
        open(stamp, "w").write(hsh.hexdigest())
    return SPEC_DRIVER


def build_stepper(race=False):
    return common.go_build_overlay("stepper", {"main.go": os.path.join(VERIF, "harness", "stepper", "main.go")},
                                   "cmd/verif_step", race=race)


def run_lines(binary, lines, timeout=1800):
    p = subprocess.run([binary], input="\n".join(lines) + "\n", stdout=subprocess.PIPE, stderr=subprocess.PIPE,
                       text=True, timeout=timeout)
    if p.returncode:
        raise RuntimeError("%s failed (rc=%d): %s" % (binary, p.returncode, p.stderr[-2000:]))
    res = {}
    for l in p.stdout.splitlines():
        t = l.split()
        if t:
            res[t[0]] = t[1:]
    return res


def with_model(line, m):
    """set the model selector (token 2) of a step line."""
    t = line.split(" ", 3)
    if t[0] != "step":
        return line
    t[2] = str(m)
    return " ".join(t)


def describe_diff(go, coq):
    """which observable differs: list of (field, go, coq)."""
    out = []
    n = min(len(go), len(coq), len(FIELDS))
    for i in range(n):
        if go[i] != coq[i]:
            out.append((FIELDS[i], go[i], coq[i]))
    if len(go) > len(FIELDS) or len(coq) > len(FIELDS):
        ge, ce = go[len(FIELDS):], coq[len(FIELDS):]
        for k in range(0, max(len(ge), len(ce)), 3):
            g, c = ge[k:k + 3], ce[k:k + 3]
            if g != c:
                fmt = lambda e: "%s %s=%s" % (EVK[int(e[0])], e[1], e[2]) if len(e) == 3 else "none"
                out.append(("event[%d]" % (k // 3), fmt(g), fmt(c)))
                break
    return out


def compare(lines, go_bin, drv, model=0, spec_masks=False):
    """run all lines on the real code and on the model; returns list of (id, line, diffs)."""
    go = run_lines(go_bin, lines)
    mism = []
    if not spec_masks:
        coq = run_lines(drv, [with_model(l, model) for l in lines])
        for l in lines:
            i = l.split()[1]
            if go.get(i) != coq.get(i):
                mism.append((i, l, describe_diff(go.get(i, []), coq.get(i, []))))
        return mism, go
    # specification with unspecified bits: run two resolutions; a field is compared only where they agree
    ca = run_lines(drv, [with_model(l, 1) for l in lines])
    cb = run_lines(drv, [with_model(l, 2) for l in lines])
    for l in lines:
        i = l.split()[1]
        g, a, b = go.get(i, []), ca.get(i, []), cb.get(i, [])
        d = spec_diff(g, a, b)
        if d:
            mism.append((i, l, d))
    return mism, go


def spec_diff(g, a, b):
    if not g or not a or not b:
        return [("missing", str(len(g)), str(len(a)))]
    out = []
    for k, name in enumerate(FIELDS[:27]):
        if a[k] == b[k]:
            if g[k] != a[k]:
                out.append((name, g[k], a[k]))
        elif name in ("F", "F'"):
            mask = 0xFF & ~(int(a[k]) ^ int(b[k]))
            if int(g[k]) & mask != int(a[k]) & mask:
                out.append((name + "&%#x" % mask, g[k], a[k]))
        elif name == "R":
            if g[k] not in (a[k], b[k]):
                out.append((name, g[k], a[k] + "|" + b[k]))
        else:
            # a field that depends on an unspecified choice: accept either
            if g[k] not in (a[k], b[k]):
                out.append((name, g[k], a[k] + "|" + b[k]))
    # events: compare as multisets per kind when both resolutions agree on count
    if a[27] == b[27] and len(g) > 29 and len(a) > 29:
        ge = sorted(tuple(g[29 + j:32 + j]) for j in range(0, len(g) - 29, 3))
        ae = sorted(tuple(a[29 + j:32 + j]) for j in range(0, len(a) - 29, 3))
        be = sorted(tuple(b[29 + j:32 + j]) for j in range(0, len(b) - 29, 3))
        if ge != ae and ge != be:
            onlyg = [e for e in ge if e not in ae]
            onlya = [e for e in ae if e not in ge]
            fmt = lambda es: ",".join("%s %s=%s" % (EVK[int(e[0])], e[1], e[2]) for e in es[:4]) or "-"
            out.append(("accesses(multiset)", fmt(onlyg), fmt(onlya)))
    elif a[27] == b[27] and g[27] != a[27]:
        out.append(("NTRACE", g[27], a[27]))
    return out


# --------------------------------------------------------------------------
# case construction
def step_line(cid, st, mem=(), fill=0, nsteps=1, inputs=(), sched=(), tracemode=0, io=1, reti=1, retn=1, model=0):
    """st: dict with keys of FIELDS[:26] (missing = 0)."""
    regs = [st.get(k, 0) for k in FIELDS[:22]]
    t = ["step", str(cid), str(model), str(nsteps), str(tracemode)] + [str(x) for x in regs]
    # order in the line: 26 register slots = 16 gpr + I R IX IY SP PC ... (22) then 4 unused
    t += ["0", "0", "0", "0"]
    t += [str(st.get("IFF1", 0)), str(st.get("IFF2", 0)), str(st.get("IM", 0)), str(st.get("HALT", 0))]
    t += [str(io), str(reti), str(retn)]
    t.append(str(len(sched)))
    for (at, kind, data) in sched:
        t += [str(at), str(kind), str(len(data))] + [str(x) for x in data]
    t.append(str(fill))
    mem = list(mem)
    t.append(str(len(mem)))
    for a, v in mem:
        t += [str(a & 0xFFFF), str(v & 0xFF)]
    t.append(str(len(inputs)))
    t += [str(x) for x in inputs]
    return " ".join(t)


EDGE16 = [0, 1, 2, 0x7F, 0x80, 0xFF, 0x100, 0x7FFF, 0x8000, 0xFFFE, 0xFFFF]
EDGE8 = [0, 1, 0x0F, 0x10, 0x7F, 0x80, 0xFE, 0xFF]


def rand_state(rng):
    st = {}
    for k in FIELDS[:18]:
        st[k] = rng.choice(EDGE8) if rng.chance(1, 3) else rng.below(256)
    for k in ["IX", "IY", "SP", "PC"]:
        st[k] = rng.choice(EDGE16) if rng.chance(1, 2) else rng.below(65536)
    st["IFF1"], st["IFF2"] = rng.below(2), rng.below(2)
    st["IM"] = rng.choice([0, 1, 2, 1, 2, 3]) if rng.chance(9, 10) else rng.below(7) - 2
    st["HALT"] = 1 if rng.chance(1, 10) else 0
    return st


def gen_data():
    """the data files of the hand models (Gen/TinyData.v, Gen/ZexData.v, Gen/CimConsts.v) are regenerated from the
    repository by their checks on every run; setup produces them once so that everything can be built."""
    import importlib
    sys.path.insert(0, VERIF)
    try:
        c18 = importlib.import_module("checks.c18")
        c18.write_data(c18.dump_bios(c18.build()))
    except Exception as e:
        log("setup: TinyData.v not generated: %s" % str(e)[-300:])
    try:
        c17 = importlib.import_module("checks.c17")
        res = c17.analyse()
        if res["build_error"] is None:
            c17.write_if_changed(c17.GEN_V, c17.render_gen(res["dump"], res["images"]))
        else:
            log("setup: ZexData.v not generated: %s" % res["build_error"][-300:])
    except Exception as e:
        log("setup: ZexData.v not generated: %s" % str(e)[-300:])
    try:
        c19 = importlib.import_module("checks.c19")
        c19.extract_consts()
    except Exception as e:
        log("setup: CimConsts.v not generated: %s" % str(e)[-300:])


def setup():
    """MANIFEST.setup_cmd: build everything offline."""
    t0 = time.time()
    build_go2coq()
    regen()
    gen_data()
    import json
    man = json.load(open(os.path.join(VERIF, "MANIFEST.json")))
    targets = ["theories/Gen/Names.vo", "theories/Spec/Exec.vo"]
    for c in man["checks"]:
        v = "theories/Props/%s.v" % c["property_id"]
        if os.path.exists(os.path.join(COQ, v)):
            targets.append(v + "o")
    # checks that generate their own data files do so when they run; build what exists now
    ok, out = common.coq_make(targets, timeout=7000)
    if not ok and "No rule to make target" in out:
        for c in man["checks"]:
            sh(["python3", os.path.join(VERIF, "bin", "check"), c["property_id"], "quick"], timeout=3000)
        ok, out = common.coq_make(targets, timeout=7000)
    if not ok:
        log(out[-4000:])
        log("setup: coq build failed")
        return 1
    build_driver()
    build_stepper()
    log("setup done in %.0fs" % (time.time() - t0))
    return 0


# --------------------------------------------------------------------------
# the proof stage shared by the CPU properties
def proof_stage(prop, timeout=3000):
    """regenerate Gen/, build Props/<prop>.vo, collect Print Assumptions.
    returns dict(ok, broken, detail, closed, axioms, obligations, files)."""
    res = {"ok": False, "broken": None, "detail": "", "closed": 0, "axioms": [], "obligations": 0, "files": []}
    if os.environ.get("VERIF_CAMPAIGN"):
        # mutation campaign, fast mode: go straight to the failing-input search (the proof stage is exercised separately)
        res["broken"] = "campaign mode: proof stage skipped"
        return res
    bad = common.hygiene()
    if bad:
        res["broken"] = "hygiene"
        res["detail"] = "; ".join(bad[:10])
        return res
    try:
        regen()
    except TranslationError as e:
        res["broken"] = "go2coq translation of the current source"
        res["detail"] = str(e)[-1500:]
        return res
    vfile = "theories/Props/%s.v" % prop
    ok, out = common.coq_make([vfile + "o"], timeout=timeout)
    if not ok:
        failed = common.coq_failed_files(out)
        res["broken"] = "proof: " + (", ".join(failed[:6]) or "coq build")
        m = re.search(r"(File \"[^\n]*\n(?:.*\n){0,12})", out)
        res["detail"] = (m.group(1) if m else out[-1500:])[-1500:]
        return res
    pa, raw = common.print_assumptions(vfile)
    if pa is None:
        res["broken"] = "proof: " + vfile
        res["detail"] = raw[-1500:]
        return res
    files = common.coq_dep_closure(vfile)
    res.update(ok=True, closed=pa["closed"], axioms=pa["axioms"], files=files,
               obligations=common.count_obligations(files))
    nthm = len(re.findall(r"^Print Assumptions", open(os.path.join(COQ, vfile)).read(), re.M))
    if pa["closed"] + len(pa["axioms"]) != nthm:
        res["ok"] = False
        res["broken"] = "Print Assumptions count mismatch in " + vfile
    return res


TRUSTED_BASE = [
    "Coq 8.16.1 kernel incl. its vm_compute machine (finite enumerations); no native_compute",
    "axioms: none (every property theorem prints 'Closed under the global context')",
    "go2coq: my Go->Gallina translator (reading of Go's wrap-around, conversions, evaluation order); "
    "validated on every run by the Gen-vs-Go differential run",
    "Prelude (Base, Env): memory is a plain byte store, devices answer from an input stream, handlers only notify",
    "Spec/*: hand-written Z80 semantics = the definition of what the instruction set defines",
    "extraction (Require Extraction + ExtrOcamlBasic only; Z/positive/N/nat/byte inductive), OCaml driver, "
    "Go stepper: trusted for the correspondence and the search only",
]
